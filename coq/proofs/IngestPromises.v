(* The life cycle of the promises of the sub-pushes (invariant LJ) and, from it, C02's "no row is duplicated inside
   a block": in a fresh run (model/IngestFresh.v) the rows of the promises a worker holds are pairwise distinct. *)
From Coq Require Import List NArith ZArith Bool Lia Arith Permutation.
From Qryn Require Import model.Ingest model.PushHandler model.IngestSpec model.IngestSched model.IngestFresh proofs.IngestBase
  proofs.IngestAck proofs.IngestSpecProofs proofs.IngestHandler proofs.IngestDrain proofs.IngestLive proofs.IngestLiveAll.
From Qryn Require model.IngestCases.
Import ListNotations.

(* ---------------------------------------------------------------- lists *)
Lemma NoDup_app_disj {A} (a b : list A) x : NoDup (a ++ b) -> In x a -> ~ In x b.
Proof.
  induction a as [|y a IH]; cbn; intros N H; [destruct H|]. inversion N as [|? ? Hn Hnd]; subst. destruct H as [->|H].
  - intros Hb. apply Hn. apply in_app_iff. right. assumption.
  - apply IH; assumption.
Qed.
Lemma NoDup_app_r {A} (a b : list A) : NoDup (a ++ b) -> NoDup b.
Proof. induction a as [|y a IH]; cbn; intros N; [assumption|]. inversion N; subst. auto. Qed.
Lemma NoDup_app_l {A} (a b : list A) : NoDup (a ++ b) -> NoDup a.
Proof.
  induction a as [|y a IH]; cbn; intros N; [constructor|]. inversion N as [|? ? Hn Hnd]; subst. constructor; [|auto].
  intros H. apply Hn. apply in_app_iff. left. assumption.
Qed.
Lemma perm_mid {A} (a x d b : list A) : Permutation (a ++ (x ++ d) ++ b) (d ++ a ++ x ++ b).
Proof.
  rewrite <- (app_assoc x d b). transitivity (a ++ d ++ x ++ b).
  - apply Permutation_app_head. apply Permutation_app_swap_app.
  - apply Permutation_app_swap_app.
Qed.
Lemma perm_ins {A} (a x y b : list A) p : Permutation (p :: a ++ (x ++ y) ++ b) (a ++ (x ++ p :: y) ++ b).
Proof.
  rewrite <- !app_assoc. transitivity (a ++ p :: x ++ y ++ b); [apply Permutation_middle|].
  apply Permutation_app_head. cbn. apply Permutation_middle.
Qed.

Lemma LL_split l s sv : nth_error l s = Some sv -> LL l = LL (firstn s l) ++ lives sv ++ LL (skipn (S s) l).
Proof. intros H. rewrite (nth_split_eq l s sv H) at 1. now rewrite LL_app, LL_cons. Qed.
Lemma LL_upd l s sv sv' : nth_error l s = Some sv -> LL (upd s sv' l) = LL (firstn s l) ++ lives sv' ++ LL (skipn (S s) l).
Proof. intros H. rewrite (upd_split l s sv sv' H). now rewrite LL_app, LL_cons. Qed.

Definition psubs (l : list (pid * req)) : list pid := filter is_psub (map fst l).
Lemma psubs_app a b : psubs (a ++ b) = psubs a ++ psubs b.
Proof. unfold psubs. now rewrite map_app, filter_app. Qed.
Lemma psubs_in l p : In p (psubs l) <-> is_psub p = true /\ exists r, In (p, r) l.
Proof.
  unfold psubs. rewrite filter_In. split.
  - intros [H1 H2]. split; [assumption|]. apply in_map_iff in H1 as ([q r] & E & Hin). cbn in E. subst q. eauto.
  - intros [H1 (r & H2)]. split; [|assumption]. apply in_map_iff. exists (p, r). auto.
Qed.
Lemma lives_psubs sv : lives sv = psubs (pend sv).
Proof. reflexivity. Qed.

Lemma lookup_some_in_store p st v : lookup_store p st = Some v -> in_store p st = true.
Proof.
  induction st as [|[q w] st IH]; cbn; [discriminate|]. destruct (pid_eqb p q); [reflexivity|]. cbn. exact IH.
Qed.

(* ---------------------------------------------------------------- what a worker step does to pend and store *)
Inductive effect (sv sv' : svc) (a : sact) (vs : list sev) : Prop :=
 | EfSame : pend sv' = pend sv -> dones vs = [] -> effect sv sv' a vs
 | EfRet D ok : pend sv = pend sv' ++ D -> dones vs = map (fun pr : pid * req => (fst pr, ok)) D -> effect sv sv' a vs
 | EfImm p r sz ok : a = SRequest p r sz -> pend sv' = pend sv -> dones vs = [(p, ok)] -> effect sv sv' a vs
 | EfAcc p r sz X Y : a = SRequest p r sz -> pend sv = X ++ Y -> pend sv' = X ++ (p, r) :: Y -> dones vs = [] -> effect sv sv' a vs.

Lemma sstep_effect sv a sv' vs : sstep sv a = Some (sv', vs) -> effect sv sv' a vs.
Proof.
  intros H. destruct (sstep_shape _ _ _ _ H) as (Sh & _ & _).
  destruct Sh as [R I V|q r sz E R I V|E I N R I' V|po E I S R I' V|po ok E I S R I' V].
  - destruct V as [->|(p & r & sz & ok & -> & ->)].
    + apply EfSame; [unfold pend; now rewrite R, I|reflexivity].
    + eapply EfImm; [reflexivity|unfold pend; now rewrite R, I|reflexivity].
  - subst. eapply (EfAcc _ _ _ _ q r sz (results sv) (match inflight sv with Some po => p_res po | None => [] end)); auto.
    unfold pend. rewrite R, I, <- app_assoc. reflexivity.
  - subst. apply EfSame; [|reflexivity]. unfold pend. rewrite R, I', I. cbn. now rewrite app_nil_r.
  - subst. apply EfSame; [|reflexivity]. unfold pend. rewrite R, I', I. reflexivity.
  - subst. apply (EfRet _ _ _ _ (p_res po) ok).
    + unfold pend. rewrite R, I', I. now rewrite app_nil_r.
    + cbn [dones]. apply dones_map.
Qed.

(* ---------------------------------------------------------------- the invariant *)
Record LJ (g : gstate) : Prop := {
  lj_cur : forall h i sp k, sub_at (hs g) h i = Some sp -> sp_cur sp = Some k ->
             sp_used sp = N.succ k /\ (In (PSub h i k) (LL (svcs g)) \/ in_store (PSub h i k) (store g) = true);
  lj_live : forall s sv h i k r, nth_error (svcs g) s = Some sv -> In (PSub h i k, r) (pend sv) ->
             exists sp, sub_at (hs g) h i = Some sp /\ sp_cur sp = Some k /\ sp_req sp = r;
  lj_store : forall h i k, in_store (PSub h i k) (store g) = true ->
             exists sp, sub_at (hs g) h i = Some sp /\ (k < sp_used sp)%N;
  lj_nodup : NoDup (LL (svcs g));
  lj_fresh : forall p, In p (LL (svcs g)) -> in_store p (store g) = false
}.

Lemma LJ_init cfg n : LJ (ginit cfg n).
Proof.
  assert (E : forall l, LL (map (fun c : kind * nat * Z => svc_init (fst (fst c)) (snd (fst c)) (snd c)) l) = []).
  { induction l as [|c l IH]; [reflexivity|]. cbn [map]. rewrite LL_cons, IH. reflexivity. }
  constructor; cbn [ginit svcs store hs attempts]; rewrite ?E.
  - intros h i sp k H. rewrite sub_at_nil in H. discriminate.
  - intros s sv h i k r Hs Hin. apply nth_error_In in Hs. apply in_map_iff in Hs as (c & <- & _). destruct Hin.
  - discriminate.
  - constructor.
  - intros p [].
Qed.

(* a pending sub-push promise is in LL *)
Lemma pending_in_LL l s sv h i k r : nth_error l s = Some sv -> In (PSub h i k, r) (pend sv) -> In (PSub h i k) (LL l).
Proof. intros Hs Hin. apply LL_in. exists s, sv. split; [assumption|]. apply lives_in. split; [reflexivity|eauto]. Qed.

Lemma existsb_pid_in p l : existsb (pid_eqb p) l = true -> In p l.
Proof. intros H. apply existsb_exists in H as (q & Hq & E). apply pid_eqb_eq in E. now subst. Qed.

(* steps of a worker that are not requests *)
Lemma LJ_svc_quiet g s a g' es : LJ g -> is_request a = false -> svc_act g s a = Some (g', es) -> LJ g'.
Proof.
  intros J NR Hact. destruct (svc_act_frame _ _ _ _ _ Hact) as (sv & sv' & vs & es0 & Hs & Hstep & Hap & Esv & Eh & Ea).
  pose proof (apply_sevs_store _ _ _ _ _ _ Hap) as ST.
  destruct (sstep_effect _ _ _ _ Hstep) as [Pe Dn|D ok Pe Dn|p r sz ok E _ _|p r sz X Y E _ _ _]; try (subst a; discriminate).
  - (* nothing moves *)
    assert (EL : LL (svcs g') = LL (svcs g)).
    { rewrite Esv, (LL_upd _ _ _ _ Hs), (LL_split _ _ _ Hs), !lives_psubs, Pe. reflexivity. }
    assert (ES : forall q, in_store q (store g') = in_store q (store g)) by (intros q; rewrite ST, Dn; apply orb_false_r).
    constructor.
    + intros h i sp k Hsub Hc. rewrite Eh in Hsub. rewrite EL, ES. eapply lj_cur; eauto.
    + intros s0 sv0 h i k r H0 Hin. rewrite Eh. rewrite Esv in H0. apply nth_error_upd_cases in H0 as [[<- ->]|[_ H0]].
      * rewrite Pe in Hin. eapply lj_live; eauto.
      * eapply lj_live; eauto.
    + intros h i k. rewrite ES, Eh. apply (lj_store _ J).
    + rewrite EL. apply (lj_nodup _ J).
    + intros q. rewrite EL, ES. apply (lj_fresh _ J).
  - (* a Do returned: the waiters D of the portion leave the worker and are completed *)
    set (A := LL (firstn s (svcs g))). set (B := LL (skipn (S s) (svcs g))).
    assert (EL : LL (svcs g) = A ++ (psubs (pend sv') ++ psubs D) ++ B).
    { rewrite (LL_split _ _ _ Hs), lives_psubs, Pe, psubs_app. reflexivity. }
    assert (EL' : LL (svcs g') = A ++ psubs (pend sv') ++ B) by (rewrite Esv, (LL_upd _ _ _ _ Hs); reflexivity).
    assert (ES : forall q, in_store q (store g') = in_store q (store g) || existsb (pid_eqb q) (map fst D)).
    { intros q. rewrite ST, Dn, map_map. cbn [fst]. reflexivity. }
    assert (SUB : forall q, In q (LL (svcs g')) -> In q (LL (svcs g))).
    { intros q. rewrite EL, EL', !in_app_iff. tauto. }
    pose proof (lj_nodup _ J) as ND. rewrite EL in ND. apply (Permutation_NoDup (perm_mid _ _ _ _)) in ND.
    constructor.
    + intros h i sp k Hsub Hc. rewrite Eh in Hsub. destruct (lj_cur _ J _ _ _ _ Hsub Hc) as [U [X|X]]; split; try assumption.
      * rewrite EL in X. rewrite EL', ES. rewrite !in_app_iff in X. rewrite !in_app_iff.
        destruct X as [X|[[X|X]|X]]; try tauto. right. apply orb_true_iff. right.
        apply psubs_in in X as (_ & r & X). apply existsb_pid. apply in_map_iff. exists (PSub h i k, r). auto.
      * right. rewrite ES, X. reflexivity.
    + intros s0 sv0 h i k r H0 Hin. rewrite Eh. rewrite Esv in H0. apply nth_error_upd_cases in H0 as [[<- ->]|[_ H0]].
      * eapply lj_live; eauto. rewrite Pe. apply in_app_iff. left. assumption.
      * eapply lj_live; eauto.
    + intros h i k. rewrite ES, Eh. intros H. apply orb_true_iff in H as [H|H]; [exact (lj_store _ J _ _ _ H)|].
      apply existsb_pid_in in H. apply in_map_iff in H as ([q r] & E & Hin). cbn in E. subst q.
      assert (Hp : In (PSub h i k, r) (pend sv)) by (rewrite Pe; apply in_app_iff; right; assumption).
      destruct (lj_live _ J _ _ _ _ _ _ Hs Hp) as (sp & Hsub & Hc & _). destruct (lj_cur _ J _ _ _ _ Hsub Hc) as [U _].
      exists sp. split; [assumption|]. lia.
    + rewrite EL'. apply NoDup_app_r in ND. exact ND.
    + intros q Hq. rewrite ES. rewrite (lj_fresh _ J _ (SUB _ Hq)). cbn.
      apply not_true_is_false. intros H. apply existsb_pid_in in H.
      assert (Hd : In q (psubs D)).
      { apply in_map_iff in H as ([q0 r] & E & Hin). cbn in E. subst q0. apply psubs_in. split; [|eauto].
        apply LL_in in Hq as (s1 & sv1 & _ & Hl). apply lives_in in Hl. tauto. }
      rewrite EL' in Hq. exact (NoDup_app_disj _ _ _ ND Hd Hq).
Qed.

(* ---------------------------------------------------------------- requests *)
Lemma sstep_request_effect sv p r sz sv' vs : sstep sv (SRequest p r sz) = Some (sv', vs) ->
  (exists ok, pend sv' = pend sv /\ dones vs = [(p, ok)]) \/
  (exists X Y, pend sv = X ++ Y /\ pend sv' = X ++ (p, r) :: Y /\ dones vs = []).
Proof.
  intros H. destruct (sstep_request _ _ _ _ _ _ H) as (I & _ & [(ok & -> & R & _)|(-> & R & _)]).
  - left. exists ok. split; [unfold pend; now rewrite R, I|reflexivity].
  - right. exists (results sv), (match inflight sv with Some po => p_res po | None => [] end).
    split; [reflexivity|]. split; [unfold pend; rewrite R, I, <- app_assoc; reflexivity|reflexivity].
Qed.

Lemma LJ_same g g' : LJ g -> hs g' = hs g -> LL (svcs g') = LL (svcs g) ->
  (forall q, is_psub q = true -> in_store q (store g') = in_store q (store g)) ->
  (forall s sv' h i k r, nth_error (svcs g') s = Some sv' -> In (PSub h i k, r) (pend sv') ->
     exists s0 sv, nth_error (svcs g) s0 = Some sv /\ In (PSub h i k, r) (pend sv)) ->
  LJ g'.
Proof.
  intros J Eh EL ES PL. constructor.
  - intros h i sp k Hsub Hc. rewrite Eh in Hsub. rewrite EL, ES by reflexivity. eapply lj_cur; eauto.
  - intros s sv' h i k r Hs Hin. rewrite Eh. destruct (PL _ _ _ _ _ _ Hs Hin) as (s0 & sv & H0 & H1). eapply lj_live; eauto.
  - intros h i k. rewrite ES by reflexivity. rewrite Eh. apply (lj_store _ J).
  - rewrite EL. apply (lj_nodup _ J).
  - intros q Hq. rewrite EL in Hq. pose proof Hq as Hq2. apply LL_in in Hq2 as (s1 & sv1 & _ & Hl). apply lives_in in Hl as [Hp _].
    rewrite ES by assumption. apply (lj_fresh _ J _ Hq).
Qed.

(* a direct request: its promise is not a sub-push promise *)
Lemma LJ_env_req g s n r sz g' es : LJ g -> svc_act g s (SRequest (PEnv n) r sz) = Some (g', es) -> LJ g'.
Proof.
  intros J Hact. destruct (svc_act_frame _ _ _ _ _ Hact) as (sv & sv' & vs & es0 & Hs & Hstep & Hap & Esv & Eh & Ea).
  pose proof (apply_sevs_store _ _ _ _ _ _ Hap) as ST.
  assert (EP : psubs (pend sv') = psubs (pend sv) /\ (forall h i k r0, In (PSub h i k, r0) (pend sv') -> In (PSub h i k, r0) (pend sv)) /\
               forall q, is_psub q = true -> existsb (pid_eqb q) (map fst (dones vs)) = false).
  { destruct (sstep_request_effect _ _ _ _ _ _ Hstep) as [(ok & Pe & Dn)|(X & Y & P0 & P1 & Dn)].
    - rewrite Pe, Dn. split; [reflexivity|]. split; [auto|]. intros q Hq. destruct q; [discriminate|reflexivity].
    - rewrite P0, P1, Dn, !psubs_app. split; [reflexivity|]. split; [|reflexivity].
      intros h i k r0 Hin. apply in_app_iff in Hin as [Hin|[Hin|Hin]]; [apply in_app_iff; auto|discriminate|apply in_app_iff; auto]. }
  destruct EP as (E1 & E2 & E3). apply (LJ_same g g' J Eh).
  - rewrite Esv, (LL_upd _ _ _ _ Hs), (LL_split _ _ _ Hs), !lives_psubs, E1. reflexivity.
  - intros q Hq. rewrite ST, (E3 _ Hq). apply orb_false_r.
  - intros s0 sv0 h i k r0 H0 Hin. rewrite Esv in H0. apply nth_error_upd_cases in H0 as [[<- ->]|[_ H0]]; eauto.
Qed.

(* steps that only touch one handler *)
Lemma LJ_set_handler g h hd hd' : LJ g -> nth_error (hs g) h = Some hd ->
  (forall i sp' k, nth_error (h_subs hd') i = Some sp' -> sp_cur sp' = Some k ->
     sp_used sp' = N.succ k /\ (In (PSub h i k) (LL (svcs g)) \/ in_store (PSub h i k) (store g) = true)) ->
  (forall i sp k, nth_error (h_subs hd) i = Some sp -> sp_cur sp = Some k -> In (PSub h i k) (LL (svcs g)) ->
     exists sp', nth_error (h_subs hd') i = Some sp' /\ sp_cur sp' = Some k /\ sp_req sp' = sp_req sp) ->
  (forall i sp, nth_error (h_subs hd) i = Some sp -> exists sp', nth_error (h_subs hd') i = Some sp' /\ (sp_used sp <= sp_used sp')%N) ->
  LJ (set_hs g (upd h hd' (hs g))).
Proof.
  intros J Hh C1 C2 C3. constructor; cbn [set_hs svcs store hs attempts].
  - intros h0 i sp k Hsub Hc. rewrite (sub_at_upd _ _ _ _ _ _ Hh) in Hsub. destruct (Nat.eqb h0 h) eqn:E.
    + apply Nat.eqb_eq in E. subst h0. eauto.
    + eapply lj_cur; eauto.
  - intros s sv h0 i k r Hs Hin. destruct (lj_live _ J _ _ _ _ _ _ Hs Hin) as (sp & Hsub & Hc & Hr).
    rewrite (sub_at_upd _ _ _ _ _ _ Hh). destruct (Nat.eqb h0 h) eqn:E; [|eauto].
    apply Nat.eqb_eq in E. subst h0. unfold sub_at in Hsub. rewrite Hh in Hsub.
    destruct (C2 _ _ _ Hsub Hc (pending_in_LL _ _ _ _ _ _ _ Hs Hin)) as (sp' & X & Y & Z). exists sp'. split; [assumption|]. split; [assumption|congruence].
  - intros h0 i k Hst. destruct (lj_store _ J _ _ _ Hst) as (sp & Hsub & Hk).
    rewrite (sub_at_upd _ _ _ _ _ _ Hh). destruct (Nat.eqb h0 h) eqn:E; [|eauto].
    apply Nat.eqb_eq in E. subst h0. unfold sub_at in Hsub. rewrite Hh in Hsub.
    destruct (C3 _ _ Hsub) as (sp' & X & Y). exists sp'. split; [assumption|lia].
  - apply (lj_nodup _ J).
  - apply (lj_fresh _ J).
Qed.

(* the doPush goroutine of sub-push (h,i) starts attempt k = sp_used sp *)
Lemma LJ_sub_req g h i s hd sp g1 es :
  LJ g -> nth_error (hs g) h = Some hd -> nth_error (h_subs hd) i = Some sp -> sp_cur sp = None ->
  svc_act g s (SRequest (PSub h i (sp_used sp)) (sp_req sp) (sp_sz sp)) = Some (g1, es) ->
  LJ (set_hs g1 (upd h {| h_items := h_items hd;
                          h_subs := upd i {| sp_svc := sp_svc sp; sp_kind := sp_kind sp; sp_req := sp_req sp; sp_sz := sp_sz sp;
                                             sp_used := N.succ (sp_used sp); sp_cur := Some (sp_used sp); sp_result := None |} (h_subs hd);
                          h_answer := h_answer hd |} (hs g1))).
Proof.
  intros J Hh Hi Hcur Hact. set (k := sp_used sp). set (p := PSub h i k).
  set (sp' := {| sp_svc := sp_svc sp; sp_kind := sp_kind sp; sp_req := sp_req sp; sp_sz := sp_sz sp;
                 sp_used := N.succ k; sp_cur := Some k; sp_result := None |}).
  destruct (svc_act_frame _ _ _ _ _ Hact) as (sv & sv' & vs & es0 & Hs & Hstep & Hap & Esv & Eh & Ea).
  pose proof (apply_sevs_store _ _ _ _ _ _ Hap) as ST.
  pose proof (sub_at_intro _ _ _ _ _ Hh Hi) as Hsub.
  assert (F0 : forall k' r s0 sv0, nth_error (svcs g) s0 = Some sv0 -> In (PSub h i k', r) (pend sv0) -> False).
  { intros k' r s0 sv0 H0 Hin. destruct (lj_live _ J _ _ _ _ _ _ H0 Hin) as (sp0 & X & Y & _). rewrite Hsub in X. inversion X; subst sp0. congruence. }
  assert (F0' : forall k', ~ In (PSub h i k') (LL (svcs g))).
  { intros k' Hin. apply LL_in in Hin as (s0 & sv0 & H0 & Hl). apply lives_in in Hl as (_ & r & Hr). eapply F0; eauto. }
  assert (F1 : in_store p (store g) = false).
  { destruct (in_store p (store g)) eqn:E; [|reflexivity]. destruct (lj_store _ J _ _ _ E) as (sp0 & X & Y).
    rewrite Hsub in X. inversion X; subst sp0. unfold k in Y. lia. }
  assert (Hh1 : nth_error (hs g1) h = Some hd) by (rewrite Eh; assumption).
  assert (SA : forall h0 i0, sub_at (upd h {| h_items := h_items hd; h_subs := upd i sp' (h_subs hd); h_answer := h_answer hd |} (hs g1)) h0 i0 =
                 if Nat.eqb h0 h && Nat.eqb i0 i then Some sp' else sub_at (hs g) h0 i0).
  { intros h0 i0. rewrite (sub_at_upd _ _ _ _ _ _ Hh1). cbn [h_subs]. destruct (Nat.eqb h0 h) eqn:E1; cbn [andb]; [|now rewrite Eh].
    apply Nat.eqb_eq in E1. subst h0. destruct (Nat.eqb i0 i) eqn:E2.
    - apply Nat.eqb_eq in E2. subst i0. apply nth_error_upd_same. eapply nth_error_some_lt; eauto.
    - apply Nat.eqb_neq in E2. rewrite nth_error_upd_other by congruence. unfold sub_at. now rewrite Hh. }
  assert (SAo : forall h0 i0 sp0, sub_at (hs g) h0 i0 = Some sp0 ->
             exists sp1, sub_at (upd h {| h_items := h_items hd; h_subs := upd i sp' (h_subs hd); h_answer := h_answer hd |} (hs g1)) h0 i0 = Some sp1 /\
                         (sp_used sp0 <= sp_used sp1)%N /\ ((h0, i0) <> (h, i) -> sp1 = sp0)).
  { intros h0 i0 sp0 H0. rewrite SA. destruct (Nat.eqb h0 h && Nat.eqb i0 i) eqn:E.
    - apply andb_true_iff in E as [E1 E2]. apply Nat.eqb_eq in E1, E2. subst h0 i0. rewrite Hsub in H0. inversion H0; subst sp0.
      exists sp'. split; [reflexivity|]. split; [cbn; unfold k; lia|]. intros X. congruence.
    - exists sp0. split; [assumption|]. split; [lia|reflexivity]. }
  destruct (sstep_request_effect _ _ _ _ _ _ Hstep) as [(ok & Pe & Dn)|(X & Y & P0 & P1 & Dn)].
  - (* Request completed the promise itself *)
    assert (EL : LL (svcs g1) = LL (svcs g)).
    { rewrite Esv, (LL_upd _ _ _ _ Hs), (LL_split _ _ _ Hs), !lives_psubs, Pe. reflexivity. }
    assert (ES : forall q, in_store q (store g1) = in_store q (store g) || pid_eqb q p).
    { intros q. rewrite ST, Dn. cbn. now rewrite orb_false_r. }
    constructor; cbn [set_hs svcs store hs attempts].
    + intros h0 i0 sp0 k0 H0 Hc. rewrite SA in H0. destruct (Nat.eqb h0 h && Nat.eqb i0 i) eqn:E.
      * apply andb_true_iff in E as [E1 E2]. apply Nat.eqb_eq in E1, E2. subst h0 i0. inversion H0; subst sp0. cbn in Hc. inversion Hc; subst k0.
        split; [reflexivity|]. right. rewrite ES. fold p. rewrite pid_eqb_refl. apply orb_true_r.
      * destruct (lj_cur _ J _ _ _ _ H0 Hc) as [U [V|V]]; split; try assumption; [left; now rewrite EL|right; rewrite ES, V; reflexivity].
    + intros s0 sv0 h0 i0 k0 r0 H0 Hin. rewrite Esv in H0.
      assert (Hold : exists s1 sv1, nth_error (svcs g) s1 = Some sv1 /\ In (PSub h0 i0 k0, r0) (pend sv1)).
      { apply nth_error_upd_cases in H0 as [[<- ->]|[_ H0]]; [rewrite Pe in Hin|]; eauto. }
      destruct Hold as (s1 & sv1 & H1 & Hin1). destruct (lj_live _ J _ _ _ _ _ _ H1 Hin1) as (sp0 & A & B & C).
      destruct (SAo _ _ _ A) as (sp1 & A1 & _ & A3). exists sp1. split; [assumption|]. rewrite A3; [auto|].
      intros Eq. inversion Eq; subst h0 i0. eapply F0; eauto.
    + intros h0 i0 k0 Hst. rewrite ES in Hst. apply orb_true_iff in Hst as [Hst|Hst].
      * destruct (lj_store _ J _ _ _ Hst) as (sp0 & A & B). destruct (SAo _ _ _ A) as (sp1 & A1 & A2 & _). exists sp1. split; [assumption|lia].
      * apply pid_eqb_eq in Hst. inversion Hst; subst h0 i0 k0. exists sp'. split; [|cbn; lia].
        rewrite SA, !Nat.eqb_refl. reflexivity.
    + rewrite EL. apply (lj_nodup _ J).
    + intros q Hq. rewrite EL in Hq. rewrite ES, (lj_fresh _ J _ Hq). cbn. apply not_true_is_false. intros E.
      apply pid_eqb_eq in E. subst q. exact (F0' _ Hq).
  - (* the request joined the open batch *)
    set (A := LL (firstn s (svcs g))). set (B := LL (skipn (S s) (svcs g))).
    assert (EL : LL (svcs g) = A ++ (psubs X ++ psubs Y) ++ B).
    { rewrite (LL_split _ _ _ Hs), lives_psubs, P0, psubs_app. reflexivity. }
    assert (EL' : LL (svcs g1) = A ++ (psubs X ++ p :: psubs Y) ++ B).
    { rewrite Esv, (LL_upd _ _ _ _ Hs), lives_psubs, P1, psubs_app. reflexivity. }
    assert (ES : forall q, in_store q (store g1) = in_store q (store g)) by (intros q; rewrite ST, Dn; apply orb_false_r).
    assert (IN' : forall q, In q (LL (svcs g1)) <-> q = p \/ In q (LL (svcs g))).
    { intros q. rewrite EL, EL'. rewrite !in_app_iff. cbn [In]. rewrite ?in_app_iff. split; intros H; intuition congruence. }
    constructor; cbn [set_hs svcs store hs attempts].
    + intros h0 i0 sp0 k0 H0 Hc. rewrite SA in H0. destruct (Nat.eqb h0 h && Nat.eqb i0 i) eqn:E.
      * apply andb_true_iff in E as [E1 E2]. apply Nat.eqb_eq in E1, E2. subst h0 i0. inversion H0; subst sp0. cbn in Hc. inversion Hc; subst k0.
        split; [reflexivity|]. left. apply IN'. left. reflexivity.
      * destruct (lj_cur _ J _ _ _ _ H0 Hc) as [U [V|V]]; split; try assumption; [left; apply IN'; auto|right; now rewrite ES].
    + intros s0 sv0 h0 i0 k0 r0 H0 Hin. rewrite Esv in H0.
      assert (Hold : (PSub h0 i0 k0, r0) = (p, sp_req sp) \/ exists s1 sv1, nth_error (svcs g) s1 = Some sv1 /\ In (PSub h0 i0 k0, r0) (pend sv1)).
      { apply nth_error_upd_cases in H0 as [[<- ->]|[_ H0]]; [|eauto].
        rewrite P1 in Hin. apply in_app_iff in Hin as [Hin|[Hin|Hin]]; [right|left; auto|right]; exists s, sv; (split; [assumption|]); rewrite P0; apply in_app_iff; auto. }
      destruct Hold as [Eq|(s1 & sv1 & H1 & Hin1)].
      * inversion Eq; subst h0 i0 k0 r0. exists sp'. split; [rewrite SA, !Nat.eqb_refl; reflexivity|]. split; reflexivity.
      * destruct (lj_live _ J _ _ _ _ _ _ H1 Hin1) as (sp0 & A0 & B0 & C0).
        destruct (SAo _ _ _ A0) as (sp1 & A1 & _ & A3). exists sp1. split; [assumption|]. rewrite A3; [auto|].
        intros Eq. inversion Eq; subst h0 i0. eapply F0; eauto.
    + intros h0 i0 k0 Hst. rewrite ES in Hst. destruct (lj_store _ J _ _ _ Hst) as (sp0 & A0 & B0).
      destruct (SAo _ _ _ A0) as (sp1 & A1 & A2 & _). exists sp1. split; [assumption|lia].
    + rewrite EL'. apply (Permutation_NoDup (perm_ins A (psubs X) (psubs Y) B p)). constructor.
      * rewrite <- EL. apply F0'.
      * rewrite <- EL. apply (lj_nodup _ J).
    + intros q Hq. rewrite ES. apply IN' in Hq as [->|Hq]; [exact F1|apply (lj_fresh _ J _ Hq)].
Qed.

Lemma LJ_handler_same g h hd hd' : LJ g -> nth_error (hs g) h = Some hd -> h_subs hd' = h_subs hd ->
  LJ (set_hs g (upd h hd' (hs g))).
Proof.
  intros J Hh E. apply (LJ_set_handler g h hd hd' J Hh); rewrite E.
  - intros i sp k Hi Hc. eapply lj_cur; eauto. eapply sub_at_intro; eauto.
  - intros i sp k Hi Hc _. eauto.
  - intros i sp Hi. exists sp. split; [assumption|lia].
Qed.

Lemma gstep_LJ g a g' es : LJ g -> gstep g a = Some (g', es) -> LJ g'.
Proof.
  intros J Hstep. destruct a as [s a|s k n r sz|items|h|h i s|h i|h]; cbn in Hstep.
  - destruct (is_request a) eqn:NR; [discriminate|]. eapply LJ_svc_quiet; eauto.
  - destruct (nth_error (svcs g) s); [|discriminate]. destruct (_ && _); [|discriminate]. eapply LJ_env_req; eauto.
  - inversion Hstep; subst; clear Hstep.
    assert (SA : forall h i, sub_at (hs g ++ [{| h_items := items; h_subs := []; h_answer := None |}]) h i = sub_at (hs g) h i).
    { intros h i. unfold sub_at. destruct (Nat.lt_ge_cases h (length (hs g))) as [L|L].
      - rewrite nth_error_app1 by assumption. reflexivity.
      - rewrite nth_error_app2 by assumption. replace (nth_error (hs g) h) with (@None handler) by (symmetry; apply nth_error_None; assumption).
        destruct (h - length (hs g))%nat as [|[|?]]; cbn; try reflexivity. destruct i; reflexivity. }
    constructor; cbn [set_hs svcs store hs attempts].
    + intros h i sp k Hsub. rewrite SA in Hsub. eapply lj_cur; eauto.
    + intros s sv h i k r Hs Hin. rewrite SA. eapply lj_live; eauto.
    + intros h i k Hst. rewrite SA. eapply lj_store; eauto.
    + apply (lj_nodup _ J).
    + apply (lj_fresh _ J).
  - destruct (nth_error (hs g) h) as [hd|] eqn:Hh; [|discriminate].
    destruct (h_items hd) as [|[c|] rest] eqn:Hit; [discriminate| |].
    + inversion Hstep; subst; clear Hstep. apply (LJ_set_handler g h hd _ J Hh); cbn [h_subs].
      * intros i sp k Hi Hc. destruct (Nat.lt_ge_cases i (length (h_subs hd))) as [L|L].
        -- rewrite nth_error_app1 in Hi by assumption. eapply lj_cur; eauto. eapply sub_at_intro; eauto.
        -- rewrite nth_error_app2 in Hi by assumption. apply nth_error_In in Hi.
           apply in_map_iff in Hi as ([[[s0 k0] r0] sz0] & <- & _). discriminate.
      * intros i sp k Hi Hc _. exists sp. rewrite nth_error_app1 by (eapply nth_error_some_lt; eauto). auto.
      * intros i sp Hi. exists sp. rewrite nth_error_app1 by (eapply nth_error_some_lt; eauto). split; [assumption|lia].
    + destruct (h_answer hd); inversion Hstep; subst; clear Hstep; eapply LJ_handler_same; eauto.
  - destruct (nth_error (hs g) h) as [hd|] eqn:Hh; [|discriminate].
    destruct (nth_error (h_subs hd) i) as [sp|] eqn:Hi; [|discriminate].
    destruct (is_none (sp_result sp) && is_none (sp_cur sp) && N.ltb (sp_used sp) (attempts g) && may_take g s sp) eqn:Hg; [|discriminate].
    destruct (svc_act g s _) as [[g1 es1]|] eqn:Hact; [|discriminate]. inversion Hstep; subst; clear Hstep.
    assert (Hc : sp_cur sp = None).
    { apply andb_true_iff in Hg as [Hg _]. apply andb_true_iff in Hg as [Hg _]. apply andb_true_iff in Hg as [_ Hg].
      destruct (sp_cur sp); [discriminate|reflexivity]. }
    eapply LJ_sub_req; eauto.
  - destruct (nth_error (hs g) h) as [hd|] eqn:Hh; [|discriminate].
    destruct (nth_error (h_subs hd) i) as [sp|] eqn:Hi; [|discriminate].
    destruct (sp_cur sp) as [k|] eqn:Hcur; [|discriminate].
    destruct (lookup_store (PSub h i k) (store g)) as [[[k0 r0] ok]|] eqn:Hl; [|discriminate].
    inversion Hstep; subst; clear Hstep. apply lookup_some_in_store in Hl.
    apply (LJ_set_handler g h hd _ J Hh); cbn [h_subs].
    + intros j x k1 Hj Hc. apply nth_error_upd_cases in Hj as [[<- ->]|[Hne Hj]]; [discriminate|].
      eapply lj_cur; eauto. eapply sub_at_intro; eauto.
    + intros j x k1 Hj Hc Hin. destruct (Nat.eq_dec i j) as [<-|Hne].
      * rewrite Hi in Hj. inversion Hj; subst x. rewrite Hcur in Hc. inversion Hc; subst k1.
        rewrite (lj_fresh _ J _ Hin) in Hl. discriminate.
      * exists x. rewrite nth_error_upd_other by assumption. auto.
    + intros j x Hj. destruct (Nat.eq_dec i j) as [<-|Hne].
      * rewrite Hi in Hj. inversion Hj; subst x. eexists. rewrite nth_error_upd_same by (eapply nth_error_some_lt; eauto).
        split; [reflexivity|]. cbn. lia.
      * exists x. rewrite nth_error_upd_other by assumption. split; [assumption|lia].
  - destruct (nth_error (hs g) h) as [hd|] eqn:Hh; [|discriminate].
    destruct (h_items hd); [|discriminate]. destruct (h_answer hd); [discriminate|].
    destruct (verdict _) as [ok|]; [|discriminate]. inversion Hstep; subst. eapply LJ_handler_same; eauto.
Qed.

Lemma grun_LJ tr : forall g g' es, LJ g -> grun g tr = Some (g', es) -> LJ g'.
Proof.
  induction tr as [|a tr IH]; intros g g' es J Hrun; cbn in Hrun.
  - inversion Hrun; subst. assumption.
  - destruct (gstep g a) as [[g1 e1]|] eqn:Es; [|discriminate].
    destruct (grun g1 tr) as [[g2 e2]|] eqn:Er; [|discriminate]. inversion Hrun; subst.
    eapply IH; [|exact Er]. eapply gstep_LJ; eauto.
Qed.

(* at most one attempt of a sub-push is pending, in one place, and it is the one the sub-push waits for *)
Theorem one_attempt_pending cfg n tr g es s1 sv1 s2 sv2 h i k1 k2 r1 r2 :
  grun (ginit cfg n) tr = Some (g, es) ->
  nth_error (svcs g) s1 = Some sv1 -> In (PSub h i k1, r1) (pend sv1) ->
  nth_error (svcs g) s2 = Some sv2 -> In (PSub h i k2, r2) (pend sv2) ->
  k1 = k2 /\ r1 = r2 /\ in_store (PSub h i k1) (store g) = false.
Proof.
  intros Hrun H1 I1 H2 I2. pose proof (grun_LJ _ _ _ _ (LJ_init cfg n) Hrun) as J.
  destruct (lj_live _ J _ _ _ _ _ _ H1 I1) as (sp & A & B & C). destruct (lj_live _ J _ _ _ _ _ _ H2 I2) as (sp2 & A2 & B2 & C2).
  rewrite A in A2. inversion A2; subst sp2. split; [congruence|]. split; [congruence|].
  apply (lj_fresh _ J). exact (pending_in_LL _ _ _ _ _ _ _ H1 I1).
Qed.

(* ---------------------------------------------------------------- ownership of row ids *)
Lemma okey_eqb_eq a b : okey_eqb a b = true -> a = b.
Proof.
  destruct a, b; cbn; try discriminate.
  - intros H. apply N.eqb_eq in H. congruence.
  - intros H. apply andb_true_iff in H as [H1 H2]. apply Nat.eqb_eq in H1, H2. congruence.
Qed.
Lemma nodupb_NoDup l : nodupb N.eqb l = true -> NoDup l.
Proof.
  induction l as [|x l IH]; cbn; intros H; [constructor|]. apply andb_true_iff in H as [H1 H2]. constructor; [|auto].
  intros Hin. apply negb_true_iff in H1. assert (E : existsb (N.eqb x) l = true); [|congruence].
  apply existsb_exists. exists x. split; [assumption|apply N.eqb_refl].
Qed.

Lemma nodup_concat_owner {A K} (key : A -> K) (f : A -> list N) (own : N -> K) l :
  NoDup (map key l) -> (forall x, In x l -> NoDup (f x) /\ forall r, In r (f x) -> own r = key x) ->
  NoDup (concat (map f l)).
Proof.
  induction l as [|x l IH]; cbn; intros N H; [constructor|]. inversion N as [|? ? Hn Hnd]; subst.
  apply NoDup_app_intro.
  - apply (H x). left. reflexivity.
  - apply IH; [assumption|]. intros y Hy. apply H. right. assumption.
  - intros r Hr Hc. apply in_concat in Hc as (l0 & Hl0 & Hr0). apply in_map_iff in Hl0 as (y & <- & Hy).
    apply Hn. apply in_map_iff. exists y. split; [|assumption].
    destruct (H x (or_introl eq_refl)) as [_ Ox]. destruct (H y (or_intror Hy)) as [_ Oy]. rewrite <- (Ox _ Hr), <- (Oy _ Hr0). reflexivity.
Qed.

Section Own.
Variable own : N -> okey.

Definition pkey (pr : pid * req) : okey := key_of (fst pr).

Record FI (g : gstate) : Prop := {
  fi_keys : forall s sv, nth_error (svcs g) s = Some sv -> NoDup (map pkey (pend sv));
  fi_sub : forall h i sp, sub_at (hs g) h i = Some sp -> req_owned own (KSub h i) (sp_req sp) = true;
  fi_items : forall h hd, nth_error (hs g) h = Some hd -> items_owned own h (length (h_subs hd)) (h_items hd) = true;
  fi_env : forall s sv n r, nth_error (svcs g) s = Some sv -> In (PEnv n, r) (pend sv) -> req_owned own (KEnv n) r = true
}.

Lemma FI_init cfg n : FI (ginit cfg n).
Proof.
  constructor; cbn [ginit svcs store hs attempts].
  - intros s sv Hs. apply nth_error_In in Hs. apply in_map_iff in Hs as (c & <- & _). constructor.
  - intros h i sp H. rewrite sub_at_nil in H. discriminate.
  - intros h hd H. destruct h; discriminate.
  - intros s sv n0 r Hs Hin. apply nth_error_In in Hs. apply in_map_iff in Hs as (c & <- & _). destruct Hin.
Qed.

(* a worker step that adds at most one promise with a key nobody in the worker has *)
Lemma FI_svc g s a g' es :
  FI g -> svc_act g s a = Some (g', es) ->
  (forall sv p r sz, nth_error (svcs g) s = Some sv -> a = SRequest p r sz ->
     ~ In (key_of p) (map pkey (pend sv)) /\ (forall n, p = PEnv n -> req_owned own (KEnv n) r = true)) ->
  (forall s0 sv0, nth_error (svcs g') s0 = Some sv0 -> NoDup (map pkey (pend sv0))) /\
  (forall s0 sv0 n r, nth_error (svcs g') s0 = Some sv0 -> In (PEnv n, r) (pend sv0) -> req_owned own (KEnv n) r = true).
Proof.
  intros F Hact Hnew. destruct (svc_act_frame _ _ _ _ _ Hact) as (sv & sv' & vs & es0 & Hs & Hstep & _ & Esv & _ & _).
  assert (X : NoDup (map pkey (pend sv')) /\ forall n r, In (PEnv n, r) (pend sv') -> req_owned own (KEnv n) r = true).
  { pose proof (fi_keys _ F _ _ Hs) as ND. pose proof (fun n r => fi_env _ F s sv n r Hs) as EV.
    destruct (sstep_effect _ _ _ _ Hstep) as [Pe _|D ok Pe _|p r sz ok E Pe _|p r sz X Y E P0 P1 _].
    - rewrite Pe. split; [assumption|]. exact EV.
    - rewrite Pe, map_app in ND. split; [eapply NoDup_app_l; eauto|]. intros n r Hin. apply EV. rewrite Pe. apply in_app_iff. auto.
    - rewrite Pe. split; [assumption|]. exact EV.
    - destruct (Hnew _ _ _ _ Hs E) as [Nk Ne]. rewrite P0 in ND, Nk. rewrite P1. split.
      + rewrite map_app in *. cbn [map]. apply (Permutation_NoDup (Permutation_middle _ _ _)). constructor; assumption.
      + intros n r0 Hin. apply in_app_iff in Hin as [Hin|[Hin|Hin]].
        * apply EV. rewrite P0. apply in_app_iff. auto.
        * inversion Hin; subst. apply Ne. reflexivity.
        * apply EV. rewrite P0. apply in_app_iff. auto. }
  destruct X as [X1 X2]. split.
  - intros s0 sv0 H0. rewrite Esv in H0. apply nth_error_upd_cases in H0 as [[_ ->]|[_ H0]]; [assumption|]. eapply fi_keys; eauto.
  - intros s0 sv0 n r H0. rewrite Esv in H0. apply nth_error_upd_cases in H0 as [[_ ->]|[_ H0]]; [apply X2|]. eapply fi_env; eauto.
Qed.

Lemma FI_svc_hs g g' : FI g -> hs g' = hs g ->
  (forall s0 sv0, nth_error (svcs g') s0 = Some sv0 -> NoDup (map pkey (pend sv0))) ->
  (forall s0 sv0 n r, nth_error (svcs g') s0 = Some sv0 -> In (PEnv n, r) (pend sv0) -> req_owned own (KEnv n) r = true) ->
  FI g'.
Proof.
  intros F Eh K E. constructor; auto.
  - intros h i sp. rewrite Eh. apply (fi_sub _ F).
  - intros h hd. rewrite Eh. apply (fi_items _ F).
Qed.

Lemma FI_set_handler g h hd hd' : FI g -> nth_error (hs g) h = Some hd ->
  (forall i sp', nth_error (h_subs hd') i = Some sp' -> req_owned own (KSub h i) (sp_req sp') = true) ->
  items_owned own h (length (h_subs hd')) (h_items hd') = true ->
  FI (set_hs g (upd h hd' (hs g))).
Proof.
  intros F Hh S I. constructor; cbn [set_hs svcs store hs attempts].
  - apply (fi_keys _ F).
  - intros h0 i sp Hsub. rewrite (sub_at_upd _ _ _ _ _ _ Hh) in Hsub. destruct (Nat.eqb h0 h) eqn:E.
    + apply Nat.eqb_eq in E. subst h0. auto.
    + eapply fi_sub; eauto.
  - intros h0 hd0 H0. apply nth_error_upd_cases in H0 as [[<- ->]|[_ H0]]; [assumption|]. eapply fi_items; eauto.
  - apply (fi_env _ F).
Qed.

Lemma chunk_owned_nth h c : forall i j x, chunk_owned own h i c = true -> nth_error c j = Some x ->
  req_owned own (KSub h (i + j)) (snd (fst x)) = true.
Proof.
  induction c as [|y c IH]; intros i j x H Hj; [destruct j; discriminate|]. cbn in H. apply andb_true_iff in H as [H1 H2].
  destruct j; cbn in Hj.
  - inversion Hj; subst. now rewrite Nat.add_0_r.
  - rewrite <- plus_n_Sm. apply (IH (S i)); assumption.
Qed.

Lemma key_of_psub_in h i sv : In (KSub h i) (map pkey (pend sv)) -> exists k r, In (PSub h i k, r) (pend sv).
Proof.
  intros H. apply in_map_iff in H as ([p r] & E & Hin). unfold pkey in E. cbn in E. destruct p as [n|h0 i0 k]; cbn in E; [discriminate|].
  inversion E; subst. eauto.
Qed.

Lemma gstep_FI g a g' es : LJ g -> FI g -> step_fresh own g a = true -> gstep g a = Some (g', es) -> FI g'.
Proof.
  intros J F Hf Hstep. destruct a as [s a|s k n r sz|items|h|h i s|h i|h]; cbn in Hstep.
  - destruct (is_request a) eqn:NR; [discriminate|].
    destruct (FI_svc _ _ _ _ _ F Hstep) as [K E].
    { intros sv p r sz _ ->. discriminate. }
    apply svc_act_hs in Hstep as [Eh _]. eapply FI_svc_hs; eauto.
  - destruct (nth_error (svcs g) s) as [sv|] eqn:Hs; [|discriminate]. destruct (_ && _); [|discriminate].
    cbn in Hf. apply andb_true_iff in Hf as [Hn Ho].
    destruct (FI_svc _ _ _ _ _ F Hstep) as [K E].
    { intros sv0 p r0 sz0 H0 Ea. inversion Ea; subst. split; [|intros n0 En; inversion En; subst; assumption].
      intros Hin. apply in_map_iff in Hin as ([p r1] & Ek & Hin). unfold pkey in Ek. cbn in Ek.
      destruct p as [m|? ? ?]; cbn in Ek; [|discriminate]. inversion Ek; subst m.
      unfold env_new in Hn. apply andb_true_iff in Hn as [_ Hn]. rewrite forallb_forall in Hn.
      specialize (Hn sv0 (nth_error_In _ _ H0)). apply negb_true_iff in Hn.
      assert (X : existsb (fun pr : pid * req => pid_eqb (fst pr) (PEnv n)) (pend sv0) = true); [|congruence].
      apply existsb_exists. exists (PEnv n, r1). split; [assumption|apply pid_eqb_refl]. }
    apply svc_act_hs in Hstep as [Eh _]. eapply FI_svc_hs; eauto.
  - inversion Hstep; subst; clear Hstep. cbn in Hf.
    assert (SA : forall h i, sub_at (hs g ++ [{| h_items := items; h_subs := []; h_answer := None |}]) h i = sub_at (hs g) h i).
    { intros h i. unfold sub_at. destruct (Nat.lt_ge_cases h (length (hs g))) as [L|L].
      - rewrite nth_error_app1 by assumption. reflexivity.
      - rewrite nth_error_app2 by assumption. replace (nth_error (hs g) h) with (@None handler) by (symmetry; apply nth_error_None; assumption).
        destruct (h - length (hs g))%nat as [|[|?]]; cbn; try reflexivity. destruct i; reflexivity. }
    constructor; cbn [set_hs svcs store hs attempts].
    + apply (fi_keys _ F).
    + intros h i sp Hsub. rewrite SA in Hsub. eapply fi_sub; eauto.
    + intros h hd Hn. destruct (Nat.lt_ge_cases h (length (hs g))) as [L|L].
      * rewrite nth_error_app1 in Hn by assumption. eapply fi_items; eauto.
      * rewrite nth_error_app2 in Hn by assumption. destruct (h - length (hs g))%nat as [|[|?]] eqn:D; cbn in Hn; try discriminate.
        inversion Hn; subst. cbn. replace h with (length (hs g)) by lia. exact Hf.
    + apply (fi_env _ F).
  - destruct (nth_error (hs g) h) as [hd|] eqn:Hh; [|discriminate]. pose proof (fi_items _ F _ _ Hh) as IT.
    destruct (h_items hd) as [|[c|] rest] eqn:Hit; [discriminate| |].
    + inversion Hstep; subst; clear Hstep. cbn in IT. apply andb_true_iff in IT as [IC IR].
      apply (FI_set_handler g h hd _ F Hh); cbn [h_subs h_items].
      * intros i sp Hi. destruct (Nat.lt_ge_cases i (length (h_subs hd))) as [L|L].
        -- rewrite nth_error_app1 in Hi by assumption. eapply fi_sub; eauto. eapply sub_at_intro; eauto.
        -- rewrite nth_error_app2 in Hi by assumption. rewrite nth_error_map in Hi.
           destruct (nth_error c (i - length (h_subs hd))) as [x|] eqn:Hx; [|discriminate]. inversion Hi; subst sp.
           pose proof (chunk_owned_nth _ _ _ _ _ IC Hx) as R. replace (length (h_subs hd) + (i - length (h_subs hd)))%nat with i in R by lia.
           destruct x as [[[s0 k0] r0] sz0]. exact R.
      * rewrite app_length, map_length. exact IR.
    + destruct (h_answer hd); inversion Hstep; subst; clear Hstep; (apply (FI_set_handler g h hd _ F Hh); cbn [h_subs h_items]; [|reflexivity]);
        intros i sp Hi; eapply fi_sub; eauto; eapply sub_at_intro; eauto.
  - destruct (nth_error (hs g) h) as [hd|] eqn:Hh; [|discriminate].
    destruct (nth_error (h_subs hd) i) as [sp|] eqn:Hi; [|discriminate].
    destruct (is_none (sp_result sp) && is_none (sp_cur sp) && N.ltb (sp_used sp) (attempts g) && may_take g s sp) eqn:Hg; [|discriminate].
    destruct (svc_act g s _) as [[g1 es1]|] eqn:Hact; [|discriminate]. inversion Hstep; subst; clear Hstep.
    assert (Hc : sp_cur sp = None).
    { apply andb_true_iff in Hg as [Hg _]. apply andb_true_iff in Hg as [Hg _]. apply andb_true_iff in Hg as [_ Hg].
      destruct (sp_cur sp); [discriminate|reflexivity]. }
    destruct (FI_svc _ _ _ _ _ F Hact) as [K E].
    { intros sv0 p r0 sz0 H0 Ea. inversion Ea; subst. split; [|discriminate].
      intros Hin. apply key_of_psub_in in Hin as (k' & r' & Hin).
      destruct (lj_live _ J _ _ _ _ _ _ H0 Hin) as (sp0 & A & B & _). rewrite (sub_at_intro _ _ _ _ _ Hh Hi) in A. inversion A; subst sp0. congruence. }
    destruct (svc_act_hs _ _ _ _ _ Hact) as [Eh _].
    assert (F1 : FI g1) by (eapply FI_svc_hs; eauto).
    assert (Hh1 : nth_error (hs g1) h = Some hd) by (rewrite Eh; assumption).
    apply (FI_set_handler g1 h hd _ F1 Hh1); cbn [h_subs h_items].
    + intros j x Hj. apply nth_error_upd_cases in Hj as [[<- ->]|[_ Hj]]; cbn [sp_req]; eapply fi_sub; eauto; eapply sub_at_intro; eauto.
    + rewrite length_upd. eapply fi_items; eauto.
  - destruct (nth_error (hs g) h) as [hd|] eqn:Hh; [|discriminate].
    destruct (nth_error (h_subs hd) i) as [sp|] eqn:Hi; [|discriminate].
    destruct (sp_cur sp) as [k|]; [|discriminate].
    destruct (lookup_store (PSub h i k) (store g)) as [[[k0 r0] ok]|]; [|discriminate].
    inversion Hstep; subst; clear Hstep. apply (FI_set_handler g h hd _ F Hh); cbn [h_subs h_items].
    + intros j x Hj. apply nth_error_upd_cases in Hj as [[<- ->]|[_ Hj]]; cbn [sp_req]; eapply fi_sub; eauto; eapply sub_at_intro; eauto.
    + rewrite length_upd. eapply fi_items; eauto.
  - destruct (nth_error (hs g) h) as [hd|] eqn:Hh; [|discriminate].
    destruct (h_items hd) eqn:Hit; [|discriminate]. destruct (h_answer hd); [discriminate|].
    destruct (verdict _) as [ok|]; [|discriminate]. inversion Hstep; subst.
    apply (FI_set_handler g h hd _ F Hh); cbn [h_subs h_items]; [|reflexivity].
    intros i sp Hi. eapply fi_sub; eauto. eapply sub_at_intro; eauto.
Qed.

Lemma grun_LJ_FI tr : forall g g' es, LJ g -> FI g -> fresh_run own g tr = true -> grun g tr = Some (g', es) -> LJ g' /\ FI g'.
Proof.
  induction tr as [|a tr IH]; intros g g' es J F Hf Hrun; cbn in Hrun, Hf.
  - inversion Hrun; subst. auto.
  - destruct (gstep g a) as [[g1 e1]|] eqn:Es; [|discriminate].
    destruct (grun g1 tr) as [[g2 e2]|] eqn:Er; [|discriminate]. inversion Hrun; subst.
    apply andb_true_iff in Hf as [Ha Hf].
    eapply IH; [| |exact Hf|exact Er]; [eapply gstep_LJ; eauto|eapply gstep_FI; eauto].
Qed.

Lemma rows_of_app a b : rows_of (a ++ b) = rows_of a ++ rows_of b.
Proof. unfold rows_of. now rewrite map_app, concat_app. Qed.

(* the rows of the promises a worker holds are pairwise distinct *)
Lemma pend_rows_nodup g s sv : LJ g -> FI g -> nth_error (svcs g) s = Some sv -> NoDup (rows_of (pend sv)).
Proof.
  intros J F Hs. unfold rows_of. apply (nodup_concat_owner pkey (fun pr => rids_of (snd pr)) own).
  - eapply fi_keys; eauto.
  - intros [p r] Hin. cbn [snd]. assert (O : req_owned own (key_of p) r = true).
    { destruct p as [n|h i k]; cbn [key_of].
      - eapply fi_env; eauto.
      - destruct (lj_live _ J _ _ _ _ _ _ Hs Hin) as (sp & A & _ & C). subst r. eapply fi_sub; eauto. }
    unfold req_owned in O. apply andb_true_iff in O as [O1 O2]. split; [apply nodupb_NoDup; assumption|].
    intros rid Hr. rewrite forallb_forall in O1. apply okey_eqb_eq. apply O1. assumption.
Qed.
End Own.

(* ---------------------------------------------------------------- where the blocks handed to Do come from *)
Lemma apply_sevs_send s k : forall vs st st' es s' k' b,
  apply_sevs s k st vs = (st', es) -> In (ESend s' k' b) es -> s' = s /\ k' = k /\ In (VSend b) vs.
Proof.
  induction vs as [|v vs IH]; intros st st' es s' k' b H Hin; cbn in H.
  - inversion H; subst. destruct Hin.
  - destruct v as [|b0|ok|q r ok].
    + destruct (apply_sevs s k st vs) as [st1 es1] eqn:E. inversion H; subst. destruct Hin as [X|Hin]; [discriminate|].
      destruct (IH _ _ _ _ _ _ E Hin) as (A & B & C). auto with datatypes.
    + destruct (apply_sevs s k st vs) as [st1 es1] eqn:E. inversion H; subst. destruct Hin as [X|Hin].
      * inversion X; subst. auto with datatypes.
      * destruct (IH _ _ _ _ _ _ E Hin) as (A & B & C). auto with datatypes.
    + destruct (apply_sevs s k st vs) as [st1 es1] eqn:E. inversion H; subst. destruct Hin as [X|Hin]; [discriminate|].
      destruct (IH _ _ _ _ _ _ E Hin) as (A & B & C). auto with datatypes.
    + destruct (in_store q st).
      * destruct (IH _ _ _ _ _ _ H Hin) as (A & B & C). auto with datatypes.
      * destruct (apply_sevs s k ((q, (k, r, ok)) :: st) vs) as [st1 es1] eqn:E. inversion H; subst. destruct Hin as [X|Hin]; [discriminate|].
        destruct (IH _ _ _ _ _ _ E Hin) as (A & B & C). auto with datatypes.
Qed.

Lemma sstep_vsend sv a sv' vs b : sstep sv a = Some (sv', vs) -> In (VSend b) vs -> exists po, inflight sv = Some po /\ b = p_cols po.
Proof.
  intros H Hin. destruct (sstep_shape _ _ _ _ H) as (Sh & _ & _).
  destruct Sh as [R I V|q r sz E R I V|E I N R I' V|po E I S R I' V|po ok E I S R I' V]; subst.
  - destruct V as [->|(p & r & sz & ok & _ & ->)]; [destruct Hin|]. destruct Hin as [X|[]]. discriminate.
  - destruct Hin.
  - destruct Hin as [X|[]]. discriminate.
  - destruct Hin as [X|[]]. inversion X; subst. eauto.
  - destruct Hin as [X|Hin]; [discriminate|]. apply in_map_iff in Hin as (x & X & _). discriminate.
Qed.

Lemma svc_act_send g s a g' es s' k b : svc_act g s a = Some (g', es) -> In (ESend s' k b) es ->
  exists sv po, nth_error (svcs g) s' = Some sv /\ inflight sv = Some po /\ b = p_cols po /\ k = kd sv.
Proof.
  unfold svc_act. destruct (nth_error (svcs g) s) as [sv|] eqn:Hs; [|discriminate].
  destruct (sstep sv a) as [[sv' vs]|] eqn:Hst; [|discriminate].
  destruct (apply_sevs s (kd sv) (store g) vs) as [st' es0] eqn:Ha. intros H Hin. inversion H; subst; clear H.
  assert (Hin0 : In (ESend s' k b) es0).
  { apply in_app_iff in Hin as [Hin|Hin]; [|assumption]. destruct a; cbn in Hin; try destruct Hin as [X|[]]; try destruct Hin; discriminate. }
  destruct (apply_sevs_send _ _ _ _ _ _ _ _ _ Ha Hin0) as (-> & -> & Hv).
  destruct (sstep_vsend _ _ _ _ _ Hst Hv) as (po & I & ->). eauto 6.
Qed.

Lemma gstep_send g a g' es s k b : gstep g a = Some (g', es) -> In (ESend s k b) es ->
  exists sv po, nth_error (svcs g) s = Some sv /\ inflight sv = Some po /\ b = p_cols po /\ k = kd sv.
Proof.
  intros Hstep Hin. destruct a as [s0 a|s0 k0 n r sz|items|h|h i s0|h i|h]; cbn in Hstep.
  - destruct (is_request a); [discriminate|]. eapply svc_act_send; eauto.
  - destruct (nth_error (svcs g) s0); [|discriminate]. destruct (_ && _); [|discriminate]. eapply svc_act_send; eauto.
  - inversion Hstep; subst. destruct Hin.
  - destruct (nth_error (hs g) h) as [hd|]; [|discriminate]. destruct (h_items hd) as [|[c|] rest]; [discriminate| |].
    + inversion Hstep; subst. destruct Hin.
    + destruct (h_answer hd); inversion Hstep; subst; [destruct Hin|destruct Hin as [X|[]]; discriminate].
  - destruct (nth_error (hs g) h) as [hd|]; [|discriminate]. destruct (nth_error (h_subs hd) i) as [sp|]; [|discriminate].
    destruct (_ && _); [|discriminate]. destruct (svc_act g s0 _) as [[g1 es1]|] eqn:Hact; [|discriminate].
    inversion Hstep; subst. eapply svc_act_send; eauto.
  - destruct (nth_error (hs g) h) as [hd|]; [|discriminate]. destruct (nth_error (h_subs hd) i) as [sp|]; [|discriminate].
    destruct (sp_cur sp); [|discriminate]. destruct (lookup_store _ _) as [[[? ?] ok]|]; [|discriminate].
    inversion Hstep; subst. destruct Hin.
  - destruct (nth_error (hs g) h) as [hd|]; [|discriminate]. destruct (h_items hd); [|discriminate].
    destruct (h_answer hd); [discriminate|]. destruct (verdict _); [|discriminate]. inversion Hstep; subst.
    destruct Hin as [X|[]]. discriminate.
Qed.

Lemma good_block_table k rows : NoDup rows -> good_block_b k (table_of (ncols k) rows) = true.
Proof.
  intros N. unfold good_block_b.
  assert (E : rids_of (table_of (ncols k) rows) = rows).
  { unfold rids_of, table_of. destruct k; cbn [ncols seq map hd]; rewrite map_map; cbn [fst]; apply map_id. }
  rewrite E, block_eqb_refl. cbn. apply nodupb_spec; [|assumption]. intros x y. apply N.eqb_eq.
Qed.

Section Sends.
Variable own : N -> okey.

Lemma grun_sends tr : forall g m g' es,
  LJ g -> FI own g -> GS MTable g m -> HQ (req_ok MTable) g ->
  forallb (act_q (req_ok MTable)) tr = true -> fresh_run own g tr = true -> grun g tr = Some (g', es) ->
  forall s k b, In (ESend s k b) es -> good_block_b k b = true.
Proof.
  induction tr as [|a tr IH]; intros g m g' es J F G H Hok Hf Hrun s k b Hin; cbn in Hrun, Hok, Hf.
  - inversion Hrun; subst. destruct Hin.
  - apply andb_true_iff in Hok as [Ha Htr]. apply andb_true_iff in Hf as [Hfa Hf].
    destruct (gstep g a) as [[g1 e1]|] eqn:Es; [|discriminate].
    destruct (grun g1 tr) as [[g2 e2]|] eqn:Er; [|discriminate]. inversion Hrun; subst g' es.
    apply in_app_iff in Hin as [Hin|Hin].
    + destruct (gstep_send _ _ _ _ _ _ _ Es Hin) as (sv & po & Hs & I & -> & ->).
      destruct (Forall2_nth_error_l _ _ _ _ _ G Hs) as (w & _ & SRw). destruct SRw as (_ & _ & _ & ST & TB).
      destruct (ST eq_refl) as [_ PC]. destruct (TB eq_refl) as [_ WF].
      rewrite (PC _ I), (expected_block_table _ _ (WF _ I)). apply good_block_table.
      pose proof (pend_rows_nodup own _ _ _ J F Hs) as ND. unfold pend in ND. rewrite I, rows_of_app in ND.
      eapply NoDup_app_r; eauto.
    + destruct (gstep_GS _ _ _ _ _ _ G H Ha Es) as (m1 & _ & G1).
      eapply (IH g1 m1); eauto; [eapply gstep_LJ|eapply gstep_FI|eapply HQ_step]; eauto.
Qed.

(* for every fresh run of well-formed requests: every block handed to ClickHouse is a table of pairwise distinct rows *)
Theorem sends_are_tables_of_distinct_rows cfg n tr g es :
  forallb act_wf tr = true -> fresh_run own (ginit cfg n) tr = true -> grun (ginit cfg n) tr = Some (g, es) ->
  forall s k b, In (ESend s k b) es -> good_block_b k b = true.
Proof.
  intros Hwf Hf Hrun.
  exact (grun_sends tr (ginit cfg n) (smon_init (length cfg)) g es (LJ_init cfg n) (FI_init own cfg n) (GS_init MTable cfg n)
           (HQ_init _ cfg n) (act_q_table tr Hwf) Hf Hrun).
Qed.

(* without any hypothesis on the shape of the requests: the row ids of the promises a worker holds (open batch and
   portion out) are pairwise distinct *)
Theorem held_rows_distinct cfg n tr g es s sv :
  fresh_run own (ginit cfg n) tr = true -> grun (ginit cfg n) tr = Some (g, es) ->
  nth_error (svcs g) s = Some sv -> NoDup (rows_of (pend sv)).
Proof.
  intros Hf Hrun Hs. destruct (grun_LJ_FI own _ _ _ _ (LJ_init cfg n) (FI_init own cfg n) Hf Hrun) as [J F].
  eapply pend_rows_nodup; eauto.
Qed.
End Sends.

(* ---------------------------------------------------------------- non-vacuity *)
(* demo_trace (IngestSpecProofs.v) is a fresh run: the samples sub-push submits rows 1 and 2 twice (its first INSERT
   fails), row 3 belongs to a direct request, row 5 to the series sub-push *)
Definition own_demo (rid : N) : okey :=
  if N.eqb rid 5 then KSub 0 0 else if N.leb rid 2 then KSub 0 1 else KEnv 9.
Example demo_trace_is_fresh : fresh_run own_demo (ginit demo_cfg 2) demo_trace = true.
Proof. vm_compute. reflexivity. Qed.
(* ... and re-using a row id in another submission is what the hypothesis excludes *)
Example reused_row_is_not_fresh :
  fresh_run own_demo (ginit demo_cfg 2) (demo_trace ++ [GEnvReq 0 KSamples 10%N (table_of 5 [3%N]) 15%Z]) = false.
Proof. vm_compute. reflexivity. Qed.

(* the fast evaluation of req_owned used on the harness scripts (model/IngestCases.v) is req_owned *)
Lemma ascending_lt l : IngestCases.ascending l = true -> forall x y t, l = x :: t -> In y t -> (x < y)%N.
Proof.
  induction l as [|a l IH]; intros H x y t E Hin; [discriminate|]. inversion E; subst. destruct t as [|b t]; [destruct Hin|].
  cbn in H. apply andb_true_iff in H as [H1 H2]. apply N.ltb_lt in H1. destruct Hin as [<-|Hin]; [assumption|].
  pose proof (IH H2 b y t eq_refl Hin). lia.
Qed.
Lemma ascending_nodupb l : IngestCases.ascending l = true -> nodupb N.eqb l = true.
Proof.
  induction l as [|a l IH]; intros H; [reflexivity|]. cbn [nodupb]. apply andb_true_iff. split.
  - apply negb_true_iff. apply not_true_is_false. intros E. apply existsb_exists in E as (y & Hy & Ey). apply N.eqb_eq in Ey. subst y.
    pose proof (ascending_lt _ H a a l eq_refl Hy). lia.
  - apply IH. destruct l as [|b l]; [reflexivity|]. cbn in H. apply andb_true_iff in H as [_ H]. exact H.
Qed.
Lemma req_owned_fast_eq own k r : IngestCases.req_owned_fast own k r = req_owned own k r.
Proof.
  unfold IngestCases.req_owned_fast, req_owned. destruct (IngestCases.ascending (rids_of r)) eqn:E; [|reflexivity].
  now rewrite (ascending_nodupb _ E).
Qed.
