(* Property C11, round 6: AttrSelector.String() -- the key of analyzeCond's de-duplication -- is injective on the terms
   the grammar produces, so `keys_ok` (equal keys = equal terms) holds of every selector the parser builds and is no
   longer a hypothesis one has to trust: it follows from the lexical shape of the tokens (model/TraceqlKey.v), which the
   check computes on every case together with the equality of this printer and the real String(). *)
From Coq Require Import List ZArith QArith String Ascii Bool Lia.
From Qryn Require Import model.TqSql model.Traceql model.TraceqlPlan model.TraceqlSem model.TraceqlKey proofs.TraceqlAnalyzeProofs.
Import ListNotations.
Open Scope string_scope.

(* ---------- splitting a text at its first blank ---------- *)
Definition no_blank (s : string) : Prop := all_chars (fun c => negb (is_blank c)) s = true.

Lemma split_at_blank (l1 l2 r1 r2 : string) :
  no_blank l1 -> no_blank l2 -> l1 ++ " " ++ r1 = l2 ++ " " ++ r2 -> l1 = l2 /\ r1 = r2.
Proof.
  unfold no_blank. revert l2. induction l1 as [|c l1 IH]; intros [|d l2] H1 H2 E; cbn in *.
  - injection E as E. now split.
  - injection E as Ec E. subst d. cbn in H2. discriminate.
  - injection E as Ec E. subst c. cbn in H1. discriminate.
  - injection E as Ec E. subst d.
    apply andb_true_iff in H1. destruct H1 as [_ H1]. apply andb_true_iff in H2. destruct H2 as [_ H2].
    destruct (IH l2 H1 H2 E) as [-> ->]. now split.
Qed.

Lemma cmp_str_no_blank o : no_blank (cmp_str o).
Proof. destruct o; reflexivity. Qed.
Lemma cmp_str_inj a b : cmp_str a = cmp_str b -> a = b.
Proof. destruct a, b; cbn; intros E; try reflexivity; discriminate. Qed.

(* ---------- the three shapes of a value print differently ---------- *)
Lemma quote_not_num c : is_quote c = true -> num_char c = false.
Proof.
  unfold is_quote. intros H. apply orb_true_iff in H. destruct H as [H|H]; apply Ascii.eqb_eq in H; subst c; reflexivity.
Qed.
Lemma quote_not_digit c : is_quote c = true -> is_digit c = false.
Proof.
  unfold is_quote. intros H. apply orb_true_iff in H. destruct H as [H|H]; apply Ascii.eqb_eq in H; subst c; reflexivity.
Qed.
Lemma num_not_lower c : num_char c = true -> is_lower c = false.
Proof.
  unfold num_char, is_digit, is_lower. intros H.
  apply orb_true_iff in H. destruct H as [H|H].
  - apply orb_true_iff in H. destruct H as [H|H].
    + apply andb_true_iff in H. destruct H as [_ H]. apply N.leb_le in H.
      apply andb_false_iff. left. apply N.leb_gt. lia.
    + apply Ascii.eqb_eq in H. subst c. reflexivity.
  - apply Ascii.eqb_eq in H. subst c. reflexivity.
Qed.

Lemma all_last p q s : all_chars p s = true -> last_is q s = true -> exists c, p c = true /\ q c = true.
Proof.
  induction s as [|c s IH]; cbn; intros Ha Hl; [discriminate|].
  apply andb_true_iff in Ha. destruct Ha as [Hc Ha].
  destruct s as [|d s']; [exists c; now split|]. now apply IH.
Qed.

Lemma eqb_empty_false s : negb (String.eqb s "") = true -> s <> "".
Proof. intros H E. subst s. discriminate. Qed.

(* Value.String() on grammar values determines the captured tokens *)
Lemma val_string_inj a b :
  value_grammar a = true -> value_grammar b = true -> val_string a = val_string b -> tokens_eqb a b = true.
Proof.
  destruct a as [t1 f1 s1 u1 m1 d1], b as [t2 f2 s2 u2 m2 d2].
  unfold value_grammar, val_string, tokens_eqb. cbn [v_time v_f v_str].
  intros Ha Hb E.
  destruct s1 as [x1|], s2 as [x2|].
  - (* both strings *)
    apply andb_true_iff in Ha. destruct Ha as [Ha Ht1]. apply andb_true_iff in Ha. destruct Ha as [_ Hf1].
    apply andb_true_iff in Hb. destruct Hb as [Hb Ht2]. apply andb_true_iff in Hb. destruct Hb as [_ Hf2].
    apply String.eqb_eq in Ht1, Hf1, Ht2, Hf2. subst. cbn. rewrite String.eqb_refl. reflexivity.
  - (* string against number / duration *)
    exfalso.
    apply andb_true_iff in Ha. destruct Ha as [Ha _]. apply andb_true_iff in Ha. destruct Ha as [Hq _].
    destruct (negb (String.eqb f2 "")) eqn:Ef.
    + apply andb_true_iff in Hb. destruct Hb as [Hn _]. subst x1.
      destruct f2 as [|c r]; [discriminate|]. cbn in Hq, Hn. apply andb_true_iff in Hn. destruct Hn as [Hn _].
      rewrite (quote_not_num c Hq) in Hn. discriminate.
    + apply andb_true_iff in Hb. destruct Hb as [Hd _]. subst x1.
      destruct t2 as [|c r]; [discriminate|]. cbn in Hq, Hd. rewrite (quote_not_digit c Hq) in Hd. discriminate.
  - exfalso.
    apply andb_true_iff in Hb. destruct Hb as [Hb _]. apply andb_true_iff in Hb. destruct Hb as [Hq _].
    destruct (negb (String.eqb f1 "")) eqn:Ef.
    + apply andb_true_iff in Ha. destruct Ha as [Hn _]. subst x2.
      destruct f1 as [|c r]; [discriminate|]. cbn in Hq, Hn. apply andb_true_iff in Hn. destruct Hn as [Hn _].
      rewrite (quote_not_num c Hq) in Hn. discriminate.
    + apply andb_true_iff in Ha. destruct Ha as [Hd _]. subst x2.
      destruct t1 as [|c r]; [discriminate|]. cbn in Hq, Hd. rewrite (quote_not_digit c Hq) in Hd. discriminate.
  - (* numbers and durations *)
    destruct (negb (String.eqb f1 "")) eqn:Ef1, (negb (String.eqb f2 "")) eqn:Ef2.
    + apply andb_true_iff in Ha. destruct Ha as [_ Ht1]. apply andb_true_iff in Hb. destruct Hb as [_ Ht2].
      apply String.eqb_eq in Ht1, Ht2. subst. cbn. rewrite String.eqb_refl. reflexivity.
    + exfalso. apply andb_true_iff in Ha. destruct Ha as [Hn _]. apply andb_true_iff in Hb. destruct Hb as [_ Hl].
      subst t2. destruct (all_last _ _ _ Hn Hl) as [c [Hc1 Hc2]]. rewrite (num_not_lower c Hc1) in Hc2. discriminate.
    + exfalso. apply andb_true_iff in Hb. destruct Hb as [Hn _]. apply andb_true_iff in Ha. destruct Ha as [_ Hl].
      subst t1. destruct (all_last _ _ _ Hn Hl) as [c [Hc1 Hc2]]. rewrite (num_not_lower c Hc1) in Hc2. discriminate.
    + apply negb_false_iff in Ef1, Ef2. apply String.eqb_eq in Ef1, Ef2. subst. cbn. rewrite String.eqb_refl. reflexivity.
Qed.

(* ---------- the key is injective on grammar terms ---------- *)
Theorem key_injective (a b : attr_sel) :
  term_grammar a = true -> term_grammar b = true ->
  attr_sel_string a = attr_sel_string b ->
  a_label a = a_label b /\ a_op a = a_op b /\ tokens_eqb (a_val a) (a_val b) = true.
Proof.
  unfold term_grammar, label_grammar, attr_sel_string. intros Ha Hb E.
  apply andb_true_iff in Ha. destruct Ha as [Hla Hva]. apply andb_true_iff in Hla. destruct Hla as [_ Hla].
  apply andb_true_iff in Hb. destruct Hb as [Hlb Hvb]. apply andb_true_iff in Hlb. destruct Hlb as [_ Hlb].
  destruct (split_at_blank _ _ _ _ Hla Hlb E) as [El E2].
  destruct (split_at_blank _ _ _ _ (cmp_str_no_blank _) (cmp_str_no_blank _) E2) as [Eo Ev].
  split; [exact El|]. split; [now apply cmp_str_inj|]. now apply val_string_inj.
Qed.

Lemma tokens_eqb_refl v : tokens_eqb v v = true.
Proof.
  unfold tokens_eqb. rewrite !String.eqb_refl. destruct (v_str v) as [s|]; cbn; [apply String.eqb_refl|reflexivity].
Qed.

(* keys_ok is a consequence of the grammar *)
Theorem keys_ok_of_grammar (e : attr_exp) : terms_grammar e = true -> keys_ok e = true.
Proof.
  unfold terms_grammar, keys_ok, lib_functional. intros H. apply andb_true_iff in H. destruct H as [Hg Hf].
  rewrite forallb_forall in Hg. rewrite forallb_forall in Hf.
  apply forallb_forall. intros a Ha. apply forallb_forall. intros b Hb.
  destruct (String.eqb (attr_sel_string a) (attr_sel_string b)) eqn:Ek; [|reflexivity]. cbn.
  apply String.eqb_eq in Ek.
  destruct (key_injective a b (Hg a Ha) (Hg b Hb) Ek) as [El [Eo Et]].
  specialize (Hf a Ha). rewrite forallb_forall in Hf. specialize (Hf b Hb). rewrite Et in Hf. cbn in Hf.
  unfold attr_sel_eqb. rewrite El, Eo, String.eqb_refl, Hf.
  destruct (a_op b); reflexivity.
Qed.

(* the library values are functions of the tokens whenever they were computed by functions: for every triple of
   functions (json unquoting, ParseFloat + FloatVal.String, ParseDuration) the harness's way of filling the fields
   makes lib_functional true *)
Section LIB.
  Variable unqF : string -> option string.
  Variable ffmtF : string -> option string.
  Variable durF : string -> option Z.
  Definition lib_from (v : Traceql.value) : Prop :=
    v_unq v = match v_str v with Some s => unqF s | None => None end
    /\ v_ffmt v = (if String.eqb (v_f v) "" then None else ffmtF (v_f v))
    /\ v_dur v = (if String.eqb (v_time v) "" then None else durF (v_time v)).

  Lemma opt_eqb_refl_s (o : option string) : opt_eqb String.eqb o o = true.
  Proof. destruct o; cbn; [apply String.eqb_refl|reflexivity]. Qed.
  Lemma opt_eqb_refl_z (o : option Z) : opt_eqb Z.eqb o o = true.
  Proof. destruct o; cbn; [apply Z.eqb_refl|reflexivity]. Qed.

  Lemma lib_functional_from (ts : list attr_sel) :
    (forall t, In t ts -> lib_from (a_val t)) -> lib_functional ts = true.
  Proof.
    intros H. unfold lib_functional. apply forallb_forall. intros a Ha. apply forallb_forall. intros b Hb.
    destruct (tokens_eqb (a_val a) (a_val b)) eqn:Et; [|reflexivity]. cbn.
    destruct (H a Ha) as [A1 [A2 A3]]. destruct (H b Hb) as [B1 [B2 B3]].
    unfold tokens_eqb in Et. apply andb_true_iff in Et. destruct Et as [Et Es]. apply andb_true_iff in Et. destruct Et as [Et Ef].
    apply String.eqb_eq in Et, Ef.
    assert (Es' : v_str (a_val a) = v_str (a_val b)).
    { apply (opt_eqb_eq String.eqb (fun x y => proj1 (String.eqb_eq x y))). exact Es. }
    unfold value_eqb. rewrite A1, A2, A3, B1, B2, B3, Et, Ef, Es'.
    rewrite !String.eqb_refl, !opt_eqb_refl_s, opt_eqb_refl_z. reflexivity.
  Qed.
End LIB.

(* ---------- the guard keys_ok removed from the analysis theorem ---------- *)
Theorem analyze_sem_grammar re_match parse_float lit_round (e : attr_exp) :
  terms_grammar e = true ->
  let '(c, st) := analyze_cond e ([], []) in
  forall rows, cond_sem re_match parse_float lit_round (fst st) rows c = exp_sem re_match parse_float lit_round e rows.
Proof.
  intros H. pose proof (analyze_sem re_match parse_float lit_round e (keys_ok_of_grammar e H)) as A.
  destruct (analyze_cond e ([], [])) as [c st]. exact (proj2 A).
Qed.

(* ---------- the converse: a printer that conflates two different terms breaks the analysis.
   `analyze_with key` is analyzeCond with another key function.  With the key cut after n bytes of the value (the shape of
   the seeded change C11-f) two grammar terms collide and the analysed condition no longer means the expression. ---------- *)
Fixpoint take_s (n : nat) (s : string) : string :=
  match n, s with S k, String c r => String c (take_s k r) | _, _ => EmptyString end.
Definition key_cut (n : nat) (a : attr_sel) : string :=
  a_label a ++ " " ++ cmp_str (a_op a) ++ " " ++ take_s n (val_string (a_val a)).
Definition strv (tok unq : string) : Traceql.value :=
  {| v_time := ""; v_f := ""; v_str := Some tok; v_unq := Some unq; v_ffmt := None; v_dur := None |}.
Definition tA : attr_sel := {| a_label := ".u"; a_op := CEq; a_val := strv """/ordersA""" "/ordersA" |}.
Definition tB : attr_sel := {| a_label := ".u"; a_op := CEq; a_val := strv """/ordersB""" "/ordersB" |}.

Example cut_key_conflates :
  term_grammar tA = true /\ term_grammar tB = true /\ tA <> tB /\
  attr_sel_string tA <> attr_sel_string tB /\ key_cut 8 tA = key_cut 8 tB.
Proof.
  split; [reflexivity|]. split; [reflexivity|]. split; [discriminate|]. split; [discriminate|]. reflexivity.
Qed.

(* analyzeCond over an arbitrary key function (the model's analyze_cond is the instance key = attr_sel_string) *)
Fixpoint analyze_cond_k (key : attr_sel -> string) (e : attr_exp) (st : an_state) : condition * an_state :=
  match e with
  | AExp h ao tl =>
    let '(res, st1) :=
      match h with
      | HParen e' => analyze_cond_k key e' st
      | HTerm t =>
          match find_key (key t) (snd st) with
          | Some i => (CTerm i, st)
          | None => let i := List.length (fst st) in (CTerm i, ((fst st ++ [t])%list, (key t, i) :: snd st))
          end
      end in
    match tl with
    | Some t' => let '(r2, st2) := analyze_cond_k key t' st1 in (CBin ao res r2, st2)
    | None => (res, st1)
    end
  end.

Definition eAB : attr_exp := AExp (HTerm tA) AOOr (Some (AExp (HTerm tB) AONone None)).
Definition rowB : irow :=
  {| r_date := "2023-11-14"; r_key := "u"; r_val := "/ordersB"; r_trace := "t2"; r_span := "s1"; r_ts := 5%Z; r_dur := 1%Z |}.

(* with the faithful key the two conditions keep a bit each and the span that only has B is selected; with a key that
   prints 8 bytes of the literal, B silently becomes A and the span is lost -- the guard of analyze_keeps_meaning is
   exactly what the printer has to deliver *)
Theorem analyze_refuted_with_cut_key :
  exists (e : attr_exp) (rows : list irow),
    terms_grammar e = true /\
    analyze_cond_k attr_sel_string e ([], []) = analyze_cond e ([], []) /\
    exp_sem (fun _ _ => false) (fun _ => None) false e rows = true /\
    (let '(c, st) := analyze_cond e ([], []) in cond_sem (fun _ _ => false) (fun _ => None) false (fst st) rows c) = true /\
    (let '(c, st) := analyze_cond_k (key_cut 8) e ([], []) in cond_sem (fun _ _ => false) (fun _ => None) false (fst st) rows c) = false.
Proof.
  exists eAB, [rowB]. split; [reflexivity|]. split; [reflexivity|]. split; [reflexivity|]. split; reflexivity.
Qed.

(* the model's analyze_cond is the instance of analyze_cond_k at the faithful printer, for every expression and state *)
Lemma analyze_cond_k_faithful : forall e st, analyze_cond_k attr_sel_string e st = analyze_cond e st.
Proof.
  fix IH 1. intros [h ao tl] st. cbn [analyze_cond_k analyze_cond].
  destruct h as [t|e'].
  - destruct (find_key (attr_sel_string t) (snd st)) as [i|]; (destruct tl as [t'|]; [rewrite IH|]; reflexivity).
  - rewrite (IH e' st). destruct (analyze_cond e' st) as [res st1]. destruct tl as [t'|]; [rewrite IH|]; reflexivity.
Qed.

(* ---------- the analysis is right for EVERY printer that separates the terms of the selector ---------- *)
Section ANYKEY.
  Variable re_match : string -> string -> bool.
  Variable parse_float : string -> option Q.
  Variable lit_round : bool.
  Variable key : attr_sel -> string.
  Notation tsem := (term_sem re_match parse_float lit_round).
  Notation esem := (exp_sem re_match parse_float lit_round).
  Notation csem := (cond_sem re_match parse_float lit_round).
  Definition key_inj (U : list attr_sel) : Prop := forall a b, In a U -> In b U -> key a = key b -> a = b.
  Local Open Scope list_scope.

  (* the map of analyzeCond is consistent with its term list *)
  Definition st_ok_k (U : list attr_sel) (st : an_state) : Prop :=
    (forall k i, find_key k (snd st) = Some i -> exists t, nth_error (fst st) i = Some t /\ key t = k)
    /\ (forall i t, nth_error (fst st) i = Some t -> In t U).

  Lemma st_ok_k_nil U : st_ok_k U ([], []).
  Proof. split; [intros k i H; discriminate|intros [|i] t H; discriminate]. Qed.

  Fixpoint analyze_cond_k_ok (U : list attr_sel) (HU : key_inj U) (e : attr_exp) {struct e} :
    forall st c st',
      (forall t, In t (exp_terms e) -> In t U) -> st_ok_k U st -> analyze_cond_k key e st = (c, st') ->
      st_ok_k U st' /\ (exists ext, fst st' = fst st ++ ext) /\ cond_wf (List.length (fst st')) c
      /\ forall rows, csem (fst st') rows c = esem e rows.
  Proof.
    destruct e as [h ao tl]. intros st c st' Hin Hst Han. cbn [analyze_cond_k] in Han.
    (* the head *)
    assert (Hhead : forall res st1,
               match h with
               | HParen e' => analyze_cond_k key e' st
               | HTerm t =>
                   match find_key (key t) (snd st) with
                   | Some i => (CTerm i, st)
                   | None => (CTerm (List.length (fst st)), (fst st ++ [t], (key t, List.length (fst st)) :: snd st))
                   end
               end = (res, st1) ->
               st_ok_k U st1 /\ (exists ext, fst st1 = fst st ++ ext) /\ cond_wf (List.length (fst st1)) res
               /\ forall rows, csem (fst st1) rows res =
                               match h with HTerm t => existsb (tsem t) rows | HParen e' => esem e' rows end).
    { intros res st1 E. destruct h as [t|e'].
      - assert (HtU : In t U) by (apply Hin; cbn; left; reflexivity).
        destruct (find_key (key t) (snd st)) as [i|] eqn:Ek.
        + inversion E; subst res st1; clear E.
          destruct Hst as [Hmap HinU]. destruct (Hmap _ _ Ek) as [t0 [Hn Hk]].
          split; [split; assumption|]. split; [exists []; now rewrite app_nil_r|].
          split; [cbn; apply nth_error_Some; congruence|].
          intros rows. cbn [cond_sem]. rewrite Hn.
          assert (t0 = t) as -> by (apply HU; [eapply HinU; eassumption|assumption|assumption]). reflexivity.
        + inversion E; subst res st1; clear E. cbn [fst snd].
          destruct Hst as [Hmap HinU].
          split; [split|].
          * intros k i Hf. cbn [find_key fst snd] in Hf |- *.
            destruct (String.eqb k (key t)) eqn:Ekk.
            -- injection Hf as <-. exists t. split; [now rewrite nth_error_app2, Nat.sub_diag by lia|].
               symmetry. now apply String.eqb_eq.
            -- destruct (Hmap _ _ Hf) as [t0 [Hn Hk]]. exists t0. split; [|assumption].
               rewrite nth_error_app1; [assumption|]. apply nth_error_Some. congruence.
          * intros i t0 Hn. cbn [fst snd] in Hn. destruct (Nat.lt_ge_cases i (List.length (fst st))) as [Hlt|Hge].
            -- rewrite nth_error_app1 in Hn by assumption. eapply HinU; eassumption.
            -- rewrite nth_error_app2 in Hn by assumption.
               destruct (i - List.length (fst st))%nat as [|k]; cbn in Hn; [inversion Hn; now subst|destruct k; discriminate].
          * split; [exists [t]; reflexivity|]. split; [cbn; rewrite app_length; cbn; lia|].
            intros rows. cbn [cond_sem]. now rewrite nth_error_app2, Nat.sub_diag by lia.
      - apply (analyze_cond_k_ok U HU e' st res st1); [|assumption|assumption].
        intros t Ht. apply Hin. cbn. apply in_or_app. left. assumption. }
    destruct (match h with
              | HParen e' => analyze_cond_k key e' st
              | HTerm t =>
                  match find_key (key t) (snd st) with
                  | Some i => (CTerm i, st)
                  | None => (CTerm (List.length (fst st)), (fst st ++ [t], (key t, List.length (fst st)) :: snd st))
                  end
              end) as [res st1] eqn:Eh.
    destruct (Hhead res st1 eq_refl) as [Hst1 [[ext1 Hext1] [Hwf1 Hsem1]]].
    destruct tl as [t'|].
    - destruct (analyze_cond_k key t' st1) as [r2 st2] eqn:Et. inversion Han; subst c st'; clear Han.
      destruct (analyze_cond_k_ok U HU t' st1 r2 st2) as [Hst2 [[ext2 Hext2] [Hwf2 Hsem2]]]; [|assumption|assumption|].
      { intros t Ht. apply Hin. cbn. apply in_or_app. right. assumption. }
      split; [assumption|]. split; [exists (ext1 ++ ext2); now rewrite Hext2, Hext1, app_assoc|].
      split; [cbn; split; [|assumption]; eapply cond_wf_mono; [|eassumption]; rewrite Hext2, app_length; lia|].
      intros rows. cbn [cond_sem exp_sem]. rewrite Hsem2, Hext2, csem_ext, Hsem1 by assumption.
      destruct ao; reflexivity.
    - inversion Han; subst c st'; clear Han.
      split; [assumption|]. split; [exists ext1; assumption|]. split; [assumption|].
      intros rows. cbn [exp_sem]. apply Hsem1.
  Qed.


  Theorem analyze_any_injective_key (e : attr_exp) :
    key_inj (exp_terms e) ->
    let '(c, st) := analyze_cond_k key e ([], []) in
    forall rows, csem (fst st) rows c = esem e rows.
  Proof.
    intros Hk. destruct (analyze_cond_k key e ([], [])) as [c st] eqn:E.
    destruct (analyze_cond_k_ok (exp_terms e) Hk e ([], []) c st (fun t H => H) (st_ok_k_nil _) E) as [_ [_ [_ Hsem]]].
    exact Hsem.
  Qed.
End ANYKEY.
