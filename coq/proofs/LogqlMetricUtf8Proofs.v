(* C08 round 7: lengthUTF8 against length (seed C08-g) *)
From Coq Require Import List ZArith String Ascii Bool Lia.
From Qryn Require Import model.SqlEvalAgg.
Import ListNotations.

(* ---- lengthUTF8 is not length (seed C08-g): code points never exceed bytes, and fall short exactly when the string holds a
   UTF-8 continuation byte, i.e. on every well-formed string with a character outside ASCII *)
Fixpoint has_cont (s : string) : bool :=
  match s with EmptyString => false | String c r => is_utf8_cont c || has_cont r end.
Lemma utf8_points_le_length : forall s, utf8_points s <= String.length s.
Proof. induction s as [|c r IH]; simpl; [lia|]. destruct (is_utf8_cont c); lia. Qed.
Lemma utf8_points_eq_length_iff : forall s, utf8_points s = String.length s <-> has_cont s = false.
Proof.
  induction s as [|c r IH]; simpl; [tauto|].
  pose proof (utf8_points_le_length r). destruct (is_utf8_cont c); simpl.
  - split; [lia|discriminate].
  - rewrite <- IH. lia.
Qed.
Lemma utf8_points_lt_length : forall s, has_cont s = true -> utf8_points s < String.length s.
Proof.
  intros s H. pose proof (utf8_points_le_length s). destruct (Nat.eq_dec (utf8_points s) (String.length s)) as [E|]; [|lia].
  apply utf8_points_eq_length_iff in E. congruence.
Qed.
(* U+65E5 U+672C U+8A9E: 9 bytes, 3 code points; "e" + U+0301: 3 bytes, 2 code points *)
Example utf8_points_japanese :
  let s := String (ascii_of_nat 230) (String (ascii_of_nat 151) (String (ascii_of_nat 165)
           (String (ascii_of_nat 230) (String (ascii_of_nat 156) (String (ascii_of_nat 172)
           (String (ascii_of_nat 232) (String (ascii_of_nat 170) (String (ascii_of_nat 158) EmptyString)))))))) in
  has_cont s = true /\ String.length s = 9 /\ utf8_points s = 3.
Proof. vm_compute. auto. Qed.
Example utf8_points_ascii : has_cont "x=3;lvl=a" = false /\ utf8_points "x=3;lvl=a" = String.length "x=3;lvl=a".
Proof. vm_compute. auto. Qed.
