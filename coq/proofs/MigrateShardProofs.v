(* C18, round 7: where the rows of table ver live on a cluster, and what the two ways of reading them see.

   INSERT INTO ver carries no ON CLUSTER: the row goes to the LOCAL table of the host the start is connected to.
   A Replicated ver shares its rows among the replicas of one shard; the Distributed table ver_dist reads the
   local tables of every shard.  The store below keeps, per shard, max(ver) per stream.  The protocol model
   (Migrate.db) keeps ONE function d_vers, raised by set_ver whatever host a start is connected to: that is
   what a read through ver_dist answers (dist_read_is_global / dist_read_follows_model), for every sequence of
   writes through any shards.  A read of the local table answers for the shard of the connected host only
   (local_read_misses): a start that reaches the cluster through another shard and reads `ver` sees nothing
   of what was recorded -- the variant of updateScripts that keeps verTable = "ver" when the engines are the
   Replicated ones is outside the model, and the harness observes the difference. *)
From Coq Require Import List Arith Lia Bool.
From Qryn Require Import model.Migrate.
Import ListNotations.

Definition vstore := list (stream -> nat).
Definition read_local (s : nat) (st : vstore) (k : stream) : nat := nth s st (fun _ => 0) k.
Definition read_dist (st : vstore) (k : stream) : nat := fold_right Nat.max 0 (map (fun f => f k) st).
Definition raise (f : stream -> nat) (k : stream) (v : nat) : stream -> nat :=
  fun k' => if stream_eqb k' k then Nat.max (f k') v else f k'.
Fixpoint ins (s : nat) (k : stream) (v : nat) (st : vstore) {struct st} : vstore :=
  match st, s with
  | [], _ => []
  | f :: r, O => raise f k v :: r
  | f :: r, S s' => f :: ins s' k v r
  end.

Lemma ins_length : forall st s k v, List.length (ins s k v st) = List.length st.
Proof. induction st as [|f st IH]; intros s k v; [reflexivity|]. destruct s; simpl; [reflexivity|]. f_equal. apply IH. Qed.

(* one write through any shard: the cluster-wide read moves exactly as the model's set_ver moves d_vers *)
Lemma dist_read_is_global : forall st s k v k', s < List.length st ->
  read_dist (ins s k v st) k' = raise (read_dist st) k v k'.
Proof.
  induction st as [|f st IH]; intros s k v k' H; [simpl in H; lia|].
  destruct s as [|s]; simpl.
  - unfold raise, read_dist. simpl. destruct (stream_eqb k' k); lia.
  - simpl in H. unfold read_dist in *. simpl. rewrite IH by lia. unfold raise. destruct (stream_eqb k' k); lia.
Qed.

(* set_ver of the protocol model is `raise` on d_vers *)
Lemma set_ver_is_raise : forall (cat : Type) (d : db cat) k v, d_vers (set_ver cat d k v) = raise (d_vers d) k v.
Proof. reflexivity. Qed.

(* any sequence of version writes, each through any shard of the cluster *)
Definition writes (ws : list (nat * stream * nat)) (st : vstore) : vstore :=
  fold_left (fun st w => ins (fst (fst w)) (snd (fst w)) (snd w) st) ws st.
Definition model_writes (cat : Type) (ws : list (nat * stream * nat)) (d : db cat) : db cat :=
  fold_left (fun d w => set_ver cat d (snd (fst w)) (snd w)) ws d.

Theorem dist_read_follows_model : forall (cat : Type) ws st (d : db cat),
  Forall (fun w => fst (fst w) < List.length st) ws ->
  (forall k, read_dist st k = d_vers d k) ->
  forall k, read_dist (writes ws st) k = d_vers (model_writes cat ws d) k.
Proof.
  intros cat ws. induction ws as [|w ws IH]; intros st d F E k; simpl; [apply E|].
  inversion F; subst. apply IH.
  - rewrite Forall_forall in *. intros x Hx. rewrite ins_length. auto.
  - intro k'. rewrite dist_read_is_global by assumption. rewrite set_ver_is_raise. unfold raise. rewrite !E. reflexivity.
Qed.

(* a write through shard s never shows in the local table of another shard *)
Theorem local_read_misses : forall st s s' k v k', s <> s' ->
  read_local s' (ins s k v st) k' = read_local s' st k'.
Proof.
  unfold read_local. induction st; intros s s' k v k' N; simpl; [reflexivity|].
  destruct s, s'; simpl; try reflexivity; try congruence. apply IHst. congruence.
Qed.

(* hypotheses met by a non-trivial value: two shards, the whole of log.sql (28 scripts) recorded through shard 0:
   ver_dist answers 28 from either shard, the local table of shard 1 answers 0 *)
Example two_shards :
  let st := writes [(0, SLog, 27); (0, SLog, 28); (0, STraces, 8)] [fun _ => 0; fun _ => 0] in
  read_dist st SLog = 28 /\ read_local 0 st SLog = 28 /\ read_local 1 st SLog = 0 /\ read_dist st STraces = 8.
Proof. vm_compute. repeat split. Qed.
