(* C18, round 7: where the rows of table ver live on a cluster, and what the two ways of reading them see.

   INSERT INTO ver carries no ON CLUSTER: the row goes to the LOCAL table of the host the start is connected to.
   A Replicated ver shares its rows among the replicas of one shard; the Distributed table ver_dist reads the
   local tables of every shard.  The store below keeps, per shard, max(ver) per stream.  The protocol model
   (Migrate.db) keeps ONE function d_vers, raised by set_ver whatever host a start is connected to: that is
   what a read through ver_dist answers (dist_read_is_global / dist_read_follows_model), for every sequence of
   writes through any shards.  A read of the local table answers for the shard of the connected host only
   (local_read_misses): a start that reaches the cluster through another shard and reads `ver` sees nothing
   of what was recorded -- the variant of updateScripts that keeps verTable = "ver" when the engines are the
   Replicated ones is outside the model, and the harness observes the difference. *)
From Coq Require Import List Arith Lia Bool.
From Qryn Require Import model.Migrate proofs.MigrateProofs gen.GenScripts.
Import ListNotations.

Definition vstore := list (stream -> nat).
Definition read_local (s : nat) (st : vstore) (k : stream) : nat := nth s st (fun _ => 0) k.
Definition read_dist (st : vstore) (k : stream) : nat := fold_right Nat.max 0 (map (fun f => f k) st).
Definition raise (f : stream -> nat) (k : stream) (v : nat) : stream -> nat :=
  fun k' => if stream_eqb k' k then Nat.max (f k') v else f k'.
Fixpoint ins (s : nat) (k : stream) (v : nat) (st : vstore) {struct st} : vstore :=
  match st, s with
  | [], _ => []
  | f :: r, O => raise f k v :: r
  | f :: r, S s' => f :: ins s' k v r
  end.

Lemma ins_length : forall st s k v, List.length (ins s k v st) = List.length st.
Proof. induction st as [|f st IH]; intros s k v; [reflexivity|]. destruct s; simpl; [reflexivity|]. f_equal. apply IH. Qed.

(* one write through any shard: the cluster-wide read moves exactly as the model's set_ver moves d_vers *)
Lemma dist_read_is_global : forall st s k v k', s < List.length st ->
  read_dist (ins s k v st) k' = raise (read_dist st) k v k'.
Proof.
  induction st as [|f st IH]; intros s k v k' H; [simpl in H; lia|].
  destruct s as [|s]; simpl.
  - unfold raise, read_dist. simpl. destruct (stream_eqb k' k); lia.
  - simpl in H. unfold read_dist in *. simpl. rewrite IH by lia. unfold raise. destruct (stream_eqb k' k); lia.
Qed.

(* set_ver of the protocol model is `raise` on d_vers *)
Lemma set_ver_is_raise : forall (cat : Type) (d : db cat) k v, d_vers (set_ver cat d k v) = raise (d_vers d) k v.
Proof. reflexivity. Qed.

(* any sequence of version writes, each through any shard of the cluster *)
Definition writes (ws : list (nat * stream * nat)) (st : vstore) : vstore :=
  fold_left (fun st w => ins (fst (fst w)) (snd (fst w)) (snd w) st) ws st.
Definition model_writes (cat : Type) (ws : list (nat * stream * nat)) (d : db cat) : db cat :=
  fold_left (fun d w => set_ver cat d (snd (fst w)) (snd w)) ws d.

Theorem dist_read_follows_model : forall (cat : Type) ws st (d : db cat),
  Forall (fun w => fst (fst w) < List.length st) ws ->
  (forall k, read_dist st k = d_vers d k) ->
  forall k, read_dist (writes ws st) k = d_vers (model_writes cat ws d) k.
Proof.
  intros cat ws. induction ws as [|w ws IH]; intros st d F E k; simpl; [apply E|].
  inversion F; subst. apply IH.
  - rewrite Forall_forall in *. intros x Hx. rewrite ins_length. auto.
  - intro k'. rewrite dist_read_is_global by assumption. rewrite set_ver_is_raise. unfold raise. rewrite !E. reflexivity.
Qed.

(* a write through shard s never shows in the local table of another shard *)
Theorem local_read_misses : forall st s s' k v k', s <> s' ->
  read_local s' (ins s k v st) k' = read_local s' st k'.
Proof.
  unfold read_local. induction st; intros s s' k v k' N; simpl; [reflexivity|].
  destruct s, s'; simpl; try reflexivity; try congruence. apply IHst. congruence.
Qed.

(* hypotheses met by a non-trivial value: two shards, the whole of log.sql (28 scripts) recorded through shard 0:
   ver_dist answers 28 from either shard, the local table of shard 1 answers 0 *)
Example two_shards :
  let st := writes [(0, SLog, 27); (0, SLog, 28); (0, STraces, 8)] [fun _ => 0; fun _ => 0] in
  read_dist st SLog = 28 /\ read_local 0 st SLog = 28 /\ read_local 1 st SLog = 0 /\ read_dist st STraces = 8.
Proof. vm_compute. repeat split. Qed.

(* ---- a start through another host of the cluster (Migrate.start_at: hosts 0 and j exchanged) ---- *)
Lemma nth_split_at : forall (A : Type) (l : list A) j x, nth_error l j = Some x ->
  l = firstn j l ++ x :: skipn (S j) l /\ List.length (firstn j l) = j.
Proof.
  induction l as [|a l IH]; intros j x E; [destruct j; discriminate|].
  destruct j as [|j]; [injection E as ->; split; reflexivity|].
  destruct (IH j x E) as [P Q]. split; [change (a :: l = a :: (firstn j l ++ x :: skipn (S j) l)); f_equal; exact P|].
  change (S (List.length (firstn j l)) = S j). f_equal. exact Q.
Qed.
Lemma nth_mid : forall (A : Type) (pre post : list A) x, nth_error (pre ++ x :: post) (List.length pre) = Some x.
Proof. induction pre; intros; [reflexivity|apply IHpre]. Qed.
Lemma firstn_mid : forall (A : Type) (pre r : list A), firstn (List.length pre) (pre ++ r) = pre.
Proof. induction pre as [|a pre IH]; intros r; [destruct r; reflexivity|]. change (a :: firstn (List.length pre) (pre ++ r) = a :: pre). f_equal. apply IH. Qed.
Lemma skipn_mid : forall (A : Type) (pre post : list A) x, skipn (S (List.length pre)) (pre ++ x :: post) = post.
Proof. induction pre as [|a pre IH]; intros post x; [reflexivity|]. apply IH. Qed.

Lemma swap_hosts_involutive : forall (A : Type) (j : nat) (hs : list A), swap_hosts j (swap_hosts j hs) = hs.
Proof.
  intros A j hs. destruct hs as [|h0 tl]; [destruct j; reflexivity|]. destruct j as [|j]; [reflexivity|].
  unfold swap_hosts at 2. destruct (nth_error tl j) as [hj|] eqn:E.
  2:{ unfold swap_hosts. rewrite E. reflexivity. }
  destruct (nth_split_at A tl j hj E) as [P Q].
  set (pre := firstn j tl) in *. set (post := skipn (S j) tl) in *. clearbody pre post. subst j.
  unfold swap_hosts. rewrite nth_mid, firstn_mid, skipn_mid, <- P. reflexivity.
Qed.

(* a start through ANY host of the cluster on an up-to-date database: no script statement, no version write,
   every host's catalogue and the versions unchanged *)
Theorem noop_through_any_host :
  forall (scripts : stream -> list stmt) (oncl : stream -> list bool) (c : cfg) (j : nat) (os : list outcome) (d : db (ccat cat)),
  (forall k, In k (streams_of c) -> List.length (cl_scripts scripts oncl c k) <= d_vers d k) ->
  let m := fst (start_at scripts oncl c j os d) in
  let d1 := snd (start_at scripts oncl c j os d) in
  d_cat d1 = d_cat d /\ d_vers d1 = d_vers d /\ filter is_script_event (r_log m) = [].
Proof.
  intros scripts oncl c j os d H. unfold start_at. cbn [fst snd].
  set (d' := set_cat (ccat cat) d (swap_hosts j (d_cat d))).
  destruct (run_streams_noop (ccat cat) (cstmt stmt) (cl_exec cat stmt (exec_ch (cloud c))) (cl_pexec cat stmt (exec_ch (cloud c)))
              (cl_scripts scripts oncl c) c (streams_of c) os d' H) as (Hc & Hv & Hn & _).
  unfold ch_update, update. cbn [set_cat d_cat d_vers].
  rewrite Hc, Hv. subst d'. cbn [set_cat d_cat d_vers]. rewrite swap_hosts_involutive.
  split; [reflexivity|]. split; [reflexivity|]. exact Hn.
Qed.

(* hypotheses met by a non-trivial value: the repository's scripts, replicated + clustered, 2 hosts, the finished
   database, a start through host 1: 18 calls (6 streams x create ver, create ver_dist, read), no script *)
Example noop_any_host_hypotheses_met :
  let c := {| cloud := true; dist := true; clustered := true |} in
  let d := expected_final gen_scripts gen_oncluster c 2 in
  forallb (fun k => List.length (cl_scripts gen_scripts gen_oncluster c k) <=? d_vers d k) (streams_of c) = true /\
  filter is_script_event (r_log (fst (start_at gen_scripts gen_oncluster c 1 [] d))) = [] /\
  List.length (r_log (fst (start_at gen_scripts gen_oncluster c 1 [] d))) = 18.
Proof. vm_compute. repeat split. Qed.
