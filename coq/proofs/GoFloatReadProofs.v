From Coq Require Import List NArith ZArith Bool Ascii String Lia.
From Qryn Require Import model.GoFloat model.JsonStream proofs.JsonStreamProofs proofs.GoFloatProofs.
Import ListNotations.
Open Scope Z_scope.

(* C15 - number texts read back: a plain decimal text gives exactly the sign, the integer n and the scale k it was
   laid out from (so the %f and 'f' -1 texts denote exactly the decimals the printers chose). *)

Fixpoint dval (s : string) (acc : Z) : Z :=
  match s with EmptyString => acc | String c r => dval r (acc * 10 + (Z.of_N (N_of_ascii c) - 48)) end.

Lemma is_digit_range : forall c, is_digit c = true -> (48 <=? Z.of_N (N_of_ascii c)) && (Z.of_N (N_of_ascii c) <=? 57) = true.
Proof.
  intros c H. unfold is_digit, code in H. apply andb_prop in H. destruct H as [H1 H2].
  apply N.leb_le in H1. apply N.leb_le in H2. apply andb_true_intro. split; apply Z.leb_le; lia.
Qed.

Lemma read_digits_app : forall ds rest acc frac, all_digit ds = true ->
  read_digits (ds ++ rest) acc frac =
  read_digits rest (dval ds acc) (option_map (fun j => (String.length ds + j)%nat) frac).
Proof.
  induction ds as [|c ds IH]; intros rest acc frac H.
  - cbn [append dval String.length]. destruct frac; reflexivity.
  - cbn [all_digit] in H. apply andb_prop in H. destruct H as [Hc Hs]. cbn [append read_digits].
    rewrite (is_digit_range c Hc). rewrite IH by exact Hs. cbn [dval String.length]. f_equal.
    destruct frac as [j|]; cbn [option_map]; [f_equal; lia|reflexivity].
Qed.

Lemma dval_app : forall a b acc, dval (a ++ b) acc = dval b (dval a acc).
Proof. induction a as [|c a IH]; intros b acc; [reflexivity|]. cbn [append dval]. apply IH. Qed.

Lemma dchr_val : forall d, 0 <= d <= 9 -> Z.of_N (N_of_ascii (dchr d)) - 48 = d.
Proof.
  intros d H. pose proof (dchr_code d H) as E. unfold code in E. rewrite E. rewrite Z2N.id by lia. lia.
Qed.

Lemma dval_digits_f : forall f n acc, 0 <= n < 2 ^ Z.of_nat f ->
  dval (digits_f f n) acc = acc * 10 ^ Z.of_nat (String.length (digits_f f n)) + n.
Proof.
  induction f as [|f IH]; intros n acc Hn.
  - cbn in Hn. assert (n = 0) by lia. subst. cbn. lia.
  - cbn [digits_f]. destruct (n <? 10) eqn:E.
    + apply Z.ltb_lt in E. cbn [dval String.length]. rewrite dchr_val by lia. change (Z.of_nat 1) with 1. lia.
    + apply Z.ltb_ge in E.
      assert (Hq : 0 <= n / 10 < 2 ^ Z.of_nat f).
      { split; [apply Z.div_pos; lia|]. rewrite Nat2Z.inj_succ, Z.pow_succ_r in Hn by lia. apply Z.div_lt_upper_bound; lia. }
      rewrite dval_app, (IH _ acc Hq). cbn [dval]. rewrite dchr_val by (pose proof (Z.mod_pos_bound n 10); lia).
      rewrite slength_app. cbn [String.length]. rewrite Nat2Z.inj_add. change (Z.of_nat 1) with 1.
      rewrite Z.pow_add_r by lia. pose proof (Z.div_mod n 10 ltac:(lia)). lia.
Qed.

Lemma dval_digits : forall n acc, 0 <= n -> dval (digits n) acc = acc * 10 ^ Z.of_nat (String.length (digits n)) + n.
Proof.
  intros n acc Hn. apply dval_digits_f. split; [exact Hn|].
  rewrite Nat2Z.inj_succ, Z2Nat.id by (apply Z.log2_nonneg).
  destruct (Z.eq_dec n 0) as [->|Hz]; [cbn; lia|]. apply Z.log2_spec. lia.
Qed.

Lemma dval_zeros : forall j acc, dval (zeros j) acc = acc * 10 ^ Z.of_nat j.
Proof.
  induction j as [|j IH]; intros acc; [cbn; lia|]. cbn [zeros dval]. rewrite IH, dchr_val by lia.
  rewrite Nat2Z.inj_succ, Z.pow_succ_r by lia. lia.
Qed.
Lemma length_zeros : forall j, String.length (zeros j) = j.
Proof. induction j as [|j IH]; [reflexivity|]. cbn [zeros String.length]. now rewrite IH. Qed.

Lemma digits_f_len : forall f n k, (1 <= k)%nat -> 0 <= n < 10 ^ Z.of_nat k -> (String.length (digits_f f n) <= k)%nat.
Proof.
  induction f as [|f IH]; intros n k Hk Hn; [cbn; lia|]. cbn [digits_f]. destruct (n <? 10) eqn:E; [cbn; lia|].
  apply Z.ltb_ge in E. rewrite slength_app. cbn [String.length].
  destruct k as [|[|k]]; [lia| |].
  - change (10 ^ Z.of_nat 1) with 10 in Hn. lia.
  - assert (Hq : 0 <= n / 10 < 10 ^ Z.of_nat (S k)).
    { split; [apply Z.div_pos; lia|]. rewrite (Nat2Z.inj_succ (S k)), Z.pow_succ_r in Hn by lia. apply Z.div_lt_upper_bound; lia. }
    pose proof (IH (n / 10) (S k) ltac:(lia) Hq). lia.
Qed.

Lemma read_after_sign : forall n k, 0 <= n ->
  read_digits (digits (n / 10 ^ Z.of_nat k) ++
               match k with O => EmptyString | S _ => dot ++ pad_left k (digits (n mod 10 ^ Z.of_nat k)) end) 0 None
  = Some (n, k).
Proof.
  intros n k Hn. assert (Hp : 0 < 10 ^ Z.of_nat k) by (apply Z.pow_pos_nonneg; lia).
  assert (Hq : 0 <= n / 10 ^ Z.of_nat k) by (apply Z.div_pos; lia).
  rewrite read_digits_app by (apply digits_all; exact Hq). cbn [option_map].
  rewrite dval_digits by exact Hq. rewrite Z.mul_0_l, Z.add_0_l.
  destruct k as [|k].
  - cbn [read_digits]. change (10 ^ Z.of_nat 0) with 1. rewrite Z.div_1_r. reflexivity.
  - set (p := 10 ^ Z.of_nat (S k)) in *. set (r := n mod p).
    assert (Hr : 0 <= r < p) by (apply Z.mod_pos_bound; lia).
    unfold dot. cbn [append read_digits]. change (Z.of_N (N_of_ascii (ascii_of_N 46))) with 46.
    cbn [Z.leb Z.compare Pos.compare Pos.compare_cont andb Z.eqb Pos.eqb].
    unfold pad_left. rewrite <- (app_nil_r_s (zeros _ ++ digits r)), sapp_assoc.
    rewrite read_digits_app by apply zeros_all. cbn [option_map].
    rewrite read_digits_app by (apply digits_all; lia). cbn [option_map read_digits].
    rewrite dval_zeros, dval_digits by lia. rewrite length_zeros.
    pose proof (digits_f_len (S (Z.to_nat (Z.log2 r))) r (S k) ltac:(lia) Hr) as Hl. fold (digits r) in Hl.
    f_equal. f_equal.
    + rewrite <- Z.mul_assoc, <- Z.pow_add_r by lia. rewrite <- Nat2Z.inj_add.
      replace (S k - String.length (digits r) + String.length (digits r))%nat with (S k) by lia.
      fold p. unfold r. pose proof (Z.div_mod n p ltac:(lia)). lia.
    + lia.
Qed.

Lemma read_fixed_sign : forall neg c body n k, is_digit c = true ->
  read_digits (String c body) 0 None = Some (n, k) -> read_fixed (sign_text neg ++ String c body) = Some (neg, n, k).
Proof.
  intros neg c body n k Hc H. destruct neg.
  - cbn [sign_text append read_fixed]. change (N_of_ascii (ascii_of_N 45) =? 45)%N with true. cbv iota. rewrite H. reflexivity.
  - cbn [sign_text append read_fixed].
    assert (Hm : (N_of_ascii c =? 45)%N = false).
    { unfold is_digit, code in Hc. apply andb_prop in Hc. destruct Hc as [H1 _]. apply N.leb_le in H1. apply N.eqb_neq. lia. }
    rewrite Hm, H. reflexivity.
Qed.

Theorem read_fixed_text : forall neg n k, 0 <= n -> read_fixed (fixed_text neg n k) = Some (neg, n, k).
Proof.
  intros neg n k Hn. unfold fixed_text. cbv zeta.
  pose proof (read_after_sign n k Hn) as H.
  destruct (digits_nonempty (n / 10 ^ Z.of_nat k)) as [c [s Hd]].
  pose proof (digits_all (n / 10 ^ Z.of_nat k) ltac:(apply Z.div_pos; [lia|apply Z.pow_pos_nonneg; lia])) as Ha.
  rewrite Hd in *. cbn [all_digit] in Ha. apply andb_prop in Ha. destruct Ha as [Hc _].
  cbn [append] in *. apply read_fixed_sign; assumption.
Qed.

(* the 'f' -1 text of a float reads back as exactly the decimal D * 10^P the shortest search chose: n / 10^k = D * 10^P *)
Theorem fixed_of_dec_reads_back : forall neg D P, 0 <= D ->
  exists n k, read_fixed (fixed_of_dec neg D P) = Some (neg, n, k) /\
              n * 10 ^ Z.max (- P) 0 = D * 10 ^ Z.max P 0 * 10 ^ Z.of_nat k.
Proof.
  intros neg D P HD. unfold fixed_of_dec. destruct (0 <=? P) eqn:E.
  - apply Z.leb_le in E. destruct (D =? 0) eqn:E0.
    + apply Z.eqb_eq in E0. subst D. exists 0, O. split; [apply read_fixed_text; lia|]. lia.
    + exists (D * 10 ^ P), O. split.
      * destruct (digits_nonempty D) as [c [s Hd]]. pose proof (digits_all D HD) as Ha.
        assert (Hr : read_digits (digits D ++ zeros (Z.to_nat P)) 0 None = Some (D * 10 ^ P, O)).
        { rewrite <- (app_nil_r_s (zeros _)), read_digits_app by exact Ha.
          rewrite read_digits_app by apply zeros_all. cbn [option_map read_digits].
          rewrite dval_zeros, dval_digits by exact HD. rewrite Z2Nat.id by lia. rewrite Z.mul_0_l, Z.add_0_l. reflexivity. }
        rewrite Hd in *. cbn [all_digit] in Ha. apply andb_prop in Ha. destruct Ha as [Hc _].
        cbn [append] in *. apply read_fixed_sign; assumption.
      * replace (Z.max (- P) 0) with 0 by lia. replace (Z.max P 0) with P by lia. cbn. lia.
  - apply Z.leb_gt in E. exists D, (Z.to_nat (- P)). split; [apply read_fixed_text; exact HD|].
    replace (Z.max (- P) 0) with (- P) by lia. replace (Z.max P 0) with 0 by lia. rewrite Z2Nat.id by lia. lia.
Qed.

(* fmt %f: the text denotes exactly the value rounded half-to-even at the sixth decimal *)
Theorem f6_reads_back : forall neg m e, 0 <= m ->
  read_fixed (f6_text (FFin neg m e)) =
  Some (neg, round_half_even (m * 1000000 * 2 ^ Z.max e 0) (2 ^ Z.max (- e) 0), 6%nat).
Proof.
  intros neg m e Hm. cbn [f6_text]. apply read_fixed_text. apply round_half_even_nonneg; [|apply pow2_pos].
  pose proof (pow2_pos e). nia.
Qed.

(* %d / WriteInt64: the text reads back as the integer *)
Theorem int_text_reads_back : forall z, read_fixed (int_text z) = Some (z <? 0, Z.abs z, O).
Proof.
  intros z. pose proof (read_fixed_text (z <? 0) (Z.abs z) 0 ltac:(lia)) as H.
  unfold fixed_text in H. cbn [Z.of_nat] in H. rewrite Z.pow_0_r, Z.div_1_r, app_nil_r_s in H. exact H.
Qed.
