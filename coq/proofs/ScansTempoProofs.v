(* C13 for the Tempo v1 statements (model/ScansTempo.v): for every tag list, limit, duration bounds, schema version,
   database name and layout, every base-table read of the /api/search statement is bounded by the requested window
   [from, to]: the tempo_traces read by start_time_unix_nano (an alias of timestamp_ns) >= from and <= to, every per-tag
   read of tempo_traces_attrs_gin by date >= toDate(day(from)), date <= toDate(day(to)) and - on the current schema - the
   same timestamp bounds.  /api/traces/{id} with start and end is bounded; without them it is not (recorded finding), as
   the v1 tag statements, whose API has no window. *)
From Coq Require Import List ZArith NArith String Ascii Bool Lia.
From Qryn Require Import lib.Strs lib.CivilDate model.Sql model.SqlRender model.Scans model.ScansTempo
  proofs.ScansProofs proofs.ScansDateProofs proofs.ScansPlanProofs proofs.ScansTqProofs proofs.ScansPromProofs proofs.ScansReplanProfProofs.
Import ListNotations.
Open Scope list_scope.
Open Scope Z_scope.

Lemma day_of_range t : 0 <= t < max_day * ns_per_day -> 0 <= day_of t < max_day.
Proof.
  intros [H1 H2]. unfold day_of. change (86400 * 1000000000) with ns_per_day. split; [apply Z.div_pos; [exact H1 | reflexivity]|].
  apply Z.div_lt_upper_bound; [reflexivity|]. rewrite Z.mul_comm. exact H2.
Qed.
Lemma to_date_val t : 0 <= t < max_day * ns_per_day -> date_val (to_date t) = Some (day_of_ns t).
Proof. intros H. unfold to_date. cbn [date_val String.eqb Ascii.eqb Bool.eqb]. apply parse_date_string, day_of_range, H. Qed.

(* what each conjunct of the statements says *)
Lemma cl_date_ge sc t : 0 <= t < max_day * ns_per_day -> classify sc (Ge (Id "date") (to_date t)) = [DLo (day_of_ns t)].
Proof.
  intros H. unfold classify, Ge, col_is.
  assert (Hs : split_path "date" = None) by reflexivity. rewrite Hs.
  assert (H1 : existsb (String.eqb "date") ["date"%string] = true) by reflexivity. rewrite H1.
  unfold date_bnd. rewrite (to_date_val t H). reflexivity.
Qed.
Lemma cl_date_le sc t : 0 <= t < max_day * ns_per_day -> classify sc (Le (Id "date") (to_date t)) = [DHi (day_of_ns t)].
Proof.
  intros H. unfold classify, Le, col_is.
  assert (Hs : split_path "date" = None) by reflexivity. rewrite Hs.
  assert (H1 : existsb (String.eqb "date") ["date"%string] = true) by reflexivity. rewrite H1.
  unfold date_bnd. rewrite (to_date_val t H). reflexivity.
Qed.
Lemma cl_ts sc op x name :
  name = "timestamp_ns"%string \/ name = "start_time_unix_nano"%string ->
  existsb (String.eqb name) (sc_tsn sc) = true -> classify sc (LOp op [Id name; IntV x]) = ts_bnd op (IntV x).
Proof.
  intros [->| ->] H; unfold classify, col_is.
  - assert (Hs : split_path "timestamp_ns" = None) by reflexivity. rewrite Hs.
    assert (H1 : existsb (String.eqb "timestamp_ns") ["date"%string] = false) by reflexivity.
    assert (H2 : existsb (String.eqb "timestamp_ns") ["type"%string] = false) by reflexivity.
    rewrite H1, H2, H. reflexivity.
  - assert (Hs : split_path "start_time_unix_nano" = None) by reflexivity. rewrite Hs.
    assert (H1 : existsb (String.eqb "start_time_unix_nano") ["date"%string] = false) by reflexivity.
    assert (H2 : existsb (String.eqb "start_time_unix_nano") ["type"%string] = false) by reflexivity.
    rewrite H1, H2, H. reflexivity.
Qed.
Lemma tag_cond_neutral t : neutral (tag_cond t) /\ escans (tag_cond t) = [] /\ conjs (tag_cond t) = [tag_cond t].
Proof.
  destruct t as [k [] v]; (split; [|split; reflexivity]); intros sc; unfold tag_cond, tg_op, tg_val, Eq, Neq, classify, col_is;
    try reflexivity; cbn; destruct (existsb _ (sc_tsn sc)); reflexivity.
Qed.

Section TEMPO.
  Variable info : string -> tinfo.
  Variables from_ns to_ns : Z.
  Hypothesis Hfrom : 0 < from_ns.
  Hypothesis Hord : from_ns <= to_ns.
  Hypothesis Hto : to_ns < max_day * ns_per_day.
  Let W := tempo_win from_ns to_ns.
  Notation B := (scan_bounded info W).
  Notation good := (good B).
  Notation egood := (egood B).
  Notation pre_good := (pre_good info W).

  Lemma from_pos : (0 <? from_ns) = true. Proof. apply Z.ltb_lt. exact Hfrom. Qed.
  Lemma to_pos : (0 <? to_ns) = true. Proof. apply Z.ltb_lt. lia. Qed.

  (* index bounds in the order the statement writes them: date >=, [ts >=,] date <=, [ts <=] *)
  Lemma idx_interleaved sc :
    info (sc_table sc) = idx_untyped ->
    bounds sc = [DLo (day_of_ns from_ns); TsLo from_ns; DHi (day_of_ns to_ns); TsHi (to_ns + 1)] -> B sc.
  Proof.
    intros Hi Hb. apply scan_bounded_b_iff. unfold scan_bounded_b, scan_failures. rewrite Hi, Hb.
    cbn [ti_class ti_typed idx_untyped]. unfold date_failures, ts_lower_failures, ts_upper_failures.
    cbn [d_los d_his ts_los ts_his flat_map app zmax_list zmin_list fold_left andb]. unfold W, tempo_win. cbn [w_from w_to].
    rewrite (gtb_false (day_of_ns from_ns) (day_of_ns from_ns)) by lia.
    rewrite (ltb_false (day_of_ns to_ns) (day_of_ns (to_ns - 1))) by (unfold day_of_ns; apply Z.div_le_mono; [reflexivity | lia]).
    rewrite (gtb_false from_ns from_ns), (ltb_false (to_ns + 1) to_ns) by lia. reflexivity.
  Qed.

  Definition tag_conj (t : tag) (min_d max_d : Z) (v2 : bool) : list expr :=
    [Eq (Id "key") (StrV (tg_key t)); tag_cond t; Ge (Id "date") (to_date from_ns)]
    ++ (if v2 then [Ge (Id "timestamp_ns") (IntV from_ns)] else [])
    ++ [Le (Id "date") (to_date to_ns)]
    ++ (if v2 then [Le (Id "timestamp_ns") (IntV to_ns)] else [])
    ++ (if (0 <? min_d) && v2 then [Ge (Id "duration") (IntV min_d)] else [])
    ++ (if (0 <? max_d) && v2 then [Lt (Id "duration") (IntV max_d)] else []).

  Lemma tag_select_shape tbl t min_d max_d limit v2 :
    tag_select tbl t from_ns to_ns min_d max_d limit v2 =
    set_where (Some (And (tag_conj t min_d max_d v2)))
      (set_from (Id tbl) (set_cols (if (0 <? limit) && v2 then [Id "trace_id"; Id "span_id"; Id "timestamp_ns"] else [Id "trace_id"; Id "span_id"]) empty_select)).
  Proof.
    unfold tag_select, tag_conj. rewrite from_pos, to_pos.
    destruct v2, (0 <? limit), (0 <? min_d), (0 <? max_d); reflexivity.
  Qed.

  Lemma tag_select_good tbl t min_d max_d limit v2 :
    info tbl = idx_untyped -> good (tag_select tbl t from_ns to_ns min_d max_d limit v2).
  Proof.
    intros Hi. rewrite tag_select_shape. destruct (tag_cond_neutral t) as [Hn [He Hc]].
    set (cols := if (0 <? limit) && v2 then _ else _).
    assert (Htn : ts_names cols = ["timestamp_ns"%string]) by (unfold cols; destruct ((0 <? limit) && v2); reflexivity).
    assert (Hr1 : 0 <= from_ns < max_day * ns_per_day) by lia. assert (Hr2 : 0 <= to_ns < max_day * ns_per_day) by lia.
    apply good_split. split.
    - constructor; flds; try constructor; flds; cbn [ScansPlanProofs.ogood]; try constructor.
      + unfold cols. destruct ((0 <? limit) && v2); repeat constructor.
      + apply enil. unfold And, tag_conj. cbn [escans]. rewrite !flat_map_app. cbn [flat_map escans app]. rewrite He.
        destruct v2, (0 <? min_d), (0 <? max_d); reflexivity.
    - unfold own_scan. flds. cbn [base_table oconjs app]. constructor; [|constructor].
      rewrite Htn. set (sc := {| sc_table := tbl |}).
      assert (Htsn : existsb (String.eqb "timestamp_ns") (sc_tsn sc) = true) by reflexivity.
      assert (Hconj : sc_conj sc = tag_conj t min_d max_d v2).
      { unfold sc. cbn [sc_conj]. unfold And. rewrite conjs_and. unfold tag_conj. rewrite !flat_map_app. cbn [flat_map]. rewrite Hc.
        destruct v2, (0 <? min_d), (0 <? max_d); reflexivity. }
      assert (Hk : classify sc (Eq (Id "key") (StrV (tg_key t))) = []) by reflexivity.
      assert (Hd1 : forall x, classify sc (Ge (Id "duration") (IntV x)) = []) by (intros x; reflexivity).
      assert (Hd2 : forall x, classify sc (Lt (Id "duration") (IntV x)) = []) by (intros x; reflexivity).
      assert (Hlo : classify sc (Ge (Id "timestamp_ns") (IntV from_ns)) = [TsLo from_ns]) by (apply (cl_ts sc OGe); [left; reflexivity | exact Htsn]).
      assert (Hhi : classify sc (Le (Id "timestamp_ns") (IntV to_ns)) = [TsHi (to_ns + 1)]) by (apply (cl_ts sc OLe); [left; reflexivity | exact Htsn]).
      destruct v2.
      + apply idx_interleaved; [exact Hi|]. unfold bounds. rewrite Hconj. unfold tag_conj. rewrite !flat_map_app. cbn [flat_map app].
        rewrite Hk, (Hn sc), (cl_date_ge sc _ Hr1), (cl_date_le sc _ Hr2), Hlo, Hhi.
        destruct (0 <? min_d), (0 <? max_d); cbn [andb flat_map app]; rewrite ?Hd1, ?Hd2; reflexivity.
      + eapply idx_bounded_dates; [exact Hi | | |].
        * unfold bounds. rewrite Hconj. unfold tag_conj. rewrite !flat_map_app. cbn [flat_map app].
          rewrite Hk, (Hn sc), (cl_date_ge sc _ Hr1), (cl_date_le sc _ Hr2). rewrite !andb_false_r. reflexivity.
        * unfold W, tempo_win. cbn [w_from]. lia.
        * unfold W, tempo_win. cbn [w_to]. unfold day_of_ns. apply Z.div_le_mono; [reflexivity | lia].
  Qed.

  Lemma sub_select_egood q : good q -> egood (sub_select q).
  Proof. intros H. unfold sub_select, ScansPlanProofs.egood. cbn [escans flat_map app]. rewrite app_nil_r. exact H. Qed.

  Lemma index_joins_ok subs : forall i, Forall good subs ->
    Forall (fun j => Forall B (join_scan j)) (index_joins i subs) /\
    Forall (fun j => egood (snd (fst j)) /\ ogood B (snd j)) (index_joins i subs).
  Proof.
    induction subs as [|q r IH]; intros i H; [split; constructor|]. inversion H as [|? ? Hq Hr]; subst.
    destruct (IH (S i) Hr) as [A1 A2]. cbn [index_joins]. split; constructor; try assumption.
    - cbn. constructor.
    - cbn [fst snd ScansPlanProofs.ogood]. split; [unfold ScansPlanProofs.egood; cbn [escans]; apply sub_select_egood, Hq | apply enil; reflexivity].
  Qed.

  Lemma index_query_good db (dist : bool) tags min_d max_d limit v2 q :
    info (String.append "`"%string (String.append db (String.append "`.tempo_traces_attrs_gin"%string (if dist then "_dist"%string else ""%string)))) = idx_untyped ->
    index_query db dist tags from_ns to_ns min_d max_d limit v2 = Some q -> good q.
  Proof.
    intros Hi. unfold index_query.
    set (tbl := String.append "`"%string (String.append db (String.append "`.tempo_traces_attrs_gin"%string (if dist then "_dist"%string else ""%string)))) in *.
    assert (Hall : Forall good (map (fun t => tag_select tbl t from_ns to_ns min_d max_d limit v2) tags)).
    { induction tags as [|t r IH]; cbn [map]; constructor; [apply tag_select_good, Hi | exact IH]. }
    destruct (map _ tags) as [|q0 rest]; [discriminate|]. inversion Hall as [|? ? H0 Hrest]; subst.
    destruct (index_joins_ok rest 1%nat Hrest) as [J1 J2].
    assert (Hr : good (set_joins (index_joins 1 rest)
                        (set_from (Col (sub_select q0) "subsel_0") (set_cols [Id "subsel_0.trace_id"; Id "subsel_0.span_id"] empty_select)))).
    { apply good_noown; [|reflexivity]. apply pre_set_joins; [| exact J1 | exact J2].
      apply pre_set_from; [|unfold ScansPlanProofs.egood; cbn [escans]; apply sub_select_egood, H0].
      apply pre_set_cols; [apply pre_empty | repeat constructor]. }
    intros [= <-]. destruct (v2 && (0 <? limit)); [|exact Hr].
    apply good_set_limit'; [|apply enil; reflexivity]. apply good_set_orderby'; [exact Hr | repeat constructor].
  Qed.

  Definition traces_conj (idx : option select) (min_d max_d : Z) : list expr :=
    (match idx with Some i => [In (Raw "(trace_id, span_id)") [SubQ i]] | None => [] end)
    ++ [Ge (Id "start_time_unix_nano") (IntV from_ns); Le (Id "start_time_unix_nano") (IntV to_ns)]
    ++ (if 0 <? min_d then [Gt (Id "duration_ms") (IntV (min_d / 1000000))] else [])
    ++ (if 0 <? max_d then [Le (Id "duration_ms") (IntV (max_d / 1000000))] else []).
  Definition traces_cols : list expr :=
    [Raw "hex(trace_id)"; Col (Id "service_name") "root_service_name"; Col (Id "name") "root_trace_name";
     Col (Id "timestamp_ns") "start_time_unix_nano"; Col (Raw "intDiv(duration_ns, 1000000)") "duration_ms"].
  Lemma traces_query_shape table idx limit min_d max_d :
    traces_query table idx limit from_ns to_ns min_d max_d =
    set_orderby [Raw "start_time_unix_nano DESC"]
      ((if 0 <? limit then set_limit (Some (IntV limit)) else fun q => q)
        (set_where (Some (And (traces_conj idx min_d max_d))) (set_from (Id table) (set_cols traces_cols empty_select)))).
  Proof.
    unfold traces_query, traces_conj. rewrite from_pos, to_pos.
    destruct idx, (0 <? limit), (0 <? min_d), (0 <? max_d); reflexivity.
  Qed.

  Lemma traces_query_good table idx limit min_d max_d :
    info table = data_untyped -> match idx with Some i => good i | None => True end ->
    good (traces_query table idx limit from_ns to_ns min_d max_d).
  Proof.
    intros Hi Hidx. rewrite traces_query_shape.
    apply good_set_orderby'; [|repeat constructor].
    assert (G : good (set_where (Some (And (traces_conj idx min_d max_d))) (set_from (Id table) (set_cols traces_cols empty_select)))).
    { apply good_split. split.
      - constructor; flds; try constructor; flds; cbn [ScansPlanProofs.ogood]; try constructor; try (repeat constructor; fail).
        unfold ScansPlanProofs.egood, And, traces_conj. cbn [escans]. rewrite !flat_map_app.
        destruct idx as [i|], (0 <? min_d), (0 <? max_d); cbn [flat_map escans app]; rewrite ?app_nil_r; try constructor; exact Hidx.
      - unfold own_scan. flds. cbn [base_table oconjs app]. constructor; [|constructor].
        set (sc := {| sc_table := table |}).
        assert (Hconj : sc_conj sc = traces_conj idx min_d max_d).
        { unfold sc. cbn [sc_conj]. unfold And. rewrite conjs_and. unfold traces_conj. rewrite !flat_map_app.
          destruct idx, (0 <? min_d), (0 <? max_d); reflexivity. }
        eapply data_bounded; [exact Hi | | |].
        + unfold bounds. rewrite Hconj. unfold traces_conj. rewrite !flat_map_app.
          assert (Hlo : classify sc (Ge (Id "start_time_unix_nano") (IntV from_ns)) = [TsLo from_ns]) by (apply (cl_ts sc OGe); [right; reflexivity | reflexivity]).
          assert (Hhi : classify sc (Le (Id "start_time_unix_nano") (IntV to_ns)) = [TsHi (to_ns + 1)]) by (apply (cl_ts sc OLe); [right; reflexivity | reflexivity]).
          cbn [flat_map app]. rewrite Hlo, Hhi.
          destruct idx, (0 <? min_d), (0 <? max_d); reflexivity.
        + unfold W, tempo_win; cbn [w_from w_to w_lo_min w_hi_max]; lia.
        + unfold W, tempo_win; cbn [w_from w_to w_lo_min w_hi_max]; lia. }
    destruct (0 <? limit); [apply good_set_limit'; [exact G | apply enil; reflexivity] | exact G].
  Qed.
End TEMPO.

(* ------------------------------------------------------------------ the theorems, closed *)
Open Scope string_scope.
Lemma attrs_info db : table_info ("`" ++ db ++ "`.tempo_traces_attrs_gin" ++ "") = idx_untyped.
Proof.
  assert (E : "`.tempo_traces_attrs_gin" ++ "" = "`." ++ "tempo_traces_attrs_gin") by reflexivity. rewrite E.
  etransitivity; [exact (table_info_db db "tempo_traces_attrs_gin" eq_refl) | reflexivity].
Qed.

(* /api/search with start and end, by tags or plain: every tag list, limit, duration bounds, schema version, database, layout *)
Theorem tempo_search_scans_bounded db cluster tags limit from_ns to_ns min_d max_d v2 :
  (0 < from_ns)%Z -> (from_ns <= to_ns)%Z -> (to_ns < max_day * ns_per_day)%Z ->
  Forall (scan_bounded table_info (tempo_win from_ns to_ns)) (scans (search_query db cluster tags limit from_ns to_ns min_d max_d v2)).
Proof.
  intros H1 H2 H3. unfold search_query. apply (traces_query_good table_info from_ns to_ns H1 H2).
  - destruct cluster; reflexivity.
  - destruct (index_query db false tags from_ns to_ns min_d max_d limit v2) as [i|] eqn:E; [|exact I].
    apply (index_query_good table_info from_ns to_ns H1 H2 H3 db false tags min_d max_d limit v2 i); [apply attrs_info | exact E].
Qed.

(* /api/traces/{id} with start and end *)
Theorem tempo_trace_scans_bounded cluster id start_ns end_ns :
  start_ns <> 0%Z -> end_ns <> 0%Z ->
  Forall (scan_bounded table_info {| w_from := start_ns; w_to := end_ns; w_lo_min := start_ns; w_hi_max := end_ns; w_type := 0 |})
         (scans (trace_query cluster id start_ns end_ns)).
Proof.
  intros H1 H2. apply Z.eqb_neq in H1, H2. unfold trace_query. rewrite H1, H2. cbn [negb and_where_if].
  set (W := {| w_from := start_ns |}). set (tbl := if cluster then "tempo_traces_dist" else "tempo_traces").
  set (raw := and_where [Lt (Id "timestamp_ns") (IntV end_ns)] _).
  assert (Hraw : good (scan_bounded table_info W) raw).
  { apply (good_split table_info W). split.
    - unfold raw. apply pre_and_where; [|repeat constructor]. apply pre_and_where; [|repeat constructor].
      apply pre_set_limit; [|apply enil; reflexivity]. apply pre_set_orderby; [|repeat constructor].
      apply pre_and_where; [|repeat constructor]. apply pre_set_from; [|apply enil; reflexivity].
      apply pre_set_cols; [apply pre_empty | repeat constructor].
    - unfold raw, own_scan, and_where. flds. cbn [base_table oconjs and_into app]. constructor; [|constructor].
      eapply data_bounded; [unfold tbl; destruct cluster; reflexivity | reflexivity | |]; unfold W; cbn [w_from w_to w_lo_min w_hi_max]; lia. }
  apply (good_set_orderby' table_info W); [|repeat constructor].
  apply (good_noown table_info W); [|reflexivity].
  clearbody raw.
  apply pre_set_from; [|apply (ewref table_info W), Hraw]. apply pre_set_cols; [|repeat constructor].
  apply pre_with; [apply pre_empty | constructor; [exact Hraw | constructor]].
Qed.

(* without start / end the lookup reads tempo_traces over all time (recorded finding trace-by-id-without-window);
   the v1 tag statements have no bound at all (the API has no window: finding tempo-tags-without-window) *)
Lemma tempo_unbounded_witnesses :
  every_scan_bounded_b table_info (tempo_win 1704888000000000000 1704891600000000000) (trace_query false "0123456789abcdef0123456789abcdef" 0 0) = false /\
  every_scan_bounded_b table_info (tempo_win 1704888000000000000 1704891600000000000) (tags_query true) = false /\
  every_scan_bounded_b table_info (tempo_win 1704888000000000000 1704891600000000000) (values_query false "service.name") = false.
Proof. repeat split; vm_compute; reflexivity. Qed.

Definition tg_ab : tag := {| tg_key := "a"; tg_op := TgEq; tg_val := "b" |}.
Definition tg_re : tag := {| tg_key := "c"; tg_op := TgRe; tg_val := "d.*" |}.
Lemma tempo_examples :
  List.length (scans (search_query "qryn" true [tg_ab; tg_re] 20 1704888000000000000 1704891600000000000 1000000 0 true)) = 3%nat /\
  List.length (scans (search_query "qryn" false [] 20 1704888000000000000 1704891600000000000 0 0 false)) = 1%nat /\
  List.length (scans (trace_query true "0123456789abcdef0123456789abcdef" 1704888000000000000 1704891600000000000)) = 2%nat.
Proof. repeat split; vm_compute; reflexivity. Qed.

Lemma tempo_unwindowed_unbounded :
  let W0 := tempo_win 1704888000000000000 1704891600000000000 in
  ~ Forall (scan_bounded table_info W0) (scans (trace_query false "0123456789abcdef0123456789abcdef" 0 0)) /\
  ~ Forall (scan_bounded table_info W0) (scans (tags_query true)) /\
  ~ Forall (scan_bounded table_info W0) (scans (values_query false "service.name")).
Proof.
  destruct tempo_unbounded_witnesses as [H1 [H2 H3]].
  repeat split; intros H; apply every_scan_bounded_b_complete in H; congruence.
Qed.
