(* Property C11, selector chains, part 4: the planner tree of a chain (expression_planner_complex.go: a && node / || node with two
   operands, each a selector or again such a node), evaluated; and the final statement.
     simple_operand : a selector as operand: WITH <p>index_search AS (AttrConditionPlanner), _i_pre_ AS (IndexGroupByPlanner [+ HAVING of
                      AggregatorPlanner] + max(timestamp_ns)) SELECT .. ARRAY JOIN  =  the (trace, span) rows of sel_sem of that selector
     operand_eval   : by induction over the tree, every operand evaluates to the wrapped rows of an answer R with deq R (ep_sem t)
     tree_correct   : the statement of the root node with IndexLimitPlanner's LIMIT is accepted by result_ok against ep_sem. *)
From Coq Require Import List ZArith NArith QArith String Ascii Bool Lia Permutation.
From Qryn Require Import model.TqSql model.Traceql model.TraceqlPlan model.TraceqlSem model.TraceqlCase
     proofs.TraceqlBitsetProofs proofs.TraceqlAnalyzeProofs proofs.TraceqlEvalProofs proofs.TraceqlSelectorProofs
     proofs.TraceqlBridgeLib proofs.TraceqlIndexSearchProofs proofs.TraceqlIndexCorrectProofs proofs.TraceqlGroupedProofs
     proofs.TraceqlTopkProofs proofs.TraceqlCorrectProofs proofs.TraceqlAggProofs
     proofs.TraceqlChainSem proofs.TraceqlChainSql proofs.TraceqlChainComb.
Import ListNotations.
Open Scope string_scope.
Open Scope list_scope.
Open Scope nat_scope.

Lemma same_set_seteq a b : same_set a b = true -> seteq a b.
Proof.
  unfold same_set. intros H. apply andb_true_iff in H. destruct H as [H1 H2]. rewrite forallb_forall in H1, H2. intros s. split; intros Hs.
  - apply H1 in Hs. apply existsb_exists in Hs. destruct Hs as [y [Hy E]]. apply String.eqb_eq in E. now subst y.
  - apply H2 in Hs. apply existsb_exists in Hs. destruct Hs as [y [Hy E]]. apply String.eqb_eq in E. now subst y.
Qed.

(* ================================================================ the typed answer of index_grouped is the reference answer, up to deq *)
Section ANSWERDEQ.
  Variable T : list mspan.
  Variable matched : list span.
  Variable f : span -> mspan.
  Hypothesis f_trace : forall sp, m_trace (f sp) = sp_trace sp.
  Hypothesis f_span : forall sp, m_span (f sp) = sp_span sp.
  Hypothesis f_ts : forall sp, m_ts (f sp) = sp_ts sp.
  Hypothesis Hmem : forall m, In m T <-> exists sp, In sp matched /\ m = f sp.
  Variable P : list mspan -> bool.
  Variable Pref : list span -> bool.
  Hypothesis HP : forall g, In g (group_rows same_tr T) -> P g = Pref (ms matched (g_trace g)).
  Hypothesis Hcap : forall g, In g (group_rows same_tr T) -> List.length g <= 100.

  Lemma answer_deq : deq (map og (tgroups T P)) (all_ref matched Pref).
  Proof.
    unfold tgroups. rewrite all_ref_eq.
    set (KG := filter P (group_rows same_tr T)). set (L := filter (fun t => Pref (ms matched t)) (traces_ref matched)).
    assert (N1 : tnodup (map og KG)).
    { unfold tnodup. rewrite map_map. cbn [og t_trace]. apply KG_traces_NoDup. }
    assert (N2 : tnodup (map (mkt matched) L)).
    { unfold tnodup. rewrite map_map. cbn [mkt t_trace]. rewrite map_id. apply L_NoDup. }
    split; [exact N1|]. split; [exact N2|]. intros t.
    pose proof (kept_traces T matched f f_trace Hmem P Pref HP t) as Hk. fold KG in Hk. fold L in Hk.
    destruct (in_dec string_dec t L) as [Hin|Hnin].
    - rewrite (find_mkt matched t L Hin). apply Hk in Hin. apply in_map_iff in Hin. destruct Hin as [g [Eg Hg]].
      assert (HgG : In g (group_rows same_tr T)) by (unfold KG in Hg; apply filter_In in Hg; tauto).
      assert (Hog : In (og g) (map og KG)) by now apply in_map.
      pose proof (find_tres_in (map og KG) (og g) N1 Hog) as Hf. cbn [og t_trace] in Hf. rewrite Eg in Hf. rewrite Hf.
      cbn [oeq og t_trace t_spans t_key mkt]. split; [exact Eg|]. split.
      + pose proof (grp_spans_set T matched f f_trace f_span Hmem Hcap g HgG) as Hs. apply same_set_seteq in Hs. rewrite Eg in Hs. exact Hs.
      + pose proof (grp_key T matched f f_trace f_ts Hmem g HgG) as Hkk. rewrite Eg in Hkk. exact Hkk.
    - assert (E1 : find_tres t (map (mkt matched) L) = None).
      { apply find_tres_none. rewrite map_map. cbn [mkt t_trace]. now rewrite map_id. }
      assert (E2 : find_tres t (map og KG) = None).
      { apply find_tres_none. rewrite map_map. cbn [og t_trace]. intros H. apply Hnin. now apply Hk. }
      rewrite E1, E2. exact I.
  Qed.
End ANSWERDEQ.

(* ================================================================ a top-`limit` selection of items whose views are the reference answer (up to deq) is accepted *)
Section ANSGEN.
  Context {X : Type}.
  Variable view : X -> tres.
  Variable key : X -> Z.
  Variable items : list X.
  Variable all : list tres.
  Variable c : ctx.
  Variable SEL : list X.
  Hypothesis Hkey : forall g, key g = t_key (view g).
  Hypothesis Hdeq : deq (map view items) all.
  Hypothesis Hspec : top_spec key items c SEL.

  Definition yof (g : X) : tres := match find_tres (t_trace (view g)) all with Some y => y | None => view g end.

  Lemma yof_spec g : In g items ->
    In (yof g) all /\ t_trace (yof g) = t_trace (view g) /\ seteq (t_spans (view g)) (t_spans (yof g)) /\ t_key (yof g) = t_key (view g)
    /\ find_tres (t_trace (view g)) all = Some (yof g).
  Proof.
    intros Hg. destruct Hdeq as [N1 [N2 E]]. specialize (E (t_trace (view g))).
    rewrite (find_tres_in (map view items) (view g) N1 (in_map view items g Hg)) in E. unfold yof.
    destruct (find_tres (t_trace (view g)) all) as [y|] eqn:Ey; [|contradiction]. destruct E as [E1 [E2 E3]].
    destruct (find_tres_some _ _ _ Ey) as [Hy Ht]. repeat split; auto. now apply E2. now apply E2.
  Qed.

  Theorem answer_ok_gen : result_ok c all (map (fun g => (t_trace (view g), t_spans (view g))) SEL) = true.
  Proof.
    destruct Hspec as [rest [Hperm [Hz [Hlen Htop]]]].
    assert (Hsel : forall g, In g SEL -> In g items).
    { intros g Hg. eapply Permutation_in; [exact Hperm|]. apply in_or_app. now left. }
    set (res := map (fun g => (t_trace (view g), t_spans (view g))) SEL).
    assert (Hkeyed0 : forall L, (forall g, In g L -> In g items) ->
              flat_map (fun r => match find_tres (fst r) all with
                                 | Some t => if same_set (snd r) (t_spans t) then [t] else []
                                 | None => [] end) (map (fun g => (t_trace (view g), t_spans (view g))) L) = map yof L).
    { induction L as [|g l IH]; intros HL; [reflexivity|]. cbn [map flat_map fst snd].
      destruct (yof_spec g (HL g (or_introl eq_refl))) as [_ [_ [Hs [_ Hf]]]]. rewrite Hf.
      rewrite (same_set_iff _ _ Hs). cbn [app]. f_equal. apply IH. intros g' Hg'. apply HL. now right. }
    pose proof (Hkeyed0 SEL Hsel) as Hkeyed. fold res in Hkeyed.
    destruct Hdeq as [N1 [N2 E]].
    unfold result_ok, result_ok_j. fold res. rewrite Hkeyed. apply andb_true_iff. split; [apply andb_true_iff; split|].
    - unfold res. rewrite !map_length. apply Nat.eqb_refl.
    - apply distinct_strs_NoDup. unfold res. rewrite map_map. cbn [fst].
      assert (Hnd : NoDup (map (fun g => t_trace (view g)) (SEL ++ rest))).
      { eapply Permutation_NoDup; [apply Permutation_map; symmetry; exact Hperm|]. unfold tnodup in N1. now rewrite map_map in N1. }
      rewrite map_app in Hnd. now apply NoDup_app_l in Hnd.
    - unfold is_topk. apply andb_true_iff. split; [apply andb_true_iff; split|].
      + apply forallb_forall. intros x Hx. apply in_map_iff in Hx. destruct Hx as [g [<- Hg]].
        apply existsb_exists. exists (yof g). split; [exact (proj1 (yof_spec g (Hsel g Hg)))|]. now rewrite String.eqb_refl, Z.eqb_refl.
      + rewrite map_length, <- (deq_length _ _ Hdeq), map_length.
        destruct (Z.eqb (limit c) 0) eqn:E0.
        * apply Z.eqb_eq in E0. rewrite <- (Permutation_length Hperm), (Hz E0), app_nil_r. apply Nat.eqb_refl.
        * apply Z.eqb_neq in E0. rewrite (Hlen E0). apply Nat.eqb_refl.
      + apply forallb_forall. intros y Hy.
        assert (Hty : In (t_trace y) (map t_trace (map view items))) by (apply (deq_traces _ _ Hdeq); now apply in_map).
        rewrite map_map in Hty. apply in_map_iff in Hty. destruct Hty as [g [Et Hg]].
        destruct (yof_spec g Hg) as [_ [_ [_ [Hk Hf]]]]. rewrite Et, (find_tres_in all y N2 Hy) in Hf. injection Hf as Hy'.
        assert (Hg' : In g (SEL ++ rest)) by (eapply Permutation_in; [symmetry; exact Hperm|exact Hg]).
        apply orb_true_iff. apply in_app_or in Hg'. destruct Hg' as [Hs|Hr].
        * left. apply existsb_exists. exists (yof g). split; [now apply in_map|]. rewrite <- Hy'. apply String.eqb_refl.
        * right. apply forallb_forall. intros x Hx. apply in_map_iff in Hx. destruct Hx as [g' [<- Hg'']].
          apply Z.leb_le. destruct (yof_spec g' (Hsel g' Hg'')) as [_ [_ [_ [Hk' _]]]]. rewrite Hk', Hy', Hk, <- !Hkey. now apply Htop.
  Qed.
End ANSGEN.

Section CHAIN.
  Variable re_match : string -> string -> bool.
  Variable parse_float : string -> option Q.
  Variable hash64 : string -> Z.
  Variable c : ctx.
  Variable d : db.
  Hypothesis Hrf : rf_max c = 0%Z.
  Hypothesis Hcons : db_consistent c d.
  Hypothesis Hcapd : spans_capped c d.
  Notation tables := [(attrs_table c, map row_of_irow d)].
  Notation ES := (eval_sel re_match parse_float hash64 tables).
  Notation SEM := (sel_sem re_match parse_float false c d).

  (* the span ids of a trace inside the window *)
  Definition ids (t : string) : list string := map sp_span (filter (fun sp => String.eqb (sp_trace sp) t) (spans_of c d)).
  Lemma ids_cap t : List.length (ids t) <= 100.
  Proof. unfold ids. rewrite map_length. apply Hcapd. Qed.

  (* the guards of traceql_correct_single / _agg, per selector *)
  Definition sel_ok (h : selector) : Prop :=
    exists e, sel_attr h = Some e /\ keys_ok e = true
              /\ forallb term_lit_ok (fst (snd (analyze_cond e ([], [])))) = true
              /\ List.length (fst (snd (analyze_cond e ([], [])))) <= 64
              /\ cond_depth (fst (analyze_cond e ([], []))) <= 28
              /\ lits_exact e = true
              /\ match sel_agg h with Some ag => agg_guard ag = true /\ agg_lit_exact ag = true | None => True end.

  Lemma all_ref_wf e Pref : twf ids (all_ref (matched_of re_match parse_float c d e) Pref).
  Proof.
    intros y Hy. rewrite all_ref_eq in Hy. apply in_map_iff in Hy. destruct Hy as [t [<- Ht]]. apply filter_In in Ht. destruct Ht as [Ht _].
    cbn [mkt t_spans t_trace]. split.
    - unfold traces_ref in Ht. apply (proj1 (nodup_by_str_in _ _)) in Ht. apply in_map_iff in Ht. destruct Ht as [sp [Et Hsp]].
      intros Hn. assert (Hin : In (sp_span sp) (map sp_span (ms (matched_of re_match parse_float c d e) t))).
      { apply in_map. unfold ms. apply filter_In. split; [assumption|]. rewrite Et. apply String.eqb_refl. }
      rewrite Hn in Hin. destruct Hin.
    - intros s Hs. apply in_map_iff in Hs. destruct Hs as [sp [<- Hsp]]. unfold ms in Hsp. apply filter_In in Hsp. destruct Hsp as [Hm Et].
      unfold matched_of in Hm. apply filter_In in Hm. destruct Hm as [Hm _].
      unfold ids. apply in_map. apply filter_In. split; assumption.
  Qed.

  Lemma env_get_hd a t (e : env) : env_get a ((a, t) :: e) = Some t.
  Proof. cbn [env_get]. now rewrite String.eqb_refl. Qed.

  (* ---------- a selector as an operand ---------- *)
  Section SIMPLE.
    Variable e : attr_exp.
    Notation cd := (fst (analyze_cond e ([], []))).
    Notation terms := (fst (snd (analyze_cond e ([], [])))).
    Hypothesis Hkeys : keys_ok e = true.
    Hypothesis Hlits : forallb term_lit_ok terms = true.
    Hypothesis Hlen : List.length terms <= 64.
    Hypothesis Hdepth : cond_depth cd <= 28.
    Variable attr : string.
    Variable conds : list expr.
    Hypothesis Hc : map_res get_term terms = Ok conds.
    Variable p : string.
    Variable hv : option expr.
    Variable P : list mspan -> bool.
    Notation T := (sql_spans re_match parse_float c d e attr conds).
    Hypothesis Hal : match hv with Some h => having_aliases ev_fuel h | None => [] end = [].
    Hypothesis Hhv : forall cte h m0 rest, hv = Some h -> In (m0 :: rest) (group_rows same_tr T) ->
      exists v t, ev re_match parse_float hash64 cte (al2 true) ["trace_id"] ev_fuel true "" (map (qrow p) (m0 :: rest)) (qrow p m0) h = Some v
                  /\ truth v = Some t /\ is_true3 t = P (m0 :: rest).
    Hypothesis Hnone : hv = None -> forall g, P g = true.

    Definition operand_stmt : select := grouped_stmt p false [(isx p, stmt1 c e attr conds)] hv None.
    Definition RS : list tres := map og (tgroups T P).

    Lemma simple_wrap_eval f cte tagged i : op_lit i ->
      ES (S (S f)) cte true (wrap_operand tagged i (None, operand_stmt)) = Some (map (wrow_row tagged) (wrap_rows i RS)).
    Proof.
      intros Hlit. rewrite eval_sel_S.
      set (s' := grouped_stmt p true [(isx p, stmt1 c e attr conds)] hv None).
      assert (Hw : s_withs (wrap_operand tagged i (None, operand_stmt)) = [(isx p, stmt1 c e attr conds); (pre_alias i, s')]) by reflexivity.
      apply (wrap_eval re_match parse_float hash64 tables (ES (S f)) cte tagged i (None, operand_stmt) Hlit
               ((pre_alias i, map (g_row true) (tgroups T P)) :: (isx p, map mspan_row T) :: cte) RS).
      - rewrite Hw. unfold stage_with. cbn [fold_left fst snd]. rewrite eval_sel_S.
        rewrite (index_search_bridge re_match parse_float hash64 c d e attr conds Hkeys Hc Hlits Hlen Hdepth).
        rewrite eval_sel_S. unfold s'.
        rewrite (grouped_bridge re_match parse_float hash64 tables p true (ES f) ((isx p, map mspan_row T) :: cte) T (env_get_hd _ _ _) hv P Hal
                   (Hhv _) Hnone).
        reflexivity.
      - rewrite env_get_hd. unfold RS. rewrite map_map. reflexivity.
    Qed.
  End SIMPLE.

  Lemma simple_operand s p n y : simple_planner c s p n = Ok y -> sel_ok (sc_head s) ->
    exists R, deq R (SEM (sc_head s)) /\ twf ids R
              /\ forall f cte tagged i, op_lit i ->
                   ES (S (S f)) cte true (wrap_operand tagged i (None, y)) = Some (map (wrow_row tagged) (wrap_rows i R)).
  Proof.
    intros Hpl [e [Ha [Hkeys [Hlits [Hlen [Hdepth [Hexact Hagg]]]]]]].
    unfold simple_planner in Hpl. destruct (check s) as [[]|er|] eqn:Ecs; cbn [bind] in Hpl; try discriminate.
    set (h := sc_head s) in *. unfold analyze in Hpl. rewrite Ha in Hpl.
    destruct (analyze_cond e ([], [])) as [cd0 [ts0 mp0]] eqn:Ea. cbn [fst snd] in *.
    destruct (map_res get_term ts0) as [conds|er|] eqn:Hc; [|unfold attr_condition in Hpl; rewrite Hc in Hpl; discriminate..].
    pose proof (attr_condition_is_stmt1 c Hrf e (agg_attr_of h) conds) as Hs. rewrite Ea in Hs. cbn [fst snd] in Hs.
    rewrite (Hs Hc n) in Hpl. cbn [bind] in Hpl.
    assert (Hc' : map_res get_term (fst (snd (analyze_cond e ([], [])))) = Ok conds) by now rewrite Ea.
    assert (Hlits' : forallb term_lit_ok (fst (snd (analyze_cond e ([], [])))) = true) by now rewrite Ea.
    assert (Hlen' : List.length (fst (snd (analyze_cond e ([], [])))) <= 64) by now rewrite Ea.
    assert (Hdepth' : cond_depth (fst (analyze_cond e ([], []))) <= 28) by now rewrite Ea.
    destruct (sel_agg h) as [ag|] eqn:Eag.
    - (* with an aggregate filter *)
      destruct Hagg as [Hguard Hagx].
      assert (Hattr : agg_attr_of h = g_attr ag) by (unfold agg_attr_of; now rewrite Eag).
      assert (Hla : agg_lacks_attr {| sel_attr := Some e; sel_agg := Some ag |} = false).
      { destruct s as [h0 ao tl]. cbn [sc_head] in h. subst h. unfold check in Ecs.
        destruct (sel_attr h0); [|discriminate]. cbn [bind] in Ecs.
        assert (E : agg_lacks_attr {| sel_attr := Some e; sel_agg := Some ag |} = agg_lacks_attr h0) by (unfold agg_lacks_attr; cbn [sel_agg]; now rewrite Eag).
        rewrite E. destruct (agg_lacks_attr h0); [discriminate|reflexivity]. }
      unfold aggregator_planner in Hpl. destruct (comparison_fn (g_cmp ag)) as [fn|er|] eqn:Ef; cbn [bind] in Hpl; try discriminate.
      destruct (agg_cmp_text ag) as [txt|er|] eqn:Et; cbn [bind] in Hpl; try discriminate.
      destruct (comparison_fn_lop _ _ Ef) as [Ho ->]. injection Hpl as <-. rewrite Hattr.
      exists (RS e (g_attr ag) conds (P2 re_match parse_float c d e ag)). split; [|split].
      + assert (Esem : SEM h = all_ref (matched_of re_match parse_float c d e) (agg_sem parse_float true ag)).
        { rewrite <- (sem_agg_round re_match parse_float c d e Hexact ag Hagx AONone).
          destruct h as [ha hg]. cbn [sel_attr sel_agg] in Ha, Eag. subst ha hg. reflexivity. }
        rewrite Esem. unfold RS.
        apply (answer_deq _ _ (mspan_of parse_float (g_attr ag)) (fun _ => eq_refl) (fun _ => eq_refl) (fun _ => eq_refl)
                 (mem_spans re_match parse_float c d Hcons e Hkeys Hlits' Hlen' (g_attr ag) conds Hc')
                 _ (agg_sem parse_float true ag) (fun _ _ => eq_refl)
                 (cap_spans re_match parse_float c d Hcons Hcapd e Hkeys Hlits' Hlen' (g_attr ag) conds Hc')).
      + eapply twf_deq; [|apply (all_ref_wf e (agg_sem parse_float true ag))].
        apply (answer_deq _ _ (mspan_of parse_float (g_attr ag)) (fun _ => eq_refl) (fun _ => eq_refl) (fun _ => eq_refl)
                 (mem_spans re_match parse_float c d Hcons e Hkeys Hlits' Hlen' (g_attr ag) conds Hc')
                 _ (agg_sem parse_float true ag) (fun _ _ => eq_refl)
                 (cap_spans re_match parse_float c d Hcons Hcapd e Hkeys Hlits' Hlen' (g_attr ag) conds Hc')).
      + intros f cte tagged i Hlit.
        apply (simple_wrap_eval e Hkeys Hlits' Hlen' Hdepth' (g_attr ag) conds Hc' p (Some (hv2p ag p txt)) (P2 re_match parse_float c d e ag)).
        * unfold hv2p. apply having_aliases_nil_LOp2; [destruct (g_fn ag); reflexivity|reflexivity].
        * intros cte' h' m0 rest Hh Hg. injection Hh as <-.
          exact (hv2_decides re_match parse_float hash64 c d Hcons e Hkeys Hlits' Hlen' ag Hguard conds Hc' txt Ho Et Hla cte' p true m0 rest Hg).
        * discriminate.
        * exact Hlit.
    - (* without *)
      injection Hpl as <-.
      assert (Hattr : agg_attr_of h = "") by (unfold agg_attr_of; now rewrite Eag). rewrite Hattr.
      exists (RS e "" conds (fun _ => true)). split; [|split].
      + assert (Esem : SEM h = all_ref (matched_of re_match parse_float c d e) (fun _ => true)).
        { pose proof (sem_single_round re_match parse_float c d e Hexact AONone) as Es1. unfold matched1 in Es1. rewrite <- Es1.
          destruct h as [ha hg]. cbn [sel_attr sel_agg] in Ha, Eag. subst ha hg. reflexivity. }
        rewrite Esem. unfold RS.
        apply (answer_deq _ _ (mspan_of parse_float "") (fun _ => eq_refl) (fun _ => eq_refl) (fun _ => eq_refl)
                 (mem_spans re_match parse_float c d Hcons e Hkeys Hlits' Hlen' "" conds Hc')
                 _ (fun _ => true) (fun _ _ => eq_refl)
                 (cap_spans re_match parse_float c d Hcons Hcapd e Hkeys Hlits' Hlen' "" conds Hc')).
      + eapply twf_deq; [|apply (all_ref_wf e (fun _ => true))].
        apply (answer_deq _ _ (mspan_of parse_float "") (fun _ => eq_refl) (fun _ => eq_refl) (fun _ => eq_refl)
                 (mem_spans re_match parse_float c d Hcons e Hkeys Hlits' Hlen' "" conds Hc')
                 _ (fun _ => true) (fun _ _ => eq_refl)
                 (cap_spans re_match parse_float c d Hcons Hcapd e Hkeys Hlits' Hlen' "" conds Hc')).
      + intros f cte tagged i Hlit.
        apply (simple_wrap_eval e Hkeys Hlits' Hlen' Hdepth' "" conds Hc' p None (fun _ => true)).
        * reflexivity.
        * intros cte' h' m0 rest Hh. discriminate.
        * reflexivity.
        * exact Hlit.
  Qed.

  (* ---------- the planner tree ---------- *)
  Definition tg (fn : andor) : bool := match fn with AOAnd => true | _ => false end.

  Fixpoint ep_sem (t : ep) : list tres :=
    match t with
    | EPSimple s _ => SEM (sc_head s)
    | EPComplex _ fn [a; b] => if tg fn then and_sem (ep_sem a) (ep_sem b) else or_sem (ep_sem a) (ep_sem b)
    | EPComplex _ _ _ => []
    end.
  (* statement fuel an operand needs: two nested sub-queries per && / || node *)
  Fixpoint ep_need (t : ep) : nat :=
    match t with
    | EPSimple _ _ => 2
    | EPComplex _ _ [a; b] => 2 + Nat.max (ep_need a) (ep_need b)
    | EPComplex _ _ _ => 0
    end.
  (* every selector inside the guards, every node a && or || of two operands (planComplex builds nothing else: chain_tree_ok) *)
  Fixpoint ep_ok (t : ep) : Prop :=
    match t with
    | EPSimple s _ => sel_ok (sc_head s)
    | EPComplex _ fn [a; b] => fn <> AONone /\ ep_ok a /\ ep_ok b
    | EPComplex _ _ _ => False
    end.

  Lemma ep_process_2 n p fn a b : ep_process c n (EPComplex p fn [a; b]) =
    do ya <- ep_process c n a; do yb <- ep_process c n b;
    match fn with AONone => Panic | _ => Ok (complex_select fn p [(nested_prefix a, ya); (nested_prefix b, yb)]) end.
  Proof. simpl. destruct (ep_process c n a); [|reflexivity..]. cbn [bind]. destruct (ep_process c n b); reflexivity. Qed.

  Lemma complex_shape fn p oa ob : fn <> AONone ->
    complex_select fn p [oa; ob] = cstmt p (tg fn) 2 [wrap_operand (tg fn) 0 oa; wrap_operand (tg fn) 1 ob] false None.
  Proof. intros _. destruct fn; reflexivity. Qed.

  Lemma node_sem fn Ra Rb Da Db : deq Ra Da -> deq Rb Db -> twf ids Ra -> twf ids Rb ->
    deq (comb (tg fn) Ra Rb) (if tg fn then and_sem Da Db else or_sem Da Db) /\ twf ids (comb (tg fn) Ra Rb).
  Proof.
    intros Ha Hb Wa Wb. pose proof (comb_is_sem ids ids_cap (tg fn) Ra Rb (proj1 Ha) (proj1 Hb) Wa Wb) as Hc.
    split.
    - eapply deq_trans; [exact Hc|]. destruct (tg fn); [now apply deq_and|now apply deq_or].
    - eapply twf_deq; [exact Hc|]. destruct (tg fn); [now apply twf_and|now apply twf_or].
  Qed.

  Lemma node_eval f cte p fn oa ob Ra Rb wts lim top :
    ES f cte true (wrap_operand (tg fn) 0 oa) = Some (map (wrow_row (tg fn)) (wrap_rows 0 Ra)) ->
    ES f cte true (wrap_operand (tg fn) 1 ob) = Some (map (wrow_row (tg fn)) (wrap_rows 1 Rb)) ->
    ES (S f) cte top (cstmt p (tg fn) 2 [wrap_operand (tg fn) 0 oa; wrap_operand (tg fn) 1 ob] wts lim)
    = option_map (map (fun g => orow_row wts (cg g))) (lim_answer ckey (filter (cP (tg fn) 2) (group_rows same_wtr (UU Ra Rb))) lim).
  Proof.
    intros Ea Eb. rewrite eval_sel_S.
    apply (complex_bridge re_match parse_float hash64 tables (ES f) cte p (tg fn) 2 _ [wrap_rows 0 Ra; wrap_rows 1 Rb]).
    cbn [map all_some]. now rewrite Ea, Eb.
  Qed.

  Lemma operand_eval n : forall t y, ep_ok t -> ep_process c n t = Ok y ->
    exists R, deq R (ep_sem t) /\ twf ids R
              /\ forall F, ep_need t <= F -> forall cte tagged i, op_lit i ->
                   ES F cte true (wrap_operand tagged i (nested_prefix t, y)) = Some (map (wrow_row tagged) (wrap_rows i R)).
  Proof.
    fix IH 1. intros t y Hok Hp. destruct t as [s p|p fn ops].
    - cbn [ep_process] in Hp. destruct (simple_operand s p n y Hp Hok) as [R [H1 [H2 H3]]]. exists R. split; [exact H1|]. split; [exact H2|].
      intros F HF cte tagged i Hl. cbn [ep_need] in HF. destruct F as [|[|f]]; [lia|lia|]. cbn [nested_prefix]. now apply H3.
    - destruct ops as [|a [|b [|x ops]]]; cbn [ep_ok] in Hok; try contradiction. destruct Hok as [Hfn [Hoa Hob]].
      rewrite ep_process_2 in Hp. destruct (ep_process c n a) as [ya|?|] eqn:Ea; cbn [bind] in Hp; try discriminate.
      destruct (ep_process c n b) as [yb|?|] eqn:Eb; cbn [bind] in Hp; try discriminate.
      destruct (IH a ya Hoa Ea) as [Ra [Da [Wa Eva]]]. destruct (IH b yb Hob Eb) as [Rb [Db [Wb Evb]]].
      assert (Ey : y = complex_select fn p [(nested_prefix a, ya); (nested_prefix b, yb)]) by (destruct fn; [congruence|now injection Hp..]).
      rewrite (complex_shape fn p _ _ Hfn) in Ey.
      destruct (node_sem fn Ra Rb _ _ Da Db Wa Wb) as [Dn Wn].
      exists (comb (tg fn) Ra Rb). cbn [ep_sem]. split; [exact Dn|]. split; [exact Wn|].
      intros F HF cte tagged i Hl. cbn [ep_need] in HF. destruct F as [|[|f]]; [lia|lia|].
      assert (Hfa : ep_need a <= f) by lia. assert (Hfb : ep_need b <= f) by lia.
      cbn [nested_prefix]. rewrite eval_sel_S. subst y.
      set (subs := [wrap_operand (tg fn) 0 (nested_prefix a, ya); wrap_operand (tg fn) 1 (nested_prefix b, yb)]).
      apply (wrap_eval re_match parse_float hash64 tables (ES (S f)) cte tagged i (Some p, cstmt p (tg fn) 2 subs false None) Hl
               ((pre_alias i, map (orow_row true) (comb (tg fn) Ra Rb)) :: cte) (comb (tg fn) Ra Rb)).
      + assert (Hw : s_withs (wrap_operand tagged i (Some p, cstmt p (tg fn) 2 subs false None)) = [(pre_alias i, cstmt p (tg fn) 2 subs true None)]) by reflexivity.
        rewrite Hw. unfold stage_with. cbn [fold_left fst snd]. unfold subs.
        rewrite (node_eval f cte p fn _ _ Ra Rb true None false (Eva f Hfa cte (tg fn) 0 op_lit_0) (Evb f Hfb cte (tg fn) 1 op_lit_1)).
        cbn [lim_answer option_map]. unfold comb. rewrite map_map. reflexivity.
      + apply env_get_hd.
  Qed.

  (* ---------- the statement of the root node, with IndexLimitPlanner's LIMIT, inside the search statement ---------- *)
  Lemma index_limit_cstmt p tagged subs : index_limit c (cstmt p tagged 2 subs false None) = cstmt p tagged 2 subs false (lim_of c).
  Proof. unfold index_limit, lim_of. destruct (Z.eqb (limit c) 0); reflexivity. Qed.

  Lemma withs_chain p tagged subs lim : exists rest,
    s_withs (index_limit c (traces_data c (cstmt p tagged 2 subs false lim))) = ("index_grouped", cstmt p tagged 2 subs false lim) :: rest.
  Proof.
    unfold index_limit. destruct (Z.eqb (limit c) 0); unfold traces_data, cstmt;
      cbn [set_with set_limit s_withs fold_left add_with existsb fst snd app]; eexists; reflexivity.
  Qed.

  Theorem tree_correct n p fn a b y F all :
    ep_ok (EPComplex p fn [a; b]) -> ep_process c n (EPComplex p fn [a; b]) = Ok y -> ep_need (EPComplex p fn [a; b]) <= S F ->
    deq (ep_sem (EPComplex p fn [a; b])) all ->
    exists res, index_rows_gf re_match parse_float hash64 F c d (index_limit c (traces_data c (index_limit c y))) = Some res
                /\ result_ok c all res = true.
  Proof.
    intros Hok Hp HF Hall. cbn [ep_ok] in Hok. destruct Hok as [Hfn [Hoa Hob]].
    rewrite ep_process_2 in Hp. destruct (ep_process c n a) as [ya|?|] eqn:Ea; cbn [bind] in Hp; try discriminate.
    destruct (ep_process c n b) as [yb|?|] eqn:Eb; cbn [bind] in Hp; try discriminate.
    destruct (operand_eval n a ya Hoa Ea) as [Ra [Da [Wa Eva]]]. destruct (operand_eval n b yb Hob Eb) as [Rb [Db [Wb Evb]]].
    assert (Ey : y = complex_select fn p [(nested_prefix a, ya); (nested_prefix b, yb)]) by (destruct fn; [congruence|now injection Hp..]).
    rewrite (complex_shape fn p _ _ Hfn) in Ey. subst y.
    destruct (node_sem fn Ra Rb _ _ Da Db Wa Wb) as [Dn Wn].
    cbn [ep_need] in HF. destruct F as [|f]; [lia|].
    assert (Hfa : ep_need a <= f) by lia. assert (Hfb : ep_need b <= f) by lia.
    rewrite index_limit_cstmt.
    set (subs := [wrap_operand (tg fn) 0 (nested_prefix a, ya); wrap_operand (tg fn) 1 (nested_prefix b, yb)]).
    destruct (withs_chain p (tg fn) subs (lim_of c)) as [rest Hw].
    set (items := filter (cP (tg fn) 2) (group_rows same_wtr (UU Ra Rb))).
    destruct (lim_answer_total ckey items c) as [SEL Hans].
    exists (map (fun g => (t_trace (cg g), t_spans (cg g))) SEL). split.
    - unfold index_rows_gf. rewrite Hw. cbn [eval_until_gf]. unfold subs.
      rewrite (node_eval f [] p fn _ _ Ra Rb false (lim_of c) false (Eva f Hfa [] (tg fn) 0 op_lit_0) (Evb f Hfb [] (tg fn) 1 op_lit_1)).
      fold items. rewrite Hans. cbn [option_map]. rewrite String.eqb_refl. rewrite map_map.
      apply all_some_map_ext. intros g _. unfold orow_row. cbn [app lookup String.eqb Ascii.eqb Bool.eqb].
      now rewrite all_some_VStr.
    - apply (answer_ok_gen cg ckey items all c SEL (fun _ => eq_refl)); [|now apply lim_answer_spec].
      eapply deq_trans; [exact Dn|]. exact Hall.
  Qed.
End CHAIN.
