(* C09: the reference semantics of the SQL side (C07: model/LogqlSem.v run_stages) and of the in-process side
   (model/InternalEngine.v sem_chain) define the same lines with the same label maps on the stages both engines implement
   (line filter, label filter, json with parameters, drop; any order).                                                   *)
From Coq Require Import List ZArith NArith QArith Bool String Ascii Permutation Lia OrderedTypeEx.
From Qryn Require Import lib.Strs model.Sql model.Logql model.LogqlPlan model.SqlEval model.LogqlSem.
From Qryn Require model.InternalEngine proofs.InternalEngineProofs.
From Qryn Require Import model.InternalEngineSql.
Import ListNotations.
Module IP := InternalEngineProofs.
Open Scope string_scope.

(* ---------- the order on label names ---------- *)
Lemma cmp_refl k : String.compare k k = Datatypes.Eq.
Proof. exact (proj2 (String_as_OT.cmp_eq k k) eq_refl). Qed.
Lemma cmp_trans a b c : String.compare a b = Datatypes.Lt -> String.compare b c = Datatypes.Lt -> String.compare a c = Datatypes.Lt.
Proof.
  intros H1 H2. apply String_as_OT.cmp_lt. apply String_as_OT.cmp_lt in H1. apply String_as_OT.cmp_lt in H2.
  exact (String_as_OT.lt_trans _ _ _ H1 H2).
Qed.
Lemma cmp_gt_lt a b : String.compare a b = Datatypes.Gt -> String.compare b a = Datatypes.Lt.
Proof. intros H. rewrite String.compare_antisym, H. reflexivity. Qed.
Lemma cmp_lt_ne a b : String.compare a b = Datatypes.Lt -> a <> b.
Proof. intros H E. subst. rewrite cmp_refl in H. discriminate. Qed.

(* ---------- lset on a sorted map ---------- *)
Lemma lset_keys m k v x : List.In x (map fst (IE.lset m k v)) -> x = k \/ List.In x (map fst m).
Proof.
  induction m as [|[k' v'] r IH]; cbn [IE.lset map fst List.In]; [intuition auto|].
  destruct (String.compare k k'); cbn [map fst List.In]; intuition auto.
Qed.

Lemma lset_sorted m k v : ssorted m -> ssorted (IE.lset m k v).
Proof.
  induction m as [|[k' v'] r IH]; intros Hs; cbn [IE.lset].
  - cbn. split; [intros ? []|exact I].
  - cbn [ssorted fst] in Hs. destruct Hs as [Hlt Hr].
    destruct (String.compare k k') eqn:C.
    + apply String.compare_eq_iff in C. subst k'. cbn [ssorted fst]. split; assumption.
    + cbn [ssorted fst map List.In]. split; [|split; assumption].
      intros x [<-|Hx]; [exact C|]. exact (cmp_trans _ _ _ C (Hlt x Hx)).
    + cbn [ssorted fst]. split; [|now apply IH].
      intros x Hx. apply lset_keys in Hx. destruct Hx as [->|Hx]; [now apply cmp_gt_lt|now apply Hlt].
Qed.

Lemma lset_in m k v a b : ssorted m ->
  (List.In (a, b) (IE.lset m k v) <-> (a = k /\ b = v) \/ (a <> k /\ List.In (a, b) m)).
Proof.
  induction m as [|[k' v'] r IH]; intros Hs; cbn [IE.lset].
  - cbn. split; [intros [E|[]]; inversion E; tauto|intros [[-> ->]|[_ []]]; now left].
  - cbn [ssorted fst] in Hs. destruct Hs as [Hlt Hr].
    assert (Hin : forall x y, List.In (x, y) r -> String.compare k' x = Datatypes.Lt).
    { intros x y Hxy. apply Hlt. apply in_map_iff. now exists (x, y). }
    destruct (String.compare k k') eqn:C.
    + apply String.compare_eq_iff in C. subst k'. cbn [List.In]. split.
      * intros [E|Hx]; [inversion E; tauto|]. right. split; [|now right]. intros ->. pose proof (Hin _ _ Hx) as H. rewrite cmp_refl in H. discriminate.
      * intros [[-> ->]|[Hne [E|Hx]]]; [now left|inversion E; congruence|now right].
    + cbn [List.In]. split.
      * intros [E|[E|Hx]]; [inversion E; tauto| |].
        -- inversion E; subst. right. split; [|now left]. intros ->. rewrite cmp_refl in C. discriminate.
        -- right. split; [|now right]. intros ->. pose proof (cmp_trans _ _ _ C (Hin _ _ Hx)) as H. rewrite cmp_refl in H. discriminate.
      * intros [[-> ->]|[Hne Hx]]; [now left|now right].
    + cbn [List.In]. rewrite (IH Hr). split.
      * intros [E|[[-> ->]|[Hne Hx]]]; [|tauto|tauto].
        inversion E; subst. right. split; [|now left]. intros ->. rewrite cmp_refl in C. discriminate.
      * intros [[-> ->]|[Hne [E|Hx]]]; [tauto|now left|tauto].
Qed.

Lemma ssorted_nodup m : ssorted m -> NoDup (map fst m).
Proof.
  induction m as [|[k v] r IH]; intros Hs; cbn [map fst]; [constructor|].
  cbn [ssorted fst] in Hs. destruct Hs as [Hlt Hr]. constructor; [|now apply IH].
  intros Hin. pose proof (Hlt k Hin) as H. rewrite cmp_refl in H. discriminate.
Qed.

(* ---------- map_set on a map without duplicate names ---------- *)
Lemma map_set_keys ls k v x : List.In x (map fst (map_set ls k v)) -> x = k \/ List.In x (map fst ls).
Proof.
  induction ls as [|kv r IH]; cbn [map_set map fst List.In]; [intuition auto|].
  destruct (String.eqb (fst kv) k) eqn:E; cbn [map fst List.In].
  - apply String.eqb_eq in E. intros [<-|H]; intuition auto.
  - intros [<-|H]; [intuition auto|]. destruct (IH H); intuition auto.
Qed.

Lemma map_set_nodup ls k v : NoDup (map fst ls) -> NoDup (map fst (map_set ls k v)).
Proof.
  induction ls as [|kv r IH]; intros Hn; cbn [map_set map fst].
  - constructor; [intros []|constructor].
  - cbn [map] in Hn. inversion Hn as [|? ? Hnot Hr]; subst.
    destruct (String.eqb (fst kv) k) eqn:E; cbn [map fst].
    + apply String.eqb_eq in E. subst k. now constructor.
    + apply String.eqb_neq in E. constructor; [|now apply IH].
      intros Hin. apply map_set_keys in Hin. destruct Hin as [Hk|Hin]; [congruence|contradiction].
Qed.

Lemma map_set_in ls k v a b : NoDup (map fst ls) ->
  (List.In (a, b) (map_set ls k v) <-> (a = k /\ b = v) \/ (a <> k /\ List.In (a, b) ls)).
Proof.
  induction ls as [|kv r IH]; intros Hn; cbn [map_set].
  - cbn. split; [intros [E|[]]; inversion E; tauto|intros [[-> ->]|[_ []]]; now left].
  - cbn [map] in Hn. inversion Hn as [|? ? Hnot Hr]; subst.
    destruct (String.eqb (fst kv) k) eqn:E; cbn [List.In].
    + apply String.eqb_eq in E. split.
      * intros [X|Hx]; [inversion X; tauto|]. right. split; [|now right]. intros ->. apply Hnot. apply in_map_iff. exists (k, b). now split.
      * intros [[-> ->]|[Hne [X|Hx]]]; [now left| |now right]. subst kv. cbn in E. congruence.
    + apply String.eqb_neq in E. rewrite (IH Hr). split.
      * intros [X|[[-> ->]|[Hne Hx]]]; [|tauto|tauto]. subst kv. cbn in E. right. split; [congruence|now left].
      * intros [[-> ->]|[Hne [X|Hx]]]; [tauto|now left|tauto].
Qed.

Lemma same_map_set ls m k v : same_map ls m -> same_map (map_set ls k v) (IE.lset m k v).
Proof.
  intros [Hn [Hs Hi]]. split; [now apply map_set_nodup|]. split; [now apply lset_sorted|].
  intros a b. rewrite (map_set_in ls k v a b Hn), (lset_in m k v a b Hs), (Hi a b). reflexivity.
Qed.

Lemma same_map_update : forall kvs ls m, same_map ls m -> same_map (map_update ls kvs) (IE.loverride m kvs).
Proof.
  unfold map_update, IE.loverride. induction kvs as [|kv r IH]; intros ls m H; cbn [fold_left]; [exact H|].
  apply IH. now apply same_map_set.
Qed.

(* ---------- lookups ---------- *)
Lemma label_of_in ls k v : NoDup (map fst ls) -> List.In (k, v) ls -> label_of ls k = v.
Proof.
  induction ls as [|kv r IH]; intros Hn Hin; [destruct Hin|]. cbn [label_of].
  cbn [map] in Hn. inversion Hn as [|? ? Hnot Hr]; subst. destruct Hin as [->|Hin].
  - cbn [fst snd]. now rewrite String.eqb_refl.
  - destruct (String.eqb (fst kv) k) eqn:E; [|now apply IH].
    apply String.eqb_eq in E. exfalso. apply Hnot. apply in_map_iff. exists (k, v). now split.
Qed.
Lemma label_of_notin ls k : ~ List.In k (map fst ls) -> label_of ls k = "".
Proof.
  induction ls as [|kv r IH]; intros Hn; [reflexivity|]. cbn [label_of]. cbn [map List.In] in Hn.
  destruct (String.eqb (fst kv) k) eqn:E; [apply String.eqb_eq in E; tauto|]. apply IH. tauto.
Qed.
Lemma lget_in m k v : NoDup (map fst m) -> List.In (k, v) m -> IE.lget m k = v.
Proof.
  induction m as [|[k' v'] r IH]; intros Hn Hin; [destruct Hin|]. cbn [IE.lget].
  cbn [map fst] in Hn. inversion Hn as [|? ? Hnot Hr]; subst. destruct Hin as [X|Hin].
  - inversion X; subst. now rewrite String.eqb_refl.
  - destruct (String.eqb k k') eqn:E; [|now apply IH].
    apply String.eqb_eq in E. subst k'. exfalso. apply Hnot. apply in_map_iff. exists (k, v). now split.
Qed.
Lemma lget_notin m k : ~ List.In k (map fst m) -> IE.lget m k = "".
Proof.
  induction m as [|[k' v'] r IH]; intros Hn; [reflexivity|]. cbn [IE.lget]. cbn [map fst List.In] in Hn.
  destruct (String.eqb k k') eqn:E; [apply String.eqb_eq in E; subst; tauto|]. apply IH. tauto.
Qed.

Lemma same_lookup ls m k : same_map ls m -> label_of ls k = IE.lget m k.
Proof.
  intros [Hn [Hs Hi]]. pose proof (ssorted_nodup m Hs) as Hm.
  destruct (in_dec string_dec k (map fst ls)) as [Hin|Hnot].
  - apply in_map_iff in Hin. destruct Hin as [[k0 v] [E Hin]]. cbn in E. subst k0.
    rewrite (label_of_in ls k v Hn Hin). symmetry. apply lget_in; [exact Hm|]. now apply Hi.
  - rewrite (label_of_notin ls k Hnot). symmetry. apply lget_notin. intros Hin. apply Hnot.
    apply in_map_iff in Hin. destruct Hin as [[k0 v] [E Hin]]. cbn in E. subst k0.
    apply in_map_iff. exists (k, v). split; [reflexivity|]. now apply Hi.
Qed.

Lemma same_map_perm ls m : same_map ls m -> Permutation ls m.
Proof.
  intros [Hn [Hs Hi]]. apply NoDup_Permutation.
  - exact (NoDup_map_inv fst ls Hn).
  - exact (NoDup_map_inv fst m (ssorted_nodup m Hs)).
  - intros [a b]. apply Hi.
Qed.

(* ---------- filters on both representations ---------- *)
Lemma nodup_keys_filter (p : string * string -> bool) l : NoDup (map fst l) -> NoDup (map fst (filter p l)).
Proof.
  induction l as [|kv r IH]; intros Hn; [constructor|]. cbn [map] in Hn. inversion Hn as [|? ? Hnot Hr]; subst.
  cbn [filter]. destruct (p kv); [|now apply IH]. cbn [map]. constructor; [|now apply IH].
  intros Hin. apply Hnot. apply in_map_iff in Hin. destruct Hin as [x [E Hx]]. apply filter_In in Hx.
  apply in_map_iff. exists x. tauto.
Qed.
Lemma ssorted_filter (p : string * string -> bool) m : ssorted m -> ssorted (filter p m).
Proof.
  induction m as [|kv r IH]; intros Hs; [exact I|]. cbn [ssorted] in Hs. destruct Hs as [Hlt Hr].
  cbn [filter]. destruct (p kv); [|now apply IH]. cbn [ssorted]. split; [|now apply IH].
  intros x Hx. apply Hlt. apply in_map_iff in Hx. destruct Hx as [y [E Hy]]. apply filter_In in Hy.
  apply in_map_iff. exists y. tauto.
Qed.
Lemma same_filter ls m (p q : string * string -> bool) :
  (forall kv, p kv = q kv) -> same_map ls m -> same_map (filter p ls) (filter q m).
Proof.
  intros Hpq [Hn [Hs Hi]]. split; [now apply nodup_keys_filter|]. split; [now apply ssorted_filter|].
  intros a b. rewrite !filter_In, Hpq, (Hi a b). reflexivity.
Qed.

Lemma drop_pred ps kv :
  drop_keeps (map drop_spec ps) kv = negb (IE.drop_hit (fst kv) (snd kv) (drop_names ps) (drop_vals ps)).
Proof.
  unfold drop_keeps, drop_names, drop_vals. induction ps as [|p r IH]; [reflexivity|].
  cbn [map forallb IE.drop_hit]. rewrite IH, negb_orb. f_equal.
  unfold drop_spec. cbn [fst snd]. destruct (snd p) as [v|].
  - destruct (String.eqb v "") eqn:E; cbn [snd fst].
    + apply String.eqb_eq in E. subst v. cbn [String.eqb orb]. now rewrite andb_true_r.
    + cbn [orb]. reflexivity.
  - cbn [String.eqb orb]. now rewrite andb_true_r.
Qed.

(* ---------- strings.Contains on both sides ---------- *)
Lemma prefixb_eq : forall p s, Strs.prefixb p s = IE.prefixb p s.
Proof. induction p as [|a p IH]; intros [|b s]; cbn; reflexivity. Qed.
Lemma containsb_fuel : forall s needle fuel, (String.length s <= fuel)%nat -> Strs.containsb fuel needle s = IE.containsb s needle.
Proof.
  induction s as [|a s IH]; intros needle fuel Hf.
  - destruct fuel; cbn [Strs.containsb IE.containsb]; now rewrite prefixb_eq.
  - cbn [String.length] in Hf. destruct fuel as [|f]; [lia|]. cbn [Strs.containsb IE.containsb].
    rewrite prefixb_eq. f_equal. apply IH. lia.
Qed.
Lemma contains_eq needle s : Strs.contains needle s = IE.containsb s needle.
Proof. unfold Strs.contains. now apply containsb_fuel. Qed.

Section BRIDGEPROOFS.
  Variable re7 : string -> string -> bool.
  Variable pf : string -> option Q.
  Variable json_get : string -> list string -> string.
  Variable hash_labels : labels -> Z.
  Variable parse9 : N -> string -> option IE.lbls.
  (* the remaining parameters of the in-process reference are arbitrary *)
  Variables (q0 q1 : Q) (qadd qdiv : Q -> Q -> Q) (qofZ : Z -> Q).
  Variable fpf : IE.lbls -> N.
  Variable tmpl : N -> IE.lbls -> option string.
  Hypothesis pf_empty : pf "" = None.                     (* ParseFloat("") fails, toFloat64OrNull('') is NULL *)

  Notation entry := (IE.entry Q).
  Notation sem_stage := (IE.sem_stage Q q0 q1 qadd qdiv qltb qleb qeqb qofZ fpf (re9 re7) pf parse9 tmpl).
  Notation sem_chain := (IE.sem_chain Q q0 q1 qadd qdiv qltb qleb qeqb qofZ fpf (re9 re7) pf parse9 tmpl).
  Notation run_st := (run_stages re7 pf json_get hash_labels).

  Lemma line_ok_eq (e : entry) op v : IE.e_err Q e = IE.ENone ->
    IE.line_keep Q (re9 re7) (tr_lfop op) v e = line_ok re7 (IE.e_msg Q e) op v.
  Proof.
    intros He. unfold IE.line_keep, line_ok. rewrite He. cbn [IE.errk_eqb negb orb].
    destruct op; cbn [tr_lfop]; unfold re9; rewrite ?contains_eq; reflexivity.
  Qed.

  Lemma qcmp_gt (x n : Q) : qltb n x = match Qcompare x n with Datatypes.Gt => true | _ => false end.
  Proof. unfold qltb. rewrite <- (Qcompare_antisym x n). now destruct (Qcompare x n). Qed.
  Lemma qcmp_ge (x n : Q) : qleb n x = match Qcompare x n with Datatypes.Lt => false | _ => true end.
  Proof. unfold qleb. rewrite <- (Qcompare_antisym x n). now destruct (Qcompare x n). Qed.

  Lemma simple_eq s ls m : same_map ls m ->
    IE.simple_eval Q qltb qleb qeqb (re9 re7) pf (tr_simple pf s) (Some m) = simple_ok re7 pf ls s.
  Proof.
    intros Hsm. unfold tr_simple, simple_ok. destruct (lblop_numeric s).
    - destruct (slf_num s) as [[txt f]|]; [|reflexivity].
      destruct (num_cmp (slf_fn s)) as [op|] eqn:Hop; [|reflexivity].
      rewrite (same_lookup ls m (slf_label s) Hsm).
      destruct (pf txt) as [n|] eqn:Hn.
      + assert (Hc : exists c, tr_cmp op = Some c /\
                  forall x, IE.cmp_val Q qltb qleb qeqb c x n = match cmp_holds op (Qcompare x n) with Some b => b | None => false end).
        { unfold num_cmp in Hop. destruct (slf_fn s); inversion Hop; subst op; cbn [tr_cmp];
            eexists; (split; [reflexivity|]); intros x; cbn [cmp_holds IE.cmp_val]; unfold qeqb, qltb, qleb;
            rewrite <- ?(Qcompare_antisym x n); destruct (Qcompare x n); reflexivity. }
        destruct Hc as [c [-> Hc]]. cbn [IE.simple_eval IE.olget].
        destruct (String.eqb (IE.lget m (slf_label s)) "") eqn:E.
        * apply String.eqb_eq in E. rewrite E, pf_empty. reflexivity.
        * destruct (pf (IE.lget m (slf_label s))) as [x|]; [apply Hc|reflexivity].
      + cbn [IE.simple_eval]. destruct (pf (IE.lget m (slf_label s))); reflexivity.
    - destruct (slf_str s) as [w|]; [|reflexivity].
      rewrite (same_lookup ls m (slf_label s) Hsm).
      destruct (slf_fn s); cbn [IE.simple_eval IE.olget]; unfold re9; rewrite ?(String.eqb_sym w); reflexivity.
  Qed.

  Lemma lf_eq : forall f ls m, same_map ls m ->
    IE.lfilter_eval Q qltb qleb qeqb (re9 re7) pf (tr_lf pf f) (Some m) = lf_ok re7 pf ls f.
  Proof.
    fix IH 1. intros f ls m Hsm. destruct f as [head op tail]. cbn [tr_lf lf_ok].
    assert (Hh : match head with
                 | HSimple s => IE.simple_eval Q qltb qleb qeqb (re9 re7) pf (tr_simple pf s) (Some m)
                 | HComplex g => IE.lfilter_eval Q qltb qleb qeqb (re9 re7) pf (tr_lf pf g) (Some m)
                 end = match head with HSimple s => simple_ok re7 pf ls s | HComplex f' => lf_ok re7 pf ls f' end).
    { destruct head as [s|g]; [now apply simple_eq|now apply IH]. }
    destruct tail as [t|].
    - destruct op as [[|]|].
      + cbn [IE.lfilter_eval]. rewrite <- Hh, <- (IH t ls m Hsm). destruct head; reflexivity.
      + cbn [IE.lfilter_eval]. rewrite <- Hh, <- (IH t ls m Hsm). destruct head; reflexivity.
      + reflexivity.
    - cbn [IE.lfilter_eval]. rewrite <- Hh. destruct head; reflexivity.
  Qed.

  (* ---------- one line through the whole pipeline ---------- *)
  Lemma fold_nil c : forall ppl i, fold_left (fun x s => sem_stage c s x) (tr_chain pf i ppl) [] = [].
  Proof.
    induction ppl as [|s r IH]; intros i; [reflexivity|]. cbn [tr_chain].
    destruct (tr_stage pf i s) as [s'|] eqn:E; [|apply IH]. cbn [fold_left].
    replace (sem_stage c s' []) with (@nil entry); [apply IH|].
    destruct s; cbn [tr_stage] in E; try discriminate; try (inversion E; subst; reflexivity).
    destruct fn; inversion E; subst; reflexivity.
  Qed.

  Definition line_result (c : IE.ctx) (ppl : list Logql.stage) (i : N) (ls : labels) (fp : Z) (e : entry) : Prop :=
    match run_st ppl (IE.e_msg Q e) {| p_labels := ls; p_fp := fp |} with
    | None => fold_left (fun x s => sem_stage c s x) (tr_chain pf i ppl) [e] = []
    | Some st => exists e', fold_left (fun x s => sem_stage c s x) (tr_chain pf i ppl) [e] = [e'] /\
                            same_map (p_labels st) (IE.lbl_of Q e') /\ IE.e_msg Q e' = IE.e_msg Q e /\ IE.e_ts Q e' = IE.e_ts Q e
    end.

  Lemma per_line c : forall ppl i ls fp (e : entry) m,
    forallb common_stage ppl = true -> decoders_linked json_get parse9 i ppl ->
    IE.e_err Q e = IE.ENone -> IE.e_lbl Q e = Some m -> same_map ls m ->
    line_result c ppl i ls fp e.
  Proof.
    induction ppl as [|s r IH]; intros i ls fp e m Hc Hd He Hl Hsm; unfold line_result.
    - cbn [run_stages tr_chain fold_left]. exists e. unfold IE.lbl_of. rewrite Hl. cbn [p_labels]. auto.
    - cbn [forallb] in Hc. apply andb_true_iff in Hc. destruct Hc as [Hs Hr].
      cbn [decoders_linked] in Hd. destruct Hd as [Hd1 Hd2].
      destruct s as [op v o|f|fn ps|t| |lb|ps]; unfold common_stage in Hs; cbn [is_filter is_json is_drop orb] in Hs; try discriminate.
      + (* line filter *)
        cbn [run_stages tr_chain tr_stage fold_left]. cbn [IE.sem_stage filter]. rewrite (line_ok_eq e op v He).
        destruct (line_ok re7 (IE.e_msg Q e) op v).
        * exact (IH (i + 1)%N ls fp e m Hr Hd2 He Hl Hsm).
        * apply fold_nil.
      + (* label filter *)
        cbn [run_stages tr_chain tr_stage fold_left]. cbn [IE.sem_stage filter]. unfold IE.label_keep. rewrite He, Hl.
        cbn [IE.errk_eqb negb orb]. rewrite (lf_eq f ls m Hsm). cbn [p_labels].
        destruct (lf_ok re7 pf ls f).
        * exact (IH (i + 1)%N ls fp e m Hr Hd2 He Hl Hsm).
        * apply fold_nil.
      + (* json with parameters *)
        destruct fn; cbn [is_json] in Hs; try discriminate. rewrite orb_false_r in Hs.
        unfold json_ok in Hs. destruct (all_paths ps) as [paths|] eqn:Hp; [|discriminate].
        cbn [run_stages]. unfold json_stage. rewrite Hp. cbn [p_labels].
        cbn [tr_chain tr_stage fold_left]. cbn [IE.sem_stage map]. unfold IE.sem_parser. rewrite (Hd1 (IE.e_msg Q e)), Hl.
        set (kvs := filter nonempty_kv (combine (map pp_label ps) (map (json_get (IE.e_msg Q e)) paths))).
        set (e1 := IE.set_fp Q (IE.set_lbl Q e (Some (IE.loverride m kvs))) (fpf (IE.loverride m kvs))).
        assert (H1 : line_result c r (i + 1)%N (map_update ls kvs) (hash_labels (map_update ls kvs)) e1).
        { apply (IH (i + 1)%N _ _ e1 (IE.loverride m kvs) Hr Hd2); [exact He|reflexivity|now apply same_map_update]. }
        unfold line_result in H1. exact H1.
      + (* drop *)
        cbn [run_stages tr_chain tr_stage fold_left]. cbn [IE.sem_stage map]. unfold drop_stage. cbn [p_labels p_fp]. cbv zeta.
        unfold IE.with_lbl, IE.lbl_of. rewrite Hl.
        set (m' := filter (fun kv => negb (IE.drop_hit (fst kv) (snd kv) (drop_names ps) (drop_vals ps))) m).
        set (e1 := IE.set_fp Q (IE.set_lbl Q e (Some m')) (fpf m')).
        assert (H1 : line_result c r (i + 1)%N (filter (drop_keeps (map drop_spec ps)) ls) (hash_labels (filter (drop_keeps (map drop_spec ps)) ls)) e1).
        { apply (IH (i + 1)%N _ _ e1 m' Hr Hd2); [exact He|reflexivity|].
          apply same_filter; [intros kv; apply drop_pred|exact Hsm]. }
        unfold line_result in H1. exact H1.
  Qed.

  (* ---------- a list of lines ---------- *)
  Lemma tr_chain_flat : forall ppl i, forallb (IP.flat_stage Q) (tr_chain pf i ppl) = true.
  Proof.
    induction ppl as [|s r IH]; intros i; [reflexivity|]. cbn [tr_chain].
    destruct (tr_stage pf i s) as [s'|] eqn:E; [|apply IH]. cbn [forallb]. rewrite IH, andb_true_r.
    destruct s; cbn [tr_stage] in E; try discriminate; try (inversion E; subst; reflexivity).
    destruct fn; inversion E; subst; reflexivity.
  Qed.

  Lemma fold_flat_app c : forall ch, forallb (IP.flat_stage Q) ch = true -> forall a b : list entry,
    fold_left (fun x s => sem_stage c s x) ch (a ++ b)%list =
    (fold_left (fun x s => sem_stage c s x) ch a ++ fold_left (fun x s => sem_stage c s x) ch b)%list.
  Proof.
    induction ch as [|s r IH]; intros Hf a b; [reflexivity|]. cbn [forallb] in Hf. apply andb_true_iff in Hf.
    destruct Hf as [H1 H2]. cbn [fold_left].
    rewrite !(IP.sem_stage_flat Q q0 q1 qadd qdiv qltb qleb qeqb qofZ fpf (re9 re7) pf parse9 tmpl c s _ H1), flat_map_app.
    now apply IH.
  Qed.

  Lemma refs_agree c ppl rows xs :
    forallb common_stage ppl = true -> decoders_linked json_get parse9 0 ppl ->
    Forall2 row_matches rows xs ->
    Forall2 out_matches (fold_left (fun x s => sem_stage c s x) (tr_chain pf 0 ppl) rows) (sql_rows re7 pf json_get hash_labels ppl xs).
  Proof.
    intros Hc Hd HF. induction HF as [|e x rows' xs' Hm _ IH]; [rewrite fold_nil; constructor|].
    change (e :: rows') with ([e] ++ rows')%list. rewrite (fold_flat_app c _ (tr_chain_flat ppl 0%N)).
    unfold sql_rows. cbn [flat_map]. apply Forall2_app; [|exact IH].
    destruct x as [[[ts ls] fp] line]. cbn [row_matches] in Hm. destruct Hm as [He [Hts [Hmsg [m [Hl Hsm]]]]].
    pose proof (per_line c ppl 0%N ls fp e m Hc Hd He Hl Hsm) as H. unfold line_result in H.
    unfold sql_line. rewrite Hmsg in H.
    destruct (run_st ppl line {| p_labels := ls; p_fp := fp |}) as [st|].
    - destruct H as [e' [-> [H1 [H2 H3]]]]. constructor; [|constructor]. cbn [out_matches]. rewrite H3, H2. auto.
    - rewrite H. constructor.
  Qed.
  (* ---------- the in-process ENGINE against the SQL reference ---------- *)
  Variable panic_kills : bool.
  Notation run_chain := (IE.run_chain Q q0 q1 qadd qdiv qltb qleb qeqb qofZ panic_kills fpf (re9 re7) pf parse9 tmpl).

  Lemma tr_chain_simple : forall ppl i, forallb (IE.simple_stage Q) (tr_chain pf i ppl) = true.
  Proof.
    induction ppl as [|s r IH]; intros i; [reflexivity|]. cbn [tr_chain].
    destruct (tr_stage pf i s) as [s'|] eqn:E; [|apply IH]. cbn [forallb]. rewrite IH, andb_true_r.
    destruct s; cbn [tr_stage] in E; try discriminate; try (inversion E; subst; reflexivity).
    destruct fn; inversion E; subst; reflexivity.
  Qed.

  Lemma engine_vs_sql c ppl bs rows t xs :
    forallb common_stage ppl = true -> decoders_linked json_get parse9 0 ppl ->
    Forall2 row_matches rows xs -> Forall (IE.terminator Q) t -> List.concat bs = (rows ++ t)%list ->
    exists out, map (IE.erase Q) (IE.data_of Q (List.concat (run_chain c (tr_chain pf 0 ppl) bs))) = map (IE.erase Q) out /\
                Forall2 out_matches out (sql_rows re7 pf json_get hash_labels ppl xs).
  Proof.
    intros Hc Hd HF Ht E.
    assert (Hrows : Forall (IE.data_row Q) rows).
    { clear - HF. induction HF as [|e x r xs' Hm _ IH]; constructor; [|exact IH].
      destruct x as [[[ts ls] fp] line]. cbn [row_matches] in Hm. destruct Hm as [He [_ [_ [m [Hl _]]]]]. split; [exact He|now exists m]. }
    exists (sem_chain c (tr_chain pf 0 ppl) (List.concat bs)). split.
    - apply (IP.chain_agrees Q q0 q1 qadd qdiv qltb qleb qeqb qofZ panic_kills fpf (re9 re7) pf parse9 tmpl c _ rows t bs);
        [apply tr_chain_simple|exact Hrows|exact Ht|exact E].
    - unfold IE.sem_chain. rewrite E, (IP.data_of_rows Q rows t Hrows Ht). now apply refs_agree.
  Qed.
End BRIDGEPROOFS.
