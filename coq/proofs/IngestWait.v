(* C01, bounded waiting at worker level (the timed part of "every request eventually gets an answer", counted in steps
   of the worker's own fetch loop instead of seconds): a promise a running worker holds is completed after at most SEVEN
   steps of that worker's fetch loop / of the database on its behalf -- return of the Do that is out (<= WriteTimeout),
   expiry of the flush timer (<= pushInterval), dial, swapBuffers, call of Do, return of that Do -- whatever requests,
   PlanFlush calls and failed dials are interleaved; no step other than a failing watchdog ping or Stop can push it back. *)
From Coq Require Import List NArith ZArith Bool Lia Arith.
From Qryn Require Import model.Ingest model.PushHandler model.IngestSched proofs.IngestBase proofs.IngestDrain.
Import ListNotations.

Definition holds (p : pid) (l : list (pid * req)) : bool := existsb (fun pr => pid_eqb p (fst pr)) l.

(* fetch-loop / database steps still needed before p is completed; None = the worker does not hold p *)
Definition rank (p : pid) (sv : svc) : option nat :=
  match inflight sv with
  | Some po =>
      if holds p (p_res po) then Some (if p_sent po then 1 else 2)
      else if holds p (results sv) then Some ((if p_sent po then 1 else 2) + (if planned sv then 0 else 1) + 1 + 3)
      else None
  | None =>
      if holds p (results sv) then Some ((if planned sv then 0 else 1) + (if client sv then 0 else 1) + 3) else None
  end.

Lemma rank_le_7 p sv n : rank p sv = Some n -> n <= 7.
Proof.
  unfold rank. destruct (inflight sv) as [po|].
  - destruct (holds p (p_res po)); [intros H; inversion H; destruct (p_sent po); lia|].
    destruct (holds p (results sv)); [|discriminate]. intros H; inversion H. destruct (p_sent po), (planned sv); lia.
  - destruct (holds p (results sv)); [|discriminate]. intros H; inversion H. destruct (planned sv), (client sv); lia.
Qed.

(* the step is the one the worker's fetch loop (or the database, with any outcome) takes next *)
Definition fair_b (sv : svc) (a : sact) : bool :=
  match svc_next true sv, a with
  | Some (SDoReturn _), SDoReturn _ => true
  | Some SSend, SSend => true
  | Some SPlan, SPlan => true
  | Some (SDial true), SDial true => true
  | Some SSwap, SSwap => true
  | _, _ => false
  end.
(* steps that cannot delay a held promise: everything but Stop and a failing watchdog ping *)
Definition harmless (a : sact) : bool := match a with SStop | SPingFail => false | _ => true end.

Definition done_in (p : pid) (vs : list sev) : bool := existsb (fun d => pid_eqb p (fst d)) (dones vs).

Lemma holds_app p a b : holds p (a ++ b) = holds p a || holds p b.
Proof. apply existsb_app. Qed.

Lemma done_in_map p ok l : done_in p (VRet ok :: map (fun pr : pid * req => VDone (fst pr) (snd pr) ok) l) = holds p l.
Proof.
  unfold done_in, holds. cbn [dones]. rewrite dones_map. induction l as [|x l IH]; cbn; [reflexivity|]. now rewrite IH.
Qed.

(* one step: the rank never grows, a fair step lowers it or completes the promise *)
Lemma rank_step p sv a sv' vs n :
  running sv = true -> harmless a = true -> sstep sv a = Some (sv', vs) -> rank p sv = Some n ->
  done_in p vs = true \/
  exists n', rank p sv' = Some n' /\ n' + (if fair_b sv a then 1 else 0) <= n.
Proof.
  destruct sv as [k g mq c sz res inf cl pl rn]. cbn [running]. intros -> Hh Hst Hr.
  destruct a as [q r sz0| |ok| | |ok| |]; try discriminate; cbn in Hst.
  - (* a request: joins the open batch or is completed at once; planned can only become true *)
    destruct (eff k r) as [r'|]; [|discriminate]. destruct (Nat.eqb _ 0).
    + inversion Hst; subst. right. exists n. split; [exact Hr|]. unfold fair_b, svc_next; cbn.
      destruct inf as [[? ? [|]]|]; cbn; try lia. destruct res; cbn; try lia. destruct pl; cbn; [destruct cl|]; cbn; lia.
    + inversion Hst; subst; clear Hst. right. unfold rank in *; cbn [inflight results planned client] in *.
      assert (F : fair_b {| kd := k; grp := g; maxq := mq; cols := c; size := sz; results := res; inflight := inf; client := cl; planned := pl; running := true |}
                    (SRequest q r sz0) = false).
      { unfold fair_b, svc_next; cbn. destruct inf as [[? ? [|]]|]; cbn; try reflexivity. destruct res; cbn; try reflexivity.
        destruct pl; cbn; [destruct cl|]; reflexivity. }
      rewrite F. rewrite holds_app.
      destruct inf as [[pc pr snt]|]; cbn [p_res p_sent] in *.
      * destruct (holds p pr); [exists n; split; [exact Hr|lia]|]. destruct (holds p res); [|discriminate]. cbn [orb].
        inversion Hr; subst. eexists. split; [reflexivity|]. destruct pl; cbn; [lia|]. destruct (_ && _); lia.
      * destruct (holds p res); [|discriminate]. cbn [orb]. inversion Hr; subst. eexists. split; [reflexivity|].
        destruct pl; cbn; [lia|]. destruct (_ && _); lia.
  - (* PlanFlush / timer *)
    inversion Hst; subst; clear Hst. right. unfold rank in *; cbn [inflight results planned client set_planned] in *.
    unfold fair_b, svc_next; cbn [inflight results planned client].
    destruct inf as [[pc pr snt]|]; cbn [p_res p_sent] in *.
    + destruct (holds p pr); [exists n; split; [exact Hr|destruct snt; cbn; lia]|]. destruct (holds p res); [|discriminate].
      inversion Hr; subst. eexists. split; [reflexivity|]. destruct snt, pl; cbn; lia.
    + destruct (holds p res) eqn:Hres; [|discriminate]. inversion Hr; subst. eexists. split; [reflexivity|].
      destruct res as [|x xs]; [discriminate|]. cbn. destruct pl; cbn; [destruct cl; cbn; lia|lia].
  - (* dial *)
    destruct (loop_ready _ && negb cl) eqn:G; [|discriminate]. inversion Hst; subst; clear Hst. right.
    unfold loop_ready in G; cbn in G. destruct pl; [|discriminate]. destruct inf; [discriminate|]. destruct cl; [discriminate|].
    unfold rank in *; cbn [inflight results planned client set_client] in *. destruct (holds p res) eqn:Hres; [|discriminate].
    inversion Hr; subst. eexists. split; [reflexivity|]. unfold fair_b, svc_next; cbn [inflight results planned client].
    destruct res as [|x xs]; [discriminate|]. destruct ok; cbn; lia.
  - (* swapBuffers *)
    destruct (loop_ready _ && cl) eqn:G; [|discriminate].
    unfold loop_ready in G; cbn in G. destruct pl; [|discriminate]. destruct inf; [discriminate|]. destruct cl; [|discriminate].
    unfold rank in Hr; cbn [inflight results planned client] in Hr. destruct (holds p res) eqn:Hres; [|discriminate].
    destruct res as [|x xs]; [discriminate|]. cbn in Hst. inversion Hst; subst; clear Hst. right.
    unfold rank; cbn [inflight results planned client p_res p_sent]. rewrite Hres. inversion Hr; subst. eexists. split; [reflexivity|].
    unfold fair_b, svc_next; cbn. lia.
  - (* the call of Do *)
    destruct inf as [[pc pr snt]|]; [|discriminate]. cbn in Hst. destruct snt; [discriminate|]. inversion Hst; subst; clear Hst. right.
    unfold rank in *; cbn [inflight results planned client p_res p_sent] in *.
    unfold fair_b, svc_next; cbn [inflight p_sent].
    destruct (holds p pr); [inversion Hr; subst; eexists; split; [reflexivity|lia]|]. destruct (holds p res); [|discriminate].
    inversion Hr; subst. eexists. split; [reflexivity|]. lia.
  - (* the return of Do *)
    destruct inf as [[pc pr snt]|]; [|discriminate]. cbn in Hst. destruct snt; [|discriminate]. cbn in Hst. inversion Hst; subst; clear Hst.
    rewrite done_in_map. unfold rank in Hr; cbn [inflight results planned client p_res p_sent] in Hr.
    destruct (holds p pr); [left; reflexivity|]. right. destruct (holds p res) eqn:Hres; [|discriminate].
    unfold rank; cbn [inflight results planned client]. rewrite Hres. inversion Hr; subst. eexists. split; [reflexivity|].
    unfold fair_b, svc_next; cbn. destruct pl, ok; cbn; lia.
Qed.

(* number of fetch-loop / database steps of the worker in a run *)
Fixpoint fairs (sv : svc) (tr : list sact) : nat :=
  match tr with
  | [] => 0
  | a :: t => (if fair_b sv a then 1 else 0) + match sstep sv a with Some (sv', _) => fairs sv' t | None => 0 end
  end.

Theorem bounded_wait_gen tr : forall sv sv' vs p n,
  running sv = true -> forallb harmless tr = true -> srun sv tr = Some (sv', vs) -> rank p sv = Some n ->
  done_in p vs = true \/ exists n', rank p sv' = Some n' /\ n' + fairs sv tr <= n.
Proof.
  induction tr as [|a tr IH]; intros sv sv' vs p n Hrun Hh Hs Hr; cbn in Hs, Hh.
  - inversion Hs; subst. right. exists n. split; [assumption|cbn; lia].
  - apply andb_true_iff in Hh as [Ha Hh]. destruct (sstep sv a) as [[s1 e1]|] eqn:E; [|discriminate].
    destruct (srun s1 tr) as [[s2 e2]|] eqn:E2; [|discriminate]. inversion Hs; subst.
    assert (R1 : running s1 = true).
    { destruct a; try discriminate; cbn in E.
      - rewrite Hrun in E. cbn in E. destruct (eff (kd sv) r); [|discriminate]. destruct (Nat.eqb _ 0); inversion E; subst; cbn; assumption.
      - inversion E; subst. assumption.
      - destruct (_ && _); inversion E; subst. assumption.
      - destruct (_ && _); [|discriminate]. destruct (is_nil _); inversion E; subst; cbn; assumption.
      - destruct (inflight sv) as [po|]; [|discriminate]. destruct (p_sent po); inversion E; subst; cbn; assumption.
      - destruct (inflight sv) as [po|]; [|discriminate]. destruct (p_sent po); cbn in E; inversion E; subst; cbn; assumption. }
    destruct (rank_step _ _ _ _ _ _ Hrun Ha E Hr) as [D|(n1 & Hr1 & L1)].
    + left. unfold done_in in *. rewrite dones_app, existsb_app, D. reflexivity.
    + destruct (IH _ _ _ _ _ R1 Hh E2 Hr1) as [D|(n2 & Hr2 & L2)].
      * left. unfold done_in in *. rewrite dones_app, existsb_app, D. apply orb_true_r.
      * right. exists n2. split; [assumption|]. cbn [fairs]. rewrite E. lia.
Qed.

(* a held promise does not survive seven fetch-loop steps of its worker *)
Corollary bounded_wait sv tr sv' vs p n :
  running sv = true -> forallb harmless tr = true -> srun sv tr = Some (sv', vs) -> rank p sv = Some n ->
  7 <= fairs sv tr -> done_in p vs = true.
Proof.
  intros Hrun Hh Hs Hr Hf. destruct (bounded_wait_gen _ _ _ _ _ _ Hrun Hh Hs Hr) as [D|(n' & Hr' & L)]; [assumption|].
  pose proof (rank_le_7 _ _ _ Hr). pose proof (rank_le_7 _ _ _ Hr'). destruct n'; [|lia].
  exfalso. unfold rank in Hr'. destruct (inflight sv') as [po|].
  - destruct (holds p (p_res po)); [destruct (p_sent po); discriminate|]. destruct (holds p (results sv')); [|discriminate].
    inversion Hr'. destruct (p_sent po), (planned sv'); lia.
  - destruct (holds p (results sv')); [|discriminate]. inversion Hr'. lia.
Qed.

(* the bound is reached: a request accepted while a portion is out and the timer is not due, behind a connection that
   the failed INSERT will cost, waits for all seven steps *)
Example seven_steps_needed :
  let tr0 := [SRequest (PEnv 1) (table_of 5 [1%N]) 10; SPlan; SDial true; SSwap; SRequest (PEnv 2) (table_of 5 [2%N]) 10] in
  exists s vs, srun (svc_init KSamples 0 0) tr0 = Some (s, vs) /\ running s = true /\ rank (PEnv 2) s = Some 7 /\
    let tr := [SSend; SDoReturn false; SPlan; SDial true; SSwap; SSend; SDoReturn true] in
    fairs s tr = 7 /\ forallb harmless tr = true /\
    exists s' vs', srun s tr = Some (s', vs') /\ done_in (PEnv 2) vs' = true /\
                   done_in (PEnv 2) (match srun s (firstn 6 tr) with Some (_, v) => v | None => [] end) = false.
Proof.
  cbv zeta. eexists. eexists. split; [vm_compute; reflexivity|]. split; [reflexivity|]. split; [vm_compute; reflexivity|].
  split; [vm_compute; reflexivity|]. split; [reflexivity|]. eexists. eexists. split; [vm_compute; reflexivity|].
  split; vm_compute; reflexivity.
Qed.
