(* C14: the meaning theorem of proofs/ReplanAlphaProofs.v is not vacuous: for C07's example query (two matchers, two line
   filters and a label filter planned as SimpleLabelFilterPlanner: the plan draws an id per execution), C07's example database
   and toy oracles, BOTH statements of one plan object executed twice under one context evaluate, to the one matching line. *)
From Coq Require Import List ZArith NArith QArith String Ascii Bool.
From Qryn Require Import lib.Strs model.Sql model.SqlRender model.SqlEval model.Logql model.LogqlPlan model.LogqlCases
  model.Replan model.ReplanAlpha proofs.ReplanProofs proofs.ReplanAlphaProofs model.LogqlSem proofs.LogqlSemProofs.
Import ListNotations.
Definition nv_ctx : pctx := with_window ex_ctx (1699999999000000000, 1700003600000000000)%Z.
Definition nv_query : strsel := ex_query.
(* per statement: does it evaluate, and to how many rows *)
Definition nv_row_counts (l : list (option select)) : list (option (option nat)) :=
  map (fun o => option_map (option_map (@List.length _)) (meaning no_re no_float no_json no_hash tie_id (to_sqldb ex_ctx w_db) o)) l.
Lemma one_context_meaning_nonvacuous :
  match plan_log nv_query true with
  | Some p => draws_ids p = true /\
     nv_row_counts (run_plan_sel 2 p nv_ctx pst0) = [Some (Some 1%nat); Some (Some 1%nat)] /\
     olist_eqb (run_plan 2 p nv_ctx pst0) (fresh_seq 2 p nv_ctx) = false
  | None => False end.
Proof. vm_compute. repeat split; reflexivity. Qed.
