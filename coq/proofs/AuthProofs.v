(* C20 — proofs about model/Auth.v and model/Router.v *)
From Coq Require Import List String Ascii Bool NArith Arith Lia.
From Qryn Require Import model.Auth model.Router.
Import ListNotations.
Open Scope string_scope.

(* ================================================================ base64 *)
Lemma dec_enc : forall s, dec_char (enc_char s) = Some s.
Proof. intros [[] [] [] [] [] []]; vm_compute; reflexivity. Qed.

Lemma regroup0 : forall x y, byte0 (sx0 x) (sx1 x y) = x.
Proof. intros [] []; reflexivity. Qed.
Lemma regroup1 : forall x y z, byte1 (sx1 x y) (sx2 y z) = y.
Proof. intros [] [] []; reflexivity. Qed.
Lemma regroup2 : forall y z, byte2 (sx2 y z) (sx3 z) = z.
Proof. intros [] []; reflexivity. Qed.

Lemma dec_pad : dec_char "="%char = None.
Proof. reflexivity. Qed.

Lemma go_quantum : forall a b c d r,
  b64_go (String (enc_char a) (String (enc_char b) (String (enc_char c) (String (enc_char d) r)))) [] =
  let '(out, ok) := b64_go r [] in (String (byte0 a b) (String (byte1 b c) (String (byte2 c d) out)), ok).
Proof.
  intros a b c d r. do 4 (cbn [b64_go app]; rewrite ?dec_enc). reflexivity.
Qed.

Lemma go_pad1 : forall a b,
  b64_go (String (enc_char a) (String (enc_char b) "==")) [] = (String (byte0 a b) EmptyString, true).
Proof. intros a b. do 2 (cbn [b64_go app]; rewrite ?dec_enc). reflexivity. Qed.
Lemma go_pad2 : forall a b c,
  b64_go (String (enc_char a) (String (enc_char b) (String (enc_char c) "="))) [] =
  (String (byte0 a b) (String (byte1 b c) EmptyString), true).
Proof. intros a b c. do 3 (cbn [b64_go app]; rewrite ?dec_enc). reflexivity. Qed.

Lemma b64_roundtrip_len : forall n s, String.length s <= n -> b64_go (b64_encode s) [] = (s, true).
Proof.
  induction n as [|n IH]; intros s Hn.
  - destruct s; [reflexivity | cbn in Hn; lia].
  - destruct s as [|x [|y [|z r]]].
    + reflexivity.
    + cbn [b64_encode]. rewrite go_pad1, regroup0. reflexivity.
    + cbn [b64_encode]. rewrite go_pad2, regroup0, regroup1. reflexivity.
    + cbn [b64_encode]. rewrite go_quantum, IH by (cbn in Hn; lia).
      rewrite regroup0, regroup1, regroup2. reflexivity.
Qed.
(* decoding what the encoder produced gives the text back, without error, for every byte string *)
Lemma b64_roundtrip : forall s, b64_go (b64_encode s) [] = (s, true).
Proof. intros s. apply (b64_roundtrip_len (String.length s)). lia. Qed.

(* ================================================================ SplitN(s, sep, 2) *)
Lemma split_first_some : forall sep s a b, split_first sep s = Some (a, b) ->
  s = a ++ String sep b /\ has_char sep a = false.
Proof.
  intros sep s. induction s as [|c r IH]; intros a b H; cbn in H; [discriminate|].
  destruct (Ascii.eqb c sep) eqn:E.
  - inversion H; subst. apply Ascii.eqb_eq in E. subst. split; reflexivity.
  - destruct (split_first sep r) as [[a' b']|] eqn:S; [|discriminate].
    inversion H; subst. destruct (IH a' b eq_refl) as [-> Hn]. split; [reflexivity|].
    cbn. rewrite E. exact Hn.
Qed.
Lemma split_first_none : forall sep s, split_first sep s = None -> has_char sep s = false.
Proof.
  intros sep s. induction s as [|c r IH]; intros H; cbn in *; [reflexivity|].
  destruct (Ascii.eqb c sep) eqn:E; [discriminate|].
  destruct (split_first sep r) as [[a' b']|]; [discriminate|]. cbn. now apply IH.
Qed.
Lemma split_first_app : forall sep a b, has_char sep a = false ->
  split_first sep (a ++ String sep b) = Some (a, b).
Proof.
  intros sep a b. induction a as [|c r IH]; intros H; cbn in *.
  - now rewrite Ascii.eqb_refl.
  - apply orb_false_iff in H. destruct H as [E H]. rewrite E, (IH H). reflexivity.
Qed.

(* ================================================================ BasicAuthMiddleware's decision *)
Lemma credentials_part_some : forall auth rest, credentials_part auth = Some rest -> auth = "Basic " ++ rest.
Proof.
  intros auth rest. unfold credentials_part, splitn2.
  destruct (split_first " "%char auth) as [[a b]|] eqn:S; [|discriminate].
  destruct (String.eqb a "Basic") eqn:E; [|discriminate].
  intros H; inversion H; subst. apply String.eqb_eq in E. subst.
  apply split_first_some in S. destruct S as [-> _]. reflexivity.
Qed.
Lemma credentials_part_basic : forall rest, credentials_part ("Basic " ++ rest) = Some rest.
Proof. reflexivity. Qed.

(* whoever is let through sent  Basic <text>  whose decoding (and, since the fix, whose error-free decoding) is
   login:pass -- for every header byte string, every login and password *)
Lemma pass_inv : forall ce login pass auth, basic_auth_gen ce login pass auth = VPass ->
  exists rest, credentials_part auth = Some rest /\ b64_decode_prefix rest = login ++ ":" ++ pass
               /\ (ce = true -> b64_decode_ok rest = true).
Proof.
  intros ce login pass auth. unfold basic_auth_gen, credentials_part, b64_decode_prefix, b64_decode_ok, splitn2.
  destruct (String.eqb auth "") ; [discriminate|].
  destruct (split_first " "%char auth) as [[a b]|] eqn:S; [|discriminate].
  destruct (String.eqb a "Basic") eqn:E; [|discriminate].
  destruct (b64_go b []) as [payload ok] eqn:G. cbn [fst snd].
  destruct (ce && negb ok) eqn:C; [discriminate|].
  destruct (split_first ":"%char payload) as [[u p]|] eqn:S2; [|discriminate].
  destruct (String.eqb u login) eqn:Eu; [|discriminate].
  destruct (String.eqb p pass) eqn:Ep; [|discriminate].
  intros _. exists b. apply String.eqb_eq in Eu, Ep. subst.
  apply split_first_some in S2. destruct S2 as [-> _]. rewrite G. cbn [fst snd].
  split; [reflexivity|]. split; [reflexivity|].
  intros ->. cbn in C. now destruct ok.
Qed.

Lemma pass_exact : forall login pass auth, basic_auth login pass auth = VPass -> exact_credentials login pass auth = true.
Proof.
  intros login pass auth H. destruct (pass_inv true _ _ _ H) as [rest [Hc [Hd Hok]]].
  unfold exact_credentials. rewrite Hc, (Hok eq_refl), Hd. cbn. apply String.eqb_refl.
Qed.

Lemma exact_pass : forall login pass auth, has_char ":"%char login = false ->
  exact_credentials login pass auth = true -> basic_auth login pass auth = VPass.
Proof.
  intros login pass auth Hl. unfold exact_credentials.
  destruct (credentials_part auth) as [rest|] eqn:Hc; [|discriminate].
  intros H. apply andb_true_iff in H. destruct H as [Hok Hd]. apply String.eqb_eq in Hd.
  apply credentials_part_some in Hc. subst auth.
  unfold basic_auth, basic_auth_gen, splitn2.
  replace (String.eqb ("Basic " ++ rest) "") with false by reflexivity.
  replace (split_first " "%char ("Basic " ++ rest)) with (Some ("Basic", rest)) by reflexivity.
  replace (String.eqb "Basic" "Basic") with true by reflexivity.
  unfold b64_decode_ok, b64_decode_prefix in *. destruct (b64_go rest []) as [payload ok]. cbn [fst snd] in *.
  subst. cbn [andb negb]. change (":" ++ pass) with (String ":"%char pass).
  rewrite (split_first_app ":"%char login pass Hl). rewrite !String.eqb_refl. reflexivity.
Qed.

(* the header a client builds from the configured credentials is accepted (login without ':') *)
Lemma right_header_passes : forall login pass, has_char ":"%char login = false ->
  basic_auth login pass (basic_header login pass) = VPass.
Proof.
  intros login pass Hl. apply exact_pass; [exact Hl|].
  unfold exact_credentials, basic_header. rewrite credentials_part_basic.
  unfold b64_decode_ok, b64_decode_prefix. rewrite b64_roundtrip. cbn [fst snd andb]. apply String.eqb_refl.
Qed.

(* a login that contains ':' can never be presented: SplitN cuts at the FIRST colon (fails closed) *)
Lemma colon_login_locks_out : forall ce login pass auth, has_char ":"%char login = true ->
  basic_auth_gen ce login pass auth <> VPass.
Proof.
  intros ce login pass auth Hl. unfold basic_auth_gen, splitn2.
  destruct (String.eqb auth ""); [discriminate|].
  destruct (split_first " "%char auth) as [[a b]|]; [|discriminate].
  destruct (String.eqb a "Basic"); [|discriminate].
  destruct (b64_go b []) as [payload ok]. destruct (ce && negb ok); [discriminate|].
  destruct (split_first ":"%char payload) as [[u p]|] eqn:S2; [|discriminate].
  destruct (String.eqb u login) eqn:Eu; [|discriminate]. apply String.eqb_eq in Eu. subst.
  apply split_first_some in S2. destruct S2 as [_ Hn]. congruence.
Qed.

Lemma not_pass_status : forall ce login pass auth, basic_auth_gen ce login pass auth <> VPass ->
  verdict_status (basic_auth_gen ce login pass auth) = 401%N \/ verdict_status (basic_auth_gen ce login pass auth) = 400%N.
Proof. intros ce login pass auth H. destruct (basic_auth_gen ce login pass auth); cbn; auto. congruence. Qed.

(* ================================================================ the middleware chain *)
Section CHAIN.
  Variable ce : bool.
  Variables login pass : string.
  Variable other : string -> request -> option N.
  Variable h : request -> N.
  Notation serve := (serve ce login pass other h).
  Notation verdict_of q := (basic_auth_gen ce login pass (q_auth q)).

  Lemma guarded_has_auth : forall ch, guarded ch = true -> In BasicAuth ch.
  Proof.
    induction ch as [|m r IH]; cbn; [discriminate|].
    destruct m; cbn; auto; intros H; right; apply IH; exact H || discriminate.
  Qed.

  Lemma reject_not_2xx : forall q, verdict_of q <> VPass -> is2xx (verdict_status (verdict_of q)) = false.
  Proof. intros q H. destruct (not_pass_status _ _ _ _ H) as [-> | ->]; reflexivity. Qed.

  (* without the credentials: BasicAuth answers itself; only pass-through wrappers registered before it have run *)
  Lemma serve_reject : forall ch q, guarded ch = true -> verdict_of q <> VPass ->
    let p := serve ch q in let st := verdict_status (verdict_of q) in
    p_status p = st /\ p_gzip p = false /\ p_www p = verdict_eqb (verdict_of q) VChallenge401 /\
    p_trace p = (map EvNext (before_auth ch) ++ [EvReject st])%list.
  Proof.
    induction ch as [|m r IH]; intros q Hg Hv; [discriminate|].
    destruct m; cbn [guarded transparent andb] in Hg; try discriminate.
    - cbn [serve before_auth map app]. destruct (verdict_of q) eqn:E; try congruence; cbn; auto.
    - destruct (IH q Hg Hv) as [Hs [Hz [Hw Ht]]]. cbn [serve before_auth map app].
      cbn [entered p_status]. rewrite Hs, (reject_not_2xx q Hv), andb_false_r. cbn. rewrite Hs, Hz, Hw, Ht. auto.
    - destruct (IH q Hg Hv) as [Hs [Hz [Hw Ht]]]. cbn. rewrite Hs, Hz, Hw, Ht. auto.
    - destruct (IH q Hg Hv) as [Hs [Hz [Hw Ht]]]. cbn. rewrite Hs, Hz, Hw, Ht. auto.
  Qed.

  Lemma trace_gz : forall (c : bool) (p : response),
    p_trace (if c then {| p_status := p_status p; p_www := p_www p; p_gzip := true; p_cors := p_cors p;
                          p_trace := p_trace p |} else p) = p_trace p.
  Proof. intros [] p; reflexivity. Qed.
  Lemma status_gz : forall (c : bool) (p : response),
    p_status (if c then {| p_status := p_status p; p_www := p_www p; p_gzip := true; p_cors := p_cors p;
                           p_trace := p_trace p |} else p) = p_status p.
  Proof. intros [] p; reflexivity. Qed.

  (* the handler runs only behind a BasicAuth that said yes -- wherever BasicAuth stands in the chain *)
  Lemma serve_handler_inv : forall ch q, In BasicAuth ch -> In EvHandler (p_trace (serve ch q)) -> verdict_of q = VPass.
  Proof.
    induction ch as [|m r IH]; intros q Hin Hr; [contradiction|].
    destruct m.
    - cbn [serve] in Hr. destruct (verdict_of q) eqn:E; auto; cbn in Hr; destruct Hr as [Hr|[]]; discriminate.
    - destruct Hin as [Hin|Hin]; [discriminate|]. apply (IH q Hin).
      cbn [serve] in Hr. rewrite trace_gz in Hr. cbn in Hr. destruct Hr as [Hr|Hr]; [discriminate|exact Hr].
    - destruct Hin as [Hin|Hin]; [discriminate|]. apply (IH q Hin).
      cbn in Hr. destruct Hr as [Hr|Hr]; [discriminate|exact Hr].
    - destruct Hin as [Hin|Hin]; [discriminate|]. apply (IH q Hin).
      cbn in Hr. destruct Hr as [Hr|Hr]; [discriminate|exact Hr].
    - destruct Hin as [Hin|Hin]; [discriminate|]. apply (IH q Hin).
      cbn [serve] in Hr. destruct (other name q); cbn in Hr; destruct Hr as [Hr|Hr]; try discriminate; [contradiction|exact Hr].
  Qed.

  (* with the credentials every known middleware calls next once, in Use order, and the handler's status is the answer *)
  Lemma serve_pass : forall ch q, forallb known ch = true -> verdict_of q = VPass ->
    p_status (serve ch q) = h q /\ p_trace (serve ch q) = (map EvNext ch ++ [EvHandler])%list.
  Proof.
    induction ch as [|m r IH]; intros q Hk Hv; [cbn; auto|].
    cbn [forallb] in Hk. apply andb_true_iff in Hk. destruct Hk as [Hm Hk].
    destruct (IH q Hk Hv) as [Hs Ht]. destruct m; try discriminate.
    - cbn [serve]. rewrite Hv. cbn. rewrite Hs, Ht. auto.
    - cbn [serve]. rewrite status_gz, trace_gz. cbn. rewrite Hs, Ht. auto.
    - cbn. rewrite Hs, Ht. auto.
    - cbn. rewrite Hs, Ht. auto.
  Qed.

  (* ================================================================ dispatch *)
  Lemma find_route_in_c : forall crs m p ps seen rt, find_route crs m p ps seen = FRoute rt -> In rt (map cr_route crs).
  Proof.
    intros crs. induction crs as [|x r IH]; intros m p ps seen rt H; cbn in H.
    - destruct seen; discriminate.
    - destruct (path_match x p ps).
      + destruct (method_ok (cr_route x) m); [inversion H; left; reflexivity | right; eapply IH; eauto].
      + right; eapply IH; eauto.
  Qed.
  Lemma compile_routes : forall ops root, map cr_route (compile ops root) = routes_of_root ops root.
  Proof. intros ops root. unfold compile. rewrite map_map. cbn. apply map_id. Qed.
  Lemma find_route_in : forall ops root m p ps seen rt,
    find_route (compile ops root) m p ps seen = FRoute rt -> In rt (reachable_routes ops).
  Proof.
    intros ops root m p ps seen rt H. apply find_route_in_c in H. rewrite compile_routes in H.
    unfold routes_of_root in H. apply filter_In in H. exact (proj1 H).
  Qed.

  Lemma find_route_not_301 : forall crs m p ps seen, find_route crs m p ps seen <> F301.
  Proof.
    induction crs as [|x r IH]; intros m p ps seen; cbn.
    - destruct seen; discriminate.
    - destruct (path_match x p ps); [destruct (method_ok (cr_route x) m); [discriminate|apply IH] | apply IH].
  Qed.
  Lemma route_request_301 : forall crs m p, route_request crs m p = F301 -> path_clean p = false.
  Proof.
    intros crs m p H. unfold route_request in H. destruct (path_clean p); [|reflexivity].
    exfalso. exact (find_route_not_301 _ _ _ _ _ H).
  Qed.

  Lemma route_request_in : forall ops root m p rt,
    route_request (compile ops root) m p = FRoute rt -> In rt (reachable_routes ops).
  Proof.
    intros ops root m p rt H. unfold route_request in H. destruct (path_clean p); [|discriminate].
    eapply find_route_in; eauto.
  Qed.

  Lemma ok_guarded : forall ops rt, assembly_ok ops = true -> In rt (reachable_routes ops) ->
    guarded (chain ops (rt_router rt)) = true.
  Proof.
    intros ops rt H Hin. unfold assembly_ok in H. apply andb_true_iff in H. destruct H as [_ H].
    rewrite forallb_forall in H. exact (H rt Hin).
  Qed.

  Lemma dispatch_handler_inv : forall ops root q, assembly_ok ops = true ->
    In EvHandler (p_trace (dispatch ce login pass other h ops root q)) -> verdict_of q = VPass.
  Proof.
    intros ops root q Hok. unfold dispatch, dispatch_c.
    destruct (route_request (compile ops root) (q_method q) (q_path q)) as [rt| | |] eqn:F; cbn; try contradiction.
    apply serve_handler_inv. apply guarded_has_auth. eapply ok_guarded; eauto. eapply route_request_in; eauto.
  Qed.

  Lemma dispatch_reject : forall ops root q, assembly_ok ops = true -> verdict_of q <> VPass ->
    let p := dispatch ce login pass other h ops root q in
    ~ In EvHandler (p_trace p) /\ p_gzip p = false /\
    ((p_status p = verdict_status (verdict_of q) /\ exists pre, forallb transparent pre = true /\
         p_trace p = (map EvNext pre ++ [EvReject (verdict_status (verdict_of q))])%list)
     \/ ((p_status p = 404%N \/ p_status p = 405%N \/ (p_status p = 301%N /\ path_clean (q_path q) = false)) /\ p_trace p = [])).
  Proof.
    intros ops root q Hok Hv p. split.
    - intros Hr. apply Hv. eapply dispatch_handler_inv; eauto.
    - subst p. unfold dispatch, dispatch_c.
      destruct (route_request (compile ops root) (q_method q) (q_path q)) as [rt| | |] eqn:F; cbn [plain p_gzip p_status p_trace].
      2:{ split; [reflexivity|]. right. split; [|reflexivity]. right. left. reflexivity. }
      2:{ split; [reflexivity|]. right. split; [|reflexivity]. left. reflexivity. }
      2:{ split; [reflexivity|]. right. split; [|reflexivity]. right. right. split; [reflexivity|].
          eapply route_request_301; eauto. }
      assert (Hg : guarded (chain ops (rt_router rt)) = true) by (eapply ok_guarded; eauto; eapply route_request_in; eauto).
      destruct (serve_reject _ q Hg Hv) as [Hs [Hz [_ Ht]]]. split; [exact Hz|]. left. split; [exact Hs|].
      exists (before_auth (chain ops (rt_router rt))). split; [|exact Ht].
      clear -Hg. induction (chain ops (rt_router rt)) as [|m r IH]; [reflexivity|].
      destruct m; cbn in *; auto; discriminate.
  Qed.
End CHAIN.

(* ================================================================ every valuation of the assembly's conditions *)
Lemma cond_eval_ext : forall n e1 e2 c, (forall a, a < n -> e1 a = e2 a) -> cond_bound n c = true ->
  cond_eval e1 c = cond_eval e2 c.
Proof.
  intros n e1 e2 c He. induction c as [| |a|c IH|a IHa b IHb|a IHa b IHb]; cbn; intros Hb; auto.
  - apply He. now apply Nat.ltb_lt.
  - now rewrite IH.
  - apply andb_true_iff in Hb. destruct Hb. now rewrite IHa, IHb.
  - apply andb_true_iff in Hb. destruct Hb. now rewrite IHa, IHb.
Qed.

Lemma active_ext : forall n e1 e2 g, (forall a, a < n -> e1 a = e2 a) -> gops_bound n g = true ->
  active e1 g = active e2 g.
Proof.
  intros n e1 e2 g He. unfold active, gops_bound. induction g as [|x r IH]; cbn; intros Hb; [reflexivity|].
  apply andb_true_iff in Hb. destruct Hb as [Hx Hr].
  rewrite (cond_eval_ext n e1 e2 (fst x) He Hx). destruct (cond_eval e2 (fst x)); cbn; now rewrite (IH Hr).
Qed.

Lemma envs_complete : forall n (e : nat -> bool), In (map e (seq 0 n)) (envs n).
Proof.
  intros n e. generalize 0. revert e. induction n as [|n IH]; intros e k.
  - left; reflexivity.
  - assert (G : forall (e : nat -> bool) k, In (map e (seq k (S n))) (envs (S n))); [|apply G].
    clear e k. intros e k. cbn [seq map envs]. apply in_flat_map.
    exists (map e (seq (S k) n)). split.
    + specialize (IH e (S k)). exact IH.
    + destruct (e k); cbn; auto.
Qed.

Lemma env_of_list_map : forall n (e : nat -> bool) a, a < n -> env_of_list (map e (seq 0 n)) a = e a.
Proof.
  intros n e a Ha. unfold env_of_list.
  rewrite (nth_indep _ false (e 0)) by (rewrite map_length, seq_length; exact Ha).
  rewrite (map_nth e (seq 0 n) 0 a). rewrite seq_nth by exact Ha. reflexivity.
Qed.

(* the finite check over all 2^n valuations covers EVERY environment (the conditions mention atoms < n only) *)
Lemma all_envs_sound : forall n must chk g, all_envs n must chk g = true ->
  forall env : nat -> bool, (forall a, In a must -> env a = true) -> chk (active env g) = true.
Proof.
  intros n must chk g H env Hm. unfold all_envs in H.
  apply andb_true_iff in H. destruct H as [H Hall]. apply andb_true_iff in H. destruct H as [Hb Hmust].
  rewrite forallb_forall in Hall. specialize (Hall _ (envs_complete n env)). cbv zeta in Hall.
  assert (He : forall a, a < n -> env a = env_of_list (map env (seq 0 n)) a)
    by (intros a Ha; symmetry; apply env_of_list_map; exact Ha).
  assert (Hf : forallb (env_of_list (map env (seq 0 n))) must = true).
  { apply forallb_forall. intros a Ha. rewrite forallb_forall in Hmust.
    specialize (Hmust a Ha). apply Nat.ltb_lt in Hmust. rewrite <- He by exact Hmust. apply Hm; exact Ha. }
  rewrite Hf in Hall. rewrite (active_ext n env _ g He Hb). exact Hall.
Qed.

Lemma handler_ran_In : forall p, handler_ran p = true <-> In EvHandler (p_trace p).
Proof.
  intros p. unfold handler_ran. rewrite existsb_exists. split.
  - intros [e [Hin He]]. destruct e; try discriminate. exact Hin.
  - intros H. exists EvHandler. split; [exact H | reflexivity].
Qed.
Lemma handler_ran_false : forall p, ~ In EvHandler (p_trace p) -> handler_ran p = false.
Proof. intros p H. destruct (handler_ran p) eqn:E; [|reflexivity]. apply handler_ran_In in E. contradiction. Qed.

(* the unfixed code let a malformed credentials text through: the decoded prefix of "dXNlcjpwYXNz!" is user:pass *)
Lemma unchecked_accepts_malformed :
  basic_auth_unchecked "user" "pass" "Basic dXNlcjpwYXNz!" = VPass /\
  exact_credentials "user" "pass" "Basic dXNlcjpwYXNz!" = false /\
  basic_auth "user" "pass" "Basic dXNlcjpwYXNz!" = VDenied401.
Proof. vm_compute. auto. Qed.

(* ================================================================ requests without a header; chains without BasicAuth *)
Lemma no_header_challenged : forall ce login pass, basic_auth_gen ce login pass "" = VChallenge401.
Proof. reflexivity. Qed.

Section CHAIN2.
  Variable ce : bool.
  Variables login pass : string.
  Variable other : string -> request -> option N.
  Variable h : request -> N.

  (* a request without an Authorization header (every browser pre-flight is one): challenged by BasicAuth itself, or
     answered by the router's own 404/405 *)
  Lemma dispatch_no_header : forall ops root q, assembly_ok ops = true -> q_auth q = "" ->
    let p := dispatch ce login pass other h ops root q in
    handler_ran p = false /\ p_gzip p = false /\
    ((p_status p = 401%N /\ p_www p = true /\ exists pre, forallb transparent pre = true /\
         p_trace p = (map EvNext pre ++ [EvReject 401%N])%list)
     \/ ((p_status p = 404%N \/ p_status p = 405%N \/ (p_status p = 301%N /\ path_clean (q_path q) = false)) /\
         p_www p = false /\ p_trace p = [])).
  Proof.
    intros ops root q Hok Ha p.
    assert (Hv : basic_auth_gen ce login pass (q_auth q) <> VPass) by (rewrite Ha, no_header_challenged; discriminate).
    destruct (dispatch_reject ce login pass other h ops root q Hok Hv) as [Hn [Hz _]]. fold p in Hn, Hz.
    split; [apply handler_ran_false; exact Hn|]. split; [exact Hz|].
    subst p. unfold dispatch, dispatch_c in *.
    destruct (route_request (compile ops root) (q_method q) (q_path q)) as [rt| | |] eqn:F;
      cbn [plain p_status p_www p_trace].
    2:{ right. split; [|auto]. right. left. reflexivity. }
    2:{ right. split; [|auto]. left. reflexivity. }
    2:{ right. split; [|auto]. right. right. split; [reflexivity|]. eapply route_request_301; eauto. }
    assert (Hg : guarded (chain ops (rt_router rt)) = true) by (eapply ok_guarded; eauto; eapply route_request_in; eauto).
    destruct (serve_reject ce login pass other h _ q Hg Hv) as [Hs [_ [Hw Ht]]].
    rewrite Ha, no_header_challenged in Hs, Hw, Ht. cbn in Hs, Hw, Ht.
    left. split; [exact Hs|]. split; [exact Hw|].
    exists (before_auth (chain ops (rt_router rt))). split; [|exact Ht].
    clear -Hg. induction (chain ops (rt_router rt)) as [|m r IH]; [reflexivity|].
    destruct m; cbn in *; auto; discriminate.
  Qed.

  (* a chain WITHOUT BasicAuth (all middlewares known): the handler runs whatever the request carries *)
  Lemma serve_no_auth : forall ch q, forallb known ch = true -> existsb (mw_eqb BasicAuth) ch = false ->
    p_status (serve ce login pass other h ch q) = h q /\
    p_trace (serve ce login pass other h ch q) = (map EvNext ch ++ [EvHandler])%list.
  Proof.
    induction ch as [|m r IH]; intros q Hk Hn; [cbn; auto|].
    cbn [forallb] in Hk. apply andb_true_iff in Hk. destruct Hk as [Hm Hk].
    cbn [existsb] in Hn. apply orb_false_iff in Hn. destruct Hn as [Hb Hn].
    destruct (IH q Hk Hn) as [Hs Ht]. destruct m; try discriminate.
    - cbn [serve]. rewrite status_gz, trace_gz. cbn. rewrite Hs, Ht. auto.
    - cbn. rewrite Hs, Ht. auto.
    - cbn. rewrite Hs, Ht. auto.
  Qed.

  (* why `guarded` allows only pass-through wrappers before BasicAuth: a middleware that may answer on its own does so
     without BasicAuth ever seeing the request *)
  Lemma answering_wrapper_short_circuits : forall n rest q st, other n q = Some st ->
    serve ce login pass other h (MwOther n :: rest) q =
      {| p_status := st; p_www := false; p_gzip := false; p_cors := false; p_trace := [EvShort n st] |}.
  Proof. intros n rest q st H. cbn [serve]. rewrite H. reflexivity. Qed.
End CHAIN2.

Lemma open_check_sound : forall ops, open_check ops = true ->
  exists rt, In rt (reachable_routes ops) /\
    forall ce login pass other h q,
      p_status (serve ce login pass other h (chain ops (rt_router rt)) q) = h q /\
      In EvHandler (p_trace (serve ce login pass other h (chain ops (rt_router rt)) q)).
Proof.
  intros ops H. unfold open_check in H. apply existsb_exists in H. destruct H as [rt [Hin Ho]].
  exists rt. split; [exact Hin|]. intros ce login pass other h q.
  unfold open_route in Ho. apply andb_true_iff in Ho. destruct Ho as [Hn Hk]. apply negb_true_iff in Hn.
  destruct (serve_no_auth ce login pass other h _ q Hk Hn) as [Hs Ht].
  split; [exact Hs|]. rewrite Ht. apply in_or_app. right. left. reflexivity.
Qed.

(* BasicAuthMiddleware with an EMPTY password (main() does not install it then; if it were installed): accepts exactly "login:" *)
Lemma empty_password_exact : forall login auth, has_char ":"%char login = false ->
  (basic_auth login "" auth = VPass <-> exact_credentials login "" auth = true) /\
  basic_auth login "" (basic_header login "") = VPass /\ basic_auth login "" "" = VChallenge401.
Proof.
  intros login auth Hl. split; [split; [apply pass_exact | apply exact_pass; exact Hl]|].
  split; [apply right_header_passes; exact Hl | reflexivity].
Qed.

(* ================================================================ whole-assembly statements *)
Section ASSEMBLY.
  Variables login pass : string.
  Variable other : string -> request -> option N.
  Variable h : request -> N.
  Variable ops : list rop.
  Hypothesis Hok : assembly_ok ops = true.

  Lemma assembly_no_handler : forall root q,
    let p := dispatch true login pass other h ops root q in
    (handler_ran p = true ->
       exists rest, q_auth q = "Basic " ++ rest /\ b64_decode_ok rest = true /\
                    b64_decode_prefix rest = login ++ ":" ++ pass) /\
    (exact_credentials login pass (q_auth q) = false ->
       handler_ran p = false /\ p_gzip p = false /\
       (p_status p = 401 \/ p_status p = 400 \/ p_status p = 404 \/ p_status p = 405 \/
        (p_status p = 301 /\ path_clean (q_path q) = false))%N /\
       ((p_status p = 401 \/ p_status p = 400)%N -> exists pre, forallb transparent pre = true /\
          p_trace p = (map EvNext pre ++ [EvReject (p_status p)])%list) /\
       ((p_status p = 404 \/ p_status p = 405 \/ p_status p = 301)%N -> p_trace p = [])).
  Proof.
    intros root q p. split.
    - intros Hr. apply handler_ran_In in Hr.
      pose proof (dispatch_handler_inv true login pass other h ops root q Hok Hr) as Hv.
      destruct (pass_inv true _ _ _ Hv) as [rest [Hc [Hd Ho]]].
      exists rest. split; [apply credentials_part_some; exact Hc|]. split; [apply Ho; reflexivity | exact Hd].
    - intros He.
      assert (Hv : basic_auth_gen true login pass (q_auth q) <> VPass).
      { intros Hv. apply pass_exact in Hv. congruence. }
      destruct (dispatch_reject true login pass other h ops root q Hok Hv) as [Hn [Hz Hs]]. fold p in Hn, Hz, Hs.
      split; [apply handler_ran_false; exact Hn|]. split; [exact Hz|].
      destruct Hs as [[Hs [pre [Hp Ht]]] | [Hs Ht]].
      + split; [|split].
        * rewrite Hs. destruct (not_pass_status _ _ _ _ Hv) as [-> | ->]; auto.
        * intros _. exists pre. split; [exact Hp|]. rewrite Hs. exact Ht.
        * rewrite Hs. destruct (not_pass_status _ _ _ _ Hv) as [-> | ->]; intros [E|[E|E]]; discriminate.
      + split; [|split].
        * destruct Hs as [Hs|[Hs|Hs]]; auto 6.
        * intros [E|E]; destruct Hs as [Hs|[Hs|[Hs _]]]; rewrite Hs in E; discriminate.
        * intros _. exact Ht.
  Qed.

  Hypothesis Hknown : assembly_known ops = true.
  Lemma assembly_right_credentials : forall root q rt, has_char ":"%char login = false ->
    q_auth q = basic_header login pass ->
    lookup ops root (q_method q) (q_path q) = FRoute rt ->
    let p := dispatch true login pass other h ops root q in
    handler_ran p = true /\ p_status p = h q /\
    p_trace p = (map EvNext (chain ops (rt_router rt)) ++ [EvHandler])%list.
  Proof.
    intros root q rt Hl Ha F p. subst p. unfold dispatch, dispatch_c. unfold lookup in F. rewrite F.
    assert (Hk : forallb known (chain ops (rt_router rt)) = true).
    { unfold assembly_known in Hknown. rewrite forallb_forall in Hknown. apply Hknown. eapply route_request_in; eauto. }
    assert (Hv : basic_auth_gen true login pass (q_auth q) = VPass) by (rewrite Ha; apply right_header_passes; exact Hl).
    destruct (serve_pass true login pass other h _ q Hk Hv) as [Hs Ht].
    split; [|split; assumption]. apply handler_ran_In. rewrite Ht. apply in_or_app. right. left. reflexivity.
  Qed.
End ASSEMBLY.
