(* Proofs about model/ReqOpts.v: the X-Ttl-Days header and the precision parameter are read exactly, and a request whose
   options were written by a client is answered with one faithful row per entry under exactly these options. *)
From Coq Require Import List ZArith NArith Bool Ascii String Lia.
From Qryn Require Import gen.DecodeConsts model.Decode model.LokiTime model.ReqOpts proofs.DecodeProofs proofs.LokiTimeProofs.
Import ListNotations.
Open Scope Z_scope.

Lemma digits_text_nonempty : forall ds, ds <> [] -> digits_text ds <> EmptyString.
Proof. intros [|d ds] H; [congruence|]. cbn [digits_text fold_right]. discriminate. Qed.

Lemma parse_uint16_digits : forall ds, ds <> [] -> all_digits ds = true -> digits_value ds <= 65535 ->
  parse_uint16 (digits_text ds) = Some (digits_value ds).
Proof.
  intros ds Hne Hd Hr. unfold parse_uint16.
  destruct (digits_text ds) eqn:E; [exfalso; now apply (digits_text_nonempty ds Hne)|].
  rewrite <- E. rewrite (parse_digits_text ds 0 Hd). fold (digits_value ds).
  destruct (digits_value ds <=? 65535) eqn:L; [reflexivity|]. apply Z.leb_gt in L. lia.
Qed.

Lemma ttl_header_read_l : forall ds, ds <> [] -> all_digits ds = true -> digits_value ds <= 65535 ->
  ttl_of_header (digits_text ds) = Z.to_N (digits_value ds).
Proof. intros ds H1 H2 H3. unfold ttl_of_header. now rewrite (parse_uint16_digits ds H1 H2 H3). Qed.

(* the converse: whatever parse_digits accepts is a digit text *)
Lemma parse_digits_inv : forall s acc v, parse_digits s acc = Some v ->
  exists ds, all_digits ds = true /\ s = digits_text ds /\ v = fold_left (fun a d => a * 10 + Z.of_N d) ds acc.
Proof.
  induction s as [|a r IH]; intros acc v H.
  - exists []. cbn in H. inversion H. repeat split; reflexivity.
  - cbn [parse_digits] in H. destruct (is_digit (byte a)) eqn:D; [|discriminate].
    destruct (IH _ _ H) as [ds [H1 [H2 H3]]].
    unfold is_digit, inr in D. apply andb_prop in D. destruct D as [D1 D2]. apply N.leb_le in D1. apply N.leb_le in D2.
    exists ((byte a - 48)%N :: ds). split; [|split].
    + cbn [all_digits forallb]. fold (all_digits ds). rewrite H1. rewrite andb_true_r. apply N.ltb_lt. lia.
    + cbn [digits_text fold_right]. fold (digits_text ds). rewrite <- H2. f_equal.
      replace (48 + (byte a - 48))%N with (byte a) by lia. unfold byte. now rewrite ascii_N_embedding.
    + cbn [fold_left]. rewrite H3. f_equal. lia.
Qed.

Lemma ttl_header_only_from_numbers_l : forall h, ttl_of_header h <> 0%N ->
  exists ds, ds <> [] /\ all_digits ds = true /\ h = digits_text ds /\ 0 < digits_value ds <= 65535 /\
             ttl_of_header h = Z.to_N (digits_value ds).
Proof.
  intros h H. unfold ttl_of_header in *. unfold parse_uint16 in *.
  destruct h as [|a r]; [congruence|].
  destruct (parse_digits (String a r) 0) as [v|] eqn:P; [|congruence].
  destruct (v <=? 65535) eqn:L; [|congruence]. apply Z.leb_le in L.
  destruct (parse_digits_inv _ _ _ P) as [ds [H1 [H2 H3]]].
  exists ds. fold (digits_value ds) in H3. subst v.
  split; [|split; [exact H1|split; [exact H2|split; [|reflexivity]]]].
  - intro E. subst ds. discriminate H2.
  - split; [|exact L]. destruct (Z.ltb_spec 0 (digits_value ds)) as [G|G]; [exact G|].
    exfalso. apply H. destruct (digits_value ds); try reflexivity. lia.
Qed.

Lemma precision_read_l : forall u, precision_of_query (punit_text u) = Some (punit_ns u).
Proof. destruct u; reflexivity. Qed.

Lemma precision_only_units_l : forall q p, precision_of_query q = Some p -> exists u, q = punit_text u /\ p = punit_ns u.
Proof.
  intros q p H. unfold precision_of_query in H.
  destruct (String.eqb q "") eqn:E0.
  - apply String.eqb_eq in E0. subst q. cbn in H. inversion H. exists PAbsent. split; reflexivity.
  - destruct (String.eqb q "ns") eqn:E1; [apply String.eqb_eq in E1; inversion H; exists PNs; split; [exact E1|reflexivity]|].
    destruct (String.eqb q "us") eqn:E2; [apply String.eqb_eq in E2; inversion H; exists PUs; split; [exact E2|reflexivity]|].
    destruct (String.eqb q "ms") eqn:E3; [apply String.eqb_eq in E3; inversion H; exists PMs; split; [exact E3|reflexivity]|].
    destruct (String.eqb q "s") eqn:E4; [apply String.eqb_eq in E4; inversion H; exists PS; split; [exact E4|reflexivity]|].
    discriminate.
Qed.

Lemma rows_spec_ctx_ttl : forall fp n es, n <> 0%N -> Forall (fun r => r_ttl r = n) (rows_spec fp n es).
Proof.
  intros fp n es Hn. unfold rows_spec. apply Forall_forall. intros r Hin. apply in_map_iff in Hin.
  destruct Hin as [e [He _]]. subst r. unfold row_of, labels_ttl.
  destruct (n =? 0)%N eqn:E; [apply N.eqb_eq in E; congruence|]. reflexivity.
Qed.

Section REQUEST.
  Variable fp : labels -> N.
  Variable enc_len : labels -> Z.
  Variable CS : Type.
  Variable cache_add : CS -> Z -> N -> N -> CS * bool.
  Variable cache0 : CS.
  Variable threshold : Z.
  Variable flush_limit : N.

  Lemma push_request_faithful_l : forall ds b, ds <> [] -> all_digits ds = true -> digits_value ds <= 65535 ->
    exists cs, push_request fp enc_len CS cache_add cache0 threshold flush_limit (digits_text ds) b = Done cs /\
               Forall chunk_rect cs /\ rows_of cs = rows_spec fp (Z.to_N (digits_value ds)) (entries_of b).
  Proof.
    intros ds b H1 H2 H3. unfold push_request. rewrite (ttl_header_read_l ds H1 H2 H3).
    apply decode_faithful_all.
  Qed.

  Lemma push_request_unreadable_l : forall h b,
    (forall ds, ds <> [] -> all_digits ds = true -> digits_value ds <= 65535 -> h <> digits_text ds) ->
    exists cs, push_request fp enc_len CS cache_add cache0 threshold flush_limit h b = Done cs /\
               Forall chunk_rect cs /\ rows_of cs = rows_spec fp 0%N (entries_of b).
  Proof.
    intros h b H. unfold push_request.
    assert (E : ttl_of_header h = 0%N).
    { destruct (N.eq_dec (ttl_of_header h) 0%N) as [E|E]; [exact E|].
      destruct (ttl_header_only_from_numbers_l h E) as [ds [A [B [C [[_ D] _]]]]]. exfalso. exact (H ds A B D C). }
    rewrite E. apply decode_faithful_all.
  Qed.

  Lemma influx_request_faithful_l : forall ds u ck lines, ds <> [] -> all_digits ds = true -> digits_value ds <= 65535 ->
    exists cs, influx_request fp enc_len CS cache_add cache0 threshold flush_limit (digits_text ds) (punit_text u) ck lines
               = Parsed (Done cs) /\
               Forall chunk_rect cs /\
               rows_of cs = rows_spec fp (Z.to_N (digits_value ds)) (entries_influx (punit_ns u) ck lines).
  Proof.
    intros ds u ck lines H1 H2 H3. unfold influx_request. rewrite precision_read_l.
    destruct (push_request_faithful_l ds (BInflux (punit_ns u) ck lines) H1 H2 H3) as [cs [A [B C]]].
    exists cs. rewrite A. split; [reflexivity|split; [exact B|exact C]].
  Qed.

  Lemma influx_request_refused_l : forall h q ck lines, (forall u, q <> punit_text u) ->
    influx_request fp enc_len CS cache_add cache0 threshold flush_limit h q ck lines = Refused400.
  Proof.
    intros h q ck lines H. unfold influx_request. destruct (precision_of_query q) as [p|] eqn:E; [|reflexivity].
    destruct (precision_only_units_l q p E) as [u [A _]]. exfalso. exact (H u A).
  Qed.
End REQUEST.

(* the hypotheses are met by non-trivial values: a header with a leading zero, a unit other than the default *)
Example request_options_example :
  [0%N; 3%N; 0%N] <> [] /\ all_digits [0%N; 3%N; 0%N] = true /\ digits_value [0%N; 3%N; 0%N] <= 65535 /\
  ttl_of_header (digits_text [0%N; 3%N; 0%N]) = 30%N /\ digits_text [0%N; 3%N; 0%N] = "030"%string /\
  precision_of_query (punit_text PMs) = Some 1000000 /\
  ttl_of_header "65536" = 0%N /\ ttl_of_header "+7" = 0%N /\ ttl_of_header "7 " = 0%N /\ ttl_of_header "65535" = 65535%N /\
  precision_of_query "m" = None /\ (forall u, "m"%string <> punit_text u).
Proof.
  repeat (split; [try discriminate; vm_compute; reflexivity|]). intros u. destruct u; discriminate.
Qed.

(* ---------------------------------------------------------------- the Cloudflare-Datadog route *)
Lemma ddsource_of_query_nonempty : forall q, ddsource_of_query q <> EmptyString.
Proof.
  intros q. unfold ddsource_of_query. destruct (String.eqb q "") eqn:E; [discriminate|].
  intro H. rewrite H in E. discriminate.
Qed.

Lemma ddsource_of_query_written : forall q, q <> EmptyString -> ddsource_of_query q = q.
Proof.
  intros q H. unfold ddsource_of_query. destruct (String.eqb q "") eqn:E; [|reflexivity].
  apply String.eqb_eq in E. congruence.
Qed.

Lemma cf_labels_head : forall s l, s <> EmptyString -> exists rest, cf_labels s l = ("ddsource"%string, s) :: rest.
Proof.
  intros s l H. unfold cf_labels. cbn [filter]. unfold nonempty_label at 1. cbn [snd].
  destruct (String.eqb s "") eqn:E; [apply String.eqb_eq in E; congruence|]. cbn [negb]. eexists. reflexivity.
Qed.

Lemma entries_cf_ddsource : forall s ck lines, s <> EmptyString ->
  Forall (fun e => exists rest, e_labels e = ("ddsource"%string, s) :: rest) (entries_cf s ck lines).
Proof.
  intros s ck lines H. unfold entries_cf. apply Forall_forall. intros e Hin. apply in_map_iff in Hin.
  destruct Hin as [p [Hp _]]. subst e. cbn [e_labels]. now apply cf_labels_head.
Qed.

Section CFREQUEST.
  Variable fp : labels -> N.
  Variable enc_len : labels -> Z.
  Variable CS : Type.
  Variable cache_add : CS -> Z -> N -> N -> CS * bool.
  Variable cache0 : CS.
  Variable threshold : Z.
  Variable flush_limit : N.
  Lemma cf_request_faithful_l : forall ds q ck lines, ds <> [] -> all_digits ds = true -> digits_value ds <= 65535 ->
    let src := ddsource_of_query q in
    exists cs, cf_request fp enc_len CS cache_add cache0 threshold flush_limit (digits_text ds) q ck lines = Done cs /\
               Forall chunk_rect cs /\
               rows_of cs = rows_spec fp (Z.to_N (digits_value ds)) (entries_cf src ck lines) /\
               Forall (fun e => exists rest, e_labels e = ("ddsource"%string, src) :: rest) (entries_cf src ck lines) /\
               src <> EmptyString /\ (q <> EmptyString -> src = q).
  Proof.
    intros ds q ck lines H1 H2 H3 src. unfold cf_request.
    destruct (push_request_faithful_l fp enc_len CS cache_add cache0 threshold flush_limit ds (BCf src ck lines) H1 H2 H3) as [cs [A [B C]]].
    exists cs. split; [exact A|split; [exact B|split; [exact C|split; [|split]]]].
    - apply entries_cf_ddsource. apply ddsource_of_query_nonempty.
    - apply ddsource_of_query_nonempty.
    - apply ddsource_of_query_written.
  Qed.
End CFREQUEST.
