(* How far "different label sets get different fingerprints" can be taken (property C04).
   A 64-bit hash of arbitrary label sets cannot be injective; what can be said exactly:
     fingerprint = fin . acc . map lhash,   lhash (n, v) = Hash128to64 (CH64 n, CH64 v),
     acc = (sum, xor, product of 1779033703 + 2h) over the pair hashes, all mod 2^64.
   (1) REDUCTION. On a family F of label lists over a universe U of labels, four collision-freeness facts
       about the hashes suffice (Section hypotheses, nothing else is assumed):
         Hch    CH64 tells the names / values of U apart (as the pair (CH64 name, CH64 value)),
         Hh128  Hash128to64 tells those pairs apart,
         Hacc   the accumulator tells the multisets of pair hashes of F apart,
         Hfin   the final hash (CityHash or Bernstein: any fin) tells the accumulator triples of F apart.
   (2) For one-label sets Hacc is a theorem (acc_single_inj): three facts suffice.
   (3) Hacc is NOT a theorem in general: acc_not_injective gives two different two-element multisets of
       64-bit values with the same (sum, xor, product) - so whether Hacc holds depends on which pair hashes
       the label sets really have; it cannot be discharged by algebra.
   (4) The four facts are not vacuous: real_family_facts shows them on a family of one- and two-label sets
       (including two orders of one set) with the real values of city.CH64 (checked against the code by
       bin/check C04) and the transcribed Hash128to64 / CH64-over-24-bytes / Bernstein. *)
From Coq Require Import List ZArith Lia Permutation String Bool.
From Qryn Require Import model.GoQuote model.Fingerprint model.Labels model.ProtoLabels proofs.FingerprintProofs.
Import ListNotations.
Open Scope Z_scope.

Definition accstep (d : Z * Z * Z) (h : Z) : Z * Z * Z :=
  let '(a, b, c) := d in (w64 (a + h), Z.lxor b h, w64 (c * (1779033703 + 2 * h))).
Definition acc (hs : list Z) : Z * Z * Z := fold_left accstep hs (0, 0, 1).

Lemma determs_acc ch64 h128 l : determs ch64 h128 l = acc (map (lhash ch64 h128) l).
Proof.
  unfold determs, acc. generalize (0, 0, 1). induction l as [|x l IH]; intros d; cbn [fold_left map]; [reflexivity|].
  rewrite IH. f_equal.
Qed.

(* (2) one pair hash is read off the accumulator *)
Lemma acc_single_inj x y : acc [x] = acc [y] -> x = y.
Proof.
  unfold acc. cbn [fold_left accstep]. rewrite !Z.lxor_0_l. intros H.
  apply (f_equal (fun t : Z * Z * Z => snd (fst t))) in H. exact H.
Qed.

(* (3) ... two are not: {2^61 + 2, 4} and {2, 2^61 + 4} *)
Lemma acc_not_injective :
  exists m1 m2 : list Z, Forall (fun h => 0 <= h < M64) (m1 ++ m2) /\ acc m1 = acc m2 /\ ~ Permutation m1 m2.
Proof.
  exists [2305843009213693954; 4], [2; 2305843009213693956]. split; [|split].
  - repeat constructor; unfold M64; lia.
  - vm_compute. reflexivity.
  - intros H. assert (Hin : In 4 [2; 2305843009213693956]).
    { eapply Permutation_in; [exact H|]. right. now left. }
    destruct Hin as [E|[E|[]]]; discriminate E.
Qed.

Lemma map_inj_on {A B} (f : A -> B) (P : A -> Prop) :
  (forall x y, P x -> P y -> f x = f y -> x = y) ->
  forall l1 l2, Forall P l1 -> Forall P l2 -> map f l1 = map f l2 -> l1 = l2.
Proof.
  intros Hf. induction l1 as [|x l1 IH]; intros [|y l2] H1 H2 H; cbn [map] in H; try discriminate H; [reflexivity|].
  inversion H1; subst. inversion H2; subst. injection H as Hxy Hr.
  f_equal; [now apply Hf|now apply IH].
Qed.

Section REDUCTION.
  Variable ch64 : string -> Z.
  Variable h128 : Z -> Z -> Z.
  Variable fin : Z * Z * Z -> Z.
  Variable U : label -> Prop.              (* the labels that occur *)
  Variable F : list label -> Prop.         (* the label lists considered *)
  Hypothesis F_over_U : forall l, F l -> Forall U l.

  Notation lh := (lhash ch64 h128).

  Hypothesis Hch : forall x y, U x -> U y ->
    ch64 (fst x) = ch64 (fst y) -> ch64 (snd x) = ch64 (snd y) -> x = y.
  Hypothesis Hh128 : forall x y, U x -> U y ->
    w64 (h128 (ch64 (fst x)) (ch64 (snd x))) = w64 (h128 (ch64 (fst y)) (ch64 (snd y))) ->
    ch64 (fst x) = ch64 (fst y) /\ ch64 (snd x) = ch64 (snd y).
  Hypothesis Hacc : forall l1 l2, F l1 -> F l2 ->
    acc (map lh l1) = acc (map lh l2) -> Permutation (map lh l1) (map lh l2).
  Hypothesis Hfin : forall l1 l2, F l1 -> F l2 ->
    fin (acc (map lh l1)) = fin (acc (map lh l2)) -> acc (map lh l1) = acc (map lh l2).

  Lemma lhash_inj_on_U x y : U x -> U y -> lh x = lh y -> x = y.
  Proof.
    intros Ux Uy H. unfold lhash in H. destruct (Hh128 x y Ux Uy H) as [H1 H2]. now apply Hch.
  Qed.

  Theorem fingerprint_injective_reduction l1 l2 :
    F l1 -> F l2 -> fingerprint ch64 h128 fin l1 = fingerprint ch64 h128 fin l2 -> Permutation l1 l2.
  Proof.
    intros F1 F2 H. unfold fingerprint in H. rewrite !determs_acc in H.
    apply (Hfin l1 l2 F1 F2) in H. apply (Hacc l1 l2 F1 F2) in H.
    apply Permutation_map_inv in H. destruct H as [l3 [E P]].
    assert (U3 : Forall U l3).
    { apply Forall_forall. intros x Hx. pose proof (F_over_U l2 F2) as U2. rewrite Forall_forall in U2.
      apply U2. eapply Permutation_in; [apply Permutation_sym; exact P|exact Hx]. }
    assert (l1 = l3) by (apply (map_inj_on lh U lhash_inj_on_U l1 l3 (F_over_U l1 F1) U3 E)).
    subst l3. now apply Permutation_sym.
  Qed.

  (* and then the fingerprint identifies the label SET: equal fingerprints iff permutations *)
  Corollary fingerprint_identifies l1 l2 :
    F l1 -> F l2 -> (fingerprint ch64 h128 fin l1 = fingerprint ch64 h128 fin l2 <-> Permutation l1 l2).
  Proof.
    intros F1 F2. split; [now apply fingerprint_injective_reduction|apply fingerprint_perm].
  Qed.
End REDUCTION.

(* (2) as a statement about fingerprints: one-label sets need no fact about the accumulator *)
Lemma fingerprint_injective_single ch64 h128 fin (U : label -> Prop) :
  (forall x y, U x -> U y -> ch64 (fst x) = ch64 (fst y) -> ch64 (snd x) = ch64 (snd y) -> x = y) ->
  (forall x y, U x -> U y ->
     w64 (h128 (ch64 (fst x)) (ch64 (snd x))) = w64 (h128 (ch64 (fst y)) (ch64 (snd y))) ->
     ch64 (fst x) = ch64 (fst y) /\ ch64 (snd x) = ch64 (snd y)) ->
  (forall x y, U x -> U y -> fin (acc [lhash ch64 h128 x]) = fin (acc [lhash ch64 h128 y]) ->
     acc [lhash ch64 h128 x] = acc [lhash ch64 h128 y]) ->
  forall x y, U x -> U y -> fingerprint ch64 h128 fin [x] = fingerprint ch64 h128 fin [y] -> x = y.
Proof.
  intros Hch Hh Hfin x y Ux Uy H. unfold fingerprint in H. rewrite !determs_acc in H. cbn [map] in H.
  apply (Hfin x y Ux Uy) in H. apply acc_single_inj in H. unfold lhash in H.
  destruct (Hh x y Ux Uy H) as [H1 H2]. now apply Hch.
Qed.

(* (4) the facts on a real family. city.CH64 of eleven strings (compared with the code on every run of the check) *)
Definition real_tbl : list (string * Z) :=
  [("app"%string, 12576353548093493342); ("api"%string, 1278387062678664129); ("db"%string, 3655516180604889306);
   ("env"%string, 17939250081907971096); ("prod"%string, 18271293127389077287); ("dev"%string, 12386325532664887238);
   ("a.b"%string, 16101271026004631470); ("a_b"%string, 1091222415523631753); ("x"%string, 5748889492429595544);
   ("type"%string, 14828460315236136068); ("datadog"%string, 18359847025787207198);
   ("v"%string, 1116989248156173354); ("5"%string, 16141698810441253349); ("__ttl_days__"%string, 4989000747779292129)].
Definition rl (a b : string) : label := (a, b).
Definition real_U (x : label) : Prop :=
  x = rl "app" "api" \/ x = rl "app" "db" \/ x = rl "env" "prod" \/ x = rl "env" "dev" \/ x = rl "api" "app".
Definition real_F (l : list label) : Prop :=
  l = [rl "app" "api"; rl "env" "prod"] \/ l = [rl "env" "prod"; rl "app" "api"] \/
  l = [rl "app" "api"; rl "env" "dev"] \/ l = [rl "app" "db"] \/ l = [rl "api" "app"] \/ l = [].

Lemma real_F_over_U l : real_F l -> Forall real_U l.
Proof.
  unfold real_F, real_U, rl. intros [-> | [-> | [-> | [-> | [-> | ->]]]]]; repeat constructor; tauto.
Qed.

Ltac real_cases H :=
  try reflexivity; try apply Permutation_refl; try apply perm_swap;
  try (vm_compute in H; discriminate H);
  try (vm_compute in H; destruct H as [H _]; discriminate H).

Lemma real_family_facts :
  let ch := tbl_ch64 real_tbl in
  let lh := lhash ch hash128to64 in
  (forall x y, real_U x -> real_U y -> ch (fst x) = ch (fst y) -> ch (snd x) = ch (snd y) -> x = y) /\
  (forall x y, real_U x -> real_U y ->
     w64 (hash128to64 (ch (fst x)) (ch (snd x))) = w64 (hash128to64 (ch (fst y)) (ch (snd y))) ->
     ch (fst x) = ch (fst y) /\ ch (snd x) = ch (snd y)) /\
  (forall l1 l2, real_F l1 -> real_F l2 -> acc (map lh l1) = acc (map lh l2) -> Permutation (map lh l1) (map lh l2)) /\
  (forall l1 l2, real_F l1 -> real_F l2 -> fin24 (acc (map lh l1)) = fin24 (acc (map lh l2)) -> acc (map lh l1) = acc (map lh l2)) /\
  (forall l1 l2, real_F l1 -> real_F l2 -> fin_djb (acc (map lh l1)) = fin_djb (acc (map lh l2)) -> acc (map lh l1) = acc (map lh l2)).
Proof.
  cbv zeta. unfold real_U, real_F, rl. split; [|split; [|split; [|split]]].
  - intros x y [-> | [-> | [-> | [-> | ->]]]] [-> | [-> | [-> | [-> | ->]]]] H1 H2; real_cases H1; real_cases H2.
  - intros x y [-> | [-> | [-> | [-> | ->]]]] [-> | [-> | [-> | [-> | ->]]]] H; split; real_cases H.
  - intros l1 l2 [-> | [-> | [-> | [-> | [-> | ->]]]]] [-> | [-> | [-> | [-> | [-> | ->]]]]] H; real_cases H.
  - intros l1 l2 [-> | [-> | [-> | [-> | [-> | ->]]]]] [-> | [-> | [-> | [-> | [-> | ->]]]]] H; real_cases H.
  - intros l1 l2 [-> | [-> | [-> | [-> | [-> | ->]]]]] [-> | [-> | [-> | [-> | [-> | ->]]]]] H; real_cases H.
Qed.

(* hence, on that family, under both fingerprint types: equal fingerprints exactly for the two orders of one set *)
Lemma real_family_injective :
  forall l1 l2, real_F l1 -> real_F l2 ->
  (fingerprint_tbl real_tbl l1 = fingerprint_tbl real_tbl l2 <-> Permutation l1 l2) /\
  (fingerprint_djb_tbl real_tbl l1 = fingerprint_djb_tbl real_tbl l2 <-> Permutation l1 l2).
Proof.
  intros l1 l2 F1 F2. destruct real_family_facts as [A [B [C [D E]]]].
  split; apply (fingerprint_identifies _ _ _ real_U real_F real_F_over_U A B C); assumption.
Qed.

Example real_family_nontrivial :
  real_F [rl "app" "api"; rl "env" "prod"] /\ real_F [rl "env" "prod"; rl "app" "api"] /\
  [rl "app" "api"; rl "env" "prod"] <> [rl "env" "prod"; rl "app" "api"] /\
  fingerprint_tbl real_tbl [rl "app" "api"; rl "env" "prod"] = fingerprint_tbl real_tbl [rl "env" "prod"; rl "app" "api"] /\
  fingerprint_tbl real_tbl [rl "app" "api"; rl "env" "prod"] <> fingerprint_tbl real_tbl [rl "app" "api"; rl "env" "dev"].
Proof.
  unfold real_F. split; [tauto|]. split; [tauto|]. split; [discriminate|]. split; [vm_compute; reflexivity|vm_compute; discriminate].
Qed.

(* ------------------------------------------------------------------ the open finding, on the model with real hash values:
   the Datadog decoder does not sanitize. The request with ddtags "a.b:x" and the Loki push of {a.b="x", type="datadog"}
   have the same sanitized label set and different fingerprints (of either type): two series for one label set. *)
Definition w_dd : wire := WDatadogLogs [("a.b", "x")]%string "" "" "" "".
Definition w_loki : wire := WSanitized LokiJsonStream [("a.b", "x"); ("type", "datadog")]%string.
Lemma unsanitizing_decoder_splits_series :
  Labels.sanitize (wire_labels w_dd) = wire_labels w_loki /\
  wire_fp (tbl_ch64 real_tbl) hash128to64 fin24 0 w_dd <> wire_fp (tbl_ch64 real_tbl) hash128to64 fin24 0 w_loki /\
  wire_fp (tbl_ch64 real_tbl) hash128to64 fin_djb 0 w_dd <> wire_fp (tbl_ch64 real_tbl) hash128to64 fin_djb 0 w_loki.
Proof. split; [reflexivity|]. split; vm_compute; discriminate. Qed.
