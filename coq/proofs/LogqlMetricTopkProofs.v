(* C08, round 5: facts about TopKPlanner's order and about the enumeration of kept sets used to judge topk / bottomk under a step
   longer than the range (model/LogqlMetricExec.v: splits_n, topk_sets). *)
From Coq Require Import List ZArith NArith QArith Qcanon String Bool Lia Permutation.
From Qryn Require Import lib.Strs model.Sql model.Logql model.LogqlPlan model.LogqlMetricSem model.LogqlMetricExec proofs.LogqlMetricProofs.
Import ListNotations.

(* TopKPlanner sorts the tuples (value, fingerprint, labels) - topk by the key (-value, fingerprint, labels), bottomk the bare tuples.
   The third component is a Map; what ClickHouse does when a sort has to compare two Map values is not part of its documentation
   (the implementation compares the underlying arrays of (key, value) pairs in stored order). It never gets that far: the rows of one
   timestamp come from a select grouped by (fingerprint, timestamp), so their fingerprints are pairwise distinct, and on such a group
   the order on the first two components is already strict - two distinct rows never tie on (value, fingerprint). *)
Lemma tk_order_strict top (g : list mrow) :
  (forall a b, List.In a g -> List.In b g -> r_fp a = r_fp b -> a = b) ->
  forall a b, List.In a g -> List.In b g -> a <> b -> tk_before top a b = true -> tk_before top b a = false.
Proof.
  intros Hd a b Ha Hb Hab H1. destruct (tk_before top b a) eqn:H2; [exfalso|reflexivity].
  rewrite tk_before_char in H1, H2. rewrite (qcompare_antisym (tk_key top a) (tk_key top b)) in H2.
  destruct (tk_key top a ?= tk_key top b)%Qc eqn:E; cbn in H1, H2; try discriminate.
  apply N.leb_le in H1. apply N.leb_le in H2. apply Hab, (Hd a b Ha Hb). lia.
Qed.
Example tk_order_strict_hyp :
  let a := {| r_fp := 1%N; r_ts := 0%Z; r_labels := [("a", "b")]; r_line := ""; r_val := Q2Qc 1 |} in
  let b := {| r_fp := 2%N; r_ts := 0%Z; r_labels := [("a", "c")]; r_line := ""; r_val := Q2Qc 1 |} in
  (forall x y, List.In x [a; b] -> List.In y [a; b] -> r_fp x = r_fp y -> x = y) /\ a <> b /\ tk_before true a b = true.
Proof.
  cbn. split; [|split; [discriminate|reflexivity]].
  intros x y [<-|[<-|[]]] [<-|[<-|[]]]; cbn; intros E; try reflexivity; discriminate.
Qed.

(* every split the enumeration produces keeps n rows and is a rearrangement of the group *)
Lemma splits_n_sound {A : Type} (l : list A) : forall n a b, List.In (a, b) (splits_n n l) -> List.length a = n /\ Permutation (a ++ b) l.
Proof.
  induction l as [|x r IH]; intros n a b H.
  - destruct n; cbn in H; [|contradiction]. destruct H as [E|[]]. inversion E. split; [reflexivity|constructor].
  - destruct n as [|n']; cbn [splits_n] in H.
    + destruct H as [E|[]]. inversion E. split; [reflexivity|apply Permutation_refl].
    + apply in_app_or in H. destruct H as [H|H]; apply in_map_iff in H; destruct H as [[a' b'] [E H]]; cbn in E; inversion E; subst a b.
      * destruct (IH n' a' b' H) as [L P]. split; [cbn; now rewrite L|cbn; now constructor].
      * destruct (IH (S n') a' b' H) as [L P]. split; [exact L|].
        apply Permutation_trans with (x :: a' ++ b'); [apply Permutation_sym, Permutation_middle|now constructor].
Qed.
(* ... and every way of keeping a subsequence of n rows is among them *)
Inductive split_of {A : Type} : list A -> list A -> list A -> Prop :=
| so_nil : split_of [] [] []
| so_keep x l a b : split_of l a b -> split_of (x :: l) (x :: a) b
| so_drop x l a b : split_of l a b -> split_of (x :: l) a (x :: b).
Lemma splits_n_complete {A : Type} (l a b : list A) : split_of l a b -> List.In (a, b) (splits_n (List.length a) l).
Proof.
  induction 1 as [|x l a b H IH|x l a b H IH].
  - now left.
  - cbn [List.length splits_n]. apply in_or_app. left. apply in_map_iff. exists (a, b). split; [reflexivity|exact IH].
  - destruct a as [|y a'].
    + cbn [List.length splits_n]. destruct l; cbn in IH.
      * destruct IH as [E|[]]. inversion E. now left.
      * destruct IH as [E|[]]. inversion E. now left.
    + cbn [List.length splits_n]. cbn [List.length] in IH. apply in_or_app. right. apply in_map_iff. exists (y :: a', b). split; [reflexivity|exact IH].
Qed.

(* a kept set of the enumeration is a top-(bottom-)k set of the group: min(k, n) rows of it, and no row left out beats a kept one *)
Lemma topk_sets_sound k top (I K : list vrow) : List.In K (topk_sets k top I) ->
  exists D, Permutation (K ++ D) I /\ Z.of_nat (List.length K) = Z.min (Z.max k 0) (Z.of_nat (List.length I)) /\
            forall x d, List.In x K -> List.In d D -> if top then Qle_bool (this (v_val d)) (this (v_val x)) = true else Qle_bool (this (v_val x)) (this (v_val d)) = true.
Proof.
  unfold topk_sets. intros H. apply in_map_iff in H. destruct H as [[K' D] [E H]]. cbn in E. subst K'.
  apply filter_In in H. destruct H as [H V]. apply splits_n_sound in H. destruct H as [L P]. cbn [fst snd] in V.
  exists D. split; [exact P|]. split; [rewrite L; apply Z2Nat.id; lia|].
  intros x d Hx Hd. rewrite forallb_forall in V. specialize (V d Hd). rewrite forallb_forall in V. specialize (V x Hx).
  destruct top; exact V.
Qed.
Example topk_sets_example :
  let r l v := {| v_labels := [("a", l)]; v_ts := 0%Z; v_val := Q2Qc v |} in
  map (map (fun x => this (v_val x))) (topk_sets 2 true [r "x" (3#1); r "y" (1#1); r "z" (3#1); r "w" (1#1)]) = [[(3#1)%Q; (3#1)%Q]] /\
  List.length (topk_sets 1 true [r "x" (3#1); r "y" (1#1); r "z" (3#1)]) = 2%nat.
Proof. split; vm_compute; reflexivity. Qed.
