(* C10, round 7 (seeded C10-g): a statement template with named placeholders filled by SUCCESSIVE strings.ReplaceAll calls.
   replace_all = model/Quote.v's strings.Replace(s, old, new, -1) (tied to the code through the escape table of StringVal.String). *)
From Coq Require Import List String Ascii Bool Lia.
From Qryn Require Import model.Quote model.ChLex.
Import ListNotations.
Open Scope string_scope.

(* the text has no byte c *)
Fixpoint lacks (c : ascii) (s : string) : bool :=
  match s with EmptyString => true | String x r => negb (Ascii.eqb x c) && lacks c r end.

Lemma prefix_first_byte : forall c o x r, Ascii.eqb x c = false -> prefix (String c o) (String x r) = false.
Proof.
  intros c o x r H. cbn. destruct (ascii_dec c x) as [E|E]; [|reflexivity].
  subst. rewrite Ascii.eqb_refl in H. discriminate.
Qed.

(* a replacement passes over text that lacks the first byte of its search string *)
Lemma repl_passes_text : forall c o new a s, lacks c a = true ->
  repl (String c o) new 0 (a ++ s) = a ++ repl (String c o) new 0 s.
Proof.
  induction a as [|x r IH]; intros s H; [reflexivity|].
  cbn [lacks] in H. apply andb_true_iff in H. destruct H as [Hx Hr]. apply negb_true_iff in Hx.
  change ((String x r) ++ s) with (String x (r ++ s)).
  cbn [repl]. rewrite (prefix_first_byte c o x (r ++ s) Hx). rewrite (IH s Hr). reflexivity.
Qed.

Lemma app_nil_r_string : forall s : string, s ++ "" = s.
Proof. induction s as [|x r IH]; cbn; [reflexivity|now rewrite IH]. Qed.

Lemma repl_nil : forall old new k, repl old new k "" = "".
Proof. intros. destruct k; reflexivity. Qed.

(* ... and leaves it alone: a later substitution cannot touch a value that lacks the opening byte of the placeholder *)
Lemma replace_all_leaves_text_alone : forall c o new a, lacks c a = true -> replace_all (String c o) new a = a.
Proof.
  intros c o new a H. unfold replace_all.
  rewrite <- (app_nil_r_string a) at 1.
  rewrite repl_passes_text by exact H. cbn. 
  now rewrite app_nil_r_string.
Qed.

(* ---- the seed's shape: the template of the `| regexp` stage, named placeholders, filled in the order col, re, labels, id *)
Definition fill (tpl : string) (subs : list (string * string)) : string := esc_seq subs tpl.

(* the constant regexMapSql of the seeded change, byte for byte *)
Definition regex_tpl : string :=
  "mapFromArrays(arrayFilter( (x,y) -> x != '' AND y != '',  [{labels}] as re_lbls_{id},  arrayMap(x -> x[1], extractAllGroupsHorizontal({col}, {re})) as re_vals_{id}),arrayFilter((x,y) -> x != '' AND y != '', re_vals_{id}, re_lbls_{id}))".

(* successive strings.ReplaceAll (seeded C10-g) *)
Definition regex_fill_seq (col re labels id : string) : string :=
  fill regex_tpl [("{col}", col); ("{re}", quote_seq re); ("{labels}", labels); ("{id}", id)].

(* the code as it stands: one fmt.Sprintf with a constant format = concatenation (props/C10.v constant_format_is_concatenation) *)
Definition regex_fill_text (col re labels id : string) : string :=
  "mapFromArrays(arrayFilter( (x,y) -> x != '' AND y != '',  [" ++ labels ++ "] as re_lbls_" ++ id ++
  ",  arrayMap(x -> x[1], extractAllGroupsHorizontal(" ++ col ++ ", " ++ quote_seq re ++ ")) as re_vals_" ++ id ++
  "),arrayFilter((x,y) -> x != '' AND y != '', re_vals_" ++ id ++ ", re_lbls_" ++ id ++ "))".

Definition lb : ascii := "{"%char.

Ltac walk := repeat first [ rewrite repl_passes_text by assumption | rewrite repl_nil | progress cbn ].

(* for operands without an opening brace the successive fill IS the concatenation ... *)
Lemma successive_fill_is_the_text_without_braces : forall col re labels id,
  lacks lb col = true -> lacks lb (quote_seq re) = true -> lacks lb labels = true -> lacks lb id = true ->
  regex_fill_seq col re labels id = regex_fill_text col re labels id.
Proof.
  intros col re labels id Hc Hr Hl Hi.
  unfold regex_fill_seq, regex_fill_text, fill, esc_seq, regex_tpl. cbn [fold_left fst snd].
  remember (quote_seq re) as q.
  unfold replace_all.
  walk. reflexivity.
Qed.

(* ... and for no others: the seed's witness.  The expression {labels} between two named groups: the later substitution of {labels} puts
   the quoted list of group names INSIDE the request's literal; the statement still lexes, with another token skeleton than for the
   harmless marker in the same position, while the text written by the code as it stands keeps its skeleton *)
Definition groups : string := "'or','Or'".
Definition expr (v : string) : string := "(\d+)" ++ v ++ "(\w+)".

Lemma successive_fill_refuted :
  exists v,
    has_err (lex (regex_fill_seq "string" (expr v) groups "1")) = false /\
    skeleton (lex (regex_fill_seq "string" (expr v) groups "1")) <> skeleton (lex (regex_fill_seq "string" (expr "zqxmark") groups "1")) /\
    skeleton (lex (regex_fill_text "string" (expr v) groups "1")) = skeleton (lex (regex_fill_text "string" (expr "zqxmark") groups "1")).
Proof.
  exists "{labels}". split; [vm_compute; reflexivity|]. split; [|vm_compute; reflexivity].
  vm_compute. discriminate.
Qed.

(* {id}: one literal still, decoding to other bytes than the request's *)
Lemma successive_fill_changes_values :
  regex_fill_seq "string" "a{id}b" groups "1" = regex_fill_text "string" "a1b" groups "1".
Proof. vm_compute. reflexivity. Qed.

(* the hypotheses of successive_fill_is_the_text_without_braces are met by real values (quotes, backslashes, percent signs included) *)
Example successive_fill_example :
  lacks lb "string" = true /\ lacks lb (quote_seq "(\\d+)'%s\\") = true /\ lacks lb groups = true /\ lacks lb "1" = true /\
  regex_fill_seq "string" "(\\d+)'%s\\" groups "1" = regex_fill_text "string" "(\\d+)'%s\\" groups "1".
Proof. repeat split; vm_compute; reflexivity. Qed.
