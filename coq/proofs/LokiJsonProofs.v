(* Proofs about model/LokiJson.v: a push document written in the canonical layouts is walked into exactly the streams it was
   written from. *)
From Coq Require Import List ZArith NArith Bool Ascii String Lia.
From Qryn Require Import gen.DecodeConsts model.Decode model.LokiLabels model.LokiTime model.LokiJson proofs.LokiTimeProofs.
Import ListNotations.
Open Scope Z_scope.

Lemma all_some_map : forall (A B C : Type) (f : B -> option C) (g : A -> B) (h : A -> C) (l : list A),
  (forall x, In x l -> f (g x) = Some (h x)) -> all_some f (map g l) = Some (map h l).
Proof.
  intros A B C f g h. induction l as [|x l IH]; intro H; [reflexivity|].
  cbn [map all_some]. rewrite (H x (or_introl eq_refl)). rewrite IH; [reflexivity|].
  intros y Hy. apply H. right. exact Hy.
Qed.

(* a values element as written: sign, digits, line, optional number *)
Definition wvalue := (bool * list N * string * option N)%type.
Definition wvalue_ok (w : wvalue) : Prop :=
  let '(neg, ds, _, _) := w in
  ds <> [] /\ all_digits ds = true /\ - 9223372036854775808 <= int_value neg ds < 9223372036854775808.
(* ints: whether the text of the number is an integer literal, and which *)
Definition wvalue_doc (ints : N -> option Z) (rest : list jv) (w : wvalue) : jv :=
  let '(neg, ds, line, v) := w in
  JArr ([JStr (int_text neg ds); JStr line] ++ match v with Some b => JNum b (ints b) :: rest | None => [] end).
Definition wvalue_entry (w : wvalue) : lentry :=
  let '(neg, ds, line, v) := w in LE (int_value neg ds) (Some line) v.

Lemma value_positions_tail : forall rest e, value_positions 3 rest e = Some e.
Proof. induction rest as [|v r IH]; intro e; [reflexivity|]. cbn [value_positions]. apply IH. Qed.

Lemma value_entry_written : forall ints rest w, wvalue_ok w -> value_entry (wvalue_doc ints rest w) = Some (wvalue_entry w).
Proof.
  intros ints rest [[[neg ds] line] v] [Hne [Hd Hr]]. unfold value_entry, wvalue_doc, wvalue_entry.
  cbn [app value_positions]. rewrite (parse_int64_int_text neg ds Hne Hd Hr). unfold upd_entry. cbn [le_line le_val le_ts].
  destruct v as [b|]; cbn [value_positions le_ts le_line le_val]; [apply value_positions_tail | reflexivity].
Qed.

Section DOC.
  Variable uletter udigit : string -> bool.
  Variable rfc : string -> option Z.
  Variable ints : N -> option Z.

  Definition wstream := (labels * list wvalue)%type.
  Definition wstream_doc (rest : list jv) (s : wstream) : jv :=
    JObj [("stream"%string, JObj (map (fun kv => (fst kv, JStr (snd kv))) (fst s)));
          ("values"%string, JArr (map (wvalue_doc ints rest) (snd s)))].
  Definition wstream_stream (s : wstream) : lstream := LS (fst s) (map wvalue_entry (snd s)).
  Definition push_doc (rest : list jv) (ws : list wstream) : jv := JObj [("streams"%string, JArr (map (wstream_doc rest) ws))].

  Lemma stream_labels_written : forall l : labels, stream_labels (JObj (map (fun kv => (fst kv, JStr (snd kv))) l)) = Some l.
  Proof.
    intro l. unfold stream_labels.
    rewrite (all_some_map _ _ _ _ (fun kv : string * string => (fst kv, JStr (snd kv))) (fun kv => kv)).
    - rewrite map_id. reflexivity.
    - intros [k v] _. reflexivity.
  Qed.

  Lemma stream_object_written : forall rest s, Forall wvalue_ok (snd s) ->
    stream_object uletter udigit rfc (wstream_doc rest s) = Some (members_of (wstream_stream s)).
  Proof.
    intros rest [l vs] H. unfold stream_object, wstream_doc, members_of, wstream_stream. cbn [fst snd ls_labels ls_entries].
    cbn [stream_members stream_member]. change (String.eqb "stream" "stream") with true. cbv iota.
    rewrite stream_labels_written. cbn [option_map].
    change (String.eqb "values" "stream") with false. change (String.eqb "values" "labels") with false.
    change (String.eqb "values" "values") with true. cbv iota.
    rewrite (all_some_map _ _ _ value_entry (wvalue_doc ints rest) wvalue_entry).
    - reflexivity.
    - intros w Hw. apply value_entry_written. rewrite Forall_forall in H. exact (H w Hw).
  Qed.

  Lemma push_members_written_l : forall rest ws, Forall (fun s => Forall wvalue_ok (snd s)) ws ->
    push_members uletter udigit rfc (push_doc rest ws) = Some (map (fun s => members_of (wstream_stream s)) ws).
  Proof.
    intros rest ws H. unfold push_members, push_doc. cbn [top_members]. change (String.eqb "streams" "streams") with true. cbv iota.
    rewrite (all_some_map _ _ _ (stream_object uletter udigit rfc) (wstream_doc rest) (fun s => members_of (wstream_stream s))).
    - rewrite app_nil_r. reflexivity.
    - intros s Hs. apply stream_object_written. rewrite Forall_forall in H. exact (H s Hs).
  Qed.
End DOC.

(* an entries element as written: key (ts or timestamp), timestamp text, optional line, optional number *)
Section ENTRIES.
  Variable uletter udigit : string -> bool.
  Variable rfc : string -> option Z.
  Definition wentry := (bool * string * option string * option N)%type.
  Definition wentry_doc (w : wentry) : jv :=
    let '(long, t, line, v) := w in
    JObj (((if long then "timestamp" else "ts")%string, JStr t)
          :: (match line with Some l => [("line"%string, JStr l)] | None => [] end)
          ++ (match v with Some b => [("value"%string, JNum b None)] | None => [] end)).
  Definition wentry_ts (w : wentry) : option Z := let '(_, t, _, _) := w in parse_time rfc t.
  Definition wentry_entry (ts : Z) (w : wentry) : lentry := let '(_, _, line, v) := w in LE ts line v.

  Lemma entry_entry_written : forall w ts, wentry_ts w = Some ts -> entry_entry rfc (wentry_doc w) = Some (wentry_entry ts w).
  Proof.
    intros [[[long t] line] v] ts H. unfold wentry_ts in H. unfold entry_entry, wentry_doc, wentry_entry.
    destruct long, line as [l|], v as [b|]; cbn; rewrite H; reflexivity.
  Qed.
End ENTRIES.
