(* Proofs about model/LokiJson.v: a push document written in the canonical layouts is walked into exactly the streams it was
   written from. *)
From Coq Require Import List ZArith NArith Bool Ascii String Lia Permutation Arith.
From Qryn Require Import gen.DecodeConsts model.Decode model.LokiLabels model.LokiTime model.LokiJson proofs.LokiTimeProofs.
Import ListNotations.
Open Scope Z_scope.

Lemma all_some_map : forall (A B C : Type) (f : B -> option C) (g : A -> B) (h : A -> C) (l : list A),
  (forall x, In x l -> f (g x) = Some (h x)) -> all_some f (map g l) = Some (map h l).
Proof.
  intros A B C f g h. induction l as [|x l IH]; intro H; [reflexivity|].
  cbn [map all_some]. rewrite (H x (or_introl eq_refl)). rewrite IH; [reflexivity|].
  intros y Hy. apply H. right. exact Hy.
Qed.

(* a values element as written: sign, digits, line, optional number *)
Definition wvalue := (bool * list N * string * option N)%type.
Definition wvalue_ok (w : wvalue) : Prop :=
  let '(neg, ds, _, _) := w in
  ds <> [] /\ all_digits ds = true /\ - 9223372036854775808 <= int_value neg ds < 9223372036854775808.
(* ints: whether the text of the number is an integer literal, and which *)
Definition wvalue_doc (ints : N -> option Z) (rest : list jv) (w : wvalue) : jv :=
  let '(neg, ds, line, v) := w in
  JArr ([JStr (int_text neg ds); JStr line] ++ match v with Some b => JNum b (ints b) :: rest | None => [] end).
Definition wvalue_entry (w : wvalue) : lentry :=
  let '(neg, ds, line, v) := w in LE (int_value neg ds) (Some line) v.

Lemma value_positions_tail : forall rest e, value_positions 3 rest e = Some e.
Proof. induction rest as [|v r IH]; intro e; [reflexivity|]. cbn [value_positions]. apply IH. Qed.

Lemma value_entry_written : forall ints rest w, wvalue_ok w -> value_entry (wvalue_doc ints rest w) = Some (wvalue_entry w).
Proof.
  intros ints rest [[[neg ds] line] v] [Hne [Hd Hr]]. unfold value_entry, wvalue_doc, wvalue_entry.
  cbn [app value_positions]. rewrite (parse_int64_int_text neg ds Hne Hd Hr). unfold upd_entry. cbn [le_line le_val le_ts].
  destruct v as [b|]; cbn [value_positions le_ts le_line le_val]; [apply value_positions_tail | reflexivity].
Qed.

Section DOC.
  Variable uletter udigit : string -> bool.
  Variable rfc : string -> option Z.
  Variable ints : N -> option Z.

  Definition wstream := (labels * list wvalue)%type.
  Definition wstream_doc (rest : list jv) (s : wstream) : jv :=
    JObj [("stream"%string, JObj (map (fun kv => (fst kv, JStr (snd kv))) (fst s)));
          ("values"%string, JArr (map (wvalue_doc ints rest) (snd s)))].
  Definition wstream_stream (s : wstream) : lstream := LS (fst s) (map wvalue_entry (snd s)).
  Definition push_doc (rest : list jv) (ws : list wstream) : jv := JObj [("streams"%string, JArr (map (wstream_doc rest) ws))].

  Lemma stream_labels_written : forall l : labels, stream_labels (JObj (map (fun kv => (fst kv, JStr (snd kv))) l)) = Some l.
  Proof.
    intro l. unfold stream_labels.
    rewrite (all_some_map _ _ _ _ (fun kv : string * string => (fst kv, JStr (snd kv))) (fun kv => kv)).
    - rewrite map_id. reflexivity.
    - intros [k v] _. reflexivity.
  Qed.

  Lemma stream_object_written : forall rest s, Forall wvalue_ok (snd s) ->
    stream_object uletter udigit rfc (wstream_doc rest s) = Some (members_of (wstream_stream s)).
  Proof.
    intros rest [l vs] H. unfold stream_object, wstream_doc, members_of, wstream_stream. cbn [fst snd ls_labels ls_entries].
    cbn [stream_members stream_member]. change (String.eqb "stream" "stream") with true. cbv iota.
    rewrite stream_labels_written. cbn [option_map].
    change (String.eqb "values" "stream") with false. change (String.eqb "values" "labels") with false.
    change (String.eqb "values" "values") with true. cbv iota.
    rewrite (all_some_map _ _ _ value_entry (wvalue_doc ints rest) wvalue_entry).
    - reflexivity.
    - intros w Hw. apply value_entry_written. rewrite Forall_forall in H. exact (H w Hw).
  Qed.

  Lemma push_members_written_l : forall rest ws, Forall (fun s => Forall wvalue_ok (snd s)) ws ->
    push_members uletter udigit rfc (push_doc rest ws) = Some (map (fun s => members_of (wstream_stream s)) ws).
  Proof.
    intros rest ws H. unfold push_members, push_doc. cbn [top_members]. change (String.eqb "streams" "streams") with true. cbv iota.
    rewrite (all_some_map _ _ _ (stream_object uletter udigit rfc) (wstream_doc rest) (fun s => members_of (wstream_stream s))).
    - rewrite app_nil_r. reflexivity.
    - intros s Hs. apply stream_object_written. rewrite Forall_forall in H. exact (H s Hs).
  Qed.
End DOC.

(* an entries element as written: key (ts or timestamp), timestamp text, optional line, optional number *)
Section ENTRIES.
  Variable uletter udigit : string -> bool.
  Variable rfc : string -> option Z.
  Definition wentry := (bool * string * option string * option N)%type.
  Definition wentry_doc (w : wentry) : jv :=
    let '(long, t, line, v) := w in
    JObj (((if long then "timestamp" else "ts")%string, JStr t)
          :: (match line with Some l => [("line"%string, JStr l)] | None => [] end)
          ++ (match v with Some b => [("value"%string, JNum b None)] | None => [] end)).
  Definition wentry_ts (w : wentry) : option Z := let '(_, t, _, _) := w in parse_time rfc t.
  Definition wentry_entry (ts : Z) (w : wentry) : lentry := let '(_, _, line, v) := w in LE ts line v.

  Lemma entry_entry_written : forall w ts, wentry_ts w = Some ts -> entry_entry rfc (wentry_doc w) = Some (wentry_entry ts w).
  Proof.
    intros [[[long t] line] v] ts H. unfold wentry_ts in H. unfold entry_entry, wentry_doc, wentry_entry.
    destruct long, line as [l|], v as [b|]; cbn; rewrite H; reflexivity.
  Qed.
End ENTRIES.

(* ---------------------------------------------------------------- key order inside an "entries" element *)
Section ENTRY_ORDER.
  Variable rfc : string -> option Z.
  Definition is_ts_key (k : string) : bool := String.eqb k "ts" || String.eqb k "timestamp".
  (* the slot a key writes: 1 timestamp (either spelling), 2 line, 3 value, 0 none (skipped) *)
  Definition eslot (k : string) : nat :=
    if is_ts_key k then 1%nat else if String.eqb k "line" then 2%nat else if String.eqb k "value" then 3%nat else 0%nat.
  Definition estep (e : lentry) (kv : string * jv) : option lentry :=
    let '(k, v) := kv in
    if is_ts_key k then match v with JStr s => option_map (upd_entry e) (parse_time rfc s) | _ => None end
    else if String.eqb k "line" then match v with JStr s => Some (LE (le_ts e) (Some s) (le_val e)) | _ => None end
    else if String.eqb k "value" then match v with JNum b _ => Some (LE (le_ts e) (le_line e) (Some b)) | _ => None end
    else Some e.
  Lemma entry_members_cons kv r e :
    entry_members rfc (kv :: r) e = match estep e kv with Some e' => entry_members rfc r e' | None => None end.
  Proof.
    destruct kv as [k v]. cbn [entry_members]. unfold estep, is_ts_key.
    destruct (String.eqb k "ts" || String.eqb k "timestamp").
    - destruct v; try reflexivity. destruct (parse_time rfc s); reflexivity.
    - destruct (String.eqb k "line"); [destruct v; reflexivity|].
      destruct (String.eqb k "value"); [destruct v; reflexivity|reflexivity].
  Qed.

  Definition obind {A B} (o : option A) (f : A -> option B) : option B := match o with Some x => f x | None => None end.
  Lemma estep_comm e x y : (eslot (fst x) <> eslot (fst y) \/ eslot (fst x) = 0%nat) ->
    obind (estep e x) (fun e1 => estep e1 y) = obind (estep e y) (fun e1 => estep e1 x).
  Proof.
    destruct x as [kx vx], y as [ky vy]. unfold estep, eslot, obind. cbn [fst].
    destruct (is_ts_key kx), (String.eqb kx "line"), (String.eqb kx "value"), (is_ts_key ky), (String.eqb ky "line"), (String.eqb ky "value");
      intros [H|H]; try congruence; try discriminate H;
      destruct vx; try reflexivity; destruct vy; try reflexivity;
      repeat match goal with |- context [parse_time rfc ?s] => destruct (parse_time rfc s) end; reflexivity.
  Qed.

  (* the keys of each slot occur at most once *)
  Definition slots_once (ms : list (string * jv)) : Prop :=
    forall s, s <> 0%nat -> (count_occ Nat.eq_dec (map (fun kv => eslot (fst kv)) ms) s <= 1)%nat.

  Lemma slots_once_tail x ms : slots_once (x :: ms) -> slots_once ms.
  Proof.
    intros H s Hs. specialize (H s Hs). cbn [map] in H.
    destruct (Nat.eq_dec (eslot (fst x)) s) as [E|E].
    - rewrite (count_occ_cons_eq _ _ E) in H. lia.
    - rewrite (count_occ_cons_neq _ _ E) in H. exact H.
  Qed.

  Lemma slots_once_perm a b : Permutation a b -> slots_once a -> slots_once b.
  Proof.
    intros HP H s Hs. specialize (H s Hs).
    assert (HP' : Permutation (map (fun kv => eslot (fst kv)) a) (map (fun kv => eslot (fst kv)) b)) by (apply Permutation_map; exact HP).
    rewrite (Permutation_count_occ Nat.eq_dec) in HP'. rewrite <- HP'. exact H.
  Qed.

  Lemma entry_members_perm : forall a b, Permutation a b -> slots_once a -> forall e, entry_members rfc a e = entry_members rfc b e.
  Proof.
    induction 1 as [|x l l' HP IH|x y l|l l' l'' HP1 IH1 HP2 IH2]; intros Hs e.
    - reflexivity.
    - rewrite !entry_members_cons. destruct (estep e x); [apply IH; eapply slots_once_tail; exact Hs|reflexivity].
    - rewrite !entry_members_cons.
      assert (Hc : eslot (fst y) <> eslot (fst x) \/ eslot (fst y) = 0%nat).
      { destruct (Nat.eq_dec (eslot (fst y)) 0) as [Z0|NZ]; [now right|left].
        intro E. specialize (Hs (eslot (fst y)) NZ). cbn [map] in Hs.
        rewrite (count_occ_cons_eq _ _ eq_refl) in Hs. rewrite (count_occ_cons_eq _ _ (eq_sym E)) in Hs. lia. }
      pose proof (estep_comm e y x Hc) as C. unfold obind in C.
      destruct (estep e y) as [e1|] eqn:E1; destruct (estep e x) as [e2|] eqn:E2.
      + rewrite !entry_members_cons. destruct (estep e1 x) as [e3|]; destruct (estep e2 y) as [e4|]; try congruence.
      + rewrite entry_members_cons. rewrite C. reflexivity.
      + rewrite entry_members_cons. rewrite <- C. reflexivity.
      + reflexivity.
    - rewrite (IH1 Hs e). apply IH2. eapply slots_once_perm; eassumption.
  Qed.
End ENTRY_ORDER.
