(* C09: results as a whole, series order unspecified: the response optimizer sends a permutation of what it received (any
   batching, any number of 3000-entry flushes), and a log request (chain of per-entry stages and the limit, then the
   optimizer) returns a permutation of what the reference semantics defines, the order inside every series kept.       *)
From Coq Require Import List ZArith NArith Bool String Ascii Permutation Lia.
From Qryn Require Import model.InternalEngine proofs.InternalEngineProofs.
Import ListNotations.
Open Scope Z_scope.

Section WHOLE.
  Variable V : Type.
  Variables (v0 v1 : V) (vadd vdiv : V -> V -> V) (vltb vleb veqb : V -> V -> bool) (vofZ : Z -> V).
  Variable panic_kills : bool.
  Variable fpf : lbls -> N.
  Variable re_match : string -> string -> bool.
  Variable pfloat : string -> option V.
  Variable parse : N -> string -> option lbls.
  Variable tmpl : N -> lbls -> option string.
  Notation entry := (entry V).
  Notation proj := (proj V).
  Notation run_stage := (run_stage V v0 v1 vadd vdiv vltb vleb veqb vofZ panic_kills fpf re_match pfloat parse tmpl).
  Notation run_chain := (run_chain V v0 v1 vadd vdiv vltb vleb veqb vofZ panic_kills fpf re_match pfloat parse tmpl).
  Notation sem_chain := (sem_chain V v0 v1 vadd vdiv vltb vleb veqb vofZ fpf re_match pfloat parse tmpl).
  Notation sem_stage := (sem_stage V v0 v1 vadd vdiv vltb vleb veqb vofZ fpf re_match pfloat parse tmpl).

  (* two lists with the same subsequence under every fingerprint are permutations of each other *)
  Lemma proj_split f : forall (l : list entry) e rest, proj f l = e :: rest ->
    exists a b, l = a ++ e :: b /\ proj f a = [] /\ proj f b = rest.
  Proof.
    induction l as [|x l IH]; intros e rest H; [discriminate|]. cbn [InternalEngineProofs.proj filter] in H.
    destruct (N.eqb (e_fp V x) f) eqn:E.
    - inversion H; subst. exists [], l. repeat split.
    - destruct (IH e rest H) as [a [b [-> [Ha Hb]]]]. exists (x :: a), b. split; [reflexivity|]. split; [|exact Hb].
      cbn [InternalEngineProofs.proj filter]. rewrite E. exact Ha.
  Qed.

  Lemma proj_all_nil (l : list entry) : (forall f, proj f l = []) -> l = [].
  Proof.
    destruct l as [|e r]; [reflexivity|]. intros H. specialize (H (e_fp V e)).
    cbn [InternalEngineProofs.proj filter] in H. rewrite N.eqb_refl in H. discriminate.
  Qed.

  Lemma proj_perm : forall l1 l2 : list entry, (forall f, proj f l1 = proj f l2) -> Permutation l1 l2.
  Proof.
    induction l1 as [|e r IH]; intros l2 H.
    - rewrite (proj_all_nil l2); [constructor|]. intros f. now rewrite <- H.
    - pose proof (H (e_fp V e)) as He. cbn [InternalEngineProofs.proj filter] in He. rewrite N.eqb_refl in He.
      symmetry in He. destruct (proj_split _ _ _ _ He) as [a [b [-> [Ha Hb]]]].
      apply Permutation_cons_app. apply IH. intros f. specialize (H f).
      rewrite !proj_app in *. cbn [InternalEngineProofs.proj filter] in H.
      destruct (N.eqb_spec (e_fp V e) f) as [Ef|Hne].
      + subst f. rewrite Ha. cbn [app]. now rewrite Hb.
      + exact H.
  Qed.

  (* the response optimizer: a permutation of its input, for every batching and any number of flushes *)
  Lemma optimizer_permutation c bs : Permutation (List.concat (run_stage c (SOptimizer V) bs)) (List.concat bs).
  Proof.
    apply proj_perm. intros f. cbn [InternalEngine.run_stage].
    exact (wrap_optimizer V v0 panic_kills f bs [] 0 I eq_refl).
  Qed.

  Lemma data_of_perm (l1 l2 : list entry) : Permutation l1 l2 -> Permutation (data_of V l1) (data_of V l2).
  Proof.
    unfold data_of. induction 1 as [|x l l' _ IH|x y l|l l' l'' _ IH1 _ IH2]; cbn [filter].
    - constructor.
    - destruct (errk_eqb _ _); [now constructor|exact IH].
    - destruct (errk_eqb (e_err V x) ENone), (errk_eqb (e_err V y) ENone); try apply Permutation_refl; apply perm_swap.
    - now transitivity (filter (fun e => errk_eqb (e_err V e) ENone) l').
  Qed.

  Lemma proj_data_of f (l : list entry) : proj f (data_of V l) = data_of V (proj f l).
  Proof.
    unfold data_of, InternalEngineProofs.proj. induction l as [|x r IH]; [reflexivity|]. cbn [filter].
    destruct (errk_eqb (e_err V x) ENone) eqn:E1, (N.eqb (e_fp V x) f) eqn:E2; cbn [filter]; rewrite ?E1, ?E2, IH; reflexivity.
  Qed.

  (* a log request as a whole: per-entry stages and the limit, then the optimizer *)
  Lemma log_chain_whole c ch rows t bs :
    forallb (simple_stage V) ch = true ->
    Forall (data_row V) rows -> Forall (terminator V) t -> List.concat bs = rows ++ t ->
    Permutation (map (erase V) (data_of V (List.concat (run_chain c (ch ++ [SOptimizer V]) bs))))
                (map (erase V) (sem_chain c ch (List.concat bs))) /\
    forall f, proj f (data_of V (List.concat (run_chain c (ch ++ [SOptimizer V]) bs))) =
              proj f (data_of V (List.concat (run_chain c ch bs))).
  Proof.
    intros Hs Hd Ht E.
    assert (Hsim : sim V (List.concat (run_chain c ch bs)) (sem_chain c ch (List.concat bs))).
    { unfold InternalEngine.sem_chain.
      apply (sim_chain V v0 v1 vadd vdiv vltb vleb veqb vofZ panic_kills fpf re_match pfloat parse tmpl c ch Hs).
      rewrite E. now apply sim_start. }
    assert (Hrun : run_chain c (ch ++ [SOptimizer V]) bs = run_stage c (SOptimizer V) (run_chain c ch bs)).
    { unfold InternalEngine.run_chain. rewrite fold_left_app. cbn [fold_left].
      fold (run_chain c ch bs). now rewrite (sim_no_crash V _ _ Hsim). }
    rewrite Hrun. split.
    - rewrite <- (chain_agrees V v0 v1 vadd vdiv vltb vleb veqb vofZ panic_kills fpf re_match pfloat parse tmpl c ch rows t bs Hs Hd Ht E).
      apply Permutation_map. apply data_of_perm. apply optimizer_permutation.
    - intros f. rewrite !proj_data_of. f_equal. cbn [InternalEngine.run_stage].
      exact (wrap_optimizer V v0 panic_kills f (run_chain c ch bs) [] 0 I eq_refl).
  Qed.
End WHOLE.
