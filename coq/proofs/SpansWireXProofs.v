(* Round trip of the stored OTLP span with its events and status (model/SpansWireX.v) over the wire model of SpansWire.v. *)
From Coq Require Import List ZArith NArith Bool String Ascii Lia.
From Qryn Require Import model.Spans model.SpansChunk model.SpansWire model.SpansStore model.SpansWireX proofs.SpansWireProofs.
Import ListNotations.
Open Scope list_scope.
Open Scope Z_scope.

(* the fields SpansWire's span decoder does not know *)
Definition extra_field (f : field) : Prop := exists b, f = (11%N, RBytes b) \/ f = (15%N, RBytes b).

Lemma fold_span_extra fs : Forall extra_field fs -> forall st, fold_opt span_step fs st = Some st.
Proof. induction 1 as [|f fs [b [-> | ->]] _ IH]; intro st; [reflexivity| |]; cbn [fold_opt span_step N.eqb Pos.eqb]; apply IH. Qed.
Lemma dec_kvs_extra rec fs : Forall extra_field fs -> dec_kvs rec 9 fs = Some [].
Proof. induction 1 as [|f fs [b [-> | ->]] _ IH]; [reflexivity| |]; cbn [dec_kvs N.eqb Pos.eqb]; exact IH. Qed.
Lemma wf_extra fs : Forall extra_field fs -> Forall wf_field fs.
Proof. induction 1 as [|f fs [b [-> | ->]] _ IH]; constructor; try exact IH; apply wf_bytes; unfold max_field; lia. Qed.
Lemma fields_extra_extra x : Forall extra_field (fields_extra x).
Proof.
  unfold fields_extra. apply Forall_app. split.
  - induction (x_events x) as [|e l IH]; cbn [map]; constructor; [eexists; left; reflexivity|exact IH].
  - destruct (x_status x); [|constructor]. constructor; [eexists; right; reflexivity|constructor].
Qed.

Lemma wf_fields_span s : scalars_ok s -> Forall wf_field (fields_span s).
Proof.
  intro Hsc. unfold fields_span. apply Forall_app. split; [apply wf_fields_scalars; exact Hsc|].
  unfold fields_attrs. apply (wf_map_bytes 9 enc_kv). unfold max_field. lia.
Qed.

(* SpansWire's decoder reads its span from bytes that carry further fields after it *)
Theorem dec_span_extra s extra : span_wire_ok s = true -> Forall extra_field extra ->
  dec_span (ser_fields (fields_span s ++ extra)) = Some s.
Proof.
  intros Hok Hex. unfold span_wire_ok in Hok.
  repeat (apply andb_true_iff in Hok; let H := fresh "Hc" in destruct Hok as [Hok H]).
  assert (Hsc : scalars_ok s) by (unfold scalars_ok; lia).
  rewrite forallb_forall in Hc.
  unfold dec_span.
  assert (Hwf : Forall wf_field (fields_span s ++ extra)).
  { apply Forall_app. split; [apply wf_fields_span; exact Hsc|apply wf_extra; exact Hex]. }
  rewrite (raw_fields_ser _ Hwf).
  remember (String.length (ser_fields (fields_span s ++ extra))) as fuel eqn:Efuel.
  unfold fields_span. rewrite <- app_assoc.
  rewrite fold_opt_app, (fold_span_scalars s Hsc), fold_opt_app, fold_span_attrs, (fold_span_extra _ Hex).
  rewrite dec_kvs_app, dec_kvs_scalars, dec_kvs_app.
  change (fields_attrs (o_attrs s)) with (map (kv_elem_field 9) (o_attrs s)).
  rewrite dec_kvs_map.
  - rewrite (dec_kvs_extra _ _ Hex). cbn [app o_trace o_span o_parent o_name o_start o_end o_kind]. rewrite app_nil_r. destruct s; reflexivity.
  - intros p Hp. apply dec_kv_enc. intros Hnil.
    rewrite dec_any_enc; [now rewrite merge_empty| |apply Hc; exact Hp].
    assert (Hin : In (kv_elem_field 9 p) (fields_span s ++ extra)).
    { apply in_or_app. left. unfold fields_span. apply in_or_app. right. apply in_map. exact Hp. }
    pose proof (bytes_in_len _ _ _ Hin) as H1.
    assert (Hin2 : In (2%N, RBytes (enc_any (snd p))) (fields_kv p)).
    { unfold fields_kv, kv_fields. rewrite Hnil. apply in_or_app. right. left. reflexivity. }
    pose proof (bytes_in_len _ _ _ Hin2) as H3. unfold enc_kv in H1. lia.
Qed.

(* ------------------------------------------------------------------ events *)
Lemma wf_fixed64_field n z : (1 <= n <= max_field)%N -> Forall wf_field (fixed64_field n z).
Proof.
  intro H. unfold fixed64_field. destruct (z =? 0); [constructor|]. constructor; [|constructor].
  split; [exact H|]. cbn [snd]. pose proof (to_u64_range z). unfold two64N, two64 in *. lia.
Qed.
Lemma wf_varint_field n z : (1 <= n <= max_field)%N -> Forall wf_field (varint_field n z).
Proof.
  intro H. unfold varint_field. destruct (z =? 0); [constructor|]. constructor; [|constructor].
  split; [exact H|]. cbn [snd]. pose proof (to_u64_range z). unfold two64N, two64 in *. lia.
Qed.
Lemma wf_fields_event e : Forall wf_field (fields_event e).
Proof.
  unfold fields_event. repeat (apply Forall_app; split).
  - apply wf_fixed64_field. unfold max_field. lia.
  - apply wf_bytes_field. unfold max_field. lia.
  - apply (wf_map_bytes 3 enc_kv). unfold max_field. lia.
  - apply wf_varint_field. unfold max_field. lia.
Qed.

Lemma fold_event_attrs a st : fold_opt event_step (map (kv_elem_field 3) a) st = Some st.
Proof. induction a as [|p a IH]; [reflexivity|]. cbn [map fold_opt kv_elem_field event_step N.eqb Pos.eqb]. exact IH. Qed.

Lemma u32_of_small z : 0 <= z < 4294967296 -> u32_of (Z.to_N (to_u64 z)) = z.
Proof.
  intro H. unfold u32_of, to_u64, two64. rewrite Z.mod_small by lia. rewrite Z2N.id by lia. apply Z.mod_small. lia.
Qed.
Lemma dec_event_enc fuel e : event_ok e = true -> (String.length (enc_event e) < fuel)%nat ->
  dec_event fuel (enc_event e) = Some e.
Proof.
  intros Hok Hfuel. unfold event_ok in Hok.
  apply andb_true_iff in Hok. destruct Hok as [Hok Ha]. apply andb_true_iff in Hok. destruct Hok as [Hok H3].
  apply andb_true_iff in Hok. destruct Hok as [Hok H2]. apply andb_true_iff in Hok. destruct Hok as [H0 H1].
  rewrite forallb_forall in Ha.
  assert (Ht : 0 <= e_time e < two64) by lia.
  assert (Hd : 0 <= e_dropped e < 4294967296) by lia.
  unfold dec_event, enc_event in *. rewrite (raw_fields_ser _ (wf_fields_event e)).
  destruct e as [t nm at_ dr]. cbn [e_time e_name e_attrs e_dropped] in *. unfold fields_event in *. cbn [e_time e_name e_attrs e_dropped] in *.
  change (map (fun kv => (3%N, RBytes (enc_kv kv))) at_) with (map (kv_elem_field 3) at_) in *.
  assert (E1 : fold_opt event_step (fixed64_field 1 t) event0 = Some {| e_time := t; e_name := ""; e_attrs := []; e_dropped := 0 |}).
  { unfold fixed64_field. destruct (Z.eqb_spec t 0) as [->|Hne]; [reflexivity|].
    cbn [fold_opt event_step N.eqb Pos.eqb event0 e_time e_name e_attrs e_dropped]. now rewrite (time_u64 t Ht). }
  assert (E2 : fold_opt event_step (bytes_field 2 nm) {| e_time := t; e_name := ""; e_attrs := []; e_dropped := 0 |}
               = Some {| e_time := t; e_name := nm; e_attrs := []; e_dropped := 0 |}).
  { unfold bytes_field. destruct (String.eqb_spec nm "") as [->|Hne]; reflexivity. }
  assert (E3 : fold_opt event_step (varint_field 4 dr) {| e_time := t; e_name := nm; e_attrs := []; e_dropped := 0 |}
               = Some {| e_time := t; e_name := nm; e_attrs := []; e_dropped := dr |}).
  { unfold varint_field. destruct (Z.eqb_spec dr 0) as [->|Hne]; [reflexivity|].
    cbn [fold_opt event_step N.eqb Pos.eqb e_time e_name e_attrs e_dropped]. now rewrite (u32_of_small dr Hd). }
  rewrite fold_opt_app, E1, fold_opt_app, E2, fold_opt_app, fold_event_attrs, E3.
  assert (K1 : forall rec, dec_kvs rec 3 (fixed64_field 1 t) = Some []).
  { intro rec. unfold fixed64_field. destruct (t =? 0); reflexivity. }
  assert (K2 : forall rec, dec_kvs rec 3 (bytes_field 2 nm) = Some []).
  { intro rec. unfold bytes_field. destruct (String.eqb nm ""); reflexivity. }
  assert (K3 : forall rec, dec_kvs rec 3 (varint_field 4 dr) = Some []).
  { intro rec. unfold varint_field. destruct (dr =? 0); reflexivity. }
  rewrite dec_kvs_app, K1, dec_kvs_app, K2, dec_kvs_app, K3, dec_kvs_map.
  - cbn [app e_time e_name e_attrs e_dropped]. rewrite app_nil_r. reflexivity.
  - intros p Hp. apply dec_kv_enc. intros Hnil.
    rewrite dec_any_enc; [now rewrite merge_empty| |apply Ha; exact Hp].
    assert (Hin : In (kv_elem_field 3 p) (fixed64_field 1 t ++ bytes_field 2 nm ++ map (kv_elem_field 3) at_ ++ varint_field 4 dr)).
    { apply in_or_app. right. apply in_or_app. right. apply in_or_app. left. apply in_map. exact Hp. }
    pose proof (bytes_in_len _ _ _ Hin) as B1.
    assert (Hin2 : In (2%N, RBytes (enc_any (snd p))) (fields_kv p)).
    { unfold fields_kv, kv_fields. rewrite Hnil. apply in_or_app. right. left. reflexivity. }
    pose proof (bytes_in_len _ _ _ Hin2) as B3. unfold enc_kv in B1.
    eapply Nat.le_lt_trans; [|exact Hfuel]. eapply Nat.le_trans; [|exact B1]. lia.
Qed.

Definition not11 (f : field) : Prop := fst f <> 11%N.
Lemma dec_events_skip fuel fs : Forall not11 fs -> dec_events fuel fs = Some [].
Proof.
  induction 1 as [|[n v] fs Hn _ IH]; [reflexivity|]. cbn [dec_events]. unfold not11 in Hn. cbn [fst] in Hn.
  destruct v; try exact IH. destruct (N.eqb_spec n 11); [congruence|exact IH].
Qed.
Lemma dec_events_app fuel a b :
  dec_events fuel (a ++ b) = match dec_events fuel a, dec_events fuel b with Some x, Some y => Some (x ++ y) | _, _ => None end.
Proof.
  induction a as [|[n v] a IH]; cbn [app dec_events].
  - destruct (dec_events fuel b); reflexivity.
  - destruct v as [x|x|s|x]; try exact IH.
    destruct (n =? 11)%N; [|exact IH].
    destruct (dec_event fuel s) as [e|]; [|reflexivity].
    rewrite IH. destruct (dec_events fuel a) as [x|]; [|reflexivity].
    destruct (dec_events fuel b) as [y|]; reflexivity.
Qed.
Lemma dec_events_map fuel l : (forall e, In e l -> dec_event fuel (enc_event e) = Some e) ->
  dec_events fuel (map (fun e => (11%N, RBytes (enc_event e))) l) = Some l.
Proof.
  induction l as [|x l IH]; intros H; [reflexivity|].
  cbn [map dec_events N.eqb Pos.eqb]. rewrite (H x) by (left; reflexivity).
  rewrite IH; [reflexivity|]. intros y Hy. apply H. right. exact Hy.
Qed.

Lemma not11_bytes n s : n <> 11%N -> Forall not11 (bytes_field n s).
Proof. intro H. unfold bytes_field. destruct (String.eqb s ""); repeat constructor. exact H. Qed.
Lemma not11_fixed n z : n <> 11%N -> Forall not11 (fixed64_field n z).
Proof. intro H. unfold fixed64_field. destruct (z =? 0); repeat constructor. exact H. Qed.
Lemma not11_varint n z : n <> 11%N -> Forall not11 (varint_field n z).
Proof. intro H. unfold varint_field. destruct (z =? 0); repeat constructor. exact H. Qed.
Lemma not11_span s : Forall not11 (fields_span s).
Proof.
  unfold fields_span, fields_scalars. repeat (apply Forall_app; split);
    try (apply not11_bytes; discriminate); try (apply not11_fixed; discriminate); try (apply not11_varint; discriminate).
  unfold fields_attrs. induction (o_attrs s) as [|p a IH]; cbn [map]; constructor; [discriminate|exact IH].
Qed.

(* ------------------------------------------------------------------ status *)
Definition not15 (f : field) : Prop := fst f <> 15%N.
Lemma dec_status_skip fs : Forall not15 fs -> forall st, dec_status fs st = Some st.
Proof.
  induction 1 as [|[n v] fs Hn _ IH]; intro st; [reflexivity|]. cbn [dec_status]. unfold not15 in Hn. cbn [fst] in Hn.
  destruct v; try apply IH. destruct (N.eqb_spec n 15); [congruence|apply IH].
Qed.
Lemma dec_status_app a : forall b st,
  dec_status (a ++ b) st = match dec_status a st with Some st' => dec_status b st' | None => None end.
Proof.
  induction a as [|[n v] a IH]; intros b st; cbn [app dec_status]; [reflexivity|].
  destruct v as [x|x|s|x]; try apply IH.
  destruct (n =? 15)%N; [|apply IH].
  destruct (raw_fields s) as [sf|]; [|reflexivity].
  destruct (fold_opt status_step sf _) as [s'|]; [apply IH|reflexivity].
Qed.
Lemma not15_span s : Forall not15 (fields_span s).
Proof.
  unfold fields_span, fields_scalars, bytes_field, fixed64_field, varint_field.
  repeat (apply Forall_app; split);
    try (match goal with |- Forall _ (if ?c then _ else _) => destruct c end; repeat constructor; discriminate).
  unfold fields_attrs. induction (o_attrs s) as [|p a IH]; cbn [map]; constructor; [discriminate|exact IH].
Qed.
Lemma not15_events l : Forall not15 (map (fun e => (11%N, RBytes (enc_event e))) l).
Proof. induction l as [|e l IH]; cbn [map]; constructor; [discriminate|exact IH]. Qed.
Lemma not11_status o : Forall not11 (match o with Some s => [(15%N, RBytes (enc_status s))] | None => [] end).
Proof. destruct o; repeat constructor. discriminate. Qed.

Lemma wf_fields_status s : Forall wf_field (fields_status s).
Proof.
  unfold fields_status. apply Forall_app. split; [apply wf_bytes_field|apply wf_varint_field]; unfold max_field; lia.
Qed.
Lemma status_enc s : status_ok s = true -> fold_opt status_step (fields_status s) status0 = Some s.
Proof.
  unfold status_ok. intro H. apply andb_true_iff in H. destruct H as [H0 H1].
  assert (Hc : 0 <= s_code s < 2147483648) by lia.
  destruct s as [m c]. unfold fields_status, status0. cbn [s_msg s_code] in *.
  assert (E1 : fold_opt status_step (bytes_field 2 m) {| s_msg := ""; s_code := 0 |} = Some {| s_msg := m; s_code := 0 |}).
  { unfold bytes_field. destruct (String.eqb_spec m "") as [->|Hne]; reflexivity. }
  rewrite fold_opt_app, E1. unfold varint_field. destruct (Z.eqb_spec c 0) as [->|Hne]; [reflexivity|].
  cbn [fold_opt status_step N.eqb Pos.eqb s_msg s_code]. now rewrite (int32_kind c Hc).
Qed.

(* ================================================================== the round trip with events and status *)
Theorem dec_enc_spanx s x : span_wire_ok s = true -> extra_ok x = true -> dec_spanx (enc_spanx s x) = Some (s, x).
Proof.
  intros Hs Hx. unfold dec_spanx, enc_spanx.
  rewrite (dec_span_extra s (fields_extra x) Hs (fields_extra_extra x)).
  assert (Hsc : scalars_ok s).
  { unfold span_wire_ok in Hs. repeat (apply andb_true_iff in Hs; let H := fresh "Hc" in destruct Hs as [Hs H]). unfold scalars_ok. lia. }
  assert (Hwf : Forall wf_field (fields_span s ++ fields_extra x)).
  { apply Forall_app. split; [apply wf_fields_span; exact Hsc|apply wf_extra; apply fields_extra_extra]. }
  rewrite (raw_fields_ser _ Hwf).
  unfold extra_ok in Hx. apply andb_true_iff in Hx. destruct Hx as [Hev Hst]. rewrite forallb_forall in Hev.
  remember (String.length (ser_fields (fields_span s ++ fields_extra x))) as fuel eqn:Efuel.
  unfold fields_extra in *.
  rewrite dec_events_app, (dec_events_skip _ _ (not11_span s)), dec_events_app, dec_events_map, (dec_events_skip _ _ (not11_status _)).
  - rewrite dec_status_app, (dec_status_skip _ (not15_span s)), dec_status_app, (dec_status_skip _ (not15_events _)).
    cbn [app]. rewrite app_nil_r. destruct x as [ev [st|]]; cbn [x_events x_status] in *.
    + cbn [dec_status N.eqb Pos.eqb]. unfold enc_status. rewrite (raw_fields_ser _ (wf_fields_status st)), (status_enc st Hst). reflexivity.
    + reflexivity.
  - intros e He. apply dec_event_enc; [apply Hev; exact He|].
    assert (Hin : In (11%N, RBytes (enc_event e))
                     (fields_span s ++ map (fun e => (11%N, RBytes (enc_event e))) (x_events x)
                                    ++ match x_status x with Some s0 => [(15%N, RBytes (enc_status s0))] | None => [] end)).
    { apply in_or_app. right. apply in_or_app. left. apply (in_map (fun e => (11%N, RBytes (enc_event e)))). exact He. }
    pose proof (bytes_in_len _ _ _ Hin) as B. lia.
Qed.

(* the read path on the stored bytes returns the pushed events (time, name) and the pushed status code (UNSET when there is none) *)
Corollary read_extra_of_bytes s x : span_wire_ok s = true -> extra_ok x = true ->
  option_map (fun p => read_extra (snd p)) (dec_spanx (enc_spanx s x)) = Some (read_extra x).
Proof. intros Hs Hx. rewrite (dec_enc_spanx s x Hs Hx). reflexivity. Qed.

Lemma enc_spanx_no_extra s : enc_spanx s no_extra = enc_span s.
Proof. unfold enc_spanx, enc_span, fields_extra, no_extra. cbn [x_events x_status map app]. rewrite app_nil_r. reflexivity. Qed.

Definition wirex_ex : ospan * oextra :=
  (wire_ex1, {| x_events := [{| e_time := 1727700000000000500; e_name := "exception"; e_attrs := [("exception.type", AStr "E"); ("n", AInt 3)]; e_dropped := 2 |};
                             {| e_time := 0; e_name := ""; e_attrs := []; e_dropped := 0 |}];
                x_status := Some {| s_msg := "boom"; s_code := 2 |} |}).
Example wirex_ex_roundtrip :
  span_wire_ok (fst wirex_ex) = true /\ extra_ok (snd wirex_ex) = true /\
  dec_spanx (enc_spanx (fst wirex_ex) (snd wirex_ex)) = Some wirex_ex /\
  read_extra (snd wirex_ex) = ([(1727700000000000500, "exception"); (0, "")], 2).
Proof. split; [reflexivity|]. split; [reflexivity|]. split; [vm_compute; reflexivity|reflexivity]. Qed.
