(* C15 - the Prometheus timestamp text is exact below 2^43 seconds.

   The Prometheus writers print WriteFloat64(float64(T)/1000) for an int64 millisecond timestamp T.  float64(T) is
   exact below 2^53, the quotient rounds; for 0 <= T < 2^43 * 1000 the float64 values near T/1000 are less than a
   millisecond apart (2^-10 s), so T/1000 is the only decimal with at most three fraction digits in the rounding
   interval of the quotient, and the shortest-decimal search stops on it: the text reads back as exactly T
   milliseconds [ms_timestamp_exact, ms_exact_holds].  From 2^43 s on the floats are 1/512 s apart and the claim is
   false [ms_exact_2p53_refuted].

   All statements are over Z, cross-multiplied; no rationals, no reals, no axioms. *)
From Coq Require Import List NArith ZArith Bool Ascii String Lia.
From Qryn Require Import model.GoFloat model.JsonStream proofs.GoFloatProofs proofs.GoFloatReadProofs
  proofs.GoFloatRoundProofs proofs.GoFloatExactProofs proofs.GoFloatShortestProofs.
Import ListNotations.
Open Scope Z_scope.

(* ------------------------------------------------------------------------------------------ *)
(* step 1: float64(t) / 1000 for 1000 <= t < 2^43 * 1000, over R = 2^-f *)

Lemma ms_float : forall t, 1000 <= t < 2 ^ 43 * 1000 ->
  exists m f R, ms_seconds t = FFin false m f /\ f <= -9 /\ R = 2 ^ (- f) /\
    0 < m /\ 1024 <= R <= m /\ m < 2 ^ 43 * R /\
    2 * Z.abs (1000 * m - t * R) < 1000 /\
    1000 * 2 ^ 52 - 250 < t * R.
Proof.
  intros t Ht. change (2 ^ 43 * 1000) with 8796093022208000 in Ht.
  change (2 ^ 43) with 8796093022208. change (2 ^ 52) with 4503599627370496.
  unfold ms_seconds, fl_of_int.
  replace (t =? 0) with false by (symmetry; apply Z.eqb_neq; lia).
  replace (t <? 0) with false by (symmetry; apply Z.ltb_ge; lia).
  rewrite (Z.abs_eq t) by lia.
  (* float64(t) is t *)
  destruct (rne_post t 1 ltac:(lia) ltac:(lia)) as (e1 & q1 & c1 & Hc1 & Hq1 & Hr1 & Hl1 & HA1 & HS1 & _).
  destruct (rne t 1) as [m1 f1]. cbn [fst snd] in HA1, HS1. cbn [fl_div_int].
  set (A := m1 * 2 ^ Z.max f1 0) in *. set (S1 := 2 ^ Z.max (- f1) 0) in *.
  assert (HS1p : 0 < S1) by apply pow2_pos.
  assert (EA : A = t * S1).
  { rewrite !Z.mul_1_l in Hr1, Hl1.
    set (T := 2 ^ Z.max e1 0) in *. set (S := 2 ^ Z.max (- e1) 0) in *.
    change (2 ^ 52) with 4503599627370496 in Hl1.
    assert (HT : T = 1).
    { destruct (Z_le_gt_dec e1 0) as [He|He]; [unfold T; replace (Z.max e1 0) with 0 by lia; reflexivity|exfalso].
      assert (ES : S = 1) by (unfold S; replace (Z.max (- e1) 0) with 0 by lia; reflexivity).
      assert (H2 : 2 <= T) by (change 2 with (2 ^ 1); unfold T; apply Z.pow_le_mono_r; lia).
      rewrite ES in Hl1. lia. }
    rewrite HT in Hr1, HA1. rewrite Z.mul_1_r in HA1.
    assert (Eq : q1 = t * S) by lia.
    apply (Z.mul_cancel_l _ _ c1); [lia|]. rewrite HA1, Eq, <- HS1. ring. }
  rewrite EA. clear EA HA1 HS1 Hr1 Hl1 Hq1 Hc1 q1 c1 e1.
  (* the quotient *)
  assert (HtS : 0 < t * S1) by (apply Z.mul_pos_pos; lia).
  destruct (rne_pre_pos (t * S1) (1000 * S1) HtS ltac:(lia)) as (e & q & Heq & Hq & Hr & Hl).
  rewrite Heq. clear Heq.
  set (T := 2 ^ Z.max e 0) in *. set (S := 2 ^ Z.max (- e) 0) in *.
  assert (HT : 0 < T) by apply pow2_pos. assert (HS : 0 < S) by apply pow2_pos.
  assert (Hr' : 2 * Z.abs (q * 1000 * T - t * S) <= 1000 * T).
  { apply (abs_scale_le _ S1); [exact HS1p|].
    replace ((q * 1000 * T - t * S) * S1) with (q * (1000 * S1 * T) - t * S1 * S) by ring.
    replace (1000 * T * S1) with (1000 * S1 * T) by ring. exact Hr. }
  assert (Hl' : 4503599627370496 * (1000 * T) <= t * S).
  { apply (Z.mul_le_mono_pos_r _ _ S1 HS1p).
    replace (4503599627370496 * (1000 * T) * S1) with (2 ^ 52 * (1000 * S1 * T)) by (change (2 ^ 52) with 4503599627370496; ring).
    replace (t * S * S1) with (t * S1 * S) by ring. exact Hl. }
  clear Hr Hl HtS.
  assert (He : e <= -10).
  { destruct (Z_le_gt_dec e (-10)) as [H|H]; [exact H|exfalso].
    assert (H9 : S <= 2 ^ 9) by (unfold S; apply Z.pow_le_mono_r; lia). change (2 ^ 9) with 512 in H9.
    assert (t * S <= t * 512) by (apply Z.mul_le_mono_nonneg_l; lia). lia. }
  assert (ET : T = 1) by (unfold T; replace (Z.max e 0) with 0 by lia; reflexivity).
  rewrite ET in Hr', Hl'. rewrite Z.mul_1_r in Hr', Hl'. clear HT ET. clearbody T.
  assert (ES : S = 1024 * 2 ^ (- e - 10)).
  { unfold S. replace (Z.max (- e) 0) with (10 + (- e - 10)) by lia. rewrite Z.pow_add_r by lia. reflexivity. }
  assert (ER : S = 2 ^ (- e)) by (unfold S; f_equal; lia).
  assert (HS' : 0 < 2 ^ (- e - 10)) by (apply Z.pow_pos_nonneg; lia).
  assert (Hge : 1000 * S <= t * S) by (apply Z.mul_le_mono_nonneg_r; lia).
  assert (Hle : t * S <= 8796093022207999 * S) by (apply Z.mul_le_mono_nonneg_r; lia).
  (* no tie: t * S is a multiple of 8, 1000 * q + 500 is not *)
  assert (Hs : 2 * Z.abs (q * 1000 - t * S) < 1000).
  { assert (E8 : t * S = 8 * (t * (128 * 2 ^ (- e - 10)))) by (rewrite ES; ring).
    set (X := t * (128 * 2 ^ (- e - 10))) in *. lia. }
  clear Hr'.
  destruct (q =? 2 ^ 53) eqn:Ec.
  - (* the mantissa bump: 2^52 * 2^(e+1) *)
    apply Z.eqb_eq in Ec. change (2 ^ 53) with 9007199254740992 in Ec. subst q.
    assert (He11 : e <= -11).
    { destruct (Z.eq_dec e (-10)) as [E10|N10]; [exfalso|lia].
      assert (S = 1024) by (rewrite ES, E10; reflexivity). lia. }
    set (R := 2 ^ (- (e + 1))).
    assert (ESR : S = 2 * R).
    { rewrite ER. unfold R. replace (- e) with (Z.succ (- (e + 1))) by lia. rewrite Z.pow_succ_r by lia. reflexivity. }
    assert (ER11 : R = 1024 * 2 ^ (- e - 11)).
    { unfold R. replace (- (e + 1)) with (10 + (- e - 11)) by lia. rewrite Z.pow_add_r by lia. reflexivity. }
    assert (HR' : 0 < 2 ^ (- e - 11)) by (apply Z.pow_pos_nonneg; lia).
    assert (EtS : t * S = 2 * (t * R)) by (rewrite ESR; ring).
    exists 4503599627370496, (e + 1), R. change (2 ^ 52) with 4503599627370496.
    split; [reflexivity|]. split; [lia|]. split; [reflexivity|].
    set (tR := t * R) in *. lia.
  - apply Z.eqb_neq in Ec. exists q, e, S.
    split; [reflexivity|]. split; [lia|]. split; [exact ER|].
    set (tS := t * S) in *. lia.
Qed.

(* ------------------------------------------------------------------------------------------ *)
(* step 2: the rounding interval of such a float *)

Lemma interval_small : forall m f, f <= 0 ->
  let iv := interval m f in
  iv_xn iv = 4 * m /\ iv_un iv = 4 * m + 2 /\
  (iv_ln iv = 4 * m - 2 \/ (m = 2 ^ 52 /\ iv_ln iv = 4 * m - 1)) /\
  iv_den iv = 4 * 2 ^ (- f).
Proof.
  intros m f Hf. cbv zeta. destruct (interval_quarters m f) as [_ [Ex [Eu [El Ed]]]].
  replace (f + Z.max 0 (2 - f) - 2) with 0 in * by lia. change (2 ^ 0) with 1 in *.
  rewrite Ex, Eu, El, Ed. split; [ring|]. split; [ring|]. split.
  - destruct ((m =? 2 ^ 52) && negb (f =? -1074)) eqn:Eb.
    + right. apply andb_prop in Eb. destruct Eb as [Eb _]. apply Z.eqb_eq in Eb. split; [exact Eb|ring].
    + left. ring.
  - replace (Z.max 0 (2 - f)) with (2 + - f) by lia. rewrite Z.pow_add_r by lia. reflexivity.
Qed.

(* ------------------------------------------------------------------------------------------ *)
(* step 3: an interval shorter than 10^-3 that contains t / 1000 and a number in [1, 10^13):
   the search stops at a position >= -3, and every decimal of the interval at such a position is t / 1000 *)

Lemma ok_at_multiple : forall incl lb ub xb half v, 0 < half -> lb < xb < ub -> lb < v * half < ub ->
  ub - lb < half ->
  in_bounds incl lb ub (xb / half * half) || in_bounds incl lb ub (xb / half * half + half) = true.
Proof.
  intros incl lb ub xb half v Hh Hx Hv Hg.
  pose proof (Z.div_mod xb half ltac:(lia)) as E. pose proof (Z.mod_pos_bound xb half Hh) as Hr.
  set (td := xb / half) in *.
  assert (Hd : td * half <= xb < td * half + half) by lia.
  assert (Hw : v = td \/ v = td + 1).
  { set (w := v - td). assert (Ew : w * half = v * half - td * half) by (unfold w; ring).
    assert (Hw1 : - half < w * half < 2 * half) by lia.
    assert (-1 < w < 2) by nia. lia. }
  assert (Hin : forall x, lb < x < ub -> in_bounds incl lb ub x = true).
  { intros x Hxx. unfold in_bounds. destruct incl; apply andb_true_intro; split;
      try apply Z.leb_le; try apply Z.ltb_lt; lia. }
  destruct Hw as [->| ->].
  - rewrite (Hin (td * half) Hv). reflexivity.
  - replace ((td + 1) * half) with (td * half + half) in Hv by ring.
    rewrite (Hin (td * half + half) Hv). apply orb_true_r.
Qed.

Lemma pA_m3 : pA (-3) = 1. Proof. reflexivity. Qed.
Lemma pB_m3 : pB (-3) = 1000. Proof. reflexivity. Qed.

Lemma ms_search : forall iv t, 0 < iv_den iv -> iv_ln iv < iv_xn iv < iv_un iv ->
  iv_ln iv * 1000 < t * iv_den iv < iv_un iv * 1000 -> (iv_un iv - iv_ln iv) * 1000 < iv_den iv ->
  iv_den iv <= iv_xn iv < 10 ^ 13 * iv_den iv ->
  exists D P, srch 17 iv (dec_exp (iv_xn iv) (iv_den iv) - 1) = Some (D, P) /\ -3 <= P /\ in_interval iv D P = true.
Proof.
  intros iv t Hd Hx HI HII Hxd.
  set (P0 := dec_exp (iv_xn iv) (iv_den iv) - 1).
  assert (H1100 : 10 ^ 13 < 2 ^ 1100) by (apply Z.ltb_lt; vm_compute; reflexivity).
  assert (Hx' : 0 < iv_xn iv < iv_den iv * 2 ^ 1100) by nia.
  (* 0 <= P0 <= 12 *)
  assert (HP0 : 0 <= P0).
  { unfold P0, dec_exp. destruct (Z.leb_spec (iv_den iv) (iv_xn iv)) as [H|H]; [|lia].
    assert (Hq : 1 <= iv_xn iv / iv_den iv < 2 ^ 1100).
    { split; [apply Z.div_le_lower_bound; lia|]. apply Z.div_lt_upper_bound; lia. }
    destruct (dec_len_lower _ Hq) as [Hl _]. lia. }
  assert (HP12 : P0 <= 12).
  { pose proof (dec_exp_lower (iv_xn iv) (iv_den iv) Hx' Hd) as H0. cbv zeta in H0. fold P0 in H0.
    destruct (pA_nonneg_P P0 HP0) as [EA EB]. rewrite EA, EB in H0.
    destruct (Z_le_gt_dec P0 12) as [H|H]; [exact H|exfalso].
    assert (10 ^ 13 <= 10 ^ P0) by (apply Z.pow_le_mono_r; lia).
    set (X := 10 ^ 13) in *. set (Y := 10 ^ P0) in *. nia. }
  (* at position -3 one of the two neighbours is t / 1000 *)
  assert (Hok : ok_at iv (P0 - Z.of_nat (Z.to_nat (P0 + 3))) = true).
  { rewrite Z2Nat.id by lia. replace (P0 - (P0 + 3)) with (-3) by lia.
    unfold ok_at. cbv zeta. rewrite pA_m3, pB_m3, Z.mul_1_l.
    apply (ok_at_multiple (iv_incl iv) (iv_ln iv * 1000) (iv_un iv * 1000) (iv_xn iv * 1000) (iv_den iv) t); lia. }
  destruct (srch_stops 16 iv P0 (Z.to_nat (P0 + 3)) ltac:(lia) Hok) as [D [P [E HP]]].
  rewrite Z2Nat.id in HP by lia.
  exists D, P. split; [exact E|]. split; [lia|]. eapply srch_sound. exact E.
Qed.

Lemma ms_unique : forall iv t D P, 0 < iv_den iv ->
  iv_ln iv * 1000 < t * iv_den iv < iv_un iv * 1000 -> (iv_un iv - iv_ln iv) * 1000 < iv_den iv ->
  -3 <= P -> in_interval iv D P = true -> D * pA P * 1000 = t * pB P.
Proof.
  intros iv t D P Hd HI HII HP Hin. rewrite in_interval_bounds in Hin.
  assert (Hw : iv_ln iv * pB P <= D * (pA P * iv_den iv) <= iv_un iv * pB P).
  { unfold in_bounds in Hin. destruct (iv_incl iv); apply andb_prop in Hin; destruct Hin as [H1 H2];
      try apply Z.leb_le in H1; try apply Z.leb_le in H2; try apply Z.ltb_lt in H1; try apply Z.ltb_lt in H2; lia. }
  clear Hin.
  set (c := 10 ^ (3 - Z.max (- P) 0)).
  assert (Hc : 0 < c) by (apply Z.pow_pos_nonneg; lia).
  assert (Ec : pB P * c = 1000).
  { unfold pB, c. rewrite <- Z.pow_add_r by lia. replace (Z.max (- P) 0 + (3 - Z.max (- P) 0)) with 3 by lia. reflexivity. }
  set (N := D * pA P * c).
  assert (HN : iv_ln iv * 1000 <= N * iv_den iv <= iv_un iv * 1000).
  { rewrite <- Ec. unfold N.
    replace (D * pA P * c * iv_den iv) with (D * (pA P * iv_den iv) * c) by ring.
    rewrite !Z.mul_assoc. split; apply Z.mul_le_mono_nonneg_r; lia. }
  assert (EN : N = t).
  { assert (Ew : (N - t) * iv_den iv = N * iv_den iv - t * iv_den iv) by ring.
    assert (- iv_den iv < (N - t) * iv_den iv < iv_den iv) by lia.
    assert (-1 < N - t < 1) by nia. lia. }
  rewrite <- EN, <- Ec. unfold N. ring.
Qed.

Lemma strip_zeros_pos : forall f D P, P <= snd (strip_zeros f D P).
Proof.
  induction f as [|f IH]; intros D P; [cbn; lia|]. cbn [strip_zeros].
  destruct ((D mod 10 =? 0) && negb (D =? 0)); [|cbn; lia]. pose proof (IH (D / 10) (P + 1)). lia.
Qed.

Lemma ms_shortest : forall t m f R, f <= -9 -> R = 2 ^ (- f) -> 0 < m -> 1024 <= R <= m -> m < 2 ^ 43 * R ->
  2 * Z.abs (1000 * m - t * R) < 1000 -> 1000 * 2 ^ 52 - 250 < t * R ->
  exists D P, shortest m f = (D, P) /\ 0 <= D /\ D * pA P * 1000 = t * pB P.
Proof.
  intros t m f R Hf ER Hm HR HmR Hh Hlow.
  change (2 ^ 43) with 8796093022208 in HmR. change (2 ^ 52) with 4503599627370496 in Hlow.
  destruct (interval_small m f ltac:(lia)) as [Ex [Eu [El Ed]]].
  set (iv := interval m f) in *. rewrite <- ER in Ed.
  set (tR := t * R) in *.
  assert (Hd : 0 < iv_den iv) by lia.
  assert (Hx : iv_ln iv < iv_xn iv < iv_un iv) by (destruct El as [El|[_ El]]; lia).
  assert (HI : iv_ln iv * 1000 < t * iv_den iv < iv_un iv * 1000).
  { rewrite Ed, Eu. replace (t * (4 * R)) with (4 * tR) by (unfold tR; ring).
    destruct El as [El|[Em El]]; rewrite El; [lia|].
    change (2 ^ 52) with 4503599627370496 in Em. lia. }
  assert (HII : (iv_un iv - iv_ln iv) * 1000 < iv_den iv) by (destruct El as [El|[_ El]]; lia).
  assert (Hxd : iv_den iv <= iv_xn iv < 10 ^ 13 * iv_den iv).
  { change (10 ^ 13) with 10000000000000. lia. }
  destruct (ms_search iv t Hd Hx HI HII Hxd) as [D [P [E [HP Hin]]]].
  pose proof (shortest_nonneg m f ltac:(lia)) as Hnn.
  rewrite shortest_unfold in *. cbv zeta in *. fold iv in Hnn |- *. rewrite E in *.
  rewrite strip_zeros_interval, Hin in *.
  destruct (strip_zeros 20 D P) as [D2 P2] eqn:Es.
  assert (Hin2 : in_interval iv D2 P2 = true).
  { pose proof (strip_zeros_interval 20 iv D P) as H. rewrite Es in H. cbn [fst snd] in H. rewrite H. exact Hin. }
  assert (HP2 : -3 <= P2).
  { pose proof (strip_zeros_pos 20 D P) as H. rewrite Es in H. cbn [snd] in H. lia. }
  exists D2, P2. split; [reflexivity|]. split; [exact Hnn|].
  apply (ms_unique iv t D2 P2 Hd HI HII HP2 Hin2).
Qed.

(* ------------------------------------------------------------------------------------------ *)
(* step 4: the text *)

Fixpoint all_upto (f : nat) (t : Z) : bool :=
  match f with
  | O => true
  | S f => ms_exact_upto 1000 t && all_upto f (t + 1)
  end.
Lemma all_upto_spec : forall f t0 t, all_upto f t0 = true -> t0 <= t < t0 + Z.of_nat f -> ms_exact_upto 1000 t = true.
Proof.
  induction f as [|f IH]; intros t0 t H Ht; [lia|]. cbn [all_upto] in H. apply andb_prop in H. destruct H as [H1 H2].
  destruct (Z.eq_dec t t0) as [->|Hn]; [exact H1|]. apply (IH (t0 + 1)); [exact H2|lia].
Qed.
Lemma all_upto_1000 : all_upto 1000 0 = true.
Proof. vm_compute. reflexivity. Qed.

Lemma ms_exact_upto_elim : forall bound t, 0 <= t < bound -> ms_exact_upto bound t = true ->
  exists n k, read_fixed (wfloat64_text (ms_seconds t)) = Some (false, n, k) /\ n * 1000 = t * 10 ^ Z.of_nat k.
Proof.
  intros bound t Ht H. unfold ms_exact_upto in H.
  replace ((0 <=? t) && (t <? bound)) with true in H
    by (symmetry; apply andb_true_intro; split; [apply Z.leb_le|apply Z.ltb_lt]; lia).
  destruct (read_fixed (wfloat64_text (ms_seconds t))) as [[[[|] n] k]|]; try discriminate H.
  exists n, k. split; [reflexivity|]. apply Z.eqb_eq. exact H.
Qed.

Theorem ms_timestamp_exact : forall t, 0 <= t < 2 ^ 43 * 1000 ->
  exists n k, read_fixed (wfloat64_text (ms_seconds t)) = Some (false, n, k) /\ n * 1000 = t * 10 ^ Z.of_nat k.
Proof.
  intros t Ht. destruct (Z_lt_le_dec t 1000) as [Hs|Hb].
  - apply (ms_exact_upto_elim 1000); [lia|]. apply (all_upto_spec 1000 0 t all_upto_1000). lia.
  - destruct (ms_float t ltac:(lia)) as (m & f & R & Ef & Hf & ER & Hm & HR & HmR & Hh & Hlow).
    destruct (ms_shortest t m f R Hf ER Hm HR HmR Hh Hlow) as (D & P & Es & HD & Hv).
    rewrite Ef. cbn [wfloat64_text]. rewrite Es.
    change (2 ^ 43) with 8796093022208 in HmR.
    assert (E1 : lt_1e_6 m f = false).
    { unfold lt_1e_6. apply Z.ltb_ge. replace (Z.max f 0) with 0 by lia. replace (Z.max (- f) 0) with (- f) by lia.
      rewrite <- ER. change (2 ^ 0) with 1. change (2 ^ 72) with 4722366482869645213696. lia. }
    assert (E2 : ge_1e21 m f = false).
    { unfold ge_1e21. apply Z.leb_gt. replace (Z.max f 0) with 0 by lia. replace (Z.max (- f) 0) with (- f) by lia.
      rewrite <- ER. change (2 ^ 0) with 1. lia. }
    rewrite E1, E2. cbn [orb].
    destruct (fixed_of_dec_reads_back false D P HD) as (n & k & Hr & Hn).
    exists n, k. split; [exact Hr|].
    fold (pA P) in Hn. fold (pB P) in Hn. pose proof (pB_pos P) as HB.
    apply (Z.mul_cancel_r _ _ (pB P)); [lia|].
    replace (n * 1000 * pB P) with (n * pB P * 1000) by ring. rewrite Hn.
    replace (D * pA P * 10 ^ Z.of_nat k * 1000) with (D * pA P * 1000 * 10 ^ Z.of_nat k) by ring. rewrite Hv. ring.
Qed.

Theorem ms_exact_holds : forall t, ms_exact t = true.
Proof.
  intros t. unfold ms_exact, ms_exact_upto.
  destruct ((0 <=? t) && (t <? 2 ^ 43 * 1000)) eqn:G; [|reflexivity].
  apply andb_prop in G. destruct G as [G1 G2]. apply Z.leb_le in G1. apply Z.ltb_lt in G2.
  destruct (ms_timestamp_exact t (conj G1 G2)) as (n & k & Hr & Hn). rewrite Hr. apply Z.eqb_eq. exact Hn.
Qed.

(* from 2^43 seconds on neighbouring floats are 1/512 s apart: 8796093022208.001 s is printed 8796093022208.002 *)
Theorem ms_exact_2p53_refuted : exists t, 0 <= t < 2 ^ 53 /\ ms_exact_2p53 t = false.
Proof. exists 8796093022208001. split; [vm_compute; split; [discriminate|reflexivity]|vm_compute; reflexivity]. Qed.

Example ms_text_2p43_001 :
  wfloat64_text (ms_seconds 8796093022208001) = "8796093022208.002"%string /\
  wfloat64_text (ms_seconds 8796093022207999) = "8796093022207.999"%string /\
  wfloat64_text (ms_seconds 1727740800123) = "1727740800.123"%string.
Proof. vm_compute. repeat split. Qed.

Print Assumptions ms_timestamp_exact.
Print Assumptions ms_exact_holds.
Print Assumptions ms_exact_2p53_refuted.
