(* Proofs about the stamped settings rows (model/RotateClock.v): property C19. *)
From Coq Require Import List ZArith Bool String Ascii Lia.
From Qryn Require Import model.RotateClock.
Import ListNotations.
Open Scope string_scope.
Open Scope Z_scope.

Lemma increasing_last : forall l r, increasing (l ++ [r]) -> forall r', In r' l -> r_ts r' < r_ts r.
Proof.
  induction l as [|a l IH]; intros r H r' Hin; [destruct Hin|].
  cbn in H. destruct H as [Ha Hl]. destruct Hin as [<-|Hin]; [apply Ha, in_or_app; right; now left|now apply IH].
Qed.

(* with strictly increasing stamps every admissible answer is the value inserted last *)
Lemma strict_reads_latest rows k v : strict rows -> may_read rows k v -> v = latest rows k.
Proof.
  intros Hs [[He ->]|[r [Hin [<- Hmax]]]]; unfold latest; [now rewrite He|].
  specialize (Hs k). destruct (rows_of rows k) as [|a l] using rev_ind; [destruct Hin|]. clear IHl.
  rewrite rev_app_distr. cbn. apply in_app_or in Hin. destruct Hin as [Hin|[<-|[]]]; [|reflexivity].
  exfalso. pose proof (increasing_last _ _ Hs _ Hin) as Hlt.
  assert (Ha : In a (l ++ [a])) by (apply in_or_app; right; now left).
  specialize (Hmax a Ha). lia.
Qed.
Lemma latest_may_be_read rows k : strict rows -> may_read rows k (latest rows k).
Proof.
  intros Hs. unfold latest, may_read. generalize (Hs k). generalize (rows_of rows k) as l0. intros l0 Hinc.
  destruct l0 as [|a l _] using rev_ind; [left; now split|].
  right. exists a. rewrite rev_app_distr. cbn. split; [apply in_or_app; right; now left|]. split; [reflexivity|].
  intros r' Hin. apply in_app_or in Hin. destruct Hin as [Hin|[<-|[]]]; [|lia].
  pose proof (increasing_last _ _ Hinc _ Hin). lia.
Qed.

(* an INSERT whose stamp is later than every stamp of its fingerprint keeps the stamps strictly increasing *)
Lemma increasing_app : forall l r, increasing l -> (forall r', In r' l -> r_ts r' < r_ts r) -> increasing (l ++ [r]).
Proof.
  induction l as [|a l IH]; intros r Hl Hr; cbn; [split; [intros r' []|exact I]|].
  destruct Hl as [Ha Hl]. split.
  - intros r' Hin. apply in_app_or in Hin. destruct Hin as [Hin|[<-|[]]]; [now apply Ha|apply Hr; now left].
  - apply IH; [exact Hl|]. intros r' Hin. apply Hr. now right.
Qed.
Lemma rows_of_app rows r k : rows_of (rows ++ [r]) k = (rows_of rows k ++ (if r_key r =? k then [r] else []))%list.
Proof. unfold rows_of. rewrite filter_app. cbn. now destruct (r_key r =? k). Qed.
Lemma insert_keeps_strict rows r : strict rows ->
  (forall r', In r' rows -> r_key r' = r_key r -> r_ts r' < r_ts r) -> strict (rows ++ [r]).
Proof.
  intros Hs Hr k. rewrite rows_of_app. destruct (r_key r =? k) eqn:E; [|rewrite app_nil_r; apply Hs].
  apply Z.eqb_eq in E. apply increasing_app; [apply Hs|].
  intros r' Hin. unfold rows_of in Hin. apply filter_In in Hin. destruct Hin as [Hin Hk]. apply Z.eqb_eq in Hk.
  apply Hr; [exact Hin|congruence].
Qed.

(* the map of model/Rotate.v follows the INSERTs: after inserting (key g, v) the row inserted last for key g is v, the
   others are unchanged *)
Lemma latest_insert rows k v ts k' :
  latest (rows ++ [{| r_key := k; r_val := v; r_ts := ts |}]) k' = if k' =? k then v else latest rows k'.
Proof.
  unfold latest. rewrite rows_of_app. cbn [r_key]. rewrite (Z.eqb_sym k k'). destruct (k' =? k).
  - rewrite rev_app_distr. reflexivity.
  - now rewrite app_nil_r.
Qed.

(* NOW(): the row emptying a record and the row recording the applied value 20 ms later carry the same stamp, and
   ClickHouse may answer either: the empty record (the next start re-applies the group) ... *)
Lemma same_second_tie : exists clock rows,
  rows = [ {| r_key := 987312111; r_val := ""; r_ts := stamp_now clock |};
           {| r_key := 987312111; r_val := "date + toIntervalDay(60)"; r_ts := stamp_now (clock + 20000000) |} ] /\
  ~ strict rows /\ latest rows 987312111 = "date + toIntervalDay(60)" /\
  may_read rows 987312111 "" /\ may_read rows 987312111 "date + toIntervalDay(60)".
Proof.
  exists 1790000000100000000. eexists. split; [reflexivity|]. split.
  - intros H. specialize (H 987312111). cbn in H. destruct H as [H _].
    specialize (H _ (or_introl eq_refl)). vm_compute in H. discriminate.
  - split; [reflexivity|]. split; right.
    + eexists. split; [cbn; left; reflexivity|]. split; [reflexivity|].
      intros r' [<-|[<-|[]]]; vm_compute; discriminate.
    + eexists. split; [cbn; right; left; reflexivity|]. split; [reflexivity|].
      intros r' [<-|[<-|[]]]; vm_compute; discriminate.
Qed.
(* ... while now64(9) keeps them apart as soon as the clock moved *)
Lemma now64_strict clock dt : 0 < dt -> stamp_now64 clock < stamp_now64 (clock + dt).
Proof. unfold stamp_now64. lia. Qed.

