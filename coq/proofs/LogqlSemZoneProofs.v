(* C07, round 6: the day bound of the series-index reads printed in the zone of the reader process (seeded change
   C07-f) - arithmetic of the two days, and the refutation of logql_log_partial for a process east of UTC. *)
From Coq Require Import List ZArith QArith String Ascii Bool Lia Permutation.
From Qryn Require Import lib.Strs model.Sql model.Logql model.LogqlPlan model.SqlEval model.LogqlSem model.LogqlSemZone
  proofs.LogqlSemProofs.
Import ListNotations.
Open Scope string_scope.
Open Scope Z_scope.

(* ---------- the two days ---------- *)
Lemma local_from_day_utc f : local_from_day 0 f = from_day f.
Proof. unfold local_from_day, from_day. rewrite Z.mul_0_l, Z.add_0_r. reflexivity. Qed.

Lemma div_shift_le (D x o : Z) : 0 < D -> 0 <= o <= D -> x / D <= (x + o) / D <= x / D + 1.
Proof.
  intros HD Ho. split.
  - apply Z.div_le_mono; lia.
  - replace (x / D + 1) with ((x + 1 * D) / D) by (rewrite Z.div_add by lia; reflexivity).
    apply Z.div_le_mono; lia.
Qed.
Lemma div_shift_next (D x o : Z) : 0 < D -> 0 <= o <= D -> ((x + o) / D = x / D + 1 <-> D - o <= x mod D).
Proof.
  intros HD Ho. pose proof (Z.div_mod x D ltac:(lia)) as Hx. pose proof (Z.mod_pos_bound x D HD) as Hr.
  set (q := x / D) in *. set (r := x mod D) in *.
  split.
  - intros H. destruct (Z_lt_ge_dec (r + o) D) as [Hlt|Hge]; [|lia].
    assert ((x + o) / D = q) as H2.
    { symmetry. apply Z.div_unique with (r + o); lia. }
    lia.
  - intros H. symmetry. apply Z.div_unique with (r + o - D); lia.
Qed.

(* a process east of UTC (0 .. 24 h): the day printed is the UTC day or the next one ... *)
Lemma local_from_day_east off f : 0 <= off <= 86400 ->
  from_day f <= local_from_day off f <= from_day f + 1.
Proof.
  intros H. unfold local_from_day, from_day.
  replace (f + off * 1000000000 - 1800 * 1000000000) with ((f - 1800 * 1000000000) + off * 1000000000) by lia.
  apply div_shift_le; lia.
Qed.
(* ... the next one exactly when the UTC time of day of (start - 30 min) is within `off` of midnight: the last
   (off - 30 min) of every UTC day for a window start *)
Lemma local_from_day_east_next off f : 0 <= off <= 86400 ->
  (local_from_day off f = from_day f + 1 <->
   (86400 - off) * 1000000000 <= (f - 1800 * 1000000000) mod (86400 * 1000000000)).
Proof.
  intros H. unfold local_from_day, from_day.
  replace (f + off * 1000000000 - 1800 * 1000000000) with ((f - 1800 * 1000000000) + off * 1000000000) by lia.
  rewrite div_shift_next by lia.
  replace (86400 * 1000000000 - off * 1000000000) with ((86400 - off) * 1000000000) by lia. tauto.
Qed.
(* a process west of UTC: the UTC day or the one before - a bound that is never later than the right one *)
Lemma local_from_day_west off f : -86400 <= off <= 0 ->
  from_day f - 1 <= local_from_day off f <= from_day f.
Proof.
  intros H. unfold local_from_day, from_day.
  pose proof (div_shift_le (86400 * 1000000000) (f + off * 1000000000 - 1800 * 1000000000) (- off * 1000000000) ltac:(lia) ltac:(lia)) as Hs.
  replace (f + off * 1000000000 - 1800 * 1000000000 + - off * 1000000000) with (f - 1800 * 1000000000) in Hs by lia.
  lia.
Qed.

(* ---------- the witness: {app="billing"} |= "error", window [2024-03-10T21:00Z, 22:00Z), one stream that logged that
   evening only (index rows dated 2024-03-10 = day 19792), reader process in UTC+9 ---------- *)
Definition z_ctx : pctx :=
  {| c_from_ns := 1710104400000000000; c_to_ns := 1710108000000000000; c_limit := 0; c_asc := false; c_cluster := false;
     c_type := 0; c_finalize := true; c_step_ns := 1000000000; t_gin := "time_series_gin"; t_samples := "samples_v3";
     t_ts := "time_series"; t_ts_dist := "time_series"; t_m15 := "metrics_15s" |}.
Definition z_series : series_row := {| ts_day := 19792; ts_fp := 7; ts_labels := [("app", "billing")]; ts_type := 1 |}.
Definition z_line1 : sample := {| x_fp := 7; x_ts := 1710105000000000000; x_line := "job: error: batch 17 failed"; x_type := 1 |}.
Definition z_line2 : sample := {| x_fp := 7; x_ts := 1710105100000000000; x_line := "job: ok"; x_type := 1 |}.
Definition z_db : database :=
  {| d_gin := [gin_of z_series ("app", "billing")]; d_series := [z_series]; d_samples := [z_line1; z_line2] |}.
Definition z_query : strsel :=
  {| sel_matchers := [{| m_name := "app"; m_op := MEq; m_val := "billing" |}];
     sel_pipeline := [PLineFilter LFContains "error" None] |}.
Definition z_out : outrow :=
  {| o_fp := 7; o_labels := [("app", "billing")]; o_line := "job: error: batch 17 failed"; o_ts := 1710105000000000000 |}.

Lemma z_days : from_day (c_from_ns z_ctx) = 19792 /\ local_from_day 32400 (c_from_ns z_ctx) = 19793
  /\ local_from_day (-18000) (c_from_ns z_ctx) = 19792.
Proof. vm_compute. tauto. Qed.

Lemma z_db_ok : db_ok z_ctx z_db.
Proof.
  unfold db_ok, z_db. cbn [d_gin d_series d_samples]. split; [|split; [|split]].
  - intros g. split.
    + intros [<-|[]]. exists z_series, ("app", "billing"). cbn. tauto.
    + intros [s [kv [[<-|[]] [[<-|[]] ->]]]]. now left.
  - intros s1 s2 [<-|[]] [<-|[]] _. reflexivity.
  - intros s [<-|[]]. cbn. constructor; [intros []|constructor].
  - intros x [<-|[<-|[]]]; exists z_series;
      (split; [left; reflexivity|split; [reflexivity|split; [reflexivity|vm_compute; discriminate]]]).
Qed.

Lemma z_guards : in_fragment z_query = true /\ oracle_ok no_re no_float z_query /\ ctx_ok z_ctx = true /\ db_ok z_ctx z_db
  /\ width_guard z_query = true /\ absent_guard no_re z_query z_db.
Proof.
  split; [reflexivity|]. split.
  { intros s Hs. cbn in Hs. destruct Hs as [<-|[]]. cbn. tauto. }
  split; [reflexivity|]. split; [exact z_db_ok|]. split; [reflexivity|].
  intros m Hm He s Hs. cbn in Hm. destruct Hm as [<-|[]]. vm_compute in He. discriminate.
Qed.

(* the statement of the planners (UTC day bound) returns the matching line ... *)
Lemma z_utc_answer :
  exists sel, log_select z_query z_ctx = Some sel /\ zone_select 0 z_query z_ctx = Some sel
    /\ option_map (map row_out) (eval no_re no_float no_json no_hash tie_id (to_sqldb z_ctx z_db) sel) = Some [Some z_out].
Proof. eexists. split; [vm_compute; reflexivity|]. split; [vm_compute; reflexivity|vm_compute; reflexivity]. Qed.
(* ... so does the statement of a process west of UTC (New York: the bound is not later) ... *)
Lemma z_west_answer :
  exists sel, zone_select (-18000) z_query z_ctx = Some sel
    /\ option_map (map row_out) (eval no_re no_float no_json no_hash tie_id (to_sqldb z_ctx z_db) sel) = Some [Some z_out].
Proof. eexists. split; [vm_compute; reflexivity|vm_compute; reflexivity]. Qed.
(* ... the statement of a process in UTC+9 returns nothing: its bound is 2024-03-11 *)
Lemma z_east_answer :
  exists sel, zone_select 32400 z_query z_ctx = Some sel
    /\ eval no_re no_float no_json no_hash tie_id (to_sqldb z_ctx z_db) sel = Some [].
Proof. eexists. split; [vm_compute; reflexivity|vm_compute; reflexivity]. Qed.

Theorem day_bound_in_process_zone_refuted_proof : ~ zone_stmt 32400.
Proof.
  intros H. destruct z_guards as [H1 [H2 [H3 [H4 [H5 H6]]]]].
  destruct (H no_groups no_re no_float no_json no_hash tie_id (fun A l => Permutation_refl l) z_query z_ctx z_db H1 H2 H3 H4 H5 H6)
    as [sel [rows [outs [Hsel [Hev [Hout Hsem]]]]]].
  destruct z_east_answer as [sel' [Hsel' Hev']]. rewrite Hsel in Hsel'. injection Hsel' as <-.
  rewrite Hev in Hev'. injection Hev' as ->.
  destruct outs; [|discriminate]. unfold logql_sem in Hsem. cbn [c_limit z_ctx Z.eqb] in Hsem.
  apply Permutation_length in Hsem. vm_compute in Hsem. discriminate.
Qed.
