(* C09, round 7: what a `| drop` stage that names one label several times means, on both engines.
   The in-process stage (model/InternalEngine.v drop_hit, planner_drop.go: a walk over ALL parameters for every label) and the
   ClickHouse stage (model/SqlEval.v drop_keeps: one conjunct `(k, v) != (name, value)` per parameter) are the same
   disjunction / conjunction over every parameter, repeated names included; a table holding ONE value per name (the last
   parameter naming the label) is right exactly when no name is repeated, and wrong on `drop level="debug", level="info"`. *)
From Coq Require Import List Bool String.
From Qryn Require Import model.SqlEval model.LogqlSem.
From Qryn Require model.InternalEngine.
From Qryn Require Import model.InternalEngineSql proofs.InternalEngineSqlProofs.
Import ListNotations.
Open Scope string_scope.

(* what ONE parameter removes: `name` any value, `name=""` likewise, `name="x"` the label only when it carries x *)
Definition param_hits (k v : string) (p : string * option string) : bool :=
  String.eqb k (fst p) && match snd p with None => true | Some x => String.eqb x "" || String.eqb v x end.

Lemma in_process_drop_is_any_parameter ps k v :
  IE.drop_hit k v (drop_names ps) (drop_vals ps) = existsb (param_hits k v) ps.
Proof.
  unfold drop_names, drop_vals, param_hits. induction ps as [|p r IH]; [reflexivity|].
  cbn [map IE.drop_hit existsb]. rewrite IH. f_equal. f_equal. destruct (snd p); reflexivity.
Qed.

Lemma sql_drop_is_every_parameter ps k v :
  drop_keeps (map drop_spec ps) (k, v) = forallb (fun p => negb (param_hits k v p)) ps.
Proof.
  rewrite drop_pred. cbn [fst snd]. rewrite in_process_drop_is_any_parameter.
  induction ps as [|p r IH]; [reflexivity|]. cbn [existsb forallb]. rewrite negb_orb, IH. reflexivity.
Qed.

Lemma both_engines_drop_the_same_labels ps k v :
  drop_keeps (map drop_spec ps) (k, v) = negb (existsb (param_hits k v) ps)
  /\ negb (IE.drop_hit k v (drop_names ps) (drop_vals ps)) = negb (existsb (param_hits k v) ps).
Proof.
  split; [|now rewrite in_process_drop_is_any_parameter].
  now rewrite drop_pred; cbn [fst snd]; rewrite in_process_drop_is_any_parameter.
Qed.

(* ---------- one value per name: the last parameter that names the label decides (a Go map filled in a loop) ---------- *)
Fixpoint last_for (k : string) (ps : list (string * option string)) : option (string * option string) :=
  match ps with
  | [] => None
  | p :: r => match last_for k r with Some q => Some q | None => if String.eqb k (fst p) then Some p else None end
  end.
Definition drop_hit_one_per_name (k v : string) (ps : list (string * option string)) : bool :=
  match last_for k ps with Some p => param_hits k v p | None => false end.

Lemma last_for_some k ps q : last_for k ps = Some q -> In q ps /\ String.eqb k (fst q) = true.
Proof.
  induction ps as [|p r IH]; cbn [last_for]; [discriminate|].
  destruct (last_for k r) as [q'|].
  - intros E. injection E as ->. destruct (IH eq_refl) as [Hi He]. split; [now right|exact He].
  - destruct (String.eqb k (fst p)) eqn:E; [|discriminate]. intros H. injection H as <-. split; [now left|exact E].
Qed.
Lemma last_for_none k v ps : last_for k ps = None -> existsb (param_hits k v) ps = false.
Proof.
  induction ps as [|p r IH]; cbn [last_for existsb]; [reflexivity|].
  destruct (last_for k r); [discriminate|]. destruct (String.eqb k (fst p)) eqn:E; [discriminate|].
  intros _. rewrite (IH eq_refl). unfold param_hits. rewrite E. reflexivity.
Qed.

Lemma one_value_per_name_is_right_without_repeats ps k v :
  NoDup (map fst ps) -> drop_hit_one_per_name k v ps = existsb (param_hits k v) ps.
Proof.
  unfold drop_hit_one_per_name. induction ps as [|p r IH]; [reflexivity|].
  cbn [map]. intros Hn. inversion Hn as [|x l Hni Hr]; subst. specialize (IH Hr).
  cbn [last_for existsb]. destruct (last_for k r) as [q|] eqn:El.
  - destruct (last_for_some _ _ _ El) as [Hi He]. apply String.eqb_eq in He.
    assert (Hk : String.eqb k (fst p) = false).
    { apply String.eqb_neq. intros E. apply Hni. rewrite <- E, He. now apply in_map. }
    rewrite <- IH. unfold param_hits at 2. rewrite Hk. reflexivity.
  - rewrite (last_for_none k v r El), orb_false_r.
    destruct (String.eqb k (fst p)) eqn:E; unfold param_hits; rewrite ?E; reflexivity.
Qed.

(* `| drop level="debug", level="info"` on level="debug": both engines drop the label, the one-value-per-name table keeps it *)
Lemma one_value_per_name_refuted :
  let ps := [("level", Some "debug"); ("level", Some "info")] in
  drop_hit_one_per_name "level" "debug" ps = false
  /\ IE.drop_hit "level" "debug" (drop_names ps) (drop_vals ps) = true
  /\ drop_keeps (map drop_spec ps) ("level", "debug") = false
  /\ drop_hit_one_per_name "level" "info" ps = true.
Proof. repeat split; reflexivity. Qed.
(* `| drop level, level="x"`: the bare parameter is lost behind the valued one *)
Lemma bare_parameter_lost_behind_a_valued_one :
  let ps := [("level", None); ("level", Some "x")] in
  drop_hit_one_per_name "level" "debug" ps = false /\ IE.drop_hit "level" "debug" (drop_names ps) (drop_vals ps) = true.
Proof. split; reflexivity. Qed.

(* the hypothesis of the repeat-free statement is met by a stage of two parameters, on a label one of them removes *)
Example repeat_free_stage :
  let ps := [("level", Some "debug"); ("pod", None)] in
  NoDup (map fst ps) /\ drop_hit_one_per_name "level" "debug" ps = true /\ existsb (param_hits "pod" "p1") ps = true.
Proof. cbn. repeat split; try reflexivity. repeat constructor; cbn; intuition discriminate. Qed.
