(* C15 - the fall-back branch of [shortest] (model/GoFloat.v) is never taken for a float64 magnitude:
   the digit search succeeds within its 17 positions, and what it returns lies in the rounding interval, so
   [shortest m e] is the zero-stripped result of the search (strconv's roundShortest never needs more than 17 digits). *)
From Coq Require Import List NArith ZArith Bool Ascii String Lia.
From Qryn Require Import model.GoFloat model.JsonStream proofs.GoFloatProofs proofs.GoFloatReadProofs proofs.GoFloatRoundProofs.
Import ListNotations.
Open Scope Z_scope.

(* ------------------------------------------------------------------------------------------ *)
(* the two powers of ten that travel with a digit position P *)

Definition pA (P : Z) : Z := 10 ^ Z.max P 0.
Definition pB (P : Z) : Z := 10 ^ Z.max (- P) 0.

Lemma pA_pos : forall P, 0 < pA P.
Proof. intros P. apply Z.pow_pos_nonneg; lia. Qed.
Lemma pB_pos : forall P, 0 < pB P.
Proof. intros P. apply Z.pow_pos_nonneg; lia. Qed.

Lemma pA_step_hi : forall P, 1 <= P -> pA P = 10 * pA (P - 1).
Proof.
  intros P H. unfold pA. replace (Z.max P 0) with (Z.succ (Z.max (P - 1) 0)) by lia.
  rewrite Z.pow_succ_r by lia. reflexivity.
Qed.
Lemma pB_step_hi : forall P, 1 <= P -> pB (P - 1) = pB P.
Proof. intros P H. unfold pB. f_equal. lia. Qed.
Lemma pA_step_lo : forall P, P <= 0 -> pA (P - 1) = pA P.
Proof. intros P H. unfold pA. f_equal. lia. Qed.
Lemma pB_step_lo : forall P, P <= 0 -> pB (P - 1) = pB P * 10.
Proof.
  intros P H. unfold pB. replace (Z.max (- (P - 1)) 0) with (Z.succ (Z.max (- P) 0)) by lia.
  rewrite Z.pow_succ_r by lia. ring.
Qed.
Lemma pA_nonneg_P : forall P, 0 <= P -> pA P = 10 ^ P /\ pB P = 1.
Proof. intros P H. unfold pA, pB. replace (Z.max P 0) with P by lia. replace (Z.max (- P) 0) with 0 by lia. auto. Qed.
Lemma pB_neg_P : forall P, P <= 0 -> pA P = 1 /\ pB P = 10 ^ (- P).
Proof. intros P H. unfold pA, pB. replace (Z.max P 0) with 0 by lia. replace (Z.max (- P) 0) with (- P) by lia. auto. Qed.

(* pA P / pB P = 10^P: shifting the position by k >= 0 *)
Lemma pAB_shift : forall P k, 0 <= k -> pA P * pB (P - k) = 10 ^ k * pA (P - k) * pB P.
Proof.
  intros P k Hk. unfold pA, pB. rewrite <- !Z.pow_add_r by lia. f_equal. lia.
Qed.

(* ------------------------------------------------------------------------------------------ *)
(* the search at position P of an interval: the state is a function of P alone *)

Definition srch (f : nat) (iv : ival) (P : Z) : option (Z * Z) :=
  search f (iv_incl iv) P (iv_xn iv * pB P) (iv_ln iv * pB P) (iv_un iv * pB P) (pA P * iv_den iv).

Lemma srch_eq : forall f iv P,
  srch f iv P = search f (iv_incl iv) P (iv_xn iv * 10 ^ Z.max (- P) 0) (iv_ln iv * 10 ^ Z.max (- P) 0)
                       (iv_un iv * 10 ^ Z.max (- P) 0) (10 ^ Z.max P 0 * iv_den iv).
Proof. reflexivity. Qed.

Lemma search_S : forall f incl P xb lb ub half,
  search (S f) incl P xb lb ub half =
  let t := xb / half in
  let d := t * half in
  let okdown := in_bounds incl lb ub d in
  let okup := in_bounds incl lb ub (d + half) in
  let rem2 := 2 * (xb - d) in
  let up_nearer := (half <? rem2) || ((half =? rem2) && Z.odd t) in
  if okdown && okup then Some ((if up_nearer then t + 1 else t), P)
  else if okdown then Some (t, P)
  else if okup then Some (t + 1, P)
  else if 1 <=? P then search f incl (P - 1) xb lb ub (half / 10)
  else search f incl (P - 1) (xb * 10) (lb * 10) (ub * 10) half.
Proof. reflexivity. Qed.

Lemma srch_next : forall f iv P,
  (if 1 <=? P
   then search f (iv_incl iv) (P - 1) (iv_xn iv * pB P) (iv_ln iv * pB P) (iv_un iv * pB P) (pA P * iv_den iv / 10)
   else search f (iv_incl iv) (P - 1) (iv_xn iv * pB P * 10) (iv_ln iv * pB P * 10) (iv_un iv * pB P * 10) (pA P * iv_den iv))
  = srch f iv (P - 1).
Proof.
  intros f iv P. unfold srch. destruct (1 <=? P) eqn:E.
  - apply Z.leb_le in E. rewrite (pB_step_hi P E), (pA_step_hi P E).
    replace (10 * pA (P - 1) * iv_den iv) with (pA (P - 1) * iv_den iv * 10) by ring.
    rewrite Z.div_mul by lia. reflexivity.
  - apply Z.leb_gt in E. rewrite (pB_step_lo P), (pA_step_lo P) by lia.
    rewrite !Z.mul_assoc. reflexivity.
Qed.

Lemma srch_S : forall f iv P,
  srch (S f) iv P =
  let half := pA P * iv_den iv in
  let xb := iv_xn iv * pB P in
  let lb := iv_ln iv * pB P in
  let ub := iv_un iv * pB P in
  let t := xb / half in
  let okdown := in_bounds (iv_incl iv) lb ub (t * half) in
  let okup := in_bounds (iv_incl iv) lb ub (t * half + half) in
  if okdown && okup
  then Some ((if (half <? 2 * (xb - t * half)) || ((half =? 2 * (xb - t * half)) && Z.odd t) then t + 1 else t), P)
  else if okdown then Some (t, P)
  else if okup then Some (t + 1, P)
  else srch f iv (P - 1).
Proof.
  intros f iv P. rewrite <- srch_next. unfold srch at 1. rewrite search_S. reflexivity.
Qed.

Lemma in_interval_bounds : forall iv D P,
  in_interval iv D P = in_bounds (iv_incl iv) (iv_ln iv * pB P) (iv_un iv * pB P) (D * (pA P * iv_den iv)).
Proof.
  intros iv D P. unfold in_interval, in_interval_ab, in_bounds, pA, pB. rewrite !Z.mul_assoc. reflexivity.
Qed.

(* soundness: what the search returns lies in the interval *)
Lemma srch_sound : forall f iv P D P', srch f iv P = Some (D, P') -> in_interval iv D P' = true.
Proof.
  induction f as [|f IH]; intros iv P D P' H; [discriminate H|].
  rewrite srch_S in H. cbv zeta in H.
  set (half := pA P * iv_den iv) in *. set (t := iv_xn iv * pB P / half) in *.
  destruct (in_bounds (iv_incl iv) (iv_ln iv * pB P) (iv_un iv * pB P) (t * half)) eqn:Ed;
  destruct (in_bounds (iv_incl iv) (iv_ln iv * pB P) (iv_un iv * pB P) (t * half + half)) eqn:Eu;
  cbn [andb] in H.
  - injection H as <- <-. rewrite in_interval_bounds. fold half.
    destruct (_ || _); [replace ((t + 1) * half) with (t * half + half) by ring; exact Eu|exact Ed].
  - injection H as <- <-. rewrite in_interval_bounds. exact Ed.
  - injection H as <- <-. rewrite in_interval_bounds. fold half.
    replace ((t + 1) * half) with (t * half + half) by ring. exact Eu.
  - eapply IH. exact H.
Qed.

(* the position never moves up: P' <= P *)
Lemma srch_pos : forall f iv P D P', srch f iv P = Some (D, P') -> P - Z.of_nat f < P' <= P.
Proof.
  induction f as [|f IH]; intros iv P D P' H; [discriminate H|].
  rewrite srch_S in H. cbv zeta in H.
  destruct (in_bounds _ _ _ _); destruct (in_bounds _ _ _ _); cbn [andb] in H;
    try (injection H as _ <-; lia).
  apply IH in H. lia.
Qed.

(* when the digit step is shorter than the interval, rounding down or rounding up stays inside *)
Lemma gap_ok : forall incl lb xb ub half, 0 < half -> lb < xb < ub -> half < ub - lb ->
  in_bounds incl lb ub (xb / half * half) || in_bounds incl lb ub (xb / half * half + half) = true.
Proof.
  intros incl lb xb ub half Hh Hx Hg.
  pose proof (Z.div_mod xb half ltac:(lia)) as E. pose proof (Z.mod_pos_bound xb half Hh) as Hr.
  set (d := xb / half * half). assert (Hd : d <= xb < d + half) by (unfold d; lia).
  clearbody d. unfold in_bounds. destruct incl.
  - destruct (Z.leb_spec lb d), (Z.leb_spec d ub), (Z.leb_spec lb (d + half)), (Z.leb_spec (d + half) ub);
      cbn [andb orb]; try reflexivity; lia.
  - destruct (Z.ltb_spec lb d), (Z.ltb_spec d ub), (Z.ltb_spec lb (d + half)), (Z.ltb_spec (d + half) ub);
      cbn [andb orb]; try reflexivity; lia.
Qed.

(* rounding down or rounding up at position P stays inside the interval *)
Definition ok_at (iv : ival) (P : Z) : bool :=
  let half := pA P * iv_den iv in
  let t := iv_xn iv * pB P / half in
  in_bounds (iv_incl iv) (iv_ln iv * pB P) (iv_un iv * pB P) (t * half) ||
  in_bounds (iv_incl iv) (iv_ln iv * pB P) (iv_un iv * pB P) (t * half + half).

(* the search stops at the latest at the first position where that is so *)
Lemma srch_stops : forall f iv P j, (j <= f)%nat -> ok_at iv (P - Z.of_nat j) = true ->
  exists D P', srch (S f) iv P = Some (D, P') /\ P - Z.of_nat j <= P'.
Proof.
  induction f as [|f IH]; intros iv P j Hj Hok; rewrite srch_S; cbv zeta.
  - assert (j = O) by lia. subst j. replace (P - Z.of_nat 0) with P in Hok by lia. unfold ok_at in Hok. cbv zeta in Hok.
    destruct (in_bounds _ _ _ _); destruct (in_bounds _ _ _ _); cbn [andb orb] in *;
      try discriminate Hok; eexists; eexists; (split; [reflexivity|lia]).
  - destruct j as [|j].
    + replace (P - Z.of_nat 0) with P in Hok by lia. unfold ok_at in Hok. cbv zeta in Hok.
      destruct (in_bounds _ _ _ _); destruct (in_bounds _ _ _ _); cbn [andb orb] in *;
        try discriminate Hok; eexists; eexists; (split; [reflexivity|lia]).
    + destruct (in_bounds _ _ _ _); destruct (in_bounds _ _ _ _); cbn [andb];
        try (eexists; eexists; (split; [reflexivity|lia])).
      destruct (IH iv (P - 1) j ltac:(lia)) as [D [P' [E HP]]].
      { replace (P - 1 - Z.of_nat j) with (P - Z.of_nat (S j)) by lia. exact Hok. }
      exists D, P'. split; [exact E|lia].
Qed.

(* completeness: in particular at the first position whose step is shorter than the interval *)
Lemma srch_complete : forall f iv P, 0 < iv_den iv -> iv_ln iv < iv_xn iv < iv_un iv ->
  pA (P - Z.of_nat f) * iv_den iv < (iv_un iv - iv_ln iv) * pB (P - Z.of_nat f) ->
  exists D P', srch (S f) iv P = Some (D, P').
Proof.
  intros f iv P Hd Hx Hg. set (Q := P - Z.of_nat f) in *.
  pose proof (pA_pos Q) as HA. pose proof (pB_pos Q) as HB.
  assert (Hok : ok_at iv Q = true).
  { unfold ok_at. cbv zeta.
    apply (gap_ok (iv_incl iv) (iv_ln iv * pB Q) (iv_xn iv * pB Q) (iv_un iv * pB Q) (pA Q * iv_den iv)); nia. }
  destruct (srch_stops f iv P f (le_n f) Hok) as [D [P' [E _]]]. eauto.
Qed.

(* ------------------------------------------------------------------------------------------ *)
(* the starting position: 10^(dp-1) <= xn / den *)

Fixpoint log_table_ok (f : nat) (L : Z) : bool :=
  match f with
  | O => true
  | S f => (10 ^ (L * 30103 / 100000 - 1) <=? 2 ^ L) && log_table_ok f (L + 1)
  end.
Lemma log_table_ok_spec : forall f L0 L, log_table_ok f L0 = true -> L0 <= L < L0 + Z.of_nat f ->
  10 ^ (L * 30103 / 100000 - 1) <= 2 ^ L.
Proof.
  induction f as [|f IH]; intros L0 L H HL; [lia|]. cbn [log_table_ok] in H. apply andb_prop in H. destruct H as [H1 H2].
  destruct (Z.eq_dec L L0) as [->|Hn]; [apply Z.leb_le; exact H1|].
  apply (IH (L0 + 1)); [exact H2|lia].
Qed.
Lemma log_table_1101 : log_table_ok 1101 0 = true.
Proof. vm_compute. reflexivity. Qed.
Lemma log_table : forall L, 0 <= L <= 1100 -> 10 ^ (L * 30103 / 100000 - 1) <= 2 ^ L.
Proof. intros L H. apply (log_table_ok_spec 1101 0 L log_table_1101). lia. Qed.

Lemma dec_len_lower : forall q, 1 <= q < 2 ^ 1100 -> 1 <= dec_len q /\ 10 ^ (dec_len q - 1) <= q.
Proof.
  intros q Hq. unfold dec_len.
  assert (HL : 0 <= Z.log2 q < 1100) by (split; [apply Z.log2_nonneg|apply Z.log2_lt_pow2; lia]).
  pose proof (Z.log2_spec q ltac:(lia)) as Hs.
  set (L := Z.log2 q) in *. set (g := L * 30103 / 100000).
  assert (Hg : 0 <= g) by (unfold g; apply Z.div_pos; lia).
  destruct (Z.leb_spec (10 ^ (g + 1)) q) as [H1|H1].
  - split; [lia|]. replace (g + 2 - 1) with (g + 1) by lia. exact H1.
  - destruct (Z.leb_spec (10 ^ g) q) as [H2|H2].
    + split; [lia|]. replace (g + 1 - 1) with g by lia. exact H2.
    + assert (g <> 0) by (intros ->; change (10 ^ 0) with 1 in H2; lia).
      split; [lia|]. pose proof (log_table L ltac:(lia)) as T. fold g in T. lia.
Qed.

Lemma lead_zeros_spec : forall f x den j, 0 < x -> den <= x * 10 ^ Z.of_nat f ->
  exists k, lead_zeros f x den j = j + k /\ 0 <= k /\ den <= x * 10 ^ (k + 1).
Proof.
  induction f as [|f IH]; intros x den j Hx Hf.
  - exists 0. cbn [lead_zeros]. change (10 ^ Z.of_nat 0) with 1 in Hf. change (10 ^ (0 + 1)) with 10. lia.
  - cbn [lead_zeros]. destruct (Z.leb_spec den (x * 10)) as [H|H].
    + exists 0. change (10 ^ (0 + 1)) with 10. lia.
    + destruct (IH (x * 10) den (j + 1) ltac:(lia)) as [k [E [Hk Hb]]].
      { rewrite Nat2Z.inj_succ, Z.pow_succ_r in Hf by lia. lia. }
      exists (k + 1). rewrite E. split; [lia|]. split; [lia|].
      rewrite (Z.pow_add_r 10 (k + 1) 1) by lia. change (10 ^ 1) with 10. lia.
Qed.

Lemma dec_exp_lower : forall xn den, 0 < xn < den * 2 ^ 1100 -> 0 < den ->
  let P0 := dec_exp xn den - 1 in pA P0 * den <= xn * pB P0.
Proof.
  intros xn den Hx Hd. cbv zeta. unfold dec_exp. destruct (Z.leb_spec den xn) as [H|H].
  - assert (Hq : 1 <= xn / den < 2 ^ 1100).
    { split; [apply Z.div_le_lower_bound; lia|]. apply Z.div_lt_upper_bound; lia. }
    destruct (dec_len_lower _ Hq) as [H1 H2]. set (dp := dec_len (xn / den)) in *.
    destruct (pA_nonneg_P (dp - 1) ltac:(lia)) as [-> ->].
    pose proof (Z.mul_div_le xn den Hd). nia.
  - assert (Hf : den <= xn * 10 ^ Z.of_nat (S (Z.to_nat (Z.log2 den)))).
    { rewrite Nat2Z.inj_succ, Z2Nat.id by apply Z.log2_nonneg.
      pose proof (Z.log2_spec den Hd) as [_ Hs].
      assert (2 ^ Z.succ (Z.log2 den) <= 10 ^ Z.succ (Z.log2 den))
        by (apply Z.pow_le_mono_l; pose proof (Z.log2_nonneg den); lia).
      nia. }
    destruct (lead_zeros_spec _ xn den 0 ltac:(lia) Hf) as [k [E [Hk Hb]]]. rewrite E.
    destruct (pB_neg_P (- (0 + k) - 1) ltac:(lia)) as [-> ->].
    replace (- (- (0 + k) - 1)) with (k + 1) by lia. lia.
Qed.

(* ------------------------------------------------------------------------------------------ *)
(* the interval of a float64 magnitude over the quarter unit q = 2^(e+s-2) *)

Lemma interval_quarters : forall m e,
  let iv := interval m e in
  let q := 2 ^ (e + Z.max 0 (2 - e) - 2) in
  0 < q /\ iv_xn iv = 4 * m * q /\ iv_un iv = (4 * m + 2) * q /\
  iv_ln iv = (if (m =? 2 ^ 52) && negb (e =? -1074) then (4 * m - 1) * q else (4 * m - 2) * q) /\
  iv_den iv = 2 ^ Z.max 0 (2 - e).
Proof.
  intros m e. cbv zeta. unfold interval. cbn [iv_xn iv_ln iv_un iv_den].
  set (s := Z.max 0 (2 - e)). set (E := e + s). assert (HE : 2 <= E) by (unfold E, s; lia).
  assert (H2 : 2 ^ (E - 1) = 2 * 2 ^ (E - 2)) by (rewrite <- Z.pow_succ_r by lia; f_equal; lia).
  assert (H1 : 2 ^ E = 4 * 2 ^ (E - 2)) by (replace E with (Z.succ (E - 1)) at 1 by lia; rewrite Z.pow_succ_r by lia; lia).
  assert (Hq : 0 < 2 ^ (E - 2)) by (apply Z.pow_pos_nonneg; lia).
  rewrite H1, H2. set (q := 2 ^ (E - 2)) in *.
  split; [exact Hq|]. split; [ring|]. split; [ring|]. split; [|reflexivity].
  destruct ((m =? 2 ^ 52) && negb (e =? -1074)); ring.
Qed.

Lemma interval_facts : forall m e, 0 < m < 2 ^ 53 -> -1074 <= e <= 971 ->
  let iv := interval m e in
  0 < iv_den iv /\ iv_ln iv < iv_xn iv < iv_un iv /\ 0 < iv_xn iv < 2 ^ 1100 /\
  iv_xn iv < (iv_un iv - iv_ln iv) * 10 ^ 16.
Proof.
  intros m e Hm He. cbv zeta. destruct (interval_quarters m e) as [Hq [Ex [Eu [El Ed]]]].
  set (q := 2 ^ (e + Z.max 0 (2 - e) - 2)) in *.
  change (2 ^ 53) with 9007199254740992 in Hm. change (10 ^ 16) with 10000000000000000.
  split; [rewrite Ed; apply Z.pow_pos_nonneg; lia|].
  assert (Hx : 0 < iv_xn (interval m e) < 2 ^ 1100).
  { rewrite Ex. split; [nia|].
    assert (Hq2 : q <= 2 ^ 969) by (unfold q; apply Z.pow_le_mono_r; lia).
    assert (E3 : 2 ^ 1100 = 4 * 9007199254740992 * 2 ^ 969 * 2 ^ 76).
    { change 4 with (2 ^ 2). change 9007199254740992 with (2 ^ 53). rewrite <- !Z.pow_add_r by lia. reflexivity. }
    assert (0 < 2 ^ 969) by (apply Z.pow_pos_nonneg; lia).
    assert (1 <= 2 ^ 76) by (change 1 with (2 ^ 0); apply Z.pow_le_mono_r; lia).
    rewrite E3. set (B := 2 ^ 969) in *. set (C := 2 ^ 76) in *. nia. }
  split; [|split; [exact Hx|]].
  - rewrite Ex, Eu, El. destruct ((m =? 2 ^ 52) && negb (e =? -1074)); nia.
  - rewrite Ex, Eu, El. destruct ((m =? 2 ^ 52) && negb (e =? -1074)) eqn:Eb.
    + apply andb_prop in Eb. destruct Eb as [Eb _]. apply Z.eqb_eq in Eb. change (2 ^ 52) with 4503599627370496 in Eb.
      subst m. nia.
    + nia.
Qed.

(* the 17th position (P0 - 16) has a step shorter than the interval *)
Lemma gap_at_17 : forall iv, 0 < iv_den iv -> 0 < iv_xn iv < 2 ^ 1100 ->
  iv_xn iv < (iv_un iv - iv_ln iv) * 10 ^ 16 ->
  let P0 := dec_exp (iv_xn iv) (iv_den iv) - 1 in
  pA (P0 - 16) * iv_den iv < (iv_un iv - iv_ln iv) * pB (P0 - 16).
Proof.
  intros iv Hd Hx Hg. cbv zeta.
  assert (Hx' : 0 < iv_xn iv < iv_den iv * 2 ^ 1100).
  { split; [lia|]. assert (0 < 2 ^ 1100) by (apply Z.pow_pos_nonneg; lia). nia. }
  pose proof (dec_exp_lower (iv_xn iv) (iv_den iv) Hx' Hd) as H0. cbv zeta in H0.
  set (P0 := dec_exp (iv_xn iv) (iv_den iv) - 1) in *.
  pose proof (pAB_shift P0 16 ltac:(lia)) as Hs.
  pose proof (pA_pos P0) as HA0. pose proof (pB_pos P0) as HB0.
  pose proof (pA_pos (P0 - 16)) as HA. pose proof (pB_pos (P0 - 16)) as HB.
  set (A0 := pA P0) in *. set (B0 := pB P0) in *. set (A := pA (P0 - 16)) in *. set (B := pB (P0 - 16)) in *.
  set (g := iv_un iv - iv_ln iv) in *. set (xn := iv_xn iv) in *. set (den := iv_den iv) in *.
  set (T := 10 ^ 16) in *. assert (HT : 0 < T) by (unfold T; lia).
  destruct (Z_lt_le_dec (A * den) (g * B)) as [G|G]; [exact G|exfalso].
  (* g*B <= A*den: multiply by T*B0 *)
  assert (K1 : g * B * (T * B0) <= A * den * (T * B0)) by (apply Z.mul_le_mono_nonneg_r; nia).
  assert (K2 : A * den * (T * B0) = A0 * den * B) by (replace (A * den * (T * B0)) with (T * A * B0 * den) by ring; rewrite <- Hs; ring).
  assert (K3 : A0 * den * B <= xn * B0 * B) by (apply Z.mul_le_mono_nonneg_r; lia).
  assert (K4 : (g * T) * (B * B0) <= xn * (B * B0)) by (replace (g * T * (B * B0)) with (g * B * (T * B0)) by ring; replace (xn * (B * B0)) with (xn * B0 * B) by ring; lia).
  assert (HBB : 0 < B * B0) by nia.
  apply Z.mul_le_mono_pos_r in K4; [|exact HBB]. lia.
Qed.

(* ------------------------------------------------------------------------------------------ *)
(* stripping trailing zeros keeps the decimal inside the interval *)

Lemma strip_step_interval : forall iv D P, D mod 10 = 0 -> in_interval iv (D / 10) (P + 1) = in_interval iv D P.
Proof.
  intros iv D P Hm. pose proof (Z.div_mod D 10 ltac:(lia)) as E. rewrite Hm, Z.add_0_r in E.
  set (D' := D / 10) in *. rewrite E. rewrite !in_interval_bounds.
  pose proof (pA_pos (P + 1)). pose proof (pB_pos (P + 1)).
  destruct (Z_le_gt_dec 0 P) as [HP|HP].
  - pose proof (pA_step_hi (P + 1) ltac:(lia)) as EA. pose proof (pB_step_hi (P + 1) ltac:(lia)) as EB.
    replace (P + 1 - 1) with P in * by lia. rewrite EB, EA. f_equal. ring.
  - pose proof (pA_step_lo (P + 1) ltac:(lia)) as EA. pose proof (pB_step_lo (P + 1) ltac:(lia)) as EB.
    replace (P + 1 - 1) with P in * by lia. rewrite EB, EA.
    set (L := iv_ln iv * pB (P + 1)). set (U := iv_un iv * pB (P + 1)). set (Y := D' * (pA (P + 1) * iv_den iv)).
    replace (iv_ln iv * (pB (P + 1) * 10)) with (10 * L) by (unfold L; ring).
    replace (iv_un iv * (pB (P + 1) * 10)) with (10 * U) by (unfold U; ring).
    replace (10 * D' * (pA (P + 1) * iv_den iv)) with (10 * Y) by (unfold Y; ring).
    unfold in_bounds. destruct (iv_incl iv).
    + destruct (Z.leb_spec L Y), (Z.leb_spec (10 * L) (10 * Y)); try lia;
      destruct (Z.leb_spec Y U), (Z.leb_spec (10 * Y) (10 * U)); try lia; reflexivity.
    + destruct (Z.ltb_spec L Y), (Z.ltb_spec (10 * L) (10 * Y)); try lia;
      destruct (Z.ltb_spec Y U), (Z.ltb_spec (10 * Y) (10 * U)); try lia; reflexivity.
Qed.

Lemma strip_zeros_interval : forall f iv D P,
  in_interval iv (fst (strip_zeros f D P)) (snd (strip_zeros f D P)) = in_interval iv D P.
Proof.
  induction f as [|f IH]; intros iv D P; [reflexivity|]. cbn [strip_zeros].
  destruct ((D mod 10 =? 0) && negb (D =? 0)) eqn:E; [|reflexivity].
  apply andb_prop in E. destruct E as [E _]. apply Z.eqb_eq in E.
  rewrite IH. apply strip_step_interval. exact E.
Qed.

(* ------------------------------------------------------------------------------------------ *)
(* Part A *)

Lemma shortest_unfold : forall m e,
  shortest m e =
  let iv := interval m e in
  let c := match srch 17 iv (dec_exp (iv_xn iv) (iv_den iv) - 1) with
           | Some (D, P') => strip_zeros 20 D P'
           | None => exact_dec m e
           end in
  if in_interval iv (fst c) (snd c) then c else exact_dec m e.
Proof. intros m e. unfold shortest, srch, pA, pB. cbv zeta. reflexivity. Qed.

Theorem shortest_search : forall m e, 0 < m < 2 ^ 53 -> -1074 <= e <= 971 ->
  let iv := interval m e in
  let P := dec_exp (iv_xn iv) (iv_den iv) - 1 in
  exists D P', srch 17 iv P = Some (D, P')
    /\ P - 16 <= P' <= P
    /\ in_interval iv D P' = true
    /\ in_interval iv (fst (strip_zeros 20 D P')) (snd (strip_zeros 20 D P')) = true
    /\ shortest m e = strip_zeros 20 D P'.
Proof.
  intros m e Hm He iv P.
  destruct (interval_facts m e Hm He) as [Hd [Hx [Hr Hg]]]. fold iv in Hd, Hx, Hr, Hg.
  pose proof (gap_at_17 iv Hd Hr Hg) as G. cbv zeta in G. fold P in G.
  destruct (srch_complete 16 iv P Hd Hx G) as [D [P' E]].
  exists D, P'. pose proof (srch_sound _ _ _ _ _ E) as Hs. pose proof (srch_pos _ _ _ _ _ E) as Hp.
  split; [exact E|]. split; [lia|]. split; [exact Hs|].
  assert (Hz : in_interval iv (fst (strip_zeros 20 D P')) (snd (strip_zeros 20 D P')) = true)
    by (rewrite strip_zeros_interval; exact Hs).
  split; [exact Hz|].
  rewrite shortest_unfold. cbv zeta. fold iv. fold P. rewrite E, Hz. reflexivity.
Qed.

(* the literal shape of [shortest] *)
Theorem shortest_no_fallback : forall m e, 0 < m < 2 ^ 53 -> -1074 <= e <= 971 ->
  let iv := interval m e in
  let P := dec_exp (iv_xn iv) (iv_den iv) - 1 in
  exists D P',
    search 17 (iv_incl iv) P (iv_xn iv * 10 ^ Z.max (- P) 0) (iv_ln iv * 10 ^ Z.max (- P) 0)
           (iv_un iv * 10 ^ Z.max (- P) 0) (10 ^ Z.max P 0 * iv_den iv) = Some (D, P')
    /\ in_interval iv (fst (strip_zeros 20 D P')) (snd (strip_zeros 20 D P')) = true
    /\ shortest m e = strip_zeros 20 D P'.
Proof.
  intros m e Hm He. cbv zeta.
  pose proof (shortest_search m e Hm He) as H. cbv zeta in H.
  destruct H as [D [P' [E [_ [_ [Hz Hsh]]]]]].
  exists D, P'. rewrite srch_eq in E. split; [exact E|]. split; [exact Hz|exact Hsh].
Qed.

(* 0.1, the power of two 2^52 * 2^-52 = 1, the least denormal, the greatest float64 *)
Example shortest_examples :
  shortest 7205759403792794 (-56) = (1, -1) /\
  shortest (2 ^ 52) (-52) = (1, 0) /\
  shortest 1 (-1074) = (5, -324) /\
  shortest (2 ^ 53 - 1) 971 = (17976931348623157, 292) /\
  (let iv := interval 7205759403792794 (-56) in
   srch 17 iv (dec_exp (iv_xn iv) (iv_den iv) - 1) = Some (1, -1)) /\
  (let iv := interval (2 ^ 53 - 1) 971 in
   srch 17 iv (dec_exp (iv_xn iv) (iv_den iv) - 1) = Some (17976931348623157, 292)).
Proof. vm_compute. repeat split. Qed.

Print Assumptions shortest_no_fallback.

(* every finite non-zero float64 bit pattern is in the range of shortest_no_fallback *)
Lemma fl_of_bits_range : forall b neg m e, fl_of_bits b = FFin neg m e -> 0 < m < 2 ^ 53 /\ -1074 <= e <= 971.
Proof.
  intros b neg m e. unfold fl_of_bits. cbv zeta.
  set (z := Z.of_N b). set (ex := (z / 2 ^ 52) mod 2048). set (fr := z mod 2 ^ 52).
  assert (Hex : 0 <= ex < 2048) by (apply Z.mod_pos_bound; lia).
  assert (Hfr : 0 <= fr < 2 ^ 52) by (apply Z.mod_pos_bound; lia).
  change (2 ^ 52) with 4503599627370496 in *. change (2 ^ 53) with 9007199254740992.
  destruct (Z.eqb_spec ex 2047) as [E1|E1]; [destruct (fr =? 0); discriminate|].
  destruct (Z.eqb_spec ex 0) as [E2|E2].
  - destruct (Z.eqb_spec fr 0) as [E3|E3]; [discriminate|]. intros H. injection H as _ <- <-. lia.
  - intros H. injection H as _ <- <-. lia.
Qed.

(* for every finite non-zero float64 bit pattern the 17-position search of strconv's shortest formatting succeeds *)
Theorem shortest_no_fallback_bits : forall b neg m e, fl_of_bits b = FFin neg m e ->
  let iv := interval m e in
  let P := dec_exp (iv_xn iv) (iv_den iv) - 1 in
  exists D P',
    search 17 (iv_incl iv) P (iv_xn iv * 10 ^ Z.max (- P) 0) (iv_ln iv * 10 ^ Z.max (- P) 0)
           (iv_un iv * 10 ^ Z.max (- P) 0) (10 ^ Z.max P 0 * iv_den iv) = Some (D, P')
    /\ in_interval iv (fst (strip_zeros 20 D P')) (snd (strip_zeros 20 D P')) = true
    /\ shortest m e = strip_zeros 20 D P'.
Proof. intros b neg m e H. destruct (fl_of_bits_range b neg m e H) as [Hm He]. exact (shortest_no_fallback m e Hm He). Qed.
