(* Proofs about model/ConfirmRule.v: which confirmation rules of doParse keep every acknowledged sample indexed. *)
From Coq Require Import List ZArith Bool Lia.
From Qryn Require Import model.SeriesIndex model.ConfirmRule proofs.SeriesIndexProofs.
Import ListNotations.
Open Scope Z_scope.

(* ------------------------------------------------------------------ lists *)
Lemma map_set_nth {A B} (g : A -> B) x : forall k l, map g (set_nth k x l) = set_nth k (g x) (map g l).
Proof. induction k as [|k IH]; intros [|y l]; cbn [set_nth map]; try reflexivity. now rewrite IH. Qed.

Lemma map_remove_nth {A B} (g : A -> B) : forall k l, map g (remove_nth k l) = remove_nth k (map g l).
Proof. induction k as [|k IH]; intros [|y l]; cbn [remove_nth map]; try reflexivity. now rewrite IH. Qed.

Lemma forallb_rev {A} (p : A -> bool) : forall l, forallb p (rev l) = forallb p l.
Proof.
  induction l as [|x l IH]; [reflexivity|]. cbn [rev forallb]. rewrite forallb_app, IH. cbn [forallb].
  rewrite andb_true_r. apply andb_comm.
Qed.

Lemma combine_map_In {A B} (g : A -> B) : forall l b c, In (b, c) (combine (map g l) l) -> b = g c /\ In c l.
Proof.
  induction l as [|x l IH]; intros b c H; cbn [map combine] in H; [contradiction|].
  destruct H as [H|H].
  - inversion H; subst. split; [reflexivity|now left].
  - destruct (IH _ _ H) as [-> Hin]. split; [reflexivity|now right].
Qed.

(* ------------------------------------------------------------------ the promise list *)
Lemma await_promises cs : await (promises cs) = forallb chunk_ok cs.
Proof.
  unfold await, promises. induction cs as [|c cs IH]; [reflexivity|].
  cbn [flat_map]. rewrite forallb_app, IH. cbn [promises_of forallb]. unfold chunk_ok.
  now rewrite !andb_true_r.
Qed.

Lemma await_sent sent : await (promises (rev sent)) = forallb chunk_ok sent.
Proof. now rewrite await_promises, forallb_rev. Qed.

Lemma confirmed_all sent :
  confirmed rule_all sent = if await (promises (rev sent)) then flat_map c_rows sent else [].
Proof.
  unfold confirmed, rule_all. generalize (await (promises (rev sent))) as b. intros b.
  induction sent as [|c l IH]; [now destruct b|].
  cbn [map combine flat_map fst snd]. rewrite IH. destruct b; reflexivity.
Qed.

(* ------------------------------------------------------------------ soundness of the rules *)
Lemma rule_all_sound : sound rule_all.
Proof.
  intros sent b c Hin Hb. unfold rule_all in Hin. apply combine_map_In in Hin. destruct Hin as [-> Hc].
  rewrite await_sent in Hb. rewrite forallb_forall in Hb. specialize (Hb c Hc).
  unfold chunk_ok in Hb. apply andb_true_iff in Hb. tauto.
Qed.

Lemma rule_own_sound : sound rule_own.
Proof.
  intros sent b c Hin Hb. unfold rule_own in Hin. apply combine_map_In in Hin. destruct Hin as [-> _]. exact Hb.
Qed.

(* two chunks: the series insert of the second fails, the samples insert of the first succeeds *)
Definition w_chunk0 : chunk := {| c_rows := [(19732, 7, 1)]; c_nospl := false; c_ts_ok := true; c_spl_ok := true |}.
Definition w_chunk1 : chunk := {| c_rows := [(19732, 9, 1)]; c_nospl := false; c_ts_ok := false; c_spl_ok := true |}.
Lemma rule_position_not_sound : ~ sound rule_position.
Proof.
  intros H. specialize (H [w_chunk1; w_chunk0] true w_chunk1). cbv in H.
  assert (E : false = true) by (apply H; [now left|reflexivity]). discriminate E.
Qed.

(* ------------------------------------------------------------------ the invariant
   besides SeriesIndexProofs.inv on the view: every request in flight remembers its chunks faithfully
   (f_ok is the conjunction of their promises, f_ann their rows) and the rows of every chunk whose series promise
   was fulfilled are in the table *)
Definition wf (rows : list row) (f : rflight) : Prop :=
  f_ok (rf f) = forallb chunk_ok (rf_sent f) /\
  f_ann (rf f) = flat_map c_rows (rf_sent f) /\
  (forall c, In c (rf_sent f) -> ts_promise c = true -> incl (c_rows c) rows).
Definition Q (s : rstate) : Prop := forall f, In f (r_pending s) -> wf (r_rows s) f.
Definition rinv (s : rstate) : Prop := inv (view s) /\ Q s.

Lemma wf_mono rows rows' f : incl rows rows' -> wf rows f -> wf rows' f.
Proof.
  intros Hi [H1 [H2 H3]]. split; [assumption|]. split; [assumption|].
  intros c Hc Hp. eapply incl_tran; [now apply H3|assumption].
Qed.

Lemma rbegin_wf s ss rows : wf rows (rbegin s ss).
Proof. split; [reflexivity|]. split; [reflexivity|]. intros c []. Qed.

Lemma rmore_wf s f ss rows : wf rows f -> wf rows (rmore s f ss).
Proof. intros [H1 [H2 H3]]. split; [exact H1|]. split; [exact H2|exact H3]. Qed.

Lemma rsend_wf rows f ts_ok spl_ok :
  wf rows f -> wf (store_chunk rows (rf f) ts_ok) (rsend f ts_ok spl_ok).
Proof.
  intros [H1 [H2 H3]]. split; [|split].
  - cbn [rsend rf rf_sent send_chunk f_ok forallb]. rewrite H1.
    generalize (forallb chunk_ok (rf_sent f)) as b0. intros b0.
    unfold chunk_ok, ts_promise, spl_promise. cbn [c_rows c_nospl c_ts_ok c_spl_ok].
    destruct b0, (is_nil (f_rows (rf f))), ts_ok, (is_nil (f_spl (rf f))), spl_ok; reflexivity.
  - cbn [rsend rf rf_sent send_chunk f_ann flat_map c_rows]. now rewrite H2.
  - intros c Hc Hp. cbn [rsend rf_sent] in Hc. destruct Hc as [<-|Hc].
    + cbn [c_rows]. unfold ts_promise in Hp. cbn [c_rows c_ts_ok] in Hp. unfold store_chunk.
      destruct ts_ok; [apply incl_appl, incl_refl|].
      rewrite orb_false_r in Hp. destruct (f_rows (rf f)); [intros ? []|discriminate Hp].
    + eapply incl_tran; [now apply H3|apply store_chunk_mono].
Qed.

Lemma confirmed_incl r rows g : sound r -> wf rows g -> incl (confirmed r (rf_sent g)) rows.
Proof.
  intros Hs [_ [_ H3]] x Hx. unfold confirmed in Hx. apply in_flat_map in Hx.
  destruct Hx as [[b c] [Hin Hx]]. cbn [fst snd] in Hx. destruct b; [|contradiction].
  apply (H3 c); [eapply in_combine_r; exact Hin| |exact Hx].
  eapply Hs; [exact Hin|reflexivity].
Qed.

Lemma rfinish_inv r s f ts_ok spl_ok pend :
  sound r -> rinv s -> covered (r_rows s) (rf f) -> wf (r_rows s) f -> incl pend (r_pending s) ->
  rinv (rfinish r s f ts_ok spl_ok pend).
Proof.
  intros Hs [Hinv HQ] Hc Hw Hpend.
  pose proof (store_chunk_mono (r_rows s) (rf f) ts_ok) as Hmono.
  pose proof (rsend_wf _ f ts_ok spl_ok Hw) as Hw'.
  assert (Hack : await (promises (rev (rf_sent (rsend f ts_ok spl_ok)))) = f_ok (send_chunk (rf f) ts_ok spl_ok)).
  { rewrite await_sent. destruct Hw' as [H1 _]. symmetry. exact H1. }
  pose proof (finish_inv (view s) (rf f) ts_ok spl_ok (map rf pend) Hinv Hc (incl_map rf Hpend)) as Hf.
  unfold finish in Hf. cbn [fst] in Hf. destruct Hf as [_ [HJ HP]].
  destruct Hinv as [HI _].
  split.
  - split; [|split].
    + unfold I, view, rfinish. cbn [cache ts_rows r_cache r_rows].
      apply incl_app; [now apply confirmed_incl|]. eapply incl_tran; [exact HI|exact Hmono].
    + unfold J, view, rfinish in *. cbn [acked ts_rows r_acked r_rows cache pending] in *. rewrite Hack. exact HJ.
    + unfold P, view, rfinish in *. cbn [pending ts_rows r_pending r_rows cache acked] in *. exact HP.
  - intros g Hg. unfold rfinish in *. cbn [r_pending r_rows] in *. apply (wf_mono (r_rows s)); [exact Hmono|].
    apply HQ. now apply Hpend.
Qed.

Lemma fst_let {A B C} (p : A * B) (k : B -> C) : fst (let '(a, b) := p in (a, k b)) = fst p.
Proof. now destruct p. Qed.

(* every step that does not complete a request is the step of SeriesIndex.v on the view *)
Lemma view_step_other r s a :
  (forall ss t1 t2, a <> Push ss t1 t2) -> (forall k t1 t2, a <> End k t1 t2) ->
  view (rstep r s a) = fst (step (view s) a).
Proof.
  intros Hp He.
  destruct a as [ss ts_ok spl_ok|ss|ss|k ss|k ts_ok spl_ok|k ts_ok spl_ok|k| |k]; cbn [rstep step].
  - now contradiction (Hp ss ts_ok spl_ok).
  - reflexivity.
  - cbn [fst]. unfold view. cbn [r_cache r_rows r_acked r_pending cache ts_rows acked pending]. now rewrite map_app.
  - cbn [view pending]. rewrite nth_error_map. destruct (nth_error (r_pending s) k) as [f|]; cbn [option_map fst]; [|reflexivity].
    unfold view. cbn [r_cache r_rows r_acked r_pending cache ts_rows acked pending]. now rewrite map_set_nth.
  - cbn [view pending]. rewrite nth_error_map. destruct (nth_error (r_pending s) k) as [f|]; cbn [option_map fst]; [|reflexivity].
    unfold view. cbn [r_cache r_rows r_acked r_pending cache ts_rows acked pending]. now rewrite map_set_nth.
  - now contradiction (He k ts_ok spl_ok).
  - cbn [view pending]. rewrite nth_error_map. destruct (nth_error (r_pending s) k) as [f|]; cbn [option_map fst]; [|reflexivity].
    unfold view. cbn [r_cache r_rows r_acked r_pending cache ts_rows acked pending]. now rewrite map_remove_nth.
  - reflexivity.
  - reflexivity.
Qed.

Lemma pending_covered s f : inv (view s) -> In f (r_pending s) -> covered (r_rows s) (rf f).
Proof.
  intros [_ [_ HP]] Hf. apply (HP (rf f)). cbn [view pending]. now apply in_map.
Qed.

Lemma rstep_inv r s a : sound r -> rinv s -> rinv (rstep r s a).
Proof.
  intros Hs Hinv. pose proof Hinv as [Hv HQ]. pose proof Hv as [HI _].
  assert (Hother : (forall ss t1 t2, a <> Push ss t1 t2) -> (forall k t1 t2, a <> End k t1 t2) -> inv (view (rstep r s a))).
  { intros Hp He. rewrite (view_step_other r s a Hp He). now apply step_inv. }
  destruct a as [ss ts_ok spl_ok|ss|ss|k ss|k ts_ok spl_ok|k ts_ok spl_ok|k| |k].
  - cbn [rstep]. apply rfinish_inv; [assumption|assumption| | |apply incl_refl].
    + apply (begin_covered (view s) ss HI).
    + apply rbegin_wf.
  - exact Hinv.
  - split; [apply Hother; intros; discriminate|].
    cbn [rstep]. intros f Hf. cbn [r_pending r_rows] in *. apply in_app_or in Hf.
    destruct Hf as [Hf|[<-|[]]]; [now apply HQ|apply rbegin_wf].
  - split; [apply Hother; intros; discriminate|].
    cbn [rstep]. destruct (nth_error (r_pending s) k) as [f|] eqn:En; [|exact HQ].
    intros g Hg. cbn [r_pending r_rows] in *. destruct (set_nth_In _ _ _ _ Hg) as [->|Hg']; [|now apply HQ].
    apply rmore_wf. apply HQ. eapply nth_error_In; eassumption.
  - split; [apply Hother; intros; discriminate|].
    cbn [rstep]. destruct (nth_error (r_pending s) k) as [f|] eqn:En; [|exact HQ].
    intros g Hg. cbn [r_pending r_rows] in *. destruct (set_nth_In _ _ _ _ Hg) as [->|Hg'].
    + apply rsend_wf. apply HQ. eapply nth_error_In; eassumption.
    + apply (wf_mono (r_rows s)); [apply store_chunk_mono|now apply HQ].
  - cbn [rstep]. destruct (nth_error (r_pending s) k) as [f|] eqn:En; [|exact Hinv].
    assert (Hf : In f (r_pending s)) by (eapply nth_error_In; eassumption).
    apply rfinish_inv; [assumption|assumption|now apply pending_covered|now apply HQ|].
    intros x Hx. eapply remove_nth_In; exact Hx.
  - split; [apply Hother; intros; discriminate|].
    cbn [rstep]. destruct (nth_error (r_pending s) k) as [f|] eqn:En; [|exact HQ].
    intros g Hg. cbn [r_pending r_rows] in *. apply HQ. eapply remove_nth_In; exact Hg.
  - split; [apply Hother; intros; discriminate|]. exact HQ.
  - split; [apply Hother; intros; discriminate|]. exact HQ.
Qed.

Lemma rinv_init : rinv rinit.
Proof. split; [exact inv_init|intros f []]. Qed.

Lemma rrun_inv r : sound r -> forall h s, rinv s -> rinv (rrun r s h).
Proof.
  intros Hs. induction h as [|a h IH]; intros s Hinv; cbn [rrun]; [assumption|]. apply IH. now apply rstep_inv.
Qed.

(* every sound rule keeps every acknowledged sample indexed, in every history *)
Lemma sound_rule_indexed r : sound r -> forall h, r_all_indexed_typed (rrun r rinit h) = true.
Proof.
  intros Hs h. unfold r_all_indexed_typed. apply forallb_forall. intros [[fp d] t] Hin.
  destruct (rrun_inv r Hs h rinit rinv_init) as [[_ [HJ _]] _].
  apply indexed_typed_of_row. apply (HJ fp d t). exact Hin.
Qed.

Lemma sound_rule_cache_covered r : sound r -> forall h, incl (r_cache (rrun r rinit h)) (r_rows (rrun r rinit h)).
Proof. intros Hs h. destruct (rrun_inv r Hs h rinit rinv_init) as [[HI _] _]. exact HI. Qed.

(* ------------------------------------------------------------------ under the rule of the code the extended model is SeriesIndex.run *)
Lemma rfinish_all_view s f ts_ok spl_ok pend :
  wf (r_rows s) f ->
  view (rfinish rule_all s f ts_ok spl_ok pend) = fst (finish (view s) (rf f) ts_ok spl_ok (map rf pend)).
Proof.
  intros Hw. destruct (rsend_wf _ f ts_ok spl_ok Hw) as [H1 [H2 _]].
  unfold finish, rfinish, view. cbn [fst r_cache r_rows r_acked r_pending cache ts_rows acked pending].
  rewrite confirmed_all, await_sent, <- H1. cbn [rsend rf] in *.
  destruct (f_ok (send_chunk (rf f) ts_ok spl_ok)); [|reflexivity].
  now rewrite H2.
Qed.

Lemma view_step_all s a : rinv s -> view (rstep rule_all s a) = fst (step (view s) a).
Proof.
  intros [Hv HQ].
  destruct a as [ss ts_ok spl_ok|ss|ss|k ss|k ts_ok spl_ok|k ts_ok spl_ok|k| |k];
    try (apply view_step_other; intros; discriminate).
  - cbn [rstep step]. rewrite fst_let. rewrite rfinish_all_view; [reflexivity|apply rbegin_wf].
  - cbn [rstep step]. cbn [view pending]. rewrite nth_error_map.
    destruct (nth_error (r_pending s) k) as [f|] eqn:En; cbn [option_map]; [|reflexivity].
    rewrite fst_let. rewrite rfinish_all_view; [|apply HQ; eapply nth_error_In; eassumption].
    now rewrite map_remove_nth.
Qed.

Lemma rule_all_is_run : forall h s, rinv s -> view (rrun rule_all s h) = run (view s) h.
Proof.
  induction h as [|a h IH]; intros s Hinv; cbn [rrun run]; [reflexivity|].
  rewrite IH by (apply rstep_inv; [exact rule_all_sound|exact Hinv]).
  now rewrite view_step_all.
Qed.

Lemma rule_all_is_run_init h : view (rrun rule_all rinit h) = run init h.
Proof. apply (rule_all_is_run h rinit rinv_init). Qed.

(* ------------------------------------------------------------------ series[i] paired with promises[i] *)
Definition w_A : stream := {| s_fp := 7; s_entries := [{| e_ts := 1704888000000000000; e_type := TLog |}] |}.
Definition w_B : stream := {| s_fp := 9; s_entries := [{| e_ts := 1704888001000000000; e_type := TLog |}] |}.
(* a request of two chunks, the series insert of the second fails (5xx); the client pushes the streams of the second chunk again *)
Definition w_position : list action :=
  [Begin [w_A]; Flush 0 true true; More 0 [w_B]; End 0 false true; Push [w_B] true true].

Lemma rule_position_loses_row : r_all_indexed_typed (rrun rule_position rinit w_position) = false.
Proof. vm_compute. reflexivity. Qed.

Example w_position_other_rules :
  r_acked (rrun rule_position rinit w_position) = [(9, 19732, 1)] /\
  r_rows (rrun rule_position rinit w_position) = [(19732, 7, 1)] /\
  r_rows (rrun rule_all rinit w_position) = [(19732, 9, 1); (19732, 7, 1)] /\
  r_rows (rrun rule_own rinit w_position) = [(19732, 9, 1); (19732, 7, 1)] /\
  r_cache (rrun rule_own rinit (firstn 4 w_position)) = [(19732, 7, 1)] /\
  r_cache (rrun rule_all rinit (firstn 4 w_position)) = [].
Proof. vm_compute. repeat split; reflexivity. Qed.
