(* C07 round 8: the configuration branch `if !ctx.CHFinalize { return req, nil }` of MainFinalizerPlanner.Process
   (planner_main_finalizer.go).  Every C07 theorem so far assumed `c_finalize c = true` inside `ctx_ok` (the reader's
   services set the flag); a PlannerContext built without it (the zero value) makes Plan(script, true).Process return the
   select UNDER the outermost one: five columns (timestamp_ns, fingerprint, labels, string, value), ORDER BY timestamp_ns,
   LIMIT.  This file proves that this statement, too, selects exactly the matching lines - for every query of the three
   fragments - and states the property for EITHER value of the flag (`ctx_ok_any`).

   Route: (1) no planner below the root reads the flag (`process_fin_irrel`, induction over the planner object; `nofin` =
   "contains no MainFinalizerPlanner", shown of everything `plan_log` puts under the root: `plan_log_nofin`); hence the
   statement planned without the flag is the operand of the outermost select planned with it (`log_select_unfin`);
   (2) the lemmas `log_plan_inner` / `log_plan2_inner` (added to LogqlSemProofs.v / LogqlSem2Proofs.v this round) say that
   this operand already evaluates to rows that read back as the reference answer. *)
From Coq Require Import List ZArith NArith QArith String Ascii Bool Lia Permutation Sorted.
From Qryn Require Import lib.Strs model.Sql model.SqlRender model.Logql model.LogqlRegexp model.LogqlPlan model.SqlEval model.LogqlSem
  proofs.SqlEvalProofs proofs.LogqlSemProofs.
From Qryn Require Import proofs.LogqlSem2Base proofs.LogqlSem2Proofs.
Import ListNotations.
Open Scope string_scope.

(* the context with the flag CHFinalize set to b, everything else kept *)
Definition set_fin (c : pctx) (b : bool) : pctx :=
  {| c_from_ns := c_from_ns c; c_to_ns := c_to_ns c; c_limit := c_limit c; c_asc := c_asc c; c_cluster := c_cluster c;
     c_type := c_type c; c_finalize := b; c_step_ns := c_step_ns c; t_gin := t_gin c; t_samples := t_samples c;
     t_ts := t_ts c; t_ts_dist := t_ts_dist c; t_m15 := t_m15 c |}.

(* ctx_ok without the demand on the flag *)
Definition ctx_ok_any (c : pctx) : bool :=
  negb (String.eqb (t_gin c) (t_samples c)) && negb (String.eqb (t_ts c) (t_samples c))
  && negb (String.eqb (t_ts c) (t_gin c)) && negb (String.eqb (t_ts_dist c) (t_samples c))
  && negb (String.eqb (t_ts_dist c) (t_gin c)) && Z.leb 0 (c_limit c).

(* "no MainFinalizerPlanner inside" *)
Fixpoint nofin (p : planner) : bool :=
  match p with
  | PStreamSelect _ | PMainInit | PTimeSeriesInit | PMetrics15 _ _ => true
  | PSimpleLabelFilter _ x => nofin x
  | PFingerprintFilter a b => nofin a && nofin b
  | PLineFilterP _ _ _ m | PLabelFilterP _ m | PParserP _ _ m | PDropP _ m | PMainRenew m _ | PMainOrderBy _ m | PMainLimit m => nofin m
  | PLabelsJoin a b e _ => nofin a && nofin b && nofin e
  | PMainFinalizer _ _ _ => false
  | PLraP _ _ _ m | PUnwrapP _ m | PUnwrapFnP _ _ m | PByWithoutP _ _ _ m | PAggOpP _ _ m | PComparisonP _ _ m
  | PTopKP _ _ m | PQuantileP _ _ m | PStepFixP _ m | PLineFormatP _ m => nofin m
  end.

Ltac fin_step :=
  match goal with
  | |- context [process ?p ?c ?s] =>
    lazymatch c with set_fin _ _ => fail | _ => idtac end;
    is_var p; destruct (process p c s) as [[[? ?] ?]|]; cbn [bind]; [|reflexivity]
  end.

Lemma wc_irrel a b c bb st fn :
  (forall st, process a (set_fin c bb) st = process a c st) -> (forall st, process b (set_fin c bb) st = process b c st) ->
  with_connector process a b (set_fin c bb) st fn = with_connector process a b c st fn.
Proof.
  intros Ha Hb. unfold with_connector. rewrite Ha. destruct (process a c st) as [[[m s1] q]|]; cbn [bind]; [|reflexivity].
  destruct (fp_cache s1); [reflexivity|]. rewrite Hb. reflexivity.
Qed.

(* MainFinalizerPlanner is the only planner that reads ctx.CHFinalize *)
Lemma process_fin_irrel : forall p c b st, nofin p = true -> process p (set_fin c b) st = process p c st.
Proof.
  induction p; intros c b st H; cbn [nofin] in H; try discriminate H;
    repeat match type of H with (_ && _ = true) => let H2 := fresh "H" in apply andb_prop in H; destruct H as [H H2] end.
  all: cbn [process with_connector].
  all: try reflexivity.
  all: try (rewrite IHp by assumption).
  all: try (destruct (process p c st) as [[[? ?] ?]|]; cbn [bind]; reflexivity).
  - (* PFingerprintFilter fp main: with_connector main fp *)
    rewrite (wc_irrel p2 p1 c b st) by (intros; auto). reflexivity.
  - (* PLabelsJoin main fp ts *)
    rewrite (wc_irrel p3 p2 c b st) by (intros; auto).
    destruct (with_connector process p3 p2 c st _) as [[[[tsreq s1] ts'] fp']|]; cbn [bind]; [|reflexivity].
    rewrite IHp1 by assumption. reflexivity.
Qed.

(* ---------- everything plan_log puts under the root is free of finalizers ---------- *)
Lemma plan_ts_nofin ms ppl simple : nofin (plan_ts ms ppl simple) = true.
Proof.
  unfold plan_ts. assert (H : nofin (PStreamSelect ms) = true) by reflexivity. revert H.
  generalize (PStreamSelect ms). generalize (combine ppl simple). intros l.
  induction l as [|[s b] l IH]; intros acc H; [exact H|]. cbn [fold_left]. apply IH.
  cbn [fst snd]. destruct s; try exact H. destruct b; [exact H|exact H].
Qed.
Lemma plan_stage_nofin s b cur cur2 : nofin cur = true -> plan_stage s b cur = Some cur2 -> nofin cur2 = true.
Proof.
  intros H E. destruct s; cbn [plan_stage] in E; try discriminate E; injection E as <-; try (destruct b); exact H.
Qed.
Lemma plan_spl_nofin : forall ppl simple renew i lji fp cur p, nofin fp = true -> nofin cur = true ->
  plan_spl ppl simple renew i lji fp cur = Some p -> nofin p = true.
Proof.
  induction ppl as [|s r IH]; intros simple renew i lji fp cur p Hfp Hcur E.
  - cbn [plan_spl] in E. injection E as <-. exact Hcur.
  - destruct simple as [|b bs]; [cbn [plan_spl] in E; injection E as <-; exact Hcur|].
    destruct renew as [|rn rns]; [cbn [plan_spl] in E; injection E as <-; exact Hcur|].
    cbn [plan_spl] in E. cbv zeta in E.
    match type of E with match plan_stage s b ?C with _ => _ end = _ => set (cur1 := C) in E end.
    assert (H1 : nofin cur1 = true).
    { unfold cur1. destruct (match lji with Some j => Nat.eqb i j | None => false end); [|exact Hcur].
      cbn [nofin]. now rewrite Hcur, Hfp. }
    destruct (plan_stage s b cur1) as [cur2|] eqn:Es; [|discriminate E].
    pose proof (plan_stage_nofin s b cur1 cur2 H1 Es) as H2.
    apply (IH _ _ _ _ _ _ _ Hfp) in E; [exact E|]. destruct rn; exact H2.
Qed.
Lemma plan_log_nofin q fin P : plan_log q fin = Some P -> exists X, P = PMainFinalizer X false fin /\ nofin X = true.
Proof.
  unfold plan_log. cbv zeta.
  destruct (plan_spl _ _ _ _ _ _ _) as [spl|] eqn:E; [|discriminate]. intros H. injection H as <-.
  pose proof (plan_ts_nofin (sel_matchers q) (sel_pipeline q) (simple_ops (sel_pipeline q))) as Hfp.
  apply plan_spl_nofin in E; [|exact Hfp|cbn [nofin]; now rewrite Hfp].
  eexists. split; [reflexivity|].
  destruct (labels_join_idx _ _ _); destruct fin; cbn [nofin]; rewrite ?E, ?Hfp; reflexivity.
Qed.

(* the statement planned without the flag is the operand of the outermost select planned with it *)
Lemma log_select_unfin q c sel : c_finalize c = false ->
  log_select q (set_fin c true) = Some sel ->
  exists req, log_select q c = Some req /\ sel = final_select (set_fin c true) req.
Proof.
  intros Hf. unfold log_select. destruct (plan_log q true) as [P|] eqn:Ep; [|discriminate].
  destruct (plan_log_nofin _ _ _ Ep) as [X [-> HX]]. cbn [process].
  rewrite (process_fin_irrel X c true _ HX).
  destruct (process X c (clear_caches pst0)) as [[[req st1] X']|]; cbn [bind]; [|discriminate].
  rewrite Hf. cbn [set_fin c_finalize negb]. intros E. injection E as <-.
  exists req. split; reflexivity.
Qed.
Lemma final_select_inj c a b : final_select c a = final_select c b -> a = b.
Proof. intros H. apply (f_equal s_from) in H. cbn in H. now injection H. Qed.

Lemma ctx_ok_set_fin c : ctx_ok_any c = true -> ctx_ok (set_fin c true) = true.
Proof.
  unfold ctx_ok_any, ctx_ok. cbn [set_fin t_gin t_samples t_ts t_ts_dist c_finalize c_limit]. intros H.
  repeat (apply andb_prop in H; destruct H as [H ?]). repeat (apply andb_true_intro; split); first [assumption|reflexivity].
Qed.

(* ---------- the operand of the outermost select, for the three fragments ---------- *)
Definition inner_correct3 {RG : ReGroups} (re_match : string -> string -> bool) (parse_float : string -> option Q)
    (json_get : string -> list string -> string) (hash_labels : labels -> Z)
    (tie : forall A : Type, list A -> list A) (q : strsel) (c : pctx) (d : database) : Prop :=
  exists req rows outs,
    log_select q c = Some (final_select c req)
    /\ eval re_match parse_float json_get hash_labels tie (to_sqldb c d) req = Some rows
    /\ map row_out rows = map Some outs
    /\ logql_sem3 re_match parse_float json_get hash_labels q c d outs.

Lemma inner_correct3_proof :
  forall (RG : ReGroups) re_match parse_float json_get hash_labels (tie : forall A : Type, list A -> list A),
    (forall A (l : list A), Permutation (tie A l) l) ->
    forall q c d, in_fragment q || in_fragment2 q || in_fragment3 q = true -> oracle_ok re_match parse_float q -> ctx_ok c = true ->
    db_ok c d -> width_guard q = true -> absent_guard re_match q d ->
    inner_correct3 re_match parse_float json_get hash_labels tie q c d.
Proof.
  intros RG re_match parse_float json_get hash_labels tie Htie [ms ppl] c d Hfrag Hor Hctx Hdb Hw Hg.
  unfold width_guard in Hw. cbn [sel_matchers] in Hw. apply Nat.leb_le in Hw.
  set (q := {| sel_matchers := ms; sel_pipeline := ppl |}) in *.
  destruct (in_fragment q) eqn:E1.
  { (* filters only *)
    pose proof E1 as E1'. unfold in_fragment in E1. cbn [q sel_matchers sel_pipeline] in E1. apply andb_prop in E1. destruct E1 as [Hne Hsup].
    destruct (log_plan_inner re_match parse_float json_get hash_labels tie Htie c d Hctx Hdb ms ppl)
      as [req [rows [outs [H1 [H2 [H3 H4]]]]]]; try assumption.
    - intros ->. discriminate.
    - lia.
    - exists req, rows, outs. split; [exact H1|]. split; [exact H2|]. split; [exact H3|].
      unfold logql_sem3. rewrite (log_rows3_no_lfmt re_match parse_float json_get hash_labels q c d) by (now apply sup_no_lfmt).
      rewrite (log_rows2_filters re_match parse_float json_get hash_labels q c d Hsup). exact H4. }
  cbn [orb] in Hfrag.
  destruct (in_fragment2 q) eqn:E2.
  { unfold in_fragment2 in E2. cbn [q sel_matchers sel_pipeline] in E2.
    apply andb_prop in E2. destruct E2 as [E2 Hex]. apply andb_prop in E2. destruct E2 as [Hne Hall].
    fold frag2_stage in Hall.
    apply (log_plan2_inner re_match parse_float json_get hash_labels tie Htie c d Hctx ms Hdb); try assumption.
    - intros ->. discriminate.
    - lia.
    - now apply frag2_frag.
    - now apply frag2_jstage.
    - apply no_lfmt_simple. now apply frag2_no_lfmt. }
  cbn [orb] in Hfrag.
  unfold in_fragment3 in Hfrag. cbn [q sel_matchers sel_pipeline] in Hfrag.
  apply andb_prop in Hfrag. destruct Hfrag as [Hfrag Hsimp]. apply andb_prop in Hfrag. destruct Hfrag as [Hfrag Hex].
  apply andb_prop in Hfrag. destruct Hfrag as [Hne Hall].
  apply (log_plan2_inner re_match parse_float json_get hash_labels tie Htie c d Hctx ms Hdb); try assumption.
  - intros ->. discriminate.
  - lia.
  - clear -Hex. induction ppl as [|s r IH]; [discriminate|]. cbn [existsb] in *. apply orb_prop in Hex. destruct Hex as [H|H].
    + unfold jstage. rewrite H. now rewrite !orb_true_r.
    + rewrite (IH H). apply orb_true_r.
Qed.

(* ================= the flag is not set: the statement is the operand, and it is correct ================= *)
Theorem logql_log_unfinalized_proof :
  forall (RG : ReGroups) re_match parse_float json_get hash_labels (tie : forall A : Type, list A -> list A),
    (forall A (l : list A), Permutation (tie A l) l) ->
    forall q c d, in_fragment q || in_fragment2 q || in_fragment3 q = true -> oracle_ok re_match parse_float q ->
    ctx_ok_any c = true -> c_finalize c = false ->
    db_ok c d -> width_guard q = true -> absent_guard re_match q d ->
    log_correct3 re_match parse_float json_get hash_labels tie q c d.
Proof.
  intros RG re_match parse_float json_get hash_labels tie Htie q c d Hfrag Hor Hctx Hf Hdb Hw Hg.
  assert (Hdb1 : db_ok (set_fin c true) d) by exact Hdb.
  destruct (inner_correct3_proof RG re_match parse_float json_get hash_labels tie Htie q (set_fin c true) d Hfrag Hor
              (ctx_ok_set_fin c Hctx) Hdb1 Hw Hg) as [req [rows [outs [H1 [H2 [H3 H4]]]]]].
  destruct (log_select_unfin q c _ Hf H1) as [req' [Hsel Heq]].
  apply final_select_inj in Heq. subst req'.
  exists req, rows, outs. split; [exact Hsel|]. split; [exact H2|]. split; [exact H3|]. exact H4.
Qed.

(* ================= the property for EITHER value of ctx.CHFinalize ================= *)
Theorem logql_log_correct_any_finalize_proof :
  forall (RG : ReGroups) re_match parse_float json_get hash_labels (tie : forall A : Type, list A -> list A),
    (forall A (l : list A), Permutation (tie A l) l) ->
    forall q c d, in_fragment q || in_fragment2 q || in_fragment3 q = true -> oracle_ok re_match parse_float q ->
    ctx_ok_any c = true ->
    db_ok c d -> width_guard q = true -> absent_guard re_match q d ->
    log_correct3 re_match parse_float json_get hash_labels tie q c d.
Proof.
  intros RG re_match parse_float json_get hash_labels tie Htie q c d Hfrag Hor Hctx Hdb Hw Hg.
  destruct (c_finalize c) eqn:Ef.
  - apply logql_log_correct3_proof; try assumption.
    unfold ctx_ok. unfold ctx_ok_any in Hctx. rewrite Ef.
    repeat (apply andb_prop in Hctx; destruct Hctx as [Hctx ?]). repeat (apply andb_true_intro; split); try assumption; reflexivity.
  - now apply logql_log_unfinalized_proof.
Qed.

(* ---- the hypotheses are met with the flag NOT set: the query of partial_parsers_guards_met (line filter, json, label filter on
        the extracted label, drop, a second json), limit 1, forward, cluster names; the statement is a select of FIVE columns with
        no `prefinal` around it, and it evaluates to the one surviving line ---- *)
Definition ex_ctx_unfin : pctx := set_fin ex_ctx false.
Example unfinalized_guards_met :
  in_fragment ex2_query || in_fragment2 ex2_query || in_fragment3 ex2_query = true /\ oracle_ok no_re no_float ex2_query
  /\ ctx_ok_any ex_ctx_unfin = true /\ c_finalize ex_ctx_unfin = false /\ ctx_ok ex_ctx_unfin = false /\ db_ok ex_ctx_unfin ex2_db
  /\ width_guard ex2_query = true /\ absent_guard no_re ex2_query ex2_db
  /\ match log_select ex2_query ex_ctx_unfin with
     | Some sel => (map col_name (s_cols sel),
                    option_map (map row_out) (eval no_re no_float ex2_json ex2_hash tie_id (to_sqldb ex_ctx_unfin ex2_db) sel))
     | None => ([], None) end
     = (["timestamp_ns"; "fingerprint"; "labels"; "string"; "value"],
        Some [Some {| o_fp := 102; o_labels := [("lvl", "info"); ("m", "ok")]; o_line := ex2_line; o_ts := 1700000000000000005 |}]).
Proof.
  split; [reflexivity|]. split.
  { intros s Hs. cbn in Hs. destruct Hs as [<-|[<-|[<-|[<-|[<-|[<-|[]]]]]]]; cbn; try tauto. split; [intros He; discriminate|exact I]. }
  split; [reflexivity|]. split; [reflexivity|]. split; [reflexivity|]. split; [exact ex2_db_ok|]. split; [reflexivity|]. split.
  { intros m Hm He s Hs. cbn in Hm. destruct Hm as [<-|[]]. vm_compute in He. discriminate. }
  vm_compute; reflexivity.
Qed.
