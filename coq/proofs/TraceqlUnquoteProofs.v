(* C11 round 8: QuotedString.Unquote on the modelled domain (no backslash, printable ASCII) removes exactly the ONE enclosing pair
   of quote characters: whatever the content is -- also when it begins or ends with the other quote character -- it comes back
   byte for byte. A cut-set trim (strings.Trim with both quote characters as the set, seeded C11-h) is not this function. *)
From Coq Require Import String Ascii List Arith Bool NArith Lia.
From Qryn Require Import model.Traceql.
Local Open Scope string_scope.

Lemma drop_last_app : forall (b : string) (q : ascii), drop_last (b ++ String q "") = b.
Proof.
  induction b as [|c r IH]; intros q; [reflexivity|].
  change ((String c r) ++ String q "") with (String c (r ++ String q "")).
  cbn [drop_last]. destruct (r ++ String q "") eqn:E.
  - destruct r; discriminate E.
  - rewrite <- E, IH. reflexivity.
Qed.

Lemma length_app_one : forall (b : string) (q : ascii), String.length (b ++ String q "") = S (String.length b).
Proof. induction b; intros; cbn; [reflexivity|now rewrite IHb]. Qed.

Definition is_quote (q : ascii) : bool := Ascii.eqb q """" || Ascii.eqb q "`".

Theorem unquote_plain_keeps_content : forall (q : ascii) (b : string),
  is_quote q = true -> plain b = true -> unquote_plain (String q (b ++ String q "")) = Some b.
Proof.
  intros q b Hq Hb. unfold unquote_plain. rewrite drop_last_app, length_app_one.
  unfold is_quote in Hq. rewrite Hq, Hb. reflexivity.
Qed.

(* the cut-set trim of seeded C11-h, over the same tokens *)
Fixpoint trim_left (s : string) : string :=
  match s with String c r => if is_quote c then trim_left r else s | EmptyString => EmptyString end.
Fixpoint rev_s (s acc : string) : string := match s with EmptyString => acc | String c r => rev_s r (String c acc) end.
Definition trim_quotes (s : string) : string := rev_s (trim_left (rev_s (trim_left s) "")) "".

Theorem trim_is_not_unquote :
  exists tok, unquote_plain tok = Some """ok""" /\ trim_quotes tok = "ok".
Proof. exists "`""ok""`". split; reflexivity. Qed.

(* hypotheses satisfiable by a non-trivial value: a ticked token whose content carries the double quotes, and the reverse *)
Example unquote_keeps_hyps :
  unquote_plain "`""ok""`" = Some """ok""" /\ unquote_plain """`ls`""" = Some "`ls`" /\
  is_quote "`" = true /\ plain """ok""" = true.
Proof. repeat split; reflexivity. Qed.
