(* Basic lemmas for the ingest model: list update, boolean equalities, cell containment, zip_app. *)
From Coq Require Import List NArith ZArith Bool Lia Arith.
From Qryn Require Import model.Ingest model.PushHandler model.IngestSpec.
Import ListNotations.

(* ---------------------------------------------------------------- upd / nth_error *)
Lemma length_upd {A} n (x : A) l : length (upd n x l) = length l.
Proof. revert n; induction l as [|h t IH]; intros [|n]; cbn; auto. Qed.

Lemma nth_error_upd_same {A} n (x : A) l : (n < length l)%nat -> nth_error (upd n x l) n = Some x.
Proof. revert n; induction l as [|h t IH]; intros [|n] H; cbn in *; try lia; auto. apply IH; lia. Qed.

Lemma nth_error_upd_other {A} n m (x : A) l : n <> m -> nth_error (upd n x l) m = nth_error l m.
Proof. revert n m; induction l as [|h t IH]; intros [|n] [|m] H; cbn; auto; try congruence. Qed.

Lemma nth_error_some_lt {A} (l : list A) n x : nth_error l n = Some x -> (n < length l)%nat.
Proof. intros H. apply nth_error_Some. congruence. Qed.

Lemma upd_same_id {A} n (x : A) l : nth_error l n = Some x -> upd n x l = l.
Proof. revert n; induction l as [|h t IH]; intros [|n] H; cbn in *; try congruence. f_equal; auto. Qed.

Lemma Forall2_nth_error_l {A B} (R : A -> B -> Prop) l1 l2 n x :
  Forall2 R l1 l2 -> nth_error l1 n = Some x -> exists y, nth_error l2 n = Some y /\ R x y.
Proof.
  intros F; revert n; induction F as [|a b l1 l2 Hab F IH]; intros [|n] H; cbn in *; try discriminate.
  - inversion H; subst. eauto.
  - eauto.
Qed.

Lemma Forall2_upd {A B} (R : A -> B -> Prop) l1 l2 n x y :
  Forall2 R l1 l2 -> R x y -> Forall2 R (upd n x l1) (upd n y l2).
Proof.
  intros F; revert n; induction F as [|a b l1 l2 Hab F IH]; intros [|n] H; cbn; constructor; auto.
Qed.

Lemma Forall2_upd_l {A B} (R : A -> B -> Prop) l1 l2 n x y :
  Forall2 R l1 l2 -> nth_error l2 n = Some y -> R x y -> Forall2 R (upd n x l1) l2.
Proof.
  intros F Hn H. rewrite <- (upd_same_id n y l2 Hn). apply Forall2_upd; auto.
Qed.

Lemma Forall2_impl {A B} (R S : A -> B -> Prop) l1 l2 :
  (forall a b, R a b -> S a b) -> Forall2 R l1 l2 -> Forall2 S l1 l2.
Proof. intros H F; induction F; constructor; auto. Qed.

Lemma Forall_upd {A} (P : A -> Prop) l n x : Forall P l -> P x -> Forall P (upd n x l).
Proof. intros F; revert n; induction F as [|a l Ha F IH]; intros [|n] H; cbn; constructor; auto. Qed.

Lemma Forall_nth_error {A} (P : A -> Prop) l n x : Forall P l -> nth_error l n = Some x -> P x.
Proof. intros F H. rewrite Forall_forall in F. apply F. eapply nth_error_In; eauto. Qed.

Lemma in_upd {A} (l : list A) n x y : In y (upd n x l) -> y = x \/ In y l.
Proof.
  revert n; induction l as [|h t IH]; intros [|n] H; cbn in *; try tauto.
  - destruct H; auto.
  - destruct H as [H|H]; auto. destruct (IH _ H); auto.
Qed.

(* ---------------------------------------------------------------- boolean equalities *)
Lemma cell_eqb_refl c : cell_eqb c c = true.
Proof. unfold cell_eqb. now rewrite N.eqb_refl, Nat.eqb_refl. Qed.
Lemma cell_eqb_eq a b : cell_eqb a b = true -> a = b.
Proof.
  destruct a, b; unfold cell_eqb; cbn. intros H. apply andb_true_iff in H as [H1 H2].
  apply N.eqb_eq in H1. apply Nat.eqb_eq in H2. congruence.
Qed.
Lemma col_eqb_eq a b : col_eqb a b = true <-> a = b.
Proof.
  split.
  - revert b; induction a as [|x a IH]; intros [|y b] H; cbn in H; try discriminate; auto.
    apply andb_true_iff in H as [H1 H2]. apply cell_eqb_eq in H1. f_equal; auto.
  - intros <-. induction a as [|x a IH]; cbn; auto. now rewrite cell_eqb_refl.
Qed.
Lemma block_eqb_eq a b : block_eqb a b = true <-> a = b.
Proof.
  split.
  - revert b; induction a as [|x a IH]; intros [|y b] H; cbn in H; try discriminate; auto.
    apply andb_true_iff in H as [H1 H2]. apply col_eqb_eq in H1. f_equal; auto.
  - intros <-. induction a as [|x a IH]; cbn; auto. rewrite IH. now rewrite (proj2 (col_eqb_eq x x) eq_refl).
Qed.
Lemma block_eqb_refl a : block_eqb a a = true.
Proof. now apply block_eqb_eq. Qed.

Lemma pid_eqb_eq a b : pid_eqb a b = true <-> a = b.
Proof.
  split.
  - destruct a, b; cbn; try discriminate.
    + intros H. apply N.eqb_eq in H. congruence.
    + intros H. apply andb_true_iff in H as [H H3]. apply andb_true_iff in H as [H1 H2].
      apply Nat.eqb_eq in H1, H2. apply N.eqb_eq in H3. congruence.
  - intros <-. destruct a; cbn; [apply N.eqb_refl|]. now rewrite !Nat.eqb_refl, N.eqb_refl.
Qed.
Lemma pid_eqb_refl a : pid_eqb a a = true.
Proof. now apply pid_eqb_eq. Qed.

Lemma kind_eqb_eq a b : kind_eqb a b = true -> a = b.
Proof. destruct a, b; cbn; congruence. Qed.

(* ---------------------------------------------------------------- cell containment *)
Lemma prefixb_sub c d : prefixb c d = true -> col_sub_def c d = true.
Proof.
  unfold col_sub_def. revert d; induction c as [|x c IH]; intros d H; [reflexivity|].
  destruct d as [|y d]; cbn in H; [discriminate|]. destruct (cell_eqb x y) eqn:H1; [|discriminate]. rename H into H2.
  cbn [forallb existsb]. rewrite H1. cbn. specialize (IH _ H2). rewrite forallb_forall in *.
  intros z Hz. rewrite (IH z Hz). apply orb_true_r.
Qed.
Lemma infixb_sub c d : infixb c d = true -> col_sub_def c d = true.
Proof.
  induction d as [|y d IH]; cbn [infixb]; intros H.
  - destruct (prefixb c []) eqn:E; [|discriminate]. now apply prefixb_sub.
  - destruct (prefixb c (y :: d)) eqn:E; [now apply prefixb_sub|].
    specialize (IH H). unfold col_sub_def in *. rewrite forallb_forall in *. intros z Hz. cbn.
    rewrite (IH z Hz). apply orb_true_r.
Qed.
Lemma col_sub_iff c d : col_sub c d = true <-> col_sub_def c d = true.
Proof.
  unfold col_sub. split.
  - intros H. destruct (infixb c d) eqn:E; [now apply infixb_sub|assumption].
  - intros H. rewrite H. destruct (infixb c d); reflexivity.
Qed.
Lemma col_sub_app_r c d e : col_sub c d = true -> col_sub c (d ++ e) = true.
Proof.
  rewrite !col_sub_iff. unfold col_sub_def. rewrite !forallb_forall. intros H x Hx. specialize (H x Hx).
  rewrite existsb_app, H. reflexivity.
Qed.
Lemma col_sub_app_self c d : col_sub c (d ++ c) = true.
Proof.
  rewrite col_sub_iff. unfold col_sub_def. rewrite forallb_forall. intros x Hx. rewrite existsb_app.
  apply orb_true_iff. right. apply existsb_exists. exists x. split; [assumption|apply cell_eqb_refl].
Qed.

Lemma cells_subb_zip_mono r c e : cells_subb r c = true -> cells_subb r (zip_app c e) = true.
Proof.
  revert c e; induction r as [|x r IH]; intros c e H; [reflexivity|].
  destruct c as [|d c]; cbn in H; [discriminate|]. destruct (col_sub x d) eqn:H1; [|discriminate]. rename H into H2.
  destruct e as [|y e]; cbn; [now rewrite H1, H2|].
  rewrite col_sub_app_r by assumption. auto.
Qed.
Lemma cells_subb_zip_self r c : (length r <= length c)%nat -> cells_subb r (zip_app c r) = true.
Proof.
  revert c; induction r as [|x r IH]; intros c H; [reflexivity|].
  destruct c as [|d c]; cbn in H; [lia|]. cbn. rewrite col_sub_app_self. apply IH. lia.
Qed.

Lemma length_zip_app {A} (a b : list (list A)) : length (zip_app a b) = length a.
Proof. revert b; induction a as [|x a IH]; intros [|y b]; cbn; auto. Qed.

Lemma length_zip_block (c : block) (e : req) : @length col (zip_app c e) = @length col c.
Proof. apply length_zip_app. Qed.

Lemma exists_first_existsb {A} (f : A -> bool) l : exists_first f l = existsb f l.
Proof. induction l as [|a l IH]; cbn; [reflexivity|]. rewrite IH. destruct (f a); reflexivity. Qed.
Lemma covered_unfold strict acked k r :
  covered strict acked k r =
  match eff k r with None => false | Some r' => trivial strict k r' || existsb (cells_subb r') acked end.
Proof. unfold covered. destruct (eff k r); [|reflexivity]. rewrite exists_first_existsb. destruct (trivial strict k r0); reflexivity. Qed.

(* ---------------------------------------------------------------- fit / eff *)
Lemma length_fit n r : length (fit n r) = n.
Proof.
  unfold fit. rewrite firstn_length, app_length, repeat_length. lia.
Qed.
Lemma length_eff_series r1 r' : eff_series r1 = Some r' -> length r' = length r1.
Proof.
  unfold eff_series. destruct (Nat.ltb _ _); [discriminate|]. intros H.
  assert (E : r' = upd 3 (firstn (length (nth 1 r1 [])) (nth 3 r1 [])) r1) by congruence.
  rewrite E. apply length_upd.
Qed.
Lemma length_eff k r r' : eff k r = Some r' -> length r' = ncols k.
Proof.
  unfold eff. destruct k; try (intros H; injection H as E; rewrite <- E; apply length_fit).
  intros H. apply length_eff_series in H. rewrite H. apply length_fit.
Qed.
Lemma length_empty_cols k : length (empty_cols k) = ncols k.
Proof. apply repeat_length. Qed.

Lemma no_cells_key_empty k r : no_cells r = true -> key_empty k r = true.
Proof.
  unfold no_cells, key_empty. intros H. rewrite forallb_forall in H.
  destruct (nth_in_or_default (keycol k) r []) as [Hin|Hd].
  - apply H. exact Hin.
  - now rewrite Hd.
Qed.

Lemma may_take_kind g s sp sv : may_take g s sp = true -> nth_error (svcs g) s = Some sv -> kd sv = sp_kind sp.
Proof.
  unfold may_take. intros H Hs. rewrite Hs in H. apply andb_true_iff in H as [H _]. apply andb_true_iff in H as [_ H].
  now apply kind_eqb_eq.
Qed.
