(* C01: liveness of the wrapped system while the database keeps answering, with refused connections and failed pings. *)
From Coq Require Import List NArith ZArith Bool Lia.
From Qryn Require Import model.Ingest model.PushHandler model.IngestSpec model.PushConfirm model.IngestSched model.IngestFair
  model.IngestConfirmSched model.IngestConfirmFair
  proofs.IngestBase proofs.IngestAck proofs.IngestSpecProofs proofs.IngestHandler proofs.IngestLive proofs.IngestLiveAll
  proofs.IngestFairProofs proofs.IngestConfirm proofs.IngestConfirmInv proofs.IngestConfirmLive.
Import ListNotations.

Definition progress_cf (sig : list (kind * nat)) (db : gstate -> nat -> bool) (c : cstate) (b : nat) (o : option (cact * nat)) : Prop :=
  match o with
  | Some (a, b') => cnonew a = true /\
                    (forall x, a = CBase x -> act_live sig x = true /\ (forall s ok, x = GSvc s (SDoReturn ok) -> ok = db (base c) s)) /\
                    b = b' + (if cis_fault a then 1 else 0) /\
                    exists c' es, cstep c a = Some (c', es) /\ mucf c' b' < mucf c b
  | None => all_done (base c) = true
  end.

Lemma own_progress_c sig db c b : PI sig (base c) -> safe_state (base c) -> progress_cf sig db c b (lift_own_c b (next_act_c db c)).
Proof.
  intros P Q. pose proof (sched_c_progress sig db c P Q) as SP. destruct (next_act_c db c) as [a|]; cbn; [|exact SP].
  destruct SP as (HB & c' & es & St & L). destruct a as [x|h]; cbn [cnonew cis_fault].
  - destruct (HB x eq_refl) as (I1 & I2 & DB). unfold nonew. rewrite I1, (internal_not_fault _ I1). cbn.
    split; [reflexivity|]. split; [intros y E; inversion E; subst; auto|]. split; [lia|]. exists c', es. split; [exact St|]. unfold mucf. lia.
  - split; [reflexivity|]. split; [intros y E; discriminate|]. split; [lia|]. exists c', es. split; [exact St|]. unfold mucf. lia.
Qed.

Theorem sched_cf_progress sig db adv c b : PI sig (base c) -> safe_state (base c) -> progress_cf sig db c b (next_act_cf db adv c b).
Proof.
  intros P Q. unfold next_act_cf. destruct b as [|b]; [apply own_progress_c; assumption|].
  destruct (adv (base c) (S b)) as [f|]; [|apply own_progress_c; assumption].
  destruct (gstep (base c) (fault_act f)) as [[g1 e1]|] eqn:E; [|apply own_progress_c; assumption].
  cbn [progress_cf cnonew cis_fault]. unfold nonew. rewrite (fault_is_fault f), orb_true_r.
  split; [reflexivity|]. split; [intros y Ey; inversion Ey; subst; split; [apply fault_live|intros s ok X; destruct f; discriminate]|].
  split; [lia|].
  exists {| base := g1; fpcache := fpcache c; confirmed := confirmed c |}, (map CE e1). split.
  - apply base_step; [exact E|]. intros h X. destruct f; discriminate.
  - unfold mucf, mu_c. cbn [base confirmed]. destruct f as [s|s]; cbn [fault_act] in E.
    + destruct (refused_dial_stutters _ _ _ _ E) as [-> _]. lia.
    + pose proof (ping_fail_mu _ _ _ _ E). cbn in E. destruct (svc_act_props _ _ _ _ _ E) as (Eh & _). rewrite Eh. lia.
Qed.

Theorem sched_cf_completes sig db adv : forall fuel c b, PI sig (base c) -> safe_state (base c) -> mucf c b <= fuel ->
  exists c' b' tr ces, run_sched_cf db adv fuel c b = (c', b', tr, ces) /\ crun c tr = Some (c', ces) /\ all_done (base c') = true /\
    forallb cnonew tr = true /\ length tr <= mucf c b /\ length (filter cis_fault tr) + b' = b.
Proof.
  induction fuel as [|f IH]; intros c b P Q Hm.
  - exists c, b, [], []. cbn. pose proof (sched_cf_progress sig db adv c b P Q) as SP. destruct (next_act_cf db adv c b) as [[a b1]|].
    + destruct SP as (_ & _ & _ & c' & es & _ & L). lia.
    + cbn in SP. split; [reflexivity|]. split; [reflexivity|]. split; [exact SP|]. split; [reflexivity|]. split; [cbn; lia|reflexivity].
  - pose proof (sched_cf_progress sig db adv c b P Q) as SP. cbn [run_sched_cf]. destruct (next_act_cf db adv c b) as [[a b1]|].
    + destruct SP as (I1 & HB & Eb & c1 & e1 & Hst & L). rewrite Hst.
      assert (K : PI sig (base c1) /\ safe_state (base c1)).
      { destruct a as [x|h].
        - destruct (cstep_base _ _ _ _ Hst) as (eb & G & _). destruct (HB x eq_refl) as [Lv _]. split; [eapply gstep_PI; eauto|].
          eapply (HQ_step confirm_safe); [exact Q| |exact G]. cbn [cnonew] in I1. destruct x; try reflexivity; discriminate.
        - destruct (confirm_as_answer _ _ _ _ Hst) as (keys & hd & _ & _ & _ & _ & _ & _ & _ & Ebase & _). rewrite Ebase. auto. }
      destruct K as [P1 Q1].
      destruct (IH c1 b1 P1 Q1 ltac:(lia)) as (c2 & b2 & tr & e2 & R & Hrun & D & I & Len & Cf). rewrite R.
      exists c2, b2, (a :: tr), (e1 ++ e2). split; [reflexivity|]. split; [cbn; rewrite Hst, Hrun; reflexivity|]. split; [assumption|].
      split; [cbn; rewrite I1, I; reflexivity|]. split; [cbn; lia|]. cbn [filter]. destruct (cis_fault a); cbn [length]; lia.
    + cbn in SP. exists c, b, [], []. split; [reflexivity|]. split; [reflexivity|]. split; [exact SP|]. split; [reflexivity|]. split; [cbn; lia|reflexivity].
Qed.

(* From every state the wrapped system reaches (no Stop, routed, neither ProcessRequest nor ConfirmSeries panics), for every
   policy of INSERT outcomes, every adversary and every budget b of refused connections / failed pings: a schedule of at most
   mu_c + 2 b steps without new work, in which the faults taken and the budget left add up to b, ends with every worker empty
   and every push answered; there the confirmations match the answers, and every push has one answer in the whole log. *)
Theorem wrapped_system_completes_with_faults cfg n tr c ces (db : gstate -> nat -> bool) adv b :
  crun (cinit cfg n) tr = Some (c, ces) ->
  forallb (act_live (sig_of_cfg cfg)) (base_trace tr) = true -> forallb (act_q confirm_safe) (base_trace tr) = true ->
  exists tr' c' ces' b', run_sched_cf db adv (mucf c b) c b = (c', b', tr', ces') /\ crun c tr' = Some (c', ces') /\
    forallb cnonew tr' = true /\ length tr' <= mucf c b /\ length (filter cis_fault tr') + b' = b /\
    all_done (base c') = true /\
    (forall h hd, nth_error (hs (base c')) h = Some hd ->
       (h_answer hd = Some true -> mem_nat h (confirmed c') = true) /\ (h_answer hd = Some false -> mem_nat h (confirmed c') = false)) /\
    one_answer_b (base_events (ces ++ ces')) = true.
Proof.
  intros R Lv Sf. destruct (crun_reach _ _ _ _ _ R Lv Sf) as [P Q].
  destruct (sched_cf_completes _ db adv (mucf c b) c b P Q (le_n _)) as (c' & b' & tr' & ces' & RS & R' & D & I & Len & Cf).
  exists tr', c', ces', b'. split; [assumption|]. split; [assumption|]. split; [assumption|]. split; [assumption|]. split; [assumption|]. split; [assumption|].
  assert (Rall : crun (cinit cfg n) (tr ++ tr') = Some (c', ces ++ ces')).
  { clear - R R'. revert R. generalize (cinit cfg n). revert ces. induction tr as [|a t IH]; intros ces c0 R; cbn in R.
    - inversion R; subst. exact R'.
    - cbn. destruct (cstep c0 a) as [[c1 e1]|]; [|discriminate]. destruct (crun c1 t) as [[c2 e2]|] eqn:Er; [|discriminate].
      inversion R; subst. rewrite (IH _ _ Er). now rewrite app_assoc. }
  split.
  - intros h hd Hh. destruct (confirmation_matches_the_answer _ _ _ _ _ Rall _ _ Hh) as (A & B & _). auto.
  - pose proof (crun_refines _ _ _ _ Rall) as G. cbn [cinit base] in G. eapply one_answer_holds; eauto.
Qed.

(* the state of wrapped_live_demo with a budget of three faults: two failed pings and a refused dial are injected, the push
   still confirms and answers success *)
Example wrapped_fair_demo :
  let tr := map CBase (firstn 9 IngestSpecProofs.demo_trace) in
  let adv := fun (g : gstate) (b : nat) => match b with 3 => Some (FPing 1) | 2 => Some (FDial 1) | _ => Some (FPing 0) end in
  exists c ces, crun (cinit IngestSpecProofs.demo_cfg 2) tr = Some (c, ces) /\ mucf c 3 = 49 /\
    (let '(c1, b1, tr1, es1) := run_sched_cf (fun _ _ => true) adv (mucf c 3) c 3 in
       all_done (base c1) = true /\ b1 = 0 /\ length (filter cis_fault tr1) = 3 /\ confirmed c1 = [0] /\ fpcache c1 = [5%N]).
Proof.
  cbv zeta. destruct (crun (cinit IngestSpecProofs.demo_cfg 2) (map CBase (firstn 9 IngestSpecProofs.demo_trace))) as [[c ces]|] eqn:E;
    [|vm_compute in E; discriminate].
  exists c, ces. split; [reflexivity|]. vm_compute in E. inversion E; subst. clear E. split; [vm_compute; reflexivity|].
  vm_compute. repeat split; reflexivity.
Qed.
