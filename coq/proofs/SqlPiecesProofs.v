(* C10 — the renderer model of C07 (model/SqlRender.v) factors through a segmented text (model/SqlPieces.v):
   (1) rexpr/rsel = flat . pexpr/psel for every tree (structural induction over expr / select_ expr);
   (2) under the value-independent check pok, the ClickHouse lexer reads the flattened text as the tokens of the
       planner's own text plus exactly one literal per value piece, decoding to the value (lex_pieces);
   (3) two segmented texts of the same shape have the same token skeleton (simulation on lexer states);
   (4) replacing the content of the StrV nodes of a tree replaces the value pieces and nothing else (pexpr_subst_all);
   hence values_keep_structure. *)
From Coq Require Import List ZArith NArith String Ascii Bool.
From Qryn Require Import lib.Strs lib.CivilDate model.Sql model.SqlRender model.ChLex model.SqlSites model.SqlPieces.
From Qryn Require Import proofs.QuoteProofs proofs.ChLexProofs proofs.SqlTemplateProofs proofs.SqlSitesProofs.
Import ListNotations.
Open Scope string_scope.

(* ---------- structural induction over expr / select_ expr (nested through lists, options, pairs) ---------- *)
Section SelInd.
  Context {E : Type} (PE : E -> Prop) (Q : select_ E -> Prop) (fE : forall e, PE e).
  Definition Popt (x : option E) : Prop := match x with None => True | Some e => PE e end.
  Definition Pjoin (j : string * E * option E) : Prop := PE (snd (fst j)) /\ Popt (snd j).
  Hypothesis HSel : forall d cols from wh pw hv gb ob lm off withs joins sett unions,
    Forall PE cols -> Popt from -> Popt wh -> Popt pw -> Popt hv -> Forall PE gb -> Forall PE ob -> Popt lm -> Popt off ->
    Forall (fun w => Q (snd w)) withs -> Forall Pjoin joins -> Forall Q unions ->
    Q (mkSel d cols from wh pw hv gb ob lm off withs joins sett unions).
  Definition all_E (l : list E) : Forall PE l :=
    (fix go (l : list E) : Forall PE l := match l with [] => Forall_nil _ | x :: r => Forall_cons x (fE x) (go r) end) l.
  Definition opt_E (x : option E) : Popt x := match x with None => I | Some e => fE e end.
  Definition all_J (l : list (string * E * option E)) : Forall Pjoin l :=
    (fix go (l : list (string * E * option E)) : Forall Pjoin l :=
       match l with [] => Forall_nil _ | x :: r => Forall_cons x (conj (fE (snd (fst x))) (opt_E (snd x))) (go r) end) l.
  Fixpoint sel_ind_gen (s : select_ E) : Q s :=
    match s with
    | mkSel d cols from wh pw hv gb ob lm off withs joins sett unions =>
      HSel d cols from wh pw hv gb ob lm off withs joins sett unions
        (all_E cols) (opt_E from) (opt_E wh) (opt_E pw) (opt_E hv) (all_E gb) (all_E ob) (opt_E lm) (opt_E off)
        ((fix go (ws : list (string * select_ E)) : Forall (fun w => Q (snd w)) ws :=
            match ws with [] => Forall_nil _ | w :: r => Forall_cons w (sel_ind_gen (snd w)) (go r) end) withs)
        (all_J joins)
        ((fix go (us : list (select_ E)) : Forall Q us :=
            match us with [] => Forall_nil _ | u :: r => Forall_cons u (sel_ind_gen u) (go r) end) unions)
    end.
End SelInd.

Section ExprInd.
  Variable P : expr -> Prop.
  Variable Q : select_ expr -> Prop.
  Hypothesis H_Raw : forall s, P (Raw s).
  Hypothesis H_Id : forall s, P (Id s).
  Hypothesis H_QRaw : forall s, P (QRaw s).
  Hypothesis H_Idx : forall x k, P x -> P k -> P (Idx x k).
  Hypothesis H_StrV : forall s, P (StrV s).
  Hypothesis H_IntV : forall z, P (IntV z).
  Hypothesis H_FloatV : forall t, P (FloatV t).
  Hypothesis H_BoolV : forall b, P (BoolV b).
  Hypothesis H_DateV : forall d, P (DateV d).
  Hypothesis H_LOp : forall fn cl, Forall P cl -> P (LOp fn cl).
  Hypothesis H_Not : forall x, P x -> P (Not x).
  Hypothesis H_NotNull : forall x, P x -> P (NotNull x).
  Hypothesis H_In : forall l r, P l -> Forall P r -> P (In l r).
  Hypothesis H_WRef : forall a q, Q q -> P (WRef a q).
  Hypothesis H_Col : forall x a, P x -> P (Col x a).
  Hypothesis H_Ord : forall x asc, P x -> P (Ord x asc).
  Hypothesis H_CtxParam : forall n d, P (CtxParam n d).
  Hypothesis H_Fn : forall name args, Forall P args -> P (Fn name args).
  Hypothesis H_Sep : forall sep parts, Forall P parts -> P (Sep sep parts).
  Hypothesis H_BitSetAnd : forall cl, Forall P cl -> P (BitSetAnd cl).
  Hypothesis H_WithId : forall f, (forall n, P (f n)) -> P (WithId f).
  Hypothesis H_SubQ : forall q, Q q -> P (SubQ q).
  Hypothesis H_Sel : forall d cols from wh pw hv gb ob lm off withs joins sett unions,
    Forall P cols -> Popt P from -> Popt P wh -> Popt P pw -> Popt P hv -> Forall P gb -> Forall P ob -> Popt P lm -> Popt P off ->
    Forall (fun w => Q (snd w)) withs -> Forall (Pjoin P) joins -> Forall Q unions ->
    Q (mkSel d cols from wh pw hv gb ob lm off withs joins sett unions).

  Fixpoint expr_sel_ind (e : expr) : P e :=
    match e with
    | Raw s => H_Raw s
    | Id s => H_Id s
    | QRaw s => H_QRaw s
    | Idx x k => H_Idx x k (expr_sel_ind x) (expr_sel_ind k)
    | StrV s => H_StrV s
    | IntV z => H_IntV z
    | FloatV t => H_FloatV t
    | BoolV b => H_BoolV b
    | DateV d => H_DateV d
    | LOp fn cl => H_LOp fn cl (all_E P expr_sel_ind cl)
    | Not x => H_Not x (expr_sel_ind x)
    | NotNull x => H_NotNull x (expr_sel_ind x)
    | In l r => H_In l r (expr_sel_ind l) (all_E P expr_sel_ind r)
    | WRef a q => H_WRef a q (sel_ind_gen P Q expr_sel_ind H_Sel q)
    | Col x a => H_Col x a (expr_sel_ind x)
    | Ord x asc => H_Ord x asc (expr_sel_ind x)
    | CtxParam n d => H_CtxParam n d
    | Fn name args => H_Fn name args (all_E P expr_sel_ind args)
    | Sep sep parts => H_Sep sep parts (all_E P expr_sel_ind parts)
    | BitSetAnd cl => H_BitSetAnd cl (all_E P expr_sel_ind cl)
    | WithId f => H_WithId f (fun n => expr_sel_ind (f n))
    | SubQ q => H_SubQ q (sel_ind_gen P Q expr_sel_ind H_Sel q)
    end.
  Definition sel_expr_ind (q : select_ expr) : Q q := sel_ind_gen P Q expr_sel_ind H_Sel q.
End ExprInd.

(* ---------- flat is a homomorphism ---------- *)
Lemma flat_app a b : flat (a ++ b)%list = flat a ++ flat b.
Proof. induction a as [|x a IH]; [reflexivity|]. cbn [app flat]. rewrite IH, sapp_assoc. reflexivity. Qed.

Lemma flat_pjoin sep : forall l, flat (pjoin sep l) = join sep (map flat l).
Proof.
  induction l as [|x l IH]; [reflexivity|].
  destruct l as [|y l]; [reflexivity|].
  change (pjoin sep (x :: y :: l)) with (x ++ RTxt sep :: pjoin sep (y :: l))%list.
  change (join sep (map flat (x :: y :: l))) with (flat x ++ sep ++ join sep (map flat (y :: l))).
  rewrite flat_app. cbn [flat flat1]. rewrite IH. reflexivity.
Qed.

Lemma quote_nonempty s : String.eqb (SqlRender.quote s) "" = false.
Proof. reflexivity. Qed.

Lemma sapp_empty a b : String.eqb (a ++ b) "" = String.eqb a "" && String.eqb b "".
Proof. destruct a; [destruct b; reflexivity|reflexivity]. Qed.

Lemma flat_empty : forall p, String.eqb (flat p) "" = rempty p.
Proof.
  induction p as [|x p IH]; [reflexivity|].
  cbn [flat rempty forallb]. rewrite sapp_empty, IH. fold (rempty p). f_equal.
  destruct x as [t|s|s]; reflexivity.
Qed.

(* ---------- one-step unfoldings of the two select renderers ---------- *)
Definition rwiths_of {E} (rs : select_ E -> opts -> rst -> string * rst) (o : opts) :=
  fix rwiths (ws : list (string * select_ E)) (st : rst) : list string * rst :=
    match ws with
    | [] => ([], st)
    | (a, q) :: r => let '(s1, st1) := rs q (add_skip o) st in
                     let '(ss, st2) := rwiths r st1 in ((a ++ " as (" ++ s1 ++ ")") :: ss, st2)
    end.
Definition runions_of {E} (rs : select_ E -> opts -> rst -> string * rst) (o : opts) :=
  fix runions (us : list (select_ E)) (st : rst) : list string * rst :=
    match us with
    | [] => ([], st)
    | q :: r => let '(s1, st1) := rs q o st in let '(ss, st2) := runions r st1 in (s1 :: ss, st2)
    end.
Definition rwith_part {E} (rs : select_ E -> opts -> rst -> string * rst) (o : opts) (withs : list (string * select_ E)) (st : rst) :=
  match withs with
  | [] => ("", st)
  | w0 :: wr => if skip_with o || inline_with o then ("", st) else let '(ss, st') := rwiths_of rs o (w0 :: wr) st in ("WITH " ++ join "," ss, st') end.
Definition rcols_part {E} (rexpr : E -> opts -> rst -> string * rst) (o : opts) (cols : list E) (st1 : rst) :=
  match cols with
  | [] => ("", fail st1)
  | c0 :: cr => let '(ss, st') := rlist rexpr (c0 :: cr) o st1 in (join ", " ss, st') end.
Definition rfrom_part {E} (rexpr : E -> opts -> rst -> string * rst) (o : opts) (from : option E) (joins : list (string * E * option E)) (st2 : rst) :=
  match from with
  | None => ("", st2)
  | Some f => let '(fs, st') := rexpr f o st2 in
              let '(js, st'') := rjoins rexpr joins o st' in (" FROM " ++ fs ++ js, st'') end.
Definition rsel_body {E} (rexpr : E -> opts -> rst -> string * rst) (rs : select_ E -> opts -> rst -> string * rst)
    (s : select_ E) (o : opts) (st : rst) : string * rst :=
    let '(w, st1) := rwith_part rs o (s_withs s) st in
    let '(cols, st2) := rcols_part rexpr o (s_cols s) st1 in
    let '(fromj, st3) := rfrom_part rexpr o (s_from s) (s_joins s) st2 in
    let '(pw, st4) := ropt rexpr " PREWHERE " (s_prewhere s) o st3 in
    let '(wh, st5) := ropt rexpr " WHERE " (s_where s) o st4 in
    let '(gb, st6) := rlist_kw rexpr " GROUP BY " ", " (s_groupby s) o st5 in
    let '(hv, st7) := ropt rexpr " HAVING " (s_having s) o st6 in
    let '(ob, st8) := rlist_kw rexpr " ORDER BY " ", " (s_orderby s) o st7 in
    let '(lm, st9) := ropt_nonempty rexpr " LIMIT " (s_limit s) o st8 in
    let '(off, st10) := ropt_nonempty rexpr " OFFSET " (s_offset s) o st9 in
    let sett := match s_settings s with
                | [] => ""
                | kv => " SETTINGS " ++ String.concat "" (map (fun p => fst p ++ "=" ++ snd p ++ " ") kv) end in
    let '(us, st11) := runions_of rs o (s_unions s) st10 in
    (join " UNION ALL " ((w ++ " SELECT " ++ (if s_distinct s then " DISTINCT " else "") ++ cols ++ fromj
       ++ pw ++ wh ++ gb ++ hv ++ ob ++ lm ++ off ++ sett) :: us), st11).

Lemma rsel_unfold {E} (rexpr : E -> opts -> rst -> string * rst) s o st :
  rsel rexpr s o st = rsel_body rexpr (rsel rexpr) s o st.
Proof. destruct s. reflexivity. Qed.

Definition pwiths_of {E} (ps : select_ E -> opts -> rst -> rtext * rst) (o : opts) :=
  fix pwiths (ws : list (string * select_ E)) (st : rst) : list rtext * rst :=
    match ws with
    | [] => ([], st)
    | (a, q) :: r => let '(s1, st1) := ps q (add_skip o) st in
                     let '(ss, st2) := pwiths r st1 in ((RTxt a :: RTxt " as (" :: s1 ++ [RTxt ")"])%list :: ss, st2)
    end.
Definition punions_of {E} (ps : select_ E -> opts -> rst -> rtext * rst) (o : opts) :=
  fix punions (us : list (select_ E)) (st : rst) : list rtext * rst :=
    match us with
    | [] => ([], st)
    | q :: r => let '(s1, st1) := ps q o st in let '(ss, st2) := punions r st1 in (s1 :: ss, st2)
    end.
Definition pwith_part {E} (ps : select_ E -> opts -> rst -> rtext * rst) (o : opts) (withs : list (string * select_ E)) (st : rst) : rtext * rst :=
  match withs with
  | [] => ([], st)
  | w0 :: wr => if skip_with o || inline_with o then ([], st) else let '(ss, st') := pwiths_of ps o (w0 :: wr) st in (RTxt "WITH " :: pjoin "," ss, st') end.
Definition pcols_part {E} (pexpr : E -> opts -> rst -> rtext * rst) (o : opts) (cols : list E) (st1 : rst) : rtext * rst :=
  match cols with
  | [] => ([], fail st1)
  | c0 :: cr => let '(ss, st') := plist pexpr (c0 :: cr) o st1 in (pjoin ", " ss, st') end.
Definition pfrom_part {E} (pexpr : E -> opts -> rst -> rtext * rst) (o : opts) (from : option E) (joins : list (string * E * option E)) (st2 : rst) : rtext * rst :=
  match from with
  | None => ([], st2)
  | Some f => let '(fs, st') := pexpr f o st2 in
              let '(js, st'') := pjoins pexpr joins o st' in ((RTxt " FROM " :: fs ++ js)%list, st'') end.
Definition psel_body {E} (pexpr : E -> opts -> rst -> rtext * rst) (ps : select_ E -> opts -> rst -> rtext * rst)
    (s : select_ E) (o : opts) (st : rst) : rtext * rst :=
    let '(w, st1) := pwith_part ps o (s_withs s) st in
    let '(cols, st2) := pcols_part pexpr o (s_cols s) st1 in
    let '(fromj, st3) := pfrom_part pexpr o (s_from s) (s_joins s) st2 in
    let '(pw, st4) := popt pexpr " PREWHERE " (s_prewhere s) o st3 in
    let '(wh, st5) := popt pexpr " WHERE " (s_where s) o st4 in
    let '(gb, st6) := plist_kw pexpr " GROUP BY " ", " (s_groupby s) o st5 in
    let '(hv, st7) := popt pexpr " HAVING " (s_having s) o st6 in
    let '(ob, st8) := plist_kw pexpr " ORDER BY " ", " (s_orderby s) o st7 in
    let '(lm, st9) := popt_nonempty pexpr " LIMIT " (s_limit s) o st8 in
    let '(off, st10) := popt_nonempty pexpr " OFFSET " (s_offset s) o st9 in
    let sett := match s_settings s with
                | [] => ""
                | kv => " SETTINGS " ++ String.concat "" (map (fun p => fst p ++ "=" ++ snd p ++ " ") kv) end in
    let '(us, st11) := punions_of ps o (s_unions s) st10 in
    (pjoin " UNION ALL " ((w ++ RTxt " SELECT " :: RTxt (if s_distinct s then " DISTINCT " else "") :: cols ++ fromj
       ++ pw ++ wh ++ gb ++ hv ++ ob ++ lm ++ off ++ [RTxt sett])%list :: us), st11).

Lemma psel_unfold {E} (pexpr : E -> opts -> rst -> rtext * rst) s o st :
  psel pexpr s o st = psel_body pexpr (psel pexpr) s o st.
Proof. destruct s. reflexivity. Qed.

(* ---------- the two renderers agree: generic part (helpers of the RENDER / PRENDER sections) ---------- *)
Section Agree.
  Context {E : Type} (rexpr : E -> opts -> rst -> string * rst) (pexpr : E -> opts -> rst -> rtext * rst).
  Definition agree (e : E) : Prop := forall o st, rexpr e o st = (flat (fst (pexpr e o st)), snd (pexpr e o st)).
  Definition agree_sel (q : select_ E) : Prop :=
    forall o st, rsel rexpr q o st = (flat (fst (psel pexpr q o st)), snd (psel pexpr q o st)).

  Lemma rlist_agree l : Forall agree l -> forall o st,
    rlist rexpr l o st = (map flat (fst (plist pexpr l o st)), snd (plist pexpr l o st)).
  Proof.
    induction 1 as [|e l He _ IH]; intros o st; [reflexivity|].
    cbn [rlist plist]. rewrite (He o st). destruct (pexpr e o st) as [s st1]. cbn [fst snd].
    rewrite (IH o st1). destruct (plist pexpr l o st1) as [ss st2]. reflexivity.
  Qed.

  Lemma ropt_agree kw x : Popt agree x -> forall o st,
    ropt rexpr kw x o st = (flat (fst (popt pexpr kw x o st)), snd (popt pexpr kw x o st)).
  Proof.
    destruct x as [e|]; intros H o st; [|reflexivity].
    cbn [ropt popt]. rewrite (H o st). destruct (pexpr e o st) as [s st1]. reflexivity.
  Qed.

  Lemma ropt_nonempty_agree kw x : Popt agree x -> forall o st,
    ropt_nonempty rexpr kw x o st = (flat (fst (popt_nonempty pexpr kw x o st)), snd (popt_nonempty pexpr kw x o st)).
  Proof.
    destruct x as [e|]; intros H o st; [|reflexivity].
    cbn [ropt_nonempty popt_nonempty]. rewrite (H o st). destruct (pexpr e o st) as [s st1]. cbn [fst snd].
    rewrite flat_empty. destruct (rempty s); reflexivity.
  Qed.

  Lemma rlist_kw_agree kw sep l : Forall agree l -> forall o st,
    rlist_kw rexpr kw sep l o st = (flat (fst (plist_kw pexpr kw sep l o st)), snd (plist_kw pexpr kw sep l o st)).
  Proof.
    intros H o st. destruct l as [|e l]; [reflexivity|].
    unfold rlist_kw, plist_kw. rewrite (rlist_agree _ H o st).
    destruct (plist pexpr (e :: l) o st) as [ss st1]. cbn [fst snd flat flat1]. rewrite flat_pjoin. reflexivity.
  Qed.

  Lemma rjoins_agree js : Forall (Pjoin agree) js -> forall o st,
    rjoins rexpr js o st = (flat (fst (pjoins pexpr js o st)), snd (pjoins pexpr js o st)).
  Proof.
    induction 1 as [|[[tp tbl] on] js [Ht Hon] _ IH]; intros o st; [reflexivity|].
    cbn [fst snd] in Ht, Hon. cbn [rjoins pjoins].
    rewrite (Ht o st). destruct (pexpr tbl o st) as [t st1]. cbn [fst snd].
    destruct (String.eqb (to_lower tp) "array").
    - rewrite (IH o st1). destruct (pjoins pexpr js o st1) as [rest st3]. cbn [fst snd flat flat1 app].
      rewrite flat_app. reflexivity.
    - destruct on as [c|].
      + cbn in Hon. rewrite (Hon o st1). destruct (pexpr c o st1) as [s st2]. cbn [fst snd].
        rewrite (IH o st2). destruct (pjoins pexpr js o st2) as [rest st3]. cbn [fst snd flat flat1 app].
        rewrite flat_app. cbn [flat flat1 app]. rewrite flat_app. reflexivity.
      + rewrite (IH o (fail st1)). destruct (pjoins pexpr js o (fail st1)) as [rest st3]. cbn [fst snd flat flat1 app].
        rewrite flat_app. reflexivity.
  Qed.

  Lemma rwiths_agree o ws : Forall (fun w => agree_sel (snd w)) ws -> forall st,
    rwiths_of (rsel rexpr) o ws st =
    (map flat (fst (pwiths_of (psel pexpr) o ws st)), snd (pwiths_of (psel pexpr) o ws st)).
  Proof.
    induction 1 as [|[a q] ws Hq _ IH]; intro st; [reflexivity|].
    cbn [snd] in Hq. cbn [rwiths_of pwiths_of]. fold (rwiths_of (rsel rexpr) o). fold (pwiths_of (psel pexpr) o).
    rewrite (Hq (add_skip o) st). destruct (psel pexpr q (add_skip o) st) as [s1 st1]. cbn [fst snd].
    rewrite (IH st1). destruct (pwiths_of (psel pexpr) o ws st1) as [ss st2]. cbn [fst snd map flat flat1].
    rewrite flat_app. cbn [flat flat1]. rewrite sapp_nil_r. reflexivity.
  Qed.

  Lemma runions_agree o us : Forall agree_sel us -> forall st,
    runions_of (rsel rexpr) o us st =
    (map flat (fst (punions_of (psel pexpr) o us st)), snd (punions_of (psel pexpr) o us st)).
  Proof.
    induction 1 as [|q us Hq _ IH]; intro st; [reflexivity|].
    cbn [runions_of punions_of]. fold (runions_of (rsel rexpr) o). fold (punions_of (psel pexpr) o).
    rewrite (Hq o st). destruct (psel pexpr q o st) as [s1 st1]. cbn [fst snd].
    rewrite (IH st1). destruct (punions_of (psel pexpr) o us st1) as [ss st2]. reflexivity.
  Qed.

  Lemma rwith_agree o ws : Forall (fun w => agree_sel (snd w)) ws -> forall st,
    rwith_part (rsel rexpr) o ws st = (flat (fst (pwith_part (psel pexpr) o ws st)), snd (pwith_part (psel pexpr) o ws st)).
  Proof.
    intros H st. destruct ws as [|w0 ws]; [reflexivity|]. unfold rwith_part, pwith_part.
    destruct (skip_with o || inline_with o); [reflexivity|].
    rewrite (rwiths_agree o _ H st). destruct (pwiths_of (psel pexpr) o (w0 :: ws) st) as [ss st']. cbn [fst snd flat flat1].
    rewrite flat_pjoin. reflexivity.
  Qed.

  Lemma rcols_agree o cols : Forall agree cols -> forall st,
    rcols_part rexpr o cols st = (flat (fst (pcols_part pexpr o cols st)), snd (pcols_part pexpr o cols st)).
  Proof.
    intros H st. destruct cols as [|c cs]; [reflexivity|]. unfold rcols_part, pcols_part.
    rewrite (rlist_agree _ H o st). destruct (plist pexpr (c :: cs) o st) as [ss st']. cbn [fst snd]. rewrite flat_pjoin. reflexivity.
  Qed.

  Lemma rfrom_agree o from joins : Popt agree from -> Forall (Pjoin agree) joins -> forall st,
    rfrom_part rexpr o from joins st = (flat (fst (pfrom_part pexpr o from joins st)), snd (pfrom_part pexpr o from joins st)).
  Proof.
    intros Hf Hj st. destruct from as [f|]; [|reflexivity]. unfold rfrom_part, pfrom_part. cbn in Hf.
    rewrite (Hf o st). destruct (pexpr f o st) as [fs st']. cbn [fst snd].
    rewrite (rjoins_agree _ Hj o st'). destruct (pjoins pexpr joins o st') as [js st'']. cbn [fst snd flat flat1].
    rewrite flat_app. reflexivity.
  Qed.

  Lemma rsel_agree d cols from wh pw hv gb ob lm off withs joins sett unions :
    Forall agree cols -> Popt agree from -> Popt agree wh -> Popt agree pw -> Popt agree hv -> Forall agree gb -> Forall agree ob ->
    Popt agree lm -> Popt agree off ->
    Forall (fun w => agree_sel (snd w)) withs -> Forall (Pjoin agree) joins -> Forall agree_sel unions ->
    agree_sel (mkSel d cols from wh pw hv gb ob lm off withs joins sett unions).
  Proof.
    intros Hcols Hfrom Hwh Hpw Hhv Hgb Hob Hlm Hoff Hwiths Hjoins Hunions o st.
    rewrite rsel_unfold, psel_unfold. unfold rsel_body, psel_body.
    cbn [s_distinct s_cols s_from s_where s_prewhere s_having s_groupby s_orderby s_limit s_offset s_withs s_joins s_settings s_unions].
    rewrite (rwith_agree o _ Hwiths st). destruct (pwith_part (psel pexpr) o withs st) as [w st1]. cbn [fst snd].
    rewrite (rcols_agree o _ Hcols st1). destruct (pcols_part pexpr o cols st1) as [cs st2]. cbn [fst snd].
    rewrite (rfrom_agree o _ _ Hfrom Hjoins st2). destruct (pfrom_part pexpr o from joins st2) as [fj st3]. cbn [fst snd].
    rewrite (ropt_agree " PREWHERE " _ Hpw o st3). destruct (popt pexpr " PREWHERE " pw o st3) as [pws st4]. cbn [fst snd].
    rewrite (ropt_agree " WHERE " _ Hwh o st4). destruct (popt pexpr " WHERE " wh o st4) as [whs st5]. cbn [fst snd].
    rewrite (rlist_kw_agree " GROUP BY " ", " _ Hgb o st5). destruct (plist_kw pexpr " GROUP BY " ", " gb o st5) as [gbs st6]. cbn [fst snd].
    rewrite (ropt_agree " HAVING " _ Hhv o st6). destruct (popt pexpr " HAVING " hv o st6) as [hvs st7]. cbn [fst snd].
    rewrite (rlist_kw_agree " ORDER BY " ", " _ Hob o st7). destruct (plist_kw pexpr " ORDER BY " ", " ob o st7) as [obs st8]. cbn [fst snd].
    rewrite (ropt_nonempty_agree " LIMIT " _ Hlm o st8). destruct (popt_nonempty pexpr " LIMIT " lm o st8) as [lms st9]. cbn [fst snd].
    rewrite (ropt_nonempty_agree " OFFSET " _ Hoff o st9). destruct (popt_nonempty pexpr " OFFSET " off o st9) as [offs st10]. cbn [fst snd].
    rewrite (runions_agree o _ Hunions st10). destruct (punions_of (psel pexpr) o unions st10) as [us st11]. cbn [fst snd].
    f_equal. rewrite flat_pjoin. cbn [map]. f_equal. f_equal.
    rewrite flat_app. cbn [flat flat1]. rewrite !flat_app. cbn [flat flat1]. rewrite sapp_nil_r. reflexivity.
  Qed.
End Agree.

(* ---------- the two renderers agree on every tree ---------- *)
Lemma flat_paren s : flat (paren s) = "(" ++ flat s ++ ")".
Proof. unfold paren. cbn [flat flat1]. rewrite flat_app. cbn [flat flat1]. rewrite sapp_nil_r. reflexivity. Qed.

Lemma flat_bitset : forall ss i, map flat (pbitset_parts ss i) = bitset_parts (map flat ss) i.
Proof.
  induction ss as [|s ss IH]; intro i; [reflexivity|].
  cbn [pbitset_parts bitset_parts map]. rewrite IH. f_equal.
  cbn [flat flat1]. rewrite flat_app. cbn [flat flat1]. rewrite sapp_nil_r. reflexivity.
Qed.

Ltac step_list H o st :=
  rewrite (rlist_agree rexpr pexpr _ H o st);
  let ss := fresh "ss" in let st1 := fresh "st" in
  destruct (plist pexpr _ o st) as [ss st1]; cbn [fst snd].
Ltac step_expr H o st :=
  rewrite (H o st);
  let s := fresh "s" in let st1 := fresh "st" in
  destruct (pexpr _ o st) as [s st1]; cbn [fst snd].

Lemma pexpr_flat_all :
  (forall e, agree rexpr pexpr e) /\ (forall q, agree_sel rexpr pexpr q).
Proof.
  assert (HS : forall d cols from wh pw hv gb ob lm off withs joins sett unions,
    Forall (agree rexpr pexpr) cols -> Popt (agree rexpr pexpr) from -> Popt (agree rexpr pexpr) wh -> Popt (agree rexpr pexpr) pw ->
    Popt (agree rexpr pexpr) hv -> Forall (agree rexpr pexpr) gb -> Forall (agree rexpr pexpr) ob ->
    Popt (agree rexpr pexpr) lm -> Popt (agree rexpr pexpr) off ->
    Forall (fun w => agree_sel rexpr pexpr (snd w)) withs -> Forall (Pjoin (agree rexpr pexpr)) joins ->
    Forall (agree_sel rexpr pexpr) unions ->
    agree_sel rexpr pexpr (mkSel d cols from wh pw hv gb ob lm off withs joins sett unions)).
  { intros. now apply rsel_agree. }
  assert (HE : forall e, agree rexpr pexpr e).
  { apply (expr_sel_ind (agree rexpr pexpr) (agree_sel rexpr pexpr)); try exact HS; unfold agree.
    - intros; cbn [rexpr pexpr fst snd flat flat1]; rewrite ?sapp_nil_r; reflexivity.
    - intros; cbn [rexpr pexpr fst snd flat flat1]; rewrite ?sapp_nil_r; reflexivity.
    - intros; cbn [rexpr pexpr fst snd flat flat1]; rewrite ?sapp_nil_r; reflexivity.
    - intros x k Hx Hk o st. cbn [rexpr pexpr]. step_expr Hx o st. step_expr Hk o st0.
      rewrite flat_app. cbn [flat flat1]. rewrite flat_app. cbn [flat flat1]. rewrite sapp_nil_r. reflexivity.
    - intros; cbn [rexpr pexpr fst snd flat flat1]; rewrite ?sapp_nil_r; reflexivity.
    - intros; cbn [rexpr pexpr fst snd flat flat1]; rewrite ?sapp_nil_r; reflexivity.
    - intros; cbn [rexpr pexpr fst snd flat flat1]; rewrite ?sapp_nil_r; reflexivity.
    - intros; cbn [rexpr pexpr fst snd flat flat1]; rewrite ?sapp_nil_r; reflexivity.
    - intros d o st. cbn [rexpr pexpr fst snd flat flat1]. rewrite sapp_nil_r. reflexivity.
    - intros fn cl H o st. cbn [rexpr pexpr]. step_list H o st.
      rewrite flat_pjoin, map_map, map_map. f_equal. f_equal. apply map_ext. intro a. now rewrite flat_paren.
    - intros x Hx o st. cbn [rexpr pexpr]. step_expr Hx o st.
      cbn [flat flat1]. rewrite flat_app. cbn [flat flat1]. rewrite sapp_nil_r. reflexivity.
    - intros x Hx o st. cbn [rexpr pexpr]. step_expr Hx o st.
      rewrite flat_app. cbn [flat flat1]. rewrite sapp_nil_r. reflexivity.
    - intros l r Hl Hr o st. cbn [rexpr pexpr]. step_list Hr o st. step_expr Hl o st0.
      rewrite flat_app. cbn [flat flat1]. rewrite flat_app, flat_pjoin. cbn [flat flat1]. rewrite sapp_nil_r. reflexivity.
    - intros a q Hq o st. cbn [rexpr pexpr]. destruct (String.eqb a ""); [reflexivity|].
      destruct (inline_with o); [|cbn [fst snd flat flat1]; now rewrite sapp_nil_r].
      change (rsel rexpr q (del_noalias o) st) with (rsel rexpr q (del_noalias o) st).
      rewrite (Hq (del_noalias o) st). destruct (psel pexpr q (del_noalias o) st) as [s st1]. cbn [fst snd flat flat1].
      rewrite flat_app. cbn [flat flat1]. destruct (no_alias o); cbn [flat flat1]; rewrite ?sapp_nil_r; reflexivity.
    - intros x a Hx o st. cbn [rexpr pexpr]. step_expr Hx (add_noalias o) st.
      destruct (String.eqb a ""); [reflexivity|]. rewrite flat_app. cbn [flat flat1]. rewrite sapp_nil_r. reflexivity.
    - intros x asc Hx o st. cbn [rexpr pexpr]. step_expr Hx o st.
      rewrite flat_app. cbn [flat flat1]. rewrite sapp_nil_r. reflexivity.
    - intros n d o st. cbn [rexpr pexpr]. destruct d; [|reflexivity]. cbn [fst snd flat flat1]. now rewrite sapp_nil_r.
    - intros name args H o st. cbn [rexpr pexpr]. step_list H o st.
      cbn [flat flat1]. rewrite flat_app, flat_pjoin. cbn [flat flat1]. rewrite sapp_nil_r. reflexivity.
    - intros sep parts H o st. cbn [rexpr pexpr]. step_list H o st. now rewrite flat_pjoin.
    - intros cl H o st. cbn [rexpr pexpr]. step_list H o st.
      cbn [flat flat1]. rewrite flat_app, flat_pjoin, flat_bitset. cbn [flat flat1]. rewrite sapp_nil_r. reflexivity.
    - intros f H o st. cbn [rexpr pexpr]. apply H.
    - intros q Hq o st. cbn [rexpr pexpr]. apply Hq. }
  split; [exact HE|].
  exact (sel_expr_ind (agree rexpr pexpr) (agree_sel rexpr pexpr)
    (fun s _ _ => HE (Raw s) _ _) (fun s _ _ => HE (Id s) _ _) (fun s _ _ => HE (QRaw s) _ _) (fun x k _ _ => HE (Idx x k))
    (fun s => HE (StrV s)) (fun z => HE (IntV z)) (fun t => HE (FloatV t)) (fun b => HE (BoolV b)) (fun d => HE (DateV d))
    (fun fn cl _ => HE (LOp fn cl)) (fun x _ => HE (Not x)) (fun x _ => HE (NotNull x)) (fun l r _ _ => HE (In l r))
    (fun a q _ => HE (WRef a q)) (fun x a _ => HE (Col x a)) (fun x asc _ => HE (Ord x asc)) (fun n d => HE (CtxParam n d))
    (fun name args _ => HE (Fn name args)) (fun sep parts _ => HE (Sep sep parts)) (fun cl _ => HE (BitSetAnd cl))
    (fun f _ => HE (WithId f)) (fun q _ => HE (SubQ q)) HS).
Qed.

(* ---------- the ClickHouse lexer on a segmented text ---------- *)
Lemma render_esc_is_esc : forall s, SqlRender.esc s = Quote.esc s.
Proof. induction s as [|c s IH]; [reflexivity|]. unfold SqlRender.esc in *. cbn [map_string Quote.esc]. rewrite IH. reflexivity. Qed.

Lemma render_quote_is_quote s : SqlRender.quote s = Quote.quote s.
Proof. unfold SqlRender.quote, Quote.quote. now rewrite render_esc_is_esc. Qed.

(* a raw-quoted identifier over plain bytes is the quoted form of itself *)
Lemma qid_is_quote s : all_chars plain_char s = true -> "'" ++ s ++ "'" = Quote.quote s.
Proof. intro H. unfold Quote.quote. now rewrite (esc_plain s H). Qed.

(* [ptoks]: the machine run over the pieces, a value piece leaving it behind the closing quote *)
Fixpoint ptoks (q : st) (p : rtext) : list tok :=
  match p with
  | [] => flush q
  | RTxt t :: r => outs q t ++ ptoks (after q t) r
  | RLit s :: r | RQid s :: r => snd (step q "'") ++ ptoks (QStrQ s) r
  end.

Lemma run_pieces : forall p q, pok q p = true -> run q (flat p) = ptoks q p.
Proof.
  induction p as [|x p IH]; intros q H; [reflexivity|].
  destruct x as [t|s|s]; cbn [pok flat flat1 ptoks] in *.
  - apply andb_true_iff in H. destruct H as [_ H]. rewrite run_app, (IH _ H). reflexivity.
  - apply andb_true_iff in H. destruct H as [Ho H]. rewrite render_quote_is_quote, run_app.
    destruct (quote_after q s Ho) as [Ha Hout]. rewrite Ha, Hout, (IH _ H). reflexivity.
  - apply andb_true_iff in H. destruct H as [H1 H]. apply andb_true_iff in H1. destruct H1 as [Ho Hp].
    rewrite (qid_is_quote s Hp), run_app.
    destruct (quote_after q s Ho) as [Ha Hout]. rewrite Ha, Hout, (IH _ H). reflexivity.
Qed.

Lemma opens_literal_QStrQ s : opens_literal (QStrQ s) = false.
Proof. unfold opens_literal. cbn [step fst]. destruct s; reflexivity. Qed.

(* behind a closing quote, a text that does not begin with a quote completes the literal token *)
Lemma outs_after_literal s t : starts_quote t = false ->
  t <> "" -> outs (QStrQ s) t = TStr s :: outs QN t /\ after (QStrQ s) t = after QN t.
Proof.
  destruct t as [|c t]; [congruence|]. intros H _. cbn [starts_quote] in H.
  cbn [outs after step]. rewrite H. unfold emit_then. destruct (step_normal c) as [q' o]. cbn [fst snd]. split; reflexivity.
Qed.

Lemma etoks_after_literal : forall r s, pok (QStrQ s) r = true -> etoks (QStrQ s) r = TStr s :: etoks QN r.
Proof.
  induction r as [|x r IH]; intros s H; [reflexivity|].
  destruct x as [t|v|v]; cbn [pok] in H.
  - apply andb_true_iff in H. destruct H as [Hq H]. cbn [follows_literal andb] in Hq. apply negb_true_iff in Hq.
    cbn [etoks]. destruct t as [|c t].
    + cbn [outs after app] in *. exact (IH s H).
    + destruct (outs_after_literal s (String c t) Hq ltac:(discriminate)) as [Ho Ha].
      rewrite Ho, Ha. reflexivity.
  - rewrite opens_literal_QStrQ in H. discriminate.
  - rewrite opens_literal_QStrQ in H. discriminate.
Qed.

Lemma ptoks_etoks : forall p q, pok q p = true -> ptoks q p = etoks q p.
Proof.
  induction p as [|x p IH]; intros q H; [reflexivity|].
  destruct x as [t|s|s]; cbn [pok ptoks etoks] in *.
  - apply andb_true_iff in H. destruct H as [_ H]. now rewrite (IH _ H).
  - apply andb_true_iff in H. destruct H as [_ H]. now rewrite (IH _ H), (etoks_after_literal _ _ H).
  - apply andb_true_iff in H. destruct H as [H1 H]. now rewrite (IH _ H), (etoks_after_literal _ _ H).
Qed.

(* THE TOKEN THEOREM for segmented texts *)
Lemma lex_pieces p : pok QN p = true -> lex (flat p) = etoks QN p.
Proof. intro H. unfold lex. now rewrite (run_pieces p QN H), (ptoks_etoks p QN H). Qed.

(* ---------- value independence: the condition and the skeleton depend on the shape only ---------- *)
Definition lit_state (q : st) : bool :=
  match q with QStr _ | QStrB _ | QStrX _ | QStrX1 _ _ | QStrQ _ => true | _ => false end.

Lemma opens_not_lit q : opens_literal q = true -> lit_state q = false.
Proof.
  destruct q; try reflexivity; intro H; exfalso; unfold opens_literal in H; vm_compute in H;
  try discriminate H; destruct acc; discriminate H.
Qed.

Lemma sim_not_lit q1 q2 : sim q1 q2 -> lit_state q1 = false -> q1 = q2.
Proof. destruct q1; destruct q2; cbn [sim lit_state]; intros H Hl; try assumption; discriminate. Qed.

Lemma opens_literal_sim q1 q2 : sim q1 q2 -> opens_literal q1 = true -> q1 = q2.
Proof. intros Hs Ho. exact (sim_not_lit _ _ Hs (opens_not_lit _ Ho)). Qed.

Lemma follows_literal_sim q1 q2 : sim q1 q2 -> follows_literal q1 = follows_literal q2.
Proof. destruct q1; destruct q2; cbn [sim]; intro H; try discriminate H; try reflexivity; now inversion H. Qed.

Lemma shape_cons_inv x p y p' : shape (x :: p) = shape (y :: p') -> erase1 x = erase1 y /\ shape p = shape p'.
Proof. cbn [shape map]. intro H. now inversion H. Qed.

Lemma pok_sim : forall p p' q1 q2, sim q1 q2 -> shape p = shape p' ->
  forallb (all_chars plain_char) (rqids p') = true ->
  pok q1 p = true -> pok q2 p' = true.
Proof.
  induction p as [|x p IH]; intros p' q1 q2 Hs Hsh Hq H.
  - destruct p'; [reflexivity|discriminate].
  - destruct p' as [|y p']; [discriminate|]. apply shape_cons_inv in Hsh. destruct Hsh as [Hx Hsh].
    destruct x as [t|s|s]; destruct y as [t'|s'|s']; try discriminate Hx; cbn [pok] in *.
    + injection Hx as <-. apply andb_true_iff in H. destruct H as [H1 H].
      rewrite <- (follows_literal_sim _ _ Hs), H1. cbn [andb].
      exact (IH p' _ _ (after_sim t _ _ Hs) Hsh Hq H).
    + apply andb_true_iff in H. destruct H as [Ho H].
      rewrite <- (opens_literal_sim _ _ Hs Ho), Ho. cbn [andb].
      exact (IH p' (QStrQ s) (QStrQ s') I Hsh Hq H).
    + apply andb_true_iff in H. destruct H as [H1 H]. apply andb_true_iff in H1. destruct H1 as [Ho _].
      cbn [rqids flat_map app forallb] in Hq. apply andb_true_iff in Hq. destruct Hq as [Hq1 Hq].
      rewrite <- (opens_literal_sim _ _ Hs Ho), Ho, Hq1. cbn [andb].
      exact (IH p' (QStrQ s) (QStrQ s') I Hsh Hq H).
Qed.

Lemma ptoks_sim : forall p p' q1 q2, sim q1 q2 -> shape p = shape p' -> pok q1 p = true ->
  skeleton (ptoks q1 p) = skeleton (ptoks q2 p').
Proof.
  induction p as [|x p IH]; intros p' q1 q2 Hs Hsh H.
  - destruct p'; [|discriminate]. now apply flush_sim.
  - destruct p' as [|y p']; [discriminate|]. apply shape_cons_inv in Hsh. destruct Hsh as [Hx Hsh].
    destruct x as [t|s|s]; destruct y as [t'|s'|s']; try discriminate Hx; cbn [pok ptoks] in *.
    + injection Hx as <-. apply andb_true_iff in H. destruct H as [_ H].
      rewrite !skeleton_app, (outs_sim t _ _ Hs). f_equal.
      exact (IH p' _ _ (after_sim t _ _ Hs) Hsh H).
    + apply andb_true_iff in H. destruct H as [Ho H].
      rewrite <- (opens_literal_sim _ _ Hs Ho). rewrite !skeleton_app. f_equal.
      exact (IH p' (QStrQ s) (QStrQ s') I Hsh H).
    + apply andb_true_iff in H. destruct H as [H1 H]. apply andb_true_iff in H1. destruct H1 as [Ho _].
      rewrite <- (opens_literal_sim _ _ Hs Ho). rewrite !skeleton_app. f_equal.
      exact (IH p' (QStrQ s) (QStrQ s') I Hsh H).
Qed.

(* two segmented texts of the same shape: same condition, same token skeleton *)
Lemma same_shape_same_skeleton p p' : shape p = shape p' ->
  forallb (all_chars plain_char) (rqids p') = true -> pok QN p = true ->
  pok QN p' = true /\ skeleton (lex (flat p')) = skeleton (lex (flat p)).
Proof.
  intros Hsh Hq H. pose proof (pok_sim p p' QN QN (sim_refl QN) Hsh Hq H) as H'.
  split; [exact H'|]. unfold lex. rewrite (run_pieces p QN H), (run_pieces p' QN H').
  symmetry. exact (ptoks_sim p p' QN QN (sim_refl QN) Hsh H).
Qed.

Lemma lits_etoks : forall p q, lits (etoks q p) = elits q p.
Proof.
  induction p as [|x p IH]; intro q; [reflexivity|].
  destruct x as [t|s|s]; cbn [etoks elits]; rewrite lits_app; try (now rewrite IH);
  change (TStr s :: etoks QN p) with ([TStr s] ++ etoks QN p)%list; rewrite lits_app, IH; reflexivity.
Qed.

(* ---------- replacing the values of a tree replaces the value pieces and nothing else ---------- *)

Lemma pm_app f a b : pm f (a ++ b)%list = (pm f a ++ pm f b)%list.
Proof. apply map_app. Qed.

Lemma pm_cons_txt f t r : pm f (RTxt t :: r) = RTxt t :: pm f r.
Proof. reflexivity. Qed.

Lemma pm_pjoin f sep : forall l, pm f (pjoin sep l) = pjoin sep (map (pm f) l).
Proof.
  induction l as [|x l IH]; [reflexivity|].
  destruct l as [|y l]; [reflexivity|].
  change (pjoin sep (x :: y :: l)) with (x ++ RTxt sep :: pjoin sep (y :: l))%list.
  change (pjoin sep (map (pm f) (x :: y :: l))) with (pm f x ++ RTxt sep :: pjoin sep (map (pm f) (y :: l)))%list.
  rewrite pm_app. cbn [pm map map_lit]. fold (pm f (pjoin sep (y :: l))). rewrite IH. reflexivity.
Qed.

Lemma rempty_pm f : forall p, rempty (pm f p) = rempty p.
Proof.
  induction p as [|x p IH]; [reflexivity|]. cbn [pm map rempty forallb]. fold (pm f p). fold (rempty (pm f p)). fold (rempty p).
  rewrite IH. destruct x; reflexivity.
Qed.

Lemma pm_paren f s : pm f (paren s) = paren (pm f s).
Proof. unfold paren. cbn [pm map map_lit]. fold (pm f (s ++ [RTxt ")"])%list). now rewrite pm_app. Qed.

Lemma pm_bitset f : forall ss i, map (pm f) (pbitset_parts ss i) = pbitset_parts (map (pm f) ss) i.
Proof.
  induction ss as [|s ss IH]; intro i; [reflexivity|].
  cbn [pbitset_parts map]. rewrite IH. f_equal.
  cbn [pm map map_lit]. f_equal. fold (pm f (s ++ [RTxt "), "; RTxt (string_of_N i); RTxt ")"])%list). now rewrite pm_app.
Qed.

Definition mwiths_of {E} (ms : select_ E -> select_ E) :=
  fix go (ws : list (string * select_ E)) : list (string * select_ E) :=
    match ws with [] => [] | (a, q) :: r => (a, ms q) :: go r end.
Definition munions_of {E} (ms : select_ E -> select_ E) :=
  fix go (us : list (select_ E)) : list (select_ E) :=
    match us with [] => [] | q :: r => ms q :: go r end.
Lemma map_sel_unfold {E} (fe : E -> E) d cols from wh pw hv gb ob lm off withs joins sett unions :
  map_sel fe (mkSel d cols from wh pw hv gb ob lm off withs joins sett unions) =
  mkSel d (map fe cols) (map_opt fe from) (map_opt fe wh) (map_opt fe pw) (map_opt fe hv) (map fe gb) (map fe ob)
        (map_opt fe lm) (map_opt fe off) (mwiths_of (map_sel fe) withs)
        (map (fun j => (fst (fst j), fe (snd (fst j)), map_opt fe (snd j))) joins) sett (munions_of (map_sel fe) unions).
Proof. reflexivity. Qed.

Section Mapped.
  Context {E : Type} (pexpr : E -> opts -> rst -> rtext * rst) (fe : E -> E) (f : string -> string).
  Definition agree2 (e : E) : Prop := forall o st, pexpr (fe e) o st = (pm f (fst (pexpr e o st)), snd (pexpr e o st)).
  Definition agree2_sel (q : select_ E) : Prop :=
    forall o st, psel pexpr (map_sel fe q) o st = (pm f (fst (psel pexpr q o st)), snd (psel pexpr q o st)).

  Lemma plist_map l : Forall agree2 l -> forall o st,
    plist pexpr (map fe l) o st = (map (pm f) (fst (plist pexpr l o st)), snd (plist pexpr l o st)).
  Proof.
    induction 1 as [|e l He _ IH]; intros o st; [reflexivity|].
    cbn [map plist]. rewrite (He o st). destruct (pexpr e o st) as [s st1]. cbn [fst snd].
    rewrite (IH o st1). destruct (plist pexpr l o st1) as [ss st2]. reflexivity.
  Qed.

  Lemma popt_map kw x : Popt agree2 x -> forall o st,
    popt pexpr kw (map_opt fe x) o st = (pm f (fst (popt pexpr kw x o st)), snd (popt pexpr kw x o st)).
  Proof.
    destruct x as [e|]; intros H o st; [|reflexivity].
    cbn [map_opt popt]. rewrite (H o st). destruct (pexpr e o st) as [s st1]. reflexivity.
  Qed.

  Lemma popt_nonempty_map kw x : Popt agree2 x -> forall o st,
    popt_nonempty pexpr kw (map_opt fe x) o st = (pm f (fst (popt_nonempty pexpr kw x o st)), snd (popt_nonempty pexpr kw x o st)).
  Proof.
    destruct x as [e|]; intros H o st; [|reflexivity].
    cbn [map_opt popt_nonempty]. rewrite (H o st). destruct (pexpr e o st) as [s st1]. cbn [fst snd].
    rewrite rempty_pm. destruct (rempty s); reflexivity.
  Qed.

  Lemma plist_kw_map kw sep l : Forall agree2 l -> forall o st,
    plist_kw pexpr kw sep (map fe l) o st = (pm f (fst (plist_kw pexpr kw sep l o st)), snd (plist_kw pexpr kw sep l o st)).
  Proof.
    intros H o st. destruct l as [|e l]; [reflexivity|].
    unfold plist_kw. change (map fe (e :: l)) with (fe e :: map fe l) at 1. cbv iota.
    change (fe e :: map fe l) with (map fe (e :: l)). rewrite (plist_map _ H o st).
    destruct (plist pexpr (e :: l) o st) as [ss st1]. cbn [fst snd pm map map_lit]. fold (pm f (pjoin sep ss)).
    now rewrite pm_pjoin.
  Qed.

  Lemma pjoins_map js : Forall (Pjoin agree2) js -> forall o st,
    pjoins pexpr (map (fun j => (fst (fst j), fe (snd (fst j)), map_opt fe (snd j))) js) o st =
    (pm f (fst (pjoins pexpr js o st)), snd (pjoins pexpr js o st)).
  Proof.
    induction 1 as [|[[tp tbl] on] js [Ht Hon] _ IH]; intros o st; [reflexivity|].
    cbn [fst snd] in Ht, Hon. cbn [map fst snd pjoins].
    rewrite (Ht o st). destruct (pexpr tbl o st) as [t st1]. cbn [fst snd].
    destruct (String.eqb (to_lower tp) "array").
    - rewrite (IH o st1). destruct (pjoins pexpr js o st1) as [rest st3]. cbn [fst snd pm map map_lit app].
      fold (pm f (t ++ RTxt " " :: rest)%list). rewrite pm_app. reflexivity.
    - destruct on as [c|].
      + cbn in Hon. cbn [map_opt]. rewrite (Hon o st1). destruct (pexpr c o st1) as [s st2]. cbn [fst snd].
        rewrite (IH o st2). destruct (pjoins pexpr js o st2) as [rest st3]. cbn [fst snd pm map map_lit app].
        fold (pm f (t ++ RTxt " " :: RTxt "ON " :: s ++ rest)%list). rewrite pm_app. cbn [pm map map_lit].
        fold (pm f (s ++ rest)%list). rewrite pm_app. reflexivity.
      + cbn [map_opt]. rewrite (IH o (fail st1)). destruct (pjoins pexpr js o (fail st1)) as [rest st3]. cbn [fst snd pm map map_lit app].
        fold (pm f (t ++ RTxt " " :: RTxt "ON " :: rest)%list). rewrite pm_app. reflexivity.
  Qed.

  Lemma pwiths_map o ws : Forall (fun w => agree2_sel (snd w)) ws -> forall st,
    pwiths_of (psel pexpr) o (mwiths_of (map_sel fe) ws) st =
    (map (pm f) (fst (pwiths_of (psel pexpr) o ws st)), snd (pwiths_of (psel pexpr) o ws st)).
  Proof.
    induction 1 as [|[a q] ws Hq _ IH]; intro st; [reflexivity|].
    cbn [snd] in Hq. cbn [mwiths_of pwiths_of]. fold (mwiths_of (map_sel fe)). fold (pwiths_of (psel pexpr) o).
    rewrite (Hq (add_skip o) st). destruct (psel pexpr q (add_skip o) st) as [s1 st1]. cbn [fst snd].
    rewrite (IH st1). destruct (pwiths_of (psel pexpr) o ws st1) as [ss st2]. cbn [fst snd map pm map_lit].
    fold (pm f (s1 ++ [RTxt ")"])%list). rewrite pm_app. reflexivity.
  Qed.

  Lemma punions_map o us : Forall agree2_sel us -> forall st,
    punions_of (psel pexpr) o (munions_of (map_sel fe) us) st =
    (map (pm f) (fst (punions_of (psel pexpr) o us st)), snd (punions_of (psel pexpr) o us st)).
  Proof.
    induction 1 as [|q us Hq _ IH]; intro st; [reflexivity|].
    cbn [munions_of punions_of]. fold (munions_of (map_sel fe)). fold (punions_of (psel pexpr) o).
    rewrite (Hq o st). destruct (psel pexpr q o st) as [s1 st1]. cbn [fst snd].
    rewrite (IH st1). destruct (punions_of (psel pexpr) o us st1) as [ss st2]. reflexivity.
  Qed.

  Lemma pwith_map o ws : Forall (fun w => agree2_sel (snd w)) ws -> forall st,
    pwith_part (psel pexpr) o (mwiths_of (map_sel fe) ws) st =
    (pm f (fst (pwith_part (psel pexpr) o ws st)), snd (pwith_part (psel pexpr) o ws st)).
  Proof.
    intros H st. destruct ws as [|[a q] ws]; [reflexivity|]. unfold pwith_part.
    change (mwiths_of (map_sel fe) ((a, q) :: ws)) with ((a, map_sel fe q) :: mwiths_of (map_sel fe) ws) at 1. cbv iota.
    change ((a, map_sel fe q) :: mwiths_of (map_sel fe) ws) with (mwiths_of (map_sel fe) ((a, q) :: ws)).
    destruct (skip_with o || inline_with o); [reflexivity|].
    rewrite (pwiths_map o _ H st). destruct (pwiths_of (psel pexpr) o ((a, q) :: ws) st) as [ss st']. cbn [fst snd pm map map_lit].
    fold (pm f (pjoin "," ss)). now rewrite pm_pjoin.
  Qed.

  Lemma pcols_map o cols : Forall agree2 cols -> forall st,
    pcols_part pexpr o (map fe cols) st = (pm f (fst (pcols_part pexpr o cols st)), snd (pcols_part pexpr o cols st)).
  Proof.
    intros H st. destruct cols as [|c cs]; [reflexivity|]. unfold pcols_part.
    change (map fe (c :: cs)) with (fe c :: map fe cs) at 1. cbv iota. change (fe c :: map fe cs) with (map fe (c :: cs)).
    rewrite (plist_map _ H o st). destruct (plist pexpr (c :: cs) o st) as [ss st']. cbn [fst snd]. now rewrite pm_pjoin.
  Qed.

  Lemma pfrom_map o from joins : Popt agree2 from -> Forall (Pjoin agree2) joins -> forall st,
    pfrom_part pexpr o (map_opt fe from) (map (fun j => (fst (fst j), fe (snd (fst j)), map_opt fe (snd j))) joins) st =
    (pm f (fst (pfrom_part pexpr o from joins st)), snd (pfrom_part pexpr o from joins st)).
  Proof.
    intros Hf Hj st. destruct from as [e|]; [|reflexivity]. unfold pfrom_part. cbn in Hf. cbn [map_opt].
    rewrite (Hf o st). destruct (pexpr e o st) as [fs st']. cbn [fst snd].
    rewrite (pjoins_map _ Hj o st'). destruct (pjoins pexpr joins o st') as [js st'']. cbn [fst snd pm map map_lit].
    fold (pm f (fs ++ js)%list). now rewrite pm_app.
  Qed.

  Lemma psel_map d cols from wh pw hv gb ob lm off withs joins sett unions :
    Forall agree2 cols -> Popt agree2 from -> Popt agree2 wh -> Popt agree2 pw -> Popt agree2 hv -> Forall agree2 gb -> Forall agree2 ob ->
    Popt agree2 lm -> Popt agree2 off ->
    Forall (fun w => agree2_sel (snd w)) withs -> Forall (Pjoin agree2) joins -> Forall agree2_sel unions ->
    agree2_sel (mkSel d cols from wh pw hv gb ob lm off withs joins sett unions).
  Proof.
    intros Hcols Hfrom Hwh Hpw Hhv Hgb Hob Hlm Hoff Hwiths Hjoins Hunions o st.
    rewrite map_sel_unfold, !psel_unfold. unfold psel_body.
    cbn [s_distinct s_cols s_from s_where s_prewhere s_having s_groupby s_orderby s_limit s_offset s_withs s_joins s_settings s_unions].
    rewrite (pwith_map o _ Hwiths st). destruct (pwith_part (psel pexpr) o withs st) as [w st1]. cbn [fst snd].
    rewrite (pcols_map o _ Hcols st1). destruct (pcols_part pexpr o cols st1) as [cs st2]. cbn [fst snd].
    rewrite (pfrom_map o _ _ Hfrom Hjoins st2). destruct (pfrom_part pexpr o from joins st2) as [fj st3]. cbn [fst snd].
    rewrite (popt_map " PREWHERE " _ Hpw o st3). destruct (popt pexpr " PREWHERE " pw o st3) as [pws st4]. cbn [fst snd].
    rewrite (popt_map " WHERE " _ Hwh o st4). destruct (popt pexpr " WHERE " wh o st4) as [whs st5]. cbn [fst snd].
    rewrite (plist_kw_map " GROUP BY " ", " _ Hgb o st5). destruct (plist_kw pexpr " GROUP BY " ", " gb o st5) as [gbs st6]. cbn [fst snd].
    rewrite (popt_map " HAVING " _ Hhv o st6). destruct (popt pexpr " HAVING " hv o st6) as [hvs st7]. cbn [fst snd].
    rewrite (plist_kw_map " ORDER BY " ", " _ Hob o st7). destruct (plist_kw pexpr " ORDER BY " ", " ob o st7) as [obs st8]. cbn [fst snd].
    rewrite (popt_nonempty_map " LIMIT " _ Hlm o st8). destruct (popt_nonempty pexpr " LIMIT " lm o st8) as [lms st9]. cbn [fst snd].
    rewrite (popt_nonempty_map " OFFSET " _ Hoff o st9). destruct (popt_nonempty pexpr " OFFSET " off o st9) as [offs st10]. cbn [fst snd].
    rewrite (punions_map o _ Hunions st10). destruct (punions_of (psel pexpr) o unions st10) as [us st11]. cbn [fst snd].
    f_equal. rewrite pm_pjoin. cbn [map]. f_equal. f_equal.
    rewrite pm_app, !pm_cons_txt, !pm_app, pm_cons_txt. reflexivity.
  Qed.
End Mapped.

Ltac mstep_list f H o st :=
  rewrite (plist_map pexpr (subst f) f _ H o st);
  let ss := fresh "ss" in let st1 := fresh "st" in
  destruct (plist pexpr _ o st) as [ss st1]; cbn [fst snd].
Ltac mstep_expr H o st :=
  rewrite (H o st);
  let s := fresh "s" in let st1 := fresh "st" in
  destruct (pexpr _ o st) as [s st1]; cbn [fst snd].

Lemma pexpr_subst_all f :
  (forall e, agree2 pexpr (subst f) f e) /\ (forall q, agree2_sel pexpr (subst f) f q).
Proof.
  pose proof (psel_map pexpr (subst f) f) as HS.
  assert (HE : forall e, agree2 pexpr (subst f) f e).
  { apply (expr_sel_ind (agree2 pexpr (subst f) f) (agree2_sel pexpr (subst f) f)); try exact HS; unfold agree2.
    - reflexivity.
    - reflexivity.
    - reflexivity.
    - intros x k Hx Hk o st. cbn [subst pexpr]. mstep_expr Hx o st. mstep_expr Hk o st0.
      rewrite pm_app, pm_cons_txt, pm_app. reflexivity.
    - reflexivity.
    - reflexivity.
    - reflexivity.
    - reflexivity.
    - reflexivity.
    - intros fn cl H o st. cbn [subst pexpr]. mstep_list f H o st.
      rewrite pm_pjoin, !map_map. f_equal. f_equal. apply map_ext. intro a. now rewrite pm_paren.
    - intros x Hx o st. cbn [subst pexpr]. mstep_expr Hx o st. rewrite pm_cons_txt, pm_app. reflexivity.
    - intros x Hx o st. cbn [subst pexpr]. mstep_expr Hx o st. rewrite pm_app. reflexivity.
    - intros l r Hl Hr o st. cbn [subst pexpr]. mstep_list f Hr o st. mstep_expr Hl o st0.
      rewrite pm_app, pm_cons_txt, pm_app, pm_pjoin. reflexivity.
    - intros a q Hq o st. cbn [subst pexpr]. destruct (String.eqb a ""); [reflexivity|].
      destruct (inline_with o); [|reflexivity].
      rewrite (Hq (del_noalias o) st). destruct (psel pexpr q (del_noalias o) st) as [s st1]. cbn [fst snd].
      rewrite pm_cons_txt, pm_app. destruct (no_alias o); reflexivity.
    - intros x a Hx o st. cbn [subst pexpr]. mstep_expr Hx (add_noalias o) st.
      destruct (String.eqb a ""); [reflexivity|]. rewrite pm_app. reflexivity.
    - intros x asc Hx o st. cbn [subst pexpr]. mstep_expr Hx o st. rewrite pm_app. reflexivity.
    - intros n d o st. cbn [subst pexpr]. destruct d; reflexivity.
    - intros name args H o st. cbn [subst pexpr]. mstep_list f H o st.
      rewrite !pm_cons_txt, pm_app, pm_pjoin. reflexivity.
    - intros sep parts H o st. cbn [subst pexpr]. mstep_list f H o st. now rewrite pm_pjoin.
    - intros cl H o st. cbn [subst pexpr]. mstep_list f H o st.
      rewrite pm_cons_txt, pm_app, pm_pjoin, pm_bitset. reflexivity.
    - intros g H o st. cbn [subst pexpr]. apply H.
    - intros q Hq o st. cbn [subst pexpr]. apply Hq. }
  split; [exact HE|].
  exact (sel_expr_ind (agree2 pexpr (subst f) f) (agree2_sel pexpr (subst f) f)
    (fun s => HE (Raw s)) (fun s => HE (Id s)) (fun s => HE (QRaw s)) (fun x k _ _ => HE (Idx x k))
    (fun s => HE (StrV s)) (fun z => HE (IntV z)) (fun t => HE (FloatV t)) (fun b => HE (BoolV b)) (fun d => HE (DateV d))
    (fun fn cl _ => HE (LOp fn cl)) (fun x _ => HE (Not x)) (fun x _ => HE (NotNull x)) (fun l r _ _ => HE (In l r))
    (fun a q _ => HE (WRef a q)) (fun x a _ => HE (Col x a)) (fun x asc _ => HE (Ord x asc)) (fun n d => HE (CtxParam n d))
    (fun name args _ => HE (Fn name args)) (fun sep parts _ => HE (Sep sep parts)) (fun cl _ => HE (BitSetAnd cl))
    (fun g _ => HE (WithId g)) (fun q _ => HE (SubQ q)) HS).
Qed.

(* ---------- statements about whole queries (SqlRender.render) ---------- *)
Lemma render_pieces q cluster :
  render q cluster = option_map flat (pieces q cluster).
Proof.
  unfold render, render_select, pieces.
  rewrite (proj2 pexpr_flat_all q). destruct (psel pexpr q _ rst0) as [p st]. cbn [fst snd].
  destruct (r_err st); reflexivity.
Qed.

Lemma pieces_subst f q cluster :
  pieces (subst_sel f q) cluster = option_map (pm f) (pieces q cluster).
Proof.
  unfold pieces, subst_sel.
  rewrite (proj2 (pexpr_subst_all f) q). destruct (psel pexpr q _ rst0) as [p st]. cbn [fst snd].
  destruct (r_err st); reflexivity.
Qed.

Lemma shape_pm f p : shape (pm f p) = shape p.
Proof. unfold shape, pm. rewrite map_map. apply map_ext. intros [t|s|s]; reflexivity. Qed.
Lemma rqids_pm f p : rqids (pm f p) = rqids p.
Proof. unfold rqids, pm. induction p as [|x p IH]; [reflexivity|]. cbn [map flat_map]. rewrite IH. destruct x; reflexivity. Qed.
Lemma rvalues_pm f p : rvalues (pm f p) = map f (rvalues p).
Proof.
  unfold rvalues, pm. induction p as [|x p IH]; [reflexivity|]. cbn [map flat_map]. rewrite IH.
  destruct x; reflexivity.
Qed.

Lemma pok_plain_qids : forall p q, pok q p = true -> forallb (all_chars plain_char) (rqids p) = true.
Proof.
  induction p as [|[t|s|s] p IH]; intros q H; [reflexivity| | |]; cbn [pok rqids flat_map app forallb] in *.
  - apply andb_true_iff in H. destruct H as [_ H]. exact (IH _ H).
  - apply andb_true_iff in H. destruct H as [_ H]. exact (IH _ H).
  - apply andb_true_iff in H. destruct H as [H1 H]. apply andb_true_iff in H1. destruct H1 as [_ Hp].
    rewrite Hp. exact (IH _ H).
Qed.

(* ---------- the property-level statements ---------- *)
(* every statement the renderer prints for a tree whose segmented text passes the value-independent check:
   its tokens are those of the planner's own text and exactly ONE literal per StrV node, decoding to the value *)
Lemma rendered_tokens q cluster p : pieces q cluster = Some p -> pok QN p = true ->
  exists txt, render q cluster = Some txt /\ lex txt = etoks QN p /\ lits (lex txt) = elits QN p.
Proof.
  intros Hp Hok. exists (flat p). rewrite render_pieces, Hp. split; [reflexivity|].
  rewrite (lex_pieces p Hok). split; [reflexivity|apply lits_etoks].
Qed.

(* for ALL replacements of the values of the tree (f : what the request string does to each StrV) the statement
   keeps its token skeleton, and its literals at the value positions are the new values *)
Lemma values_keep_structure f q cluster p : pieces q cluster = Some p -> pok QN p = true ->
  exists txt txt', render q cluster = Some txt /\ render (subst_sel f q) cluster = Some txt' /\
    skeleton (lex txt') = skeleton (lex txt) /\
    lex txt' = etoks QN (pm f p) /\ rvalues (pm f p) = map f (rvalues p).
Proof.
  intros Hp Hok. exists (flat p), (flat (pm f p)).
  rewrite !render_pieces, pieces_subst, Hp. cbn [option_map].
  assert (Hq : forallb (all_chars plain_char) (rqids (pm f p)) = true)
    by (rewrite rqids_pm; exact (pok_plain_qids p QN Hok)).
  destruct (same_shape_same_skeleton p (pm f p) (eq_sym (shape_pm f p)) Hq Hok) as [Hok' Hsk].
  split; [reflexivity|]. split; [reflexivity|]. split; [exact Hsk|].
  split; [exact (lex_pieces _ Hok')|apply rvalues_pm].
Qed.
