(* C12 -- proofs about model/ReadProm.v: the subquery-step check of the Prometheus controllers is sound although its
   sums wrap around in int64, and what the controllers let through reserves at most 11,001 points per series and evaluator. *)
From Coq Require Import List ZArith Bool Lia.
From Qryn Require Import model.Pipeline model.ReadPath model.ReadProm.
Import ListNotations.
Open Scope Z_scope.

Lemma wrap64_small : forall z, - two63 <= z < two63 -> wrap64 z = z.
Proof.
  intros z Hz. unfold wrap64. rewrite Z.mod_small; unfold two63 in *; lia.
Qed.

Lemma wrap64_over : forall z, two63 <= z < 3 * two63 -> wrap64 z = z - 2 * two63.
Proof.
  intros z Hz. unfold wrap64.
  replace (z + two63) with ((z - two63) + 1 * (2 * two63)) by lia.
  rewrite Z_mod_plus_full. rewrite Z.mod_small; unfold two63 in *; lia.
Qed.

(* Go adds in any order, wrapping after each addition: the result is the wrapped exact sum *)
Lemma wrap64_add : forall a b, wrap64 (wrap64 a + b) = wrap64 (a + b).
Proof.
  intros a b. unfold wrap64.
  replace ((a + two63) mod (2 * two63) - two63 + b + two63) with ((a + two63) mod (2 * two63) + b) by lia.
  replace (a + b + two63) with ((a + two63) + b) by lia.
  rewrite Zplus_mod_idemp_l. reflexivity.
Qed.

(* one level: a subquery that passes the check under an exact, in-range accumulator has an exact, in-range sum *)
Lemma sub_step : forall acc r s,
  - two63 <= acc < two63 -> 0 < r < two63 -> 0 < s ->
  (0 <=? wrap64 (acc + r)) && (wrap64 (acc + r) / s <=? max_steps) = true ->
  - two63 <= acc + r < two63 /\ (acc + r) / s <= max_steps.
Proof.
  intros acc r s Hacc Hr Hs H. apply andb_true_iff in H. destruct H as [H0 H1].
  apply Z.leb_le in H0. apply Z.leb_le in H1.
  destruct (Z_lt_ge_dec (acc + r) two63) as [Hlt | Hge].
  - rewrite wrap64_small in H0, H1 by lia. split; [lia | exact H1].
  - exfalso. rewrite wrap64_over in H0 by (unfold two63 in *; lia). unfold two63 in *. lia.
Qed.

Lemma sq_ok_sound : forall e acc,
  - two63 <= acc < two63 -> pwf e = true -> sq_ok acc e = true ->
  forallb eval_bounded (evals acc e) = true.
Proof.
  induction e as [| r | a IHa | a IHa b IHb | a IHa r s]; intros acc Hacc Hwf Hok; cbn [evals forallb].
  - reflexivity.
  - reflexivity.
  - apply IHa; assumption.
  - cbn [pwf] in Hwf. apply andb_true_iff in Hwf. destruct Hwf as [Hwa Hwb].
    cbn [sq_ok] in Hok. apply andb_true_iff in Hok. destruct Hok as [Hoa Hob].
    rewrite forallb_app. rewrite (IHa acc), (IHb acc); auto.
  - cbn [pwf] in Hwf. repeat (apply andb_true_iff in Hwf; destruct Hwf as [Hwf ?]).
    apply Z.ltb_lt in Hwf. apply Z.ltb_lt in H2. apply Z.leb_le in H1. apply Z.ltb_lt in H0.
    cbn [sq_ok] in Hok. apply andb_true_iff in Hok. destruct Hok as [Hhere Hbelow].
    destruct (s =? 0) eqn:Hs0; [reflexivity|]. apply Z.eqb_neq in Hs0.
    assert (Hs : 0 < s) by lia.
    destruct (0 <? s) eqn:Hs'; [| apply Z.ltb_ge in Hs'; lia].
    destruct (sub_step acc r s Hacc (conj Hwf H2) Hs Hhere) as [Hacc' Hb].
    cbn [forallb]. rewrite (IHa (acc + r)); auto.
    unfold eval_bounded; cbn [fst snd]. rewrite Hs'. apply Z.leb_le in Hb. rewrite Hb. reflexivity.
Qed.

(* the points of the outer evaluator and of every subquery evaluator of an accepted request *)
Definition engine_bounded (o : pout) : Prop :=
  match o with
  | PoResp _ => True
  | PoEngine window st e => 0 < st /\ Z.quot window st <= max_steps /\ forallb eval_bounded (evals window e) = true
  end.

Definition prwf (r : prequest) : bool := match pr_query r with PQ e => pwf e | _ => true end.

Lemma sat64_range : forall z, - two63 <= sat64 z < two63.
Proof.
  intros z. unfold sat64. destruct (two63 <=? z) eqn:H1; [unfold two63; lia|].
  destruct (z <? - two63) eqn:H2; [unfold two63; lia|]. apply Z.leb_gt in H1. apply Z.ltb_ge in H2. lia.
Qed.

Lemma prom_accepted_bounded : forall r, prwf r = true -> engine_bounded (prom_outcome r).
Proof.
  intros r Hwf. unfold prom_outcome, prwf in *.
  destruct (pr_instant r).
  - destruct (sec_or (pr_now r) (pr_end r)); [| exact I].
    destruct (pr_query r) as [| | e]; try exact I.
    destruct (sq_ok 0 e) eqn:Hok; [| exact I].
    cbn [engine_bounded]. split; [lia|]. split; [cbn; unfold max_steps; lia|].
    apply sq_ok_sound; auto. unfold two63; lia.
  - destruct (sec_or (pr_now r - 21600) (pr_start r)) as [s|]; [| exact I].
    destruct (sec_or (pr_now r) (pr_end r)) as [e_|]; [| exact I].
    destruct (pr_query r) as [| | e] eqn:Hq; try exact I.
    + destruct (pr_step r) as [| | st]; try exact I.
      destruct (st <=? 0); [exact I|]. destruct (max_steps <? _); exact I.
    + destruct (pr_step r) as [| | st]; try exact I.
      destruct (st <=? 0) eqn:Hst; [exact I|]. apply Z.leb_gt in Hst.
      set (w := sat64 ((ceil15 e_ - floor15 s) * 1000000000)).
      destruct (max_steps <? Z.quot w st) eqn:Hp; [exact I|]. apply Z.ltb_ge in Hp.
      destruct (sq_ok w e) eqn:Hok; [| exact I].
      cbn [engine_bounded]. split; [exact Hst|]. split; [exact Hp|].
      apply sq_ok_sound; auto. apply sat64_range.
Qed.

(* the check is needed: without it the recorded request reserves 2,592,000,000 points per series *)
Example subquery_30d_1ms_steps :
  evals 0 (PSub PSel (30 * 86400 * 1000000000) 1000000) = [(2592000000000000, 1000000)] /\
  2592000000000000 / 1000000 = 2592000000 /\
  prom_outcome (mkPR true 1700000340 PAbsent (PNum 1700000340) PAbsent (PQ (PSub PSel (30 * 86400 * 1000000000) 1000000))) = PoResp O4xx.
Proof. vm_compute. auto. Qed.

(* three nested ranges whose exact sum is 2^64 ns + 0.29 s: an int64 sum of the three alone would be 0.29 s, yet the check
   refuses the query, because the sum at the middle subquery is already negative *)
Definition d_ns (d : Z) : Z := d * 86400 * 1000000000.
Definition wrap_witness : pexpr :=
  PCall (PSub (PCall (PSub (PCall (PSub PSel (d_ns 13503 + (23 * 3600 + 34 * 60 + 34) * 1000000000) 1000000)) (d_ns 100000) (d_ns 50000))) (d_ns 100000) (d_ns 50000)).
Example wrap_witness_refused :
  pwf wrap_witness = true /\
  wrap64 (d_ns 100000 + d_ns 100000 + (d_ns 13503 + (23 * 3600 + 34 * 60 + 34) * 1000000000)) = 290448384 /\
  sq_ok 0 wrap_witness = false.
Proof. vm_compute. auto. Qed.

(* an accepted request with subqueries at the bound, for the hypotheses of prom_accepted_bounded *)
Example accepted_nontrivial :
  let e := PCall (PSub (PCall (PSub PSel 3000000000000 1000000000)) 4000000000000 1000000000) in
  prwf (mkPR false 1700000340 (PNum 1700000000) (PNum 1700003600) (PNum 15000000000) (PQ e)) = true /\
  pcode (prom_outcome (mkPR false 1700000340 (PNum 1700000000) (PNum 1700003600) (PNum 15000000000) (PQ e))) = 7.
Proof. vm_compute. auto. Qed.
