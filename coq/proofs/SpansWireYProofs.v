(* Round trip of the stored OTLP span with ALL its fields (model/SpansWireY.v): trace_state, dropped counts, links and flags besides
   the span, its events and its status.  The new fields are interleaved with the old ones on the wire (field-number order), so the
   decoders of SpansWire / SpansWireX are shown to read their part from ANY well-formed field list whose fields of their numbers are
   the ones they expect ("a decoder skips the numbers it does not know": the filter lemmas). *)
From Coq Require Import List ZArith NArith Bool String Ascii Lia.
From Qryn Require Import model.Spans model.SpansChunk model.SpansWire model.SpansStore model.SpansWireX model.SpansWireY
  proofs.SpansWireProofs proofs.SpansWireXProofs.
Import ListNotations.
Open Scope list_scope.
Open Scope Z_scope.

(* ------------------------------------------------------------------ field lists bearing one number *)
Definition fnum (n : N) (l : list field) : Prop := Forall (fun f => fst f = n) l.
Lemma fnum_bytes n s : fnum n (bytes_field n s).
Proof. unfold fnum, bytes_field. destruct (String.eqb s ""); repeat constructor. Qed.
Lemma fnum_varint n z : fnum n (varint_field n z).
Proof. unfold fnum, varint_field. destruct (z =? 0); repeat constructor. Qed.
Lemma fnum_fixed64 n z : fnum n (fixed64_field n z).
Proof. unfold fnum, fixed64_field. destruct (z =? 0); repeat constructor. Qed.
Lemma fnum_fixed32 n z : fnum n (fixed32_field n z).
Proof. unfold fnum, fixed32_field. destruct (z =? 0); repeat constructor. Qed.
Lemma fnum_map {A} n (g : A -> string) l : fnum n (map (fun x => (n, RBytes (g x))) l).
Proof. unfold fnum. induction l; cbn [map]; constructor; [reflexivity|assumption]. Qed.

Definition by_num (keep : N -> bool) (f : field) : bool := keep (fst f).
Definition pieces_ok (ps : list (N * list field)) : Prop := Forall (fun pc => fnum (fst pc) (snd pc)) ps.
Lemma pieces_fnum s x y : pieces_ok (pieces s x y).
Proof.
  unfold pieces_ok, pieces. repeat (constructor; cbn [fst snd]);
    try apply fnum_bytes; try apply fnum_varint; try apply fnum_fixed64; try apply fnum_fixed32.
  - apply (fnum_map 9 enc_kv).
  - apply (fnum_map 11 enc_event).
  - apply (fnum_map 13 enc_link).
  - destruct (x_status x); repeat constructor.
Qed.

Lemma filter_fnum keep n l : fnum n l -> filter (by_num keep) l = if keep n then l else [].
Proof.
  induction 1 as [|f l Hf _ IH]; [destruct (keep n); reflexivity|].
  cbn [filter]. unfold by_num at 1. rewrite Hf, IH. destruct (keep n); reflexivity.
Qed.
Lemma filter_pieces keep ps : pieces_ok ps ->
  filter (by_num keep) (List.concat (map snd ps)) = List.concat (map snd (filter (fun pc => keep (fst pc)) ps)).
Proof.
  induction 1 as [|pc ps Hpc _ IH]; [reflexivity|].
  cbn [map List.concat]. rewrite filter_app, (filter_fnum keep _ _ Hpc). cbn [filter].
  destruct (keep (fst pc)); cbn [map List.concat app]; [f_equal|]; exact IH.
Qed.

(* ------------------------------------------------------------------ decoders skip the numbers they do not know *)
Lemma fold_opt_filter {S} (step : S -> field -> option S) keep :
  (forall st f, keep (fst f) = false -> step st f = Some st) ->
  forall fs st, fold_opt step (filter (by_num keep) fs) st = fold_opt step fs st.
Proof.
  intros Hskip. induction fs as [|f fs IH]; intro st; [reflexivity|].
  cbn [filter]. unfold by_num at 1. destruct (keep (fst f)) eqn:K; cbn [fold_opt].
  - destruct (step st f); [apply IH|reflexivity].
  - rewrite (Hskip st f K). apply IH.
Qed.
Lemma dec_kvs_filter rec num keep fs : keep num = true ->
  dec_kvs rec num (filter (by_num keep) fs) = dec_kvs rec num fs.
Proof.
  intro Hk. induction fs as [|[n v] fs IH]; [reflexivity|].
  cbn [filter]. unfold by_num at 1. cbn [fst]. destruct (keep n) eqn:K; cbn [dec_kvs].
  - destruct v; try exact IH. destruct (n =? num)%N; [|exact IH]. destruct (dec_kv rec s); [|reflexivity]. rewrite IH. reflexivity.
  - destruct v; try exact IH. destruct (N.eqb_spec n num) as [->|_]; [congruence|exact IH].
Qed.
Lemma dec_events_filter fuel keep fs : keep 11%N = true ->
  dec_events fuel (filter (by_num keep) fs) = dec_events fuel fs.
Proof.
  intro Hk. induction fs as [|[n v] fs IH]; [reflexivity|].
  cbn [filter]. unfold by_num at 1. cbn [fst]. destruct (keep n) eqn:K; cbn [dec_events].
  - destruct v; try exact IH. destruct (n =? 11)%N; [|exact IH]. destruct (dec_event fuel s); [|reflexivity]. rewrite IH. reflexivity.
  - destruct v; try exact IH. destruct (N.eqb_spec n 11) as [->|_]; [congruence|exact IH].
Qed.
Lemma dec_links_filter fuel keep fs : keep 13%N = true ->
  dec_links fuel (filter (by_num keep) fs) = dec_links fuel fs.
Proof.
  intro Hk. induction fs as [|[n v] fs IH]; [reflexivity|].
  cbn [filter]. unfold by_num at 1. cbn [fst]. destruct (keep n) eqn:K; cbn [dec_links].
  - destruct v; try exact IH. destruct (n =? 13)%N; [|exact IH]. destruct (dec_link fuel s); [|reflexivity]. rewrite IH. reflexivity.
  - destruct v; try exact IH. destruct (N.eqb_spec n 13) as [->|_]; [congruence|exact IH].
Qed.
Lemma dec_status_filter keep fs : keep 15%N = true ->
  forall st, dec_status (filter (by_num keep) fs) st = dec_status fs st.
Proof.
  intro Hk. induction fs as [|[n v] fs IH]; intro st; [reflexivity|].
  cbn [filter]. unfold by_num at 1. cbn [fst]. destruct (keep n) eqn:K; cbn [dec_status].
  - destruct v; try apply IH. destruct (n =? 15)%N; [|apply IH]. destruct (raw_fields s); [|reflexivity].
    destruct (fold_opt status_step l _); [apply IH|reflexivity].
  - destruct v; try apply IH. destruct (N.eqb_spec n 15) as [->|_]; [congruence|apply IH].
Qed.

(* the numbers of Spans.ospan's fields *)
Definition span_keep (n : N) : bool :=
  ((n =? 1) || (n =? 2) || (n =? 4) || (n =? 5) || (n =? 6) || (n =? 7) || (n =? 8) || (n =? 9))%N.
Lemma span_step_skip st f : span_keep (fst f) = false -> span_step st f = Some st.
Proof.
  destruct f as [n v]. unfold span_keep. cbn [fst]. intro H.
  repeat (apply orb_false_iff in H; let K := fresh "K" in destruct H as [H K]).
  destruct v; cbn [span_step]; repeat match goal with E : (n =? _)%N = false |- _ => rewrite E; clear E end; reflexivity.
Qed.

(* SpansWire's decoder reads its span from ANY well-formed field list whose fields 1,2,4-9 are the span's *)
Theorem dec_span_among s F : span_wire_ok s = true -> Forall wf_field F ->
  filter (by_num span_keep) F = fields_span s -> dec_span (ser_fields F) = Some s.
Proof.
  intros Hok Hwf Hflt. unfold span_wire_ok in Hok.
  repeat (apply andb_true_iff in Hok; let H := fresh "Hc" in destruct Hok as [Hok H]).
  assert (Hsc : scalars_ok s) by (unfold scalars_ok; lia).
  rewrite forallb_forall in Hc.
  unfold dec_span. rewrite (raw_fields_ser _ Hwf).
  remember (String.length (ser_fields F)) as fuel eqn:Efuel.
  rewrite <- (fold_opt_filter span_step span_keep span_step_skip), <- (dec_kvs_filter _ 9 span_keep F eq_refl), Hflt.
  unfold fields_span.
  rewrite fold_opt_app, (fold_span_scalars s Hsc), fold_span_attrs.
  rewrite dec_kvs_app, dec_kvs_scalars.
  change (fields_attrs (o_attrs s)) with (map (kv_elem_field 9) (o_attrs s)).
  rewrite dec_kvs_map.
  - cbn [app o_trace o_span o_parent o_name o_start o_end o_kind]. destruct s; reflexivity.
  - intros p Hp. apply dec_kv_enc. intros Hnil.
    rewrite dec_any_enc; [now rewrite merge_empty| |apply Hc; exact Hp].
    assert (Hin : In (kv_elem_field 9 p) F).
    { assert (H1 : In (kv_elem_field 9 p) (fields_span s)).
      { unfold fields_span. apply in_or_app. right. apply in_map. exact Hp. }
      rewrite <- Hflt in H1. apply filter_In in H1. apply H1. }
    pose proof (bytes_in_len _ _ _ Hin) as H1.
    assert (Hin2 : In (2%N, RBytes (enc_any (snd p))) (fields_kv p)).
    { unfold fields_kv, kv_fields. rewrite Hnil. apply in_or_app. right. left. reflexivity. }
    pose proof (bytes_in_len _ _ _ Hin2) as H3. unfold enc_kv in H1. lia.
Qed.

(* ------------------------------------------------------------------ links *)
Lemma wf_fixed32_field n z : (1 <= n <= max_field)%N -> u32_ok z = true -> Forall wf_field (fixed32_field n z).
Proof.
  intros H Hz. unfold fixed32_field. destruct (z =? 0); [constructor|]. constructor; [|constructor].
  split; [exact H|]. cbn [snd]. unfold u32_ok in Hz. lia.
Qed.
Lemma u32_of_varint z : u32_ok z = true -> uint32_of (Z.to_N (to_u64 z)) = z.
Proof.
  unfold u32_ok, uint32_of, to_u64, two64. intro H.
  rewrite Z.mod_small by lia. rewrite Z2N.id by lia. apply Z.mod_small. lia.
Qed.
Lemma wf_fields_link l : link_ok l = true -> Forall wf_field (fields_link l).
Proof.
  intro Hok. unfold link_ok in Hok. apply andb_true_iff in Hok. destruct Hok as [Hok _]. apply andb_true_iff in Hok. destruct Hok as [_ Hf].
  unfold fields_link. repeat (apply Forall_app; split).
  - apply wf_bytes_field. unfold max_field. lia.
  - apply wf_bytes_field. unfold max_field. lia.
  - apply wf_bytes_field. unfold max_field. lia.
  - apply (wf_map_bytes 4 enc_kv). unfold max_field. lia.
  - apply wf_varint_field. unfold max_field. lia.
  - apply wf_fixed32_field; [unfold max_field; lia|exact Hf].
Qed.
Definition link_keep (n : N) : bool := ((n =? 1) || (n =? 2) || (n =? 3) || (n =? 5) || (n =? 6))%N.
Lemma link_step_skip st f : link_keep (fst f) = false -> link_step st f = Some st.
Proof.
  destruct f as [n v]. unfold link_keep. cbn [fst]. intro H.
  repeat (apply orb_false_iff in H; let K := fresh "K" in destruct H as [H K]).
  destruct v; cbn [link_step]; repeat match goal with E : (n =? _)%N = false |- _ => rewrite E; clear E end; reflexivity.
Qed.
Definition link_pieces (l : olink) : list (N * list field) :=
  [ (1%N, bytes_field 1 (l_trace l)); (2%N, bytes_field 2 (l_span l)); (3%N, bytes_field 3 (l_state l));
    (4%N, map (fun kv => (4%N, RBytes (enc_kv kv))) (l_attrs l)); (5%N, varint_field 5 (l_dropped l)); (6%N, fixed32_field 6 (l_flags l)) ].
Lemma fields_link_pieces l : fields_link l = List.concat (map snd (link_pieces l)).
Proof. unfold fields_link, link_pieces. cbn [map snd List.concat]. rewrite app_nil_r. reflexivity. Qed.
Lemma link_pieces_ok l : pieces_ok (link_pieces l).
Proof.
  unfold pieces_ok, link_pieces. repeat (constructor; cbn [fst snd]);
    try apply fnum_bytes; try apply fnum_varint; try apply fnum_fixed32. apply (fnum_map 4 enc_kv).
Qed.

Lemma dec_link_enc fuel l : link_ok l = true -> (String.length (enc_link l) < fuel)%nat -> dec_link fuel (enc_link l) = Some l.
Proof.
  intros Hok Hfuel. pose proof (wf_fields_link l Hok) as Hwf.
  unfold link_ok in Hok. apply andb_true_iff in Hok. destruct Hok as [Hok Ha]. apply andb_true_iff in Hok. destruct Hok as [Hd Hf].
  rewrite forallb_forall in Ha.
  unfold dec_link, enc_link in *. rewrite (raw_fields_ser _ Hwf).
  rewrite <- (fold_opt_filter link_step link_keep link_step_skip), <- (dec_kvs_filter _ 4 (N.eqb 4) (fields_link l) eq_refl).
  rewrite !(fields_link_pieces l).
  rewrite !(filter_pieces _ _ (link_pieces_ok l)).
  unfold link_pieces. cbn [filter fst link_keep N.eqb Pos.eqb orb map snd List.concat]. rewrite !app_nil_r.
  destruct l as [t sp st at_ d fl]. cbn [l_trace l_span l_state l_attrs l_dropped l_flags] in *.
  assert (E : fold_opt link_step (bytes_field 1 t ++ bytes_field 2 sp ++ bytes_field 3 st ++ varint_field 5 d ++ fixed32_field 6 fl) link0
              = Some {| l_trace := t; l_span := sp; l_state := st; l_attrs := []; l_dropped := d; l_flags := fl |}).
  { unfold bytes_field, varint_field, fixed32_field, link0.
    destruct (String.eqb_spec t "") as [->|_], (String.eqb_spec sp "") as [->|_], (String.eqb_spec st "") as [->|_],
             (Z.eqb_spec d 0) as [->|_], (Z.eqb_spec fl 0) as [->|_];
      cbn [app fold_opt link_step N.eqb Pos.eqb l_trace l_span l_state l_attrs l_dropped l_flags];
      rewrite ?(u32_of_varint d Hd), ?Z2N.id by (unfold u32_ok in Hf; lia); reflexivity. }
  rewrite E.
  change (map (fun kv => (4%N, RBytes (enc_kv kv))) at_) with (map (kv_elem_field 4) at_).
  rewrite dec_kvs_map; [reflexivity|].
  intros p Hp. apply dec_kv_enc. intros Hnil.
  rewrite dec_any_enc; [now rewrite merge_empty| |apply Ha; exact Hp].
  assert (Hin : In (kv_elem_field 4 p) (fields_link {| l_trace := t; l_span := sp; l_state := st; l_attrs := at_; l_dropped := d; l_flags := fl |})).
  { unfold fields_link. cbn [l_trace l_span l_state l_attrs l_dropped l_flags].
    apply in_or_app. right. apply in_or_app. right. apply in_or_app. right. apply in_or_app. left.
    apply (in_map (kv_elem_field 4)). exact Hp. }
  pose proof (bytes_in_len _ _ _ Hin) as B1.
  assert (Hin2 : In (2%N, RBytes (enc_any (snd p))) (fields_kv p)).
  { unfold fields_kv, kv_fields. rewrite Hnil. apply in_or_app. right. left. reflexivity. }
  pose proof (bytes_in_len _ _ _ Hin2) as B3. unfold enc_kv in B1. lia.
Qed.
Lemma dec_links_map fuel l : (forall e, In e l -> dec_link fuel (enc_link e) = Some e) ->
  dec_links fuel (map (fun e => (13%N, RBytes (enc_link e))) l) = Some l.
Proof.
  induction l as [|x l IH]; intros H; [reflexivity|].
  cbn [map dec_links N.eqb Pos.eqb]. rewrite (H x) by (left; reflexivity).
  rewrite IH; [reflexivity|]. intros y Hy. apply H. right. exact Hy.
Qed.

(* ------------------------------------------------------------------ the whole span *)
Definition more_keep (n : N) : bool := ((n =? 3) || (n =? 10) || (n =? 12) || (n =? 14) || (n =? 16))%N.
Lemma more_step_skip st f : more_keep (fst f) = false -> more_step st f = Some st.
Proof.
  destruct f as [n v]. unfold more_keep. cbn [fst]. intro H.
  repeat (apply orb_false_iff in H; let K := fresh "K" in destruct H as [H K]).
  destruct v; cbn [more_step]; repeat match goal with E : (n =? _)%N = false |- _ => rewrite E; clear E end; reflexivity.
Qed.

Lemma wf_fields_spany s x y : scalars_ok s -> more_ok y = true -> Forall wf_field (fields_spany s x y).
Proof.
  intros Hsc Hy. unfold more_ok in Hy.
  repeat (apply andb_true_iff in Hy; let H := fresh "Hm" in destruct Hy as [Hy H]).
  pose proof (wf_fields_scalars s Hsc) as Hs. unfold fields_scalars in Hs.
  repeat (apply Forall_app in Hs; let H := fresh "Hs" in destruct Hs as [H Hs]).
  unfold fields_spany, pieces. cbn [map snd List.concat]. rewrite app_nil_r.
  repeat (apply Forall_app; split); try assumption.
  - apply wf_bytes_field. unfold max_field. lia.
  - unfold fields_attrs. apply (wf_map_bytes 9 enc_kv). unfold max_field. lia.
  - apply wf_varint_field. unfold max_field. lia.
  - apply (wf_map_bytes 11 enc_event). unfold max_field. lia.
  - apply wf_varint_field. unfold max_field. lia.
  - apply (wf_map_bytes 13 enc_link). unfold max_field. lia.
  - apply wf_varint_field. unfold max_field. lia.
  - destruct (x_status x); [|constructor]. constructor; [|constructor]. apply wf_bytes. unfold max_field. lia.
  - apply wf_fixed32_field; [unfold max_field; lia|assumption].
Qed.

Lemma spany_span_part s x y : filter (by_num span_keep) (fields_spany s x y) = fields_span s.
Proof.
  unfold fields_spany. rewrite (filter_pieces _ _ (pieces_fnum s x y)).
  unfold pieces. cbn [filter fst span_keep N.eqb Pos.eqb orb map snd List.concat].
  unfold fields_span, fields_scalars. rewrite app_nil_r. repeat rewrite <- app_assoc. reflexivity.
Qed.

Theorem dec_enc_spany s x y : span_wire_ok s = true -> extra_ok x = true -> more_ok y = true ->
  dec_spany (enc_spany s x y) = Some (s, x, y).
Proof.
  intros Hs Hx Hy.
  assert (Hsc : scalars_ok s).
  { unfold span_wire_ok in Hs. repeat (apply andb_true_iff in Hs; let H := fresh "Hc" in destruct Hs as [Hs H]). unfold scalars_ok. lia. }
  pose proof (wf_fields_spany s x y Hsc Hy) as Hwf.
  unfold dec_spany, dec_spanx, enc_spany.
  rewrite (dec_span_among s _ Hs Hwf (spany_span_part s x y)), (raw_fields_ser _ Hwf).
  remember (String.length (ser_fields (fields_spany s x y))) as fuel eqn:Efuel.
  unfold extra_ok in Hx. apply andb_true_iff in Hx. destruct Hx as [Hev Hst]. rewrite forallb_forall in Hev.
  pose proof Hy as Hy'. unfold more_ok in Hy'.
  repeat (apply andb_true_iff in Hy'; let H := fresh "Hm" in destruct Hy' as [Hy' H]). rewrite forallb_forall in Hm.
  (* events *)
  rewrite <- (dec_events_filter fuel (N.eqb 11) _ eq_refl).
  rewrite <- (dec_status_filter (N.eqb 15) _ eq_refl).
  rewrite <- (fold_opt_filter more_step more_keep more_step_skip).
  rewrite <- (dec_links_filter fuel (N.eqb 13) _ eq_refl).
  unfold fields_spany in *. rewrite !(filter_pieces _ _ (pieces_fnum s x y)).
  unfold pieces at 1 2 3 4. cbn [filter fst more_keep N.eqb Pos.eqb orb map snd List.concat]. rewrite !app_nil_r.
  rewrite dec_events_map.
  2:{ intros e He. apply dec_event_enc; [apply Hev; exact He|].
      assert (Hin : In (11%N, RBytes (enc_event e)) (List.concat (map snd (pieces s x y)))).
      { apply in_concat. exists (map (fun e => (11%N, RBytes (enc_event e))) (x_events x)). split.
        - unfold pieces. cbn [map snd]. do 10 right. left. reflexivity.
        - apply (in_map (fun e => (11%N, RBytes (enc_event e)))). exact He. }
      pose proof (bytes_in_len _ _ _ Hin) as B. lia. }
  rewrite dec_links_map.
  2:{ intros l Hl. apply dec_link_enc; [apply Hm; exact Hl|].
      assert (Hin : In (13%N, RBytes (enc_link l)) (List.concat (map snd (pieces s x y)))).
      { apply in_concat. exists (map (fun l => (13%N, RBytes (enc_link l))) (y_links y)). split.
        - unfold pieces. cbn [map snd]. do 12 right. left. reflexivity.
        - apply (in_map (fun l => (13%N, RBytes (enc_link l)))). exact Hl. }
      pose proof (bytes_in_len _ _ _ Hin) as B. lia. }
  destruct y as [ts da de ls dl fl]. cbn [y_state y_dattrs y_devents y_links y_dlinks y_flags] in *.
  assert (Hda : u32_ok da = true) by (unfold u32_ok; rewrite Hy', Hm3; reflexivity).
  assert (E : fold_opt more_step (bytes_field 3 ts ++ varint_field 10 da ++ varint_field 12 de ++ varint_field 14 dl ++ fixed32_field 16 fl) no_more
              = Some {| y_state := ts; y_dattrs := da; y_devents := de; y_links := []; y_dlinks := dl; y_flags := fl |}).
  { unfold bytes_field, varint_field, fixed32_field, no_more.
    destruct (String.eqb_spec ts "") as [Ets|_], (Z.eqb_spec da 0) as [Eda|_], (Z.eqb_spec de 0) as [Ede|_],
             (Z.eqb_spec dl 0) as [Edl|_], (Z.eqb_spec fl 0) as [Efl|_];
      cbn [app fold_opt more_step N.eqb Pos.eqb y_state y_dattrs y_devents y_links y_dlinks y_flags];
      rewrite ?(u32_of_varint da Hda), ?(u32_of_varint de Hm2), ?(u32_of_varint dl Hm1), ?Z2N.id by (unfold u32_ok in Hm0; lia);
      rewrite ?Ets, ?Eda, ?Ede, ?Edl, ?Efl; reflexivity. }
  rewrite E. destruct x as [evs [st|]]; cbn [x_events x_status] in *.
  - cbn [dec_status N.eqb Pos.eqb]. unfold enc_status. rewrite (raw_fields_ser _ (wf_fields_status st)), (status_enc st Hst). reflexivity.
  - reflexivity.
Qed.

(* without the further fields the bytes are those of SpansWireX *)
Lemma enc_spany_no_more s x : enc_spany s x no_more = enc_spanx s x.
Proof.
  unfold enc_spany, enc_spanx, fields_spany, pieces, fields_span, fields_scalars, fields_extra.
  cbn [map snd List.concat no_more y_state y_dattrs y_devents y_links y_dlinks y_flags bytes_field varint_field fixed32_field String.eqb Z.eqb app].
  rewrite app_nil_r. repeat rewrite <- app_assoc. reflexivity.
Qed.

(* the read path on the stored bytes: proto.Unmarshal returns every further field as pushed *)
Corollary more_of_bytes s x y : span_wire_ok s = true -> extra_ok x = true -> more_ok y = true ->
  option_map snd (dec_spany (enc_spany s x y)) = Some y.
Proof. intros Hs Hx Hy. rewrite (dec_enc_spany s x y Hs Hx Hy). reflexivity. Qed.

Definition wirey_ex : ospan * oextra * omore :=
  (wirex_ex, {| y_state := "rojo=00f067aa0ba902b7"; y_dattrs := 3; y_devents := 0;
                y_links := [{| l_trace := hx "0af7651916cd43dd8448eb211c80319c"; l_span := hx "00f067aa0ba902b7"; l_state := "";
                               l_attrs := [("link.kind", AStr "follows"); ("n", AList [AInt 1; ABool true])]; l_dropped := 1; l_flags := 257 |};
                            link0];
                y_dlinks := 4294967295; y_flags := 1 |}).
Example wirey_ex_roundtrip :
  span_wire_ok (fst (fst wirey_ex)) = true /\ extra_ok (snd (fst wirey_ex)) = true /\ more_ok (snd wirey_ex) = true /\
  dec_spany (enc_spany (fst (fst wirey_ex)) (snd (fst wirey_ex)) (snd wirey_ex)) = Some wirey_ex.
Proof. split; [reflexivity|]. split; [reflexivity|]. split; [reflexivity|]. vm_compute. reflexivity. Qed.

(* parseOTLP sends a payload whose first byte is '{' to parseOTLPJson (the legacy JSON form of the JS writer) and every other payload to
   proto.Unmarshal.  A span this writer stores has a 16-byte trace id (onSpan refuses every other width), so its bytes begin with the tag of
   field 1, wire type 2 = 0x0A: never '{'.  No row written by this writer is ever read through the legacy JSON path. *)
Lemma enc_spany_first_byte s x y : id_widths_ok (o_trace s) (o_span s) = true ->
  exists r, enc_spany s x y = String (ascii_of_N 10) r /\ ascii_of_N 10 <> "{"%char.
Proof.
  intro Hw. unfold id_widths_ok in Hw. apply andb_true_iff in Hw. destruct Hw as [Hw _]. apply Nat.eqb_eq in Hw.
  unfold enc_spany, fields_spany, pieces. cbn [map snd List.concat]. unfold bytes_field at 1.
  destruct (String.eqb_spec (o_trace s) "") as [E|_]; [rewrite E in Hw; discriminate|].
  cbn [app ser_fields ser_field].
  assert (Ev : enc_varint (1 * 8 + 2) = String (ascii_of_N 10) EmptyString) by (vm_compute; reflexivity).
  rewrite Ev. cbn [String.append]. eexists. split; [reflexivity|]. vm_compute. discriminate.
Qed.
