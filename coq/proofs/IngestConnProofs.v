(* C05, round 6: proofs about model/IngestConn.v -- whoever takes a promise out of svc.results completes it, for every
   behaviour of the connection (dials refused, INSERTs failing, pings failing) and every interleaving of requests, timer
   events, iterations of the Run loop and watchdog ticks. *)
From Coq Require Import List String ZArith NArith Bool Lia.
From Qryn Require Import model.IngestConn.
Import ListNotations.
Open Scope N_scope.

(* ---------------------------------------------------------------- the checks mean what they say *)
Lemma cstep_eqb_eq a b : cstep_eqb a b = true -> a = b.
Proof.
  destruct a, b; cbn; intro H; try discriminate; try reflexivity.
  apply String.eqb_eq in H. now subst.
Qed.
Lemma pstep_eqb_eq a b : pstep_eqb a b = true -> a = b.
Proof.
  destruct a, b; cbn; intro H; try discriminate; try reflexivity.
  apply String.eqb_eq in H. now subst.
Qed.
Lemma list_eqb_eq {A} (eqb : A -> A -> bool) (Heq : forall a b, eqb a b = true -> a = b) :
  forall a b, list_eqb eqb a b = true -> a = b.
Proof.
  induction a as [|x a IH]; destruct b as [|y b]; cbn; intro H; try discriminate; try reflexivity.
  apply andb_true_iff in H. destruct H as [H1 H2]. apply Heq in H1. apply IH in H2. now subst.
Qed.
Lemma fetch_loop_ok_core p : fetch_loop_ok p = true -> strip_plain p = fli_core.
Proof. apply list_eqb_eq. exact cstep_eqb_eq. Qed.
Lemma ping_ok_core p : ping_ok p = true -> strip_pplain p = ping_core.
Proof. apply list_eqb_eq. exact pstep_eqb_eq. Qed.

(* plain statements do nothing *)
Lemma run_steps_strip : forall p e st l, run_steps p e st l = run_steps (strip_plain p) e st l.
Proof.
  induction p as [|s p IH]; intros e st l; [reflexivity|].
  destruct s; cbn [strip_plain filter is_cplain negb]; fold (strip_plain p);
    try (cbn [run_steps]; destruct (step_iter _ e st l) as [st' [l'|]]; [apply IH | reflexivity]).
  cbn [run_steps step_iter]. apply IH.
Qed.
Lemma run_iter_strip p e st : run_iter p e st = run_iter (strip_plain p) e st.
Proof. apply run_steps_strip. Qed.

Lemma run_ping_strip : forall p recent ok pinged st, run_ping p recent ok pinged st = run_ping (strip_pplain p) recent ok pinged st.
Proof.
  induction p as [|s p IH]; intros recent ok pinged st; [reflexivity|].
  destruct s; cbn [strip_pplain filter is_pplain negb]; fold (strip_pplain p); cbn [run_ping];
    repeat match goal with |- context [if ?b then _ else _] => destruct b end; try reflexivity; apply IH.
Qed.

(* ---------------------------------------------------------------- one iteration of the modelled program *)
Lemma is_done_complete_in ids v st i : In i ids -> is_done (complete ids v st) i = true.
Proof.
  intro Hin. unfold is_done, complete. cbn [cs_done]. rewrite existsb_app. apply orb_true_iff. left.
  apply existsb_exists. exists (i, v). split; [apply in_map_iff; now exists i | cbn; apply N.eqb_refl].
Qed.
Lemma filter_not_done_nil v st : forall w ids, incl w ids -> filter (fun i => negb (is_done (complete ids v st) i)) w = [].
Proof.
  induction w as [|x w IH]; intros ids Hincl; [reflexivity|].
  cbn [filter]. rewrite is_done_complete_in by (apply Hincl; now left). cbn.
  apply IH. intros y Hy. apply Hincl. now right.
Qed.

Definition after_tick (e : ienv) (st : cstate) : cstate :=
  if cs_client st || dial_ok e then
    match cs_waiting st with
    | [] => {| cs_client := true; cs_due := false; cs_waiting := []; cs_done := cs_done st; cs_lost := cs_lost st; cs_crash := cs_crash st |}
    | w => {| cs_client := do_ok e; cs_due := false; cs_waiting := [];
              cs_done := (map (fun i => (i, do_ok e)) w ++ cs_done st)%list; cs_lost := cs_lost st; cs_crash := cs_crash st |}
    end
  else st.

Lemma filter_nil_unf (v : bool) (dn : list (N * bool)) : forall w ids, incl w ids ->
  filter (fun i => negb (existsb (fun d : N * bool => N.eqb (fst d) i) (map (fun i0 => (i0, v)) ids ++ dn)%list)) w = [].
Proof.
  induction w as [|x w IH]; intros ids Hincl; [reflexivity|].
  cbn [filter].
  assert (E : existsb (fun d : N * bool => N.eqb (fst d) x) (map (fun i0 => (i0, v)) ids ++ dn)%list = true).
  { rewrite existsb_app. apply orb_true_iff. left. apply existsb_exists. exists (x, v).
    split; [apply in_map_iff; exists x; split; [reflexivity | apply Hincl; now left] | cbn; apply N.eqb_refl]. }
  rewrite E. cbn. apply IH. intros y Hy. apply Hincl. now right.
Qed.

Lemma iter_core_closed e st : fst (run_iter fli_core e st) = after_tick e st.
Proof.
  destruct st as [cl due w dn lost cr]. destruct e as [dk ok]. unfold after_tick, run_iter. cbn [cs_client dial_ok cs_waiting].
  destruct cl, dk, w as [|x w]; cbn -[filter]; try reflexivity;
    destruct ok; cbn -[filter];
    match goal with |- context [filter ?f ?l] =>
      replace (filter f l) with (@nil N)
        by (symmetry; first [exact (filter_nil_unf true dn l l (incl_refl l)) | exact (filter_nil_unf false dn l l (incl_refl l))]);
      reflexivity end.
Qed.

Lemma iter_ok_closed p e st : fetch_loop_ok p = true -> fst (run_iter p e st) = after_tick e st.
Proof. intro H. rewrite run_iter_strip, (fetch_loop_ok_core p H). apply iter_core_closed. Qed.

Lemma ping_core_closed recent ok st :
  fst (run_ping ping_core recent ok false st) = if cs_client st && negb recent && negb ok then set_client st false else st.
Proof. destruct st as [cl due w dn lost cr]. destruct cl, recent, ok; reflexivity. Qed.
Lemma ping_ok_closed p recent ok st : ping_ok p = true ->
  fst (run_ping p recent ok false st) = if cs_client st && negb recent && negb ok then set_client st false else st.
Proof. intro H. rewrite run_ping_strip, (ping_ok_core p H). apply ping_core_closed. Qed.

(* ---------------------------------------------------------------- safety: no promise is ever dropped *)
Lemma accounted_after_tick e st id : accounted st id = true -> accounted (after_tick e st) id = true.
Proof.
  unfold accounted, after_tick. intro H.
  destruct (cs_client st || dial_ok e); [|exact H].
  destruct (cs_waiting st) as [|x w] eqn:W.
  - cbn in *. exact H.
  - apply orb_true_iff in H. apply orb_true_iff. right. destruct H as [H|H].
    + unfold is_done. cbn [cs_done]. rewrite existsb_app. apply orb_true_iff. left.
      apply existsb_exists in H. destruct H as [y [Hy E]]. apply N.eqb_eq in E. subst y.
      apply existsb_exists. exists (id, do_ok e). split; [apply in_map_iff; now exists id | cbn; apply N.eqb_refl].
    + unfold is_done in *. cbn [cs_done]. rewrite existsb_app, H. apply orb_true_r.
Qed.
Lemma after_tick_keeps e st : cs_crash (after_tick e st) = cs_crash st /\ cs_lost (after_tick e st) = cs_lost st.
Proof. unfold after_tick. destruct (cs_client st || dial_ok e); [destruct (cs_waiting st)|]; split; reflexivity. Qed.

Section Safety.
  Variable p : list cstep.
  Variable pp : list pstep.
  Hypothesis Hp : fetch_loop_ok p = true.
  Hypothesis Hpp : ping_ok pp = true.

  Lemma step_safe st ev :
    cs_crash st = false -> cs_lost st = [] ->
    let st' := cstep_ev p pp st ev in
    cs_crash st' = false /\ cs_lost st' = [] /\
    (forall id, accounted st id = true -> accounted st' id = true) /\
    (forall id, In id (requested [ev]) -> accounted st' id = true).
  Proof.
    intros Hc Hl. unfold cstep_ev. rewrite Hc. destruct ev as [id|id ok| |e|recent ok]; cbn [requested flat_map app].
    - (* ERequest *) split; [exact Hc|]. split; [exact Hl|]. split.
      + intros i H. unfold accounted, add_waiting in *. cbn [cs_waiting]. rewrite existsb_app.
        apply orb_true_iff in H. destruct H as [H|H]; [rewrite H; reflexivity|].
        unfold is_done in *. cbn [cs_done]. rewrite H. apply orb_true_r.
      + intros i [E|[]]. subst i. unfold accounted, add_waiting. cbn [cs_waiting]. rewrite existsb_app. cbn. rewrite N.eqb_refl.
        rewrite orb_true_r. reflexivity.
    - (* EImmediate *) split; [exact Hc|]. split; [exact Hl|]. split.
      + intros i H. unfold accounted, complete in *. cbn [cs_waiting]. apply orb_true_iff in H. apply orb_true_iff.
        destruct H as [H|H]; [now left|right]. unfold is_done in *. cbn [cs_done map app existsb fst]. rewrite H. apply orb_true_r.
      + intros i [E|[]]. subst i. unfold accounted. rewrite (is_done_complete_in [id] ok st id) by now left. apply orb_true_r.
    - (* EDue *) split; [exact Hc|]. split; [exact Hl|]. split; [intros i H; exact H | intros i []].
    - (* ETick *) destruct (cs_due st).
      + rewrite (iter_ok_closed p e st Hp). destruct (after_tick_keeps e st) as [K1 K2]. rewrite K1, K2.
        split; [exact Hc|]. split; [exact Hl|]. split; [intros i H; now apply accounted_after_tick | intros i []].
      + split; [exact Hc|]. split; [exact Hl|]. split; [intros i H; exact H | intros i []].
    - (* EPing *) rewrite (ping_ok_closed pp recent ok st Hpp).
      destruct (cs_client st && negb recent && negb ok); (split; [exact Hc|]; split; [exact Hl|]; split; [intros i H; exact H | intros i []]).
  Qed.

  Lemma run_safe : forall evs st,
    cs_crash st = false -> cs_lost st = [] ->
    let st' := crun p pp evs st in
    cs_crash st' = false /\ cs_lost st' = [] /\
    (forall id, accounted st id = true \/ In id (requested evs) -> accounted st' id = true).
  Proof.
    induction evs as [|ev evs IH]; intros st Hc Hl.
    - cbn. split; [exact Hc|]. split; [exact Hl|]. intros id [H|[]]. exact H.
    - destruct (step_safe st ev Hc Hl) as [C1 [L1 [A1 R1]]].
      destruct (IH (cstep_ev p pp st ev) C1 L1) as [C2 [L2 A2]].
      unfold crun in *. cbn [fold_left]. split; [exact C2|]. split; [exact L2|].
      intros id H. apply A2. destruct H as [H|H]; [left; now apply A1|].
      assert (E : requested (ev :: evs) = (requested [ev] ++ requested evs)%list)
        by (unfold requested; cbn [flat_map]; now rewrite app_nil_r).
      rewrite E in H.
      apply in_app_or in H. destruct H as [H|H]; [left; now apply R1 | now right].
  Qed.

  Theorem no_promise_dropped evs :
    let st := crun p pp evs cs_init in
    cs_crash st = false /\ cs_lost st = [] /\ forall id, In id (requested evs) -> accounted st id = true.
  Proof.
    destruct (run_safe evs cs_init eq_refl eq_refl) as [C [L A]]. split; [exact C|]. split; [exact L|].
    intros id H. apply A. now right.
  Qed.

  (* a refused dial changes nothing: the insert context stays done, Run calls the iteration again *)
  Theorem refused_dial_stutters e st :
    cs_client st = false -> dial_ok e = false -> fst (run_iter p e st) = st.
  Proof. intros C D. rewrite (iter_ok_closed p e st Hp). unfold after_tick. rewrite C, D. reflexivity. Qed.

  (* an iteration that has (or gets) a connection answers everybody who is waiting with the verdict of the INSERT *)
  Theorem connected_iteration_answers_all e st :
    cs_client st || dial_ok e = true ->
    let st' := fst (run_iter p e st) in
    cs_waiting st' = [] /\ forall id, In id (cs_waiting st) -> In (id, do_ok e) (cs_done st').
  Proof.
    intros H. cbn zeta. rewrite (iter_ok_closed p e st Hp). unfold after_tick. rewrite H.
    destruct (cs_waiting st) as [|x w] eqn:W; cbn [cs_waiting cs_done]; split; try reflexivity.
    - intros id [].
    - intros id Hin. apply in_or_app. left. apply in_map_iff. now exists id.
  Qed.

  Lemma refused_ticks_stutter : forall envs st,
    cs_crash st = false -> cs_client st = false -> Forall (fun x => dial_ok x = false) envs ->
    crun p pp (map ETick envs) st = st.
  Proof.
    induction envs as [|e envs IH]; intros st Hc Cl Hf; [reflexivity|].
    inversion Hf as [|? ? D F]; subst. unfold crun in *. cbn [map fold_left]. unfold cstep_ev at 2. rewrite Hc.
    destruct (cs_due st); [rewrite (refused_dial_stutters e st Cl D)|]; apply IH; assumption.
  Qed.

  (* bounded time under C01's fairness: however often the database refuses, the first accepted dial answers every waiting request *)
  Theorem waiting_requests_answered_by_the_first_accepted_dial envs e st :
    cs_crash st = false -> cs_due st = true -> cs_client st = false ->
    Forall (fun x => dial_ok x = false) envs -> dial_ok e = true ->
    let st' := crun p pp (map ETick envs ++ [ETick e]) st in
    cs_waiting st' = [] /\ forall id, In id (cs_waiting st) -> In (id, do_ok e) (cs_done st').
  Proof.
    intros Hc Hd Cl Hf De. cbn zeta. unfold crun. rewrite fold_left_app. fold (crun p pp (map ETick envs) st).
    rewrite (refused_ticks_stutter envs st Hc Cl Hf). cbn [fold_left]. unfold cstep_ev. rewrite Hc, Hd.
    apply connected_iteration_answers_all. rewrite De. apply orb_true_r.
  Qed.
End Safety.

(* ---------------------------------------------------------------- the seeded order: swapBuffers before the connect step *)
Definition refuse : ienv := {| dial_ok := false; do_ok := true |}.
Definition accept : ienv := {| dial_ok := true; do_ok := true |}.
Definition c05f_trace : list cev := [ERequest 1; EDue; ETick refuse; EDue; ETick accept; EDue; ETick accept].

Theorem swap_before_connect_drops_promises :
  let st := crun fli_swapped ping_core c05f_trace cs_init in
  cs_lost st = [1] /\ accounted st 1 = false /\ fetch_loop_ok fli_swapped = false.
Proof. vm_compute. repeat split; reflexivity. Qed.

(* the same trace on the modelled order: answered by the first accepted dial *)
Example c05f_trace_on_the_modelled_order :
  let st := crun fli_core ping_core c05f_trace cs_init in cs_lost st = [] /\ cs_done st = [(1, true)].
Proof. vm_compute. split; reflexivity. Qed.

(* hypotheses of the theorems above are met by non-trivial values *)
Example safety_hyps_met :
  fetch_loop_ok [CPlain; CConnect; CSwap; CPlain; CCapture; CDefRelease; CDo; CPlain; CRelease; CCloseOnErr] = true /\ ping_ok (PPlain :: ping_core) = true.
Proof. vm_compute. split; reflexivity. Qed.
Example first_accepted_dial_hyps_met :
  let st := crun fli_core ping_core [ERequest 7; ERequest 8; EDue] cs_init in
  cs_crash st = false /\ cs_due st = true /\ cs_client st = false /\ cs_waiting st = [7; 8] /\
  Forall (fun x => dial_ok x = false) [refuse; refuse] /\ dial_ok accept = true.
Proof. vm_compute. repeat split; try reflexivity. repeat constructor. Qed.

(* ---------------------------------------------------------------- scenarios of harness conndown on the modelled programs *)
Definition no_obs : cobs := {| co_status := []; co_all_completed := true; co_dial_ok := 0; co_dial_refused := 0; co_do_ok := 0; co_do_fail := 0;
                               co_rows_sent := 0; co_rows_stored := 0; co_goroutines := 0%Z |}.
Definition scen (pushes : N) (warm : bool) (dial do ping : list N) (hold attempts : N) : ccase :=
  {| cc_id := 0%Z; cc_pushes := pushes; cc_warm := warm; cc_dial := dial; cc_do := do; cc_ping := ping; cc_hold := hold; cc_attempts := attempts; cc_obs := no_obs |}.

Example scenarios_on_the_modelled_order :
  map (fun c => (map pu_status (sm_pushes (conn_sim fli_core ping_core c)), conn_predicts_wedge fli_core ping_core c))
      [scen 1 false [1; 1] [] [] 0 3; scen 1 true [1] [1] [] 0 3; scen 1 true [] [1; 1; 1] [] 0 3; scen 2 true [1] [] [1] 2 3; scen 1 false [0; 1] [2] [] 0 3]
  = [([2], false); ([2], false); ([5], false); ([2; 2], false); ([2], false)].
Proof. vm_compute. reflexivity. Qed.
Example scenarios_on_the_seeded_order :
  map (fun c => (map pu_status (sm_pushes (conn_sim fli_swapped ping_core c)), conn_predicts_wedge fli_swapped ping_core c))
      [scen 1 false [1; 1] [] [] 0 3; scen 1 true [1] [1] [] 0 3; scen 1 true [] [1; 1; 1] [] 0 3; scen 2 true [1] [] [1] 2 3]
  = [([0], true); ([0], true); ([5], false); ([0; 0], true)].
Proof. vm_compute. reflexivity. Qed.

(* ---------------------------------------------------------------- round 8: the service mutex is not re-entered *)
Lemma lock_order_ok_sound : forall tbl, lock_order_ok tbl = true -> forall x, In x tbl ->
  mm_relock x = false /\ forall c, In c (mm_held_self x) -> may_lock (lock_fuel tbl) tbl (mm_type x) [] c = false.
Proof.
  intros tbl H x Hin. unfold lock_order_ok in H. rewrite forallb_forall in H. specialize (H x Hin).
  unfold mm_ok in H. apply andb_true_iff in H. destruct H as [H1 H2]. split.
  - now apply negb_true_iff in H1.
  - intros c Hc. destruct (may_lock (lock_fuel tbl) tbl (mm_type x) [] c) eqn:E; [| reflexivity].
    assert (Hr : In c (relocking_calls tbl x)) by (unfold relocking_calls; apply filter_In; split; assumption).
    destruct (relocking_calls tbl x); [contradiction | discriminate].
Qed.

Lemma locking_method_may_lock : forall tbl T m x f, find_mm tbl T m = Some x -> mm_locks x = true -> may_lock (S f) tbl T [] m = true.
Proof. intros tbl T m x f H H0. cbn. rewrite H, H0. reflexivity. Qed.

(* a method that locks through one more call on the same receiver *)
Lemma caller_of_a_locking_method_may_lock : forall tbl T m x c y f, find_mm tbl T m = Some x -> In c (mm_self_calls x) -> c <> m ->
  find_mm tbl T c = Some y -> mm_locks y = true -> may_lock (S (S f)) tbl T [] m = true.
Proof.
  intros tbl T m x c y f H Hc Hne Hy Hl. cbn [may_lock existsb]. rewrite H.
  apply orb_true_iff. right. apply existsb_exists. exists c. split; [assumption |].
  cbn [may_lock existsb]. destruct (String.eqb c m) eqn:E; [apply String.eqb_eq in E; contradiction |].
  cbn. rewrite Hy, Hl. reflexivity.
Qed.

(* what the obligation excludes: under its mutex no method calls, on the same object, a method that locks that mutex -- directly
   or through one more call (deeper chains: lock_order_ok_sound) -- nor writes R.mtx.Lock() itself *)
Lemma no_re_entry : forall tbl, lock_order_ok tbl = true -> forall x c y, In x tbl -> In c (mm_held_self x) ->
  find_mm tbl (mm_type x) c = Some y ->
  mm_relock x = false /\ mm_locks y = false /\
  forall d z, In d (mm_self_calls y) -> d <> c -> find_mm tbl (mm_type x) d = Some z -> mm_locks z = false.
Proof.
  intros tbl H x c y Hin Hc Hy. destruct (lock_order_ok_sound tbl H x Hin) as [Hr Hm]. specialize (Hm c Hc).
  split; [assumption |]. split.
  - destruct (mm_locks y) eqn:E; [| reflexivity].
    unfold lock_fuel in Hm. rewrite (locking_method_may_lock _ _ _ _ _ Hy E) in Hm. discriminate.
  - intros d z Hd Hne Hz. destruct (mm_locks z) eqn:E; [| reflexivity].
    unfold lock_fuel in Hm. destruct (List.length tbl) as [| n] eqn:El.
    + destruct tbl; [contradiction | discriminate].
    + rewrite (caller_of_a_locking_method_may_lock _ _ _ _ _ _ _ Hy Hd Hne Hz E) in Hm. discriminate.
Qed.

Example shipped_shape_keeps_the_lock_order : lock_order_ok mtx_core = true /\ lockers_present mtx_core = true.
Proof. vm_compute. split; reflexivity. Qed.
(* seeded change C05-h: Request calls PlanFlush inside its locked region *)
Example seeded_h_re_enters_the_mutex :
  lock_order_ok mtx_seeded_h = false /\
  lock_order_offenders mtx_seeded_h = [("InsertServiceV2", "Request", false, ["PlanFlush"])]%string.
Proof. vm_compute. split; reflexivity. Qed.
Example re_entry_through_a_recursive_helper :
  lock_order_offenders mtx_through_helper = [("InsertServiceV2", "Request", false, ["flushNow"])]%string.
Proof. vm_compute. reflexivity. Qed.
