(* Proofs about model/LokiLabels.v (parseLabelsLokiFormat): a label list written in the Loki syntax, with any of the escape
   forms of the Go string syntax, is read back as itself; accepted texts only append to the buffer. *)
From Coq Require Import List ZArith NArith Bool Ascii String Lia.
From Qryn Require Import model.Decode model.LokiLabels.
Import ListNotations.
Open Scope N_scope.

Lemma byte_ascii_of_N : forall n, n < 256 -> byte (ascii_of_N n) = n.
Proof. intros n H. unfold byte. apply N_ascii_embedding. exact H. Qed.
Lemma byte_lt_256 : forall a, byte a < 256.
Proof. intro a. unfold byte. apply N_ascii_bounded. Qed.
Lemma ascii_of_byte : forall a, ascii_of_N (byte a) = a.
Proof. intro a. unfold byte. apply ascii_N_embedding. Qed.

(* ---------- one-step unfoldings of unq *)
Lemma unq_plain : forall a r, byte a <? 128 = true -> byte a =? 34 = false -> byte a =? 10 = false -> byte a =? 92 = false ->
  unq 0 (String a r) = ocons a (unq 0 r).
Proof. intros a r H1 H2 H3 H4. cbn [unq]. rewrite H2, H3, H4, H1. reflexivity. Qed.

Lemma unq_close : forall a, byte a = 34 -> unq 0 (String a EmptyString) = Some EmptyString.
Proof. intros a H. cbn [unq]. rewrite H. reflexivity. Qed.

Lemma unq_simple : forall a c r v, byte a = 92 -> simple_escape (byte c) = Some v ->
  unq 0 (String a (String c r)) = ocons (ascii_of_N v) (unq 0 r).
Proof. intros a c r v Ha Hc. cbn [unq]. rewrite Ha. change (92 =? 34) with false. change (92 =? 10) with false. change (92 =? 92) with true. cbv iota. rewrite Hc. reflexivity. Qed.

Lemma lt16_cases : forall d, d < 16 -> d = 0 \/ d = 1 \/ d = 2 \/ d = 3 \/ d = 4 \/ d = 5 \/ d = 6 \/ d = 7 \/ d = 8 \/ d = 9 \/ d = 10 \/ d = 11 \/ d = 12 \/ d = 13 \/ d = 14 \/ d = 15.
Proof. intros d H. lia. Qed.
Lemma hex_val_hexdigit : forall d, d < 16 -> hex_val (byte (hexdigit d)) = Some d.
Proof. intros d H. destruct (lt16_cases d H) as [E|[E|[E|[E|[E|[E|[E|[E|[E|[E|[E|[E|[E|[E|[E|E]]]]]]]]]]]]]]]; subst d; vm_compute; reflexivity. Qed.
Lemma digit_val_hexdigit : forall d, d < 16 -> digit_val (byte (hexdigit d)) <? 16 = true.
Proof. intros d H. destruct (lt16_cases d H) as [E|[E|[E|[E|[E|[E|[E|[E|[E|[E|[E|[E|[E|[E|[E|E]]]]]]]]]]]]]]]; subst d; vm_compute; reflexivity. Qed.

Lemma hexN2 : forall b, b < 256 -> hexN [hexdigit (b / 16); hexdigit (b mod 16)] = Some b.
Proof.
  intros b H. unfold hexN. cbn [fold_left].
  assert (H1 : b / 16 < 16) by (apply N.div_lt_upper_bound; lia).
  assert (H2 : b mod 16 < 16) by (apply N.mod_lt; lia).
  rewrite (hex_val_hexdigit _ H1), (hex_val_hexdigit _ H2).
  f_equal. pose proof (N.div_mod b 16). lia.
Qed.

Lemma unq_hex : forall a x b r, byte a = 92 -> byte x = 120 -> b < 256 ->
  unq 0 (String a (String x (String (hexdigit (b / 16)) (String (hexdigit (b mod 16)) r)))) = ocons (ascii_of_N b) (unq 0 r).
Proof.
  intros a x b r Ha Hx Hb. cbn [unq]. rewrite Ha. change (92 =? 34) with false. change (92 =? 10) with false. change (92 =? 92) with true. cbv iota.
  rewrite Hx. change (simple_escape 120) with (@None N). cbv iota. change (120 =? 120) with true. cbv iota.
  rewrite (hexN2 b Hb). reflexivity.
Qed.


Lemma lt8_cases : forall d, d < 8 -> d = 0 \/ d = 1 \/ d = 2 \/ d = 3 \/ d = 4 \/ d = 5 \/ d = 6 \/ d = 7.
Proof. intros d H. lia. Qed.
Lemma octdigit_facts : forall d, d < 8 ->
  simple_escape (byte (octdigit d)) = None /\ (byte (octdigit d) =? 120) = false /\ (byte (octdigit d) =? 117) = false /\
  (byte (octdigit d) =? 85) = false /\ oct_val (byte (octdigit d)) = Some d /\ inr 48 55 (byte (octdigit d)) = true /\
  (digit_val (byte (octdigit d)) <? 8) = true.
Proof. intros d H. destruct (lt8_cases d H) as [E|[E|[E|[E|[E|[E|[E|E]]]]]]]; subst d; vm_compute; repeat split. Qed.

Lemma oct_recompose : forall b, b < 256 -> b / 64 * 64 + (b / 8) mod 8 * 8 + b mod 8 = b.
Proof.
  intros b H. pose proof (N.div_mod b 8). pose proof (N.div_mod (b / 8) 8).
  assert (E : b / 8 / 8 = b / 64) by (rewrite N.div_div by lia; reflexivity). rewrite E in *. lia.
Qed.

Lemma unq_oct : forall a b r, byte a = 92 -> b < 256 ->
  unq 0 (String a (String (octdigit (b / 64)) (String (octdigit ((b / 8) mod 8)) (String (octdigit (b mod 8)) r)))) = ocons (ascii_of_N b) (unq 0 r).
Proof.
  intros a b r Ha Hb.
  assert (H1 : b / 64 < 8) by (apply N.div_lt_upper_bound; lia).
  assert (H2 : (b / 8) mod 8 < 8) by (apply N.mod_lt; lia).
  assert (H3 : b mod 8 < 8) by (apply N.mod_lt; lia).
  destruct (octdigit_facts _ H1) as [S1 [X1 [U1 [V1 [O1 _]]]]].
  destruct (octdigit_facts _ H2) as [_ [_ [_ [_ [O2 _]]]]].
  destruct (octdigit_facts _ H3) as [_ [_ [_ [_ [O3 _]]]]].
  cbn [unq]. rewrite Ha. change (92 =? 34) with false. change (92 =? 10) with false. change (92 =? 92) with true. cbv iota.
  rewrite S1, X1, U1, V1, O1, O2, O3. rewrite (oct_recompose b Hb).
  assert (L : b <=? 255 = true) by (apply N.leb_le; lia). rewrite L. reflexivity.
Qed.

Lemma hex4_recompose : forall v, v < 65536 -> ((v / 4096 * 16 + (v / 256) mod 16) * 16 + (v / 16) mod 16) * 16 + v mod 16 = v.
Proof.
  intros v H. pose proof (N.div_mod v 16). pose proof (N.div_mod (v / 16) 16). pose proof (N.div_mod (v / 256) 16).
  assert (E1 : v / 16 / 16 = v / 256) by (rewrite N.div_div by lia; reflexivity).
  assert (E2 : v / 256 / 16 = v / 4096) by (rewrite N.div_div by lia; reflexivity).
  rewrite E1, E2 in *. lia.
Qed.
Lemma hexN4 : forall v, v < 65536 ->
  hexN [hexdigit (v / 4096); hexdigit ((v / 256) mod 16); hexdigit ((v / 16) mod 16); hexdigit (v mod 16)] = Some v.
Proof.
  intros v H. unfold hexN. cbn [fold_left].
  assert (H1 : v / 4096 < 16) by (apply N.div_lt_upper_bound; lia).
  assert (H2 : (v / 256) mod 16 < 16) by (apply N.mod_lt; lia).
  assert (H3 : (v / 16) mod 16 < 16) by (apply N.mod_lt; lia).
  assert (H4 : v mod 16 < 16) by (apply N.mod_lt; lia).
  rewrite (hex_val_hexdigit _ H1), (hex_val_hexdigit _ H2), (hex_val_hexdigit _ H3), (hex_val_hexdigit _ H4).
  f_equal. rewrite <- (hex4_recompose v H) at 5. lia.
Qed.

Lemma unq_u4 : forall a u v r, byte a = 92 -> byte u = 117 -> v < 65536 -> valid_rune v = true ->
  unq 0 (String a (String u (String (hexdigit (v / 4096)) (String (hexdigit ((v / 256) mod 16))
        (String (hexdigit ((v / 16) mod 16)) (String (hexdigit (v mod 16)) r)))))) = oapp (utf8_encode v) (unq 0 r).
Proof.
  intros a u v r Ha Hu Hv Hr. cbn [unq]. rewrite Ha. change (92 =? 34) with false. change (92 =? 10) with false. change (92 =? 92) with true. cbv iota.
  rewrite Hu. change (simple_escape 117) with (@None N). cbv iota. change (117 =? 120) with false. change (117 =? 117) with true. cbv iota.
  rewrite (hexN4 v Hv), Hr. reflexivity.
Qed.

Lemma hexN8 : forall v, v < 4294967296 ->
  hexN [hexdigit (v / 65536 / 4096); hexdigit ((v / 65536 / 256) mod 16); hexdigit ((v / 65536 / 16) mod 16); hexdigit (v / 65536 mod 16);
        hexdigit (v mod 65536 / 4096); hexdigit ((v mod 65536 / 256) mod 16); hexdigit ((v mod 65536 / 16) mod 16); hexdigit (v mod 65536 mod 16)] = Some v.
Proof.
  intros v H. unfold hexN. cbn [fold_left].
  assert (Hhi : v / 65536 < 65536) by (apply N.div_lt_upper_bound; lia).
  assert (Hlo : v mod 65536 < 65536) by (apply N.mod_lt; lia).
  set (hi := v / 65536) in *. set (lo := v mod 65536) in *.
  assert (A1 : hi / 4096 < 16) by (apply N.div_lt_upper_bound; lia).
  assert (A2 : (hi / 256) mod 16 < 16) by (apply N.mod_lt; lia).
  assert (A3 : (hi / 16) mod 16 < 16) by (apply N.mod_lt; lia).
  assert (A4 : hi mod 16 < 16) by (apply N.mod_lt; lia).
  assert (B1 : lo / 4096 < 16) by (apply N.div_lt_upper_bound; lia).
  assert (B2 : (lo / 256) mod 16 < 16) by (apply N.mod_lt; lia).
  assert (B3 : (lo / 16) mod 16 < 16) by (apply N.mod_lt; lia).
  assert (B4 : lo mod 16 < 16) by (apply N.mod_lt; lia).
  rewrite (hex_val_hexdigit _ A1), (hex_val_hexdigit _ A2), (hex_val_hexdigit _ A3), (hex_val_hexdigit _ A4),
          (hex_val_hexdigit _ B1), (hex_val_hexdigit _ B2), (hex_val_hexdigit _ B3), (hex_val_hexdigit _ B4).
  f_equal. pose proof (hex4_recompose hi Hhi) as Rh. pose proof (hex4_recompose lo Hlo) as Rl.
  assert (E : v = hi * 65536 + lo) by (subst hi lo; pose proof (N.div_mod v 65536); lia).
  generalize dependent (hi / 4096). generalize dependent ((hi / 256) mod 16). generalize dependent ((hi / 16) mod 16). generalize dependent (hi mod 16).
  generalize dependent (lo / 4096). generalize dependent ((lo / 256) mod 16). generalize dependent ((lo / 16) mod 16). generalize dependent (lo mod 16).
  intros. lia.
Qed.

Lemma valid_rune_lt : forall v, valid_rune v = true -> v < 4294967296.
Proof.
  intros v H. unfold valid_rune in H. apply orb_prop in H. destruct H as [H|H].
  - apply N.ltb_lt in H. lia.
  - apply andb_prop in H. destruct H as [_ H]. apply N.leb_le in H. lia.
Qed.

Lemma unq_U_unfold : forall a u r1, byte a = 92 -> byte u = 85 ->
  unq 0 (String a (String u r1)) =
  match r1 with
  | String h1 (String h2 (String h3 (String h4 (String h5 (String h6 (String h7 (String h8 r2))))))) =>
    match hexN [h1; h2; h3; h4; h5; h6; h7; h8] with
    | Some v => if valid_rune v then oapp (utf8_encode v) (unq 0 r2) else None
    | None => None
    end
  | _ => None
  end.
Proof.
  intros a u r1 Ha Hu. cbn [unq]. rewrite Ha. change (92 =? 34) with false. change (92 =? 10) with false. change (92 =? 92) with true. cbv iota.
  rewrite Hu. change (simple_escape 85) with (@None N). cbv iota. change (85 =? 120) with false. change (85 =? 117) with false. change (85 =? 85) with true. cbv iota.
  reflexivity.
Qed.

Lemma unq_u8 : forall a u v r, byte a = 92 -> byte u = 85 -> valid_rune v = true ->
  unq 0 (String a (String u (hex4_text (v / 65536) (hex4_text (v mod 65536) r)))) = oapp (utf8_encode v) (unq 0 r).
Proof.
  intros a u v r Ha Hu Hr. rewrite (unq_U_unfold a u _ Ha Hu). unfold hex4_text. cbv iota.
  rewrite (hexN8 v (valid_rune_lt v Hr)), Hr. reflexivity.
Qed.

Lemma unq_skip : forall t rest, unq (String.length t) (t ++ rest) = oapp t (unq 0 rest).
Proof.
  induction t as [|a t IH]; intro rest.
  - cbn. destruct (unq 0 rest); reflexivity.
  - cbn [String.length append unq]. rewrite IH. destruct (unq 0 rest); reflexivity.
Qed.

Ltac brk := repeat match goal with |- context [if ?c then _ else _] => destruct c eqn:? end.

Lemma rune_width_app : forall b t rest, (0 < String.length t)%nat -> rune_width b t = S (String.length t) -> rune_width b (t ++ rest) = S (String.length t).
Proof.
  intros b t rest Hl H.
  destruct t as [|a1 [|a2 [|a3 [|a4 t4]]]].
  - cbn in Hl. lia.
  - revert H. unfold rune_width, nth_byte. cbn [String.get append String.length]. brk; intro H; try discriminate H; try reflexivity.
  - revert H. unfold rune_width, nth_byte. cbn [String.get append String.length]. brk; intro H; try discriminate H; try reflexivity.
  - revert H. unfold rune_width, nth_byte. cbn [String.get append String.length]. brk; intro H; try discriminate H; try reflexivity.
  - exfalso. revert H. unfold rune_width. cbn [String.length]. brk; intro H; try discriminate H; lia.
Qed.

Lemma unq_rune : forall a t rest, 128 <= byte a -> (0 < String.length t)%nat -> rune_width (byte a) t = S (String.length t) ->
  unq 0 (String a (t ++ rest)) = oapp (String a t) (unq 0 rest).
Proof.
  intros a t rest Ha Hl Hw. cbn [unq].
  assert (E1 : byte a =? 34 = false) by (apply N.eqb_neq; lia).
  assert (E2 : byte a =? 10 = false) by (apply N.eqb_neq; lia).
  assert (E3 : byte a =? 92 = false) by (apply N.eqb_neq; lia).
  assert (E4 : byte a <? 128 = false) by (apply N.ltb_ge; lia).
  rewrite E1, E2, E3, E4, (rune_width_app _ _ rest Hl Hw).
  destruct (String.length t) as [|k] eqn:El; [lia|].
  rewrite <- El, unq_skip. destruct (unq 0 rest); reflexivity.
Qed.

Lemma append_assoc : forall a b c : string, ((a ++ b) ++ c = a ++ (b ++ c))%string.
Proof. induction a as [|x a IH]; intros; cbn; [reflexivity | rewrite IH; reflexivity]. Qed.

Definition QUOTE : ascii := """"%char.
Lemma byte_QUOTE : byte QUOTE = 34. Proof. reflexivity. Qed.

Lemma simple_escape_lt : forall b v, simple_escape b = Some v -> v < 256.
Proof. intros b v. unfold simple_escape. brk; intro H; inversion H; lia. Qed.

Lemma qel_unq : forall e rest, qel_ok e = true -> unq 0 (qel_text e ++ rest) = oapp (qel_value e) (unq 0 rest).
Proof.
  intros e rest H. destruct e as [a|s|c|b|b|v|v]; cbn [qel_ok qel_text qel_value] in *.
  - apply andb_prop in H. destruct H as [H H4]. apply andb_prop in H. destruct H as [H H3]. apply andb_prop in H. destruct H as [H1 H2].
    cbn [append]. rewrite unq_plain; try assumption; try (apply negb_true_iff; assumption).
    destruct (unq 0 rest); reflexivity.
  - destruct s as [|a t]; [discriminate H|].
    apply andb_prop in H. destruct H as [H H4]. apply andb_prop in H. destruct H as [H H3]. apply andb_prop in H. destruct H as [H1 H2].
    cbn [append]. apply unq_rune.
    + apply N.leb_le. exact H1.
    + apply Nat.ltb_lt. exact H2.
    + apply Nat.eqb_eq. exact H3.
  - destruct (simple_escape (byte c)) as [v|] eqn:E; [|discriminate H].
    cbn [append]. rewrite (unq_simple _ c _ v); [|reflexivity|exact E]. destruct (unq 0 rest); reflexivity.
  - cbn [append]. rewrite unq_hex; [|reflexivity|reflexivity|apply N.ltb_lt; exact H]. destruct (unq 0 rest); reflexivity.
  - cbn [append]. rewrite unq_oct; [|reflexivity|apply N.ltb_lt; exact H]. destruct (unq 0 rest); reflexivity.
  - apply andb_prop in H. destruct H as [Hr Hv]. apply N.ltb_lt in Hv.
    cbn [append]. rewrite unq_u4; [|reflexivity|reflexivity|exact Hv|exact Hr]. reflexivity.
  - unfold hex4_text. cbn [append]. fold (hex4_text (v mod 65536) rest). fold (hex4_text (v / 65536) (hex4_text (v mod 65536) rest)).
    rewrite unq_u8; [|reflexivity|reflexivity|exact H]. reflexivity.
Qed.

Lemma oapp_app : forall p q o, oapp p (oapp q o) = oapp (p ++ q)%string o.
Proof. intros p q [s|]; cbn; [rewrite append_assoc; reflexivity|reflexivity]. Qed.

Lemma unq_quoted_gen : forall els, forallb qel_ok els = true ->
  unq 0 (quoted_text els ++ String QUOTE EmptyString) = Some (quoted_value els).
Proof.
  induction els as [|e els IH]; intro H.
  - reflexivity.
  - cbn [forallb] in H. apply andb_prop in H. destruct H as [He Hr].
    unfold quoted_text, quoted_value in *. cbn [map sconcat fold_right]. rewrite append_assoc.
    rewrite (qel_unq e _ He). fold (sconcat (map qel_text els)). unfold sconcat in IH. unfold sconcat. rewrite (IH Hr). reflexivity.
Qed.

(* ---------- scan_str: where the token ends *)
Definition tapp (p : string) (x : string * string) : string * string := ((p ++ fst x)%string, snd x).
Lemma tcons_tapp : forall a p x, tcons a (tapp p x) = tapp (String a p) x.
Proof. reflexivity. Qed.
Lemma tapp_tapp : forall p q x, tapp p (tapp q x) = tapp (p ++ q)%string x.
Proof. intros p q [t r]. unfold tapp. cbn. rewrite append_assoc. reflexivity. Qed.
Lemma tapp_nil : forall x, tapp EmptyString x = x.
Proof. intros [t r]. reflexivity. Qed.

Lemma scan_SD0 : forall b s, scan_str (SD b 0) s = scan_str SS s.
Proof. intros b [|a r]; reflexivity. Qed.

Lemma scan_unfold : forall st a r, scan_str st (String a r) =
    let b := byte a in
    let plain :=
      if (b =? 34) || (b =? 10) then (String a EmptyString, r)
      else if b =? 92 then tcons a (scan_str SE r)
      else tcons a (scan_str SS r) in
    match st with
    | SS => plain
    | SE =>
      match simple_escape b with
      | Some _ => tcons a (scan_str SS r)
      | None =>
        if inr 48 55 b then tcons a (scan_str (SD 8 2) r)
        else if b =? 120 then tcons a (scan_str (SD 16 2) r)
        else if b =? 117 then tcons a (scan_str (SD 16 4) r)
        else if b =? 85 then tcons a (scan_str (SD 16 8) r)
        else plain
      end
    | SD base (S k) => if digit_val b <? base then tcons a (scan_str (SD base k) r) else plain
    | SD _ O => plain
    end.
Proof. reflexivity. Qed.

Lemma scan_plain : forall a r, byte a =? 34 = false -> byte a =? 10 = false -> byte a =? 92 = false ->
  scan_str SS (String a r) = tcons a (scan_str SS r).
Proof. intros a r H1 H2 H3. cbn [scan_str]. rewrite H1, H2, H3. reflexivity. Qed.

Lemma scan_high : forall t rest, all_bytes (fun x => 128 <=? x) t = true -> scan_str SS (t ++ rest) = tapp t (scan_str SS rest).
Proof.
  induction t as [|a t IH]; intros rest H.
  - cbn. rewrite tapp_nil. reflexivity.
  - cbn [all_bytes] in H. apply andb_prop in H. destruct H as [Ha Ht]. apply N.leb_le in Ha.
    cbn [append]. rewrite scan_plain; try (apply N.eqb_neq; lia). rewrite (IH rest Ht). apply tcons_tapp.
Qed.

Lemma scan_simple : forall a c r v, byte a = 92 -> simple_escape (byte c) = Some v ->
  scan_str SS (String a (String c r)) = tapp (String a (String c EmptyString)) (scan_str SS r).
Proof.
  intros a c r v Ha Hc. cbn [scan_str]. rewrite Ha. change (92 =? 34) with false. change (92 =? 10) with false. change (92 =? 92) with true.
  cbn [orb]. cbv iota. rewrite Hc. reflexivity.
Qed.

Lemma scan_hex : forall a x h1 h2 r, byte a = 92 -> byte x = 120 -> digit_val (byte h1) <? 16 = true -> digit_val (byte h2) <? 16 = true ->
  scan_str SS (String a (String x (String h1 (String h2 r)))) = tapp (String a (String x (String h1 (String h2 EmptyString)))) (scan_str SS r).
Proof.
  intros a x h1 h2 r Ha Hx H1 H2.
  rewrite (scan_unfold SS a). cbv zeta iota. rewrite Ha. change (92 =? 34) with false. change (92 =? 10) with false. change (92 =? 92) with true.
  cbn [orb]. cbv iota.
  rewrite (scan_unfold SE x). cbv zeta iota. rewrite Hx. change (simple_escape 120) with (@None N). cbv iota.
  change (inr 48 55 120) with false. change (120 =? 120) with true. cbv iota.
  rewrite (scan_unfold (SD 16 2) h1). cbv zeta iota. rewrite H1.
  rewrite (scan_unfold (SD 16 1) h2). cbv zeta iota. rewrite H2.
  rewrite scan_SD0. reflexivity.
Qed.


Lemma scan_oct : forall a c1 c2 c3 r, byte a = 92 -> simple_escape (byte c1) = None -> inr 48 55 (byte c1) = true ->
  digit_val (byte c2) <? 8 = true -> digit_val (byte c3) <? 8 = true ->
  scan_str SS (String a (String c1 (String c2 (String c3 r)))) = tapp (String a (String c1 (String c2 (String c3 EmptyString)))) (scan_str SS r).
Proof.
  intros a c1 c2 c3 r Ha S1 I1 D2 D3.
  rewrite (scan_unfold SS a). cbv zeta iota. rewrite Ha. change (92 =? 34) with false. change (92 =? 10) with false. change (92 =? 92) with true.
  cbn [orb]. cbv iota.
  rewrite (scan_unfold SE c1). cbv zeta iota. rewrite S1, I1.
  rewrite (scan_unfold (SD 8 2) c2). cbv zeta iota. rewrite D2.
  rewrite (scan_unfold (SD 8 1) c3). cbv zeta iota. rewrite D3.
  rewrite scan_SD0. reflexivity.
Qed.

Lemma scan_u4 : forall a u h1 h2 h3 h4 r, byte a = 92 -> byte u = 117 ->
  digit_val (byte h1) <? 16 = true -> digit_val (byte h2) <? 16 = true -> digit_val (byte h3) <? 16 = true -> digit_val (byte h4) <? 16 = true ->
  scan_str SS (String a (String u (String h1 (String h2 (String h3 (String h4 r))))))
  = tapp (String a (String u (String h1 (String h2 (String h3 (String h4 EmptyString)))))) (scan_str SS r).
Proof.
  intros a u h1 h2 h3 h4 r Ha Hu D1 D2 D3 D4.
  rewrite (scan_unfold SS a). cbv zeta iota. rewrite Ha. change (92 =? 34) with false. change (92 =? 10) with false. change (92 =? 92) with true.
  cbn [orb]. cbv iota.
  rewrite (scan_unfold SE u). cbv zeta iota. rewrite Hu. change (simple_escape 117) with (@None N). cbv iota.
  change (inr 48 55 117) with false. change (117 =? 120) with false. change (117 =? 117) with true. cbv iota.
  rewrite (scan_unfold (SD 16 4) h1). cbv zeta iota. rewrite D1.
  rewrite (scan_unfold (SD 16 3) h2). cbv zeta iota. rewrite D2.
  rewrite (scan_unfold (SD 16 2) h3). cbv zeta iota. rewrite D3.
  rewrite (scan_unfold (SD 16 1) h4). cbv zeta iota. rewrite D4.
  rewrite scan_SD0. reflexivity.
Qed.

Lemma scan_u8 : forall a u h1 h2 h3 h4 h5 h6 h7 h8 r, byte a = 92 -> byte u = 85 ->
  digit_val (byte h1) <? 16 = true -> digit_val (byte h2) <? 16 = true -> digit_val (byte h3) <? 16 = true -> digit_val (byte h4) <? 16 = true ->
  digit_val (byte h5) <? 16 = true -> digit_val (byte h6) <? 16 = true -> digit_val (byte h7) <? 16 = true -> digit_val (byte h8) <? 16 = true ->
  scan_str SS (String a (String u (String h1 (String h2 (String h3 (String h4 (String h5 (String h6 (String h7 (String h8 r))))))))))
  = tapp (String a (String u (String h1 (String h2 (String h3 (String h4 (String h5 (String h6 (String h7 (String h8 EmptyString)))))))))) (scan_str SS r).
Proof.
  intros a u h1 h2 h3 h4 h5 h6 h7 h8 r Ha Hu D1 D2 D3 D4 D5 D6 D7 D8.
  rewrite (scan_unfold SS a). cbv zeta iota. rewrite Ha. change (92 =? 34) with false. change (92 =? 10) with false. change (92 =? 92) with true.
  cbn [orb]. cbv iota.
  rewrite (scan_unfold SE u). cbv zeta iota. rewrite Hu. change (simple_escape 85) with (@None N). cbv iota.
  change (inr 48 55 85) with false. change (85 =? 120) with false. change (85 =? 117) with false. change (85 =? 85) with true. cbv iota.
  rewrite (scan_unfold (SD 16 8) h1). cbv zeta iota. rewrite D1.
  rewrite (scan_unfold (SD 16 7) h2). cbv zeta iota. rewrite D2.
  rewrite (scan_unfold (SD 16 6) h3). cbv zeta iota. rewrite D3.
  rewrite (scan_unfold (SD 16 5) h4). cbv zeta iota. rewrite D4.
  rewrite (scan_unfold (SD 16 4) h5). cbv zeta iota. rewrite D5.
  rewrite (scan_unfold (SD 16 3) h6). cbv zeta iota. rewrite D6.
  rewrite (scan_unfold (SD 16 2) h7). cbv zeta iota. rewrite D7.
  rewrite (scan_unfold (SD 16 1) h8). cbv zeta iota. rewrite D8.
  rewrite scan_SD0. reflexivity.
Qed.

Lemma qel_scan : forall e rest, qel_ok e = true -> scan_str SS (qel_text e ++ rest) = tapp (qel_text e) (scan_str SS rest).
Proof.
  intros e rest H. destruct e as [a|s|c|b|b|v|v]; cbn [qel_ok qel_text] in *.
  - apply andb_prop in H. destruct H as [H H4]. apply andb_prop in H. destruct H as [H H3]. apply andb_prop in H. destruct H as [H1 H2].
    cbn [append]. rewrite scan_plain; try (apply negb_true_iff; assumption). reflexivity.
  - destruct s as [|a t]; [discriminate H|].
    apply andb_prop in H. destruct H as [H H4]. apply andb_prop in H. destruct H as [H H3]. apply andb_prop in H. destruct H as [H1 H2].
    apply N.leb_le in H1.
    cbn [append]. rewrite scan_plain; try (apply N.eqb_neq; lia). rewrite (scan_high t rest H4). apply tcons_tapp.
  - destruct (simple_escape (byte c)) as [v|] eqn:E; [|discriminate H].
    cbn [append]. apply (scan_simple _ c _ v); [reflexivity|exact E].
  - apply N.ltb_lt in H. cbn [append]. apply scan_hex; try reflexivity; apply digit_val_hexdigit.
    + apply N.div_lt_upper_bound; lia.
    + apply N.mod_lt; lia.
  - apply N.ltb_lt in H. cbn [append].
    assert (H1 : b / 64 < 8) by (apply N.div_lt_upper_bound; lia).
    assert (H2 : (b / 8) mod 8 < 8) by (apply N.mod_lt; lia).
    assert (H3 : b mod 8 < 8) by (apply N.mod_lt; lia).
    destruct (octdigit_facts _ H1) as [S1 [_ [_ [_ [_ [I1 _]]]]]].
    destruct (octdigit_facts _ H2) as [_ [_ [_ [_ [_ [_ D2]]]]]].
    destruct (octdigit_facts _ H3) as [_ [_ [_ [_ [_ [_ D3]]]]]].
    apply scan_oct; try assumption; reflexivity.
  - apply andb_prop in H. destruct H as [_ Hv]. apply N.ltb_lt in Hv. cbn [append].
    apply scan_u4; try reflexivity; apply digit_val_hexdigit.
    + apply N.div_lt_upper_bound; lia.
    + apply N.mod_lt; lia.
    + apply N.mod_lt; lia.
    + apply N.mod_lt; lia.
  - pose proof (valid_rune_lt v H) as Hv.
    assert (Hhi : v / 65536 < 65536) by (apply N.div_lt_upper_bound; lia).
    assert (Hlo : v mod 65536 < 65536) by (apply N.mod_lt; lia).
    unfold hex4_text. cbn [append].
    apply scan_u8; try reflexivity; apply digit_val_hexdigit;
      try (apply N.mod_lt; lia); apply N.div_lt_upper_bound; lia.
Qed.

Lemma scan_quoted : forall els rest, forallb qel_ok els = true ->
  scan_str SS (quoted_text els ++ String QUOTE rest) = ((quoted_text els ++ String QUOTE EmptyString)%string, rest).
Proof.
  induction els as [|e els IH]; intros rest H.
  - reflexivity.
  - cbn [forallb] in H. apply andb_prop in H. destruct H as [He Hr].
    unfold quoted_text in *. cbn [map sconcat fold_right]. fold (sconcat (map qel_text els)). rewrite !append_assoc.
    rewrite (qel_scan e _ He). rewrite (IH rest Hr). reflexivity.
Qed.

(* ---------- tokens *)
Lemma alpha_facts : forall b, is_alpha_ b = true -> b <? 128 = true /\ is_ws b = false /\ b =? 47 = false /\ b =? 34 = false.
Proof.
  intros b H. unfold is_alpha_, inr in H. unfold is_ws.
  rewrite !orb_true_iff, !andb_true_iff, !N.leb_le, N.eqb_eq in H.
  repeat split; try (apply N.ltb_lt; lia); try (apply N.eqb_neq; lia).
  rewrite !orb_false_iff, !N.eqb_neq. lia.
Qed.
Lemma digit_facts : forall b, is_digit b = true -> b <? 128 = true.
Proof. intros b H. unfold is_digit, inr in H. rewrite andb_true_iff, !N.leb_le in H. apply N.ltb_lt. lia. Qed.

Lemma skip_blank_ws : forall blank s, all_bytes is_ws blank = true -> skip_blank BM0 (blank ++ s) = skip_blank BM0 s.
Proof.
  induction blank as [|a r IH]; intros s H; [reflexivity|].
  cbn [all_bytes] in H. apply andb_prop in H. destruct H as [Ha Hr].
  cbn [append skip_blank]. rewrite Ha. apply IH. exact Hr.
Qed.
Lemma skip_blank_token : forall a r, is_ws (byte a) = false -> byte a =? 47 = false -> skip_blank BM0 (String a r) = String a r.
Proof. intros a r H1 H2. cbn [skip_blank]. rewrite H1, H2. reflexivity. Qed.

Lemma substring_app : forall s t, substring 0 (String.length s) (s ++ t) = s.
Proof. induction s as [|a s IH]; intro t; cbn; [destruct t; reflexivity | rewrite IH; reflexivity]. Qed.
Lemma sdrop_app : forall s t, sdrop (String.length s) (s ++ t) = t.
Proof. induction s as [|a s IH]; intro t; cbn; [reflexivity | apply IH]. Qed.

Section TOK.
  Variable uletter udigit : string -> bool.

  (* an ASCII byte that cannot go on an identifier *)
  Definition stops_ident (c : ascii) : bool := (byte c <? 128) && negb (is_alpha_ (byte c)) && negb (is_digit (byte c)).

  Lemma ident_len_tail : forall s c t, all_bytes (fun b => is_alpha_ b || is_digit b) s = true -> stops_ident c = true ->
    ident_len uletter udigit 0 false (s ++ String c t) = String.length s.
  Proof.
    induction s as [|a s IH]; intros c t H Hc.
    - cbn [append ident_len String.length]. unfold stops_ident in Hc. apply andb_prop in Hc. destruct Hc as [Hc H3]. apply andb_prop in Hc. destruct Hc as [H1 H2].
      rewrite H1. apply negb_true_iff in H2, H3. rewrite H2, H3. reflexivity.
    - cbn [all_bytes] in H. apply andb_prop in H. destruct H as [Ha Hs].
      cbn [append ident_len String.length].
      assert (L : byte a <? 128 = true).
      { apply orb_prop in Ha. destruct Ha as [Ha|Ha]; [apply (alpha_facts _ Ha) | apply (digit_facts _ Ha)]. }
      rewrite L. cbn [negb andb]. rewrite Ha. rewrite (IH c t Hs Hc). reflexivity.
  Qed.

  Lemma next_tok_name : forall name c t, label_name_ok name = true -> stops_ident c = true ->
    next_tok uletter udigit (name ++ String c t) = (TIdent name, String c t).
  Proof.
    intros name c t H Hc. destruct name as [|a s]; [discriminate H|].
    cbn [label_name_ok] in H. apply andb_prop in H. destruct H as [Ha Hs].
    destruct (alpha_facts _ Ha) as [L [W [S1 Q]]].
    unfold next_tok. cbn [append]. rewrite (skip_blank_token a _ W S1). rewrite Q.
    cbn [ident_len]. rewrite L, Ha. cbn [orb]. rewrite (ident_len_tail s c t Hs Hc).
    change (String a (s ++ String c t)) with ((String a s) ++ String c t)%string.
    change (S (String.length s)) with (String.length (String a s)).
    rewrite substring_app, sdrop_app. reflexivity.
  Qed.

  Lemma next_tok_ws : forall blank s, all_bytes is_ws blank = true -> next_tok uletter udigit (blank ++ s) = next_tok uletter udigit s.
  Proof. intros blank s H. unfold next_tok. rewrite (skip_blank_ws blank s H). reflexivity. Qed.

  Lemma next_tok_punct : forall a r, is_punct (byte a) = true -> next_tok uletter udigit (String a r) = (TCh (byte a), r).
  Proof.
    intros a r H. unfold is_punct in H.
    assert (E : byte a = 123 \/ byte a = 125 \/ byte a = 61 \/ byte a = 44).
    { rewrite !orb_true_iff, !N.eqb_eq in H. tauto. }
    unfold next_tok.
    assert (W : is_ws (byte a) = false) by (unfold is_ws; rewrite !orb_false_iff, !N.eqb_neq; lia).
    assert (S1 : byte a =? 47 = false) by (apply N.eqb_neq; lia).
    assert (Q : byte a =? 34 = false) by (apply N.eqb_neq; lia).
    rewrite (skip_blank_token a r W S1), Q. cbn [ident_len].
    assert (L : byte a <? 128 = true) by (apply N.ltb_lt; lia).
    assert (A : is_alpha_ (byte a) = false).
    { unfold is_alpha_, inr. rewrite !orb_false_iff, !andb_false_iff, !N.leb_gt, N.eqb_neq. lia. }
    rewrite L, A. cbn [orb negb andb]. unfold is_punct. rewrite H. reflexivity.
  Qed.

  Lemma next_tok_string : forall q els rest, byte q = 34 -> forallb qel_ok els = true ->
    next_tok uletter udigit (String q (quoted_text els ++ String QUOTE rest)) = (TStr (quoted_text els ++ String QUOTE EmptyString), rest).
  Proof.
    intros q els rest Hq H. unfold next_tok.
    assert (W : is_ws (byte q) = false) by (rewrite Hq; reflexivity).
    assert (S1 : byte q =? 47 = false) by (rewrite Hq; reflexivity).
    rewrite (skip_blank_token q _ W S1). rewrite Hq. change (34 =? 34) with true. cbv iota.
    rewrite (scan_quoted els rest H). reflexivity.
  Qed.
End TOK.

Section ROUNDTRIP.
  Variable uletter udigit : string -> bool.
  Notation next_tok' := (next_tok uletter udigit).
  Notation parse_pairs' := (parse_pairs uletter udigit).

  Definition EQ : ascii := "="%char.
  Definition COMMA : ascii := ","%char.
  Definition LBRACE : ascii := "{"%char.
  Definition RBRACE : ascii := "}"%char.

  Lemma print_pair_app : forall l t,
    (print_pair l ++ t)%string = (fst l ++ String EQ (String QUOTE (quoted_text (snd l) ++ String QUOTE t)))%string.
  Proof. intros [n els] t. unfold print_pair. cbn [fst snd]. rewrite append_assoc. cbn [append]. rewrite append_assoc. reflexivity. Qed.

  Lemma parse_pair_step : forall f name els tail buf, label_name_ok name = true -> forallb qel_ok els = true ->
    parse_pairs' (S f) (name ++ String EQ (String QUOTE (quoted_text els ++ String QUOTE tail))) buf =
    match next_tok' tail with
    | (TCh c, s4) => if c =? 125 then Some (buf ++ [(name, quoted_value els)])%list
                     else if c =? 44 then parse_pairs' f s4 (buf ++ [(name, quoted_value els)])%list else None
    | _ => None
    end.
  Proof.
    intros f name els tail buf Hn He. cbn [parse_pairs].
    rewrite (next_tok_name uletter udigit name EQ _ Hn eq_refl).
    rewrite (next_tok_punct uletter udigit EQ _ eq_refl). change (byte EQ =? 61) with true. cbv iota.
    rewrite (next_tok_string uletter udigit QUOTE els tail eq_refl He).
    rewrite (unq_quoted_gen els He). reflexivity.
  Qed.

  Lemma parse_pairs_ws : forall f blank s buf, all_bytes is_ws blank = true -> parse_pairs' f (blank ++ s) buf = parse_pairs' f s buf.
  Proof. intros [|f] blank s buf H; [reflexivity|]. cbn [parse_pairs]. rewrite (next_tok_ws uletter udigit blank s H). reflexivity. Qed.

  Lemma parse_pairs_print : forall blank rest ls f buf, all_bytes is_ws blank = true -> ls <> [] -> forallb pair_ok ls = true ->
    (List.length ls <= f)%nat ->
    parse_pairs' f (print_pairs blank ls ++ String RBRACE rest) buf = Some (buf ++ labels_written ls)%list.
  Proof.
    intros blank rest. induction ls as [|l r IH]; intros f buf Hb Hne Hok Hf; [congruence|].
    cbn [forallb] in Hok. apply andb_prop in Hok. destruct Hok as [Hl Hr].
    unfold pair_ok in Hl. apply andb_prop in Hl. destruct Hl as [Hn He].
    destruct f as [|f]; [cbn in Hf; lia|].
    destruct r as [|l2 r2].
    - cbn [print_pairs]. rewrite print_pair_app. rewrite (parse_pair_step f _ _ _ buf Hn He).
      rewrite (next_tok_punct uletter udigit RBRACE rest eq_refl). change (byte RBRACE =? 125) with true. reflexivity.
    - change (print_pairs blank (l :: l2 :: r2)) with (print_pair l ++ String COMMA (blank ++ print_pairs blank (l2 :: r2)))%string.
      rewrite append_assoc. rewrite print_pair_app. rewrite (parse_pair_step f _ _ _ buf Hn He).
      cbn [append]. rewrite (next_tok_punct uletter udigit COMMA _ eq_refl). change (byte COMMA =? 125) with false. change (byte COMMA =? 44) with true. cbv iota.
      rewrite append_assoc. rewrite (parse_pairs_ws f blank _ _ Hb).
      rewrite IH; [|exact Hb|discriminate|exact Hr|cbn [List.length] in *; lia].
      cbn [labels_written map]. rewrite <- app_assoc. reflexivity.
  Qed.
End ROUNDTRIP.

Lemma length_append : forall a b : string, String.length (a ++ b) = (String.length a + String.length b)%nat.
Proof. induction a as [|x a IH]; intro b; cbn; [reflexivity | rewrite IH; reflexivity]. Qed.

Lemma print_pairs_length : forall blank ls, (List.length ls <= String.length (print_pairs blank ls))%nat.
Proof.
  intros blank. induction ls as [|l r IH]; [cbn; lia|].
  destruct r as [|l2 r2].
  - cbn [print_pairs List.length]. unfold print_pair. rewrite length_append. cbn [String.length]. lia.
  - change (print_pairs blank (l :: l2 :: r2)) with (print_pair l ++ String COMMA (blank ++ print_pairs blank (l2 :: r2)))%string.
    rewrite length_append. cbn [String.length]. rewrite length_append. cbn [List.length] in *. lia.
Qed.

Lemma strip_bom_brace : forall x, strip_bom (String LBRACE x) = String LBRACE x.
Proof. intros [|b [|c r]]; reflexivity. Qed.

Section MAIN.
  Variable uletter udigit : string -> bool.

  Lemma parse_print_roundtrip_l : forall blank ls rest buf,
    all_bytes is_ws blank = true -> ls <> [] -> forallb pair_ok ls = true ->
    parse_labels uletter udigit (print_labels blank ls ++ rest) buf = Some (buf ++ labels_written ls)%list.
  Proof.
    intros blank ls rest buf Hb Hne Hok. unfold parse_labels, print_labels. cbn [append].
    rewrite strip_bom_brace. rewrite (next_tok_punct uletter udigit LBRACE _ eq_refl). change (byte LBRACE =? 123) with true. cbv iota.
    rewrite append_assoc. cbn [append]. apply parse_pairs_print; try assumption.
    cbn [String.length]. rewrite length_append. pose proof (print_pairs_length blank ls). lia.
  Qed.

  Lemma parse_pairs_extends : forall f s buf out, parse_pairs uletter udigit f s buf = Some out -> exists new, out = (buf ++ new)%list /\ new <> [].
  Proof.
    induction f as [|f IH]; intros s buf out H; [discriminate H|].
    cbn [parse_pairs] in H.
    destruct (next_tok uletter udigit s) as [[| name | | |] s1]; try discriminate H.
    destruct (next_tok uletter udigit s1) as [[| | | b |] s2]; try discriminate H.
    destruct (b =? 61); [|discriminate H].
    destruct (next_tok uletter udigit s2) as [[| | text | |] s3]; try discriminate H.
    destruct (unq 0 text) as [v|]; [|discriminate H].
    destruct (next_tok uletter udigit s3) as [[| | | c |] s4]; try discriminate H.
    destruct (c =? 125).
    - inversion H. exists [(name, v)]. split; [reflexivity|discriminate].
    - destruct (c =? 44); [|discriminate H].
      destruct (IH _ _ _ H) as [new [E _]]. exists ((name, v) :: new). split; [|discriminate].
      rewrite E, <- app_assoc. reflexivity.
  Qed.

  Lemma parse_labels_extends : forall text buf out, parse_labels uletter udigit text buf = Some out -> exists new, out = (buf ++ new)%list /\ new <> [].
  Proof.
    intros text buf out H. unfold parse_labels in H.
    destruct (next_tok uletter udigit (strip_bom text)) as [[| | | b |] s1]; try discriminate H.
    destruct (b =? 123); [|discriminate H]. exact (parse_pairs_extends _ _ _ _ H).
  Qed.
End MAIN.

Section PB.
  Variable uletter udigit : string -> bool.

  Lemma written_texts_distinguish_l : forall blank1 blank2 ls1 ls2,
    all_bytes is_ws blank1 = true -> all_bytes is_ws blank2 = true -> ls1 <> [] -> ls2 <> [] ->
    forallb pair_ok ls1 = true -> forallb pair_ok ls2 = true ->
    print_labels blank1 ls1 = print_labels blank2 ls2 -> labels_written ls1 = labels_written ls2.
  Proof.
    intros b1 b2 ls1 ls2 Hb1 Hb2 N1 N2 O1 O2 E.
    pose proof (parse_print_roundtrip_l uletter udigit b1 ls1 EmptyString [] Hb1 N1 O1) as R1.
    pose proof (parse_print_roundtrip_l uletter udigit b2 ls2 EmptyString [] Hb2 N2 O2) as R2.
    rewrite E in R1. rewrite R1 in R2. inversion R2. reflexivity.
  Qed.

  Lemma pb_texts_read_back : forall blank (ws : list (list (string * list qel) * list lentry)),
    all_bytes is_ws blank = true -> forallb wstream_ok ws = true ->
    pb_streams_of_texts uletter udigit (map (fun s => (print_labels blank (fst s), snd s)) ws) =
    Some (map (fun s => LS (labels_written (fst s)) (snd s)) ws).
  Proof.
    intros blank ws Hb. induction ws as [|s r IH]; intro H; [reflexivity|].
    cbn [forallb] in H. apply andb_prop in H. destruct H as [Hs Hr].
    unfold wstream_ok in Hs. apply andb_prop in Hs. destruct Hs as [Hn Ho].
    cbn [map pb_streams_of_texts fst snd].
    assert (Hne : fst s <> []) by (destruct (fst s); [discriminate Hn | discriminate]).
    pose proof (parse_print_roundtrip_l uletter udigit blank (fst s) EmptyString [] Hb Hne Ho) as R.
    assert (E : (print_labels blank (fst s) ++ EmptyString)%string = print_labels blank (fst s)).
    { generalize (print_labels blank (fst s)). induction s0; cbn; [reflexivity | rewrite IHs0; reflexivity]. }
    rewrite E in R. rewrite R. rewrite (IH Hr). reflexivity.
  Qed.
End PB.

(* ---------------------------------------------------------------- label names beyond ASCII *)
Lemma substring_prefix : forall n r x, (n <= String.length r)%nat -> substring 0 n (r ++ x) = substring 0 n r.
Proof.
  induction n as [|n IH]; intros r x H.
  - destruct r; destruct x; reflexivity.
  - destruct r as [|a r]; [cbn in H; lia|]. cbn [append substring]. rewrite IH; [reflexivity|cbn in H; lia].
Qed.
Lemma substring_sdrop : forall n r, (n <= String.length r)%nat -> (substring 0 n r ++ sdrop n r)%string = r.
Proof.
  induction n as [|n IH]; intros r H.
  - destruct r; reflexivity.
  - destruct r as [|a r]; [cbn in H; lia|]. cbn [substring sdrop append]. rewrite IH; [reflexivity|cbn in H; lia].
Qed.
Lemma substring_length : forall n r, (n <= String.length r)%nat -> String.length (substring 0 n r) = n.
Proof.
  induction n as [|n IH]; intros r H.
  - destruct r; reflexivity.
  - destruct r as [|a r]; [cbn in H; lia|]. cbn [substring String.length]. rewrite IH; [reflexivity|cbn in H; lia].
Qed.

Section UNAMES.
  Variable uletter udigit : string -> bool.

  Lemma name_scan_len : forall r k f, name_scan uletter udigit k f r = true -> (k <= String.length r)%nat.
  Proof.
    induction r as [|a r IH]; intros k f H.
    - cbn in H. apply Nat.eqb_eq in H. subst. cbn. lia.
    - destruct k as [|k]; [lia|]. cbn [name_scan] in H. specialize (IH k false H). cbn [String.length]. lia.
  Qed.

  Lemma ident_len_scan : forall s skip first c t, name_scan uletter udigit skip first s = true -> stops_ident c = true ->
    ident_len uletter udigit skip first (s ++ String c t) = String.length s.
  Proof.
    induction s as [|a r IH]; intros skip first c t H Hc.
    - cbn in H. apply Nat.eqb_eq in H. subst skip. cbn [append ident_len String.length].
      unfold stops_ident in Hc. apply andb_prop in Hc. destruct Hc as [Hc H3]. apply andb_prop in Hc. destruct Hc as [H1 H2].
      rewrite H1. apply negb_true_iff in H2, H3. rewrite H2, H3. rewrite andb_false_r. reflexivity.
    - destruct skip as [|k].
      + cbn [name_scan] in H. cbn [append ident_len String.length].
        destruct (byte a <? 128) eqn:L.
        * apply andb_prop in H. destruct H as [Hk Hr]. rewrite Hk. rewrite (IH 0%nat false c t Hr Hc). reflexivity.
        * destruct (rune_width (byte a) r) as [|[|k]] eqn:W; try discriminate H.
          apply andb_prop in H. destruct H as [H Hr]. apply andb_prop in H. destruct H as [Hw Hl]. apply Nat.eqb_eq in Hw.
          pose proof (name_scan_len _ _ _ Hr) as Hlen.
          assert (W' : rune_width (byte a) (r ++ String c t) = S (S k)).
          { rewrite <- (substring_sdrop (S k) r Hlen). rewrite append_assoc.
            pose proof (substring_length (S k) r Hlen) as SL.
            rewrite (rune_width_app (byte a) (substring 0 (S k) r) _); rewrite SL; [reflexivity|lia|exact Hw]. }
          rewrite W'. rewrite (substring_prefix (S k) r _ Hlen). rewrite Hl.
          rewrite (IH (S k) false c t Hr Hc). reflexivity.
      + cbn [name_scan] in H. cbn [append ident_len String.length]. rewrite (IH k false c t H Hc). reflexivity.
  Qed.

  Lemma next_tok_uname : forall name c t, uname_ok uletter udigit name = true -> stops_ident c = true ->
    next_tok uletter udigit (name ++ String c t) = (TIdent name, String c t).
  Proof.
    intros name c t H Hc. destruct name as [|a s]; [discriminate H|]. unfold uname_ok in H.
    pose proof (ident_len_scan (String a s) 0%nat true c t H Hc) as IL.
    assert (Hb : is_ws (byte a) = false /\ (byte a =? 47) = false /\ (byte a =? 34) = false).
    { cbn [name_scan] in H. destruct (byte a <? 128) eqn:L.
      - apply andb_prop in H. destruct H as [Hk _]. cbn [negb andb] in Hk. rewrite orb_false_r in Hk.
        destruct (alpha_facts _ Hk) as [_ [W [S1 Q]]]. tauto.
      - apply N.ltb_ge in L. unfold is_ws. rewrite !orb_false_iff, !N.eqb_neq. lia. }
    destruct Hb as [W [S1 Q]].
    unfold next_tok. cbn [append]. rewrite (skip_blank_token a _ W S1). rewrite Q.
    change (String a (s ++ String c t)) with ((String a s) ++ String c t)%string. rewrite IL.
    cbn [String.length]. change (S (String.length s)) with (String.length (String a s)).
    rewrite substring_app, sdrop_app. reflexivity.
  Qed.

  Notation next_tok' := (next_tok uletter udigit).
  Notation parse_pairs' := (parse_pairs uletter udigit).

  Lemma parse_pair_step_u : forall f name els tail buf, uname_ok uletter udigit name = true -> forallb qel_ok els = true ->
    parse_pairs' (S f) (name ++ String EQ (String QUOTE (quoted_text els ++ String QUOTE tail))) buf =
    match next_tok' tail with
    | (TCh c, s4) => if c =? 125 then Some (buf ++ [(name, quoted_value els)])%list
                     else if c =? 44 then parse_pairs' f s4 (buf ++ [(name, quoted_value els)])%list else None
    | _ => None
    end.
  Proof.
    intros f name els tail buf Hn He. cbn [parse_pairs].
    rewrite (next_tok_uname name EQ _ Hn eq_refl).
    rewrite (next_tok_punct uletter udigit EQ _ eq_refl). change (byte EQ =? 61) with true. cbv iota.
    rewrite (next_tok_string uletter udigit QUOTE els tail eq_refl He).
    rewrite (unq_quoted_gen els He). reflexivity.
  Qed.

  Lemma parse_pairs_print_u : forall blank rest ls f buf, all_bytes is_ws blank = true -> ls <> [] -> forallb (upair_ok uletter udigit) ls = true ->
    (List.length ls <= f)%nat ->
    parse_pairs' f (print_pairs blank ls ++ String RBRACE rest) buf = Some (buf ++ labels_written ls)%list.
  Proof.
    intros blank rest. induction ls as [|l r IH]; intros f buf Hb Hne Hok Hf; [congruence|].
    cbn [forallb] in Hok. apply andb_prop in Hok. destruct Hok as [Hl Hr].
    unfold upair_ok in Hl. apply andb_prop in Hl. destruct Hl as [Hn He].
    destruct f as [|f]; [cbn in Hf; lia|].
    destruct r as [|l2 r2].
    - cbn [print_pairs]. rewrite print_pair_app. rewrite (parse_pair_step_u f _ _ _ buf Hn He).
      rewrite (next_tok_punct uletter udigit RBRACE rest eq_refl). change (byte RBRACE =? 125) with true. reflexivity.
    - change (print_pairs blank (l :: l2 :: r2)) with (print_pair l ++ String COMMA (blank ++ print_pairs blank (l2 :: r2)))%string.
      rewrite append_assoc. rewrite print_pair_app. rewrite (parse_pair_step_u f _ _ _ buf Hn He).
      cbn [append]. rewrite (next_tok_punct uletter udigit COMMA _ eq_refl). change (byte COMMA =? 125) with false. change (byte COMMA =? 44) with true. cbv iota.
      rewrite append_assoc. rewrite (parse_pairs_ws uletter udigit f blank _ _ Hb).
      rewrite IH; [|exact Hb|discriminate|exact Hr|cbn [List.length] in *; lia].
      cbn [labels_written map]. rewrite <- app_assoc. reflexivity.
  Qed.

  Lemma parse_print_roundtrip_u : forall blank ls rest buf,
    all_bytes is_ws blank = true -> ls <> [] -> forallb (upair_ok uletter udigit) ls = true ->
    parse_labels uletter udigit (print_labels blank ls ++ rest) buf = Some (buf ++ labels_written ls)%list.
  Proof.
    intros blank ls rest buf Hb Hne Hok. unfold parse_labels, print_labels. cbn [append].
    rewrite strip_bom_brace. rewrite (next_tok_punct uletter udigit LBRACE _ eq_refl). change (byte LBRACE =? 123) with true. cbv iota.
    rewrite append_assoc. cbn [append]. apply parse_pairs_print_u; try assumption.
    cbn [String.length]. rewrite length_append. pose proof (print_pairs_length blank ls). lia.
  Qed.

  (* an ASCII name of the Loki syntax is such a name, for every oracle *)
  Lemma ascii_name_scan : forall s, all_bytes (fun b => is_alpha_ b || is_digit b) s = true -> name_scan uletter udigit 0 false s = true.
  Proof.
    induction s as [|a s IH]; intro H; [reflexivity|].
    cbn [all_bytes] in H. apply andb_prop in H. destruct H as [Ha Hs]. cbn [name_scan].
    assert (L : byte a <? 128 = true).
    { apply orb_prop in Ha. destruct Ha as [Ha|Ha]; [apply (alpha_facts _ Ha) | apply (digit_facts _ Ha)]. }
    rewrite L. cbn [negb andb]. rewrite Ha. apply IH. exact Hs.
  Qed.
  Lemma label_name_ok_uname : forall s, label_name_ok s = true -> uname_ok uletter udigit s = true.
  Proof.
    intros [|a s] H; [discriminate H|]. cbn [label_name_ok] in H. apply andb_prop in H. destruct H as [Ha Hs].
    unfold uname_ok. cbn [name_scan]. destruct (alpha_facts _ Ha) as [L _]. rewrite L, Ha. cbn [orb andb]. apply ascii_name_scan. exact Hs.
  Qed.
End UNAMES.
Section UNAMES2.
  Variable uletter udigit : string -> bool.
  Lemma written_texts_distinguish_u : forall blank1 blank2 ls1 ls2,
    all_bytes is_ws blank1 = true -> all_bytes is_ws blank2 = true -> ls1 <> [] -> ls2 <> [] ->
    forallb (upair_ok uletter udigit) ls1 = true -> forallb (upair_ok uletter udigit) ls2 = true ->
    print_labels blank1 ls1 = print_labels blank2 ls2 -> labels_written ls1 = labels_written ls2.
  Proof.
    intros b1 b2 ls1 ls2 Hb1 Hb2 N1 N2 O1 O2 E.
    pose proof (parse_print_roundtrip_u uletter udigit b1 ls1 EmptyString [] Hb1 N1 O1) as R1.
    pose proof (parse_print_roundtrip_u uletter udigit b2 ls2 EmptyString [] Hb2 N2 O2) as R2.
    rewrite E in R1. rewrite R1 in R2. inversion R2. reflexivity.
  Qed.
End UNAMES2.

Section UNAMES3.
  Variable uletter udigit : string -> bool.
  Definition uwstream_ok (s : list (string * list qel) * list lentry) : bool :=
    negb (Nat.eqb (List.length (fst s)) 0) && forallb (upair_ok uletter udigit) (fst s).
  Lemma pb_texts_read_back_u : forall blank (ws : list (list (string * list qel) * list lentry)),
    all_bytes is_ws blank = true -> forallb uwstream_ok ws = true ->
    pb_streams_of_texts uletter udigit (map (fun s => (print_labels blank (fst s), snd s)) ws) =
    Some (map (fun s => LS (labels_written (fst s)) (snd s)) ws).
  Proof.
    intros blank ws Hb. induction ws as [|s r IH]; intro H; [reflexivity|].
    cbn [forallb] in H. apply andb_prop in H. destruct H as [Hs Hr].
    unfold uwstream_ok in Hs. apply andb_prop in Hs. destruct Hs as [Hn Ho].
    cbn [map pb_streams_of_texts fst snd].
    assert (Hne : fst s <> []) by (destruct (fst s); [discriminate Hn | discriminate]).
    pose proof (parse_print_roundtrip_u uletter udigit blank (fst s) EmptyString [] Hb Hne Ho) as R.
    assert (E : (print_labels blank (fst s) ++ EmptyString)%string = print_labels blank (fst s)).
    { generalize (print_labels blank (fst s)). induction s0; cbn; [reflexivity | rewrite IHs0; reflexivity]. }
    rewrite E in R. rewrite R. rewrite (IH Hr). reflexivity.
  Qed.
End UNAMES3.
