(* Property C11: the hypotheses of the theorems of props/C11.v are met by concrete, non-trivial values;
   and the two places where the statement would be false without its guard. *)
From Coq Require Import List NArith ZArith QArith Bool String.
From Qryn Require Import model.TqSql model.Traceql model.TraceqlPlan model.TraceqlSem model.TraceqlCase
     proofs.TraceqlAnalyzeProofs proofs.TraceqlEvalProofs proofs.TraceqlSelectorProofs
     model.TraceqlPortions proofs.TraceqlPortionsProofs proofs.TraceqlIndexSearchProofs proofs.TraceqlCorrectProofs proofs.TraceqlAggProofs
     proofs.TraceqlChainSem proofs.TraceqlChainProofs proofs.TraceqlChainPlan.
From Coq Require Import Sorted Lia.
Import ListNotations.
Open Scope string_scope.

Definition vstr (quoted unq : string) : Traceql.value :=
  {| v_time := ""; v_f := ""; v_str := Some quoted; v_unq := Some unq; v_ffmt := None; v_dur := None |}.
Definition vnum (f : string) : Traceql.value :=
  {| v_time := ""; v_f := f; v_str := None; v_unq := None; v_ffmt := None; v_dur := None |}.
Definition vdur (t : string) : Traceql.value :=
  {| v_time := t; v_f := ""; v_str := None; v_unq := None; v_ffmt := None; v_dur := None |}.
Definition T (l : string) (o : cmp) (v : Traceql.value) : attr_sel := {| a_label := l; a_op := o; a_val := v |}.

(* { (.a = "b" && duration > 1s) || span.n > 5 || .a = "b" } *)
Definition e0 : attr_exp :=
  AExp (HParen (AExp (HTerm (T ".a" CEq (vstr """b""" "b"))) AOAnd (Some (AExp (HTerm (T "duration" CGt (vdur "1s"))) AONone None))))
       AOOr (Some (AExp (HTerm (T "span.n" CGt (vnum "5"))) AOOr (Some (AExp (HTerm (T ".a" CEq (vstr """b""" "b"))) AONone None)))).
Definition terms0 := fst (snd (analyze_cond e0 ([], []))).
Definition cd0 := fst (analyze_cond e0 ([], [])).
Definition conds0 : list expr := match map_res get_term terms0 with Ok l => l | _ => [] end.
(* the aliases of the statement: its SELECT list and the alias HAVING defines *)
Definition al0 : list (string * expr) :=
  col_aliases (s_cols (init_index {| from_ns := 0; to_ns := 10; from_date := "d"; to_date := "d"; ffd_from := "d"; ffd_to := "d";
                                     limit := 0; is_cluster := false; rf_max := 0; rf_i := 0; cached := [];
                                     attrs_table := "t"; attrs_dist_table := "t"; traces_table := "t"; traces_dist_table := "t"; kv_dist_table := "t" |}))
  ++ having_aliases 40 (having_expr e0 conds0).
Definition R (k v tr sp : string) (ts dur : Z) : irow :=
  {| r_date := "d"; r_key := k; r_val := v; r_trace := tr; r_span := sp; r_ts := ts; r_dur := dur |}.
Definition rows0 : list irow := [R "a" "b" "t1" "s1" 5 2000000000; R "n" "7" "t1" "s1" 5 2000000000; R "zz" "q" "t1" "s1" 5 2000000000].

(* three distinct terms (the repeated .a = "b" shares bit 0), the guard is false (the pre-filter is applied) *)
Example e0_shape : List.length terms0 = 3%nat /\ holds_without_indexed terms0 cd0 = false /\ keys_ok e0 = true
                   /\ map_res get_term terms0 = Ok conds0 /\ forallb term_lit_ok terms0 = true.
Proof. vm_compute. repeat split; reflexivity. Qed.
Example e0_aliases : lookup_alias "key" al0 = None /\ lookup_alias "val" al0 = None /\ lookup_alias "traces_idx.duration" al0 = None
                     /\ lookup_alias "bsCond" al0 = Some (GroupBitOr (BitSet conds0) "").
Proof. vm_compute. repeat split; reflexivity. Qed.
Example e0_rows : uniform_dur rows0 /\ rows0 <> [].
Proof.
  split; [|discriminate]. intros a b Ha Hb. cbn in Ha, Hb.
  destruct Ha as [<-|[<-|[<-|[]]]], Hb as [<-|[<-|[<-|[]]]]; reflexivity.
Qed.
(* and the conclusion, computed: the statement keeps this span, and the expression holds of it *)
Example e0_kept :
  keeps re_toy float_toy hash_toy [] al0 ["trace_id"; "span_id"] e0 "" conds0 true 40 40 rows0 = true
  /\ exp_sem re_toy float_toy true e0 rows0 = true.
Proof. vm_compute. split; reflexivity. Qed.

(* Without the guard of Process the pre-filter loses matches: {duration > 1s || .a = "b"} on a span whose
   only attribute is zz -- the defect repaired by 3ba441e.  holds_without_indexed is true here. *)
Definition e1 : attr_exp :=
  AExp (HTerm (T "duration" CGt (vdur "1s"))) AOOr (Some (AExp (HTerm (T ".a" CEq (vstr """b""" "b"))) AONone None)).
Definition terms1 := fst (snd (analyze_cond e1 ([], []))).
Definition cd1 := fst (analyze_cond e1 ([], [])).
Example prefilter_needs_guard :
  let rows := [R "zz" "q" "t1" "s1" 5 2000000000] in
  holds_without_indexed terms1 cd1 = true
  /\ cond_sem re_toy float_toy true terms1 rows cd1 = true
  /\ filter (prefilter re_toy float_toy true terms1 (fun _ => false)) rows = [].
Proof. vm_compute. repeat split; reflexivity. Qed.

(* A literal with more than six decimals reaches the statement unchanged (before 57651aa FloatVal printed six
   decimals and {.x > 0.0000001} selected like {.x > 0}): the text is 0.0000001, it parses back to the query's
   number, and x = 0.00000005 is not selected under either reading. *)
Definition e2 : attr_exp :=
  AExp (HTerm (T ".x" CGt {| v_time := ""; v_f := "0.0000001"; v_str := None; v_unq := None; v_ffmt := Some "0.0000001"; v_dur := None |})) AONone None.
Example literal_survives :
  let rows := [R "x" "0.00000005" "t1" "s1" 5 1; R "x" "0.0000002" "t1" "s2" 6 1] in
  num_text (a_val (T ".x" CGt (vnum "0.0000001"))) = Some "0.0000001"
  /\ num_text (a_val (T ".x" CGt (vnum "12345.678900"))) = Some "12345.6789"
  /\ num_text (a_val (T ".x" CGt (vnum "-2."))) = Some "-2"
  /\ lits_exact e2 = true
  /\ exp_sem re_toy float_toy true e2 [R "x" "0.00000005" "t1" "s1" 5 1] = false
  /\ exp_sem re_toy float_toy true e2 rows = true /\ exp_sem re_toy float_toy false e2 rows = true.
Proof. vm_compute. repeat split; reflexivity. Qed.

(* portions_fold_topk: a run over two portions, limit 2.  Portion 0 holds pt1 (time 5) and pt3 (time 7), portion 1
   holds pt2 (time 9); after portion 0 the lower bound rises to 5; the second statement sees t2 and the two cached
   winners and returns [t2; t3]. *)
Definition pt1 := {| tid := 1; tkey := 5 |}.
Definition pt2 := {| tid := 2; tkey := 9 |}.
Definition pt3 := {| tid := 4; tkey := 7 |}.
Definition pall := [pt1; pt2; pt3].
Example portions_run : reach pall (fun i => if N.eqb i 2 then 1%N else 0%N) 2 0 2 [pt2; pt3] 7.
Proof.
  assert (Hneq : pt1 <> pt3 /\ pt3 <> pt1 /\ pt2 <> pt3 /\ pt3 <> pt2 /\ pt1 <> pt2 /\ pt2 <> pt1) by (repeat split; discriminate).
  change 2%N with (0 + 1 + 1)%N.
  change 7%Z with (next_from 2 [pt2; pt3] 5).
  eapply (reachS _ _ _ _ (0 + 1)%N [pt3; pt1] 5 [pt2; pt3]).
  - change 5%Z with (next_from 2 [pt3; pt1] 0). eapply reachS; [constructor| |].
    + repeat split.
      * repeat constructor; cbn; intuition congruence.
      * intros x [<-|[<-|[]]]; cbn; tauto.
      * intros x y Hx Hn Hy. cbn in Hx. destruct Hx as [<-|[<-|[]]]; exfalso; apply Hn; cbn; tauto.
    + repeat constructor; cbn; lia.
  - repeat split.
    + repeat constructor; cbn; intuition congruence.
    + intros x [<-|[<-|[]]]; cbn; tauto.
    + intros x y Hx Hn Hy. cbn in Hx. destruct Hx as [<-|[<-|[<-|[]]]].
      * destruct Hy as [<-|[<-|[]]]; cbn; lia.
      * exfalso; apply Hn; cbn; tauto.
      * exfalso; apply Hn; cbn; tauto.
  - repeat constructor; cbn; lia.
Qed.

(* traceql_correct_single: its hypotheses hold of a concrete search -- { (.a = "b" && duration > 1s) || span.n > 5 || .a = "b" },
   limit 1, over three traces (one span outside the window) -- and the conclusion, computed with the toy library functions:
   the most recent matching trace t2 with its one matched span. *)
Definition c0 : ctx :=
  {| from_ns := 0; to_ns := 10; from_date := "d"; to_date := "d"; ffd_from := "d"; ffd_to := "d";
     limit := 1; is_cluster := false; rf_max := 0; rf_i := 0; cached := [];
     attrs_table := "t"; attrs_dist_table := "td"; traces_table := "tr"; traces_dist_table := "trd"; kv_dist_table := "kv" |}.
Definition d0 : db :=
  [R "a" "b" "t1" "s1" 5 2000000000; R "n" "7" "t1" "s1" 5 2000000000; R "n" "9" "t2" "s1" 7 1; R "n" "1" "t3" "s1" 8 1;
   R "a" "b" "t2" "s2" 12 1].
Lemma filter_len_le {A} (p : A -> bool) l : (List.length (filter p l) <= List.length l)%nat.
Proof. induction l as [|x l IH]; [apply le_n|]. cbn [filter]. destruct (p x); cbn [List.length]; lia. Qed.
Example single_hyps :
  rf_max c0 = 0%Z /\ db_consistent c0 d0 /\ spans_capped c0 d0 /\ keys_ok e0 = true /\ forallb term_lit_ok terms0 = true
  /\ (List.length terms0 <= 64)%nat /\ (cond_depth cd0 <= 28)%nat /\ lits_exact e0 = true
  /\ exists s, plan (q1 e0 AONone) MSearch c0 1 = Ok s
               /\ index_rows c0 d0 s = Some [("t2", ["s1"])]
               /\ result_ok c0 (traceql_sem re_toy float_toy false c0 d0 (q1 e0 AONone)) [("t2", ["s1"])] = true.
Proof.
  split; [reflexivity|]. split; [|split].
  - split.
    + intros r Hr _. cbn [In d0] in Hr. repeat (destruct Hr as [<-|Hr]; [reflexivity|]). destruct Hr.
    + intros a b Ha Hb. cbn [In d0] in Ha, Hb.
      repeat (destruct Ha as [<-|Ha]); try (destruct Ha); repeat (destruct Hb as [<-|Hb]); try (destruct Hb);
        intros E; try (split; reflexivity); vm_compute in E; discriminate.
  - intros t. eapply Nat.le_trans; [apply filter_len_le|].
    assert (E : List.length (spans_of c0 d0) = 3%nat) by (vm_compute; reflexivity). rewrite E. lia.
  - split; [vm_compute; reflexivity|]. split; [vm_compute; reflexivity|]. split; [vm_compute; lia|]. split; [vm_compute; lia|].
    split; [vm_compute; reflexivity|].
    destruct (plan (q1 e0 AONone) MSearch c0 1) as [s| |] eqn:E; [|vm_compute in E; discriminate|vm_compute in E; discriminate].
    exists s. split; [reflexivity|]. vm_compute in E. injection E as <-. vm_compute. split; reflexivity.
Qed.

(* traceql_correct_agg: the additional guards hold of  | avg(.n) > 6.5  and of  | max(duration) >= 1.5s ; with the first one
   the search of single_hyps (limit 1) returns t2 again (its span has n = 9; t1's matched span has n = 7 but t2 is newer),
   with  | count() > 1  nothing (no trace has two matched spans). *)
Definition ag_avg : aggregator := {| g_fn := AgAvg; g_attr := ".n"; g_cmp := CGt; g_num := "6.5"; g_meas := ""; g_ffmt := None; g_durf := None |}.
Definition ag_dur : aggregator := {| g_fn := AgMax; g_attr := "duration"; g_cmp := CGe; g_num := "1.5"; g_meas := "s"; g_ffmt := None; g_durf := None |}.
Definition ag_cnt : aggregator := {| g_fn := AgCount; g_attr := ""; g_cmp := CGt; g_num := "1"; g_meas := ""; g_ffmt := None; g_durf := None |}.
Example agg_hyps :
  agg_guard ag_avg = true /\ agg_lit_exact ag_avg = true /\ agg_guard ag_dur = true /\ agg_lit_exact ag_dur = true
  /\ agg_guard ag_cnt = true /\ agg_lit_exact ag_cnt = true
  /\ (exists s, plan (q2 e0 ag_avg AONone) MSearch c0 1 = Ok s /\ index_rows c0 d0 s = Some [("t2", ["s1"])])
  /\ (exists s, plan (q2 e0 ag_dur AONone) MSearch c0 1 = Ok s /\ index_rows c0 d0 s = Some [("t1", ["s1"])])
  /\ (exists s, plan (q2 e0 ag_cnt AONone) MSearch c0 1 = Ok s /\ index_rows c0 d0 s = Some []).
Proof.
  do 6 (split; [vm_compute; reflexivity|]).
  split; [|split].
  - destruct (plan (q2 e0 ag_avg AONone) MSearch c0 1) as [s| |] eqn:E; [|vm_compute in E; discriminate|vm_compute in E; discriminate].
    exists s. split; [reflexivity|]. vm_compute in E. injection E as <-. vm_compute. reflexivity.
  - destruct (plan (q2 e0 ag_dur AONone) MSearch c0 1) as [s| |] eqn:E; [|vm_compute in E; discriminate|vm_compute in E; discriminate].
    exists s. split; [reflexivity|]. vm_compute in E. injection E as <-. vm_compute. reflexivity.
  - destruct (plan (q2 e0 ag_cnt AONone) MSearch c0 1) as [s| |] eqn:E; [|vm_compute in E; discriminate|vm_compute in E; discriminate].
    exists s. split; [reflexivity|]. vm_compute in E. injection E as <-. vm_compute. reflexivity.
Qed.

(* groupArray(100): a trace with 101 matching spans.  Every hypothesis of traceql_correct_single except spans_capped holds,
   the statement evaluates, and its answer is rejected: the span list of t1 holds 100 of the 101 matched spans. *)
Definition e3 : attr_exp := AExp (HTerm (T ".a" CEq (vstr """b""" "b"))) AONone None.
Definition d101 : db := map (fun n => R "a" "b" "t1" ("s" ++ string_of_N (N.of_nat n)) 5 1) (seq 0 101).
Example span_list_cut_witness :
  rf_max c0 = 0%Z /\ db_consistent c0 d101 /\ keys_ok e3 = true
  /\ forallb term_lit_ok (fst (snd (analyze_cond e3 ([], [])))) = true
  /\ (List.length (fst (snd (analyze_cond e3 ([], [])))) <= 64)%nat /\ (cond_depth (fst (analyze_cond e3 ([], []))) <= 28)%nat
  /\ lits_exact e3 = true
  /\ List.length (spans_of c0 d101) = 101%nat
  /\ exists s res, plan (q1 e3 AONone) MSearch c0 1 = Ok s /\ index_rows_g re_toy float_toy hash_toy c0 d101 s = Some res
                   /\ map (fun r => List.length (snd r)) res = [100%nat]
                   /\ result_ok c0 (traceql_sem re_toy float_toy false c0 d101 (q1 e3 AONone)) res = false.
Proof.
  split; [reflexivity|]. split; [split|].
  - intros r Hr _. unfold d101 in Hr. apply in_map_iff in Hr. destruct Hr as [n [<- _]]. reflexivity.
  - intros a b Ha Hb _. unfold d101 in Ha, Hb. apply in_map_iff in Ha, Hb. destruct Ha as [n [<- _]], Hb as [m [<- _]]. split; reflexivity.
  - split; [vm_compute; reflexivity|]. split; [vm_compute; reflexivity|]. split; [vm_compute; lia|]. split; [vm_compute; lia|].
    split; [vm_compute; reflexivity|]. split; [vm_compute; reflexivity|].
    destruct (plan (q1 e3 AONone) MSearch c0 1) as [s| |] eqn:E; [|vm_compute in E; discriminate|vm_compute in E; discriminate].
    exists s. vm_compute in E. injection E as <-.
    change (index_rows_g re_toy float_toy hash_toy) with index_rows.
    destruct (index_rows c0 d101 _) as [res|] eqn:Er; [|vm_compute in Er; discriminate].
    exists res. split; [reflexivity|]. split; [reflexivity|]. vm_compute in Er. injection Er as <-. split; vm_compute; reflexivity.
Qed.

(* traceql_correct_chain: its hypotheses hold of the chain  {.a = "b"} && {span.n > 5} || {.n < 2} | count() > 0  over the database of
   single_hyps, limit 1: the planner's tree is ||[&&[A, B], C] (statement fuel 6 <= 13), and the conclusion computed with the toy library
   functions: t1 passes the && (its span s1 carries a = "b" and n = 7; the a = "b" span of t2 lies outside the window), t3 passes the
   right-hand side (n = 1); the limit keeps the newer one, t3.  With limit 0 both, t1 with the union of its matched spans. *)
Definition eN : attr_exp := AExp (HTerm (T "span.n" CGt (vnum "5"))) AONone None.
Definition eM : attr_exp := AExp (HTerm (T ".n" CLt (vnum "2"))) AONone None.
Definition ag_pos : aggregator := {| g_fn := AgCount; g_attr := ""; g_cmp := CGt; g_num := "0"; g_meas := ""; g_ffmt := None; g_durf := None |}.
Definition q3 : script :=
  Script {| sel_attr := Some e3; sel_agg := None |} AOAnd
    (Some (Script {| sel_attr := Some eN; sel_agg := None |} AOOr
       (Some (Script {| sel_attr := Some eM; sel_agg := Some ag_pos |} AONone None)))).
Definition c0all : ctx :=
  {| from_ns := 0; to_ns := 10; from_date := "d"; to_date := "d"; ffd_from := "d"; ffd_to := "d";
     limit := 0; is_cluster := false; rf_max := 0; rf_i := 0; cached := [];
     attrs_table := "t"; attrs_dist_table := "td"; traces_table := "tr"; traces_dist_table := "trd"; kv_dist_table := "kv" |}.
Example chain_hyps :
  chain_ok q3 /\ sc_tail q3 <> None /\ chain_need q3 = 6%nat
  /\ (exists s, plan q3 MSearch c0 1 = Ok s /\ index_rows c0 d0 s = Some [("t3", ["s1"])]
                /\ result_ok c0 (traceql_sem re_toy float_toy false c0 d0 q3) [("t3", ["s1"])] = true)
  /\ (exists s, plan q3 MSearch c0all 1 = Ok s /\ index_rows c0all d0 s = Some [("t1", ["s1"]); ("t3", ["s1"])]).
Proof.
  split; [apply chain_ok_b_sound; vm_compute; reflexivity|]. split; [discriminate|]. split; [vm_compute; reflexivity|]. split.
  - destruct (plan q3 MSearch c0 1) as [s| |] eqn:E; [|vm_compute in E; discriminate|vm_compute in E; discriminate].
    exists s. split; [reflexivity|]. vm_compute in E. injection E as <-. vm_compute. split; reflexivity.
  - destruct (plan q3 MSearch c0all 1) as [s| |] eqn:E; [|vm_compute in E; discriminate|vm_compute in E; discriminate].
    exists s. split; [reflexivity|]. vm_compute in E. injection E as <-. vm_compute. reflexivity.
Qed.

(* ... and what traceql_correct_single_any_spans says of that witness: the answer with 100 of the 101 matched spans passes result_ok_cap 100
   (t1 is the right trace, the 100 ids are distinct matched spans of it) *)
Example span_list_cut_is_capped :
  exists s res, plan (q1 e3 AONone) MSearch c0 1 = Ok s /\ index_rows c0 d101 s = Some res
                /\ result_ok_cap 100 c0 (traceql_sem re_toy float_toy false c0 d101 (q1 e3 AONone)) res = true.
Proof.
  destruct (plan (q1 e3 AONone) MSearch c0 1) as [s| |] eqn:E; [|vm_compute in E; discriminate|vm_compute in E; discriminate].
  exists s. vm_compute in E. injection E as <-.
  destruct (index_rows c0 d101 _) as [res|] eqn:Er; [|vm_compute in Er; discriminate].
  exists res. split; [reflexivity|]. split; [reflexivity|]. vm_compute in Er. injection Er as <-. vm_compute. reflexivity.
Qed.

(* traceql_correct_single_portion: its hypotheses hold of the third of three portions with one cached winner (t1), limit 1, and the
   conclusion is computed: of the matching traces t1 (time 5) and t2 (time 7) this portion sees those whose hash class is 2 or that are
   cached; hash_toy "t2" mod 3 = 2, so both are visible (t3, class 0, is not) and the newer one is returned. *)
Definition c0p : ctx :=
  {| from_ns := 0; to_ns := 10; from_date := "d"; to_date := "d"; ffd_from := "d"; ffd_to := "d";
     limit := 1; is_cluster := false; rf_max := 3; rf_i := 2; cached := ["t1"];
     attrs_table := "t"; attrs_dist_table := "td"; traces_table := "tr"; traces_dist_table := "trd"; kv_dist_table := "kv" |}.
Example portion_hyps :
  rf_ok c0p = true /\ map (fun t => in_portion_g hash_toy c0p t) ["t1"; "t2"; "t3"] = [true; true; false]
  /\ exists s, plan (q1 e0 AONone) MSearch c0p 2 = Ok s /\ index_rows c0p d0 s = Some [("t2", ["s1"])]
               /\ result_ok c0p (traceql_sem re_toy float_toy false c0p (visible hash_toy c0p d0) (q1 e0 AONone)) [("t2", ["s1"])] = true.
Proof.
  split; [vm_compute; reflexivity|]. split; [vm_compute; reflexivity|].
  destruct (plan (q1 e0 AONone) MSearch c0p 2) as [s| |] eqn:E; [|vm_compute in E; discriminate|vm_compute in E; discriminate].
  exists s. split; [reflexivity|]. vm_compute in E. injection E as <-. vm_compute. split; reflexivity.
Qed.
