(* C09, round 6: the number a LogQL rate divides by is the range in seconds, on both engines.
   secs_text (C08's model of clickhouse_planner.secondsText) prints the range so that the literal denotes EXACTLY dur / 10^9;
   the in-process divisor float64(Duration.Nanoseconds()) / 1e9 is the same quotient (over the rationals: the same number; over
   binary64: its correctly rounded value, as is ClickHouse's reading of the literal).  The two truncations that were / could be
   in the code (whole milliseconds: before /repo 593a272; whole seconds: seed C09-f) equal the range exactly on the ranges
   without a remainder -- which is why a generator of whole-second ranges could not see either. *)
From Coq Require Import List ZArith NArith QArith Bool String Ascii Lia.
From Qryn Require Import lib.Strs lib.DecN model.LogqlPlan model.InternalEngine model.InternalEngineRate.
Import ListNotations.
Open Scope string_scope.


(* ---------- strings ---------- *)
Fixpoint zeros (k : nat) : string := match k with O => "" | S k' => String "0" (zeros k') end.

Lemma app_nil_r s : s ++ "" = s.
Proof. induction s as [|c r IH]; cbn [append]; [reflexivity | now rewrite IH]. Qed.
Lemma app_assoc a b c : (a ++ b) ++ c = a ++ (b ++ c).
Proof. induction a as [|x r IH]; cbn [append]; [reflexivity | now rewrite IH]. Qed.
Lemma length_app a b : String.length (a ++ b) = (String.length a + String.length b)%nat.
Proof. induction a as [|x r IH]; cbn [append String.length]; [reflexivity | now rewrite IH]. Qed.
Lemma length_zeros k : String.length (zeros k) = k.
Proof. induction k as [|k IH]; cbn [zeros String.length]; [reflexivity | now rewrite IH]. Qed.
Lemma zeros_snoc k s : zeros k ++ String "0" s = String "0" (zeros k ++ s).
Proof. induction k as [|k IH]; cbn [zeros append]; [reflexivity | now rewrite IH]. Qed.

Lemma rev_s_rev s : forall acc acc', rev_s (rev_s s acc) acc' = rev_s acc (s ++ acc').
Proof. induction s as [|c r IH]; intros acc acc'; cbn [rev_s append]; [reflexivity|]. rewrite IH. reflexivity. Qed.
Lemma rev_s_app a : forall b acc, rev_s (a ++ b) acc = rev_s b (rev_s a acc).
Proof. induction a as [|c r IH]; intros b acc; cbn [rev_s append]; [reflexivity | apply IH]. Qed.
Lemma rev_s_acc s : forall acc, rev_s s acc = rev_s s "" ++ acc.
Proof.
  induction s as [|c r IH]; intros acc; cbn [rev_s]; [reflexivity|].
  rewrite IH, (IH (String c "")), app_assoc. reflexivity.
Qed.
Lemma rev_s_zeros k : forall acc, rev_s (zeros k) acc = zeros k ++ acc.
Proof. induction k as [|k IH]; intros acc; cbn [zeros rev_s append]; [reflexivity|]. rewrite IH, zeros_snoc. reflexivity. Qed.

Lemma trim_left_zeros r : exists j, r = zeros j ++ trim_left1 "0" r.
Proof.
  induction r as [|c r [j IH]].
  - exists O. reflexivity.
  - cbn [trim_left1]. destruct (Ascii.eqb_spec c "0"%char) as [-> | _].
    + exists (S j). cbn [zeros append]. now rewrite <- IH.
    + exists O. reflexivity.
Qed.

(* strings.TrimRight(s, "0") cuts a run of zeros off the end, nothing else *)
Lemma trim_right_zeros_spec s : exists j, s = trim_right_zeros s ++ zeros j.
Proof.
  unfold trim_right_zeros. destruct (trim_left_zeros (rev_s s "")) as [j Hj]. exists j.
  set (t := trim_left1 "0" (rev_s s "")) in *.
  assert (s = rev_s (rev_s s "") "") as E by (rewrite rev_s_rev; cbn [rev_s]; now rewrite app_nil_r).
  rewrite E at 1. rewrite Hj, rev_s_app, rev_s_zeros, app_nil_r. apply rev_s_acc.
Qed.

(* ---------- reading digits ---------- *)
Lemma aux_app a : forall b acc,
  N_of_dec_aux (a ++ b) acc = match N_of_dec_aux a acc with Some x => N_of_dec_aux b x | None => None end.
Proof.
  induction a as [|c r IH]; intros b acc; cbn [append N_of_dec_aux]; [reflexivity|].
  destruct (digit_val c); [apply IH | reflexivity].
Qed.
Lemma aux_zeros k : forall x, N_of_dec_aux (zeros k) x = Some (x * 10 ^ N.of_nat k)%N.
Proof.
  induction k as [|k IH]; intros x.
  - cbn [zeros N_of_dec_aux]. f_equal. change (10 ^ N.of_nat 0)%N with 1%N. lia.
  - cbn [zeros N_of_dec_aux]. change (digit_val "0") with (Some 0%N). cbv iota. rewrite IH. f_equal.
    rewrite Nat2N.inj_succ, N.pow_succ_r'. lia.
Qed.


Lemma N_dec_aux_len fuel : forall n acc k, (n < 10 ^ N.of_nat (S k))%N ->
  (String.length (N_dec_aux fuel n acc) <= S k + String.length acc)%nat.
Proof.
  induction fuel as [|f IH]; intros n acc k Hn; cbn [N_dec_aux]; [lia|].
  destruct (N.eqb_spec (n / 10) 0) as [Hq | Hq].
  - cbn [String.length]. lia.
  - destruct k as [|k].
    + exfalso. apply Hq. apply N.div_small. exact Hn.
    + assert (n / 10 < 10 ^ N.of_nat (S k))%N as H.
      { apply N.div_lt_upper_bound; [discriminate|]. rewrite <- N.pow_succ_r', <- Nat2N.inj_succ. exact Hn. }
      specialize (IH (n / 10)%N (String (digit_char (n mod 10)) acc) k H). cbn [String.length] in IH. lia.
Qed.

Lemma string_of_N_len n k : (n < 10 ^ N.of_nat (S k))%N -> (String.length (string_of_N n) <= S k)%nat.
Proof. intros H. unfold string_of_N. pose proof (N_dec_aux_len (S (N.to_nat (N.log2 n))) n "" k H) as L. cbn [String.length] in L. lia. Qed.

Lemma dec_pad_zeros w n : dec_pad w n = zeros (w - String.length (string_of_N n)) ++ string_of_N n.
Proof.
  unfold dec_pad. generalize (w - String.length (string_of_N n))%nat as k. generalize (string_of_N n) as s.
  intros s k. revert s. induction k as [|k IH]; intros s; [reflexivity|].
  rewrite IH. cbn [zeros append]. rewrite zeros_snoc. reflexivity.
Qed.

Lemma N_of_dec_aux0 s : s <> "" -> N_of_dec s = N_of_dec_aux s 0.
Proof. destruct s; [congruence | reflexivity]. Qed.

(* the nine digits of the fraction: length 9, value n *)
Lemma dec_pad9 n : (n < 1000000000)%N ->
  String.length (dec_pad 9 n) = 9%nat /\ N_of_dec_aux (dec_pad 9 n) 0 = Some n.
Proof.
  intros H. rewrite dec_pad_zeros.
  pose proof (string_of_N_len n 8 H) as L.
  split.
  - rewrite length_app, length_zeros. lia.
  - rewrite aux_app, aux_zeros. cbn [N.mul]. rewrite <- N_of_dec_aux0 by apply string_of_N_nonempty. apply N_of_dec_string_of_N.
Qed.

Lemma string_of_Z_nonneg z : 0 <= z -> string_of_Z z = string_of_N (Z.to_N z).
Proof. destruct z as [|p|p]; intros H; [reflexivity | reflexivity | lia]. Qed.

Lemma digit_not_dot c d : digit_val c = Some d -> Ascii.eqb c "."%char = false.
Proof. intros H. destruct (Ascii.eqb_spec c "."%char) as [-> | _]; [discriminate H | reflexivity]. Qed.

Lemma split_dot_digits s : all_digits s = true -> split_dot s = (s, None).
Proof.
  induction s as [|c r IH]; intros H; cbn [split_dot]; [reflexivity|]. cbn [all_digits] in H.
  destruct (digit_val c) as [d|] eqn:E; [|discriminate]. rewrite (digit_not_dot c d E), (IH H). reflexivity.
Qed.
Lemma split_dot_app s t : all_digits s = true -> split_dot (s ++ String "." t) = (s, Some t).
Proof.
  induction s as [|c r IH]; intros H; cbn [split_dot append]; [reflexivity|]. cbn [all_digits] in H.
  destruct (digit_val c) as [d|] eqn:E; [|discriminate]. rewrite (digit_not_dot c d E), (IH H). reflexivity.
Qed.

Open Scope Z_scope.

Lemma in_process_divisor d : (range_seconds_q d == d # 1000000000)%Q.
Proof. unfold range_seconds_q, dur_seconds, Qdiv, Qmult, Qinv, inject_Z, Qeq. cbn [Qnum Qden]. lia. Qed.

Lemma clickhouse_divisor d : 0 <= d ->
  exists q, dec_q (secs_text d) = Some q /\ (q == d # 1000000000)%Q.
Proof.
  intros Hd. unfold secs_text.
  pose proof (Z.quot_rem' d 1000000000) as Hqr.
  pose proof (Z.rem_bound_pos d 1000000000 Hd ltac:(lia)) as Hm.
  assert (0 <= Z.quot d 1000000000) as Hi by (apply Z.quot_pos; lia).
  set (i := Z.quot d 1000000000) in *. set (m := Z.rem d 1000000000) in *.
  rewrite (string_of_Z_nonneg i Hi).
  pose proof (string_of_N_digits (Z.to_N i)) as Di.
  pose proof (N_of_dec_string_of_N (Z.to_N i)) as Ni.
  set (si := string_of_N (Z.to_N i)) in *.
  destruct (dec_pad9 (Z.to_N m) ltac:(lia)) as [L9 V9].
  destruct (trim_right_zeros_spec (dec_pad 9 (Z.to_N m))) as [j Hj].
  set (f := trim_right_zeros (dec_pad 9 (Z.to_N m))) in *.
  rewrite Hj in L9, V9. rewrite length_app, length_zeros in L9. rewrite aux_app in V9.
  destruct (N_of_dec_aux f 0) as [mf|] eqn:Ef; [|discriminate]. rewrite aux_zeros in V9.
  assert (Z.of_N mf * 10 ^ Z.of_nat j = m) as Hmf.
  { injection V9 as V9. apply (f_equal Z.of_N) in V9. rewrite N2Z.inj_mul, N2Z.inj_pow, nat_N_Z in V9. cbn [Z.of_N] in V9. lia. }
  destruct (String.eqb_spec f "") as [F0 | F1].
  - (* no fraction left *)
    exists (inject_Z i). split.
    + unfold dec_q. rewrite (split_dot_digits si Di), Ni. rewrite Z2N.id by exact Hi. reflexivity.
    + rewrite F0 in Ef. cbn [N_of_dec_aux] in Ef. injection Ef as <-. unfold inject_Z, Qeq. cbn [Qnum Qden]. lia.
  - exists (inject_Z i + (Z.of_N mf # Z.to_pos (10 ^ Z.of_nat (String.length f))))%Q. split.
    + unfold dec_q. change ("." ++ f) with (String "." f). rewrite (split_dot_app si f Di), Ni, (N_of_dec_aux0 f F1), Ef. rewrite Z2N.id by exact Hi. reflexivity.
    + set (L := String.length f) in *.
      assert (10 ^ Z.of_nat L * 10 ^ Z.of_nat j = 1000000000) as HP.
      { rewrite <- Z.pow_add_r by lia. rewrite <- Nat2Z.inj_add, L9. reflexivity. }
      assert (0 < 10 ^ Z.of_nat L) as PP by (apply Z.pow_pos_nonneg; lia).
      unfold inject_Z, Qplus, Qeq. cbn [Qnum Qden]. rewrite Pos2Z.inj_mul, Z2Pos.id by exact PP.
      set (P := 10 ^ Z.of_nat L) in *. set (J := 10 ^ Z.of_nat j) in *.
      change (Z.pos 1000000000) with 1000000000. rewrite <- HP. rewrite Hqr at 1. rewrite <- Hmf, <- HP. ring.
Qed.

Lemma same_divisor d : 0 <= d -> exists q, dec_q (secs_text d) = Some q /\ (q == range_seconds_q d)%Q.
Proof.
  intros Hd. destruct (clickhouse_divisor d Hd) as [q [E Q]]. exists q. split; [exact E|]. rewrite Q. symmetry. apply in_process_divisor.
Qed.

(* the divisor truncated to whole seconds (seed C09-f) is the range exactly when the range is a whole number of seconds *)
Lemma whole_seconds_iff d : (whole_seconds_q d == range_seconds_q d)%Q <-> Z.rem d 1000000000 = 0.
Proof.
  pose proof (Z.quot_rem' d 1000000000) as Hqr.
  unfold whole_seconds_q, range_seconds_q, dur_seconds, Qdiv, Qmult, Qinv, inject_Z, Qeq. cbn [Qnum Qden]. lia.
Qed.
(* the divisor truncated to whole milliseconds (the code before 593a272) is the range exactly on whole milliseconds *)
Lemma whole_ms_iff d : (whole_ms_seconds_q d == range_seconds_q d)%Q <-> Z.rem d 1000000 = 0.
Proof.
  pose proof (Z.quot_rem' d 1000000) as Hqr.
  unfold whole_ms_seconds_q, range_seconds_q, dur_seconds, dur_seconds_ms, Qdiv, Qmult, Qinv, inject_Z, Qeq. cbn [Qnum Qden]. lia.
Qed.

Lemma whole_seconds_refuted : exists d, 0 < d /\ ~ (whole_seconds_q d == range_seconds_q d)%Q.
Proof. exists 1500000000. split; [lia|]. rewrite whole_seconds_iff. discriminate. Qed.
Lemma whole_ms_refuted : exists d, 0 < d /\ ~ (whole_ms_seconds_q d == range_seconds_q d)%Q.
Proof. exists 1500000. split; [lia|]. rewrite whole_ms_iff. discriminate. Qed.

Example secs_text_examples :
  map secs_text [1500000000; 500000000; 2500000000; 1500000; 999000; 1500; 1000001000; 60000000000; 1]
  = ["1.5"; "0.5"; "2.5"; "0.0015"; "0.000999"; "0.0000015"; "1.000001"; "60"; "0.000000001"].
Proof. vm_compute. reflexivity. Qed.
Example dec_q_examples :
  map dec_q ["1.5"; "0.0015"; "60"; "0.000000001"; ""; "1."; ".5"; "1.5.2"; "1e3"]
  = [Some (1 + (5 # 10))%Q; Some (0 + (15 # 10000))%Q; Some 60%Q; Some (0 + (1 # 1000000000))%Q; None; None; None; None; None].
Proof. vm_compute. reflexivity. Qed.
