(* C18 -- two starters initialising one database at the same time (model/Migrate.v pstep / conc_run).
   What survives every interleaving, for any statement semantics, scripts, configuration, schedule and
   failures: a process writes a version only right after it saw the script of that version complete
   (conc_version_after_own_script).  What does not: file order and "a recorded script is never run again"
   -- a starter that read an old version re-runs scripts the other one has passed (refuted for the
   repository's scripts in MigrateConcrete.v). *)
From Coq Require Import List String NArith ZArith Bool Arith Lia.
From Qryn Require Import model.Migrate proofs.MigrateProofs.
Import ListNotations.
Open Scope nat_scope.

Lemma pmon_app : forall l1 l2 last,
  pmon last (l1 ++ l2) = pmon last l1 && pmon (match rev l1 with e :: _ => Some e | [] => last end) l2.
Proof.
  induction l1 as [|e l1 IH]; intros l2 last; cbn [app pmon rev]; [reflexivity|].
  rewrite IH, andb_assoc. f_equal.
  destruct (rev l1) as [|x r] eqn:E; cbn; [reflexivity|reflexivity].
Qed.

Lemma res_ok_is r : res_ok r = true -> r = ROk.
Proof. destruct r; cbn; congruence. Qed.

Section ConcProofs.
  Variables (cat stmt : Type).
  Variable exec : stmt -> cat -> option cat.
  Variable pexec : list bool -> stmt -> cat -> cat.
  Variable scripts : stream -> list stmt.
  Notation pstep := (pstep cat stmt exec pexec scripts).
  Notation conc_run := (conc_run cat stmt exec pexec scripts).
  Notation p_next := (p_next stmt scripts).

  (* a process about to write version i+1 has just seen script i complete *)
  Definition PInv (p : proc) (last : option event) : Prop :=
    match p_ks p, p_pc p with
    | k :: _, PIns i => last = Some (EScript k i ROk)
    | _, _ => True
    end.
  Definition last_of (last : option event) (l : list event) : option event :=
    match rev l with e :: _ => Some e | [] => last end.

  Lemma PInv_next k ks v last : PInv (p_next k ks v) last.
  Proof.
    unfold Migrate.p_next, PInv. destruct (v <? List.length (scripts k)); cbn; [exact I|]. destruct ks; exact I.
  Qed.
  Lemma PInv_fail last : PInv p_fail last.
  Proof. exact I. Qed.

  Lemma pstep_pmon c p o (d : db cat) last : PInv p last ->
    pmon last (snd (pstep c p o d)) = true /\ PInv (fst (fst (pstep c p o d))) (last_of last (snd (pstep c p o d))).
  Proof.
    intros HI. unfold Migrate.pstep. destruct (p_ks p) as [|k ks] eqn:Ek.
    - cbn. split; [reflexivity|]. unfold PInv. now rewrite Ek.
    - destruct (p_pc p) as [| | |i|i] eqn:Epc.
      + destruct (do_call cat o (eff_create_ver cat) (peff_none cat) d) as [d1 r]. cbn. split; [reflexivity|].
        destruct (res_ok r); [|exact I]. unfold PInv; cbn. destruct (clustered c); exact I.
      + destruct (do_call cat o (eff_create_vd cat) (peff_none cat) d) as [d1 r]. cbn. split; [reflexivity|].
        destruct (res_ok r); exact I.
      + destruct (do_call cat o (eff_read cat c) (peff_none cat) d) as [d1 r]. cbn [fst snd pmon]. split; [reflexivity|].
        destruct (res_ok r); [apply PInv_next|exact I].
      + destruct (nth_error (scripts k) i) as [x|].
        * destruct (do_call cat o (eff_script cat stmt exec x) (peff_script cat stmt pexec x) d) as [d1 r]. cbn [fst snd pmon].
          split; [reflexivity|]. destruct (res_ok r) eqn:R; [|exact I].
          apply res_ok_is in R. subst r. reflexivity.
        * cbn [fst snd pmon]. split; [reflexivity|]. apply PInv_next.
      + destruct (do_call cat o (eff_setver cat k (S i)) (peff_none cat) d) as [d1 r]. cbn [fst snd].
        unfold PInv in HI. rewrite Ek, Epc in HI. subst last. split.
        * cbn. now rewrite stream_eqb_refl, Nat.eqb_refl.
        * destruct (res_ok r); [apply PInv_next|exact I].
  Qed.

  Lemma plog_app who l1 l2 : plog who (l1 ++ l2) = plog who l1 ++ plog who l2.
  Proof. unfold plog. now rewrite filter_app, map_app. Qed.
  Lemma plog_tag who w (l : list event) : plog who (map (pair w) l) = if Bool.eqb w who then l else [].
  Proof.
    unfold plog. induction l as [|e l IH]; cbn; [now destruct (Bool.eqb w who)|].
    destruct (Bool.eqb w who) eqn:E; cbn; [now rewrite IH|exact IH].
  Qed.

  Lemma conc_pmon c : forall sched p q (d : db cat) lp lq, PInv p lp -> PInv q lq ->
    pmon lp (plog false (snd (conc_run c sched p q d))) = true /\
    pmon lq (plog true (snd (conc_run c sched p q d))) = true.
  Proof.
    induction sched as [|[who o] rest IH]; intros p q d lp lq Hp Hq; cbn [Migrate.conc_run].
    - cbn. auto.
    - destruct who.
      + destruct (pstep_pmon c q o d lq Hq) as [Hm Hi].
        destruct (pstep c q o d) as [[q1 d1] l1]. cbn [fst snd] in Hm, Hi.
        destruct (IH p q1 d1 lp (last_of lq l1) Hp Hi) as [Ha Hb].
        destruct (conc_run c rest p q1 d1) as [[[pf qf] df] lf]. cbn [snd] in *.
        rewrite !plog_app, !plog_tag. cbn [Bool.eqb app]. split; [exact Ha|].
        rewrite pmon_app, Hm. exact Hb.
      + destruct (pstep_pmon c p o d lp Hp) as [Hm Hi].
        destruct (pstep c p o d) as [[p1 d1] l1]. cbn [fst snd] in Hm, Hi.
        destruct (IH p1 q d1 (last_of lp l1) lq Hi Hq) as [Ha Hb].
        destruct (conc_run c rest p1 q d1) as [[[pf qf] df] lf]. cbn [snd] in *.
        rewrite !plog_app, !plog_tag. cbn [Bool.eqb app]. split; [|exact Hb].
        rewrite pmon_app, Hm. exact Ha.
  Qed.

  Theorem conc_version_after_own_script c sched (d : db cat) :
    pmon None (plog false (snd (conc_run c sched (proc0 c) (proc0 c) d))) = true /\
    pmon None (plog true (snd (conc_run c sched (proc0 c) (proc0 c) d))) = true.
  Proof.
    apply conc_pmon; unfold PInv, proc0; cbn; destruct (streams_of c); exact I.
  Qed.
End ConcProofs.
