(* C18 -- two starters initialising one database at the same time (model/Migrate.v pstep / conc_run).
   What survives every interleaving, for any statement semantics, scripts, configuration, schedule and
   failures: a process writes a version only right after it saw the script of that version complete
   (conc_version_after_own_script).  What does not: file order and "a recorded script is never run again"
   -- a starter that read an old version re-runs scripts the other one has passed (refuted for the
   repository's scripts in MigrateConcrete.v). *)
From Coq Require Import List String NArith ZArith Bool Arith Lia.
From Qryn Require Import model.Migrate proofs.MigrateProofs.
Import ListNotations.
Open Scope nat_scope.

Lemma pmon_app : forall l1 l2 last,
  pmon last (l1 ++ l2) = pmon last l1 && pmon (match rev l1 with e :: _ => Some e | [] => last end) l2.
Proof.
  induction l1 as [|e l1 IH]; intros l2 last; cbn [app pmon rev]; [reflexivity|].
  rewrite IH, andb_assoc. f_equal.
  destruct (rev l1) as [|x r] eqn:E; cbn; [reflexivity|reflexivity].
Qed.

Lemma res_ok_is r : res_ok r = true -> r = ROk.
Proof. destruct r; cbn; congruence. Qed.

Section ConcProofs.
  Variables (cat stmt : Type).
  Variable exec : stmt -> cat -> option cat.
  Variable pexec : list bool -> stmt -> cat -> cat.
  Variable scripts : stream -> list stmt.
  Notation pstep := (pstep cat stmt exec pexec scripts).
  Notation conc_run := (conc_run cat stmt exec pexec scripts).
  Notation p_next := (p_next stmt scripts).

  (* a process about to write version i+1 has just seen script i complete *)
  Definition PInv (p : proc) (last : option event) : Prop :=
    match p_ks p, p_pc p with
    | k :: _, PIns i => last = Some (EScript k i ROk)
    | _, _ => True
    end.
  Definition last_of (last : option event) (l : list event) : option event :=
    match rev l with e :: _ => Some e | [] => last end.

  Lemma PInv_next k ks v last : PInv (p_next k ks v) last.
  Proof.
    unfold Migrate.p_next, PInv. destruct (v <? List.length (scripts k)); cbn; [exact I|]. destruct ks; exact I.
  Qed.
  Lemma PInv_fail last : PInv p_fail last.
  Proof. exact I. Qed.

  Lemma pstep_pmon c p o (d : db cat) last : PInv p last ->
    pmon last (snd (pstep c p o d)) = true /\ PInv (fst (fst (pstep c p o d))) (last_of last (snd (pstep c p o d))).
  Proof.
    intros HI. unfold Migrate.pstep. destruct (p_ks p) as [|k ks] eqn:Ek.
    - cbn. split; [reflexivity|]. unfold PInv. now rewrite Ek.
    - destruct (p_pc p) as [| | |i|i] eqn:Epc.
      + destruct (do_call cat o (eff_create_ver cat) (peff_none cat) d) as [d1 r]. cbn. split; [reflexivity|].
        destruct (res_ok r); [|exact I]. unfold PInv; cbn. destruct (clustered c); exact I.
      + destruct (do_call cat o (eff_create_vd cat) (peff_none cat) d) as [d1 r]. cbn. split; [reflexivity|].
        destruct (res_ok r); exact I.
      + destruct (do_call cat o (eff_read cat c) (peff_none cat) d) as [d1 r]. cbn [fst snd pmon]. split; [reflexivity|].
        destruct (res_ok r); [apply PInv_next|exact I].
      + destruct (nth_error (scripts k) i) as [x|].
        * destruct (do_call cat o (eff_script cat stmt exec x) (peff_script cat stmt pexec x) d) as [d1 r]. cbn [fst snd pmon].
          split; [reflexivity|]. destruct (res_ok r) eqn:R; [|exact I].
          apply res_ok_is in R. subst r. reflexivity.
        * cbn [fst snd pmon]. split; [reflexivity|]. apply PInv_next.
      + destruct (do_call cat o (eff_setver cat k (S i)) (peff_none cat) d) as [d1 r]. cbn [fst snd].
        unfold PInv in HI. rewrite Ek, Epc in HI. subst last. split.
        * cbn. now rewrite stream_eqb_refl, Nat.eqb_refl.
        * destruct (res_ok r); [apply PInv_next|exact I].
  Qed.

  Lemma plog_app who l1 l2 : plog who (l1 ++ l2) = plog who l1 ++ plog who l2.
  Proof. unfold plog. now rewrite filter_app, map_app. Qed.
  Lemma plog_tag who w (l : list event) : plog who (map (pair w) l) = if Bool.eqb w who then l else [].
  Proof.
    unfold plog. induction l as [|e l IH]; cbn; [now destruct (Bool.eqb w who)|].
    destruct (Bool.eqb w who) eqn:E; cbn; [now rewrite IH|exact IH].
  Qed.

  Lemma conc_pmon c : forall sched p q (d : db cat) lp lq, PInv p lp -> PInv q lq ->
    pmon lp (plog false (snd (conc_run c sched p q d))) = true /\
    pmon lq (plog true (snd (conc_run c sched p q d))) = true.
  Proof.
    induction sched as [|[who o] rest IH]; intros p q d lp lq Hp Hq; cbn [Migrate.conc_run].
    - cbn. auto.
    - destruct who.
      + destruct (pstep_pmon c q o d lq Hq) as [Hm Hi].
        destruct (pstep c q o d) as [[q1 d1] l1]. cbn [fst snd] in Hm, Hi.
        destruct (IH p q1 d1 lp (last_of lq l1) Hp Hi) as [Ha Hb].
        destruct (conc_run c rest p q1 d1) as [[[pf qf] df] lf]. cbn [snd] in *.
        rewrite !plog_app, !plog_tag. cbn [Bool.eqb app]. split; [exact Ha|].
        rewrite pmon_app, Hm. exact Hb.
      + destruct (pstep_pmon c p o d lp Hp) as [Hm Hi].
        destruct (pstep c p o d) as [[p1 d1] l1]. cbn [fst snd] in Hm, Hi.
        destruct (IH p1 q d1 (last_of lp l1) lq Hi Hq) as [Ha Hb].
        destruct (conc_run c rest p1 q d1) as [[[pf qf] df] lf]. cbn [snd] in *.
        rewrite !plog_app, !plog_tag. cbn [Bool.eqb app]. split; [|exact Hb].
        rewrite pmon_app, Hm. exact Ha.
  Qed.

  Theorem conc_version_after_own_script c sched (d : db cat) :
    pmon None (plog false (snd (conc_run c sched (proc0 c) (proc0 c) d))) = true /\
    pmon None (plog true (snd (conc_run c sched (proc0 c) (proc0 c) d))) = true.
  Proof.
    apply conc_pmon; unfold PInv, proc0; cbn; destruct (streams_of c); exact I.
  Qed.
End ConcProofs.

(* the per-process oracle evaluated on OBSERVED logs (opmon, statements identified by id) accepts the
   abstraction of every per-process log of the model: bit 16 of conc_spec_codes is never an artefact *)
Section ConcObs.
  Variables (cat stmt : Type).
  Variable exec : stmt -> cat -> option cat.
  Variable pexec : list bool -> stmt -> cat -> cat.
  Variable scripts : stream -> list stmt.
  Variable sids : stream -> list N.
  Hypothesis sids_len : forall k, List.length (sids k) = List.length (scripts k).
  Hypothesis sids_nonzero : forall k i, i < List.length (sids k) -> sid_at sids k i <> 0%N.

  Definition ev_valid (e : event) : Prop :=
    match e with EScript k i _ => i < List.length (scripts k) | _ => True end.

  Lemma pstep_valid c p o (d : db cat) : Forall ev_valid (snd (pstep cat stmt exec pexec scripts c p o d)).
  Proof.
    unfold Migrate.pstep. destruct (p_ks p) as [|k ks]; [constructor|].
    destruct (p_pc p) as [| | |i|i].
    - destruct (do_call cat o (eff_create_ver cat) (peff_none cat) d). cbn. repeat constructor.
    - destruct (do_call cat o (eff_create_vd cat) (peff_none cat) d). cbn. repeat constructor.
    - destruct (do_call cat o (eff_read cat c) (peff_none cat) d). cbn. repeat constructor.
    - destruct (nth_error (scripts k) i) as [x|] eqn:E; [|constructor].
      destruct (do_call cat o (eff_script cat stmt exec x) (peff_script cat stmt pexec x) d). cbn.
      constructor; [|constructor]. cbn. apply nth_error_Some. congruence.
    - destruct (do_call cat o (eff_setver cat k (S i)) (peff_none cat) d). cbn. repeat constructor.
  Qed.

  Lemma conc_valid c : forall sched p q (d : db cat),
    Forall (fun e => ev_valid (snd e)) (snd (conc_run cat stmt exec pexec scripts c sched p q d)).
  Proof.
    induction sched as [|[who o] rest IH]; intros p q d; cbn [Migrate.conc_run]; [constructor|].
    destruct who.
    - pose proof (pstep_valid c q o d) as Hv. destruct (pstep cat stmt exec pexec scripts c q o d) as [[q1 d1] l1].
      specialize (IH p q1 d1). destruct (conc_run cat stmt exec pexec scripts c rest p q1 d1) as [[[pf qf] df] lf].
      cbn [snd] in *. apply Forall_app. split; [|exact IH]. apply Forall_map. exact Hv.
    - pose proof (pstep_valid c p o d) as Hv. destruct (pstep cat stmt exec pexec scripts c p o d) as [[p1 d1] l1].
      specialize (IH p1 q d1). destruct (conc_run cat stmt exec pexec scripts c rest p1 q d1) as [[[pf qf] df] lf].
      cbn [snd] in *. apply Forall_app. split; [|exact IH]. apply Forall_map. exact Hv.
  Qed.

  Notation abs := (abs_event sids).

  Lemma pmon_opmon : forall l last, Forall ev_valid l -> (match last with Some e => ev_valid e | None => True end) ->
    pmon last l = true -> opmon sids (option_map abs last) (map abs l) = true.
  Proof.
    induction l as [|e l IH]; intros last Hl Hlast H; [reflexivity|].
    inversion Hl as [|? ? He Hl']; subst. cbn [pmon] in H. apply andb_true_iff in H. destruct H as [H1 H2].
    cbn [map opmon]. rewrite (IH (Some e) Hl' He H2 : opmon sids (Some (abs e)) (map abs l) = true), andb_true_r.
    destruct e as [r|r|k v r|k i r|k v r]; cbn [abs_event]; try reflexivity.
    destruct last as [[r'|r'|k' v' r'|k' i r'|k' v' r']|]; try discriminate.
    destruct r'; try discriminate. apply andb_true_iff in H1. destruct H1 as [Hk Hv].
    apply stream_eqb_eq in Hk. subst k'. apply Nat.eqb_eq in Hv. subst v.
    cbn [option_map abs_event]. rewrite stream_of_k_k, Nat2N.id. cbn [Nat.pred].
    cbn in Hlast. rewrite <- sids_len in Hlast.
    assert (Hnz : N.eqb (sid_at sids k i) 0 = false) by (apply N.eqb_neq, sids_nonzero, Hlast).
    rewrite Hnz, N.eqb_refl. cbn [negb andb]. destruct (N.of_nat (S i)) eqn:E; [lia|reflexivity].
  Qed.

  Lemma plog_valid who (l : list (bool * event)) : Forall (fun e => ev_valid (snd e)) l -> Forall ev_valid (plog who l).
  Proof.
    unfold plog. induction l as [|e l IH]; intros H; cbn; [constructor|]. inversion H; subst.
    destruct (Bool.eqb (fst e) who); cbn; [constructor; auto|auto].
  Qed.

  Lemma oplog_abs who (l : list (bool * event)) :
    oplog who (map (fun e => (fst e, abs (snd e))) l) = map abs (plog who l).
  Proof.
    unfold oplog, plog. induction l as [|e l IH]; cbn; [reflexivity|].
    destruct (Bool.eqb (fst e) who); cbn; now rewrite IH.
  Qed.

  Theorem conc_oracle_accepts c sched (d : db cat) who :
    opmon sids None (oplog who (map (fun e => (fst e, abs (snd e)))
                                  (snd (conc_run cat stmt exec pexec scripts c sched (proc0 c) (proc0 c) d)))) = true.
  Proof.
    rewrite oplog_abs. apply (pmon_opmon _ None); [apply plog_valid, conc_valid|exact I|].
    destruct (conc_version_after_own_script cat stmt exec pexec scripts c sched d) as [Hp Hq].
    destruct who; assumption.
  Qed.
End ConcObs.
