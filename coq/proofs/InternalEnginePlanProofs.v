(* C09, round 8: model/InternalEnginePlan.v -- the order planAggregators gives the aggregator stages, and the seed's order
   (regrouping before the range aggregation for sum over count_over_time / bytes_over_time) refuted on a witness. *)
From Coq Require Import List ZArith NArith Bool String Ascii Lia.
From Qryn Require Import model.InternalEngine model.InternalEnginePlan.
Import ListNotations.
Open Scope Z_scope.

Section PLANPROOFS.
  Variable V : Type.

  (* the comparison written inside a vector aggregation sits between the range aggregation and the regrouping: it sees one
     series per label set the pipeline produced, not the groups *)
  Lemma plan_agg_shape (a : aggq V) :
    exists range_stage,
      plan_range V (aq_range a) = range_stage ++ cmp_stage V (rq_cmp (aq_range a)) /\
      plan_agg V a = range_stage ++ cmp_stage V (rq_cmp (aq_range a)) ++ bw_stage V (agg_bw V a) ++
                     [SAgg V (KAggOp (aq_fn a)) (rq_dur (aq_range a))] ++ cmp_stage V (aq_cmp a).
  Proof.
    unfold plan_agg, plan_range. eexists. split; [reflexivity|]. now rewrite <- !app_assoc.
  Qed.

  (* without an inner comparison the two orders hold the same stages (only their order differs) *)
  Lemma group_first_only_moves_the_regrouping (a : aggq V) :
    group_first V a = true -> rq_cmp (aq_range a) = None ->
    plan_agg V a = [SAgg V (KLra (rq_lra (aq_range a))) (rq_dur (aq_range a))] ++ bw_stage V (agg_bw V a) ++
                   [SAgg V (KAggOp (aq_fn a)) (rq_dur (aq_range a))] ++ cmp_stage V (aq_cmp a) /\
    plan_agg_group_first V a = bw_stage V (agg_bw V a) ++ [SAgg V (KLra (rq_lra (aq_range a))) (rq_dur (aq_range a))] ++
                   [SAgg V (KAggOp (aq_fn a)) (rq_dur (aq_range a))] ++ cmp_stage V (aq_cmp a).
  Proof.
    destruct a as [fn pre suf cm [unw lra uagg dur rpre rsuf rcmp]]. cbn. intros G C. subst rcmp.
    unfold plan_agg_group_first, plan_agg, plan_range, group_first in *. cbn in *.
    destruct fn, unw, lra; try discriminate; cbn; rewrite ?app_nil_r; split; reflexivity.
  Qed.
End PLANPROOFS.

(* ------------------------------------------------------------------------------------------------------------------ *)
(* the witness: sum by (lvl) (count_over_time({app="x"} | json [60s]) > 1) over two lines that carry lvl="warn" and
   different hosts.  LogQL: two series with count 1 each, neither is > 1, the answer is empty.  Regrouping first: one series
   {lvl="warn"} with count 2, which passes.  Values are integers here (the counts are whole numbers on both engines). *)
Definition zsem := sem_chain Z 0 1 Z.add Z.div Z.ltb Z.leb Z.eqb (fun z => z)
                             (fun _ => 0%N) (fun _ _ => false) (fun _ => None) (fun _ _ => None) (fun _ _ => None).
Definition w_ctx : ctx := {| c_from := 0; c_to := 60000000000; c_limit := 100 |}.
Definition w_entry (host : string) (ts : Z) : entry Z :=
  {| e_ts := ts; e_fp := 0%N; e_lbl := Some [("app", "x"); ("host", host); ("lvl", "warn")]%string; e_msg := "m"%string; e_val := 0; e_err := ENone |}.
Definition w_in : list (entry Z) := [w_entry "a" 1000000000; w_entry "b" 2000000000].
Definition w_query : aggq Z :=
  {| aq_fn := ASum; aq_pre := Some (true, ["lvl"%string]); aq_suf := None; aq_cmp := None;
     aq_range := {| rq_unwrap := false; rq_lra := LCount; rq_uagg := UOther; rq_dur := 60000000000; rq_pre := None; rq_suf := None;
                    rq_cmp := Some (CGt, 1) |} |}.

Lemma w_groups_first : group_first Z w_query = true.
Proof. reflexivity. Qed.
Lemma w_definition_answers_nothing : zsem w_ctx (plan_agg Z w_query) w_in = [].
Proof. vm_compute. reflexivity. Qed.
Lemma w_group_first_answers_a_series :
  map (fun e => (e_lbl Z e, e_val Z e)) (zsem w_ctx (plan_agg_group_first Z w_query) w_in) = [(Some [("lvl", "warn")]%string, 2)].
Proof. vm_compute. reflexivity. Qed.

Theorem group_first_refuted :
  exists (c : ctx) (a : aggq Z) (l : list (entry Z)),
    group_first Z a = true /\ zsem c (plan_agg Z a) l = [] /\ zsem c (plan_agg_group_first Z a) l <> [].
Proof.
  exists w_ctx, w_query, w_in. split; [reflexivity|]. split; [exact w_definition_answers_nothing|].
  intro H. pose proof w_group_first_answers_a_series as W. rewrite H in W. discriminate W.
Qed.

(* hypotheses of group_first_only_moves_the_regrouping met by a non-trivial query: sum by (lvl) (count_over_time(..[60s])) *)
Definition w_plain : aggq Z :=
  {| aq_fn := ASum; aq_pre := Some (true, ["lvl"%string]); aq_suf := None; aq_cmp := Some (CGt, 1);
     aq_range := {| rq_unwrap := false; rq_lra := LCount; rq_uagg := UOther; rq_dur := 60000000000; rq_pre := None; rq_suf := None;
                    rq_cmp := None |} |}.
Example group_first_only_moves_the_regrouping_applies :
  group_first Z w_plain = true /\ rq_cmp (aq_range w_plain) = None /\ plan_agg Z w_plain <> plan_agg_group_first Z w_plain.
Proof. split; [reflexivity|]. split; [reflexivity|]. cbv. discriminate. Qed.
