(* C07, round 7: a plan object processed again with another window (seeded change C07-g).

   QueryRangeService.Tail transpiles a query once and calls Process on the one plan object every second with a context of
   its own (from = last delivered timestamp + 1, to = now).  The planners are values of the model: process p c builds the
   statement from the context it is handed, so the statement of the second call is log_select q c2, and the theorems of this
   property apply to it as they are (the re-execution itself is C14's subject).  The seeded LabelFilterPlanner keeps the
   select of its FIRST call in the field MainReq and answers every later call with it: the variant "the window c2 is answered
   by the statement planned for c1" is reuse_correct below; reuse_stmt is logql_log_partial_parsers word for word for it.
   It is refuted by the witness of the seed's demonstration (and of corpus/C07/sem.jsonl): two windows of ten seconds, two
   lines in the first, one in the second. *)
From Coq Require Import List ZArith QArith String Ascii Bool Lia Permutation.
From Qryn Require Import lib.Strs model.Sql model.Logql model.LogqlPlan model.SqlEval model.LogqlSem proofs.LogqlSemProofs.
Import ListNotations.
Open Scope string_scope.
Open Scope Z_scope.

(* the rows for window c2 are read with the statement planned for c1 *)
Definition reuse_correct {RG : ReGroups} (re_match : string -> string -> bool) (parse_float : string -> option QArith_base.Q)
    (json_get : string -> list string -> string) (hash_labels : labels -> Z)
    (tie : forall A : Type, list A -> list A) (q : strsel) (c1 c2 : pctx) (d : database) : Prop :=
  exists sel rows outs,
    log_select q c1 = Some sel
    /\ eval re_match parse_float json_get hash_labels tie (to_sqldb c2 d) sel = Some rows
    /\ map row_out rows = map Some outs
    /\ logql_sem2 re_match parse_float json_get hash_labels q c2 d outs.

(* two contexts that differ in the window only *)
Definition same_but_window (c1 c2 : pctx) : Prop :=
  c2 = {| c_from_ns := c_from_ns c2; c_to_ns := c_to_ns c2; c_limit := c_limit c1; c_asc := c_asc c1; c_cluster := c_cluster c1;
          c_type := c_type c1; c_finalize := c_finalize c1; c_step_ns := c_step_ns c1; t_gin := t_gin c1; t_samples := t_samples c1;
          t_ts := t_ts c1; t_ts_dist := t_ts_dist c1; t_m15 := t_m15 c1 |}.

Definition reuse_stmt : Prop :=
  forall (RG : ReGroups) re_match parse_float json_get hash_labels (tie : forall A : Type, list A -> list A),
    (forall A (l : list A), Permutation (tie A l) l) ->
    forall q c1 c2 d, in_fragment2 q = true -> oracle_ok re_match parse_float q -> ctx_ok c1 = true -> ctx_ok c2 = true ->
    same_but_window c1 c2 -> db_ok c1 d -> db_ok c2 d -> width_guard q = true -> absent_guard re_match q d ->
    reuse_correct re_match parse_float json_get hash_labels tie q c1 c2 d.

(* with the window it was planned for the statement is the one of the theorems: nothing else is claimed of it *)
Lemma reuse_same_window {RG : ReGroups} re_match parse_float json_get hash_labels tie q c d :
  reuse_correct re_match parse_float json_get hash_labels tie q c c d <-> log_correct2 re_match parse_float json_get hash_labels tie q c d.
Proof. reflexivity. Qed.

(* ---------- the witness: {app="shop"} | drop pod | app="shop", windows [t0, t0+10s) and [t0+10s, t0+20s) ---------- *)
Definition r_ctx (f t : Z) : pctx :=
  {| c_from_ns := f; c_to_ns := t; c_limit := 0; c_asc := true; c_cluster := false;
     c_type := 1; c_finalize := true; c_step_ns := 1000000000; t_gin := "time_series_gin"; t_samples := "samples_v3";
     t_ts := "time_series"; t_ts_dist := "time_series"; t_m15 := "metrics_15s" |}.
Definition r_c1 : pctx := r_ctx 1700000000000000000 1700000010000000000.
Definition r_c2 : pctx := r_ctx 1700000010000000000 1700000020000000000.
Definition r_series : series_row := {| ts_day := 19675; ts_fp := 7; ts_labels := [("app", "shop")]; ts_type := 1 |}.
Definition r_line (n : Z) (l : string) : sample := {| x_fp := 7; x_ts := 1700000000000000000 + n * 1000000000; x_line := l; x_type := 1 |}.
Definition r_db : database :=
  {| d_gin := [gin_of r_series ("app", "shop")]; d_series := [r_series];
     d_samples := [r_line 1 "n=1"; r_line 4 "n=2"; r_line 11 "n=3"] |}.
Definition r_query : strsel :=
  {| sel_matchers := [{| m_name := "app"; m_op := MEq; m_val := "shop" |}];
     sel_pipeline := [PDrop [("pod", None)];
                      PLabelFilter (LF (HSimple {| slf_label := "app"; slf_fn := LEq; slf_str := Some "shop"; slf_num := None |}) None None)] |}.
Definition r_out (n : Z) (l : string) : outrow :=
  {| o_fp := 0; o_labels := [("app", "shop")]; o_line := l; o_ts := 1700000000000000000 + n * 1000000000 |}.

Lemma r_db_ok f t : 19675 * 86400 * 1000000000 + 1800 * 1000000000 <= f -> f < 19676 * 86400 * 1000000000 -> db_ok (r_ctx f t) r_db.
Proof.
  intros Hlo Hhi. unfold db_ok, r_db. cbn [d_gin d_series d_samples]. split; [|split; [|split]].
  - intros g. split.
    + intros [<-|[]]. exists r_series, ("app", "shop"). cbn. tauto.
    + intros [s [kv [[<-|[]] [[<-|[]] ->]]]]. now left.
  - intros s1 s2 [<-|[]] [<-|[]] _. reflexivity.
  - intros s [<-|[]]. cbn. constructor; [intros []|constructor].
  - intros x Hx. exists r_series. split; [now left|].
    assert (from_day f <= 19675) as Hd.
    { unfold from_day. apply Z.lt_succ_r. apply Z.div_lt_upper_bound; lia. }
    destruct Hx as [<-|[<-|[<-|[]]]]; (split; [reflexivity|split; [reflexivity|exact Hd]]).
Qed.

Lemma r_guards : in_fragment2 r_query = true /\ oracle_ok no_re no_float r_query /\ ctx_ok r_c1 = true /\ ctx_ok r_c2 = true
  /\ same_but_window r_c1 r_c2 /\ db_ok r_c1 r_db /\ db_ok r_c2 r_db /\ width_guard r_query = true /\ absent_guard no_re r_query r_db.
Proof.
  split; [reflexivity|]. split.
  { intros s Hs. cbn in Hs. destruct Hs as [<-|[<-|[]]]; cbn; try tauto. split; [intros He; discriminate|exact I]. }
  split; [reflexivity|]. split; [reflexivity|]. split; [reflexivity|].
  split; [apply r_db_ok; lia|]. split; [apply r_db_ok; lia|]. split; [reflexivity|].
  intros m Hm He s Hs. cbn in Hm. destruct Hm as [<-|[]]. vm_compute in He. discriminate.
Qed.

(* each call's OWN statement returns the lines of its own window ... *)
Lemma r_own_answers :
  (exists sel, log_select r_query r_c1 = Some sel
     /\ option_map (map row_out) (eval no_re no_float no_json no_hash tie_id (to_sqldb r_c1 r_db) sel) = Some [Some (r_out 1 "n=1"); Some (r_out 4 "n=2")])
  /\ (exists sel, log_select r_query r_c2 = Some sel
     /\ option_map (map row_out) (eval no_re no_float no_json no_hash tie_id (to_sqldb r_c2 r_db) sel) = Some [Some (r_out 11 "n=3")]).
Proof. split; eexists; (split; [vm_compute; reflexivity|vm_compute; reflexivity]). Qed.
(* ... the first call's statement, sent again for the second window, returns the lines of the first *)
Lemma r_stale_answer :
  exists sel, log_select r_query r_c1 = Some sel
    /\ option_map (map row_out) (eval no_re no_float no_json no_hash tie_id (to_sqldb r_c2 r_db) sel) = Some [Some (r_out 1 "n=1"); Some (r_out 4 "n=2")]
    /\ log_rows2 no_re no_float no_json no_hash r_query r_c2 r_db = [r_out 11 "n=3"].
Proof. eexists. split; [vm_compute; reflexivity|]. split; vm_compute; reflexivity. Qed.

Theorem reused_first_statement_refuted_proof : ~ reuse_stmt.
Proof.
  intros H. destruct r_guards as [H1 [H2 [H3 [H4 [H5 [H6 [H7 [H8 H9]]]]]]]].
  destruct (H no_groups no_re no_float no_json no_hash tie_id (fun A l => Permutation_refl l) r_query r_c1 r_c2 r_db H1 H2 H3 H4 H5 H6 H7 H8 H9)
    as [sel [rows [outs [Hsel [Hev [Hout Hsem]]]]]].
  destruct r_stale_answer as [sel' [Hsel' [Hev' Hrows]]]. rewrite Hsel in Hsel'. injection Hsel' as <-.
  rewrite Hev in Hev'. cbn [option_map] in Hev'. injection Hev' as Hev'. rewrite Hout in Hev'.
  unfold logql_sem2 in Hsem. cbn [c_limit r_c2 r_ctx Z.eqb] in Hsem. rewrite Hrows in Hsem.
  apply Permutation_length in Hsem. apply (f_equal (@List.length _)) in Hev'. rewrite map_length in Hev'.
  cbn in Hev', Hsem. lia.
Qed.
