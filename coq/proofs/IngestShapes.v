(* C02: which request shapes reach the process-death conditions of the insert path that the model has (an
   index-out-of-range panic), stated as theorems: the time-series closure (MLabels[i] for i over MDate) and
   ConfirmSeries (MFingerprint[i], MType[i] for i over MDate).  Tables -- the hypothesis of blocks_good -- reach neither. *)
From Coq Require Import List NArith ZArith Bool Lia.
From Qryn Require Import model.Ingest model.PushHandler model.IngestSpec model.IngestSched model.PushConfirm
  proofs.IngestBase proofs.IngestAck proofs.IngestSpecProofs.
Import ListNotations.

(* ProcessRequest panics exactly for a time-series request whose MLabels is shorter than its MDate *)
Theorem process_request_panics_iff k r :
  eff k r = None <->
  k = KSeries /\ (length (nth 3 (fit (ncols KSeries) r) []) < length (nth 1 (fit (ncols KSeries) r) []))%nat.
Proof.
  split.
  - intros H. destruct k; unfold eff in H; try discriminate. unfold eff_series in H. cbv zeta in H.
    match type of H with context [if ?c then _ else _] => destruct c eqn:E end; [|discriminate].
    split; [reflexivity|]. apply Nat.ltb_lt. exact E.
  - intros [-> H]. unfold eff, eff_series. cbv zeta. apply Nat.ltb_lt in H. rewrite H. reflexivity.
Qed.

Lemma nth_table n rids j : (j < n)%nat -> nth j (table_of n rids) [] = map (fun rid => (rid, j)) rids.
Proof.
  intros H. unfold table_of. rewrite nth_table_gen by assumption. reflexivity.
Qed.

(* a table reaches neither panic: ProcessRequest appends it as it is, and ConfirmSeries reads one key per row *)
Theorem tables_reach_no_panic k r : wf_reqb k r = true ->
  eff k r = Some r /\ (k = KSeries -> confirm_keys r = Some (rids_of r)).
Proof.
  unfold wf_reqb. intros H. apply block_eqb_eq in H. remember (rids_of r) as rids eqn:Er. clear Er. subst r. split.
  - apply eff_table.
  - intros ->. unfold confirm_keys. change (ncols KSeries) with 4%nat. rewrite !nth_table by lia.
    rewrite !map_length, Nat.ltb_irrefl. cbn [orb]. rewrite map_map. cbn [fst]. now rewrite map_id.
Qed.

(* hence the hypothesis of blocks_good / ack_sound (requests are tables) implies the no-panic part of the hypothesis of the
   liveness theorems *)
Theorem wf_requests_are_live k r : wf_reqb k r = true -> opt_some (eff k r) = true.
Proof. intros H. destruct (tables_reach_no_panic _ _ H) as [-> _]. reflexivity. Qed.

(* ConfirmSeries panics exactly when MFingerprint or MType is shorter than MDate *)
Theorem confirm_series_panics_iff r :
  confirm_keys r = None <-> (length (nth 2 r []) < length (nth 1 r []))%nat \/ (length (nth 0 r []) < length (nth 1 r []))%nat.
Proof.
  unfold confirm_keys. destruct (Nat.ltb_spec (length (nth 2 r [])) (length (nth 1 r []))) as [A|A];
    destruct (Nat.ltb_spec (length (nth 0 r [])) (length (nth 1 r []))) as [B|B]; cbn [orb].
  - split; [intros _; left; assumption|reflexivity].
  - split; [intros _; left; assumption|reflexivity].
  - split; [intros _; right; assumption|reflexivity].
  - split; [discriminate|]. intros [X|X]; lia.
Qed.

(* the shapes exist: witnesses that are accepted by the struct types but kill the process *)
Example panic_shapes :
  eff KSeries [[(1%N, 0%nat)]; [(1%N, 1%nat)]; [(1%N, 2%nat)]; []] = None /\
  eff KSeries [[(1%N, 0%nat)]; [(1%N, 1%nat)]; []; [(1%N, 3%nat)]] <> None /\
  confirm_keys [[(1%N, 0%nat)]; [(1%N, 1%nat)]; []; [(1%N, 3%nat)]] = None.
Proof. split; [reflexivity|]. split; [discriminate|reflexivity]. Qed.
