(* C10 — value-independence of the TraceQL planner model (model/TraceqlPlan.v, C11) for single-selector requests. *)
From Coq Require Import List ZArith NArith String Ascii Bool Lia.
From Qryn Require Import lib.Strs model.Quote model.ChLex model.SqlSites model.SqlPieces model.TqSql model.TqPieces model.Traceql model.TraceqlPlan.
From Qryn Require Import proofs.QuoteProofs proofs.SqlPiecesProofs proofs.TqPiecesProofs.
Import ListNotations.
Open Scope string_scope.
Open Scope list_scope.

Notation K := (fun _ : string => EmptyString).

Lemma tq_erased_equal_same_structure s s' :
  tq_erase_sel s = tq_erase_sel s' -> pok QN (tq_pieces s) = true ->
  pok QN (tq_pieces s') = true /\ shape (tq_pieces s') = shape (tq_pieces s) /\
  skeleton (lex (TqSql.render s')) = skeleton (lex (TqSql.render s)) /\
  lex (TqSql.render s') = etoks QN (tq_pieces s') /\
  List.length (rvalues (tq_pieces s')) = List.length (rvalues (tq_pieces s)).
Proof.
  unfold tq_erase_sel. intros He Hok.
  pose proof (tq_pieces_subst K s) as H1. pose proof (tq_pieces_subst K s') as H2. rewrite He, H2 in H1.
  set (p := tq_pieces s) in *. set (p' := tq_pieces s') in *.
  assert (Hsh : shape p' = shape p) by (rewrite <- (shape_pm K p'), <- (shape_pm K p), H1; reflexivity).
  assert (Hq : forallb (all_chars plain_char) (rqids p') = true).
  { rewrite <- (rqids_pm K p'), H1, rqids_pm. exact (pok_plain_qids p QN Hok). }
  destruct (same_shape_same_skeleton p p' (eq_sym Hsh) Hq Hok) as [Hok' Hsk].
  rewrite !tq_render_pieces. fold p p'.
  split; [exact Hok'|]. split; [exact Hsh|]. split; [exact Hsk|]. split; [exact (lex_pieces p' Hok')|].
  assert (Hl : forall a, List.length (rvalues (pm K a)) = List.length (rvalues a)) by (intro a; rewrite rvalues_pm; apply map_length).
  rewrite <- (Hl p'), <- (Hl p), H1. reflexivity.
Qed.

(* ---------- the builder functions commute with a replacement of the values ---------- *)
Section TqCommute.
  Variable f : string -> string.
  Notation F := (tq_subst f).
  Notation Fs := (tq_subst_sel f).
  Notation mwq := (map (fun w : string * select => (fst w, Fs (snd w)))).

  Lemma tFs_withs s : s_withs (Fs s) = mwq (s_withs s).
  Proof. destruct s; reflexivity. Qed.
  Lemma tFs_cols s : s_cols (Fs s) = map F (s_cols s).
  Proof. destruct s; reflexivity. Qed.
  Lemma tFs_set_cols c s : Fs (set_cols c s) = set_cols (map F c) (Fs s).
  Proof. destruct s; reflexivity. Qed.
  Lemma tFs_set_limit l s : Fs (set_limit l s) = set_limit (F l) (Fs s).
  Proof. destruct s; reflexivity. Qed.
  Lemma tFs_set_order l s : Fs (set_order l s) = set_order (map F l) (Fs s).
  Proof. destruct s; reflexivity. Qed.

  Lemma tF_and_into o cl : map_opt F (and_into o cl) = and_into (map_opt F o) (map F cl).
  Proof.
    destruct o as [e|]; [|reflexivity].
    destruct e; try reflexivity. destruct fn; try reflexivity.
    cbn [and_into map_opt tq_subst]. rewrite map_app. reflexivity.
  Qed.
  Lemma tFs_and_where cl s : Fs (and_where cl s) = and_where (map F cl) (Fs s).
  Proof. destruct s. cbn [and_where tq_subst_sel]. rewrite tF_and_into. reflexivity. Qed.
  Lemma tFs_and_having cl s : Fs (and_having cl s) = and_having (map F cl) (Fs s).
  Proof. destruct s. cbn [and_having tq_subst_sel]. rewrite tF_and_into. reflexivity. Qed.

  Lemma mwq_exists a l : existsb (fun x : string * select => String.eqb (fst x) a) (mwq l) = existsb (fun x => String.eqb (fst x) a) l.
  Proof. induction l as [|[b q] l IH]; [reflexivity|]. cbn [map existsb fst]. now rewrite IH. Qed.

  Lemma mwq_add_with : forall fuel cur w, mwq (add_with fuel cur w) = add_with fuel (mwq cur) (fst w, Fs (snd w)).
  Proof.
    induction fuel as [|fuel IH]; intros cur w; cbn [add_with fst snd]; rewrite mwq_exists;
      destruct (existsb (fun x : string * select => String.eqb (fst x) (fst w)) cur); try reflexivity.
    - rewrite map_app. reflexivity.
    - rewrite map_app. cbn [map fst snd]. f_equal. rewrite tFs_withs.
      generalize (s_withs (snd w)). intro ws. revert cur. induction ws as [|x ws IHw]; intro cur; [reflexivity|].
      cbn [fold_left map]. rewrite IHw, IH. reflexivity.
  Qed.

  Lemma mwq_fold fuel ws : forall cur, mwq (fold_left (add_with fuel) ws cur) = fold_left (add_with fuel) (mwq ws) (mwq cur).
  Proof. induction ws as [|x ws IH]; intro cur; [reflexivity|]. cbn [fold_left map]. rewrite IH, mwq_add_with. reflexivity. Qed.

  Lemma tFs_set_with ws s : Fs (set_with ws s) = set_with (mwq ws) (Fs s).
  Proof. destruct s. cbn [set_with tq_subst_sel]. rewrite mwq_fold. reflexivity. Qed.
End TqCommute.

(* ---------- requests that differ only in their values ---------- *)
(* what the planners ask about a label: its scope prefix, "duration", "name" *)
Definition label_class (l : string) : bool * bool * bool * bool * bool :=
  (has_prefix "span." l, has_prefix "resource." l, has_prefix "." l, String.eqb l "duration", String.eqb l "name").

(* two terms that differ only in the attribute name behind the scope prefix and in a quoted value: same operator, same kind of label,
   and either the same value, or two quoted strings (both decodable or both not) *)
Definition term_variant (t t' : attr_sel) : Prop :=
  label_class (a_label t) = label_class (a_label t') /\ a_op t = a_op t' /\
  (a_val t = a_val t' \/
   (v_str (a_val t) <> None /\ v_str (a_val t') <> None /\ (unquoted (a_val t) = None <-> unquoted (a_val t') = None) /\
    v_time (a_val t) = v_time (a_val t') /\ v_dur (a_val t) = v_dur (a_val t'))).

Definition res_rel {A} (R : A -> A -> Prop) (r r' : result A) : Prop :=
  match r, r' with
  | Ok a, Ok a' => R a a'
  | Err e, Err e' => e = e'
  | Panic, Panic => True
  | _, _ => False
  end.

Definition esame (e e' : expr) : Prop := tq_erase e = tq_erase e'.
Definition lsame (l l' : list expr) : Prop := map tq_erase l = map tq_erase l'.
Definition ssame (s s' : select) : Prop := tq_erase_sel s = tq_erase_sel s'.

Lemma class_fields l l' : label_class l = label_class l' ->
  has_prefix "span." l = has_prefix "span." l' /\ has_prefix "resource." l = has_prefix "resource." l' /\
  has_prefix "." l = has_prefix "." l' /\ String.eqb l "duration" = String.eqb l' "duration" /\ String.eqb l "name" = String.eqb l' "name".
Proof. unfold label_class. intro H. injection H as H1 H2 H3 H4 H5. auto. Qed.

Lemma E_key_clause k k' : esame (key_clause k) (key_clause k').
Proof. reflexivity. Qed.

Lemma E_get_term_num t t' k k' : a_op t = a_op t' -> a_val t = a_val t' -> res_rel esame (get_term_num t k) (get_term_num t' k').
Proof.
  intros Ho Hv. unfold get_term_num. rewrite Ho, Hv.
  destruct (a_op t'); cbn [bind res_rel]; try reflexivity; destruct (num_text (a_val t')); cbn [res_rel]; reflexivity.
Qed.

Lemma E_get_term_str t t' k k' : a_op t = a_op t' -> (unquoted (a_val t) = None <-> unquoted (a_val t') = None) ->
  res_rel esame (get_term_str t k) (get_term_str t' k').
Proof.
  intros Ho [Hu1 Hu2]. unfold get_term_str. rewrite Ho.
  destruct (unquoted (a_val t)) as [s|] eqn:E1; destruct (unquoted (a_val t')) as [s'|] eqn:E2.
  - destruct (a_op t'); cbn [res_rel]; reflexivity.
  - specialize (Hu2 eq_refl). discriminate.
  - specialize (Hu1 eq_refl). discriminate.
  - destruct (a_op t'); cbn [res_rel]; reflexivity.
Qed.

Lemma E_get_term_duration t t' : a_op t = a_op t' -> a_val t = a_val t' -> res_rel esame (get_term_duration t) (get_term_duration t').
Proof.
  intros Ho Hv. unfold get_term_duration. rewrite Ho, Hv.
  destruct (String.eqb (v_time (a_val t')) ""); [reflexivity|].
  destruct (dur_ns (a_val t')); [|reflexivity].
  destruct (a_op t'); cbn [comparison_fn bind res_rel]; reflexivity.
Qed.

Lemma unquoted_none v : v_str v = None -> unquoted v = None.
Proof. unfold unquoted. intro H. now rewrite H. Qed.

Lemma E_get_term t t' : term_variant t t' -> res_rel esame (get_term t) (get_term t').
Proof.
  intros [Hc [Ho Hv]]. destruct (class_fields _ _ Hc) as [H1 [H2 [H3 [H4 H5]]]].
  assert (Hstr : res_rel esame (match v_str (a_val t) with Some _ => get_term_str t "name" | None => if negb (String.eqb (v_f (a_val t)) "") then get_term_num t "name" else Err EUnsupportedStmt end)
                               (match v_str (a_val t') with Some _ => get_term_str t' "name" | None => if negb (String.eqb (v_f (a_val t')) "") then get_term_num t' "name" else Err EUnsupportedStmt end)
          /\ forall k k', res_rel esame (match v_str (a_val t) with Some _ => get_term_str t k | None => if negb (String.eqb (v_f (a_val t)) "") then get_term_num t k else Err EUnsupportedStmt end)
                               (match v_str (a_val t') with Some _ => get_term_str t' k' | None => if negb (String.eqb (v_f (a_val t')) "") then get_term_num t' k' else Err EUnsupportedStmt end)).
  { assert (G : forall k k', res_rel esame (match v_str (a_val t) with Some _ => get_term_str t k | None => if negb (String.eqb (v_f (a_val t)) "") then get_term_num t k else Err EUnsupportedStmt end)
                               (match v_str (a_val t') with Some _ => get_term_str t' k' | None => if negb (String.eqb (v_f (a_val t')) "") then get_term_num t' k' else Err EUnsupportedStmt end)).
    { intros k k'. destruct Hv as [Hv|[Hs [Hs' [Hu _]]]].
      - rewrite Hv. destruct (v_str (a_val t')) eqn:Es.
        + apply E_get_term_str; [exact Ho|]. rewrite Hv. tauto.
        + destruct (negb (String.eqb (v_f (a_val t')) "")); [|reflexivity]. apply E_get_term_num; assumption.
      - destruct (v_str (a_val t)); [|contradiction]. destruct (v_str (a_val t')); [|contradiction].
        apply E_get_term_str; assumption. }
    split; [apply G|exact G]. }
  destruct Hstr as [Hname Hkey].
  unfold get_term, strip_scope. rewrite H1, H2, H3, H4, H5.
  destruct (has_prefix "span." (a_label t')); [apply Hkey|].
  destruct (has_prefix "resource." (a_label t')); [apply Hkey|].
  destruct (has_prefix "." (a_label t')); [apply Hkey|].
  destruct (String.eqb (a_label t') "duration").
  - destruct Hv as [Hv|[Hs [Hs' [Hu [Ht Hd]]]]]; [apply E_get_term_duration; assumption|].
    (* a quoted value on duration: the time fields decide, and they are the same *)
    unfold get_term_duration, dur_ns. rewrite Ho, Ht, Hd.
    destruct (String.eqb (v_time (a_val t')) ""); [reflexivity|].
    destruct (match parse_duration_dec (v_time (a_val t')) with Some r => r | None => v_dur (a_val t') end); [|reflexivity].
    destruct (a_op t'); cbn [comparison_fn bind res_rel]; reflexivity.
  - destruct (String.eqb (a_label t') "name"); [exact Hname|reflexivity].
Qed.

Lemma E_map_res terms terms' : Forall2 term_variant terms terms' -> res_rel lsame (map_res get_term terms) (map_res get_term terms').
Proof.
  induction 1 as [|t t' l l' Hv _ IH]; [reflexivity|].
  cbn [map_res]. pose proof (E_get_term t t' Hv) as Ht.
  destruct (get_term t) as [e| |]; destruct (get_term t') as [e'| |]; cbn [res_rel bind] in *; try contradiction; try assumption; try exact I.
  destruct (map_res get_term l) as [es| |]; destruct (map_res get_term l') as [es'| |]; cbn [res_rel bind] in *; try contradiction; try assumption; try exact I.
  unfold lsame in *. cbn [map]. unfold esame in Ht. now rewrite Ht, IH.
Qed.

Lemma indexed_class l l' : label_class l = label_class l' -> is_indexed_label l = is_indexed_label l'.
Proof. intro H. destruct (class_fields _ _ H) as [H1 [H2 [H3 [_ H5]]]]. unfold is_indexed_label. now rewrite H1, H2, H3, H5. Qed.

Lemma E_where0 terms terms' : Forall2 term_variant terms terms' -> forall cs cs', lsame cs cs' ->
  lsame (map snd (filter (fun p => is_indexed_label (a_label (fst p))) (combine terms cs)))
        (map snd (filter (fun p => is_indexed_label (a_label (fst p))) (combine terms' cs'))).
Proof.
  induction 1 as [|t t' l l' Hv _ IH]; intros cs cs' Hc; [reflexivity|].
  destruct cs as [|c cs]; destruct cs' as [|c' cs']; try discriminate; [reflexivity|].
  unfold lsame in Hc. cbn [map] in Hc. injection Hc as Hc1 Hc2.
  cbn [combine filter fst]. destruct Hv as [Hcl _]. rewrite (indexed_class _ _ Hcl).
  destruct (is_indexed_label (a_label t')); [|apply IH; exact Hc2].
  unfold lsame. cbn [map snd]. rewrite Hc1. f_equal. apply IH. exact Hc2.
Qed.

Lemma E_get_cond cs cs' : lsame cs cs' -> forall cd a,
  esame (fst (get_cond cs cd a)) (fst (get_cond cs' cd a)) /\ snd (get_cond cs cd a) = snd (get_cond cs' cd a).
Proof.
  intro Hc. induction cd as [idx|op l IHl r IHr]; intro a.
  - cbn [get_cond fst snd]. split; [|reflexivity]. destruct a; [reflexivity|].
    unfold esame, tq_erase. cbn [tq_subst map]. unfold lsame, tq_erase in Hc. rewrite Hc. reflexivity.
  - cbn [get_cond]. destruct (IHl a) as [Hl1 Hl2].
    destruct (get_cond cs l a) as [el a1]. destruct (get_cond cs' l a) as [el' a1']. cbn [fst snd] in Hl1, Hl2. subst a1'.
    destruct (IHr a1) as [Hr1 Hr2].
    destruct (get_cond cs r a1) as [er a2]. destruct (get_cond cs' r a1) as [er' a2']. cbn [fst snd] in *.
    split; [|exact Hr2]. unfold esame, tq_erase in *. cbn [tq_subst map]. now rewrite Hl1, Hr1.
Qed.

Lemma Forall2_nth_error {A} (R : A -> A -> Prop) l l' : Forall2 R l l' -> forall i,
  match nth_error l i, nth_error l' i with Some x, Some y => R x y | None, None => True | _, _ => False end.
Proof. induction 1 as [|x y l l' H _ IH]; intros [|i]; cbn [nth_error]; auto. apply IH. Qed.

Lemma E_holds terms terms' : Forall2 term_variant terms terms' -> forall cd,
  holds_without_indexed terms cd = holds_without_indexed terms' cd.
Proof.
  intros H cd. induction cd as [idx|op l IHl r IHr]; cbn [holds_without_indexed].
  - pose proof (Forall2_nth_error _ _ _ H idx) as Hn.
    destruct (nth_error terms idx) as [t|]; destruct (nth_error terms' idx) as [t'|]; try contradiction; [|reflexivity].
    destruct Hn as [Hc _]. destruct (class_fields _ _ Hc) as [_ [_ [_ [H4 _]]]]. exact H4.
  - rewrite IHl, IHr. reflexivity.
Qed.

Lemma lsame_app a a' b b' : lsame a a' -> lsame b b' -> lsame (a ++ b) (a' ++ b').
Proof. unfold lsame. intros H1 H2. now rewrite !map_app, H1, H2. Qed.
Lemma lsame_nil_inv a a' : lsame a a' -> (a = [] <-> a' = []).
Proof. unfold lsame. destruct a, a'; cbn [map]; intro H; split; intro E; try reflexivity; try discriminate. Qed.

(* AttrConditionPlanner.Process *)
Lemma E_attr_condition c terms terms' cond agg n : Forall2 term_variant terms terms' ->
  res_rel ssame (attr_condition c terms cond agg n) (attr_condition c terms' cond agg n).
Proof.
  intro H. unfold attr_condition. pose proof (E_map_res terms terms' H) as Hm.
  destruct (map_res get_term terms) as [cs| |]; destruct (map_res get_term terms') as [cs'| |]; cbn [res_rel bind] in *; try contradiction; try assumption; try exact I.
  destruct cond as [cd|]; [|exact I].
  destruct (E_get_cond cs cs' Hm cd false) as [Hh _].
  destruct (get_cond cs cd false) as [having x]. destruct (get_cond cs' cd false) as [having' x']. cbn [fst] in Hh.
  destruct (agg_step agg) as [extra aggcol].
  set (main1 := match aggcol with Some col => set_cols (s_cols (init_index c) ++ [col]) (init_index c) | None => init_index c end).
  pose proof (E_where0 terms terms' H cs cs' Hm) as Hw.
  set (w0 := map snd (filter (fun p => is_indexed_label (a_label (fst p))) (combine terms cs))) in *.
  set (w0' := map snd (filter (fun p => is_indexed_label (a_label (fst p))) (combine terms' cs'))) in *.
  assert (Hwh : lsame (w0 ++ extra) (w0' ++ extra)) by (apply lsame_app; [exact Hw|reflexivity]).
  assert (Hhv : ssame (and_having [having] main1) (and_having [having'] main1)).
  { unfold ssame, tq_erase_sel. rewrite !tFs_and_having. cbn [map]. unfold esame, tq_erase in Hh. now rewrite Hh. }
  assert (H2 : ssame (match w0 ++ extra with
                      | [] => and_having [having] main1
                      | _ => if holds_without_indexed terms cd then and_having [having] main1
                             else and_where [LOp OOr (w0 ++ extra)] (and_having [having] main1) end)
                     (match w0' ++ extra with
                      | [] => and_having [having'] main1
                      | _ => if holds_without_indexed terms' cd then and_having [having'] main1
                             else and_where [LOp OOr (w0' ++ extra)] (and_having [having'] main1) end)).
  { rewrite (E_holds terms terms' H cd). pose proof (lsame_nil_inv _ _ Hwh) as Hn.
    destruct (w0 ++ extra) as [|y ys] eqn:E1; destruct (w0' ++ extra) as [|y' ys'] eqn:E2.
    - exact Hhv.
    - destruct Hn as [Hn _]. specialize (Hn eq_refl). discriminate.
    - destruct Hn as [_ Hn]. specialize (Hn eq_refl). discriminate.
    - destruct (holds_without_indexed terms' cd); [exact Hhv|].
      unfold ssame, tq_erase_sel in *. rewrite !tFs_and_where, Hhv. cbn [map tq_subst]. unfold lsame, tq_erase in Hwh. cbn [map] in Hwh. rewrite Hwh. reflexivity. }
  cbn [res_rel]. destruct (random_filter c) as [|r rs]; [exact H2|].
  unfold ssame, tq_erase_sel in *. rewrite !tFs_and_where, H2. reflexivity.
Qed.

(* ---------- the wrappers around the index statement carry no value of their own ---------- *)
Lemma E_index_groupby p m m' : ssame m m' -> ssame (index_groupby p m) (index_groupby p m').
Proof. unfold ssame, tq_erase_sel, index_groupby. intro H. rewrite !tFs_set_with. cbn [map fst snd]. now rewrite H. Qed.

Lemma E_aggregator g p m m' : ssame m m' -> res_rel ssame (aggregator_planner g p m) (aggregator_planner g p m').
Proof.
  intro H. unfold aggregator_planner. destruct (comparison_fn (g_cmp g)); cbn [bind res_rel]; try reflexivity.
  destruct (agg_cmp_text g); cbn [bind res_rel]; try reflexivity.
  unfold ssame, tq_erase_sel in *. rewrite !tFs_and_having. now rewrite H.
Qed.

Lemma E_index_limit c m m' : ssame m m' -> ssame (index_limit c m) (index_limit c m').
Proof. unfold index_limit. intro H. destruct (Z.eqb (limit c) 0); [exact H|]. unfold ssame, tq_erase_sel in *. rewrite !tFs_set_limit. now rewrite H. Qed.

Lemma E_traces_data c m m' : ssame m m' -> ssame (traces_data c m) (traces_data c m').
Proof. unfold ssame, tq_erase_sel, traces_data. intro H. rewrite !tFs_set_with. cbn [map fst snd]. now rewrite H. Qed.

Lemma E_select_tags c m m' : ssame m m' -> ssame (select_tags c m) (select_tags c m').
Proof.
  unfold ssame, tq_erase_sel, select_tags. intro H.
  destruct (Z.ltb 0 (limit c)).
  - rewrite !tFs_set_limit, !tFs_set_order, !tFs_set_with. cbn [map fst snd]. now rewrite H.
  - rewrite !tFs_set_with. cbn [map fst snd]. now rewrite H.
Qed.

Lemma E_select_values c k k' m m' : ssame m m' -> ssame (select_values c k m) (select_values c k' m').
Proof.
  intro H. pose proof (E_select_tags c m m' H) as Ht. unfold ssame, tq_erase_sel, select_values in *.
  destruct (Z.ltb 0 (limit c)).
  - rewrite !tFs_set_limit, !tFs_set_order, !tFs_and_where, !tFs_set_cols. now rewrite Ht.
  - rewrite !tFs_and_where, !tFs_set_cols. now rewrite Ht.
Qed.

Lemma E_all_values c k k' : ssame (all_values c k) (all_values c k').
Proof. reflexivity. Qed.

(* ---------- single-selector requests ---------- *)
(* two selectors that differ only in values: the term analysis (de-duplication of terms by their text) finds the same condition
   over pointwise variant terms, and the aggregators are the same *)
Definition selector_variant (h h' : selector) : Prop :=
  fst (analyze h) = fst (analyze h') /\ Forall2 term_variant (snd (analyze h)) (snd (analyze h')) /\ sel_agg h = sel_agg h'.

Lemma analyze_none h : fst (analyze h) = None <-> sel_attr h = None.
Proof.
  unfold analyze. destruct (sel_attr h) as [e|]; [|split; reflexivity].
  destruct (analyze_cond e ([], [])) as [c st]. cbn [fst]. split; discriminate.
Qed.

Lemma attr_some_iff h h' : fst (analyze h) = fst (analyze h') -> (sel_attr h = None <-> sel_attr h' = None).
Proof. intro H. rewrite <- !analyze_none, H. tauto. Qed.

Lemma E_check h h' ao ao' : selector_variant h h' -> check (Script h ao None) = check (Script h' ao' None).
Proof.
  intros [Ha [_ Hg]]. pose proof (attr_some_iff h h' Ha) as Hn. unfold check, agg_lacks_attr, tails_have_attr. rewrite Hg.
  destruct (sel_attr h) as [e|]; destruct (sel_attr h') as [e'|]; try reflexivity.
  - destruct Hn as [_ Hn]. specialize (Hn eq_refl). discriminate.
  - destruct Hn as [Hn _]. specialize (Hn eq_refl). discriminate.
Qed.

Lemma E_simple_planner c h h' ao ao' p n : selector_variant h h' ->
  res_rel ssame (simple_planner c (Script h ao None) p n) (simple_planner c (Script h' ao' None) p n).
Proof.
  intro Hv. pose proof (E_check h h' ao ao' Hv) as Hc. destruct Hv as [Ha [Ht Hg]].
  pose proof (attr_some_iff h h' Ha) as Hn.
  unfold simple_planner. rewrite Hc. destruct (check (Script h' ao' None)); cbn [bind res_rel]; try reflexivity.
  cbn [sc_head]. unfold agg_attr_of. rewrite Hg.
  destruct (analyze h) as [cond terms]. destruct (analyze h') as [cond' terms']. cbn [fst snd] in Ha, Ht. subst cond'.
  assert (Hm : res_rel ssame (match sel_attr h with Some _ => attr_condition c terms cond (match sel_agg h' with Some g => g_attr g | None => "" end) n | None => Ok (attrless c) end)
                             (match sel_attr h' with Some _ => attr_condition c terms' cond (match sel_agg h' with Some g => g_attr g | None => "" end) n | None => Ok (attrless c) end)).
  { destruct (sel_attr h) as [e|]; destruct (sel_attr h') as [e'|].
    - apply E_attr_condition. exact Ht.
    - destruct Hn as [_ Hn]. specialize (Hn eq_refl). discriminate.
    - destruct Hn as [Hn _]. specialize (Hn eq_refl). discriminate.
    - reflexivity. }
  destruct (match sel_attr h with Some _ => _ | None => _ end) as [m| |];
  destruct (match sel_attr h' with Some _ => _ | None => _ end) as [m'| |]; cbn [res_rel bind] in *; try contradiction; try assumption; try exact I.
  pose proof (E_index_groupby p m m' Hm) as Hgb.
  destruct (sel_agg h') as [ag|]; [apply E_aggregator; exact Hgb|exact Hgb].
Qed.

(* planner.plan for a request with ONE selector, all three entry points (search, tags, values: the values key may differ too) *)
Definition mode_variant (m m' : mode) : Prop :=
  match m, m' with MSearch, MSearch => True | MTags, MTags => True | MValues _, MValues _ => True | _, _ => False end.

Lemma E_plan c h h' ao ao' m m' n : selector_variant h h' -> mode_variant m m' ->
  res_rel ssame (plan (Script h ao None) m c n) (plan (Script h' ao' None) m' c n).
Proof.
  intros Hv Hm. destruct m as [| |k]; destruct m' as [| |k']; try contradiction; cbn [plan sc_tail sc_head].
  - unfold plan_search, plan_index. cbn [sc_tail].
    pose proof (E_simple_planner c h h' ao ao' "" n Hv) as Hs.
    destruct (simple_planner c (Script h ao None) "" n) as [s| |]; destruct (simple_planner c (Script h' ao' None) "" n) as [s'| |];
      cbn [res_rel bind] in *; try contradiction; try assumption; try exact I.
    apply E_index_limit, E_traces_data, E_index_limit. exact Hs.
  - rewrite (E_check h h' ao ao' Hv). destruct (check (Script h' ao' None)); cbn [bind res_rel]; try reflexivity.
    destruct Hv as [Ha [Ht Hg]]. unfold agg_attr_of. rewrite Hg.
    destruct (analyze h) as [cond terms]. destruct (analyze h') as [cond' terms']. cbn [fst snd] in Ha, Ht. subst cond'.
    pose proof (E_attr_condition c terms terms' cond (match sel_agg h' with Some g => g_attr g | None => "" end) n Ht) as Hc.
    destruct (attr_condition c terms cond _ n) as [s| |]; destruct (attr_condition c terms' cond _ n) as [s'| |];
      cbn [res_rel bind] in *; try contradiction; try assumption; try exact I.
    apply E_select_tags. exact Hc.
  - rewrite (E_check h h' ao ao' Hv). destruct (check (Script h' ao' None)); cbn [bind res_rel]; try reflexivity.
    destruct Hv as [Ha [Ht Hg]]. unfold agg_attr_of. rewrite Hg.
    destruct (analyze h) as [cond terms]. destruct (analyze h') as [cond' terms']. cbn [fst snd] in Ha, Ht. subst cond'.
    destruct cond as [cd|]; [|apply E_all_values].
    pose proof (E_attr_condition c terms terms' (Some cd) (match sel_agg h' with Some g => g_attr g | None => "" end) n Ht) as Hc.
    destruct (attr_condition c terms (Some cd) _ n) as [s| |]; destruct (attr_condition c terms' (Some cd) _ n) as [s'| |];
      cbn [res_rel bind] in *; try contradiction; try assumption; try exact I.
    apply E_select_values. exact Hc.
Qed.

(* the property for the TraceQL planners, single-selector requests: the two plans fail alike, or both give a statement, with the
   same token structure and one literal per value *)
Lemma traceql_planner_value_independent c h h' ao ao' m m' n : selector_variant h h' -> mode_variant m m' ->
  match plan (Script h ao None) m c n, plan (Script h' ao' None) m' c n with
  | Ok s, Ok s' =>
      pok QN (tq_pieces s) = true ->
      pok QN (tq_pieces s') = true /\ shape (tq_pieces s') = shape (tq_pieces s) /\
      skeleton (lex (TqSql.render s')) = skeleton (lex (TqSql.render s)) /\
      lex (TqSql.render s') = etoks QN (tq_pieces s') /\
      List.length (rvalues (tq_pieces s')) = List.length (rvalues (tq_pieces s))
  | Err e, Err e' => e = e'
  | Panic, Panic => True
  | _, _ => False
  end.
Proof.
  intros Hv Hm. pose proof (E_plan c h h' ao ao' m m' n Hv Hm) as H.
  destruct (plan (Script h ao None) m c n) as [s| |]; destruct (plan (Script h' ao' None) m' c n) as [s'| |]; cbn [res_rel] in H; try contradiction; try assumption; try exact I.
  intro Hok. exact (tq_erased_equal_same_structure s s' H Hok).
Qed.
