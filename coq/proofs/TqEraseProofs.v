(* C10 — value-independence of the TraceQL planner model (model/TraceqlPlan.v, C11) for single-selector requests. *)
From Coq Require Import List ZArith NArith String Ascii Bool Lia.
From Qryn Require Import lib.Strs model.Quote model.ChLex model.SqlSites model.SqlPieces model.TqSql model.TqPieces model.Traceql model.TraceqlPlan.
From Qryn Require Import proofs.QuoteProofs proofs.SqlPiecesProofs proofs.TqPiecesProofs.
Import ListNotations.
Open Scope string_scope.
Open Scope list_scope.

Notation K := (fun _ : string => EmptyString).

Lemma tq_erased_equal_same_structure s s' :
  tq_erase_sel s = tq_erase_sel s' -> pok QN (tq_pieces s) = true ->
  pok QN (tq_pieces s') = true /\ shape (tq_pieces s') = shape (tq_pieces s) /\
  skeleton (lex (TqSql.render s')) = skeleton (lex (TqSql.render s)) /\
  lex (TqSql.render s') = etoks QN (tq_pieces s') /\
  List.length (rvalues (tq_pieces s')) = List.length (rvalues (tq_pieces s)).
Proof.
  unfold tq_erase_sel. intros He Hok.
  pose proof (tq_pieces_subst K s) as H1. pose proof (tq_pieces_subst K s') as H2. rewrite He, H2 in H1.
  set (p := tq_pieces s) in *. set (p' := tq_pieces s') in *.
  assert (Hsh : shape p' = shape p) by (rewrite <- (shape_pm K p'), <- (shape_pm K p), H1; reflexivity).
  assert (Hq : forallb (all_chars plain_char) (rqids p') = true).
  { rewrite <- (rqids_pm K p'), H1, rqids_pm. exact (pok_plain_qids p QN Hok). }
  destruct (same_shape_same_skeleton p p' (eq_sym Hsh) Hq Hok) as [Hok' Hsk].
  rewrite !tq_render_pieces. fold p p'.
  split; [exact Hok'|]. split; [exact Hsh|]. split; [exact Hsk|]. split; [exact (lex_pieces p' Hok')|].
  assert (Hl : forall a, List.length (rvalues (pm K a)) = List.length (rvalues a)) by (intro a; rewrite rvalues_pm; apply map_length).
  rewrite <- (Hl p'), <- (Hl p), H1. reflexivity.
Qed.

(* ---------- the builder functions commute with a replacement of the values ---------- *)
Section TqCommute.
  Variable f : string -> string.
  Notation F := (tq_subst f).
  Notation Fs := (tq_subst_sel f).
  Notation mwq := (map (fun w : string * select => (fst w, Fs (snd w)))).

  Lemma tFs_withs s : s_withs (Fs s) = mwq (s_withs s).
  Proof. destruct s; reflexivity. Qed.
  Lemma tFs_cols s : s_cols (Fs s) = map F (s_cols s).
  Proof. destruct s; reflexivity. Qed.
  Lemma tFs_set_cols c s : Fs (set_cols c s) = set_cols (map F c) (Fs s).
  Proof. destruct s; reflexivity. Qed.
  Lemma tFs_set_limit l s : Fs (set_limit l s) = set_limit (F l) (Fs s).
  Proof. destruct s; reflexivity. Qed.
  Lemma tFs_set_order l s : Fs (set_order l s) = set_order (map F l) (Fs s).
  Proof. destruct s; reflexivity. Qed.

  Lemma tF_and_into o cl : map_opt F (and_into o cl) = and_into (map_opt F o) (map F cl).
  Proof.
    destruct o as [e|]; [|reflexivity].
    destruct e; try reflexivity. destruct fn; try reflexivity.
    cbn [and_into map_opt tq_subst]. rewrite map_app. reflexivity.
  Qed.
  Lemma tFs_and_where cl s : Fs (and_where cl s) = and_where (map F cl) (Fs s).
  Proof. destruct s. cbn [and_where tq_subst_sel]. rewrite tF_and_into. reflexivity. Qed.
  Lemma tFs_and_having cl s : Fs (and_having cl s) = and_having (map F cl) (Fs s).
  Proof. destruct s. cbn [and_having tq_subst_sel]. rewrite tF_and_into. reflexivity. Qed.

  Lemma mwq_exists a l : existsb (fun x : string * select => String.eqb (fst x) a) (mwq l) = existsb (fun x => String.eqb (fst x) a) l.
  Proof. induction l as [|[b q] l IH]; [reflexivity|]. cbn [map existsb fst]. now rewrite IH. Qed.

  Lemma mwq_add_with : forall fuel cur w, mwq (add_with fuel cur w) = add_with fuel (mwq cur) (fst w, Fs (snd w)).
  Proof.
    induction fuel as [|fuel IH]; intros cur w; cbn [add_with fst snd]; rewrite mwq_exists;
      destruct (existsb (fun x : string * select => String.eqb (fst x) (fst w)) cur); try reflexivity.
    - rewrite map_app. reflexivity.
    - rewrite map_app. cbn [map fst snd]. f_equal. rewrite tFs_withs.
      generalize (s_withs (snd w)). intro ws. revert cur. induction ws as [|x ws IHw]; intro cur; [reflexivity|].
      cbn [fold_left map]. rewrite IHw, IH. reflexivity.
  Qed.

  Lemma mwq_fold fuel ws : forall cur, mwq (fold_left (add_with fuel) ws cur) = fold_left (add_with fuel) (mwq ws) (mwq cur).
  Proof. induction ws as [|x ws IH]; intro cur; [reflexivity|]. cbn [fold_left map]. rewrite IH, mwq_add_with. reflexivity. Qed.

  Lemma tFs_set_with ws s : Fs (set_with ws s) = set_with (mwq ws) (Fs s).
  Proof. destruct s. cbn [set_with tq_subst_sel]. rewrite mwq_fold. reflexivity. Qed.
End TqCommute.

(* ---------- requests that differ only in their values ---------- *)
(* what the planners ask about a label: its scope prefix, "duration", "name" *)
Definition label_class (l : string) : bool * bool * bool * bool * bool :=
  (has_prefix "span." l, has_prefix "resource." l, has_prefix "." l, String.eqb l "duration", String.eqb l "name").

(* two terms that differ only in the attribute name behind the scope prefix and in a quoted value: same operator, same kind of label,
   and either the same value, or two quoted strings (both decodable or both not) *)
Definition term_variant (t t' : attr_sel) : Prop :=
  label_class (a_label t) = label_class (a_label t') /\ a_op t = a_op t' /\
  (a_val t = a_val t' \/
   (v_str (a_val t) <> None /\ v_str (a_val t') <> None /\ (unquoted (a_val t) = None <-> unquoted (a_val t') = None) /\
    v_time (a_val t) = v_time (a_val t') /\ v_dur (a_val t) = v_dur (a_val t'))).

Definition res_rel {A} (R : A -> A -> Prop) (r r' : result A) : Prop :=
  match r, r' with
  | Ok a, Ok a' => R a a'
  | Err e, Err e' => e = e'
  | Panic, Panic => True
  | _, _ => False
  end.

Definition esame (e e' : expr) : Prop := tq_erase e = tq_erase e'.
Definition lsame (l l' : list expr) : Prop := map tq_erase l = map tq_erase l'.
Definition ssame (s s' : select) : Prop := tq_erase_sel s = tq_erase_sel s'.

Lemma class_fields l l' : label_class l = label_class l' ->
  has_prefix "span." l = has_prefix "span." l' /\ has_prefix "resource." l = has_prefix "resource." l' /\
  has_prefix "." l = has_prefix "." l' /\ String.eqb l "duration" = String.eqb l' "duration" /\ String.eqb l "name" = String.eqb l' "name".
Proof. unfold label_class. intro H. injection H as H1 H2 H3 H4 H5. auto. Qed.

Lemma E_key_clause k k' : esame (key_clause k) (key_clause k').
Proof. reflexivity. Qed.

Lemma E_get_term_num t t' k k' : a_op t = a_op t' -> a_val t = a_val t' -> res_rel esame (get_term_num t k) (get_term_num t' k').
Proof.
  intros Ho Hv. unfold get_term_num. rewrite Ho, Hv.
  destruct (a_op t'); cbn [bind res_rel]; try reflexivity; destruct (num_text (a_val t')); cbn [res_rel]; reflexivity.
Qed.

Lemma E_get_term_str t t' k k' : a_op t = a_op t' -> (unquoted (a_val t) = None <-> unquoted (a_val t') = None) ->
  res_rel esame (get_term_str t k) (get_term_str t' k').
Proof.
  intros Ho [Hu1 Hu2]. unfold get_term_str. rewrite Ho.
  destruct (unquoted (a_val t)) as [s|] eqn:E1; destruct (unquoted (a_val t')) as [s'|] eqn:E2.
  - destruct (a_op t'); cbn [res_rel]; reflexivity.
  - specialize (Hu2 eq_refl). discriminate.
  - specialize (Hu1 eq_refl). discriminate.
  - destruct (a_op t'); cbn [res_rel]; reflexivity.
Qed.

Lemma E_get_term_duration t t' : a_op t = a_op t' -> a_val t = a_val t' -> res_rel esame (get_term_duration t) (get_term_duration t').
Proof.
  intros Ho Hv. unfold get_term_duration. rewrite Ho, Hv.
  destruct (String.eqb (v_time (a_val t')) ""); [reflexivity|].
  destruct (dur_ns (a_val t')); [|reflexivity].
  destruct (a_op t'); cbn [comparison_fn bind res_rel]; reflexivity.
Qed.

Lemma unquoted_none v : v_str v = None -> unquoted v = None.
Proof. unfold unquoted. intro H. now rewrite H. Qed.

Lemma E_get_term t t' : term_variant t t' -> res_rel esame (get_term t) (get_term t').
Proof.
  intros [Hc [Ho Hv]]. destruct (class_fields _ _ Hc) as [H1 [H2 [H3 [H4 H5]]]].
  assert (Hstr : res_rel esame (match v_str (a_val t) with Some _ => get_term_str t "name" | None => if negb (String.eqb (v_f (a_val t)) "") then get_term_num t "name" else Err EUnsupportedStmt end)
                               (match v_str (a_val t') with Some _ => get_term_str t' "name" | None => if negb (String.eqb (v_f (a_val t')) "") then get_term_num t' "name" else Err EUnsupportedStmt end)
          /\ forall k k', res_rel esame (match v_str (a_val t) with Some _ => get_term_str t k | None => if negb (String.eqb (v_f (a_val t)) "") then get_term_num t k else Err EUnsupportedStmt end)
                               (match v_str (a_val t') with Some _ => get_term_str t' k' | None => if negb (String.eqb (v_f (a_val t')) "") then get_term_num t' k' else Err EUnsupportedStmt end)).
  { assert (G : forall k k', res_rel esame (match v_str (a_val t) with Some _ => get_term_str t k | None => if negb (String.eqb (v_f (a_val t)) "") then get_term_num t k else Err EUnsupportedStmt end)
                               (match v_str (a_val t') with Some _ => get_term_str t' k' | None => if negb (String.eqb (v_f (a_val t')) "") then get_term_num t' k' else Err EUnsupportedStmt end)).
    { intros k k'. destruct Hv as [Hv|[Hs [Hs' [Hu _]]]].
      - rewrite Hv. destruct (v_str (a_val t')) eqn:Es.
        + apply E_get_term_str; [exact Ho|]. rewrite Hv. tauto.
        + destruct (negb (String.eqb (v_f (a_val t')) "")); [|reflexivity]. apply E_get_term_num; assumption.
      - destruct (v_str (a_val t)); [|contradiction]. destruct (v_str (a_val t')); [|contradiction].
        apply E_get_term_str; assumption. }
    split; [apply G|exact G]. }
  destruct Hstr as [Hname Hkey].
  unfold get_term, strip_scope. rewrite H1, H2, H3, H4, H5.
  destruct (has_prefix "span." (a_label t')); [apply Hkey|].
  destruct (has_prefix "resource." (a_label t')); [apply Hkey|].
  destruct (has_prefix "." (a_label t')); [apply Hkey|].
  destruct (String.eqb (a_label t') "duration").
  - destruct Hv as [Hv|[Hs [Hs' [Hu [Ht Hd]]]]]; [apply E_get_term_duration; assumption|].
    (* a quoted value on duration: the time fields decide, and they are the same *)
    unfold get_term_duration, dur_ns. rewrite Ho, Ht, Hd.
    destruct (String.eqb (v_time (a_val t')) ""); [reflexivity|].
    destruct (match parse_duration_dec (v_time (a_val t')) with Some r => r | None => v_dur (a_val t') end); [|reflexivity].
    destruct (a_op t'); cbn [comparison_fn bind res_rel]; reflexivity.
  - destruct (String.eqb (a_label t') "name"); [exact Hname|reflexivity].
Qed.

Lemma E_map_res terms terms' : Forall2 term_variant terms terms' -> res_rel lsame (map_res get_term terms) (map_res get_term terms').
Proof.
  induction 1 as [|t t' l l' Hv _ IH]; [reflexivity|].
  cbn [map_res]. pose proof (E_get_term t t' Hv) as Ht.
  destruct (get_term t) as [e| |]; destruct (get_term t') as [e'| |]; cbn [res_rel bind] in *; try contradiction; try assumption; try exact I.
  destruct (map_res get_term l) as [es| |]; destruct (map_res get_term l') as [es'| |]; cbn [res_rel bind] in *; try contradiction; try assumption; try exact I.
  unfold lsame in *. cbn [map]. unfold esame in Ht. now rewrite Ht, IH.
Qed.

Lemma indexed_class l l' : label_class l = label_class l' -> is_indexed_label l = is_indexed_label l'.
Proof. intro H. destruct (class_fields _ _ H) as [H1 [H2 [H3 [_ H5]]]]. unfold is_indexed_label. now rewrite H1, H2, H3, H5. Qed.

Lemma E_where0 terms terms' : Forall2 term_variant terms terms' -> forall cs cs', lsame cs cs' ->
  lsame (map snd (filter (fun p => is_indexed_label (a_label (fst p))) (combine terms cs)))
        (map snd (filter (fun p => is_indexed_label (a_label (fst p))) (combine terms' cs'))).
Proof.
  induction 1 as [|t t' l l' Hv _ IH]; intros cs cs' Hc; [reflexivity|].
  destruct cs as [|c cs]; destruct cs' as [|c' cs']; try discriminate; [reflexivity|].
  unfold lsame in Hc. cbn [map] in Hc. injection Hc as Hc1 Hc2.
  cbn [combine filter fst]. destruct Hv as [Hcl _]. rewrite (indexed_class _ _ Hcl).
  destruct (is_indexed_label (a_label t')); [|apply IH; exact Hc2].
  unfold lsame. cbn [map snd]. rewrite Hc1. f_equal. apply IH. exact Hc2.
Qed.

Lemma E_get_cond cs cs' : lsame cs cs' -> forall cd a,
  esame (fst (get_cond cs cd a)) (fst (get_cond cs' cd a)) /\ snd (get_cond cs cd a) = snd (get_cond cs' cd a).
Proof.
  intro Hc. induction cd as [idx|op l IHl r IHr]; intro a.
  - cbn [get_cond fst snd]. split; [|reflexivity]. destruct a; [reflexivity|].
    unfold esame, tq_erase. cbn [tq_subst map]. unfold lsame, tq_erase in Hc. rewrite Hc. reflexivity.
  - cbn [get_cond]. destruct (IHl a) as [Hl1 Hl2].
    destruct (get_cond cs l a) as [el a1]. destruct (get_cond cs' l a) as [el' a1']. cbn [fst snd] in Hl1, Hl2. subst a1'.
    destruct (IHr a1) as [Hr1 Hr2].
    destruct (get_cond cs r a1) as [er a2]. destruct (get_cond cs' r a1) as [er' a2']. cbn [fst snd] in *.
    split; [|exact Hr2]. unfold esame, tq_erase in *. cbn [tq_subst map]. now rewrite Hl1, Hr1.
Qed.

Lemma Forall2_nth_error {A} (R : A -> A -> Prop) l l' : Forall2 R l l' -> forall i,
  match nth_error l i, nth_error l' i with Some x, Some y => R x y | None, None => True | _, _ => False end.
Proof. induction 1 as [|x y l l' H _ IH]; intros [|i]; cbn [nth_error]; auto. apply IH. Qed.

Lemma E_holds terms terms' : Forall2 term_variant terms terms' -> forall cd,
  holds_without_indexed terms cd = holds_without_indexed terms' cd.
Proof.
  intros H cd. induction cd as [idx|op l IHl r IHr]; cbn [holds_without_indexed].
  - pose proof (Forall2_nth_error _ _ _ H idx) as Hn.
    destruct (nth_error terms idx) as [t|]; destruct (nth_error terms' idx) as [t'|]; try contradiction; [|reflexivity].
    destruct Hn as [Hc _]. destruct (class_fields _ _ Hc) as [_ [_ [_ [H4 _]]]]. exact H4.
  - rewrite IHl, IHr. reflexivity.
Qed.

Lemma lsame_app a a' b b' : lsame a a' -> lsame b b' -> lsame (a ++ b) (a' ++ b').
Proof. unfold lsame. intros H1 H2. now rewrite !map_app, H1, H2. Qed.
Lemma lsame_nil_inv a a' : lsame a a' -> (a = [] <-> a' = []).
Proof. unfold lsame. destruct a, a'; cbn [map]; intro H; split; intro E; try reflexivity; try discriminate. Qed.

(* AttrConditionPlanner.Process *)
Lemma E_attr_condition c terms terms' cond agg n : Forall2 term_variant terms terms' ->
  res_rel ssame (attr_condition c terms cond agg n) (attr_condition c terms' cond agg n).
Proof.
  intro H. unfold attr_condition. pose proof (E_map_res terms terms' H) as Hm.
  destruct (map_res get_term terms) as [cs| |]; destruct (map_res get_term terms') as [cs'| |]; cbn [res_rel bind] in *; try contradiction; try assumption; try exact I.
  destruct cond as [cd|]; [|exact I].
  destruct (E_get_cond cs cs' Hm cd false) as [Hh _].
  destruct (get_cond cs cd false) as [having x]. destruct (get_cond cs' cd false) as [having' x']. cbn [fst] in Hh.
  destruct (agg_step agg) as [extra aggcol].
  set (main1 := match aggcol with Some col => set_cols (s_cols (init_index c) ++ [col]) (init_index c) | None => init_index c end).
  pose proof (E_where0 terms terms' H cs cs' Hm) as Hw.
  set (w0 := map snd (filter (fun p => is_indexed_label (a_label (fst p))) (combine terms cs))) in *.
  set (w0' := map snd (filter (fun p => is_indexed_label (a_label (fst p))) (combine terms' cs'))) in *.
  assert (Hwh : lsame (w0 ++ extra) (w0' ++ extra)) by (apply lsame_app; [exact Hw|reflexivity]).
  assert (Hhv : ssame (and_having [having] main1) (and_having [having'] main1)).
  { unfold ssame, tq_erase_sel. rewrite !tFs_and_having. cbn [map]. unfold esame, tq_erase in Hh. now rewrite Hh. }
  assert (H2 : ssame (match w0 ++ extra with
                      | [] => and_having [having] main1
                      | _ => if holds_without_indexed terms cd then and_having [having] main1
                             else and_where [LOp OOr (w0 ++ extra)] (and_having [having] main1) end)
                     (match w0' ++ extra with
                      | [] => and_having [having'] main1
                      | _ => if holds_without_indexed terms' cd then and_having [having'] main1
                             else and_where [LOp OOr (w0' ++ extra)] (and_having [having'] main1) end)).
  { rewrite (E_holds terms terms' H cd). pose proof (lsame_nil_inv _ _ Hwh) as Hn.
    destruct (w0 ++ extra) as [|y ys] eqn:E1; destruct (w0' ++ extra) as [|y' ys'] eqn:E2.
    - exact Hhv.
    - destruct Hn as [Hn _]. specialize (Hn eq_refl). discriminate.
    - destruct Hn as [_ Hn]. specialize (Hn eq_refl). discriminate.
    - destruct (holds_without_indexed terms' cd); [exact Hhv|].
      unfold ssame, tq_erase_sel in *. rewrite !tFs_and_where, Hhv. cbn [map tq_subst]. unfold lsame, tq_erase in Hwh. cbn [map] in Hwh. rewrite Hwh. reflexivity. }
  cbn [res_rel]. destruct (random_filter c) as [|r rs]; [exact H2|].
  unfold ssame, tq_erase_sel in *. rewrite !tFs_and_where, H2. reflexivity.
Qed.

(* ---------- the wrappers around the index statement carry no value of their own ---------- *)
Lemma E_index_groupby p m m' : ssame m m' -> ssame (index_groupby p m) (index_groupby p m').
Proof. unfold ssame, tq_erase_sel, index_groupby. intro H. rewrite !tFs_set_with. cbn [map fst snd]. now rewrite H. Qed.

Lemma E_aggregator g p m m' : ssame m m' -> res_rel ssame (aggregator_planner g p m) (aggregator_planner g p m').
Proof.
  intro H. unfold aggregator_planner. destruct (comparison_fn (g_cmp g)); cbn [bind res_rel]; try reflexivity.
  destruct (agg_cmp_text g); cbn [bind res_rel]; try reflexivity.
  unfold ssame, tq_erase_sel in *. rewrite !tFs_and_having. now rewrite H.
Qed.

Lemma E_index_limit c m m' : ssame m m' -> ssame (index_limit c m) (index_limit c m').
Proof. unfold index_limit. intro H. destruct (Z.eqb (limit c) 0); [exact H|]. unfold ssame, tq_erase_sel in *. rewrite !tFs_set_limit. now rewrite H. Qed.

Lemma E_traces_data c m m' : ssame m m' -> ssame (traces_data c m) (traces_data c m').
Proof. unfold ssame, tq_erase_sel, traces_data. intro H. rewrite !tFs_set_with. cbn [map fst snd]. now rewrite H. Qed.

Lemma E_select_tags c m m' : ssame m m' -> ssame (select_tags c m) (select_tags c m').
Proof.
  unfold ssame, tq_erase_sel, select_tags. intro H.
  destruct (Z.ltb 0 (limit c)).
  - rewrite !tFs_set_limit, !tFs_set_order, !tFs_set_with. cbn [map fst snd]. now rewrite H.
  - rewrite !tFs_set_with. cbn [map fst snd]. now rewrite H.
Qed.

Lemma E_select_values c k k' m m' : ssame m m' -> ssame (select_values c k m) (select_values c k' m').
Proof.
  intro H. pose proof (E_select_tags c m m' H) as Ht. unfold ssame, tq_erase_sel, select_values in *.
  destruct (Z.ltb 0 (limit c)).
  - rewrite !tFs_set_limit, !tFs_set_order, !tFs_and_where, !tFs_set_cols. now rewrite Ht.
  - rewrite !tFs_and_where, !tFs_set_cols. now rewrite Ht.
Qed.

Lemma E_all_values c k k' : ssame (all_values c k) (all_values c k').
Proof. reflexivity. Qed.

(* ---------- single-selector requests ---------- *)
(* two selectors that differ only in values: the term analysis (de-duplication of terms by their text) finds the same condition
   over pointwise variant terms, and the aggregators are the same *)
Definition selector_variant (h h' : selector) : Prop :=
  fst (analyze h) = fst (analyze h') /\ Forall2 term_variant (snd (analyze h)) (snd (analyze h')) /\ sel_agg h = sel_agg h'.

Lemma analyze_none h : fst (analyze h) = None <-> sel_attr h = None.
Proof.
  unfold analyze. destruct (sel_attr h) as [e|]; [|split; reflexivity].
  destruct (analyze_cond e ([], [])) as [c st]. cbn [fst]. split; discriminate.
Qed.

Lemma attr_some_iff h h' : fst (analyze h) = fst (analyze h') -> (sel_attr h = None <-> sel_attr h' = None).
Proof. intro H. rewrite <- !analyze_none, H. tauto. Qed.

Lemma E_check h h' ao ao' : selector_variant h h' -> check (Script h ao None) = check (Script h' ao' None).
Proof.
  intros [Ha [_ Hg]]. pose proof (attr_some_iff h h' Ha) as Hn. unfold check, agg_lacks_attr, tails_have_attr. rewrite Hg.
  destruct (sel_attr h) as [e|]; destruct (sel_attr h') as [e'|]; try reflexivity.
  - destruct Hn as [_ Hn]. specialize (Hn eq_refl). discriminate.
  - destruct Hn as [Hn _]. specialize (Hn eq_refl). discriminate.
Qed.

Lemma E_simple_planner c h h' ao ao' p n : selector_variant h h' ->
  res_rel ssame (simple_planner c (Script h ao None) p n) (simple_planner c (Script h' ao' None) p n).
Proof.
  intro Hv. pose proof (E_check h h' ao ao' Hv) as Hc. destruct Hv as [Ha [Ht Hg]].
  pose proof (attr_some_iff h h' Ha) as Hn.
  unfold simple_planner. rewrite Hc. destruct (check (Script h' ao' None)); cbn [bind res_rel]; try reflexivity.
  cbn [sc_head]. unfold agg_attr_of. rewrite Hg.
  destruct (analyze h) as [cond terms]. destruct (analyze h') as [cond' terms']. cbn [fst snd] in Ha, Ht. subst cond'.
  assert (Hm : res_rel ssame (match sel_attr h with Some _ => attr_condition c terms cond (match sel_agg h' with Some g => g_attr g | None => "" end) n | None => Ok (attrless c) end)
                             (match sel_attr h' with Some _ => attr_condition c terms' cond (match sel_agg h' with Some g => g_attr g | None => "" end) n | None => Ok (attrless c) end)).
  { destruct (sel_attr h) as [e|]; destruct (sel_attr h') as [e'|].
    - apply E_attr_condition. exact Ht.
    - destruct Hn as [_ Hn]. specialize (Hn eq_refl). discriminate.
    - destruct Hn as [Hn _]. specialize (Hn eq_refl). discriminate.
    - reflexivity. }
  destruct (match sel_attr h with Some _ => _ | None => _ end) as [m| |];
  destruct (match sel_attr h' with Some _ => _ | None => _ end) as [m'| |]; cbn [res_rel bind] in *; try contradiction; try assumption; try exact I.
  pose proof (E_index_groupby p m m' Hm) as Hgb.
  destruct (sel_agg h') as [ag|]; [apply E_aggregator; exact Hgb|exact Hgb].
Qed.

(* planner.plan for a request with ONE selector, all three entry points (search, tags, values: the values key may differ too) *)
Definition mode_variant (m m' : mode) : Prop :=
  match m, m' with MSearch, MSearch => True | MTags, MTags => True | MValues _, MValues _ => True | _, _ => False end.

Lemma E_plan c h h' ao ao' m m' n : selector_variant h h' -> mode_variant m m' ->
  res_rel ssame (plan (Script h ao None) m c n) (plan (Script h' ao' None) m' c n).
Proof.
  intros Hv Hm. destruct m as [| |k]; destruct m' as [| |k']; try contradiction; cbn [plan sc_tail sc_head].
  - unfold plan_search, plan_index. cbn [sc_tail].
    pose proof (E_simple_planner c h h' ao ao' "" n Hv) as Hs.
    destruct (simple_planner c (Script h ao None) "" n) as [s| |]; destruct (simple_planner c (Script h' ao' None) "" n) as [s'| |];
      cbn [res_rel bind] in *; try contradiction; try assumption; try exact I.
    apply E_index_limit, E_traces_data, E_index_limit. exact Hs.
  - rewrite (E_check h h' ao ao' Hv). destruct (check (Script h' ao' None)); cbn [bind res_rel]; try reflexivity.
    destruct Hv as [Ha [Ht Hg]]. unfold agg_attr_of. rewrite Hg.
    destruct (analyze h) as [cond terms]. destruct (analyze h') as [cond' terms']. cbn [fst snd] in Ha, Ht. subst cond'.
    pose proof (E_attr_condition c terms terms' cond (match sel_agg h' with Some g => g_attr g | None => "" end) n Ht) as Hc.
    destruct (attr_condition c terms cond _ n) as [s| |]; destruct (attr_condition c terms' cond _ n) as [s'| |];
      cbn [res_rel bind] in *; try contradiction; try assumption; try exact I.
    apply E_select_tags. exact Hc.
  - rewrite (E_check h h' ao ao' Hv). destruct (check (Script h' ao' None)); cbn [bind res_rel]; try reflexivity.
    destruct Hv as [Ha [Ht Hg]]. unfold agg_attr_of. rewrite Hg.
    destruct (analyze h) as [cond terms]. destruct (analyze h') as [cond' terms']. cbn [fst snd] in Ha, Ht. subst cond'.
    destruct cond as [cd|]; [|apply E_all_values].
    pose proof (E_attr_condition c terms terms' (Some cd) (match sel_agg h' with Some g => g_attr g | None => "" end) n Ht) as Hc.
    destruct (attr_condition c terms (Some cd) _ n) as [s| |]; destruct (attr_condition c terms' (Some cd) _ n) as [s'| |];
      cbn [res_rel bind] in *; try contradiction; try assumption; try exact I.
    apply E_select_values. exact Hc.
Qed.

(* the property for the TraceQL planners, single-selector requests: the two plans fail alike, or both give a statement, with the
   same token structure and one literal per value *)
Lemma traceql_planner_value_independent c h h' ao ao' m m' n : selector_variant h h' -> mode_variant m m' ->
  match plan (Script h ao None) m c n, plan (Script h' ao' None) m' c n with
  | Ok s, Ok s' =>
      pok QN (tq_pieces s) = true ->
      pok QN (tq_pieces s') = true /\ shape (tq_pieces s') = shape (tq_pieces s) /\
      skeleton (lex (TqSql.render s')) = skeleton (lex (TqSql.render s)) /\
      lex (TqSql.render s') = etoks QN (tq_pieces s') /\
      List.length (rvalues (tq_pieces s')) = List.length (rvalues (tq_pieces s))
  | Err e, Err e' => e = e'
  | Panic, Panic => True
  | _, _ => False
  end.
Proof.
  intros Hv Hm. pose proof (E_plan c h h' ao ao' m m' n Hv Hm) as H.
  destruct (plan (Script h ao None) m c n) as [s| |]; destruct (plan (Script h' ao' None) m' c n) as [s'| |]; cbn [res_rel] in H; try contradiction; try assumption; try exact I.
  intro Hok. exact (tq_erased_equal_same_structure s s' H Hok).
Qed.

(* ---------- requests with several selectors ---------- *)
Fixpoint script_variant (q q' : script) : Prop :=
  match q, q' with
  | Script h ao tl, Script h' ao' tl' =>
    selector_variant h h' /\ ao = ao' /\
    match tl, tl' with None, None => True | Some t, Some t' => script_variant t t' | _, _ => False end
  end.

Fixpoint ep_variant (t t' : ep) : Prop :=
  match t, t' with
  | EPSimple s p, EPSimple s' p' => p = p' /\ script_variant s s'
  | EPComplex p f ops, EPComplex p' f' ops' =>
      p = p' /\ f = f' /\
      (fix go (l l' : list ep) : Prop :=
         match l, l' with [], [] => True | x :: r, x' :: r' => ep_variant x x' /\ go r r' | _, _ => False end) ops ops'
  | _, _ => False
  end.
Definition eps_variant : list ep -> list ep -> Prop :=
  fix go (l l' : list ep) : Prop :=
    match l, l' with [], [] => True | x :: r, x' :: r' => ep_variant x x' /\ go r r' | _, _ => False end.
Lemma ep_variant_complex p f ops p' f' ops' :
  ep_variant (EPComplex p f ops) (EPComplex p' f' ops') <-> (p = p' /\ f = f' /\ eps_variant ops ops').
Proof. reflexivity. Qed.

Lemma eps_app l l' r r' : eps_variant l l' -> eps_variant r r' -> eps_variant (l ++ r) (l' ++ r').
Proof.
  revert l'. induction l as [|x l IH]; intros [|x' l'] Hl Hr; cbn in Hl; try contradiction; [exact Hr|].
  destruct Hl as [Hx Hl]. cbn [app]. split; [exact Hx|]. apply IH; assumption.
Qed.
Lemma eps_length l l' : eps_variant l l' -> List.length l = List.length l'.
Proof. revert l'. induction l as [|x l IH]; intros [|x' l'] H; cbn in H; try contradiction; [reflexivity|]. destruct H as [_ H]. cbn [List.length]. f_equal. now apply IH. Qed.
Lemma eps_nth l l' i : eps_variant l l' ->
  match nth_error l i, nth_error l' i with Some x, Some y => ep_variant x y | None, None => True | _, _ => False end.
Proof.
  revert l' i. induction l as [|x l IH]; intros [|x' l'] i H; cbn in H; try contradiction.
  - destruct i; exact I.
  - destruct H as [Hx H]. destruct i; [exact Hx|]. cbn [nth_error]. apply IH. exact H.
Qed.
Lemma eps_upd (g g' : ep -> ep) : (forall x x', ep_variant x x' -> ep_variant (g x) (g' x')) ->
  forall i l l', eps_variant l l' -> eps_variant (upd_nth g i l) (upd_nth g' i l').
Proof.
  intros Hg i. induction i as [|i IH]; intros [|x l] [|x' l'] H; cbn in H; try contradiction; try exact I; destruct H as [Hx H].
  - cbn. split; [apply Hg; exact Hx|exact H].
  - cbn. split; [exact Hx|]. apply IH. exact H.
Qed.

Lemma add_op_variant path : forall node node' t t', ep_variant node node' -> ep_variant t t' ->
  ep_variant (add_op_at path node t) (add_op_at path node' t').
Proof.
  induction path as [|i r IH]; intros node node' t t' Hn Ht.
  - destruct t as [s p|p f ops]; destruct t' as [s' p'|p' f' ops']; try contradiction; [exact Ht|].
    cbn [add_op_at]. apply ep_variant_complex in Ht. destruct Ht as [Hp [Hf Ho]]. apply ep_variant_complex.
    split; [exact Hp|]. split; [exact Hf|]. apply eps_app; [exact Ho|]. cbn. split; [exact Hn|exact I].
  - destruct t as [s p|p f ops]; destruct t' as [s' p'|p' f' ops']; try contradiction; [exact Ht|].
    cbn [add_op_at]. apply ep_variant_complex in Ht. destruct Ht as [Hp [Hf Ho]]. apply ep_variant_complex.
    split; [exact Hp|]. split; [exact Hf|]. apply eps_upd; [|exact Ho]. intros x x' Hx. apply IH; assumption.
Qed.

Lemma node_at_variant path : forall t t', ep_variant t t' ->
  match node_at path t, node_at path t' with Some x, Some y => ep_variant x y | None, None => True | _, _ => False end.
Proof.
  induction path as [|i r IH]; intros t t' Ht; [exact Ht|].
  destruct t as [s p|p f ops]; destruct t' as [s' p'|p' f' ops']; try contradiction; [exact I|].
  cbn [node_at]. apply ep_variant_complex in Ht. destruct Ht as [_ [_ Ho]].
  pose proof (eps_nth ops ops' i Ho) as Hn.
  destruct (nth_error ops i) as [x|]; destruct (nth_error ops' i) as [x'|]; try contradiction; [|exact I].
  apply IH. exact Hn.
Qed.

Definition opt_ep_variant (r r' : option ep) : Prop :=
  match r, r' with Some t, Some t' => ep_variant t t' | None, None => True | _, _ => False end.

Definition addf (cur : option (list nat)) (node : ep) (r : option ep) : option ep :=
  match cur with
  | None => Some node
  | Some p => match r with Some t => Some (add_op_at p node t) | None => None end
  end.
Definition lastf (cur : option (list nat)) (r : option ep) : option (list nat) :=
  match cur with
  | None => Some []
  | Some p => match r with
              | Some t => match node_at p t with
                          | Some (EPComplex _ _ ((_ :: _) as ops)) => Some (p ++ [Nat.pred (List.length ops)])
                          | _ => None
                          end
              | None => None
              end
  end.

Lemma plan_complex_unfold root cnt cur h ao tl :
  plan_complex root cnt cur (Script h ao tl) =
  let sc := Script h ao tl in
  match (match tl with None => AONone | Some _ => ao end) with
  | AONone => Some (addf cur (EPSimple sc (prefix_of (cnt + 1))) root, (cnt + 1)%Z)
  | AOAnd =>
      let root1 := addf cur (EPComplex (prefix_of (cnt + 1)) AOAnd [EPSimple sc (prefix_of (cnt + 2))]) root in
      match lastf cur root1 with
      | Some p' => match tl with Some s' => plan_complex root1 (cnt + 2)%Z (Some p') s' | None => None end
      | None => None
      end
  | AOOr =>
      match addf cur (EPSimple sc (prefix_of (cnt + 1))) root with
      | Some t => match tl with
                  | Some s' => plan_complex (Some (EPComplex (prefix_of (cnt + 2)) AOOr [t])) (cnt + 2)%Z (Some []) s'
                  | None => None
                  end
      | None => None
      end
  end.
Proof. reflexivity. Qed.

Lemma addf_variant cur node node' r r' : ep_variant node node' -> opt_ep_variant r r' -> opt_ep_variant (addf cur node r) (addf cur node' r').
Proof.
  intros Hn Hr. unfold addf. destruct cur as [p|]; [|exact Hn].
  destruct r as [t|]; destruct r' as [t'|]; try contradiction; [|exact I]. cbn. apply add_op_variant; assumption.
Qed.

Lemma lastf_variant cur r r' : opt_ep_variant r r' -> lastf cur r = lastf cur r'.
Proof.
  intro Hr. unfold lastf. destruct cur as [p|]; [|reflexivity].
  destruct r as [t|]; destruct r' as [t'|]; try contradiction; [|reflexivity].
  pose proof (node_at_variant p t t' Hr) as Hn.
  destruct (node_at p t) as [x|]; destruct (node_at p t') as [x'|]; try contradiction; [|reflexivity].
  destruct x as [s q|q f ops]; destruct x' as [s' q'|q' f' ops']; try contradiction; [reflexivity|].
  apply ep_variant_complex in Hn. destruct Hn as [_ [_ Ho]]. pose proof (eps_length _ _ Ho) as Hl.
  destruct ops as [|o ops]; destruct ops' as [|o' ops']; try discriminate; [reflexivity|]. now rewrite Hl.
Qed.

Fixpoint plan_complex_variant (sc : script) : forall sc' root root' cnt cur,
  script_variant sc sc' -> opt_ep_variant root root' ->
  match plan_complex root cnt cur sc, plan_complex root' cnt cur sc' with
  | Some (r, c), Some (r', c') => opt_ep_variant r r' /\ c = c'
  | None, None => True
  | _, _ => False
  end.
Proof.
  destruct sc as [h ao tl]. intros [h' ao' tl'] root root' cnt cur Hv Hr.
  assert (Hsc : script_variant (Script h ao tl) (Script h' ao' tl')) by exact Hv.
  destruct Hv as [Hh [Hao Htl]]. subst ao'.
  rewrite !plan_complex_unfold. cbv zeta.
  assert (Hs : forall p, ep_variant (EPSimple (Script h ao tl) p) (EPSimple (Script h' ao tl') p)) by (intro p; split; [reflexivity|exact Hsc]).
  destruct tl as [t|]; destruct tl' as [t'|]; try contradiction.
  - destruct ao.
    + split; [|reflexivity]. apply addf_variant; [apply Hs|exact Hr].
    + assert (H1 : opt_ep_variant (addf cur (EPComplex (prefix_of (cnt + 1)) AOAnd [EPSimple (Script h AOAnd (Some t)) (prefix_of (cnt + 2))]) root)
                                 (addf cur (EPComplex (prefix_of (cnt + 1)) AOAnd [EPSimple (Script h' AOAnd (Some t')) (prefix_of (cnt + 2))]) root')).
      { apply addf_variant; [|exact Hr]. apply ep_variant_complex. split; [reflexivity|]. split; [reflexivity|]. cbn. split; [apply Hs|exact I]. }
      rewrite (lastf_variant cur _ _ H1).
      destruct (lastf cur _) as [p'|]; [|exact I].
      apply plan_complex_variant; assumption.
    + pose proof (addf_variant cur _ _ root root' (Hs (prefix_of (cnt + 1))) Hr) as H1.
      destruct (addf cur (EPSimple (Script h AOOr (Some t)) (prefix_of (cnt + 1))) root) as [x|];
      destruct (addf cur (EPSimple (Script h' AOOr (Some t')) (prefix_of (cnt + 1))) root') as [x'|]; try contradiction; [|exact I].
      apply plan_complex_variant; [exact Htl|]. cbn [opt_ep_variant]. apply ep_variant_complex. split; [reflexivity|]. split; [reflexivity|]. cbn. split; [exact H1|exact I].
  - split; [|reflexivity]. apply addf_variant; [apply Hs|exact Hr].
Qed.

Fixpoint all_have_attr_variant (s : script) : forall s', script_variant s s' -> all_have_attr s = all_have_attr s'.
Proof.
  destruct s as [h ao tl]. intros [h' ao' tl'] [Hh [_ Htl]]. cbn [all_have_attr].
  destruct Hh as [Ha _]. pose proof (attr_some_iff h h' Ha) as Hn.
  destruct (sel_attr h) as [e|]; destruct (sel_attr h') as [e'|].
  - destruct tl as [t|]; destruct tl' as [t'|]; try contradiction; [|reflexivity]. apply all_have_attr_variant. exact Htl.
  - destruct Hn as [_ Hn]. specialize (Hn eq_refl). discriminate.
  - destruct Hn as [Hn _]. specialize (Hn eq_refl). discriminate.
  - reflexivity.
Qed.

Lemma check_variant s s' : script_variant s s' -> check s = check s'.
Proof.
  destruct s as [h ao tl]. destruct s' as [h' ao' tl']. intros [Hh [_ Htl]].
  destruct Hh as [Ha [_ Hg]]. pose proof (attr_some_iff h h' Ha) as Hn.
  unfold check, agg_lacks_attr, tails_have_attr. rewrite Hg.
  assert (Ht : match tl with None => true | Some s => all_have_attr s end = match tl' with None => true | Some s => all_have_attr s end).
  { destruct tl as [t|]; destruct tl' as [t'|]; try contradiction; [|reflexivity]. apply all_have_attr_variant. exact Htl. }
  rewrite Ht.
  destruct (sel_attr h) as [e|]; destruct (sel_attr h') as [e'|].
  - reflexivity.
  - destruct Hn as [_ Hn]. specialize (Hn eq_refl). discriminate.
  - destruct Hn as [Hn _]. specialize (Hn eq_refl). discriminate.
  - destruct tl as [t|]; destruct tl' as [t'|]; try contradiction; reflexivity.
Qed.

Lemma simple_planner_variant c s s' p n : script_variant s s' -> res_rel ssame (simple_planner c s p n) (simple_planner c s' p n).
Proof.
  intro Hv. pose proof (check_variant s s' Hv) as Hc.
  destruct s as [h ao tl]. destruct s' as [h' ao' tl']. destruct Hv as [[Ha [Ht Hg]] _].
  pose proof (attr_some_iff h h' Ha) as Hn.
  unfold simple_planner. rewrite Hc. destruct (check (Script h' ao' tl')); cbn [bind res_rel]; try reflexivity.
  cbn [sc_head]. unfold agg_attr_of. rewrite Hg.
  destruct (analyze h) as [cond terms]. destruct (analyze h') as [cond' terms']. cbn [fst snd] in Ha, Ht. subst cond'.
  assert (Hm : res_rel ssame (match sel_attr h with Some _ => attr_condition c terms cond (match sel_agg h' with Some g => g_attr g | None => "" end) n | None => Ok (attrless c) end)
                             (match sel_attr h' with Some _ => attr_condition c terms' cond (match sel_agg h' with Some g => g_attr g | None => "" end) n | None => Ok (attrless c) end)).
  { destruct (sel_attr h) as [e|]; destruct (sel_attr h') as [e'|].
    - apply E_attr_condition. exact Ht.
    - destruct Hn as [_ Hn]. specialize (Hn eq_refl). discriminate.
    - destruct Hn as [Hn _]. specialize (Hn eq_refl). discriminate.
    - reflexivity. }
  destruct (match sel_attr h with Some _ => _ | None => _ end) as [m| |];
  destruct (match sel_attr h' with Some _ => _ | None => _ end) as [m'| |]; cbn [res_rel bind] in *; try contradiction; try assumption; try exact I.
  pose proof (E_index_groupby p m m' Hm) as Hgb.
  destruct (sel_agg h') as [ag|]; [apply E_aggregator; exact Hgb|exact Hgb].
Qed.

(* ---------- the tree of expression planners ---------- *)
Definition sels_same (l l' : list (option string * select)) : Prop :=
  Forall2 (fun x y => fst x = fst y /\ ssame (snd x) (snd y)) l l'.

Lemma wrap_operand_same tagged i o o' : fst o = fst o' -> ssame (snd o) (snd o') -> ssame (wrap_operand tagged i o) (wrap_operand tagged i o').
Proof.
  intros Hf Hs. unfold ssame, tq_erase_sel, wrap_operand in *. rewrite !tFs_set_with. cbn [map fst snd].
  rewrite !tFs_set_cols, !map_app, <- !tFs_cols, Hs, Hf. reflexivity.
Qed.

Lemma wrap_operands_same tagged l l' : sels_same l l' -> forall i,
  map tq_erase_sel (wrap_operands tagged i l) = map tq_erase_sel (wrap_operands tagged i l').
Proof.
  induction 1 as [|o o' l l' [Hf Hs] _ IH]; intro i; [reflexivity|].
  cbn [wrap_operands map]. rewrite IH. f_equal. exact (wrap_operand_same tagged i o o' Hf Hs).
Qed.

Lemma Forall2_len {A B} (R : A -> B -> Prop) l l' : Forall2 R l l' -> List.length l = List.length l'.
Proof. induction 1; cbn [List.length]; congruence. Qed.

Lemma complex_select_same fn p l l' : sels_same l l' -> ssame (complex_select fn p l) (complex_select fn p l').
Proof.
  intro H. pose proof (Forall2_len _ _ _ H) as Hl. unfold ssame, tq_erase_sel, complex_select.
  cbn [tq_subst_sel tq_subst map map_opt]. rewrite Hl.
  pose proof (wrap_operands_same (match fn with AOAnd => true | _ => false end) l l' H 0) as Hw. unfold tq_erase_sel in Hw. rewrite Hw. reflexivity.
Qed.

Definition ep_process_ops (c : ctx) (n : nat) : list ep -> result (list (option string * select)) :=
  fix go (l : list ep) : result (list (option string * select)) :=
    match l with
    | [] => Ok []
    | x :: r => do y <- ep_process c n x; do ys <- go r; Ok ((nested_prefix x, y) :: ys)
    end.
Lemma ep_process_unfold c n p fn ops :
  ep_process c n (EPComplex p fn ops) =
  (do sels <- ep_process_ops c n ops; match fn with AONone => Panic | _ => Ok (complex_select fn p sels) end).
Proof. reflexivity. Qed.

Lemma nested_prefix_variant x x' : ep_variant x x' -> nested_prefix x = nested_prefix x'.
Proof. destruct x, x'; cbn; try contradiction; [reflexivity|]. intros [H _]. now rewrite H. Qed.

Fixpoint ep_process_variant (c : ctx) (n : nat) (t : ep) : forall t', ep_variant t t' -> res_rel ssame (ep_process c n t) (ep_process c n t').
Proof.
  destruct t as [s p|p fn ops]; intros [s' p'|p' fn' ops'] Hv; try contradiction.
  - destruct Hv as [Hp Hs]. subst p'. cbn [ep_process]. apply simple_planner_variant. exact Hs.
  - apply ep_variant_complex in Hv. destruct Hv as [Hp [Hf Ho]]. subst p' fn'. rewrite !ep_process_unfold.
    assert (H : res_rel sels_same (ep_process_ops c n ops) (ep_process_ops c n ops')).
    { revert ops' Ho. induction ops as [|x r IH]; intros [|x' r'] Ho; cbn in Ho; try contradiction; [constructor|].
      destruct Ho as [Hx Hr]. cbn [ep_process_ops]. fold (ep_process_ops c n).
      pose proof (ep_process_variant c n x x' Hx) as Hy.
      destruct (ep_process c n x) as [y| |]; destruct (ep_process c n x') as [y'| |]; cbn [res_rel bind] in *; try contradiction; try assumption; try exact I.
      specialize (IH r' Hr).
      destruct (ep_process_ops c n r) as [ys| |]; destruct (ep_process_ops c n r') as [ys'| |]; cbn [res_rel bind] in *; try contradiction; try assumption; try exact I.
      constructor; [|exact IH]. cbn [fst snd]. split; [apply nested_prefix_variant; exact Hx|exact Hy]. }
    destruct (ep_process_ops c n ops) as [l| |]; destruct (ep_process_ops c n ops') as [l'| |]; cbn [res_rel bind] in *; try contradiction; try assumption; try exact I.
    destruct fn; cbn [res_rel]; try exact I; apply complex_select_same; exact H.
Qed.

Definition ep_check_ops : list ep -> result unit :=
  fix go (l : list ep) : result unit := match l with [] => Ok tt | x :: r => do _ <- ep_check x; go r end.
Lemma ep_check_unfold p fn ops : ep_check (EPComplex p fn ops) = ep_check_ops ops.
Proof. reflexivity. Qed.

Fixpoint ep_check_variant (t : ep) : forall t', ep_variant t t' -> ep_check t = ep_check t'.
Proof.
  destruct t as [s p|p fn ops]; intros [s' p'|p' fn' ops'] Hv; try contradiction.
  - destruct Hv as [_ Hs]. cbn [ep_check]. apply check_variant. exact Hs.
  - apply ep_variant_complex in Hv. destruct Hv as [_ [_ Ho]]. rewrite !ep_check_unfold.
    revert ops' Ho. induction ops as [|x r IH]; intros [|x' r'] Ho; cbn in Ho; try contradiction; [reflexivity|].
    destruct Ho as [Hx Hr]. cbn [ep_check_ops]. fold ep_check_ops. rewrite (ep_check_variant x x' Hx), (IH r' Hr). reflexivity.
Qed.

Lemma plan_index_variant q q' c n : script_variant q q' -> res_rel ssame (plan_index q c n) (plan_index q' c n).
Proof.
  intro Hv. unfold plan_index.
  assert (Ht : match sc_tail q, sc_tail q' with None, None => True | Some _, Some _ => True | _, _ => False end).
  { destruct q as [h ao tl]; destruct q' as [h' ao' tl']. destruct Hv as [_ [_ Htl]]. cbn [sc_tail]. destruct tl, tl'; try contradiction; exact I. }
  destruct (sc_tail q) as [tq|]; destruct (sc_tail q') as [tq'|]; try contradiction.
  - pose proof (plan_complex_variant q q' None None 0%Z None Hv I) as Hp.
    destruct (plan_complex None 0 None q) as [[r cn]|]; destruct (plan_complex None 0 None q') as [[r' cn']|]; try contradiction; [|exact I].
    destruct Hp as [Hr _]. destruct r as [t|]; destruct r' as [t'|]; try contradiction; [|exact I].
    cbn [opt_ep_variant] in Hr. rewrite (ep_check_variant t t' Hr).
    destruct (ep_check t'); cbn [bind res_rel]; try reflexivity.
    pose proof (ep_process_variant c n t t' Hr) as Hs.
    destruct (ep_process c n t) as [s| |]; destruct (ep_process c n t') as [s'| |]; cbn [res_rel bind] in *; try contradiction; try assumption; try exact I.
    apply E_index_limit. exact Hs.
  - pose proof (simple_planner_variant c q q' "" n Hv) as Hs.
    destruct (simple_planner c q "" n) as [s| |]; destruct (simple_planner c q' "" n) as [s'| |]; cbn [res_rel bind] in *; try contradiction; try assumption; try exact I.
    apply E_index_limit. exact Hs.
Qed.

Lemma plan_search_variant q q' c n : script_variant q q' -> res_rel ssame (plan_search q c n) (plan_search q' c n).
Proof.
  intro Hv. unfold plan_search. pose proof (plan_index_variant q q' c n Hv) as Hs.
  destruct (plan_index q c n) as [s| |]; destruct (plan_index q' c n) as [s'| |]; cbn [res_rel bind] in *; try contradiction; try assumption; try exact I.
  apply E_index_limit, E_traces_data. exact Hs.
Qed.

(* the search entry point (clickhouse_transpiler.Plan) for a request with ANY number of selectors joined by && and || *)
Lemma traceql_search_value_independent q q' c n : script_variant q q' ->
  match plan q MSearch c n, plan q' MSearch c n with
  | Ok s, Ok s' =>
      pok QN (tq_pieces s) = true ->
      pok QN (tq_pieces s') = true /\ shape (tq_pieces s') = shape (tq_pieces s) /\
      skeleton (lex (TqSql.render s')) = skeleton (lex (TqSql.render s)) /\
      lex (TqSql.render s') = etoks QN (tq_pieces s') /\
      List.length (rvalues (tq_pieces s')) = List.length (rvalues (tq_pieces s))
  | Err e, Err e' => e = e'
  | Panic, Panic => True
  | _, _ => False
  end.
Proof.
  intro Hv. cbn [plan]. pose proof (plan_search_variant q q' c n Hv) as H.
  destruct (plan_search q c n) as [s| |]; destruct (plan_search q' c n) as [s'| |]; cbn [res_rel] in H; try contradiction; try assumption; try exact I.
  intro Hok. exact (tq_erased_equal_same_structure s s' H Hok).
Qed.

(* ---------- the term analysis (analyzeCond) of two selectors written with the same shape ---------- *)
(* phi translates the text of a term of the first selector (its de-duplication key) into the text of the corresponding term of the second *)
Fixpoint exp_variant (phi : string -> string) (e e' : attr_exp) : Prop :=
  match e, e' with
  | AExp h ao tl, AExp h' ao' tl' =>
    ao = ao' /\
    match h, h' with
    | HTerm t, HTerm t' => term_variant t t' /\ attr_sel_string t' = phi (attr_sel_string t)
    | HParen x, HParen x' => exp_variant phi x x'
    | _, _ => False
    end /\
    match tl, tl' with None, None => True | Some a, Some a' => exp_variant phi a a' | _, _ => False end
  end.

Fixpoint exp_keys (e : attr_exp) : list string :=
  match e with
  | AExp h _ tl =>
    (match h with HTerm t => [attr_sel_string t] | HParen x => exp_keys x end) ++
    match tl with Some a => exp_keys a | None => [] end
  end.

Definition inj_on (phi : string -> string) (S : list string) : Prop :=
  forall a b, In a S -> In b S -> phi a = phi b -> a = b.

Definition state_rel (phi : string -> string) (st st' : an_state) : Prop :=
  Forall2 term_variant (fst st) (fst st') /\ snd st' = map (fun p => (phi (fst p), snd p)) (snd st).

Lemma find_key_map phi S k l : inj_on phi S -> In k S -> (forall p, In p l -> In (fst p) S) ->
  find_key (phi k) (map (fun p : string * nat => (phi (fst p), snd p)) l) = find_key k l.
Proof.
  intros Hi Hk. induction l as [|[k' i] l IH]; intro Hl; [reflexivity|].
  cbn [map find_key fst snd].
  assert (Hk' : In k' S) by (apply (Hl (k', i)); left; reflexivity).
  destruct (String.eqb_spec k k') as [E|N].
  - subst k'. rewrite String.eqb_refl. reflexivity.
  - destruct (String.eqb_spec (phi k) (phi k')) as [E'|N']; [exfalso; apply N; apply Hi; assumption|].
    apply IH. intros p Hp. apply Hl. right. exact Hp.
Qed.

Lemma analyze_cond_unfold h ao tl st :
  analyze_cond (AExp h ao tl) st =
  let '(res, st1) :=
    match h with
    | HParen e' => analyze_cond e' st
    | HTerm t =>
        let key := attr_sel_string t in
        match find_key key (snd st) with
        | Some i => (CTerm i, st)
        | None => let i := List.length (fst st) in (CTerm i, ((fst st ++ [t])%list, (key, i) :: snd st))
        end
    end in
  match tl with
  | Some t' => let '(r2, st2) := analyze_cond t' st1 in (CBin ao res r2, st2)
  | None => (res, st1)
  end.
Proof. reflexivity. Qed.

Definition keys_in (S : list string) (st : an_state) : Prop := forall p, In p (snd st) -> In (fst p) S.

Fixpoint analyze_cond_variant (phi : string -> string) (S : list string) (e : attr_exp) : forall e' st st',
  exp_variant phi e e' -> inj_on phi S -> incl (exp_keys e) S -> keys_in S st -> state_rel phi st st' ->
  fst (analyze_cond e st) = fst (analyze_cond e' st') /\
  state_rel phi (snd (analyze_cond e st)) (snd (analyze_cond e' st')) /\ keys_in S (snd (analyze_cond e st)).
Proof.
  destruct e as [h ao tl]. intros [h' ao' tl'] st st' Hv Hi Hk Hs Hr.
  destruct Hv as [Hao [Hh Htl]]. subst ao'. rewrite !analyze_cond_unfold.
  cbn [exp_keys] in Hk.
  assert (Hk1 : incl (match h with HTerm t => [attr_sel_string t] | HParen x => exp_keys x end) S) by (intros x Hx; apply Hk; apply in_or_app; left; exact Hx).
  assert (Hk2 : incl (match tl with Some a => exp_keys a | None => [] end) S) by (intros x Hx; apply Hk; apply in_or_app; right; exact Hx).
  (* the head *)
  assert (Hhead : forall r1 r1',
     r1 = (match h with
           | HParen e' => analyze_cond e' st
           | HTerm t => match find_key (attr_sel_string t) (snd st) with
                        | Some i => (CTerm i, st)
                        | None => (CTerm (List.length (fst st)), ((fst st ++ [t])%list, (attr_sel_string t, List.length (fst st)) :: snd st))
                        end end) ->
     r1' = (match h' with
            | HParen e' => analyze_cond e' st'
            | HTerm t => match find_key (attr_sel_string t) (snd st') with
                         | Some i => (CTerm i, st')
                         | None => (CTerm (List.length (fst st')), ((fst st' ++ [t])%list, (attr_sel_string t, List.length (fst st')) :: snd st'))
                         end end) ->
     fst r1 = fst r1' /\ state_rel phi (snd r1) (snd r1') /\ keys_in S (snd r1)).
  { intros r1 r1' E1 E1'. subst r1 r1'.
    destruct h as [t|x]; destruct h' as [t'|x']; try contradiction.
    - destruct Hh as [Ht Hkey]. destruct Hr as [Hf Hm]. rewrite Hkey, Hm.
      rewrite (find_key_map phi S (attr_sel_string t) (snd st) Hi (Hk1 _ (or_introl eq_refl)) Hs).
      destruct (find_key (attr_sel_string t) (snd st)) as [i|].
      + cbn [fst snd]. split; [reflexivity|]. split; [split; assumption|exact Hs].
      + cbn [fst snd]. rewrite (Forall2_len _ _ _ Hf). split; [reflexivity|]. split.
        * split; cbn [fst snd]; [apply Forall2_app; [exact Hf|constructor; [exact Ht|constructor]]|]. cbn [map fst snd]. rewrite <- Hm. reflexivity.
        * intros p [Hp|Hp]; [subst p; cbn [fst]; apply Hk1; left; reflexivity|apply Hs; exact Hp].
    - apply (analyze_cond_variant phi S x x' st st' Hh Hi Hk1 Hs Hr). }
  specialize (Hhead _ _ eq_refl eq_refl).
  destruct (match h with HParen e' => analyze_cond e' st | HTerm t => _ end) as [res st1].
  destruct (match h' with HParen e' => analyze_cond e' st' | HTerm t => _ end) as [res' st1'].
  cbn [fst snd] in Hhead. destruct Hhead as [Hres [Hr1 Hs1]]. subst res'.
  destruct tl as [a|]; destruct tl' as [a'|]; try contradiction.
  - pose proof (analyze_cond_variant phi S a a' st1 st1' Htl Hi Hk2 Hs1 Hr1) as H2.
    destruct (analyze_cond a st1) as [r2 st2]. destruct (analyze_cond a' st1') as [r2' st2']. cbn [fst snd] in *.
    destruct H2 as [E2 [Hr2 Hs2]]. subst r2'. split; [reflexivity|]. split; assumption.
  - cbn [fst snd]. split; [reflexivity|]. split; assumption.
Qed.

(* two selectors written with the same shape, whose terms correspond under an injective translation of the term texts, are variants *)
Lemma selector_variant_of_shape phi h h' e e' :
  sel_attr h = Some e -> sel_attr h' = Some e' -> exp_variant phi e e' -> inj_on phi (exp_keys e) -> sel_agg h = sel_agg h' ->
  selector_variant h h'.
Proof.
  intros He He' Hv Hi Hg. unfold selector_variant, analyze. rewrite He, He'.
  assert (H0 : state_rel phi ([], []) ([], [])) by (split; [constructor|reflexivity]).
  assert (Hk0 : keys_in (exp_keys e) ([], [])) by (intros p []).
  pose proof (analyze_cond_variant phi (exp_keys e) e e' ([], []) ([], []) Hv Hi (incl_refl _) Hk0 H0) as H.
  destruct (analyze_cond e ([], [])) as [c st]. destruct (analyze_cond e' ([], [])) as [c' st']. cbn [fst snd] in *.
  destruct H as [Hc [[Hf _] _]]. split; [now rewrite Hc|]. split; [exact Hf|exact Hg].
Qed.

(* hence, purely in terms of how the two requests are written (one selector; search, tags or values) *)
Lemma traceql_same_shape_requests phi c e e' ag ao ao' m m' n :
  exp_variant phi e e' -> inj_on phi (exp_keys e) -> mode_variant m m' ->
  match plan (Script {| sel_attr := Some e; sel_agg := ag |} ao None) m c n,
        plan (Script {| sel_attr := Some e'; sel_agg := ag |} ao' None) m' c n with
  | Ok s, Ok s' =>
      pok QN (tq_pieces s) = true ->
      pok QN (tq_pieces s') = true /\ shape (tq_pieces s') = shape (tq_pieces s) /\
      skeleton (lex (TqSql.render s')) = skeleton (lex (TqSql.render s)) /\
      lex (TqSql.render s') = etoks QN (tq_pieces s') /\
      List.length (rvalues (tq_pieces s')) = List.length (rvalues (tq_pieces s))
  | Err x, Err x' => x = x'
  | Panic, Panic => True
  | _, _ => False
  end.
Proof.
  intros Hv Hi Hm. apply traceql_planner_value_independent; [|exact Hm].
  exact (selector_variant_of_shape phi {| sel_attr := Some e; sel_agg := ag |} {| sel_attr := Some e'; sel_agg := ag |} e e' eq_refl eq_refl Hv Hi eq_refl).
Qed.

(* ---------- all three entry points, any number of selectors ---------- *)
Lemma script_variant_tail q q' : script_variant q q' ->
  match sc_tail q, sc_tail q' with None, None => True | Some _, Some _ => True | _, _ => False end.
Proof. destruct q as [h ao tl]; destruct q' as [h' ao' tl']. intros [_ [_ Htl]]. cbn [sc_tail]. destruct tl, tl'; try contradiction; exact I. Qed.

Lemma plan_variant q q' m m' c n : script_variant q q' -> mode_variant m m' -> res_rel ssame (plan q m c n) (plan q' m' c n).
Proof.
  intros Hv Hm. destruct m as [| |k]; destruct m' as [| |k']; try contradiction.
  - cbn [plan]. apply plan_search_variant. exact Hv.
  - pose proof (script_variant_tail q q' Hv) as Ht.
    destruct q as [h ao tl]; destruct q' as [h' ao' tl']. cbn [sc_tail] in Ht.
    destruct tl as [t|]; destruct tl' as [t'|]; try contradiction; [reflexivity|].
    destruct Hv as [Hh _]. exact (E_plan c h h' ao ao' MTags MTags n Hh I).
  - pose proof (script_variant_tail q q' Hv) as Ht.
    destruct q as [h ao tl]; destruct q' as [h' ao' tl']. cbn [sc_tail] in Ht.
    destruct tl as [t|]; destruct tl' as [t'|]; try contradiction; [reflexivity|].
    destruct Hv as [Hh _]. exact (E_plan c h h' ao ao' (MValues k) (MValues k') n Hh I).
Qed.

Lemma traceql_planners_value_independent q q' m m' c n : script_variant q q' -> mode_variant m m' ->
  match plan q m c n, plan q' m' c n with
  | Ok s, Ok s' =>
      pok QN (tq_pieces s) = true ->
      pok QN (tq_pieces s') = true /\ shape (tq_pieces s') = shape (tq_pieces s) /\
      skeleton (lex (TqSql.render s')) = skeleton (lex (TqSql.render s)) /\
      lex (TqSql.render s') = etoks QN (tq_pieces s') /\
      List.length (rvalues (tq_pieces s')) = List.length (rvalues (tq_pieces s))
  | Err e, Err e' => e = e'
  | Panic, Panic => True
  | _, _ => False
  end.
Proof.
  intros Hv Hm. pose proof (plan_variant q q' m m' c n Hv Hm) as H.
  destruct (plan q m c n) as [s| |]; destruct (plan q' m' c n) as [s'| |]; cbn [res_rel] in H; try contradiction; try assumption; try exact I.
  intro Hok. exact (tq_erased_equal_same_structure s s' H Hok).
Qed.
