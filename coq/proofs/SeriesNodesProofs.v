(* Proofs about model/SeriesNodes.v (property C04, round 8): the writer process with several ClickHouse nodes and one
   shared announcement cache behaves, node by node, like the single-node model on the node's own history. *)
From Coq Require Import List ZArith Lia Bool String Ascii.
From Qryn Require Import model.GoQuote model.SeriesIndex model.CacheKey model.SeriesNodes
  proofs.SeriesIndexProofs proofs.CacheKeyProofs.
Import ListNotations.
Open Scope Z_scope.

(* ------------------------------------------------------------------ views of the shared cache *)
Lemma view_app p a b : cview p (a ++ b) = cview p a ++ cview p b.
Proof. unfold cview. now rewrite filter_app, map_app. Qed.

Lemma view_tag_same p v : cview p (map (fun x => (p, x)) v) = v.
Proof.
  unfold cview. induction v as [|x v IH]; [reflexivity|].
  cbn [map filter fst]. rewrite String.eqb_refl. cbn [map snd]. now f_equal.
Qed.

Lemma view_tag_other p q v : p <> q -> cview q (map (fun x => (p, x)) v) = [].
Proof.
  intros H. unfold cview. induction v as [|x v IH]; [reflexivity|].
  cbn [map filter fst]. destruct (String.eqb p q) eqn:E; [apply String.eqb_eq in E; contradiction|exact IH].
Qed.

Lemma view_others_same p c : cview p (others p c) = [].
Proof.
  unfold cview, others. induction c as [|e c IH]; [reflexivity|].
  cbn [filter]. destruct (String.eqb (fst e) p) eqn:E; cbn [negb]; [exact IH|].
  cbn [filter]. rewrite E. exact IH.
Qed.

Lemma view_others_other p q c : p <> q -> cview q (others p c) = cview q c.
Proof.
  intros H. unfold cview, others. induction c as [|e c IH]; [reflexivity|].
  cbn [filter]. destruct (String.eqb (fst e) p) eqn:E; cbn [negb].
  - apply String.eqb_eq in E. destruct (String.eqb (fst e) q) eqn:E2.
    + apply String.eqb_eq in E2. congruence.
    + exact IH.
  - cbn [filter]. destruct (String.eqb (fst e) q); cbn [map]; now rewrite IH.
Qed.

(* a node that changes its view sees exactly the new view ... *)
Lemma view_put_same p v c : cview p (put_view p v c) = v.
Proof. unfold put_view. now rewrite view_app, view_tag_same, view_others_same, app_nil_r. Qed.
(* ... and no other prefix sees any difference *)
Lemma view_put_other p q v c : p <> q -> cview q (put_view p v c) = cview q c.
Proof. intros H. unfold put_view. now rewrite view_app, view_tag_other, view_others_other. Qed.

(* ------------------------------------------------------------------ the projection theorem *)
Lemma state_eta (s : state) : {| cache := cache s; ts_rows := ts_rows s; acked := acked s; pending := pending s |} = s.
Proof. now destruct s. Qed.

Section PREFIX.
  Variable pfx : cnode -> string.
  (* the prefix tells the nodes apart exactly as their names do *)
  Hypothesis Hsep : forall m n, pfx m = pfx n <-> n_node m = n_node n.

  Lemma nview_same_name ms m n : n_node m = n_node n -> nview pfx ms m = nview pfx ms n.
  Proof. intros H. unfold nview. rewrite H. now rewrite (proj2 (Hsep m n) H). Qed.

  Lemma mstep_view_same ms m n a :
    n_node m = n_node n -> nview pfx (fst (mstep pfx ms (MAct m a))) n = fst (step (nview pfx ms n) a).
  Proof.
    intros H. cbn [mstep]. rewrite (nview_same_name ms m n H).
    destruct (step (nview pfx ms n) a) as [st' o]. cbn [fst]. unfold nview. cbn [m_cache m_st].
    rewrite (proj2 (Hsep m n) H), view_put_same. unfold upd. rewrite H, String.eqb_refl. apply state_eta.
  Qed.

  Lemma mstep_view_other ms m n a :
    n_node m <> n_node n -> nview pfx (fst (mstep pfx ms (MAct m a))) n = nview pfx ms n.
  Proof.
    intros H. cbn [mstep]. destruct (step (nview pfx ms m) a) as [st' o]. cbn [fst]. unfold nview. cbn [m_cache m_st].
    rewrite view_put_other by (intros E; apply H; now apply Hsep).
    unfold upd. destruct (String.eqb (n_node n) (n_node m)) eqn:E; [apply String.eqb_eq in E; congruence|reflexivity].
  Qed.

  Lemma mrun_proj : forall h ms n,
    nview pfx (mrun pfx ms h) n = run (nview pfx ms n) (proj (n_node n) h).
  Proof.
    induction h as [|a h IH]; intros ms n; [reflexivity|].
    destruct a as [m a|].
    - cbn [mrun proj]. rewrite IH. destruct (String.eqb (n_node m) (n_node n)) eqn:E.
      + apply String.eqb_eq in E. cbn [run]. now rewrite mstep_view_same.
      + assert (n_node m <> n_node n) as Hne by (intros X; rewrite X, String.eqb_refl in E; discriminate).
        now rewrite mstep_view_other.
    - cbn [mrun proj run]. rewrite IH. reflexivity.
  Qed.

  Lemma nview_init n : nview pfx minit n = init.
  Proof. reflexivity. Qed.

  (* every node of the product behaves like the single-node model on its own history *)
  Lemma nodes_are_independent h n : nview pfx (mrun pfx minit h) n = run init (proj (n_node n) h).
  Proof. now rewrite mrun_proj, nview_init. Qed.

  (* the property, node by node: a sample acknowledged on a node has a series row inserted ON THAT NODE *)
  Lemma nodes_all_indexed h n : all_indexed_typed (nview pfx (mrun pfx minit h) n) = true.
  Proof. rewrite nodes_are_independent. apply acked_indexed_typed_all. Qed.

  Lemma nodes_cache_covered h n :
    incl (cview (pfx n) (m_cache (mrun pfx minit h))) (ts_rows (m_st (mrun pfx minit h) (n_node n))).
  Proof.
    pose proof (cache_covered (proj (n_node n) h)) as H. rewrite <- nodes_are_independent in H. exact H.
  Qed.

  (* also what each step shows: the observations of the product, read node by node, are those of the nodes' own runs *)
  Lemma mstep_obs ms m a : snd (mstep pfx ms (MAct m a)) = snd (step (nview pfx ms m) a).
  Proof. cbn [mstep]. now destruct (step (nview pfx ms m) a). Qed.

  Lemma mrun_obs_proj : forall h ms n,
    proj_obs (n_node n) h (mrun_obs pfx ms h) = run_obs (nview pfx ms n) (proj (n_node n) h).
  Proof.
    induction h as [|a h IH]; intros ms n; [reflexivity|].
    destruct a as [m a|].
    - cbn [mrun_obs]. pose proof (mstep_obs ms m a) as Ho.
      pose proof (mstep_view_same ms m n a) as Hs. pose proof (mstep_view_other ms m n a) as Hn.
      destruct (mstep pfx ms (MAct m a)) as [ms' o]. cbn [fst snd] in Ho, Hs, Hn.
      cbn [proj_obs proj]. destruct (String.eqb (n_node m) (n_node n)) eqn:E.
      + apply String.eqb_eq in E. cbn [run_obs]. rewrite IH, (Hs E), Ho, (nview_same_name ms m n E).
        now destruct (step (nview pfx ms n) a).
      + assert (n_node m <> n_node n) as Hne by (intros X; rewrite X, String.eqb_refl in E; discriminate).
        now rewrite IH, (Hn Hne).
    - cbn [mrun_obs mstep proj_obs proj run_obs step]. f_equal. now rewrite IH.
  Qed.

  Lemma nodes_obs_independent h n :
    proj_obs (n_node n) h (mrun_obs pfx minit h) = run_obs init (proj (n_node n) h).
  Proof. now rewrite mrun_obs_proj, nview_init. Qed.
End PREFIX.

(* the code: the prefix IS the node name *)
Lemma code_prefix_separates : forall m n, n_node m = n_node n <-> n_node m = n_node n.
Proof. intros; reflexivity. Qed.

Lemma nodes_all_indexed_code h n : all_indexed_typed (nview n_node (mrun n_node minit h) n) = true.
Proof. apply nodes_all_indexed. exact code_prefix_separates. Qed.

Lemma nodes_are_independent_code h n : nview n_node (mrun n_node minit h) n = run init (proj (n_node n) h).
Proof. apply nodes_are_independent. exact code_prefix_separates. Qed.

(* hypotheses met by a non-trivial value: two nodes with one database name, each gets a push of the same series *)
Definition ex_stream : stream := {| s_fp := 7; s_entries := [{| e_ts := 1700000000000000000; e_type := TLog |}] |}.
Definition w_two_nodes : list mact :=
  [MAct ex_ch2 (Push [ex_stream] true true); MAct ex_ch1 (Push [ex_stream] true true)].
Example two_nodes_code_both_rows :
  ts_rows (nview n_node (mrun n_node minit w_two_nodes) ex_ch1) = [(19675, 7, 1)] /\
  ts_rows (nview n_node (mrun n_node minit w_two_nodes) ex_ch2) = [(19675, 7, 1)] /\
  List.length (m_cache (mrun n_node minit w_two_nodes)) = 2%nat /\
  proj "ch1" w_two_nodes = [Push [ex_stream] true true].
Proof. vm_compute. repeat split. Qed.

(* the prefix by DATABASE name (seeded change C04-g) does not separate the nodes, and the conclusion fails: the push to
   ch1 is acknowledged from what ch2 confirmed, no series row ever reaches ch1 *)
Lemma db_prefix_does_not_separate : ~ (forall m n, n_db m = n_db n <-> n_node m = n_node n).
Proof. intros H. specialize (proj1 (H ex_ch1 ex_ch2) eq_refl). discriminate. Qed.

Lemma db_prefix_loses_row :
  all_indexed_typed (nview n_db (mrun n_db minit w_two_nodes) ex_ch1) = false /\
  acked (nview n_db (mrun n_db minit w_two_nodes) ex_ch1) = [(7, 19675, 1)] /\
  ts_rows (nview n_db (mrun n_db minit w_two_nodes) ex_ch1) = [].
Proof. vm_compute. repeat split. Qed.

Lemma db_prefix_refuted :
  exists h n, all_indexed_typed (nview n_db (mrun n_db minit h) n) = false.
Proof. exists w_two_nodes, ex_ch1. exact (proj1 db_prefix_loses_row). Qed.

(* ------------------------------------------------------------------ which node stores what (withTSAndSampleService) *)
(* a push whose three services belong to ONE node is the product model's step on that node, whatever the prefix *)
Lemma split_push_one_node pfx ms n ss ts_ok spl_ok m :
  nview pfx (split_push pfx ms n n n ss ts_ok spl_ok) m = nview pfx (fst (mstep pfx ms (MAct n (Push ss ts_ok spl_ok)))) m.
Proof.
  unfold split_push. cbn [mstep step finish fst]. unfold nview. cbn [m_cache m_st cache ts_rows acked pending].
  f_equal; unfold upd; destruct (String.eqb (n_node m) (n_node n)) eqn:E;
    cbn [cache ts_rows acked pending]; try reflexivity; rewrite String.eqb_refl; reflexivity.
Qed.

(* after the fix the middleware always hands the three services of one node to doParse ... *)
Lemma choose_one_node_is_one_node dsn d1 d2 d3 : exists n, choose_one_node dsn d1 d2 d3 = (n, n, n).
Proof. destruct dsn as [n|]; [exists n|exists d1]; reflexivity. Qed.

(* ... so every push, with or without the header, whatever the registry draws, is a step of the product model *)
Lemma choice_push_is_model_step pfx ms dsn d1 d2 d3 ss ts_ok spl_ok :
  exists n, forall m, nview pfx (choice_push pfx choose_one_node ms dsn d1 d2 d3 ss ts_ok spl_ok) m
                      = nview pfx (fst (mstep pfx ms (MAct n (Push ss ts_ok spl_ok)))) m.
Proof.
  destruct dsn as [n|]; [exists n|exists d1]; intros m; unfold choice_push; cbn [choose_one_node]; apply split_push_one_node.
Qed.

(* before the fix: no header, the draws ch1 (samples), ch2 (time_series), ch1 (cache view): the sample is acknowledged on ch1,
   its series row is in ch2's table, ch1's table is empty *)
Lemma choose_before_fix_loses_row :
  let ms := choice_push n_node choose_before_fix minit None ex_ch1 ex_ch2 ex_ch1 [ex_stream] true true in
  all_indexed_typed (nview n_node ms ex_ch1) = false /\
  acked (nview n_node ms ex_ch1) = [(7, 19675, 1)] /\ ts_rows (nview n_node ms ex_ch1) = [] /\
  ts_rows (nview n_node ms ex_ch2) = [(19675, 7, 1)].
Proof. vm_compute. repeat split. Qed.

(* ------------------------------------------------------------------ the tagged cache is the byte-keyed cache
   fastcache holds byte keys  prefix ++ ser_le8 (key row) ; a lookup through the view with prefix p hits exactly when the
   tagged model's cview p holds the row (for a key hash that is injective with values in the 64-bit range: the CH64
   collision-freeness hypothesis of announcement_cache_refines) *)
Section BYTES.
  Variable key : row -> Z.
  Variable U : row -> Prop.           (* the announcements that occur (CH64 cannot be injective on all of Z^3) *)
  Hypothesis Hrange : forall x, U x -> 0 <= key x < 2 ^ 64.
  Hypothesis Hinj : forall x y, U x -> U y -> key x = key y -> x = y.

  Definition byte_key (e : tagged) : string := node_key (fst e) (key (snd e)).

  Lemma byte_view_is_tagged_view p x c :
    U x -> Forall (fun e => U (snd e)) c ->
    existsb (String.eqb (node_key p (key x))) (map byte_key c) = mem_row x (cview p c).
  Proof.
    intros Ux Hc. induction c as [|e c IH]; [reflexivity|].
    inversion Hc as [|e' c' Ue Hc']; subst e' c'. specialize (IH Hc').
    cbn [map existsb]. rewrite IH. unfold cview. cbn [filter].
    destruct (String.eqb (fst e) p) eqn:E.
    - apply String.eqb_eq in E. cbn [map mem_row existsb]. fold (mem_row x (map snd (filter (fun e0 => String.eqb (fst e0) p) c))).
      f_equal. unfold byte_key. rewrite E.
      destruct (row_eqb x (snd e)) eqn:R.
      + apply row_eqb_eq in R. subst x. apply String.eqb_refl.
      + destruct (String.eqb (node_key p (key x)) (node_key p (key (snd e)))) eqn:K; [|reflexivity].
        apply String.eqb_eq in K. apply node_key_injective in K; [|now apply Hrange|now apply Hrange].
        destruct K as [_ K]. apply Hinj in K; [|exact Ux|exact Ue]. subst x.
        assert (row_eqb (snd e) (snd e) = true) as X by now apply row_eqb_eq. congruence.
    - destruct (String.eqb (node_key p (key x)) (byte_key e)) eqn:K; [|reflexivity].
      apply String.eqb_eq in K. unfold byte_key in K. apply node_key_injective in K; [|now apply Hrange|now apply Hrange].
      destruct K as [K _]. subst p. rewrite String.eqb_refl in E. discriminate.
  Qed.
End BYTES.

(* hypotheses met: two announcements of one day and type, told apart by a key that reads the fingerprint *)
Definition ex_fpkey (x : row) : Z := let '(_, fp, _) := x in fp.
Definition ex_U (x : row) : Prop := x = (19675, 7, 1) \/ x = (19675, 8, 1).
Example byte_view_hypotheses_met :
  (forall x, ex_U x -> 0 <= ex_fpkey x < 2 ^ 64) /\
  (forall x y, ex_U x -> ex_U y -> ex_fpkey x = ex_fpkey y -> x = y) /\
  ex_U (19675, 7, 1) /\ Forall (fun e : tagged => ex_U (snd e)) [("ch1"%string, (19675, 8, 1)); ("ch2"%string, (19675, 7, 1))].
Proof.
  split; [|split; [|split]].
  - intros x [H|H]; subst x; cbn; lia.
  - intros x y [H|H] [G|G]; subst x y; cbn; intros E; try reflexivity; discriminate.
  - now left.
  - constructor; [now right|constructor; [now left|constructor]].
Qed.
