(* strconv.ParseInt after %d (property C06): the decimal text of an integer parses back to it exactly when it lies in int64.
   [print_Z] is the model of fmt "%d" / strconv.FormatInt, [parse_int64] the model of strconv.ParseInt(s, 10, 64) (model/Spans.v). *)
From Coq Require Import List ZArith NArith Bool String Ascii Lia Decimal DecimalString DecimalPos.
From Qryn Require Import model.Spans.
Import ListNotations.
Open Scope Z_scope.

(* the value of a digit sequence read left to right *)
Fixpoint uval (u : Decimal.uint) (acc : Z) : Z :=
  match u with
  | Nil => acc
  | D0 d => uval d (acc * 10 + 0) | D1 d => uval d (acc * 10 + 1) | D2 d => uval d (acc * 10 + 2)
  | D3 d => uval d (acc * 10 + 3) | D4 d => uval d (acc * 10 + 4) | D5 d => uval d (acc * 10 + 5)
  | D6 d => uval d (acc * 10 + 6) | D7 d => uval d (acc * 10 + 7) | D8 d => uval d (acc * 10 + 8)
  | D9 d => uval d (acc * 10 + 9)
  end.

Lemma digits_string_of_uint u : forall acc, digits (NilEmpty.string_of_uint u) acc = Some (uval u acc).
Proof. induction u; intro acc; cbn [NilEmpty.string_of_uint uval]; try reflexivity; cbn [digits]; cbn; apply IHu. Qed.

Lemma uval_pos u : forall p, uval u (Z.pos p) = Z.pos (Pos.of_uint_acc u p).
Proof.
  induction u; intro p; cbn [uval Pos.of_uint_acc]; try reflexivity;
    match goal with |- uval _ ?a = _ => let q := fresh in evar (q : positive); replace a with (Z.pos q); subst q; [apply IHu|lia] end.
Qed.

Lemma uval_0 u : uval u 0 = Z.of_N (Pos.of_uint u).
Proof.
  induction u; cbn [uval Pos.of_uint]; try reflexivity; try exact IHu;
    match goal with |- uval _ ?a = _ => let q := fresh in evar (q : positive); replace a with (Z.pos q); subst q; [rewrite uval_pos; reflexivity|reflexivity] end.
Qed.

Lemma print_pos p : print_Z (Z.pos p) = NilEmpty.string_of_uint (Pos.to_uint p).
Proof.
  unfold print_Z. cbn [Z.to_int NilZero.string_of_int]. unfold NilZero.string_of_uint.
  pose proof (Unsigned.to_uint_nonnil p) as H. destruct (Pos.to_uint p); [congruence|reflexivity..].
Qed.
Lemma print_neg p : print_Z (Z.neg p) = String "-" (NilEmpty.string_of_uint (Pos.to_uint p)).
Proof.
  unfold print_Z. cbn [Z.to_int NilZero.string_of_int]. unfold NilZero.string_of_uint.
  pose proof (Unsigned.to_uint_nonnil p) as H. destruct (Pos.to_uint p); [congruence|reflexivity..].
Qed.

Lemma digits_of_pos p : digits (NilEmpty.string_of_uint (Pos.to_uint p)) 0 = Some (Z.pos p).
Proof. rewrite digits_string_of_uint, uval_0, Unsigned.of_to. reflexivity. Qed.

(* the text of a positive number: non-empty, starts with a digit (neither a sign) *)
Lemma uint_text_head p : exists c r, NilEmpty.string_of_uint (Pos.to_uint p) = String c r /\ Ascii.eqb c "-" = false /\ Ascii.eqb c "+" = false.
Proof.
  pose proof (Unsigned.to_uint_nonnil p) as H. destruct (Pos.to_uint p); [congruence|..]; cbn [NilEmpty.string_of_uint];
    eexists; eexists; (split; [reflexivity|split; reflexivity]).
Qed.

(* ParseInt(FormatInt(z)) = z exactly on int64; outside it the text is refused *)
Theorem parse_print_int64_l z : parse_int64 (print_Z z) = if in_int64 z then Some z else None.
Proof.
  destruct z as [|p|p].
  - reflexivity.
  - rewrite print_pos. destruct (uint_text_head p) as (c & r & Hs & Hm & Hp). pose proof (digits_of_pos p) as Hd. rewrite Hs in *.
    unfold parse_int64. rewrite Hm, Hp. cbn [orb]. replace (String.eqb (String c r) "") with false by reflexivity. rewrite Hd. reflexivity.
  - rewrite print_neg. destruct (uint_text_head p) as (c & r & Hs & _ & _). pose proof (digits_of_pos p) as Hd. rewrite Hs in *.
    unfold parse_int64. replace (Ascii.eqb "-" "-") with true by reflexivity. cbn [orb].
    replace (String.eqb (String c r) "") with false by reflexivity. rewrite Hd. reflexivity.
Qed.

Corollary parse_print_exact z : - two63 <= z < two63 -> parse_int64 (print_Z z) = Some z.
Proof.
  intro H. rewrite parse_print_int64_l. unfold in_int64.
  destruct (Z.leb_spec (- two63) z); [|lia]. destruct (Z.ltb_spec z two63); [reflexivity|lia].
Qed.
Corollary parse_print_outside z : ~ (- two63 <= z < two63) -> parse_int64 (print_Z z) = None.
Proof.
  intro H. rewrite parse_print_int64_l. unfold in_int64.
  destruct (Z.leb_spec (- two63) z); destruct (Z.ltb_spec z two63); try reflexivity; lia.
Qed.

Example ex_parse_print : parse_int64 (print_Z (-9223372036854775808)) = Some (-9223372036854775808) /\
                         parse_int64 (print_Z 9223372036854775808) = None /\ print_Z (-9223372036854775808) = "-9223372036854775808"%string.
Proof. split; [apply parse_print_exact; unfold two63; lia|]. split; [apply parse_print_outside; unfold two63; lia|reflexivity]. Qed.
