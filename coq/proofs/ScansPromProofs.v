(* C13 for the Prometheus select path (model/PromSel.v, tied byte for byte to reader/promql/transpiler and
   CLokiQuerier.transpileLabelMatchers by the promsel correspondence): every base-table read of the statement
   that Select sends, for every hint record, matcher list, regex oracle, layout and database name, is bounded by
   the hint window and carries type IN (2,0); the label fetch of labelsGetter has a covering date range and no
   type conjunct.  The raw path reads [Start, End + 1 ms) (the closed millisecond window, fix f155c1f), the
   down-sampled path Start <= t <= End in nanoseconds (fix 24e9bdc; metrics_15s rows are
   stamped on 15-second boundaries). *)
From Coq Require Import List ZArith NArith String Ascii Bool Lia.
From Qryn Require Import lib.Strs lib.CivilDate model.Sql model.SqlRender model.Logql model.LogqlPlan model.PromSel model.Scans
  proofs.ScansProofs proofs.ScansPlanProofs.
Import ListNotations.
Open Scope list_scope.

(* what the proofs need of the window a Prometheus context is judged against: the raw planner writes
   timestamp_ns >= From and timestamp_ns < To + 1 ms, the down-sampled one timestamp_ns >= From and timestamp_ns <= To *)
Record pwin_ok (raw ds : bool) (c : pctx) (W : window) : Prop := {
  pk_type : w_type W = api_type c;
  pk_lo : (w_lo_min W <= c_from_ns c <= w_from W)%Z;                       (* raw path: timestamp_ns >= From *)
  pk_hi : raw = true -> (w_to W <= c_to_ns c + 1000000 <= w_hi_max W + 1)%Z;   (* raw path: timestamp_ns < To + 1 ms *)
  (* down-sampled path: timestamp_ns >= From and timestamp_ns <= To on the roll-up table, whose rows are stamped with the
     start of their 15-second slot: the bounds are read at slot granularity (Scans.slot_bounded) *)
  pk_ds : ds = true -> (fl_slot slot15 (w_lo_min W) <= cl_slot slot15 (c_from_ns c) <= w_from W /\
                        w_to W <= cl_slot slot15 (c_to_ns c + 1) <= cl_slot slot15 (w_hi_max W + 1))%Z
}.

Section PROM.
  Variable info : string -> tinfo.
  Variable c : pctx.
  Variable W : window.
  Variable raw ds : bool.
  Hypothesis Htab : ctx_tables info c.
  Hypothesis Hwin : pwin_ok raw ds c W.
  Notation Q := (Q info W false).
  Notation good := (good Q).
  Notation egood := (egood Q).
  Notation ogood := (ogood Q).

  Lemma p_from_le : (c_from_ns c <= w_from W)%Z.
  Proof. destruct Hwin as [_ H _ _]. lia. Qed.
  Variable re_full : string -> string -> bool.

  Lemma prom_stream_select_good ms : good (stream_select c ms).
  Proof.
    unfold stream_select, and_having, and_where, format_from_date. fields_all.
    apply good_base; try reflexivity.
    - fields_all. unfold And. rewrite conjs_and.
      cbn [flat_map]. rewrite !conjs_other by (unfold get_types, Ge, Or; intros l H; discriminate).
      cbn [app]. constructor; [|constructor]. split.
      + constructor; [|constructor; [apply types_conj_free | constructor; [|constructor]]].
        * apply tsn_free_closed. intros a b. reflexivity.
        * apply neutral_tsn_free. apply sel_clauses_neutral.
      + left. apply (bounded_index info c W); [apply Hwin | apply p_from_le | apply Htab|].
        unfold bounds. cbn [sc_conj flat_map]. rewrite types_bounds.
        rewrite (sel_clauses_neutral OOr ms). reflexivity.
    - apply exprs_parts. constructor; fields_all; cbn [ScansPlanProofs.ogood]; repeat constructor.
      + unfold ScansPlanProofs.egood, And, Or, Ge, get_types. cbn [escans flat_map app]. rewrite sel_clauses_noselect. constructor.
      + unfold ScansPlanProofs.egood, And, Eq. cbn [escans flat_map app]. rewrite sel_clauses_noselect. constructor.
  Qed.

  (* the samples skeleton of InitClickhousePlanner *)
  Lemma prom_raw_own t cols :
    raw = true -> info t = data_typed ->
    Forall Q (own_scan (and_where [Ge (Id "samples.timestamp_ns") (IntV (c_from_ns c));
                                    Lt (Id "samples.timestamp_ns") (IntV (c_to_ns c + 1000000)); get_types c]
                          (set_from (SimpleCol t "samples") (set_cols cols empty_select)))).
  Proof.
    intros Hraw Hi. unfold and_where, SimpleCol. fields_all. unfold And. rewrite conjs_and.
    set (d1 := Ge (Id "samples.timestamp_ns") (IntV (c_from_ns c))).
    set (d2 := Lt (Id "samples.timestamp_ns") (IntV (c_to_ns c + 1000000))).
    cbn [flat_map]. rewrite !conjs_other by (subst d1 d2; unfold get_types, Ge, Lt; intros l H; discriminate).
    cbn [app]. constructor; [|constructor]. split.
    - constructor; [|constructor; [|constructor; [apply types_conj_free | constructor]]].
      + intros a b [Ht Ha]. subst d1. unfold Ge, classify, col_is, qualifier_ok. cbn. rewrite Ha, Ht. reflexivity.
      + intros a b [Ht Ha]. subst d2. unfold Lt, classify, col_is, qualifier_ok. cbn. rewrite Ha, Ht. reflexivity.
    - left. destruct Hwin as [H1 H2 H3 _]. specialize (H3 Hraw).
      apply (bounded_data info c W _ (c_from_ns c) (c_to_ns c + 1000000)); [exact H1 | lia | lia | exact Hi|].
      unfold bounds. cbn [sc_conj flat_map]. rewrite types_bounds. subst d1 d2. reflexivity.
  Qed.
  (* the metrics_15s skeleton of InitDownsamplePlanner *)
  Lemma prom_data_own t cols :
    ds = true -> info t = slot15_typed ->
    Forall Q (own_scan (and_where [Ge (Id "samples.timestamp_ns") (IntV (c_from_ns c));
                                    Le (Id "samples.timestamp_ns") (IntV (c_to_ns c)); get_types c]
                          (set_from (SimpleCol t "samples") (set_cols cols empty_select)))).
  Proof.
    intros Hds Hi. unfold and_where, SimpleCol. fields_all. unfold And. rewrite conjs_and.
    set (d1 := Ge (Id "samples.timestamp_ns") (IntV (c_from_ns c))).
    set (d2 := Le (Id "samples.timestamp_ns") (IntV (c_to_ns c))).
    cbn [flat_map]. rewrite !conjs_other by (subst d1 d2; unfold get_types, Ge, Le; intros l H; discriminate).
    cbn [app]. constructor; [|constructor]. split.
    - constructor; [|constructor; [|constructor; [apply types_conj_free | constructor]]].
      + intros a b [Ht Ha]. subst d1. unfold Ge, classify, col_is, qualifier_ok. cbn. rewrite Ha, Ht. reflexivity.
      + intros a b [Ht Ha]. subst d2. unfold Le, classify, col_is, qualifier_ok. cbn. rewrite Ha, Ht. reflexivity.
    - left. destruct Hwin as [H1 H2 H3 H4]. specialize (H4 Hds). destruct H4 as [H4 H5].
      apply (bounded_slot info c W _ (c_from_ns c) (c_to_ns c + 1)); [exact H1 | exact H4 | exact H5 | exact Hi|].
      unfold bounds. cbn [sc_conj flat_map]. rewrite types_bounds. subst d1 d2. reflexivity.
  Qed.

  Lemma good_add_withs ws s : good s -> Forall (goodw Q) ws -> good (add_withs ws s).
  Proof.
    intros H Hws. apply good_parts in H. destruct H as [A B C D E]. apply good_parts.
    unfold add_withs. constructor; fields_all; try assumption.
    apply hoist_good; assumption.
  Qed.

  Lemma with_limit_good s : good s -> good (with_limit c s).
  Proof.
    intros H. unfold with_limit. destruct (0 <? c_limit c)%Z; [|exact H].
    apply good_set_limit; [exact H | apply egood_nil; reflexivity].
  Qed.

  Lemma init_clickhouse_good : raw = true -> good (init_clickhouse c).
  Proof.
    intros Hraw. unfold init_clickhouse. apply with_limit_good.
    apply good_set_orderby; [|repeat constructor; apply egood_nil; reflexivity].
    apply good_base; try reflexivity.
    - apply prom_raw_own; [exact Hraw | apply Htab].
    - apply exprs_parts. unfold and_where, SimpleCol, ts_ms_col. constructor; fields_all; cbn [ScansPlanProofs.ogood];
        repeat constructor; apply egood_nil; reflexivity.
  Qed.

  Lemma init_downsample_good : ds = true -> good (init_downsample c).
  Proof.
    intros Hds. unfold init_downsample. apply with_limit_good.
    apply good_set_groupby; [|repeat constructor; apply egood_nil; reflexivity].
    apply good_set_orderby; [|repeat constructor; apply egood_nil; reflexivity].
    apply good_base; try reflexivity.
    - apply prom_data_own; [exact Hds | apply Htab].
    - apply exprs_parts. unfold and_where, SimpleCol, ts_ms_col. constructor; fields_all; cbn [ScansPlanProofs.ogood];
        repeat constructor; apply egood_nil; reflexivity.
  Qed.

  (* the exclusion of a matcher that accepts "": fingerprint IN (<series the matcher rejects>) == 0 *)
  Lemma egood_eq_in_subq x q z : good q -> egood (Eq (In (Id x) [SubQ q]) (IntV z)).
  Proof. intros H. unfold ScansPlanProofs.egood, Eq. cbn [escans flat_map app]. rewrite !app_nil_r. exact H. Qed.
  Lemma not_rejected_ok m : cl_neutral [not_rejected c m] /\ Forall egood [not_rejected c m].
  Proof.
    split.
    - unfold not_rejected, Eq, cl_neutral. cbn [flat_map]. rewrite conjs_other by (intros l H; discriminate). cbn [app].
      constructor; [|constructor]. apply neutral_b_sound. reflexivity.
    - constructor; [|constructor]. unfold not_rejected. apply egood_eq_in_subq. unfold rejected_query. apply prom_stream_select_good.
  Qed.
  Lemma fingerprints_query_good ms : good (fingerprints_query re_full c ms).
  Proof.
    unfold fingerprints_query.
    generalize (prom_stream_select_good (map prom_matcher (filter (fun m => negb (accepts_empty re_full m)) ms))).
    generalize (stream_select c (map prom_matcher (filter (fun m => negb (accepts_empty re_full m)) ms))).
    induction (filter (accepts_empty re_full) ms) as [|m r IH]; intros q Hq; cbn [fold_left]; [exact Hq|].
    apply IH. destruct (not_rejected_ok m) as [Hn Hg]. apply good_and_where; assumption.
  Qed.

  (* the restriction to the selected fingerprints, on either skeleton *)
  Lemma fp_restrict_good x s fpq :
    neutral (In (Id x) [WRef "fp_sel" fpq]) -> good s -> good fpq ->
    good (and_where [In (Id x) [WRef "fp_sel" fpq]] (add_withs [("fp_sel"%string, fpq)] s)).
  Proof.
    intros Hn Hs Hf. apply good_and_where.
    - apply good_add_withs; [exact Hs | constructor; [exact Hf | constructor]].
    - apply in_fp_cl_neutral, Hn.
    - constructor; [apply egood_in_wref, Hf | constructor].
  Qed.

  Lemma or_cl_neutral op x r : cl_neutral [Or (LOp op x :: r)].
  Proof.
    unfold cl_neutral, Or. cbn [flat_map]. rewrite conjs_other by (intros l0 H; discriminate). cbn [app].
    constructor; [|constructor]. apply neutral_b_sound. destruct r as [|b [|y r']]; reflexivity.
  Qed.

  Lemma process_hints_good q h : good q -> good (process_hints q h).
  Proof.
    intros Hq. unfold process_hints.
    assert (H1 : good (if is_instant (h_func h) then
      set_orderby [Ord (Id "fingerprint") true; Ord (Id "timestamp_ms") true]
       (set_groupby [Id "timestamp_ms"; Id "fingerprint"]
        (set_from (WRef "spls" q)
         (set_cols [Id "fingerprint";
                    Col (Fn "argMax" [Id "spls.value"; Id "spls.timestamp_ms"]) "value";
                    Col (bucket_expr h) "timestamp_ms"]
          (with_ [("spls"%string, q)] empty_select)))) else q)).
    { destruct (is_instant (h_func h)); [|exact Hq].
      apply good_set_orderby; [|repeat constructor; apply egood_nil; reflexivity].
      apply good_set_groupby; [|repeat constructor; apply egood_nil; reflexivity].
      apply good_from_ref; [reflexivity | exact Hq | | constructor; [exact Hq | constructor]].
      repeat constructor; apply egood_nil; reflexivity. }
    destruct (is_range (h_func h) && (h_range h <? h_step h)%Z); [|exact H1].
    apply good_and_where; [exact H1 | unfold Eq; apply or_cl_neutral|].
    constructor; [apply egood_nil; reflexivity | constructor].
  Qed.

  Lemma transpile_good h ms : raw = true -> good (transpile_label_matchers re_full h c ms).
  Proof.
    intros Hraw. unfold transpile_label_matchers.
    assert (H : good (and_where [In (Id "samples.fingerprint") [WRef "fp_sel" (fingerprints_query re_full c ms)]]
                       (add_withs [("fp_sel"%string, fingerprints_query re_full c ms)] (init_clickhouse c)))).
    { apply fp_restrict_good; [apply neutral_in_fp1 | apply init_clickhouse_good, Hraw | apply fingerprints_query_good]. }
    destruct (Z.eqb (h_step h) 0); [exact H | apply process_hints_good, H].
  Qed.

  Lemma stream_select_combiner_good ms : ds = true -> good (stream_select_combiner re_full c ms).
  Proof.
    intros Hds. unfold stream_select_combiner.
    apply fp_restrict_good; [apply neutral_in_fp3 | apply init_downsample_good, Hds | apply fingerprints_query_good].
  Qed.

  Lemma value_merge_noselect f : escans (value_merge f) = [].
  Proof. unfold value_merge. repeat (match goal with |- context [String.eqb f ?x] => destruct (String.eqb f x) end; [reflexivity|]). reflexivity. Qed.

  Lemma patch_field_good alias nf q : good q -> egood nf -> good (patch_field alias nf q).
  Proof.
    intros Hq Hn. unfold patch_field. apply good_set_cols; [exact Hq|].
    pose proof (good_cols info W false q Hq) as Hc.
    induction Hc as [|x r Hx Hr IH]; cbn [map]; constructor; [|exact IH].
    destruct (alias_of x) as [[y a]|]; [destruct (String.eqb a alias); assumption | exact Hx].
  Qed.

  Lemma downsample_hints_good q h : good q -> good (downsample_hints q h).
  Proof.
    intros Hq. unfold downsample_hints. destruct (Z.eqb (h_step h) 0); [exact Hq|].
    assert (H1 : good (patch_field "value" (Col (value_merge (h_func h)) "value") q)).
    { apply patch_field_good; [exact Hq|]. apply egood_nil. cbn [escans]. apply value_merge_noselect. }
    destruct (is_range (h_func h) && (h_range h <? h_step h)%Z).
    - apply good_and_where; [| unfold Eq; apply or_cl_neutral | constructor; [apply egood_nil; reflexivity | constructor]].
      apply patch_field_good; [exact H1 | apply egood_nil; reflexivity].
    - apply patch_field_good; [exact H1 | apply egood_nil; reflexivity].
  Qed.

  Lemma transpile_downsample_good h ms : ds = true -> good (transpile_label_matchers_downsample re_full h c ms).
  Proof. intros Hds. apply downsample_hints_good, stream_select_combiner_good, Hds. Qed.
End PROM.

(* ------------------------------------------------------------------ table names with a database prefix *)
Open Scope string_scope.
Fixpoint no_dot (s : string) : bool :=
  match s with EmptyString => true | String ch r => negb (Ascii.eqb ch ".") && no_dot r end.
Lemma after_last_dot_nodot s acc : no_dot s = true -> after_last_dot s acc = acc.
Proof.
  revert acc. induction s as [|ch r IH]; intros acc H; [reflexivity|]. cbn [no_dot] in H. apply andb_true_iff in H. destruct H as [H1 H2].
  cbn [after_last_dot]. destruct (Ascii.eqb ch "."); [discriminate H1 | apply IH, H2].
Qed.
Lemma after_last_dot_prefix p s acc : no_dot s = true -> after_last_dot (p ++ "." ++ s) acc = s.
Proof.
  intros Hs. revert acc. induction p as [|ch r IH]; intros acc.
  - cbn. apply after_last_dot_nodot, Hs.
  - cbn [append after_last_dot]. destruct (Ascii.eqb ch "."); apply IH.
Qed.
Lemma sapp_assoc (a b d : string) : (a ++ b) ++ d = a ++ b ++ d.
Proof. induction a as [|ch r IH]; [reflexivity|]. cbn [append]. rewrite IH. reflexivity. Qed.
Lemma table_info_db db name : no_dot name = true -> table_info ("`" ++ db ++ "`." ++ name) = table_info name.
Proof.
  intros H. unfold table_info, table_base.
  replace ("`" ++ db ++ "`." ++ name) with (("`" ++ db ++ "`") ++ "." ++ name).
  - rewrite after_last_dot_prefix by exact H. rewrite (after_last_dot_nodot name name H). reflexivity.
  - rewrite !sapp_assoc. reflexivity.
Qed.

Lemma prom_ctx_tables cluster db h : ctx_tables table_info (prom_ctx cluster db h).
Proof.
  destruct cluster; constructor; cbn [prom_ctx prom_tables t_samples t_gin t_ts t_ts_dist t_m15];
    try reflexivity;
    match goal with |- table_info (_ ++ db ++ String _ (String _ ?n)) = _ =>
      (etransitivity; [exact (table_info_db db n eq_refl) | reflexivity]) end.
Qed.

(* the window of a Select: rows with Start <= timestamp <= End (milliseconds, as nanoseconds), metric samples *)
Definition prom_win (h : hints) : window :=
  {| w_from := h_start h * 1000000; w_to := h_end h * 1000000 + 1;
     w_lo_min := h_start h * 1000000; w_hi_max := h_end h * 1000000 + 999999; w_type := 2 |}.
(* the window of the raw path alone: exactly the closed millisecond window [Start, End], in nanoseconds *)
Definition prom_raw_win (h : hints) : window :=
  {| w_from := h_start h * 1000000; w_to := h_end h * 1000000 + 1000000;
     w_lo_min := h_start h * 1000000; w_hi_max := h_end h * 1000000 + 999999; w_type := 2 |}.
(* the window of the down-sampled path alone: exactly Start <= timestamp_ns <= End (rows of metrics_15s are stamped on
   15-second boundaries, so this is the closed millisecond window for them) *)
Definition prom_ds_win (h : hints) : window :=
  {| w_from := h_start h * 1000000; w_to := h_end h * 1000000 + 1;
     w_lo_min := h_start h * 1000000; w_hi_max := h_end h * 1000000; w_type := 2 |}.
(* the decision of CLokiQuerier.transpileLabelMatchers: the roll-up table is chosen only when hints.Start lies on a
   15-second boundary TO THE MILLISECOND (seeded change C13-f tested the whole seconds only) *)
Lemma rollup_start_aligned h : use_raw_data h = false -> ((h_start h * 1000000) mod slot15 = 0)%Z.
Proof.
  unfold use_raw_data.
  destruct (match map_get (h_func h) supported_functions with Some b => (b, true) | None => (false, false) end) as [sup ok].
  intros H. apply orb_false_iff in H. destruct H as [H _]. apply orb_false_iff in H. destruct H as [H _].
  apply orb_false_iff in H. destruct H as [H _]. apply negb_false_iff, Z.eqb_eq in H.
  apply Z.rem_divide in H; [|lia]. destruct H as [q Hq]. rewrite Hq. unfold slot15.
  replace (q * 15000 * 1000000)%Z with (q * 15000000000)%Z by lia. apply Z_mod_mult.
Qed.
Lemma cl_ge x : (x <= cl_slot slot15 x)%Z.
Proof. destruct (cl_slot_spec slot15 x slot15_pos) as [[H _] _]. exact H. Qed.
Lemma fl_le x : (fl_slot slot15 x <= x)%Z.
Proof. destruct (fl_slot_spec slot15 x slot15_pos) as [[H _] _]. exact H. Qed.

Lemma prom_win_ok cluster db h : pwin_ok true (negb (use_raw_data h)) (prom_ctx cluster db h) (prom_win h).
Proof.
  constructor; unfold prom_win, prom_ctx; destruct (prom_tables cluster db) as [[gin spl] m15];
    cbn [w_type w_from w_to w_lo_min w_hi_max c_from_ns c_to_ns api_type c_type]; try reflexivity; try lia.
  intros Hds. apply negb_true_iff in Hds. rewrite (cl_slot_aligned slot15 _ slot15_pos (rollup_start_aligned h Hds)).
  pose proof (fl_le (h_start h * 1000000)). pose proof (cl_ge (h_end h * 1000000 + 1)).
  pose proof (cl_slot_mono slot15 (h_end h * 1000000 + 1) (h_end h * 1000000 + 999999 + 1) slot15_pos ltac:(lia)). lia.
Qed.
Lemma prom_raw_win_ok cluster db h : pwin_ok true false (prom_ctx cluster db h) (prom_raw_win h).
Proof.
  constructor; unfold prom_raw_win, prom_ctx; destruct (prom_tables cluster db) as [[gin spl] m15];
    cbn [w_type w_from w_to w_lo_min w_hi_max c_from_ns c_to_ns api_type c_type]; try reflexivity; try lia; try discriminate.
Qed.
Lemma prom_ds_win_ok cluster db h : use_raw_data h = false -> pwin_ok false true (prom_ctx cluster db h) (prom_ds_win h).
Proof.
  intros Hds.
  constructor; unfold prom_ds_win, prom_ctx; destruct (prom_tables cluster db) as [[gin spl] m15];
    cbn [w_type w_from w_to w_lo_min w_hi_max c_from_ns c_to_ns api_type c_type]; try reflexivity; try lia; try discriminate.
  intros _. rewrite (cl_slot_aligned slot15 _ slot15_pos (rollup_start_aligned h Hds)).
  pose proof (fl_le (h_start h * 1000000)). pose proof (cl_ge (h_end h * 1000000 + 1)). lia.
Qed.

Lemma unQ info W q : good (Q info W false) q -> Forall (scan_bounded info W) (scans q).
Proof.
  intros G. apply (from_good _ _ _ _ true) in G. eapply Forall_impl; [|exact G].
  intros sc [H|[H _]]; [exact H | discriminate H].
Qed.

(* every Select, raw or down-sampled: every row with Start <= t <= End is read, nothing outside [Start, End + 1 ms) *)
Theorem prom_select_scans_bounded re_full cluster db h ms :
  Forall (scan_bounded table_info (prom_win h)) (scans (fst (querier_transpile re_full cluster db h ms))).
Proof.
  unfold querier_transpile.
  pose proof (prom_ctx_tables cluster db h) as Ht. pose proof (prom_win_ok cluster db h) as Hw.
  set (c := prom_ctx cluster db h) in *. apply unQ.
  destruct (use_raw_data h); cbn [fst negb] in *; [apply (transpile_good _ _ _ true false) | apply (transpile_downsample_good _ _ _ true true)]; auto.
Qed.

(* a Select planned on the raw samples reads exactly the closed millisecond window [Start, End] *)
Theorem prom_raw_select_scans_exact re_full cluster db h ms :
  use_raw_data h = true ->
  Forall (scan_bounded table_info (prom_raw_win h)) (scans (fst (querier_transpile re_full cluster db h ms))).
Proof.
  intros Hr. unfold querier_transpile. rewrite Hr. cbn [fst].
  apply unQ. apply (transpile_good _ _ _ true false); [apply prom_ctx_tables | apply prom_raw_win_ok | reflexivity].
Qed.

(* a Select planned on the 15-second roll-up reads exactly Start <= timestamp_ns <= End (fix 24e9bdc: the lower bound was
   exclusive and left out the row stamped exactly Start) *)
Theorem prom_downsample_select_scans_exact re_full cluster db h ms :
  use_raw_data h = false ->
  Forall (scan_bounded table_info (prom_ds_win h)) (scans (fst (querier_transpile re_full cluster db h ms))).
Proof.
  intros Hr. unfold querier_transpile. rewrite Hr. cbn [fst].
  apply unQ. apply (transpile_downsample_good _ _ _ false true); [apply prom_ctx_tables | apply prom_ds_win_ok, Hr | reflexivity].
Qed.

Definition ds_hints : hints := {| h_start := 1704888000000; h_end := 1704891600000; h_step := 15000; h_func := ""; h_range := 0 |}.
Definition raw_hints : hints := {| h_start := 1704888000001; h_end := 1704891600000; h_step := 5000; h_func := "rate"; h_range := 60000 |}.
Definition m_up : matcher := {| m_name := "__name__"; m_op := MEq; m_val := "up" |}.
Definition m_re : matcher := {| m_name := "job"; m_op := MRe; m_val := ".*" |}.
Lemma prom_examples :
  use_raw_data raw_hints = true /\ use_raw_data ds_hints = false /\
  Nat.leb 5 (List.length (scans (fst (querier_transpile (fun _ _ => true) true "qryn" raw_hints [m_up; m_re])))) = true /\
  Nat.leb 5 (List.length (scans (fst (querier_transpile (fun _ _ => true) false "qryn" ds_hints [m_up; m_re])))) = true.
Proof. repeat split; vm_compute; reflexivity. Qed.

(* ------------------------------------------------------------------ the choice of the roll-up table (round 6, seeded change C13-f) *)
Lemma table_info_slot t k : ti_class (table_info t) = CSlot k -> k = slot15.
Proof.
  unfold table_info.
  repeat match goal with |- context [if ?b then _ else _] => destruct b; cbn [ti_class] end;
    intros H; try discriminate H; injection H as <-; reflexivity.
Qed.

(* never miss data inside the window, for the table Select chose: for every instant t of [Start, End] the row of the
   roll-up table that holds t (stamped with the start of t's 15-second slot) passes every timestamp conjunct of every
   read of metrics_15s.  This holds BECAUSE the roll-up is chosen for slot-aligned Start only (rollup_start_aligned). *)
Theorem prom_select_reads_every_slot re_full cluster db h ms t :
  (h_start h * 1000000 <= t <= h_end h * 1000000)%Z ->
  Forall (fun sc => forall k, ti_class (table_info (sc_table sc)) = CSlot k ->
            (forall lo, has_bnd sc (TsLo lo) -> lo <= fl_slot k t)%Z /\ (forall hi, has_bnd sc (TsHi hi) -> fl_slot k t < hi)%Z)
         (scans (fst (querier_transpile re_full cluster db h ms))).
Proof.
  intros Ht. eapply Forall_impl; [|apply prom_select_scans_bounded].
  intros sc Hb k Hk. pose proof (table_info_slot _ _ Hk) as ->.
  apply (scan_bounded_slot_complete table_info (prom_win h) sc slot15 t Hb Hk slot15_pos).
  cbn [prom_win w_from w_to]. lia.
Qed.

(* ... and it would fail for the other choice: the down-sampled statement for a Start of hh:mm:ss.500 with ss a multiple of
   15 (what seeded change C13-f sends) is NOT bounded by the hint window: `timestamp_ns >= Start` first reads the row stamped
   at the NEXT slot boundary, the samples of [Start, Start + 14.5 s) are in no row read *)
Definition unaligned_hints : hints :=
  {| h_start := 1704888000500; h_end := 1704891600000; h_step := 60000; h_func := "sum_over_time"; h_range := 89500 |}.
Theorem prom_downsample_unaligned_start_refuted :
  (Z.rem (h_start unaligned_hints / 1000) 15 = 0 /\ Z.rem (h_start unaligned_hints) 15000 <> 0)%Z /\
  use_raw_data unaligned_hints = true /\
  ~ Forall (scan_bounded table_info (prom_win unaligned_hints))
      (scans (transpile_label_matchers_downsample (fun _ _ => true) unaligned_hints (prom_ctx false "qryn" unaligned_hints) [m_up; m_re])).
Proof.
  split; [split; [reflexivity | discriminate] | split; [reflexivity|]].
  intros H. apply every_scan_bounded_b_complete in H. vm_compute in H. discriminate H.
Qed.

(* the hypotheses of the slot theorems are met by statements that do read a slot table: the down-sampled Select of ds_hints
   and the roll-up shortcut plan of ScansPlanProofs.m15_query each hold a read classified CSlot *)
Definition reads_slot_table (q : select) : bool :=
  existsb (fun sc => match ti_class (table_info (sc_table sc)) with CSlot _ => true | _ => false end) (scans q).
Lemma slot_examples :
  reads_slot_table (fst (querier_transpile (fun _ _ => true) false "qryn" ds_hints [m_up; m_re])) = true /\
  reads_slot_table (fst (querier_transpile (fun _ _ => true) true "qryn" ds_hints [m_up; m_re])) = true /\
  match m15_result with Some (q, _, _) => reads_slot_table q | None => false end = true.
Proof. repeat split; vm_compute; reflexivity. Qed.

(* for any context with the schema's table classes, both transpilers, any hints *)
Theorem prom_transpilers_scans_bounded info c W re_full h ms :
  ctx_tables info c -> pwin_ok true true c W ->
  Forall (scan_bounded info W) (scans (transpile_label_matchers re_full h c ms)) /\
  Forall (scan_bounded info W) (scans (transpile_label_matchers_downsample re_full h c ms)).
Proof.
  intros Ht Hw. split; apply unQ; [apply (transpile_good _ _ _ true true) | apply (transpile_downsample_good _ _ _ true true)]; auto.
Qed.

(* ------------------------------------------------------------------ labelsGetter.getFetchRequest *)
Definition fetch_win (from_ms to_ms : Z) : window :=
  {| w_from := from_ms * 1000000 + 1; w_to := to_ms * 1000000 + 1;
     w_lo_min := from_ms * 1000000 + 1; w_hi_max := to_ms * 1000000; w_type := 2 |}.

Definition fetch_scan (cluster : bool) (fps : list N) (from_ms to_ms : Z) : scan :=
  {| sc_table := if cluster then "time_series_dist" else "time_series"; sc_alias := ""; sc_tsn := ["timestamp_ns"];
     sc_conj := [In (Id "fingerprint") (map (fun fp => Raw (string_of_N fp)) fps);
                 Ge (Id "date") (DateV (from_day (from_ms * 1000000)));
                 Le (Id "date") (DateV (to_ms / 86400000));
                 In (Id "type") [IntV 2; IntV 0]] |}.

Lemma raws_noselect fps : flat_map escans (map (fun fp : N => Raw (string_of_N fp)) fps) = [].
Proof. induction fps as [|a r IH]; [reflexivity | cbn [map flat_map escans app]; exact IH]. Qed.

Lemma labels_fetch_scans cluster fps from_ms to_ms :
  scans (labels_fetch cluster fps from_ms to_ms) = [fetch_scan cluster fps from_ms to_ms].
Proof.
  rewrite scans_eq. unfold labels_fetch, and_where, exprs_scans, wscans, uscans. fields_all.
  cbn [flat_map app oesc escans]. unfold And. cbn [escans flat_map]. unfold Ge, Le. cbn [escans flat_map app].
  rewrite raws_noselect. cbn [app]. unfold fetch_scan, conjs. cbn [flat_map app ts_names existsb shadows_ts ts_alias_of orb].
  destruct cluster; reflexivity.
Qed.

Lemma fetch_scan_bounds cluster fps from_ms to_ms :
  bounds (fetch_scan cluster fps from_ms to_ms) = [DLo (from_day (from_ms * 1000000)); DHi (to_ms / 86400000); Ty [2%Z; 0%Z]].
Proof. unfold bounds, fetch_scan. cbn [sc_conj flat_map]. destruct cluster; reflexivity. Qed.

Lemma day_of_ms ms : day_of_ns (ms * 1000000) = (ms / 86400000)%Z.
Proof. unfold day_of_ns, ns_per_day. replace (86400 * 1000000000)%Z with (86400000 * 1000000)%Z by reflexivity. apply Z.div_mul_cancel_r; lia. Qed.

(* the label fetch covers the days of its window ... *)
Theorem labels_fetch_date_covers cluster fps from_ms to_ms :
  Forall (fun sc => ti_class (table_info (sc_table sc)) = CIndex /\ date_covers (fetch_win from_ms to_ms) sc)
         (scans (labels_fetch cluster fps from_ms to_ms)).
Proof.
  rewrite labels_fetch_scans. constructor; [|constructor]. split; [destruct cluster; reflexivity|].
  set (sc := fetch_scan cluster fps from_ms to_ms).
  assert (Hb : forall b, has_bnd sc b -> List.In b (bounds sc)).
  { intros b [e [He Hb]]. unfold bounds. apply in_flat_map. exists e. split; assumption. }
  assert (Hb' : forall b, List.In b (bounds sc) -> has_bnd sc b).
  { intros b H. unfold bounds in H. apply in_flat_map in H. destruct H as [e [He H]]. exists e. split; assumption. }
  unfold sc in Hb, Hb'. rewrite fetch_scan_bounds in Hb, Hb'. fold sc in Hb, Hb'.
  constructor.
  - eexists. apply Hb'. left. reflexivity.
  - intros d H. apply Hb in H. destruct H as [H|[H|[H|[]]]]; [|discriminate H|discriminate H]. injection H as <-.
    cbn [fetch_win w_from]. transitivity (day_of_ns (from_ms * 1000000)); [apply from_day_close|].
    unfold day_of_ns, ns_per_day. apply Z.div_le_mono; lia.
  - intros d H. apply Hb in H. destruct H as [H|[H|[H|[]]]]; [discriminate H| |discriminate H]. injection H as <-.
    cbn [fetch_win w_to]. replace (to_ms * 1000000 + 1 - 1)%Z with (to_ms * 1000000)%Z by lia. rewrite day_of_ms. lia.
  - intros lo H. apply Hb in H. destruct H as [H|[H|[H|[]]]]; discriminate H.
  - intros hi H. apply Hb in H. destruct H as [H|[H|[H|[]]]]; discriminate H.
Qed.

(* ... and carries type IN (2,0) like every other read of the metric API (repair of prom-labels-fetch-untyped; before it the
   label sets written by the log API under the same fingerprint were read too): the read is bounded *)
Theorem labels_fetch_bounded cluster fps from_ms to_ms :
  Forall (scan_bounded table_info (fetch_win from_ms to_ms)) (scans (labels_fetch cluster fps from_ms to_ms)).
Proof.
  rewrite labels_fetch_scans. constructor; [|constructor]. apply scan_bounded_b_iff.
  unfold scan_bounded_b, scan_failures. rewrite fetch_scan_bounds.
  assert (Hi : table_info (sc_table (fetch_scan cluster fps from_ms to_ms)) = index_typed) by (destruct cluster; reflexivity).
  rewrite Hi. cbn [ti_class ti_typed index_typed]. unfold date_failures, ts_lower_failures, ts_upper_failures, type_failures.
  cbn [d_los d_his ts_los ts_his tys flat_map app zmax_list zmin_list fold_left andb fetch_win w_type w_from w_to].
  replace (to_ms * 1000000 + 1 - 1)%Z with (to_ms * 1000000)%Z by lia. rewrite day_of_ms.
  replace (from_day (from_ms * 1000000) >? day_of_ns (from_ms * 1000000 + 1))%Z with false.
  - replace (to_ms / 86400000 <? to_ms / 86400000)%Z with false by (symmetry; apply Z.ltb_irrefl). reflexivity.
  - symmetry. rewrite Z.gtb_ltb. apply Z.ltb_ge. transitivity (day_of_ns (from_ms * 1000000)); [apply from_day_close|].
    unfold day_of_ns, ns_per_day. apply Z.div_le_mono; lia.
Qed.
