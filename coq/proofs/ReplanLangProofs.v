(* C14, TraceQL and profile selectors: the statement of a Process call does not depend on how often the
   plan object was executed before. *)
From Coq Require Import List ZArith NArith String Bool.
From Qryn Require model.TqSql model.Traceql model.TraceqlPlan.
From Qryn Require Import model.ReplanLang.
Import ListNotations.

(* induction over the tree of expression planners (nested list) *)
Section EP_IND.
  Variable P : TraceqlPlan.ep -> Prop.
  Hypothesis Hs : forall s p, P (TraceqlPlan.EPSimple s p).
  Hypothesis Hc : forall p fn ops, Forall P ops -> P (TraceqlPlan.EPComplex p fn ops).
  Fixpoint ep_ind' (t : TraceqlPlan.ep) : P t :=
    match t with
    | TraceqlPlan.EPSimple s p => Hs s p
    | TraceqlPlan.EPComplex p fn ops =>
        Hc p fn ops ((fix go (l : list TraceqlPlan.ep) : Forall P l :=
                        match l with [] => Forall_nil P | x :: r => Forall_cons x (ep_ind' x) (go r) end) ops)
    end.
End EP_IND.

Lemma attr_condition_call_independent c terms cond agg n n' :
  TraceqlPlan.attr_condition c terms cond agg n = TraceqlPlan.attr_condition c terms cond agg n'.
Proof. reflexivity. Qed.

Lemma simple_planner_call_independent c s prefix n n' :
  TraceqlPlan.simple_planner c s prefix n = TraceqlPlan.simple_planner c s prefix n'.
Proof. reflexivity. Qed.

Lemma ep_process_call_independent c n n' : forall t,
  TraceqlPlan.ep_process c n t = TraceqlPlan.ep_process c n' t.
Proof.
  induction t as [s p|p fn ops IH] using ep_ind'.
  - cbn [TraceqlPlan.ep_process]. apply simple_planner_call_independent.
  - cbn [TraceqlPlan.ep_process].
    match goal with |- TraceqlPlan.bind ?a _ = TraceqlPlan.bind ?b _ => assert (E : a = b) end.
    { induction IH as [|x r Hx _ IHr]; [reflexivity|]. rewrite Hx, IHr. reflexivity. }
    rewrite E. reflexivity.
Qed.

Lemma plan_call_independent q m c n n' : TraceqlPlan.plan q m c n = TraceqlPlan.plan q m c n'.
Proof.
  destruct m; cbn [TraceqlPlan.plan]; [|reflexivity|reflexivity].
  unfold TraceqlPlan.plan_search, TraceqlPlan.plan_index.
  destruct (Traceql.sc_tail q); [|reflexivity].
  destruct (TraceqlPlan.plan_complex None 0 None q) as [[[t|] k]|]; try reflexivity.
  rewrite (ep_process_call_independent c n n' t). reflexivity.
Qed.

Lemma tq_run_is_fresh q m : forall cs n, tq_run_calls q m cs n = tq_fresh_calls q m cs.
Proof.
  induction cs as [|c r IH]; intro n; cbn [tq_run_calls tq_fresh_calls map]; [reflexivity|].
  rewrite (plan_call_independent q m c n 1), IH. reflexivity.
Qed.

Lemma prof_run_is_fresh re_full table cluster sels ws :
  prof_run re_full table cluster sels ws =
  map (fun w => SqlRender.render (ProfSel.prof_selector_abs re_full table (fst w) (snd w) sels) cluster) ws.
Proof. reflexivity. Qed.
