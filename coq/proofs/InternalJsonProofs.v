(* C09: the json / logfmt stages' own code (model/InternalJson.v) against the definitions by value:
   sanitizeLabel's byte-range table = one "_" per character of RFC 3629 UTF-8; `| json` = the declarative flattening;
   the one-pass path walker = the per-path reference on every value tree. *)
From Coq Require Import List ZArith NArith Bool String Ascii Lia.
From Qryn Require Import model.InternalEngine model.InternalJson.
Import ListNotations.
Open Scope Z_scope.

Lemma N_of_ascii_lt c : (N_of_ascii c < 256)%N.
Proof. destruct c as [[] [] [] [] [] [] [] []]; vm_compute; reflexivity. Qed.

Ltac cmp_split :=
  repeat match goal with
         | |- context [(?a <=? ?b)%N] => destruct (N.leb_spec a b)
         | |- context [(?a <? ?b)%N] => destruct (N.ltb_spec a b)
         | |- context [(?a =? ?b)%N] => destruct (N.eqb_spec a b)
         end.
(* decide the comparisons the context settles, leave the others *)
Ltac cmp_decide :=
  repeat match goal with
         | |- context [(?a <=? ?b)%N] => first [ replace (a <=? b)%N with true by (symmetry; apply N.leb_le; lia)
                                               | replace (a <=? b)%N with false by (symmetry; apply N.leb_gt; lia) ]
         | |- context [(?a <? ?b)%N] => first [ replace (a <? b)%N with true by (symmetry; apply N.ltb_lt; lia)
                                              | replace (a <? b)%N with false by (symmetry; apply N.ltb_ge; lia) ]
         | |- context [(?a =? ?b)%N] => first [ replace (a =? b)%N with true by (symmetry; apply N.eqb_eq; lia)
                                              | replace (a =? b)%N with false by (symmetry; apply N.eqb_neq; lia) ]
         end.

Lemma cont_range b : cont b = true -> (128 <= N_of_ascii b <= 191)%N.
Proof. unfold cont, byte_in. intros H. apply andb_prop in H. destruct H as [H1 H2]. apply N.leb_le in H1, H2. lia. Qed.
Lemma cont_out b : cont b = false -> (N_of_ascii b < 128 \/ 191 < N_of_ascii b)%N.
Proof. unfold cont, byte_in. intros H. apply andb_false_iff in H. destruct H as [H|H]; apply N.leb_gt in H; lia. Qed.

Ltac byte_cases b H :=
  destruct (cont b) eqn:H; [apply cont_range in H|apply cont_out in H].

Lemma width_by_value c r : rune_width c r = snd (decode1 c r).
Proof.
  unfold rune_width, decode1, nb.
  pose proof (N_of_ascii_lt c) as Hc. set (n := N_of_ascii c) in *.
  assert (Hn : (n < 128 \/ 128 <= n < 192 \/ 192 <= n < 194 \/ 194 <= n <= 223 \/ n = 224 \/ 225 <= n <= 236 \/ n = 237 \/ 238 <= n <= 239
               \/ n = 240 \/ 241 <= n <= 243 \/ n = 244 \/ 245 <= n <= 247 \/ 248 <= n)%N) by lia.
  destruct r as [|b1 [|b2 [|b3 r3]]];
    repeat (destruct Hn as [Hn|Hn]);
    cmp_decide; cbn [andb orb negb snd Nat.sub]; try reflexivity;
    unfold byte_in;
    try (byte_cases b1 H1); try (byte_cases b2 H2); try (byte_cases b3 H3);
    cbn [andb orb negb snd]; cmp_decide; cbn [andb orb negb snd]; try reflexivity;
    cmp_split; cbn [andb orb negb snd]; first [reflexivity | lia].
Qed.

Lemma class_eq c : label_char c = cp_in_class (N_of_ascii c).
Proof. destruct c as [[] [] [] [] [] [] [] []]; vm_compute; reflexivity. Qed.
Lemma class_below cp : cp_in_class cp = true -> (cp < 128)%N.
Proof.
  unfold cp_in_class. intros H.
  destruct (N.ltb_spec cp 128) as [L|L]; [exact L|]. exfalso. revert H. cmp_decide. cbn. discriminate.
Qed.

Lemma decode_label_char c r : label_char c = true -> decode1 c r = (UCp (nb c), 1%nat) /\ uchar_name (UCp (nb c)) = c.
Proof.
  intros H. rewrite class_eq in H. pose proof (class_below _ H) as L. unfold decode1, nb.
  apply N.ltb_lt in L. rewrite L. split; [reflexivity|]. cbn [uchar_name]. rewrite H. apply ascii_N_embedding.
Qed.

Lemma decode_other_char c r : label_char c = false -> uchar_name (fst (decode1 c r)) = "_"%char.
Proof.
  intros H. rewrite class_eq in H.
  assert (Hcp : forall cp, (128 <=? cp)%N = true -> uchar_name (UCp cp) = "_"%char).
  { intros cp Hge. cbn [uchar_name]. destruct (cp_in_class cp) eqn:E; [|reflexivity].
    apply class_below in E. apply N.leb_le in Hge. lia. }
  unfold decode1, nb. set (n := N_of_ascii c) in *.
  destruct (n <? 128)%N; [cbn [fst uchar_name]; rewrite H; reflexivity|].
  destruct ((192 <=? n)%N && (n <? 224)%N).
  { destruct r as [|b1 r1]; [reflexivity|].
    match goal with |- context [if ?b then _ else _] => destruct b eqn:E end; [|reflexivity].
    apply andb_prop in E. destruct E as [_ E]. cbn [fst]. now apply Hcp. }
  destruct ((224 <=? n)%N && (n <? 240)%N).
  { destruct r as [|b1 [|b2 r2]]; try reflexivity.
    match goal with |- context [if ?b then _ else _] => destruct b eqn:E end; [|reflexivity].
    apply andb_prop in E. destruct E as [E _]. apply andb_prop in E. destruct E as [_ E]. cbn [fst]. apply Hcp.
    apply N.leb_le in E. apply N.leb_le. lia. }
  destruct ((240 <=? n)%N && (n <? 248)%N); [|reflexivity].
  destruct r as [|b1 [|b2 [|b3 r3]]]; try reflexivity.
  match goal with |- context [if ?b then _ else _] => destruct b eqn:E end; [|reflexivity].
  apply andb_prop in E. destruct E as [E _]. apply andb_prop in E. destruct E as [_ E]. cbn [fst]. apply Hcp.
  apply N.leb_le in E. apply N.leb_le. lia.
Qed.

Lemma sanitize_fuel_by_value : forall f s,
  sanitize_fuel f s = string_of_list_ascii (map uchar_name (chars_fuel f s)).
Proof.
  induction f as [|f IH]; intros s; [reflexivity|].
  destruct s as [|c r]; [reflexivity|]. cbn [sanitize_fuel chars_fuel].
  destruct (label_char c) eqn:L.
  - destruct (decode_label_char c r L) as [E1 E2]. rewrite E1. cbn [Nat.sub drop_bytes map string_of_list_ascii].
    rewrite E2, IH. reflexivity.
  - pose proof (decode_other_char c r L) as E. rewrite (width_by_value c r).
    destruct (decode1 c r) as [u w]. cbn [fst snd] in *. cbn [map string_of_list_ascii]. rewrite E, IH. reflexivity.
Qed.

(* sanitizeLabel (Go's byte-range table) names labels as the definition by value does: one "_" per character *)
Theorem sanitize_one_underscore_per_character s : sanitize s = label_name s.
Proof. apply sanitize_fuel_by_value. Qed.

(* ---------------------------------------------------------------------------------------------------------------- *)
Section jv_induction.
  Variable P : jv -> Prop.
  Hypothesis HS : forall s, P (JStr s).
  Hypothesis HR : forall s, P (JRaw s).
  Hypothesis HO : forall kvs, Forall (fun kv => P (snd kv)) kvs -> P (JObj kvs).
  Hypothesis HA : forall l, Forall P l -> P (JArr l).
  Fixpoint jv_ind2 (v : jv) : P v :=
    match v with
    | JStr s => HS s
    | JRaw s => HR s
    | JObj kvs => HO kvs ((fix f (l : list (string * jv)) : Forall (fun kv => P (snd kv)) l :=
                             match l with
                             | [] => Forall_nil _
                             | kv :: r => Forall_cons kv (jv_ind2 (snd kv)) (f r)
                             end) kvs)
    | JArr l => HA l ((fix f (l : list jv) : Forall P l :=
                         match l with
                         | [] => Forall_nil _
                         | x :: r => Forall_cons x (jv_ind2 x) (f r)
                         end) l)
    end.
End jv_induction.

Definition name_leaf (m : lbls) (kv : list string * string) : lbls := lset m (label_name (path_name (fst kv))) (snd kv).

Lemma path_name_snoc keys k : path_name (keys ++ [k]) = join_key (path_name keys) k.
Proof. unfold path_name. rewrite fold_left_app. reflexivity. Qed.

Lemma flat_value_leaves : forall v keys acc,
  flat_value (path_name keys) v acc = fold_left name_leaf (leaves keys v) acc.
Proof.
  induction v as [s|s|kvs IH|l _] using jv_ind2; intros keys acc.
  - cbn. unfold name_leaf. cbn. now rewrite sanitize_one_underscore_per_character.
  - cbn. unfold name_leaf. cbn. now rewrite sanitize_one_underscore_per_character.
  - cbn [flat_value leaves]. revert acc.
    induction kvs as [|[k x] r IHr]; intros acc; [reflexivity|].
    inversion IH as [|? ? Hx Hr]; subst. cbn [snd] in Hx.
    rewrite fold_left_app, <- path_name_snoc, Hx. apply IHr. exact Hr.
  - reflexivity.
Qed.

(* `| json` = the declarative flattening: every scalar leaf of the document, in document order, is assigned to the
   name "members that lead to it joined with _", one "_" per character outside [a-zA-Z0-9_]; a later leaf of the same
   name wins; a document that is not an object is refused *)
Theorem json_all_is_the_flattening v : json_all v = json_all_ref v.
Proof.
  destruct v; try reflexivity. unfold json_all, json_all_ref. f_equal.
  exact (flat_value_leaves (JObj kvs) [] []).
Qed.

(* ---------------------------------------------------------------------------------------------------------------- *)
(* the one-pass path walker = the per-path reference, on every value tree *)
Fixpoint lfind (m : lbls) (k : string) : option string :=
  match m with
  | [] => None
  | (k', v) :: r => if String.eqb k k' then Some v else lfind r k
  end.
Fixpoint pfind (ps : list ahead) (l : string) : option (list ppart) :=
  match ps with
  | [] => None
  | a :: r => if String.eqb l (fst a) then Some (snd a) else pfind r l
  end.

Lemma compare_ne_eqb a b : String.compare a b <> Datatypes.Eq -> String.eqb a b = false.
Proof. intros H. apply String.eqb_neq. intros E. apply H. subst b. clear H. induction a as [|c a IH]; cbn; [reflexivity|]. rewrite IH. unfold Ascii.compare. now rewrite N.compare_refl. Qed.

Lemma lfind_lset_same m k v : lfind (lset m k v) k = Some v.
Proof.
  induction m as [|[k' v'] r IH]; cbn [lset lfind]; [now rewrite String.eqb_refl|].
  destruct (String.compare k k') eqn:C; cbn [lfind].
  - now rewrite String.eqb_refl.
  - now rewrite String.eqb_refl.
  - rewrite compare_ne_eqb by (rewrite C; discriminate). exact IH.
Qed.
Lemma lfind_lset_other m k v k2 : k2 <> k -> lfind (lset m k v) k2 = lfind m k2.
Proof.
  intros Hne. apply String.eqb_neq in Hne.
  induction m as [|[k' v'] r IH]; cbn [lset lfind]; [now rewrite Hne|].
  destruct (String.compare k k') eqn:C; cbn [lfind].
  - apply String.compare_eq_iff in C. subst k'. now rewrite Hne.
  - now rewrite Hne.
  - now rewrite IH.
Qed.
Lemma lget_lfind m k : lget m k = match lfind m k with Some v => v | None => EmptyString end.
Proof. induction m as [|[k' v'] r IH]; cbn [lget lfind]; [reflexivity|]. destruct (String.eqb k k'); [reflexivity|exact IH]. Qed.
Lemma mem_lfind m k : mem_str k (map fst m) = match lfind m k with Some _ => true | None => false end.
Proof. induction m as [|[k' v'] r IH]; cbn [mem_str map fst lfind]; [reflexivity|]. destruct (String.eqb k k'); [reflexivity|exact IH]. Qed.

Lemma pfind_notin ps l : ~ List.In l (map fst ps) -> pfind ps l = None.
Proof.
  induction ps as [|a r IH]; cbn [pfind map List.In]; [reflexivity|]. intros H.
  destruct (String.eqb_spec l (fst a)) as [E|E]; [exfalso; apply H; left; now symmetry|]. apply IH. tauto.
Qed.

(* a scalar met with the paths A still ahead *)
Lemma assign_ends_find s : forall A acc l, NoDup (map fst A) ->
  lfind (assign_ends A s acc) l = match pfind A l with Some [] => Some s | _ => lfind acc l end.
Proof.
  unfold assign_ends. induction A as [|a A IH]; intros acc l Hnd; cbn [fold_left pfind]; [reflexivity|].
  inversion Hnd as [|? ? Hnot Hnd']; subst. rewrite (IH _ l Hnd').
  destruct (String.eqb_spec l (fst a)) as [E|E].
  - subst l. rewrite (pfind_notin _ _ Hnot). destruct (snd a); [apply lfind_lset_same|reflexivity].
  - destruct (pfind A l) as [[|]|]; try reflexivity; destruct (snd a); try reflexivity; now apply lfind_lset_other.
Qed.

(* the paths that go on under a member / an item *)
Lemma ahead_key_fst k A x : List.In x (map fst (ahead_key k A)) -> List.In x (map fst A).
Proof.
  unfold ahead_key. induction A as [|a A IH]; cbn [flat_map map]; [tauto|]. rewrite map_app, in_app_iff. intros [H|H]; [|right; now apply IH].
  left. destruct (snd a) as [|[k'|i] rest]; cbn in H; try tauto. destruct (String.eqb k' k); cbn in H; tauto.
Qed.
Lemma ahead_key_nodup k A : NoDup (map fst A) -> NoDup (map fst (ahead_key k A)).
Proof.
  unfold ahead_key. induction A as [|a A IH]; cbn [flat_map map]; intros Hnd; [constructor|].
  inversion Hnd as [|? ? Hnot Hnd']; subst. rewrite map_app.
  destruct (snd a) as [|[k'|i] rest]; cbn [map app]; try now apply IH.
  destruct (String.eqb k' k); cbn [map app fst]; [|now apply IH].
  constructor; [|now apply IH]. intros H. apply Hnot. exact (ahead_key_fst k A _ H).
Qed.
Lemma ahead_key_pfind k A l : NoDup (map fst A) ->
  pfind (ahead_key k A) l = match pfind A l with
                            | Some (PKey k' :: rest) => if String.eqb k' k then Some rest else None
                            | _ => None
                            end.
Proof.
  induction A as [|a A IH]; intros Hnd; [reflexivity|].
  inversion Hnd as [|? ? Hnot Hnd']; subst. cbn [pfind].
  destruct (String.eqb_spec l (fst a)) as [E|E].
  - subst l. assert (Hn : pfind (ahead_key k A) (fst a) = None).
    { apply pfind_notin. intros H. apply Hnot. exact (ahead_key_fst k A _ H). }
    unfold ahead_key in *. cbn [flat_map]. destruct (snd a) as [|[k'|i] rest]; cbn [app]; try exact Hn.
    destruct (String.eqb k' k); cbn [app pfind fst snd]; [now rewrite String.eqb_refl|exact Hn].
  - rewrite <- (IH Hnd'). unfold ahead_key. cbn [flat_map]. destruct (snd a) as [|[k'|i] rest]; cbn [app]; try reflexivity.
    destruct (String.eqb k' k); cbn [app pfind fst]; [|reflexivity]. apply String.eqb_neq in E. now rewrite E.
Qed.

Lemma ahead_idx_fst i A x : List.In x (map fst (ahead_idx i A)) -> List.In x (map fst A).
Proof.
  unfold ahead_idx. induction A as [|a A IH]; cbn [flat_map map]; [tauto|]. rewrite map_app, in_app_iff. intros [H|H]; [|right; now apply IH].
  left. destruct (snd a) as [|[k'|j] rest]; cbn in H; try tauto. destruct (Z.eqb j i); cbn in H; tauto.
Qed.
Lemma ahead_idx_nodup i A : NoDup (map fst A) -> NoDup (map fst (ahead_idx i A)).
Proof.
  unfold ahead_idx. induction A as [|a A IH]; cbn [flat_map map]; intros Hnd; [constructor|].
  inversion Hnd as [|? ? Hnot Hnd']; subst. rewrite map_app.
  destruct (snd a) as [|[k'|j] rest]; cbn [map app]; try now apply IH.
  destruct (Z.eqb j i); cbn [map app fst]; [|now apply IH].
  constructor; [|now apply IH]. intros H. apply Hnot. exact (ahead_idx_fst i A _ H).
Qed.
Lemma ahead_idx_pfind i A l : NoDup (map fst A) ->
  pfind (ahead_idx i A) l = match pfind A l with
                            | Some (PIdx j :: rest) => if Z.eqb j i then Some rest else None
                            | _ => None
                            end.
Proof.
  induction A as [|a A IH]; intros Hnd; [reflexivity|].
  inversion Hnd as [|? ? Hnot Hnd']; subst. cbn [pfind].
  destruct (String.eqb_spec l (fst a)) as [E|E].
  - subst l. assert (Hn : pfind (ahead_idx i A) (fst a) = None).
    { apply pfind_notin. intros H. apply Hnot. exact (ahead_idx_fst i A _ H). }
    unfold ahead_idx in *. cbn [flat_map]. destruct (snd a) as [|[k'|j] rest]; cbn [app]; try exact Hn.
    destruct (Z.eqb j i); cbn [app pfind fst snd]; [now rewrite String.eqb_refl|exact Hn].
  - rewrite <- (IH Hnd'). unfold ahead_idx. cbn [flat_map]. destruct (snd a) as [|[k'|j] rest]; cbn [app]; try reflexivity.
    destruct (Z.eqb j i); cbn [app pfind fst]; [|reflexivity]. apply String.eqb_neq in E. now rewrite E.
Qed.

(* named forms of the inner loops *)
Fixpoint walk_members (A : list ahead) (kvs : list (string * jv)) (acc : lbls) : lbls :=
  match kvs with
  | [] => acc
  | (k, x) :: r => walk_members A r (match ahead_key k A with [] => acc | a' => walk x a' acc end)
  end.
Fixpoint walk_items (A : list ahead) (l : list jv) (i : Z) (acc : lbls) : lbls :=
  match l with
  | [] => acc
  | x :: r => walk_items A r (i + 1) (match ahead_idx i A with [] => acc | a' => walk x a' acc end)
  end.
Fixpoint jl_members (k : string) (rest : list ppart) (kvs : list (string * jv)) (found : option string) : option string :=
  match kvs with
  | [] => found
  | (k', x) :: r =>
    jl_members k rest r (if String.eqb k k' then match jlookup x rest with Some s => Some s | None => found end else found)
  end.
Fixpoint jl_items (i : Z) (rest : list ppart) (l : list jv) (j : Z) : option string :=
  match l with
  | [] => None
  | x :: r => if Z.eqb j i then jlookup x rest else jl_items i rest r (j + 1)
  end.

Lemma walk_obj kvs A acc : walk (JObj kvs) A acc = match A with [] => acc | _ => walk_members A kvs acc end.
Proof.
  cbn [walk]. destruct A as [|a A]; [reflexivity|]. revert acc.
  induction kvs as [|[k x] r IH]; intros acc; [reflexivity|]. cbn [walk_members]. apply IH.
Qed.
Lemma walk_arr l A acc : walk (JArr l) A acc = match A with [] => acc | _ => walk_items A l 0 acc end.
Proof.
  cbn [walk]. destruct A as [|a A]; [reflexivity|]. generalize 0. revert acc.
  induction l as [|x r IH]; intros acc i; [reflexivity|]. cbn [walk_items]. apply IH.
Qed.
Lemma jlookup_obj kvs k rest : jlookup (JObj kvs) (PKey k :: rest) = jl_members k rest kvs None.
Proof.
  cbn [jlookup]. generalize (@None string).
  induction kvs as [|[k' x] r IH]; intros found; [reflexivity|]. cbn [jl_members]. apply IH.
Qed.
Lemma jlookup_arr l i rest : jlookup (JArr l) (PIdx i :: rest) = jl_items i rest l 0.
Proof.
  cbn [jlookup]. generalize 0.
  induction l as [|x r IH]; intros j; [reflexivity|]. cbn [jl_items]. destruct (Z.eqb j i); [reflexivity|apply IH].
Qed.

Lemma jl_members_found k rest : forall kvs found,
  jl_members k rest kvs found = match jl_members k rest kvs None with Some s => Some s | None => found end.
Proof.
  induction kvs as [|[k' x] r IH]; intros found; [reflexivity|]. cbn [jl_members].
  rewrite IH. rewrite (IH (if String.eqb k k' then _ else None)).
  destruct (jl_members k rest r None); [reflexivity|].
  destruct (String.eqb k k'); [|reflexivity]. destruct (jlookup x rest); reflexivity.
Qed.
Lemma jl_items_past i rest : forall l j, i < j -> jl_items i rest l j = None.
Proof.
  induction l as [|x r IH]; intros j Hj; [reflexivity|]. cbn [jl_items].
  destruct (Z.eqb_spec j i); [lia|]. apply IH. lia.
Qed.

Definition walk_spec (v : jv) : Prop :=
  forall A acc l, NoDup (map fst A) ->
    lfind (walk v A acc) l = match pfind A l with
                             | Some p => match jlookup v p with Some s => Some s | None => lfind acc l end
                             | None => lfind acc l
                             end.

Lemma walk_meets_spec : forall v, walk_spec v.
Proof.
  induction v as [s|s|kvs IH|items IH] using jv_ind2; intros A acc l Hnd.
  - cbn [walk]. destruct (String.eqb_spec s EmptyString) as [E|E].
    + subst s. destruct (pfind A l) as [[|[]]|]; reflexivity.
    + rewrite (assign_ends_find s A acc l Hnd). apply String.eqb_neq in E.
      destruct (pfind A l) as [[|[]]|]; cbn [jlookup]; try reflexivity. now rewrite E.
  - cbn [walk]. rewrite (assign_ends_find s A acc l Hnd).
    destruct (pfind A l) as [[|[]]|]; reflexivity.
  - rewrite walk_obj.
    assert (Hm : lfind (walk_members A kvs acc) l =
                 match pfind A l with
                 | Some (PKey k :: rest) => match jl_members k rest kvs None with Some s => Some s | None => lfind acc l end
                 | _ => lfind acc l
                 end).
    { revert acc. induction kvs as [|[k' x] r IHr]; intros acc.
      - cbn [walk_members jl_members]. destruct (pfind A l) as [[|[]]|]; reflexivity.
      - inversion IH as [|? ? Hx Hr]; subst. cbn [snd] in Hx. cbn [walk_members jl_members].
        rewrite (IHr Hr).
        assert (Hacc : lfind (match ahead_key k' A with [] => acc | a' => walk x a' acc end) l =
                       match pfind A l with
                       | Some (PKey k :: rest) => if String.eqb k k' then match jlookup x rest with Some s => Some s | None => lfind acc l end else lfind acc l
                       | _ => lfind acc l
                       end).
        { transitivity (lfind (walk x (ahead_key k' A) acc) l).
          - destruct (ahead_key k' A) eqn:E; [|reflexivity]. symmetry. exact (Hx [] acc l (NoDup_nil _)).
          - pose proof (Hx _ acc l (ahead_key_nodup k' A Hnd)) as Q. rewrite Q, (ahead_key_pfind k' A l Hnd).
            destruct (pfind A l) as [[|[k|i] rest]|]; try reflexivity. destruct (String.eqb k k'); reflexivity. }
        rewrite Hacc. destruct (pfind A l) as [[|[k|i] rest]|]; try reflexivity.
        rewrite (jl_members_found k rest r (if String.eqb k k' then _ else None)).
        destruct (jl_members k rest r None); [reflexivity|].
        destruct (String.eqb k k'); [|reflexivity]. destruct (jlookup x rest); reflexivity. }
    destruct A as [|a A]; [reflexivity|]. rewrite Hm.
    destruct (pfind (a :: A) l) as [[|[k|i] rest]|]; try reflexivity. now rewrite jlookup_obj.
  - rewrite walk_arr. revert acc.
    assert (Hm : forall j acc, lfind (walk_items A items j acc) l =
                 match pfind A l with
                 | Some (PIdx i :: rest) => match jl_items i rest items j with Some s => Some s | None => lfind acc l end
                 | _ => lfind acc l
                 end).
    { induction items as [|x r IHr]; intros j acc.
      - cbn [walk_items jl_items]. destruct (pfind A l) as [[|[]]|]; reflexivity.
      - inversion IH as [|? ? Hx Hr]; subst. cbn [walk_items jl_items].
        rewrite (IHr Hr).
        assert (Hacc : lfind (match ahead_idx j A with [] => acc | a' => walk x a' acc end) l =
                       match pfind A l with
                       | Some (PIdx i :: rest) => if Z.eqb i j then match jlookup x rest with Some s => Some s | None => lfind acc l end else lfind acc l
                       | _ => lfind acc l
                       end).
        { transitivity (lfind (walk x (ahead_idx j A) acc) l).
          - destruct (ahead_idx j A) eqn:E; [|reflexivity]. symmetry. exact (Hx [] acc l (NoDup_nil _)).
          - pose proof (Hx _ acc l (ahead_idx_nodup j A Hnd)) as Q. rewrite Q, (ahead_idx_pfind j A l Hnd).
            destruct (pfind A l) as [[|[k|i] rest]|]; try reflexivity. destruct (Z.eqb i j); reflexivity. }
        rewrite Hacc. destruct (pfind A l) as [[|[k|i] rest]|]; try reflexivity.
        rewrite (Z.eqb_sym i j). destruct (Z.eqb_spec j i) as [E|E].
        + subst j. rewrite (jl_items_past i rest r (i + 1)) by lia. reflexivity.
        + reflexivity. }
    intros acc. destruct A as [|a A]; [reflexivity|]. rewrite Hm.
    destruct (pfind (a :: A) l) as [[|[k|i] rest]|]; try reflexivity. now rewrite jlookup_arr.
Qed.

(* `| json l1="p1", ...` with distinct label names: the ONE pass over the document assigns to every label exactly what
   following its own path finds (jlookup), and no other label, for every value tree *)
Theorem walk_is_jlookup v ps l : NoDup (map fst ps) ->
  lfind (json_params ps v) l = match pfind ps l with Some p => jlookup v p | None => None end.
Proof.
  intros Hnd. unfold json_params. pose proof (walk_meets_spec v ps [] l Hnd) as Q. rewrite Q. cbn [lfind].
  destruct (pfind ps l) as [p|]; [|reflexivity]. destruct (jlookup v p); reflexivity.
Qed.

(* in the form of the check's oracle: the specification oracle j_spec_violation accepts what the model assigns, for every
   value tree and every parameter list with distinct names -- and for `| json` without parameters *)
Lemma pfind_in ps a : NoDup (map fst ps) -> List.In a ps -> pfind ps (fst a) = Some (snd a).
Proof.
  induction ps as [|b r IH]; intros Hnd Hin; [destruct Hin|]. inversion Hnd as [|? ? Hnot Hnd']; subst. cbn [pfind].
  destruct Hin as [->|Hin]; [now rewrite String.eqb_refl|].
  destruct (String.eqb_spec (fst a) (fst b)) as [E|E]; [|now apply IH].
  exfalso. apply Hnot. rewrite <- E. now apply in_map.
Qed.
Lemma pfind_some_mem ps l p : pfind ps l = Some p -> mem_str l (map fst ps) = true.
Proof.
  induction ps as [|b r IH]; cbn [pfind mem_str map]; [discriminate|].
  destruct (String.eqb l (fst b)); [reflexivity|]. intros H. rewrite (IH H). apply orb_true_r.
Qed.
Lemma lfind_of_member m k v : List.In (k, v) m -> lfind m k <> None.
Proof.
  induction m as [|[k' v'] r IH]; intros Hin; [destruct Hin|]. cbn [lfind].
  destruct (String.eqb_spec k k') as [E|E]; [discriminate|]. destruct Hin as [H|H]; [inversion H; congruence|now apply IH].
Qed.

Theorem json_params_meets_the_oracle v ps i : NoDup (map fst ps) ->
  j_spec_violation {| j_id := i; j_spec := JsonParams ps; j_tree := Some v; j_obs := json_params ps v |} = false.
Proof.
  intros Hnd. unfold j_spec_violation. cbn [j_spec j_tree j_obs]. apply negb_false_iff. apply andb_true_intro. split.
  - apply forallb_forall. intros a Ha.
    pose proof (walk_is_jlookup v ps (fst a) Hnd) as W. rewrite (pfind_in ps a Hnd Ha) in W.
    rewrite lget_lfind, mem_lfind, W. destruct (jlookup v (snd a)); [now rewrite String.eqb_refl|reflexivity].
  - apply forallb_forall. intros [k x] Hin. cbn [fst].
    pose proof (lfind_of_member _ _ _ Hin) as Hne. rewrite (walk_is_jlookup v ps k Hnd) in Hne.
    destruct (pfind ps k) as [p|] eqn:E; [exact (pfind_some_mem _ _ _ E)|congruence].
Qed.

Lemma lbls_eqb_refl m : lbls_eqb m m = true.
Proof.
  induction m as [|[k v] r IH]; [reflexivity|]. cbn [lbls_eqb]. unfold pair_eqb. cbn [fst snd].
  now rewrite !String.eqb_refl, IH.
Qed.
Theorem json_all_meets_the_oracle v i :
  j_spec_violation {| j_id := i; j_spec := JsonAll; j_tree := Some v; j_obs := match json_all v with Some m => m | None => [] end |} = false.
Proof.
  unfold j_spec_violation. cbn [j_spec j_tree j_obs]. rewrite json_all_is_the_flattening. now rewrite lbls_eqb_refl.
Qed.

(* logfmt: HandleLogfmt names every key as the definition by value does *)
Theorem logfmt_names_by_value pairs : logfmt_all pairs = logfmt_all_ref pairs.
Proof.
  unfold logfmt_all, logfmt_all_ref. generalize (@nil (string * string)).
  induction pairs as [|kv r IH]; intros acc; [reflexivity|]. cbn [fold_left].
  rewrite sanitize_one_underscore_per_character. apply IH.
Qed.

(* the name of a character does not depend on how many bytes encode it: key "cafe" with U+00E9 (2 bytes), "ab" with
   U+20AC (3 bytes), U+1D11E (4 bytes) followed by "k", "e" with the combining U+0301 (2 bytes) and "x" *)
Definition bytes (l : list Z) : string := string_of_list_ascii (map (fun z => ascii_of_N (Z.to_N z)) l).
Example one_underscore_per_character_examples :
  sanitize (bytes [99; 97; 102; 195; 169]) = "caf_"%string /\
  sanitize (bytes [97; 98; 226; 130; 172]) = "ab_"%string /\
  sanitize (bytes [240; 157; 132; 158; 107]) = "_k"%string /\
  sanitize (bytes [101; 204; 129; 120]) = "e_x"%string /\
  (* bytes that are no character: a lone continuation byte, an overlong form, a surrogate, a cut sequence: one "_" each *)
  sanitize (bytes [97; 169; 98]) = "a_b"%string /\
  sanitize (bytes [192; 175]) = "__"%string /\
  sanitize (bytes [237; 160; 128]) = "___"%string /\
  sanitize (bytes [226; 130]) = "__"%string /\
  utf8_chars (bytes [99; 195; 169; 226; 130; 172; 240; 157; 132; 158]) = [UCp 99%N; UCp 233%N; UCp 8364%N; UCp 119070%N].
Proof. vm_compute. repeat split; reflexivity. Qed.

(* ---------------------------------------------------------------------------------------------------------------- *)
(* `| logfmt l1="k1", l2="k2", ...`: every label holds the value of the LAST pair of its key, whatever other labels name *)
Definition first_key (ps : list ahead) (l : string) : option string :=
  match pfind ps l with Some (PKey k :: _) => Some k | _ => None end.
Definition lookup_from (found : option string) (pairs : list (string * string)) (key : string) : option string :=
  fold_left (fun f kv => if String.eqb (fst kv) key then Some (snd kv) else f) pairs found.

Lemma lookup_from_found key : forall pairs found,
  lookup_from found pairs key = match lookup_from None pairs key with Some v => Some v | None => found end.
Proof.
  unfold lookup_from. induction pairs as [|kv r IH]; intros found; [reflexivity|]. cbn [fold_left].
  rewrite IH. rewrite (IH (if String.eqb (fst kv) key then Some (snd kv) else None)).
  destruct (fold_left _ r None); [reflexivity|]. destruct (String.eqb (fst kv) key); reflexivity.
Qed.

Lemma assign_labels_find v : forall ls m l,
  lfind (fold_left (fun m' l' => if String.eqb l' EmptyString then m' else lset m' l' v) ls m) l =
  if mem_str l ls && negb (String.eqb l EmptyString) then Some v else lfind m l.
Proof.
  induction ls as [|x r IH]; intros m l; cbn [fold_left mem_str]; [reflexivity|]. rewrite IH.
  destruct (String.eqb_spec l x) as [E|E].
  - subst x. cbn [orb]. destruct (String.eqb l EmptyString) eqn:El; cbn [negb andb].
    + rewrite andb_false_r. reflexivity.
    + destruct (mem_str l r); cbn [andb]; [reflexivity|]. apply lfind_lset_same.
  - cbn [orb]. destruct (mem_str l r && negb (String.eqb l EmptyString)); [reflexivity|].
    destruct (String.eqb x EmptyString); [reflexivity|]. now apply lfind_lset_other.
Qed.

Lemma fields_of_mem ps key l : NoDup (map fst ps) ->
  mem_str l (fields_of ps key) = match first_key ps l with Some k => String.eqb k key | None => false end.
Proof.
  unfold first_key, fields_of. induction ps as [|a r IH]; intros Hnd; [reflexivity|].
  inversion Hnd as [|? ? Hnot Hnd']; subst. cbn [flat_map pfind].
  assert (Hm : forall x y, mem_str l (x ++ y) = mem_str l x || mem_str l y).
  { induction x as [|z x IHx]; intros y; cbn [app mem_str]; [reflexivity|]. now rewrite IHx, orb_assoc. }
  rewrite Hm, (IH Hnd'). destruct (String.eqb_spec l (fst a)) as [E|E].
  - subst l. rewrite (pfind_notin r (fst a) Hnot), orb_false_r.
    destruct (snd a) as [|[k|i] rest]; cbn [mem_str]; try reflexivity.
    destruct (String.eqb k key); cbn [mem_str]; [now rewrite String.eqb_refl|reflexivity].
  - replace (mem_str l match snd a with PKey k :: _ => if String.eqb k key then [fst a] else [] | _ => [] end) with false; [reflexivity|].
    destruct (snd a) as [|[k|i] rest]; try reflexivity. destruct (String.eqb k key); [|reflexivity]. cbn [mem_str].
    apply String.eqb_neq in E. now rewrite E.
Qed.

Lemma logfmt_fields_from ps : NoDup (map fst ps) -> forall pairs acc l, l <> EmptyString ->
  lfind (fold_left (fun m kv => fold_left (fun m' l' => if String.eqb l' EmptyString then m' else lset m' l' (snd kv))
                                          (fields_of ps (fst kv)) m) pairs acc) l =
  match first_key ps l with
  | Some k => match lookup_from None pairs k with Some v => Some v | None => lfind acc l end
  | None => lfind acc l
  end.
Proof.
  intros Hnd. induction pairs as [|kv r IH]; intros acc l Hl.
  - cbn. destruct (first_key ps l); reflexivity.
  - cbn [fold_left]. rewrite (IH _ l Hl), assign_labels_find, (fields_of_mem ps (fst kv) l Hnd).
    apply String.eqb_neq in Hl. rewrite Hl. cbn [negb]. rewrite andb_true_r.
    destruct (first_key ps l) as [k|]; [|reflexivity].
    unfold lookup_from at 2. cbn [fold_left]. fold (lookup_from (if String.eqb (fst kv) k then Some (snd kv) else None) r k).
    rewrite (lookup_from_found k r (if String.eqb (fst kv) k then Some (snd kv) else None)).
    destruct (lookup_from None r k); [reflexivity|]. rewrite (String.eqb_sym k (fst kv)).
    destruct (String.eqb (fst kv) k); reflexivity.
Qed.

Theorem logfmt_fields_is_lookup ps pairs l : NoDup (map fst ps) -> l <> EmptyString ->
  lfind (logfmt_fields ps pairs) l = match first_key ps l with Some k => logfmt_lookup pairs k | None => None end.
Proof.
  intros Hnd Hl. unfold logfmt_fields. rewrite (logfmt_fields_from ps Hnd pairs [] l Hl). cbn [lfind].
  unfold logfmt_lookup, lookup_from. destruct (first_key ps l) as [k|]; [|reflexivity]. destruct (fold_left _ pairs None); reflexivity.
Qed.

Lemma logfmt_fields_no_empty ps : forall pairs acc,
  lfind (fold_left (fun m kv => fold_left (fun m' l' => if String.eqb l' EmptyString then m' else lset m' l' (snd kv))
                                          (fields_of ps (fst kv)) m) pairs acc) EmptyString = lfind acc EmptyString.
Proof.
  induction pairs as [|kv r IH]; intros acc; [reflexivity|]. cbn [fold_left]. rewrite IH, assign_labels_find.
  cbn [String.eqb negb]. now rewrite andb_false_r.
Qed.

(* in the form of the check's oracle: the specification oracle of the logfmt rows accepts what the model assigns *)
Theorem logfmt_meets_the_oracle ps pairs i : NoDup (map fst ps) -> (forall a, List.In a ps -> fst a <> EmptyString) ->
  l_spec_violation {| l_id := i; l_params := ps; l_pairs := Some pairs; l_obs := logfmt_decode ps (Some pairs) |} = false.
Proof.
  intros Hnd Hne. unfold l_spec_violation. cbn [l_pairs l_params l_obs logfmt_decode].
  destruct ps as [|a0 ps0]; [rewrite logfmt_names_by_value; now rewrite lbls_eqb_refl|].
  set (ps := a0 :: ps0) in *.
  match goal with |- (if ?g then _ else _) = false => destruct g; [|reflexivity] end.
  apply negb_false_iff. apply andb_true_intro. split.
  - apply forallb_forall. intros a Ha. destruct (single_key a) as [k|] eqn:Ek; [|reflexivity].
    assert (Hs : snd a = [PKey k]).
    { unfold single_key in Ek. destruct (snd a) as [|[k'|j] [|y r]]; try discriminate. now inversion Ek. }
    pose proof (logfmt_fields_is_lookup ps pairs (fst a) Hnd (Hne a Ha)) as W.
    unfold first_key in W. rewrite (pfind_in ps a Hnd Ha), Hs in W.
    rewrite lget_lfind, mem_lfind, W. destruct (logfmt_lookup pairs k); [now rewrite String.eqb_refl|reflexivity].
  - apply forallb_forall. intros [k x] Hin. cbn [fst].
    pose proof (lfind_of_member _ _ _ Hin) as Hfound.
    destruct (String.eqb_spec k EmptyString) as [->|Hk].
    + exfalso. apply Hfound. unfold logfmt_fields. now rewrite logfmt_fields_no_empty.
    + rewrite (logfmt_fields_is_lookup ps pairs k Hnd Hk) in Hfound. unfold first_key in Hfound.
      destruct (pfind ps k) as [p|] eqn:E; [exact (pfind_some_mem _ _ _ E)|congruence].
Qed.

(* ---------------------------------------------------------------------------------------------------------------- *)
(* the name of a nested key is the names of its parts joined with "_": an ASCII byte never completes a character *)
Lemma byte_in_ascii x lo hi : (N_of_ascii x < 128)%N -> (128 <= lo)%N -> byte_in lo hi x = false.
Proof. intros Hx Hlo. unfold byte_in. cbv zeta. apply andb_false_iff. left. apply N.leb_gt. lia. Qed.

Lemma rune_width_ascii_tail c x b : (N_of_ascii x < 128)%N -> forall r, rune_width c (r ++ String x b) = rune_width c r.
Proof.
  intros Hx r.
  assert (Hc : cont x = false) by (apply byte_in_ascii; [exact Hx|lia]).
  assert (Hb : forall lo hi, (128 <= lo)%N -> byte_in lo hi x = false) by (intros; now apply byte_in_ascii).
  unfold rune_width. cbv zeta.
  destruct r as [|b1 [|b2 [|b3 r']]]; cbn [append];
    repeat match goal with |- context [if ?t then _ else _] =>
      match t with
      | (_ <? _)%N => destruct t
      | (_ <=? _)%N => destruct t
      | (_ =? _)%N => destruct t
      end end; try reflexivity;
    rewrite ?Hb by lia; rewrite ?Hc; try reflexivity;
    repeat match goal with |- context [byte_in ?lo ?hi b1] => destruct (byte_in lo hi b1) end; try reflexivity;
    rewrite ?andb_false_r; try reflexivity;
    try (destruct b; reflexivity);
    repeat match goal with |- context [cont ?y] => destruct (cont y) end; try reflexivity; destruct b; reflexivity.
Qed.

Lemma rune_width_le c r : (rune_width c r <= S (String.length r))%nat.
Proof.
  unfold rune_width. cbv zeta.
  destruct r as [|b1 [|b2 [|b3 r']]]; cbn [String.length];
    repeat match goal with |- context [if ?t then _ else _] => destruct t end; lia.
Qed.

Lemma drop_bytes_app : forall n r t, (n <= String.length r)%nat -> drop_bytes n (r ++ t) = (drop_bytes n r ++ t)%string.
Proof.
  induction n as [|n IH]; intros r t Hn; [destruct r; reflexivity|].
  destruct r as [|c r]; cbn [String.length] in Hn; [lia|]. cbn [append drop_bytes]. apply IH. lia.
Qed.
Lemma drop_bytes_length : forall n r, (String.length (drop_bytes n r) <= String.length r)%nat.
Proof.
  induction n as [|n IH]; intros r; [destruct r; cbn; lia|]. destruct r as [|c r]; cbn [drop_bytes String.length]; [lia|].
  specialize (IH r). lia.
Qed.

Lemma sanitize_fuel_any : forall f s f2, (String.length s <= f)%nat -> (String.length s <= f2)%nat ->
  sanitize_fuel f s = sanitize_fuel f2 s.
Proof.
  induction f as [|f IH]; intros s f2 Hf Hf2.
  - destruct s; [destruct f2; reflexivity|cbn in Hf; lia].
  - destruct s as [|c r]; [destruct f2; reflexivity|]. cbn [String.length] in *.
    destruct f2 as [|f2]; [lia|]. cbn [sanitize_fuel].
    pose proof (drop_bytes_length (rune_width c r - 1) r) as Hd.
    destruct (label_char c); f_equal; apply IH; lia.
Qed.
Lemma sanitize_fuel_enough f s : (String.length s <= f)%nat -> sanitize_fuel f s = sanitize_fuel (String.length s) s.
Proof. intros H. apply sanitize_fuel_any; [exact H|lia]. Qed.

Lemma sanitize_fuel_app x b : (N_of_ascii x < 128)%N -> forall f a, (String.length a <= f)%nat ->
  sanitize_fuel (f + S (String.length b)) (a ++ String x b) =
  (sanitize_fuel f a ++ sanitize_fuel (S (String.length b)) (String x b))%string.
Proof.
  intros Hx. induction f as [|f IH]; intros a Ha.
  - destruct a; [reflexivity|cbn in Ha; lia].
  - destruct a as [|c r].
    + cbn [append sanitize_fuel]. apply sanitize_fuel_enough. cbn [String.length]. lia.
    + cbn [String.length] in Ha. cbn [append Nat.add sanitize_fuel]. destruct (label_char c).
      * cbn [append]. f_equal. apply IH. lia.
      * cbn [append]. f_equal. rewrite (rune_width_ascii_tail c x b Hx r).
        pose proof (rune_width_le c r) as Hw. pose proof (drop_bytes_length (rune_width c r - 1) r) as Hd.
        rewrite drop_bytes_app by lia. apply IH. lia.
Qed.

Lemma sanitize_app_ascii a x b : (N_of_ascii x < 128)%N ->
  sanitize (a ++ String x b) = (sanitize a ++ sanitize (String x b))%string.
Proof.
  intros Hx. unfold sanitize.
  assert (L : String.length (a ++ String x b) = (String.length a + S (String.length b))%nat).
  { induction a as [|c a IHa]; [reflexivity|]. cbn [append String.length]. now rewrite IHa. }
  rewrite L. apply (sanitize_fuel_app x b Hx). lia.
Qed.

(* subDec's name of a nested key: the names of the parts joined with "_" *)
Theorem nested_name_is_the_parts_joined prefix key :
  label_name (join_key prefix key) =
  if String.eqb prefix EmptyString then label_name key else (label_name prefix ++ "_" ++ label_name key)%string.
Proof.
  unfold join_key. destruct (String.eqb prefix EmptyString); [reflexivity|].
  rewrite <- !sanitize_one_underscore_per_character.
  change (prefix ++ "_" ++ key)%string with (prefix ++ String "_"%char key)%string.
  rewrite sanitize_app_ascii by (vm_compute; reflexivity).
  first [reflexivity | f_equal; unfold sanitize; cbn [String.length sanitize_fuel]; reflexivity].
Qed.
