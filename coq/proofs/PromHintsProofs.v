(* C17: processHints on the raw path, the guarded region in which the PromQL engine sees the raw samples.
   A. per series: exact characterisation of when an instant selector shows the same value after step bucketing
      (evaluation time on the bucket grid AND no sample just older than the look-back: stale_edge), necessity of the
      grid guard; the modulo filter keeps the evaluated range windows when the evaluation times are multiples of Step,
      necessity of that guard when 2 * Range < Step.
   B. the statement level: what ClickHouse answers (reference interpreter) to the statement Select sends for EVERY hint
      combination of the raw path = bucket_rows / the modulo filter / the plain rows of the Prometheus meaning.
   C. the composition: promql_over_raw_samples_partial. *)
From Coq Require Import List ZArith NArith String Ascii Bool Lia Sorting.Sorted.
From Qryn Require Import lib.Strs lib.CivilDate model.Sql model.SqlRender model.Logql model.LogqlPlan model.PromSelect
  model.PromSel model.PromSem model.PromCase proofs.PromSelProofs proofs.PromBucketProofs proofs.ProfAbsProofs.
Import ListNotations.
Open Scope string_scope.
Open Scope list_scope.
Open Scope Z_scope.

(* ====================== A. per series ====================== *)

Lemma latest_le_in T l s : latest_le T l = Some s -> List.In s l /\ fst s <= T.
Proof.
  rewrite latest_le_filter. unfold last_opt. destruct (rev (filter (fun s0 => fst s0 <=? T) l)) as [|x r] eqn:Er; [discriminate|].
  intros [= <-]. assert (Hx : List.In x (rev (filter (fun s0 => fst s0 <=? T) l))) by (rewrite Er; now left).
  apply in_rev in Hx. apply filter_In in Hx. destruct Hx as [Hx Hle]. apply Z.leb_le in Hle. tauto.
Qed.

(* on the bucket grid the bucketed series shows the same value as the raw one EXACTLY when no stale edge occurs *)
Theorem step_bucket_exact_on_grid start step j L l :
  0 < step -> asc l -> Forall (fun s => start <= fst s) l ->
  (visible L (start + j * step) (bucket_series start step l) = visible L (start + j * step) l <->
   stale_edge start step L (start + j * step) l = false).
Proof.
  intros Hs Ha Hge. unfold visible, stale_edge. rewrite (step_bucket_latest_full start step j l Hs Ha Hge).
  destruct (latest_le (start + j * step) l) as [s|] eqn:El; cbn [option_map fst snd]; [|tauto].
  destruct (latest_le_in _ _ _ El) as [Hin Hle]. rewrite Forall_forall in Hge.
  assert (Hb := bucket_ge start step (fst s) Hs (Hge s Hin)).
  destruct (Z.leb_spec (start + j * step - L) (bucket_of start step (fst s))) as [H1|H1],
           (Z.leb_spec (start + j * step - L) (fst s)) as [H2|H2],
           (Z.ltb_spec (fst s) (start + j * step - L)) as [H3|H3]; cbn [andb]; try lia;
    split; intros H; try reflexivity; try discriminate H.
Qed.

(* the engine's evaluation times of an instant selector: hints.Start + look-back + k * Step; they are on the bucket grid
   when Step divides the look-back *)
Theorem instant_selector_over_bucketed start step L k l :
  0 < step -> Z.rem L step = 0 -> asc l -> Forall (fun s => start <= fst s) l ->
  stale_edge start step L (start + L + k * step) l = false ->
  visible L (start + L + k * step) (bucket_series start step l) = visible L (start + L + k * step) l.
Proof.
  intros Hs Hr Ha Hge Hst. apply Z.rem_divide in Hr; [|lia]. destruct Hr as [q Hq].
  replace (start + L + k * step) with (start + (q + k) * step) in * by (rewrite Hq; ring).
  now apply step_bucket_exact_on_grid.
Qed.

(* the grid guard is necessary: whenever Step does not divide the look-back, one sample at the first evaluation time is
   shown by Prometheus and not after bucketing (and no stale edge is involved) *)
Theorem step_bucket_grid_guard_necessary start step L :
  0 < step -> 0 <= L -> Z.rem L step <> 0 ->
  exists l, asc l /\ Forall (fun s => start <= fst s) l /\ stale_edge start step L (start + L) l = false /\
            visible L (start + L) l = Some 1 /\ visible L (start + L) (bucket_series start step l) = None.
Proof.
  intros Hs HL Hr. exists [(start + L, 1)].
  assert (Hb : start + L < bucket_of start step (start + L)).
  { unfold bucket_of. rewrite Z.quot_div_nonneg by lia. rewrite Z.rem_mod_nonneg in Hr by lia.
    replace (start + L - start + step - 1) with (L + step - 1) by ring.
    assert (Hd := Z.div_mod L step ltac:(lia)). assert (Hm := Z.mod_pos_bound L step Hs).
    assert (Hq : (L + step - 1) / step = L / step + 1).
    { symmetry. apply (Z.div_unique _ _ _ (L mod step - 1)); lia. }
    rewrite Hq. lia. }
  split; [repeat constructor|]. split; [repeat constructor; cbn; lia|].
  split; [|split].
  - unfold stale_edge, latest_le. cbn [fold_left fst]. rewrite Z.leb_refl. cbn [fst].
    replace (start + L <? start + L - L) with false by (symmetry; apply Z.ltb_ge; lia). reflexivity.
  - unfold visible, latest_le. cbn [fold_left fst]. rewrite Z.leb_refl. cbn [fst snd].
    replace (start + L - L <=? start + L) with true by (symmetry; apply Z.leb_le; lia). reflexivity.
  - cbn [bucket_series fst snd]. unfold visible, latest_le. cbn [fold_left fst].
    replace (bucket_of start step (start + L) <=? start + L) with false by (symmetry; apply Z.leb_gt; lia). reflexivity.
Qed.

(* the engine's evaluation times of a range selector: hints.Start + Range + k * Step; the modulo filter keeps their windows
   when they are multiples of Step *)
Theorem range_selector_over_filtered start step range k l :
  0 <= range < step -> Z.rem (start + range) step = 0 -> Forall (fun s => 0 <= fst s) l ->
  window range (start + range + k * step) (range_filter step range l) = window range (start + range + k * step) l.
Proof.
  intros Hr Hg Hnn. apply Z.rem_divide in Hg; [|lia]. destruct Hg as [q Hq].
  replace (start + range + k * step) with ((q + k) * step) by (rewrite Hq; ring).
  now apply range_filter_keeps_windows.
Qed.

(* ... and that guard is necessary when 2 * Range < Step: an evaluation time off the grid loses a sample of its window *)
Theorem range_filter_grid_guard_necessary step range T :
  0 <= range -> 2 * range < step -> 0 <= T - range -> Z.rem T step <> 0 ->
  exists l, Forall (fun s => 0 <= fst s) l /\ window range T l <> [] /\ window range T (range_filter step range l) = [].
Proof.
  intros Hr H2 HT Hrem.
  rewrite Z.rem_mod_nonneg in Hrem by lia.
  assert (Hd := Z.div_mod T step ltac:(lia)). assert (Hm := Z.mod_pos_bound T step ltac:(lia)).
  destruct (Z.ltb_spec (T mod step) (step - range)) as [Hlow|Hhigh].
  - (* the sample at T itself is dropped *)
    exists [(T, 1)]. split; [repeat constructor; cbn; lia|].
    unfold window, range_filter, range_keep. cbn [filter fst].
    rewrite Z.rem_mod_nonneg by lia.
    replace (T mod step =? 0) with false by (symmetry; apply Z.eqb_neq; lia).
    replace (step - range <=? T mod step) with false by (symmetry; apply Z.leb_gt; lia).
    cbn [orb filter]. replace (T - range <=? T) with true by (symmetry; apply Z.leb_le; lia).
    replace (T <=? T) with true by (symmetry; apply Z.leb_le; lia). cbn [andb]. split; [discriminate|reflexivity].
  - (* T lies in a kept zone: the sample at the window's lower end is dropped *)
    exists [(T - range, 1)]. split; [repeat constructor; cbn; lia|].
    unfold window, range_filter, range_keep. cbn [filter fst].
    rewrite Z.rem_mod_nonneg by lia.
    assert (Hmod : (T - range) mod step = T mod step - range).
    { symmetry. apply (Z.mod_unique_pos _ _ (T / step)); lia. }
    rewrite Hmod.
    replace (T mod step - range =? 0) with false by (symmetry; apply Z.eqb_neq; lia).
    replace (step - range <=? T mod step - range) with false by (symmetry; apply Z.leb_gt; lia).
    cbn [orb filter]. replace (T - range <=? T - range) with true by (symmetry; apply Z.leb_le; lia).
    replace (T - range <=? T) with true by (symmetry; apply Z.leb_le; lia). cbn [andb]. split; [discriminate|reflexivity].
Qed.

(* ====================== B. the statement level ====================== *)
Open Scope Z_scope.

(* ---- insertion sort commutes with a filter (the order is a strict weak order) ---- *)
Lemma sample_lt_le_trans x y z : PromSem.sample_lt x y = true -> sle y z -> PromSem.sample_lt x z = true.
Proof.
  unfold PromSem.sample_lt, sle. intros H Hz. apply orb_prop in H. apply orb_true_iff.
  destruct H as [H|H].
  - apply N.ltb_lt in H. left. apply N.ltb_lt. lia.
  - apply andb_prop in H. destruct H as [H1 H2]. apply N.eqb_eq in H1. apply Z.ltb_lt in H2.
    destruct Hz as [Hz|[Hz1 Hz2]].
    + left. apply N.ltb_lt. lia.
    + right. apply andb_true_iff. split; [apply N.eqb_eq; congruence|apply Z.ltb_lt; lia].
Qed.

Lemma insert_sorted_filter (f : samplerow -> bool) x acc : StronglySorted sle acc ->
  filter f (insert_sorted PromSem.sample_lt x acc) =
  if f x then insert_sorted PromSem.sample_lt x (filter f acc) else filter f acc.
Proof.
  induction acc as [|y acc IH]; intros Hs.
  - cbn [insert_sorted filter]. destruct (f x); reflexivity.
  - inversion Hs as [|? ? Hs' Hall]; subst. cbn [insert_sorted].
    destruct (PromSem.sample_lt x y) eqn:E.
    + cbn [filter]. destruct (f x) eqn:Ex; [|reflexivity].
      assert (Hhead : forall L, (forall z, List.In z L -> PromSem.sample_lt x z = true) ->
                                insert_sorted PromSem.sample_lt x L = x :: L).
      { intros L HL. destruct L as [|z L]; [reflexivity|]. cbn [insert_sorted]. now rewrite (HL z (or_introl eq_refl)). }
      change (if f y then y :: filter f acc else filter f acc) with (filter f (y :: acc)).
      rewrite Hhead; [reflexivity|]. intros z Hz. apply filter_In in Hz. destruct Hz as [[<-|Hz] _]; [exact E|].
      rewrite Forall_forall in Hall. apply (sample_lt_le_trans x y z E). now apply Hall.
    + cbn [filter]. rewrite (IH Hs'). destruct (f y) eqn:Ey, (f x) eqn:Ex; cbn [insert_sorted]; rewrite ?E; reflexivity.
Qed.

Lemma isort_filter (f : samplerow -> bool) l :
  isort PromSem.sample_lt (filter f l) = filter f (isort PromSem.sample_lt l).
Proof.
  unfold isort.
  assert (H : forall acc, StronglySorted sle acc ->
            fold_left (fun a x => insert_sorted PromSem.sample_lt x a) (filter f l) (filter f acc) =
            filter f (fold_left (fun a x => insert_sorted PromSem.sample_lt x a) l acc)).
  { induction l as [|x l IH]; intros acc Hacc; [reflexivity|]. cbn [filter fold_left].
    assert (Hacc' := insert_sorted_sorted x acc Hacc).
    rewrite <- (IH _ Hacc'). rewrite (insert_sorted_filter f x acc Hacc).
    destruct (f x); reflexivity. }
  apply (H []). constructor.
Qed.

Lemma to_row_le a b : sle a b -> row_le (to_row a) (to_row b).
Proof.
  unfold sle, row_le, to_row. cbn [r_fp r_ts]. intros [H|[H1 H2]]; [now left|right]. split; [assumption|].
  apply Z.quot_le_mono; lia.
Qed.
Lemma map_to_row_sorted l : StronglySorted sle l -> StronglySorted row_le (map to_row l).
Proof.
  induction 1 as [|a l Hs IH Hall]; cbn [map]; constructor; [assumption|].
  apply Forall_forall. intros r Hr. apply in_map_iff in Hr. destruct Hr as [b [<- Hb]].
  rewrite Forall_forall in Hall. apply to_row_le. now apply Hall.
Qed.
Lemma raw_rows_sorted f t ty fps samples : StronglySorted row_le (raw_rows f t ty fps samples).
Proof. unfold raw_rows. apply map_to_row_sorted. apply isort_sorted. Qed.

Section STATEMENT.
  Variable re_match re_full : string -> string -> bool.

  Notation aenv db r := (alias_env re_match (the_cte re_match db) raw_cols (sample_base_env r)).

  (* the ungrouped samples query with any WHERE whose meaning on the aliased row is `keep` *)
  Lemma eval_main_shape q db w (keep : samplerow -> bool) :
    s_where q = Some w -> s_cols q = raw_cols ->
    s_orderby q = [Ord (Id "fingerprint") true; Ord (Id "samples.timestamp_ns") true] ->
    s_groupby q = [] -> s_limit q = None ->
    (forall r, is_true (ev re_match (the_cte re_match db) (aenv db r) w) = keep r) ->
    eval_main re_match q db = Some (map to_row (isort PromSem.sample_lt (filter keep (d_samples db)))).
  Proof.
    intros Hw Hc Ho Hg Hlim Hk.
    unfold eval_main. rewrite Hw, Hc, Ho, Hg, Hlim. fold (the_cte re_match db).
    rewrite filter_map_comm.
    rewrite (filter_ext _ keep) by (intros; apply Hk).
    rewrite !map_map.
    rewrite (map_ext _ (fun r => Some (keyed_row r))).
    2:{ intros r. cbn [map all_some PromSem.ev]. rewrite (aenv_fp re_match), (aenv_ts re_match), (aenv_value re_match), (aenv_ms re_match).
        cbn [omap all_some]. unfold keyed_row, to_row. rewrite N2Z.id. reflexivity. }
    rewrite all_some_map_Some.
    rewrite (isort_map keyed_row PromSem.sample_lt) by (intros; apply key_lt_sample).
    rewrite map_map. reflexivity.
  Qed.

  (* the modulo condition on any row environment that knows timestamp_ms *)
  Lemma ev_range_cond_env cte rho h ts v : rho "timestamp_ms" = Some (VI ts) ->
    ev re_match cte rho
       (Or [Eq (ms_in_step "timestamp_ms" (h_step h)) (IntV 0);
            Ge (ms_in_step "timestamp_ms" (h_step h)) (IntV (h_step h - h_range h))]) =
    Some (b2v (range_keep (h_step h) (h_range h) (ts, v))).
  Proof.
    intros Hrho. rewrite <- (ev_range_cond re_match cte h ts v).
    unfold ms_in_step, Or, Eq, Ge. rewrite !(ev_LOp re_match cte). cbn [map].
    rewrite !(ev_LOp re_match cte). cbn [map PromSem.ev]. rewrite Hrho. unfold ts_env. cbn [String.eqb Ascii.eqb Bool.eqb].
    reflexivity.
  Qed.

  Definition range_cond (h : hints) : expr :=
    Or [Eq (ms_in_step "timestamp_ms" (h_step h)) (IntV 0);
        Ge (ms_in_step "timestamp_ms" (h_step h)) (IntV (h_step h - h_range h))].

  Lemma eval_main_range_filtered c ms db h : (c_limit c <= 0)%Z ->
    eval_main re_match (and_where [range_cond h] (raw_query re_full c ms)) db =
    Some (filter (fun r => range_keep (h_step h) (h_range h) (r_ts r, r_val r))
                 (raw_rows (c_from_ns c) (c_to_ns c) (sel_type c) (the_fps re_match re_full c ms db) (d_samples db))).
  Proof.
    intros Hl. destruct (raw_query_fields re_full c ms Hl) as [Hw [Hc [Ho [Hg Hlim]]]].
    set (ok := sample_ok (c_from_ns c) (c_to_ns c) (sel_type c) (the_fps re_match re_full c ms db)).
    set (keep2 := fun s : samplerow => range_keep (h_step h) (h_range h) (Z.quot (sm_ts_ns s) 1000000, sm_value s)).
    rewrite (eval_main_shape _ db
               (And [Ge (Id "samples.timestamp_ns") (IntV (c_from_ns c)); Lt (Id "samples.timestamp_ns") (IntV (c_to_ns c + 1000000));
                     get_types c; In (Id "samples.fingerprint") [WRef "fp_sel" (fingerprints_query re_full c ms)]; range_cond h])
               (fun s => keep2 s && ok s)).
    - unfold raw_rows. fold ok. rewrite filter_andb, isort_filter. rewrite filter_map_comm. reflexivity.
    - unfold and_where. rewrite Hw. reflexivity.
    - exact Hc.
    - exact Ho.
    - exact Hg.
    - exact Hlim.
    - intros r.
      change (And [Ge (Id "samples.timestamp_ns") (IntV (c_from_ns c)); Lt (Id "samples.timestamp_ns") (IntV (c_to_ns c + 1000000));
                   get_types c; In (Id "samples.fingerprint") [WRef "fp_sel" (fingerprints_query re_full c ms)]; range_cond h])
        with (And ([Ge (Id "samples.timestamp_ns") (IntV (c_from_ns c)); Lt (Id "samples.timestamp_ns") (IntV (c_to_ns c + 1000000));
                    get_types c; In (Id "samples.fingerprint") [WRef "fp_sel" (fingerprints_query re_full c ms)]] ++ [range_cond h])).
      rewrite is_true_and, forallb_app, <- is_true_and. fold (raw_where re_full c ms).
      rewrite (ev_raw_where re_match re_full). fold ok. cbn [forallb]. rewrite andb_true_r.
      unfold range_cond. rewrite (ev_range_cond_env _ _ h (Z.quot (sm_ts_ns r) 1000000) (sm_value r)) by apply (aenv_ms re_match).
      rewrite is_true_b2v. fold (keep2 r). apply andb_comm.
  Qed.

  Hypothesis anchor_law : forall v p, re_match v (anchor p) = re_full v p.

  Lemma raw_rows_expected cluster dbname h ms db :
    db_ok (from_day (h_start h * 1000000)) (d_gin db) (d_series db) ->
    selective re_full ms = true -> (List.length ms <= 63)%nat ->
    let c := prom_ctx cluster dbname h in
    raw_rows (c_from_ns c) (c_to_ns c) (sel_type c) (the_fps re_match re_full c ms db) (d_samples db) =
    expected_rows re_full h ms db.
  Proof.
    intros Hdb Hne Hlen c. destruct (prom_ctx_fields cluster dbname h) as [Hf [Ht [Hl Hty]]]. fold c in Hf, Ht, Hl, Hty.
    rewrite expected_rows_raw. unfold the_fps, sel_type. rewrite Hf, Ht, Hty. cbn [Z.eqb].
    apply raw_rows_ext. intros fp. now apply (prom_fp_select re_match re_full anchor_law).
  Qed.

  (* WHAT CLICKHOUSE ANSWERS TO THE STATEMENT OF SELECT, FOR EVERY HINT COMBINATION OF THE RAW PATH: the rows of the
     Prometheus meaning, step-bucketed for an instant-vector function (GROUP BY / argMax / ORDER BY proved, not sampled),
     thinned by the modulo filter for a range-vector function with Range < Step, untouched otherwise *)
  Theorem prom_rows_all_hints cluster dbname h ms db :
    use_raw_data h = true -> (is_instant (h_func h) = true -> 0 <= h_step h) ->
    db_ok (from_day (h_start h * 1000000)) (d_gin db) (d_series db) ->
    selective re_full ms = true -> (List.length ms <= 63)%nat ->
    prom_query_rows re_match re_full cluster dbname h ms db = Some (hinted_rows h (expected_rows re_full h ms db)).
  Proof.
    intros Hraw Hstep Hdb Hne Hlen.
    unfold prom_query_rows, querier_transpile. rewrite Hraw. cbn [fst].
    unfold transpile_label_matchers, hinted_rows.
    set (c := prom_ctx cluster dbname h).
    fold (raw_query re_full c ms).
    destruct (prom_ctx_fields cluster dbname h) as [_ [_ [Hl _]]]. fold c in Hl.
    assert (Hexp := raw_rows_expected cluster dbname h ms db Hdb Hne Hlen). cbv zeta in Hexp. fold c in Hexp.
    destruct (raw_query_fields re_full c ms ltac:(lia)) as [_ [_ [_ [Hgb _]]]].
    assert (Hplain : eval_prom re_match (raw_query re_full c ms) db = Some (expected_rows re_full h ms db)).
    { unfold eval_prom. rewrite Hgb. rewrite (eval_main_raw re_match re_full) by lia. now rewrite Hexp. }
    destruct (Z.eqb_spec (h_step h) 0) as [E0|E0]; [exact Hplain|].
    destruct (is_instant (h_func h)) eqn:Ei.
    - assert (Hpos : 0 < h_step h) by (specialize (Hstep eq_refl); lia).
      rewrite (eval_prom_process_hints re_match _ h db (expected_rows re_full h ms db) Ei Hpos); [reflexivity| |].
      + rewrite (eval_main_raw re_match re_full) by lia. now rewrite Hexp.
      + rewrite <- Hexp. apply raw_rows_sorted.
    - unfold process_hints. rewrite Ei.
      destruct (is_range (h_func h) && (h_range h <? h_step h)) eqn:Er; [|exact Hplain].
      fold (range_cond h). unfold eval_prom.
      assert (Hg' : s_groupby (and_where [range_cond h] (raw_query re_full c ms)) = []) by (unfold and_where; exact Hgb).
      rewrite Hg'. rewrite eval_main_range_filtered by lia. now rewrite Hexp.
  Qed.

  (* ====================== C. what the engine sees ====================== *)
  Lemma asc_of_fst l : StronglySorted Z.le (map fst l) -> asc l.
  Proof.
    unfold asc. induction l as [|a l IH]; intros H; [constructor|]. cbn [map] in H. inversion H as [|? ? Hs Hall]; subst.
    constructor; [now apply IH|]. apply Forall_forall. intros b Hb. rewrite Forall_forall in Hall. apply Hall. now apply in_map.
  Qed.

  Lemma expected_series_facts h ms db fp : 0 <= h_start h ->
    asc (rows_of fp (expected_rows re_full h ms db)) /\
    Forall (fun s => h_start h <= fst s) (rows_of fp (expected_rows re_full h ms db)).
  Proof.
    intros H0. unfold expected_rows. split.
    - apply asc_of_fst. apply sorted_fp_ascending. apply isort_sorted.
    - apply Forall_forall. intros x Hx. unfold rows_of in Hx. apply in_map_iff in Hx. destruct Hx as [r [<- Hr]].
      apply filter_In in Hr. destruct Hr as [Hr _]. apply in_map_iff in Hr. destruct Hr as [s [<- Hs]].
      apply isort_in in Hs. apply filter_In in Hs. destruct Hs as [_ Hok].
      apply andb_prop in Hok. destruct Hok as [Hok _]. apply andb_prop in Hok. destruct Hok as [Hok _].
      unfold in_range_ms in Hok. apply andb_prop in Hok. destruct Hok as [Hlo _]. apply Z.leb_le in Hlo.
      cbn [to_row r_ts fst].
      assert (Hns : 0 <= sm_ts_ns s).
      { destruct (Z.lt_ge_cases (sm_ts_ns s) 0) as [Hneg|]; [|assumption].
        assert (sm_ts_ns s / 1000000 < 0) by (apply Z.div_lt_upper_bound; lia). lia. }
      rewrite Z.quot_div_nonneg by lia. exact Hlo.
  Qed.

  Lemma rows_of_filter fp (g : sample -> bool) rows :
    rows_of fp (filter (fun r => g (r_ts r, r_val r)) rows) = filter g (rows_of fp rows).
  Proof.
    unfold rows_of. induction rows as [|r rows IH]; [reflexivity|]. cbn [filter].
    destruct (g (r_ts r, r_val r)) eqn:Eg, (N.eqb (r_fp r) fp) eqn:Ef; cbn [filter map]; rewrite ?Ef, ?Eg; cbn [map filter]; rewrite ?Eg, IH; reflexivity.
  Qed.

  (* PROMQL OVER RAW SAMPLES, the guarded statement: on the raw path, for hints inside hints_guard (the statement is left
     alone, or Step divides the 5 min look-back for step bucketing, or Start + Range is a multiple of Step for the modulo
     filter), every selected series reaches the engine such that
       - untouched statements: exactly its in-range samples;
       - an instant selector (instant-vector function or none) shows, at each of its evaluation times
         Start + look-back + k * Step, the value Prometheus shows on the raw samples -- except at a stale edge (a condition
         on the data: the latest sample is older than the look-back by less than one step);
       - a range selector receives, at each of its evaluation times Start + Range + k * Step, exactly the samples of
         its window [T - Range, T].
     Outside the guard the findings step-bucket-off-grid / range-filter-off-grid apply (guards necessary:
     step_bucket_grid_guard_necessary, range_filter_grid_guard_necessary); the stale edge is the finding
     step-bucket-staleness-edge (exact: step_bucket_exact_on_grid). *)
  Theorem promql_over_raw_samples_guarded cluster dbname h ms db :
    use_raw_data h = true -> 0 <= h_start h -> hints_guard h = true ->
    db_ok (from_day (h_start h * 1000000)) (d_gin db) (d_series db) ->
    selective re_full ms = true -> (List.length ms <= 63)%nat ->
    exists rows, prom_query_rows re_match re_full cluster dbname h ms db = Some rows /\
      forall fp,
        let raw := rows_of fp (expected_rows re_full h ms db) in
        let got := rows_of fp rows in
        (plain_hints h = true -> got = raw) /\
        (is_instant (h_func h) = true -> forall k,
           stale_edge (h_start h) (h_step h) lookback_ms (h_start h + lookback_ms + k * h_step h) raw = false ->
           visible lookback_ms (h_start h + lookback_ms + k * h_step h) got =
           visible lookback_ms (h_start h + lookback_ms + k * h_step h) raw) /\
        (is_instant (h_func h) = false -> forall k,
           window (h_range h) (h_start h + h_range h + k * h_step h) got =
           window (h_range h) (h_start h + h_range h + k * h_step h) raw).
  Proof.
    intros Hraw H0 Hguard Hdb Hne Hlen.
    exists (hinted_rows h (expected_rows re_full h ms db)). split.
    - apply prom_rows_all_hints; try assumption. intros Hi. unfold hints_guard in Hguard. rewrite Hi in Hguard.
      destruct (Z.eqb_spec (h_step h) 0) as [E|E]; [lia|]. apply andb_prop in Hguard. destruct Hguard as [Hp _].
      apply Z.ltb_lt in Hp. lia.
    - intros fp. cbv zeta. destruct (expected_series_facts h ms db fp H0) as [Hasc Hge].
      set (raw := rows_of fp (expected_rows re_full h ms db)) in *.
      unfold hinted_rows, plain_hints, hints_guard in *.
      destruct (Z.eqb_spec (h_step h) 0) as [E0|E0]; [repeat split; reflexivity|].
      destruct (is_instant (h_func h)) eqn:Ei.
      + apply andb_prop in Hguard. destruct Hguard as [Hp Hrem]. apply Z.ltb_lt in Hp. apply Z.eqb_eq in Hrem.
        assert (Hgot : rows_of fp (bucket_rows (h_start h) (h_step h) (expected_rows re_full h ms db)) =
                       bucket_series (h_start h) (h_step h) raw).
        { apply bucket_rows_series; [assumption|]. rewrite expected_rows_raw. apply raw_rows_sorted. }
        rewrite Hgot. split; [cbn; discriminate|]. split; [|discriminate].
        intros _ k Hst. now apply instant_selector_over_bucketed.
      + destruct (is_range (h_func h) && (h_range h <? h_step h)) eqn:Er.
        * apply andb_prop in Hguard. destruct Hguard as [Hr0 Hrem]. apply Z.leb_le in Hr0. apply Z.eqb_eq in Hrem.
          apply andb_prop in Er. destruct Er as [_ Er]. apply Z.ltb_lt in Er.
          rewrite rows_of_filter. fold raw. fold (range_filter (h_step h) (h_range h) raw).
          split; [cbn; discriminate|]. split; [discriminate|]. intros _ k.
          apply range_selector_over_filtered; [lia|assumption|].
          eapply Forall_impl; [|exact Hge]. cbn. intros a Ha. lia.
        * repeat split; reflexivity.
  Qed.
  (* the same for an engine with ANY look-back L (the hints then carry Start = first evaluation time - L): the guard of step
     bucketing becomes "Step divides L" *)
  Theorem promql_over_raw_samples_guarded_L (L : Z) cluster dbname h ms db :
    use_raw_data h = true -> 0 <= h_start h -> hints_guard_L L h = true ->
    db_ok (from_day (h_start h * 1000000)) (d_gin db) (d_series db) ->
    selective re_full ms = true -> (List.length ms <= 63)%nat ->
    exists rows, prom_query_rows re_match re_full cluster dbname h ms db = Some rows /\
      forall fp,
        let raw := rows_of fp (expected_rows re_full h ms db) in
        let got := rows_of fp rows in
        (plain_hints h = true -> got = raw) /\
        (is_instant (h_func h) = true -> forall k,
           stale_edge (h_start h) (h_step h) L (h_start h + L + k * h_step h) raw = false ->
           visible L (h_start h + L + k * h_step h) got =
           visible L (h_start h + L + k * h_step h) raw) /\
        (is_instant (h_func h) = false -> forall k,
           window (h_range h) (h_start h + h_range h + k * h_step h) got =
           window (h_range h) (h_start h + h_range h + k * h_step h) raw).
  Proof.
    intros Hraw H0 Hguard Hdb Hne Hlen.
    exists (hinted_rows h (expected_rows re_full h ms db)). split.
    - apply prom_rows_all_hints; try assumption. intros Hi. unfold hints_guard_L in Hguard. rewrite Hi in Hguard.
      destruct (Z.eqb_spec (h_step h) 0) as [E|E]; [lia|]. apply andb_prop in Hguard. destruct Hguard as [Hp _].
      apply Z.ltb_lt in Hp. lia.
    - intros fp. cbv zeta. destruct (expected_series_facts h ms db fp H0) as [Hasc Hge].
      set (raw := rows_of fp (expected_rows re_full h ms db)) in *.
      unfold hinted_rows, plain_hints, hints_guard_L in *.
      destruct (Z.eqb_spec (h_step h) 0) as [E0|E0]; [repeat split; reflexivity|].
      destruct (is_instant (h_func h)) eqn:Ei.
      + apply andb_prop in Hguard. destruct Hguard as [Hp Hrem]. apply Z.ltb_lt in Hp. apply Z.eqb_eq in Hrem.
        assert (Hgot : rows_of fp (bucket_rows (h_start h) (h_step h) (expected_rows re_full h ms db)) =
                       bucket_series (h_start h) (h_step h) raw).
        { apply bucket_rows_series; [assumption|]. rewrite expected_rows_raw. apply raw_rows_sorted. }
        rewrite Hgot. split; [cbn; discriminate|]. split; [|discriminate].
        intros _ k Hst. now apply instant_selector_over_bucketed.
      + destruct (is_range (h_func h) && (h_range h <? h_step h)) eqn:Er.
        * apply andb_prop in Hguard. destruct Hguard as [Hr0 Hrem]. apply Z.leb_le in Hr0. apply Z.eqb_eq in Hrem.
          apply andb_prop in Er. destruct Er as [_ Er]. apply Z.ltb_lt in Er.
          rewrite rows_of_filter. fold raw. fold (range_filter (h_step h) (h_range h) raw).
          split; [cbn; discriminate|]. split; [discriminate|]. intros _ k.
          apply range_selector_over_filtered; [lia|assumption|].
          eapply Forall_impl; [|exact Hge]. cbn. intros a Ha. lia.
        * repeat split; reflexivity.
  Qed.
  Lemma hints_guard_default h : hints_guard_L lookback_ms h = hints_guard h.
  Proof. reflexivity. Qed.
End STATEMENT.

(* ====================== D. every selected series once, ascending, for EVERY hint combination ====================== *)
Lemma row_le_fp a b : row_le a b -> (r_fp a <= r_fp b)%N.
Proof. unfold row_le. intros [H|[H _]]; lia. Qed.

Lemma row_sorted_contiguous rows : StronglySorted row_le rows -> contiguousb rows = true.
Proof.
  induction 1 as [|r rest Hs IH Hall]; [reflexivity|]. cbn [contiguousb]. rewrite IH. cbn [andb].
  destruct rest as [|n rest']; [reflexivity|].
  destruct (N.eqb_spec (r_fp n) (r_fp r)) as [E|E]; [reflexivity|]. cbn [orb]. apply negb_true_iff.
  apply not_true_is_false. intros Hex. apply existsb_exists in Hex. destruct Hex as [x [Hx He]]. apply N.eqb_eq in He.
  rewrite Forall_forall in Hall. assert (Hn := row_le_fp _ _ (Hall n (or_introl eq_refl))).
  assert (Hnx : (r_fp n <= r_fp x)%N).
  { destruct Hx as [<-|Hx]; [lia|]. inversion Hs as [|? ? _ Hall']; subst. rewrite Forall_forall in Hall'. apply row_le_fp. now apply Hall'. }
  lia.
Qed.

Lemma rows_of_sorted_asc fp rows : StronglySorted row_le rows -> StronglySorted Z.le (map fst (rows_of fp rows)).
Proof.
  induction 1 as [|r rest Hs IH Hall]; [constructor|]. rewrite rows_of_cons.
  destruct (N.eqb_spec (r_fp r) fp) as [E|E]; [|exact IH]. cbn [map]. constructor; [exact IH|].
  apply Forall_forall. intros t Ht. apply in_map_iff in Ht. destruct Ht as [x [<- Hx]].
  unfold rows_of in Hx. apply in_map_iff in Hx. destruct Hx as [r' [<- Hr']]. apply filter_In in Hr'. destruct Hr' as [Hr' Hfp].
  apply N.eqb_eq in Hfp. rewrite Forall_forall in Hall. destruct (Hall r' Hr') as [Hlt|[_ Hle]]; [lia|]. exact Hle.
Qed.

Lemma filter_row_sorted (f : row -> bool) rows : StronglySorted row_le rows -> StronglySorted row_le (filter f rows).
Proof.
  induction 1 as [|r rest Hs IH Hall]; [constructor|]. cbn [filter]. destruct (f r); [|exact IH].
  constructor; [exact IH|]. apply Forall_forall. intros x Hx. apply filter_In in Hx. rewrite Forall_forall in Hall. now apply Hall.
Qed.

Lemma hinted_rows_sorted h rows : (is_instant (h_func h) = true -> 0 <= h_step h) ->
  StronglySorted row_le rows -> StronglySorted row_le (hinted_rows h rows).
Proof.
  intros Hst Hs. unfold hinted_rows. destruct (Z.eqb_spec (h_step h) 0) as [E|E]; [assumption|].
  destruct (is_instant (h_func h)) eqn:Ei.
  - apply bucket_rows_sorted; [|assumption]. specialize (Hst eq_refl). lia.
  - destruct (is_range (h_func h) && (h_range h <? h_step h)); [now apply filter_row_sorted|assumption].
Qed.
Lemma hinted_rows_fps h rows fp : List.In fp (map r_fp (hinted_rows h rows)) -> List.In fp (map r_fp rows).
Proof.
  unfold hinted_rows. destruct (h_step h =? 0); [tauto|]. destruct (is_instant (h_func h)); [apply bucket_rows_fps|].
  destruct (is_range (h_func h) && (h_range h <? h_step h)); [|tauto].
  intros H. apply in_map_iff in H. destruct H as [r [<- Hr]]. apply filter_In in Hr. apply in_map. tauto.
Qed.

Section ONCE.
  Variable re_match re_full : string -> string -> bool.
  Hypothesis anchor_law : forall v p, re_match v (anchor p) = re_full v p.

  (* EACH SELECTED SERIES IS HANDED TO THE ENGINE ONCE, WITH ASCENDING TIMESTAMPS, whatever the hints of the raw path
     (prom_select_exact is the case Step = 0, where the samples are exactly the in-range ones): the row loop over the rows
     of the statement yields one series per fingerprint, only fingerprints of series satisfying the matchers, each with
     the rows of that fingerprint in order -- the hypothesis of seek_contract *)
  Theorem prom_select_once_all_hints cluster dbname h ms db :
    use_raw_data h = true -> (is_instant (h_func h) = true -> 0 <= h_step h) ->
    db_ok (from_day (h_start h * 1000000)) (d_gin db) (d_series db) ->
    selective re_full ms = true -> (List.length ms <= 63)%nat ->
    exists rows, prom_query_rows re_match re_full cluster dbname h ms db = Some rows /\
      rows = hinted_rows h (expected_rows re_full h ms db) /\
      let ss := select_loop (snd (querier_transpile re_full cluster dbname h ms)) rows in
      NoDup (map ps_fp ss) /\
      (forall fp, List.In fp (map ps_fp ss) -> List.In fp (expected_fps re_full (from_day (h_start h * 1000000)) ms (d_series db))) /\
      (forall s, List.In s ss ->
         ps_samples s = rows_of (ps_fp s) rows /\ StronglySorted Z.le (map fst (ps_samples s))).
  Proof.
    intros Hraw Hst Hdb Hne Hlen.
    exists (hinted_rows h (expected_rows re_full h ms db)).
    split; [now apply (prom_rows_all_hints re_match re_full anchor_law)|]. split; [reflexivity|].
    unfold querier_transpile. rewrite Hraw. cbn [snd].
    assert (Hsorted : StronglySorted row_le (hinted_rows h (expected_rows re_full h ms db))).
    { apply hinted_rows_sorted; [assumption|]. rewrite expected_rows_raw. apply raw_rows_sorted. }
    destruct (select_loop_spec false _ (row_sorted_contiguous _ Hsorted)) as [Hnd [Hfps Hsmp]].
    cbv zeta. split; [assumption|]. split.
    - intros fp Hfp. apply Hfps in Hfp. apply hinted_rows_fps in Hfp. rewrite expected_rows_raw in Hfp.
      apply raw_rows_fps in Hfp. destruct Hfp as [s [_ [Hok Hs]]]. unfold sample_ok in Hok.
      apply andb_prop in Hok. destruct Hok as [_ Hex]. apply existsb_exists in Hex. destruct Hex as [y [Hy He]].
      apply N.eqb_eq in He. congruence.
    - intros s Hs. rewrite (Hsmp s Hs). split; [reflexivity|]. now apply rows_of_sorted_asc.
  Qed.
End ONCE.

(* the guard is satisfiable by non-trivial hints of each kind, on the raw path *)
Example hints_guard_nonvacuous :
  let hi := {| h_start := 1700000000000; h_end := 1700003600000; h_step := 60000; h_func := ""; h_range := 0 |} in
  let hr := {| h_start := 1699999995000; h_end := 1700003600000; h_step := 10000; h_func := "rate"; h_range := 5000 |} in
  let hp := {| h_start := 1700000000000; h_end := 1700003600000; h_step := 7000; h_func := "sum"; h_range := 0 |} in
  (hints_guard hi = true /\ use_raw_data hi = true /\ is_instant (h_func hi) = true) /\
  (hints_guard hr = true /\ use_raw_data hr = true /\ is_range (h_func hr) && (h_range hr <? h_step hr) = true) /\
  (hints_guard hp = true /\ use_raw_data hp = true /\ plain_hints hp = true) /\
  stale_edge 0 60000 300000 360000 [(30000, 1); (59000, 2)] = true /\
  stale_edge 0 60000 300000 360000 [(30000, 1); (61000, 2)] = false.
Proof. vm_compute. repeat split; reflexivity. Qed.
