(* The column expression LineFormatPlanner prints evaluates to the template's own rendering of the row's labels. *)
From Coq Require Import List Arith NArith ZArith String Ascii Bool Lia ZifyBool ZifyNat ZifyN.
From Qryn Require Import lib.Strs lib.DecN model.Sql model.LogqlTemplate.
Import ListNotations.
Open Scope string_scope.

(* the rendering of the reached pieces *)
Fixpoint render_pieces (ps : list piece) (lbls : list (string * string)) : string :=
  match ps with
  | [] => ""
  | PText s :: r => s ++ render_pieces r lbls
  | PField n :: r => lookup lbls n ++ render_pieces r lbls
  end.

Lemma append_assoc (a b c : string) : (a ++ b) ++ c = a ++ (b ++ c).
Proof. induction a as [|x a IH]; cbn; [reflexivity | now rewrite IH]. Qed.
Lemma append_nil_r (a : string) : a ++ "" = a.
Proof. induction a as [|x a IH]; cbn; [reflexivity | now rewrite IH]. Qed.

Lemma render_app a b lbls : render_pieces (a ++ b)%list lbls = render_pieces a lbls ++ render_pieces b lbls.
Proof.
  induction a as [|p r IH]; [reflexivity|]. destruct p; cbn [app render_pieces]; rewrite IH, append_assoc; reflexivity.
Qed.

(* the execution that succeeds prints exactly the reached pieces *)
Lemma exec_pieces ns lbls : forall out, tpl_exec ns lbls = Some out -> render_pieces (pieces ns) lbls = out.
Proof.
  induction ns as [|n r IH]; intros out; cbn [tpl_exec pieces flat_map]; [intros [= <-]; reflexivity|].
  destruct n as [s|cmds].
  - destruct (tpl_exec r lbls) as [b|]; cbn [option_map]; [|discriminate]. intros [= <-].
    change (flat_map _ r) with (pieces r). cbn [app render_pieces]. now rewrite (IH b eq_refl).
  - unfold act_exec. destruct cmds as [|c0 cr]; [discriminate|]. destruct c0 as [|o0 orr]; [discriminate|].
    destruct o0 as [n0 ch0| |fn0]; [|discriminate|discriminate]. destruct ch0; [|discriminate]. destruct orr; [|discriminate].
    destruct cr; [|discriminate].
    destruct (tpl_exec r lbls) as [b|]; [|discriminate]. intros [= <-].
    change (flat_map _ r) with (pieces r). cbn [act_fields flat_map map app render_pieces]. now rewrite (IH b eq_refl).
Qed.

(* ---------- the scanner of format() ---------- *)
Lemma digit_not_brace c d : digit_val c = Some d -> Ascii.eqb c "{" = false /\ Ascii.eqb c "}" = false /\ is_digit c = true.
Proof.
  unfold digit_val, is_digit. intros H.
  destruct (N.leb 48 (N_of_ascii c) && N.leb (N_of_ascii c) 57)%bool eqn:E; [|discriminate].
  split; [|split; [|reflexivity]].
  - destruct (Ascii.eqb_spec c "{") as [->|]; [discriminate E | reflexivity].
  - destruct (Ascii.eqb_spec c "}") as [->|]; [discriminate E | reflexivity].
Qed.

Lemma run_digits ds : forall acc rest args, all_digits ds = true ->
  fmt_run (ds ++ rest) (FOpen acc) args = fmt_run rest (FOpen (acc ++ ds)) args.
Proof.
  induction ds as [|c r IH]; intros acc rest args H; cbn [append].
  - now rewrite append_nil_r.
  - cbn [all_digits] in H. destruct (digit_val c) as [d|] eqn:Ed; [|discriminate].
    destruct (digit_not_brace c d Ed) as [H1 [H2 H3]]. cbn [fmt_run]. rewrite H1, H2, H3.
    rewrite (IH _ _ _ H). f_equal. f_equal. rewrite append_assoc. reflexivity.
Qed.

Lemma run_field k rest args a :
  nth_error args (N.to_nat k) = Some a ->
  fmt_run ("{" ++ string_of_N k ++ "}" ++ rest) FN args = option_map (append a) (fmt_run rest FN args).
Proof.
  intros Hn. change ("{" ++ string_of_N k ++ "}" ++ rest) with (String "{" (string_of_N k ++ String "}" rest)).
  cbn [fmt_run]. change (Ascii.eqb "{" "{") with true. cbn match.
  rewrite (run_digits (string_of_N k) "" (String "}" rest) args (string_of_N_digits k)).
  cbn [append fmt_run]. change (Ascii.eqb "}" "{") with false. change (Ascii.eqb "}" "}") with true. cbn match.
  rewrite N_of_dec_string_of_N, Hn. reflexivity.
Qed.

Lemma run_text s : forall rest args, fmt_run (esc_braces s ++ rest) FN args = option_map (append s) (fmt_run rest FN args).
Proof.
  induction s as [|c r IH]; intros rest args; cbn [esc_braces map_string append].
  - destruct (fmt_run rest FN args); reflexivity.
  - destruct (Ascii.eqb_spec c "{") as [->|Hn1].
    + cbn [append fmt_run]. change (Ascii.eqb "{" "{") with true. cbn match. rewrite IH.
      destruct (fmt_run rest FN args); reflexivity.
    + destruct (Ascii.eqb_spec c "}") as [->|Hn2].
      * cbn [append fmt_run]. change (Ascii.eqb "}" "{") with false. change (Ascii.eqb "}" "}") with true. cbn match. rewrite IH.
        destruct (fmt_run rest FN args); reflexivity.
      * cbn [ch append fmt_run].
        destruct (Ascii.eqb_spec c "{"); [contradiction|]. destruct (Ascii.eqb_spec c "}"); [contradiction|].
        rewrite IH. destruct (fmt_run rest FN args); reflexivity.
Qed.

(* the pattern and the arguments built from pieces, evaluated with the arguments' label values: the rendering *)
Lemma fmt_pieces lbls ps : forall k pre,
  N.of_nat (List.length pre) = k ->
  fmt_run (fst (tpl_fmt ps k)) FN (pre ++ map (lookup lbls) (snd (tpl_fmt ps k)))%list = Some (render_pieces ps lbls).
Proof.
  induction ps as [|p r IH]; intros k pre Hk; cbn [tpl_fmt].
  - reflexivity.
  - destruct p as [s|n].
    + specialize (IH k pre Hk). destruct (tpl_fmt r k) as [f a]. cbn [fst snd] in *. rewrite run_text, IH. reflexivity.
    + specialize (IH (k + 1)%N (pre ++ [lookup lbls n])%list).
      destruct (tpl_fmt r (k + 1)) as [f a]. cbn [fst snd map] in *.
      rewrite <- !append_assoc. rewrite !append_assoc.
      rewrite (run_field k f _ (lookup lbls n)).
      * replace (pre ++ lookup lbls n :: map (lookup lbls) a)%list with ((pre ++ [lookup lbls n]) ++ map (lookup lbls) a)%list
          by (rewrite <- app_assoc; reflexivity).
        rewrite IH; [reflexivity|]. rewrite app_length. cbn [List.length]. lia.
      * subst k. rewrite Nnat.Nat2N.id. rewrite nth_error_app2 by lia. rewrite Nat.sub_diag. reflexivity.
Qed.

Lemma no_field_text ps lbls : forall k, snd (tpl_fmt ps k) = [] -> render_pieces ps lbls = tpl_text ps.
Proof.
  induction ps as [|p r IH]; intros k; cbn [tpl_fmt]; [reflexivity|]. destruct p as [s|n].
  - specialize (IH k). destruct (tpl_fmt r k) as [f a]. cbn [snd] in *. intros H. cbn [render_pieces tpl_text]. now rewrite (IH H).
  - destruct (tpl_fmt r (k + 1)) as [f a]. cbn [snd]. discriminate.
Qed.

(* the value of the SQL column over a row = the rendering of the reached pieces, for EVERY parsed template *)
Theorem tpl_sql_value_pieces ns lbls : tpl_sql_value ns lbls = Some (render_pieces (pieces ns) lbls).
Proof.
  unfold tpl_sql_value. pose proof (fmt_pieces lbls (pieces ns) 0%N [] eq_refl) as H.
  pose proof (no_field_text (pieces ns) lbls 0%N) as Ht.
  destruct (tpl_fmt (pieces ns) 0) as [f a]. cbn [fst snd app] in *.
  destruct a as [|a0 ar]; [now rewrite (Ht eq_refl) | exact H].
Qed.

(* ... which is the template's own output wherever its execution succeeds with a plain text *)
Theorem line_format_sql_value ns lbls out : tpl_exec ns lbls = Some out -> tpl_sql_value ns lbls = Some out.
Proof. intros H. rewrite tpl_sql_value_pieces. now rewrite (exec_pieces ns lbls out H). Qed.

(* the hypothesis is met: lvl={{.level}} {msg} over {level="warn"} *)
Example line_format_sql_value_hyp :
  exists ns, tpl_parse "lvl={{.level}} {msg}{{- .x -}} !" = TOk ns /\
             tpl_exec ns [("level", "warn")] = Some "lvl=warn {msg}!" /\ tpl_sql_value ns [("level", "warn")] = Some "lvl=warn {msg}!".
Proof. eexists. split; [vm_compute; reflexivity|]. split; vm_compute; reflexivity. Qed.

(* the text the planner printed before the repair f17dce0-style escaping: the unescaped pattern has another value or none *)
Example unescaped_braces_differ :
  format_eval "{0}{0}" ["v"] = Some "vv" /\ format_eval "{{0}}{0}" ["v"] = Some "{0}v" /\ format_eval "a{b" ["v"] = None.
Proof. repeat split; reflexivity. Qed.

(* tpl_sql is the expression whose value tpl_sql_value describes: same pattern, same argument names *)
Lemma tpl_sql_shape ns :
  let '(f, a) := tpl_fmt (pieces ns) 0 in
  tpl_sql ns = match a with
               | [] => StrV (tpl_text (pieces ns))
               | _ => Sep "" [Raw "format("; StrV f; Raw ", "; Sep ", " (map label_arg a); Raw ")"]
               end.
Proof. unfold tpl_sql. destruct (tpl_fmt (pieces ns) 0) as [f a]. reflexivity. Qed.

(* ================= the planner (model/LogqlPlan.v PLineFormatP) ================= *)
From Qryn Require Import model.SqlRender model.Logql model.LogqlPlan.

(* LineFormatPlanner.Process: the select of Main with ONE column replaced; FROM, WHERE, PREWHERE, joins, WITHs, ORDER BY,
   LIMIT and both WITH caches are those of Main; the plan object is unchanged (no Process-time state) *)
Theorem line_format_process t main c st q st' p' :
  process (PLineFormatP t main) c st = Some (q, st', p') ->
  exists req st1 main' nodes,
    process main c st = Some (req, st1, main') /\ tpl_parse t = TOk nodes /\
    q = set_cols (patch_col (s_cols req) "string" (fun _ => tpl_sql nodes)) req /\
    fp_cache st' = fp_cache st1 /\ labels_cache st' = labels_cache st1 /\ pid st' = (pid st1 + 1)%N /\
    p' = PLineFormatP t main'.
Proof.
  cbn [process]. destruct (process main c st) as [[[req st1] main']|]; cbn [bind]; [|discriminate].
  unfold next_id. destruct (tpl_parse t) as [nodes| |]; try discriminate.
  intros [= <- <- <-]. exists req, st1, main', nodes. repeat split; reflexivity.
Qed.

(* a template Parse refuses, or one outside the transcribed fragment, gives no statement in the model *)
Lemma line_format_process_none t main c st : (forall ns, tpl_parse t <> TOk ns) -> process (PLineFormatP t main) c st = None.
Proof.
  intros H. cbn [process]. destruct (process main c st) as [[[req st1] main']|]; cbn [bind]; [|reflexivity].
  unfold next_id. destruct (tpl_parse t) as [nodes| |]; try reflexivity. exfalso. apply (H nodes). reflexivity.
Qed.

(* the rewritten column is what the next planners find under the name `string` *)
Lemma get_patched cols e : has_column cols "string" = true -> get_col (patch_col cols "string" (fun _ => e)) "string" = Some e.
Proof.
  induction cols as [|c0 r IH]; cbn [has_column existsb]; [discriminate|].
  change (existsb _ r) with (has_column r "string").
  cbn [patch_col map get_col]. change (map _ r) with (patch_col r "string" (fun _ => e)).
  destruct (alias_of c0) as [[x a]|] eqn:Ea.
  - destruct (String.eqb a "string") eqn:Es.
    + intros _. cbn [alias_of]. rewrite String.eqb_refl. reflexivity.
    + cbn [orb]. intros H. rewrite Ea, Es. exact (IH H).
  - cbn [orb]. intros H. rewrite Ea. exact (IH H).
Qed.
(* bytes_over_time / bytes_rate behind line_format: LRAPlanner renames that column to _string and sums length(_string) *)
Lemma get_renamed cols e : has_column cols "_string" = false -> get_col cols "string" = Some e ->
  get_col (rename_string cols) "_string" = Some e.
Proof.
  induction cols as [|c0 r IH]; cbn [has_column existsb get_col]; [discriminate|].
  change (existsb _ r) with (has_column r "_string").
  cbn [rename_string map]. change (map _ r) with (rename_string r).
  destruct (alias_of c0) as [[x a]|] eqn:Ea.
  - destruct (String.eqb a "_string") eqn:E_; [discriminate|]. cbn [orb]. intros Hn.
    destruct (String.eqb a "string") eqn:Es.
    + intros [= <-]. cbn [get_col alias_of]. reflexivity.
    + intros H. cbn [get_col]. rewrite Ea, E_. exact (IH Hn H).
  - cbn [orb]. intros Hn H. cbn [get_col]. rewrite Ea. exact (IH Hn H).
Qed.
Theorem formatted_line_reaches_the_byte_aggregation t main c st req st1 main' nodes f dur wl v :
  process main c st = Some (req, st1, main') -> tpl_parse t = TOk nodes -> lra_val_of f dur = Some v ->
  has_column (s_cols req) "string" = true -> has_column (s_cols req) "_string" = false ->
  exists q st' p' m1,
    process (PLraP f dur wl (PLineFormatP t main)) c st = Some (q, st', p') /\
    s_from q = Some (Col (WRef "agg_a" m1) "time_series") /\
    get_col (s_cols m1) "_string" = Some (tpl_sql nodes) /\
    get_col (s_cols q) "value" = Some (lra_val_sql v).
Proof.
  intros Hm Ht Hv Hs Hn. cbn [process]. rewrite Hm. cbn [bind]. unfold next_id. rewrite Ht. cbn [bind]. rewrite Hv. cbn [bind].
  eexists _, _, _, _. split; [reflexivity|]. split; [reflexivity|]. split.
  - cbn [s_cols set_cols]. apply get_renamed.
    + clear -Hn. induction (s_cols req) as [|c0 r IH]; [reflexivity|]. cbn [has_column existsb] in Hn.
      change (existsb _ r) with (has_column r "_string") in Hn.
      cbn [patch_col map has_column existsb]. change (map _ r) with (patch_col r "string" (fun _ => tpl_sql nodes)).
      change (existsb _ (patch_col r "string" (fun _ => tpl_sql nodes))) with (has_column (patch_col r "string" (fun _ => tpl_sql nodes)) "_string").
      destruct (alias_of c0) as [[x a]|] eqn:Ea.
      * destruct (String.eqb a "_string") eqn:E_; [discriminate|]. cbn [orb] in Hn.
        destruct (String.eqb a "string") eqn:Es.
        -- cbn [alias_of]. change (String.eqb "string" "_string") with false. cbn [orb]. exact (IH Hn).
        -- rewrite Ea, E_. cbn [orb]. exact (IH Hn).
      * cbn [orb] in Hn. rewrite Ea. cbn [orb]. exact (IH Hn).
    + apply get_patched. exact Hs.
  - cbn [s_cols set_cols set_groupby set_from with_]. destruct wl; reflexivity.
Qed.
(* hypotheses met by the planner's own main select *)
Example formatted_line_hyp c : has_column (s_cols (main_init c)) "string" = true /\ has_column (s_cols (main_init c)) "_string" = false.
Proof. split; reflexivity. Qed.

(* ---------- a log query with line_format is planned and processed: the hypotheses of the theorems over plan_log / process
   (C13 every_scan_confined, C14 log_query_reexecution_one_context_same_meaning, ...) are met by such queries ---------- *)
Definition lf_query : strsel :=
  {| sel_matchers := [{| m_name := "job"; m_op := MEq; m_val := "api" |}];
     sel_pipeline := [PLineFilter LFContains "err" None; PLineFormat "{{.level}}: {msg} {{- .pod -}} "; PParser PJson [{| pp_label := "a"; pp_val := "a.b"; pp_path := Some ["a"; "b"] |}];
                      PLineFormat "{{.a}}"] |}.
Definition lf_ctx : pctx :=
  {| c_from_ns := 1700000000000000000%Z; c_to_ns := 1700003600000000000%Z; c_limit := 100%Z; c_asc := false; c_cluster := false; c_type := 1%Z;
     c_finalize := true; c_step_ns := 1000000000%Z; t_gin := "time_series_gin"; t_samples := "samples_v3"; t_ts := "time_series";
     t_ts_dist := "time_series"; t_m15 := "metrics_15s" |}.
Definition planned_and_processed (sel : strsel) (c : pctx) : bool :=
  match plan_log sel true with
  | Some p => match process p c pst0 with Some (q, _, _) => match render q false with Some _ => true | None => false end | None => false end
  | None => false
  end.
Example line_format_query_planned : planned_and_processed lf_query lf_ctx = true.
Proof. vm_compute. reflexivity. Qed.
