(* Proofs about the writer model of property C16 (model/Pprof.v): the rows postProcessProf stores
   conserve weight, under the hypothesis that node ids determine the parent on the triples that occur. *)
From Coq Require Import List NArith ZArith Bool Lia Morphisms Setoid.
From Qryn Require Import model.Pprof.
Import ListNotations.
Open Scope Z_scope.

(* ------------------------------------------------------------------ arithmetic modulo 2^64 *)
Definition eqm (a b : Z) : Prop := a mod two64 = b mod two64.

Lemma two64_pos : 0 < two64. Proof. reflexivity. Qed.
Lemma two64_nz : two64 <> 0. Proof. discriminate. Qed.

#[global] Instance eqm_equiv : Equivalence eqm.
Proof. unfold eqm. split; congruence. Qed.

#[global] Instance eqm_add_proper : Proper (eqm ==> eqm ==> eqm) Z.add.
Proof.
  intros a b Hab c d Hcd. unfold eqm in *.
  rewrite (Z.add_mod a c), (Z.add_mod b d) by exact two64_nz. congruence.
Qed.

Lemma eqm_of_eq a b : a = b -> eqm a b.
Proof. intros ->. reflexivity. Qed.

Lemma wrap64_mod z : wrap64 z = (z + two63) mod two64 - two63.
Proof.
  unfold wrap64. destruct (Z.leb (- two63) z && Z.ltb z two63)%bool eqn:E; [|reflexivity].
  apply andb_true_iff in E. destruct E as [E1 E2]. apply Z.leb_le in E1. apply Z.ltb_lt in E2.
  rewrite Z.mod_small; unfold two63, two64 in *; lia.
Qed.

Lemma wrap64_range z : - two63 <= wrap64 z < two63.
Proof.
  rewrite wrap64_mod. pose proof (Z.mod_pos_bound (z + two63) two64 two64_pos).
  unfold two63, two64 in *. lia.
Qed.

Lemma wrap64_eqm z : eqm (wrap64 z) z.
Proof.
  rewrite wrap64_mod. unfold eqm.
  replace ((z + two63) mod two64 - two63) with ((z + two63) mod two64 + (- two63)) by lia.
  rewrite Z.add_mod by exact two64_nz. rewrite Z.mod_mod by exact two64_nz.
  rewrite <- Z.add_mod by exact two64_nz. f_equal. lia.
Qed.

Lemma wrap64_small z : - two63 <= z < two63 -> wrap64 z = z.
Proof. intros H. rewrite wrap64_mod. rewrite Z.mod_small; unfold two63, two64 in *; lia. Qed.

Lemma eqm_wrap64 a b : eqm a b -> wrap64 a = wrap64 b.
Proof.
  intros H. rewrite !wrap64_mod. f_equal. unfold eqm in H.
  rewrite (Z.add_mod a), (Z.add_mod b) by exact two64_nz. congruence.
Qed.

Lemma in_range_eqm a b : - two63 <= a < two63 -> eqm a b -> a = wrap64 b.
Proof. intros Hr H. rewrite <- (wrap64_small a Hr). apply eqm_wrap64. exact H. Qed.

Lemma sumZ_app a b : sumZ (a ++ b) = sumZ a + sumZ b.
Proof. unfold sumZ. induction a as [|x a IH]; cbn [app fold_right]; [reflexivity|]. rewrite IH. lia. Qed.

(* ------------------------------------------------------------------ node ids *)
Lemma node_id_nonzero h p f d : (1 <= d)%N -> node_id h p f d <> 0%N.
Proof.
  intros Hd H. unfold node_id in H. apply N.lor_eq_0_iff in H. destruct H as [_ H].
  apply N.shiftl_eq_0_iff in H. unfold depth_clamp in H. lia.
Qed.

(* ------------------------------------------------------------------ add_vals *)
Lemma length_add_vals nv leaf vs : length (add_vals nv leaf vs) = length nv.
Proof. revert vs. induction nv as [|[s t] nv IH]; intros vs; cbn; [reflexivity|]. now rewrite IH. Qed.

Lemma nth_hd_tl (vs : list Z) k : nth (S k) vs 0 = nth k (tl vs) 0.
Proof. destruct vs; [destruct k|]; reflexivity. Qed.

Lemma nth_add_vals : forall nv leaf vs k, (k < length nv)%nat ->
  nth k (add_vals nv leaf vs) (0, 0) =
  (wrap64 (fst (nth k nv (0, 0)) + if leaf then nth k vs 0 else 0), wrap64 (snd (nth k nv (0, 0)) + nth k vs 0)).
Proof.
  induction nv as [|[s t] nv IH]; intros leaf vs k Hk; cbn [length] in Hk; [lia|].
  destruct k as [|k].
  - cbn [add_vals nth fst snd]. destruct vs; reflexivity.
  - cbn [add_vals nth]. rewrite IH by lia. rewrite !nth_hd_tl. reflexivity.
Qed.

Lemma add_vals_in_range nv leaf vs s t : In (s, t) (add_vals nv leaf vs) ->
  (- two63 <= s < two63) /\ (- two63 <= t < two63).
Proof.
  revert vs. induction nv as [|[s0 t0] nv IH]; intros vs H; cbn in H; [contradiction|].
  destruct H as [H|H]; [|exact (IH _ H)].
  inversion H; subst. split; apply wrap64_range.
Qed.

(* ------------------------------------------------------------------ invariants of the tree map *)
Definition WF (nt : nat) (t : tree) : Prop := forall n, In n t -> length (n_vals n) = nt.
Definition InRange (t : tree) : Prop :=
  forall n s tt, In n t -> In (s, tt) (n_vals n) -> (- two63 <= s < two63) /\ (- two63 <= tt < two63).

Lemma length_zero_vals nt : length (zero_vals nt) = nt.
Proof. unfold zero_vals. apply repeat_length. Qed.

Lemma nth_zero_vals nt k : nth k (zero_vals nt) (0, 0) = (0, 0).
Proof.
  unfold zero_vals. revert k. induction nt as [|nt IH]; intros [|k]; cbn; try reflexivity. apply IH.
Qed.

Lemma bump_ids t p f i leaf vs zero y :
  In y (map n_id (bump t p f i leaf vs zero)) -> In y (map n_id t) \/ y = i.
Proof.
  induction t as [|n r IH]; cbn [bump map].
  - cbn. intros [H|[]]. right. congruence.
  - destruct (N.eqb (n_id n) i) eqn:E; cbn [map n_id In].
    + intros H. left. exact H.
    + intros [H|H]; [left; left; exact H|]. destruct (IH H) as [H'|H']; [left; right; exact H'|right; exact H'].
Qed.

Lemma bump_nodup t p f i leaf vs zero :
  NoDup (map n_id t) -> NoDup (map n_id (bump t p f i leaf vs zero)).
Proof.
  induction t as [|n r IH]; intros Hnd; cbn [bump map].
  - cbn. constructor; [intros []|constructor].
  - cbn [map] in Hnd. inversion Hnd as [|x l Hnotin Hnd']; subst.
    destruct (N.eqb (n_id n) i) eqn:E; cbn [map n_id].
    + constructor; assumption.
    + constructor; [|apply IH; exact Hnd'].
      intros Hin. apply bump_ids in Hin. destruct Hin as [Hin|Hin]; [contradiction|].
      apply N.eqb_neq in E. congruence.
Qed.

Lemma bump_nonzero t p f i leaf vs zero :
  i <> 0%N -> (forall n, In n t -> n_id n <> 0%N) -> forall n, In n (bump t p f i leaf vs zero) -> n_id n <> 0%N.
Proof.
  intros Hi Ht n Hn. assert (H : In (n_id n) (map n_id (bump t p f i leaf vs zero))) by (apply in_map; exact Hn).
  apply bump_ids in H. destruct H as [H|H]; [|congruence].
  apply in_map_iff in H. destruct H as [m [Hm Hin]]. rewrite <- Hm. apply Ht. exact Hin.
Qed.

Lemma bump_wf nt t p f i leaf vs : WF nt t -> WF nt (bump t p f i leaf vs (zero_vals nt)).
Proof.
  induction t as [|n r IH]; intros Hwf m Hm; cbn [bump] in Hm.
  - destruct Hm as [<-|[]]. cbn. rewrite length_add_vals. apply length_zero_vals.
  - destruct (N.eqb (n_id n) i).
    + destruct Hm as [<-|Hm]; [cbn; rewrite length_add_vals; apply Hwf; left; reflexivity|apply Hwf; right; exact Hm].
    + destruct Hm as [<-|Hm]; [apply Hwf; left; reflexivity|].
      apply IH; [intros x Hx; apply Hwf; right; exact Hx|exact Hm].
Qed.

Lemma bump_in_range t p f i leaf vs zero : InRange t -> InRange (bump t p f i leaf vs zero).
Proof.
  induction t as [|n r IH]; intros Hr m s tt Hm Hin; cbn [bump] in Hm.
  - destruct Hm as [<-|[]]. cbn in Hin. exact (add_vals_in_range _ _ _ _ _ Hin).
  - destruct (N.eqb (n_id n) i).
    + destruct Hm as [<-|Hm]; [cbn in Hin; exact (add_vals_in_range _ _ _ _ _ Hin)|].
      exact (Hr m s tt (or_intror Hm) Hin).
    + destruct Hm as [<-|Hm]; [exact (Hr n s tt (or_introl eq_refl) Hin)|].
      refine (IH _ m s tt Hm Hin). intros x s' t' Hx. apply Hr. right. exact Hx.
Qed.

(* ------------------------------------------------------------------ the three sums under one bump *)
Definition gsum (sel : node -> N) (comp : Z * Z -> Z) (k : nat) (t : tree) (x : N) : Z :=
  sumZ (map (fun n => if N.eqb (sel n) x then comp (val_at k n) else 0) t).

Lemma tot_at_gsum k t x : tot_at k t x = gsum n_id snd k t x. Proof. reflexivity. Qed.
Lemma self_at_gsum k t x : self_at k t x = gsum n_id fst k t x. Proof. reflexivity. Qed.
Lemma child_tot_gsum k t x : child_tot k t x = gsum n_parent snd k t x. Proof. reflexivity. Qed.

Lemma gsum_cons sel comp k n t x :
  gsum sel comp k (n :: t) x = (if N.eqb (sel n) x then comp (val_at k n) else 0) + gsum sel comp k t x.
Proof. reflexivity. Qed.

Lemma gsum_app sel comp k a b x : gsum sel comp k (a ++ b) x = gsum sel comp k a x + gsum sel comp k b x.
Proof. unfold gsum. rewrite map_app. apply sumZ_app. Qed.

Section BumpSums.
  Variable sel : node -> N.
  Variable comp : Z * Z -> Z.
  Hypothesis Hpres : forall n vals,
    sel {| n_parent := n_parent n; n_fn := n_fn n; n_id := n_id n; n_vals := vals |} = sel n.
  Hypothesis Hcomp : forall s t a b, eqm (comp (wrap64 (s + a), wrap64 (t + b))) (comp (s, t) + comp (a, b)).
  Hypothesis Hcomp0 : comp (0, 0) = 0.

  Lemma bump_gsum k nt p f i leaf vs key x : (k < nt)%nat ->
    sel {| n_parent := p; n_fn := f; n_id := i; n_vals := [] |} = key ->
    forall t, WF nt t -> (forall n, In n t -> n_id n = i -> sel n = key) ->
    eqm (gsum sel comp k (bump t p f i leaf vs (zero_vals nt)) x)
        (gsum sel comp k t x + if N.eqb key x then comp ((if leaf then nth k vs 0 else 0), nth k vs 0) else 0).
  Proof.
    intros Hk Hnew. induction t as [|n r IH]; intros Hwf Hsel.
    - cbn [bump]. rewrite gsum_cons. unfold gsum at 1 2. cbn [map sumZ fold_right].
      replace (sel {| n_parent := p; n_fn := f; n_id := i; n_vals := add_vals (zero_vals nt) leaf vs |}) with key.
      2:{ rewrite <- Hnew. symmetry.
          exact (Hpres {| n_parent := p; n_fn := f; n_id := i; n_vals := [] |} (add_vals (zero_vals nt) leaf vs)). }
      destruct (N.eqb key x); [|reflexivity].
      unfold val_at. cbn [n_vals]. rewrite nth_add_vals by (rewrite length_zero_vals; exact Hk).
      rewrite nth_zero_vals. cbn [fst snd]. rewrite Hcomp. rewrite Hcomp0. apply eqm_of_eq. lia.
    - cbn [bump]. destruct (N.eqb (n_id n) i) eqn:E.
      + apply N.eqb_eq in E. rewrite !gsum_cons. rewrite Hpres.
        assert (Hk' : sel n = key) by (apply Hsel; [left; reflexivity|exact E]).
        rewrite Hk'. destruct (N.eqb key x); [|apply eqm_of_eq; lia].
        unfold val_at at 1. cbn [n_vals]. rewrite nth_add_vals by (rewrite (Hwf n (or_introl eq_refl)); exact Hk).
        rewrite Hcomp. unfold val_at. rewrite <- surjective_pairing. apply eqm_of_eq. lia.
      + rewrite !gsum_cons. rewrite IH.
        * apply eqm_of_eq. lia.
        * intros m Hm. apply Hwf. right. exact Hm.
        * intros m Hm. apply Hsel. right. exact Hm.
  Qed.
End BumpSums.

Lemma comp_snd s t a b : eqm (snd (wrap64 (s + a), wrap64 (t + b))) (snd (s, t) + snd (a, b)).
Proof. cbn [snd]. apply wrap64_eqm. Qed.
Lemma comp_fst s t a b : eqm (fst (wrap64 (s + a), wrap64 (t + b))) (fst (s, t) + fst (a, b)).
Proof. cbn [fst]. apply wrap64_eqm. Qed.

Lemma bump_tot k nt t p f i leaf vs x : (k < nt)%nat -> WF nt t ->
  eqm (tot_at k (bump t p f i leaf vs (zero_vals nt)) x) (tot_at k t x + if N.eqb i x then nth k vs 0 else 0).
Proof.
  intros Hk Hwf. rewrite !tot_at_gsum.
  rewrite (bump_gsum n_id snd (fun _ _ => eq_refl) comp_snd eq_refl k nt p f i leaf vs i x Hk eq_refl t Hwf).
  - reflexivity.
  - intros n _ H. exact H.
Qed.

Lemma bump_self k nt t p f i leaf vs x : (k < nt)%nat -> WF nt t ->
  eqm (self_at k (bump t p f i leaf vs (zero_vals nt)) x)
      (self_at k t x + if N.eqb i x then (if leaf then nth k vs 0 else 0) else 0).
Proof.
  intros Hk Hwf. rewrite !self_at_gsum.
  rewrite (bump_gsum n_id fst (fun _ _ => eq_refl) comp_fst eq_refl k nt p f i leaf vs i x Hk eq_refl t Hwf).
  - reflexivity.
  - intros n _ H. exact H.
Qed.

Lemma bump_child k nt t p f i leaf vs x : (k < nt)%nat -> WF nt t ->
  (forall n, In n t -> n_id n = i -> n_parent n = p) ->
  eqm (child_tot k (bump t p f i leaf vs (zero_vals nt)) x) (child_tot k t x + if N.eqb p x then nth k vs 0 else 0).
Proof.
  intros Hk Hwf Hpar. rewrite !child_tot_gsum.
  rewrite (bump_gsum n_parent snd (fun _ _ => eq_refl) comp_snd eq_refl k nt p f i leaf vs p x Hk eq_refl t Hwf Hpar).
  reflexivity.
Qed.

(* ------------------------------------------------------------------ the walk of one sample *)
Section Walk.
  Variable h : N -> N -> N.
  Variable T : list (N * N * N).          (* the triples whose node id is computed *)

  (* node ids determine the parent on T (implied by injectivity of node_id on T) *)
  Definition parent_determined : Prop :=
    forall p f d p' f' d', In (p, f, d) T -> In (p', f', d') T ->
      node_id h p f d = node_id h p' f' d' -> p = p'.

  Hypothesis Hinj : parent_determined.

  (* every stored node was created from a triple of T *)
  Definition Coh (t : tree) : Prop :=
    forall n, In n t -> exists d, In (n_parent n, n_fn n, d) T /\ n_id n = node_id h (n_parent n) (n_fn n) d.

  Lemma bump_coh t p f d leaf vs zero :
    In (p, f, d) T -> Coh t -> Coh (bump t p f (node_id h p f d) leaf vs zero).
  Proof.
    intros HT. induction t as [|n r IH]; intros Hc m Hm; cbn [bump] in Hm.
    - destruct Hm as [<-|[]]. exists d. cbn. split; [exact HT|reflexivity].
    - destruct (N.eqb (n_id n) (node_id h p f d)).
      + destruct Hm as [<-|Hm]; [cbn; apply (Hc n); left; reflexivity|apply Hc; right; exact Hm].
      + destruct Hm as [<-|Hm]; [apply Hc; left; reflexivity|].
        apply IH; [intros x Hx; apply Hc; right; exact Hx|exact Hm].
  Qed.

  Lemma coh_parent t p f d : In (p, f, d) T -> Coh t ->
    forall n, In n t -> n_id n = node_id h p f d -> n_parent n = p.
  Proof.
    intros HT Hc n Hn Hid. destruct (Hc n Hn) as [d' [HT' Hid']].
    apply (Hinj (n_parent n) (n_fn n) d' p f d HT' HT). congruence.
  Qed.

  Variable k nt : nat.
  Hypothesis Hk : (k < nt)%nat.

  (* balance with an excess function: total = self + children's totals + excess, on every id but 0 *)
  Definition Bal (t : tree) (e : N -> Z) : Prop :=
    forall x, x <> 0%N -> eqm (tot_at k t x) (self_at k t x + child_tot k t x + e x).

  Definition Inv (t : tree) : Prop :=
    WF nt t /\ Coh t /\ InRange t /\ NoDup (map n_id t) /\ (forall n, In n t -> n_id n <> 0%N).

  Lemma bump_inv t p f d leaf vs : In (p, f, d) T -> (1 <= d)%N -> Inv t ->
    Inv (bump t p f (node_id h p f d) leaf vs (zero_vals nt)).
  Proof.
    intros HT Hd (Hwf & Hc & Hr & Hnd & Hnz). split; [|split; [|split; [|split]]].
    - apply bump_wf. exact Hwf.
    - apply bump_coh; assumption.
    - apply bump_in_range. exact Hr.
    - apply bump_nodup. exact Hnd.
    - apply bump_nonzero; [apply node_id_nonzero; exact Hd|exact Hnz].
  Qed.

  Lemma walk_spec : forall rest t p d vs, let v := nth k vs 0 in
    Inv t -> incl (walk_triples h p d rest) T -> (1 <= d)%N -> rest <> [] ->
    Bal t (fun x => if N.eqb p x then v else 0) ->
    let t' := walk h t p d rest vs (zero_vals nt) in
    Inv t' /\ Bal t' (fun _ => 0) /\
    eqm (child_tot k t' 0%N) (child_tot k t 0%N + if N.eqb p 0 then v else 0).
  Proof.
    induction rest as [|f rest IH]; intros t p d vs v Hinv Hincl Hd Hne Hbal; [congruence|].
    cbn [walk walk_triples] in *.
    set (i := node_id h p f d) in *.
    assert (HT : In (p, f, d) T) by (apply Hincl; left; reflexivity).
    assert (Hincl' : incl (walk_triples h i (d + 1) rest) T) by (intros y Hy; apply Hincl; right; exact Hy).
    assert (Hi : i <> 0%N) by (apply node_id_nonzero; exact Hd).
    destruct Hinv as (Hwf & Hc & Hr & Hnd & Hnz).
    pose proof (coh_parent t p f d HT Hc) as Hpar. fold i in Hpar.
    set (t1 := bump t p f i (is_nil rest) vs (zero_vals nt)).
    assert (Hinv1 : Inv t1) by (apply bump_inv; [exact HT|exact Hd|unfold Inv; tauto]).
    assert (Htot : forall x, eqm (tot_at k t1 x) (tot_at k t x + if N.eqb i x then v else 0))
      by (intros x; apply bump_tot; assumption).
    assert (Hself : forall x, eqm (self_at k t1 x) (self_at k t x + if N.eqb i x then (if is_nil rest then v else 0) else 0))
      by (intros x; apply bump_self; assumption).
    assert (Hch : forall x, eqm (child_tot k t1 x) (child_tot k t x + if N.eqb p x then v else 0))
      by (intros x; apply bump_child; assumption).
    destruct rest as [|g rest'].
    - (* the leaf *)
      cbn [walk is_nil] in *. fold t1. split; [exact Hinv1|]. split; [|apply Hch].
      intros x Hx. rewrite Htot, Hself, Hch, (Hbal x Hx). apply eqm_of_eq.
      destruct (N.eqb i x), (N.eqb p x); lia.
    - cbn [is_nil] in Hself.
      assert (Hbal1 : Bal t1 (fun x => if N.eqb i x then v else 0)).
      { intros x Hx. rewrite Htot, Hself, Hch, (Hbal x Hx). apply eqm_of_eq.
        destruct (N.eqb i x), (N.eqb p x); lia. }
      destruct (IH t1 i (d + 1)%N vs Hinv1 Hincl' ltac:(lia) ltac:(discriminate) Hbal1) as (Hinv' & Hbal' & Hroot').
      split; [exact Hinv'|]. split; [exact Hbal'|].
      rewrite Hroot', Hch. apply N.eqb_neq in Hi. rewrite Hi. apply eqm_of_eq. lia.
  Qed.
End Walk.

(* ------------------------------------------------------------------ all samples *)
Lemma is_nil_rev {A} (l : list A) : is_nil (rev l) = is_nil l.
Proof. destruct l as [|a l]; [reflexivity|]. cbn [rev is_nil]. destruct (rev l); reflexivity. Qed.

Lemma weight_cons k s ss :
  weight k (s :: ss) = (if is_nil (s_stack s) then 0 else nth k (s_values s) 0) + weight k ss.
Proof. reflexivity. Qed.

Section Fold.
  Variable h : N -> N -> N.
  Variable T : list (N * N * N).
  Hypothesis Hinj : parent_determined h T.
  Variable k nt : nat.
  Hypothesis Hk : (k < nt)%nat.

  Lemma fold_spec : forall ss t,
    Inv h T nt t -> Bal k t (fun _ => 0) -> incl (triples h ss) T ->
    let t' := fold_left (add_sample h (zero_vals nt)) ss t in
    Inv h T nt t' /\ Bal k t' (fun _ => 0) /\ eqm (child_tot k t' 0%N) (child_tot k t 0%N + weight k ss).
  Proof.
    induction ss as [|s ss IH]; intros t Hinv Hbal Hincl; cbn [fold_left].
    - split; [exact Hinv|]. split; [exact Hbal|]. apply eqm_of_eq. unfold weight. cbn. lia.
    - unfold triples in Hincl. cbn [flat_map] in Hincl. fold (triples h ss) in Hincl.
      assert (Hincl1 : incl (walk_triples h 0 1 (rev (s_stack s))) T)
        by (intros y Hy; apply Hincl; apply in_or_app; left; exact Hy).
      assert (Hincl2 : incl (triples h ss) T)
        by (intros y Hy; apply Hincl; apply in_or_app; right; exact Hy).
      rewrite weight_cons.
      assert (Hadd : add_sample h (zero_vals nt) t s = walk h t 0 1 (rev (s_stack s)) (s_values s) (zero_vals nt))
        by reflexivity.
      rewrite Hadd. clear Hadd.
      destruct (rev (s_stack s)) as [|f rest] eqn:Erev.
      + (* no frame: the tree is unchanged and the sample's weight reaches no node *)
        cbn [walk]. assert (E : is_nil (s_stack s) = true) by (rewrite <- is_nil_rev, Erev; reflexivity).
        rewrite E. destruct (IH t Hinv Hbal Hincl2) as (H1 & H2 & H3).
        split; [exact H1|]. split; [exact H2|]. rewrite H3. apply eqm_of_eq. lia.
      + assert (E : is_nil (s_stack s) = false) by (rewrite <- is_nil_rev, Erev; reflexivity).
        rewrite E.
        assert (Hbal0 : Bal k t (fun x => if N.eqb 0 x then nth k (s_values s) 0 else 0)).
        { intros x Hx. rewrite (Hbal x Hx). apply eqm_of_eq.
          destruct (N.eqb 0 x) eqn:E0; [apply N.eqb_eq in E0; congruence|lia]. }
        destruct (walk_spec h T Hinj k nt Hk (f :: rest) t 0%N 1%N (s_values s) Hinv Hincl1 ltac:(lia) ltac:(discriminate) Hbal0)
          as (Hinv1 & Hbal1 & Hroot1).
        destruct (IH _ Hinv1 Hbal1 Hincl2) as (H1 & H2 & H3).
        split; [exact H1|]. split; [exact H2|]. rewrite H3, Hroot1. cbn [N.eqb]. apply eqm_of_eq. lia.
  Qed.
End Fold.

Lemma gsum_notin sel comp k t x : ~ In x (map sel t) -> gsum sel comp k t x = 0.
Proof.
  induction t as [|n r IH]; intros H; [reflexivity|].
  rewrite gsum_cons. cbn [map In] in H.
  destruct (N.eqb (sel n) x) eqn:E; [apply N.eqb_eq in E; tauto|]. rewrite IH by tauto. lia.
Qed.

Lemma gsum_nodup comp k t n : NoDup (map n_id t) -> In n t -> gsum n_id comp k t (n_id n) = comp (val_at k n).
Proof.
  induction t as [|m r IH]; intros Hnd Hin; [contradiction|].
  cbn [map] in Hnd. inversion Hnd as [|x l Hnotin Hnd']; subst.
  rewrite gsum_cons. destruct Hin as [->|Hin].
  - rewrite N.eqb_refl. rewrite gsum_notin by exact Hnotin. lia.
  - destruct (N.eqb (n_id m) (n_id n)) eqn:E.
    + apply N.eqb_eq in E. exfalso. apply Hnotin. rewrite E. apply in_map. exact Hin.
    + rewrite IH by assumption. lia.
Qed.

Lemma val_at_in_range k t n : InRange t -> In n t ->
  (- two63 <= fst (val_at k n) < two63) /\ (- two63 <= snd (val_at k n) < two63).
Proof.
  intros Hr Hn. unfold val_at. destruct (nth_in_or_default k (n_vals n) (0, 0)) as [H|H].
  - destruct (nth k (n_vals n) (0, 0)) as [s tt] eqn:E. cbn [fst snd]. exact (Hr n s tt Hn H).
  - rewrite H. cbn. unfold two63. lia.
Qed.

Lemma bal_nil k : Bal k [] (fun _ => 0).
Proof. intros x _. apply eqm_of_eq. reflexivity. Qed.

Lemma inv_nil h T nt : Inv h T nt [].
Proof.
  split; [intros n []|]. split; [intros n []|]. split; [intros n s tt []|]. split; [constructor|intros n []].
Qed.

(* The stored rows of one profile, sample type k: distinct non-zero ids, every node's total is its
   self value plus the totals of the rows that name it as parent, and the rows under the root (parent 0)
   add up to the weight of the samples that have a frame -- all modulo 2^64, as int64 += computes. *)
Theorem post_process_conserves h nt ss k :
  (k < nt)%nat -> parent_determined h (triples h ss) ->
  let t := post_process h nt ss in
  NoDup (map n_id t) /\
  (forall n, In n t -> n_id n <> 0%N /\ length (n_vals n) = nt) /\
  (forall n, In n t -> snd (val_at k n) = wrap64 (fst (val_at k n) + child_tot k t (n_id n))) /\
  wrap64 (child_tot k t 0%N) = wrap64 (weight k ss).
Proof.
  intros Hk Hinj t.
  destruct (fold_spec h (triples h ss) Hinj k nt Hk ss [] (inv_nil _ _ _) (bal_nil k) (incl_refl _))
    as ((Hwf & Hc & Hr & Hnd & Hnz) & Hbal & Hroot).
  fold (post_process h nt ss) in Hwf, Hc, Hr, Hnd, Hnz, Hbal, Hroot. fold t in Hwf, Hc, Hr, Hnd, Hnz, Hbal, Hroot.
  split; [exact Hnd|]. split; [intros n Hn; split; [apply Hnz; exact Hn|apply Hwf; exact Hn]|]. split.
  - intros n Hn. apply in_range_eqm; [apply (val_at_in_range k t n Hr Hn)|].
    pose proof (Hbal (n_id n) (Hnz n Hn)) as H.
    rewrite tot_at_gsum, self_at_gsum in H. rewrite !gsum_nodup in H by assumption.
    rewrite H. apply eqm_of_eq. lia.
  - apply eqm_wrap64. rewrite Hroot. apply eqm_of_eq. reflexivity.
Qed.

(* the same, through the boolean oracles that the check runs on observed rows *)
Lemma ids_distinct_nodup l : NoDup l -> ids_distinct l = true.
Proof.
  induction 1 as [|x l Hnotin Hnd IH]; [reflexivity|]. cbn [ids_distinct]. rewrite IH, andb_true_r.
  apply negb_true_iff. apply not_true_is_false. intros H. apply existsb_exists in H.
  destruct H as [y [Hy E]]. apply N.eqb_eq in E. subst. contradiction.
Qed.

Lemma walk_wf h nt : forall rest t p d vs, WF nt t -> WF nt (walk h t p d rest vs (zero_vals nt)).
Proof.
  induction rest as [|f rest IH]; intros t p d vs Hwf; [exact Hwf|]. cbn [walk]. apply IH. apply bump_wf. exact Hwf.
Qed.

(* the self values add up to the weight, for every hash *)
Lemma self_sum_gsum k t : self_sum k t = gsum (fun _ => 0%N) fst k t 0%N.
Proof. reflexivity. Qed.

Lemma bump_self_sum k nt t p f i leaf vs : (k < nt)%nat -> WF nt t ->
  eqm (self_sum k (bump t p f i leaf vs (zero_vals nt))) (self_sum k t + if leaf then nth k vs 0 else 0).
Proof.
  intros Hk Hwf. rewrite !self_sum_gsum.
  rewrite (bump_gsum (fun _ => 0%N) fst (fun _ _ => eq_refl) comp_fst eq_refl k nt p f i leaf vs 0%N 0%N Hk eq_refl t Hwf).
  - reflexivity.
  - intros n _ _. reflexivity.
Qed.

Lemma walk_self_sum h k nt : (k < nt)%nat -> forall rest t p d vs, WF nt t ->
  eqm (self_sum k (walk h t p d rest vs (zero_vals nt))) (self_sum k t + if is_nil rest then 0 else nth k vs 0).
Proof.
  intros Hk. induction rest as [|f rest IH]; intros t p d vs Hwf; cbn [walk is_nil].
  - apply eqm_of_eq. lia.
  - rewrite IH by (apply bump_wf; exact Hwf). rewrite bump_self_sum by assumption.
    apply eqm_of_eq. destruct rest; cbn [is_nil]; lia.
Qed.

Theorem self_sum_is_weight h nt ss k : (k < nt)%nat -> eqm (self_sum k (post_process h nt ss)) (weight k ss).
Proof.
  intros Hk. unfold post_process.
  assert (G : forall ss t, WF nt t ->
    eqm (self_sum k (fold_left (add_sample h (zero_vals nt)) ss t)) (self_sum k t + weight k ss)).
  { clear ss. induction ss as [|s ss IH]; intros t Hwf; cbn [fold_left].
    - apply eqm_of_eq. unfold weight. cbn. lia.
    - rewrite IH by (apply walk_wf; exact Hwf). unfold add_sample at 1. rewrite walk_self_sum by assumption.
      rewrite weight_cons, is_nil_rev. apply eqm_of_eq. lia. }
  rewrite (G ss [] (fun n (H : In n []) => match H with end)). apply eqm_of_eq. unfold self_sum. cbn. lia.
Qed.

Theorem post_process_passes_oracle h nt ss k :
  (k < nt)%nat -> parent_determined h (triples h ss) ->
  rows_wellformed nt (post_process h nt ss) = true /\ rows_conserve k (post_process h nt ss) ss = true.
Proof.
  intros Hk Hinj. destruct (post_process_conserves h nt ss k Hk Hinj) as (Hnd & Hwf & Hcons & Hroot).
  split.
  - unfold rows_wellformed. rewrite (ids_distinct_nodup _ Hnd). cbn [andb].
    apply forallb_forall. intros n Hn. destruct (Hwf n Hn) as [H1 H2].
    apply andb_true_iff. split; [apply negb_true_iff; apply N.eqb_neq; exact H1|apply Nat.eqb_eq; exact H2].
  - unfold rows_conserve. apply andb_true_iff. split; [apply andb_true_iff; split|].
    + apply forallb_forall. intros n Hn. unfold node_conserves. apply Z.eqb_eq. apply Hcons. exact Hn.
    + apply Z.eqb_eq. exact Hroot.
    + apply Z.eqb_eq. apply eqm_wrap64. apply self_sum_is_weight. exact Hk.
Qed.

(* ------------------------------------------------------------------ the hypothesis
   injectivity of node_id on the occurring (parent, function, clamped depth) triples implies it *)
Definition node_id_injective_on (h : N -> N -> N) (T : list (N * N * N)) : Prop :=
  forall p f d p' f' d', In (p, f, d) T -> In (p', f', d') T ->
    node_id h p f d = node_id h p' f' d' -> p = p' /\ f = f' /\ N.min d depth_clamp = N.min d' depth_clamp.

Lemma injective_parent_determined h T : node_id_injective_on h T -> parent_determined h T.
Proof. intros H p f d p' f' d' H1 H2 E. exact (proj1 (H p f d p' f' d' H1 H2 E)). Qed.

(* decidable form, to exhibit profiles that satisfy the hypothesis under the real hash *)
Definition parent_determined_b (h : N -> N -> N) (T : list (N * N * N)) : bool :=
  forallb (fun a => forallb (fun b =>
    let '(p, f, d) := a in let '(p', f', d') := b in
    implb (N.eqb (node_id h p f d) (node_id h p' f' d')) (N.eqb p p')) T) T.

Lemma parent_determined_b_sound h T : parent_determined_b h T = true -> parent_determined h T.
Proof.
  intros H p f d p' f' d' H1 H2 E. unfold parent_determined_b in H.
  rewrite forallb_forall in H. specialize (H _ H1). rewrite forallb_forall in H. specialize (H _ H2).
  cbn in H. rewrite E, N.eqb_refl in H. cbn in H. apply N.eqb_eq. exact H.
Qed.

(* ------------------------------------------------------------------ the root sum against ALL samples
   (the statement of C16 says "the sum of the profile's sample values") *)
Lemma weight_full k ss : (forall s, In s ss -> s_stack s <> []) -> weight k ss = full_weight k ss.
Proof.
  induction ss as [|s ss IH]; intros H; [reflexivity|].
  unfold weight, full_weight in *. cbn [map sumZ fold_right].
  destruct (s_stack s) eqn:E; [exfalso; apply (H s (or_introl eq_refl)); exact E|].
  cbn [is_nil]. f_equal. apply IH. intros x Hx. apply H. right. exact Hx.
Qed.

(* ------------------------------------------------------------------ what one request emits *)
Lemma emitted_once {A} (over : bool) (pd : A) : emitted over pd = [pd].
Proof. destruct over; reflexivity. Qed.

(* ------------------------------------------------------------------ the 64-bit helpers *)
Lemma m64_mod x : m64 x = (x mod two64N)%N.
Proof. unfold m64, ones64, two64N. change 18446744073709551615%N with (N.ones 64). apply N.land_ones. Qed.

(* ------------------------------------------------------------------ statements used by props/C16.v *)
Lemma tree_conserves_injective_proof (h : N -> N -> N) (nt : nat) (ss : list sample) (k : nat) :
  (k < nt)%nat -> node_id_injective_on h (triples h ss) ->
  rows_wellformed nt (post_process h nt ss) = true /\ rows_conserve k (post_process h nt ss) ss = true.
Proof.
  intros Hk Hinj. apply post_process_passes_oracle; [exact Hk|].
  apply injective_parent_determined. exact Hinj.
Qed.

(* a non-trivial profile: two sample types, recursion (7 7 7), shared prefixes *)
Definition ex_profile : list sample :=
  [ {| s_stack := [7; 7; 3]%N; s_values := [5; 1] |};
    {| s_stack := [7; 3]%N;    s_values := [2; 1] |};
    {| s_stack := [9; 7; 7; 3]%N; s_values := [4; 1] |};
    {| s_stack := [3; 9]%N;    s_values := [1; 1] |} ].

Lemma ex_profile_hypotheses : parent_determined city16 (triples city16 ex_profile) /\
  length (post_process city16 2 ex_profile) = 6%nat /\ (forall s, In s ex_profile -> s_stack s <> []).
Proof.
  split; [apply parent_determined_b_sound; vm_compute; reflexivity|]. split; [vm_compute; reflexivity|].
  intros s H. cbn in H. repeat (destruct H as [<-|H]; [discriminate|]). contradiction.
Qed.

(* normalized samples: every stack has a frame, the values are untouched *)
Lemma normalize_nonempty na ss s : In s (normalize na ss) -> s_stack s <> [].
Proof.
  unfold normalize. intros H. apply in_map_iff in H. destruct H as (s0 & <- & _). cbn [s_stack].
  unfold eff_stack. destruct (s_stack s0); discriminate.
Qed.

Lemma full_weight_normalize k na ss : full_weight k (normalize na ss) = full_weight k ss.
Proof. unfold full_weight, normalize. rewrite map_map. reflexivity. Qed.

Lemma weight_normalize k na ss : weight k (normalize na ss) = full_weight k ss.
Proof. rewrite (weight_full k _ (normalize_nonempty na ss)). apply full_weight_normalize. Qed.

(* the stored tree of a profile (samples without locations kept as one n/a frame): everything above, with the
   root sum against ALL samples *)
Theorem stored_tree_conserves h na nt ss k :
  (k < nt)%nat -> parent_determined h (triples h (normalize na ss)) ->
  let t := stored_tree h na nt ss in
  NoDup (map n_id t) /\
  (forall n, In n t -> n_id n <> 0%N /\ length (n_vals n) = nt) /\
  (forall n, In n t -> snd (val_at k n) = wrap64 (fst (val_at k n) + child_tot k t (n_id n))) /\
  wrap64 (child_tot k t 0%N) = wrap64 (full_weight k ss).
Proof.
  intros Hk Hinj. unfold stored_tree. rewrite <- (weight_normalize k na ss).
  exact (post_process_conserves h nt (normalize na ss) k Hk Hinj).
Qed.

(* balance of the stored rows in the additive form used for merging (no node-by-node reading) *)
Lemma post_process_balanced h nt ss k :
  (k < nt)%nat -> parent_determined h (triples h ss) ->
  let t := post_process h nt ss in
  (forall x, x <> 0%N -> eqm (tot_at k t x) (self_at k t x + child_tot k t x)) /\
  eqm (child_tot k t 0%N) (weight k ss).
Proof.
  intros Hk Hinj t.
  destruct (fold_spec h (triples h ss) Hinj k nt Hk ss [] (inv_nil _ _ _) (bal_nil k) (incl_refl _))
    as (_ & Hbal & Hroot).
  subst t. unfold post_process. split.
  - intros x Hx. rewrite (Hbal x Hx). apply eqm_of_eq. lia.
  - rewrite Hroot. apply eqm_of_eq. reflexivity.
Qed.

(* ------------------------------------------------------------------ what the stored numbers mean
   (no hypothesis on the hash): the total of id x is the sum over the samples of value * number of the
   sample's frames whose node id is x; the self value counts the sample's leaf frame only *)
Definition triple_id (h : N -> N -> N) (x : N * N * N) : N := let '(p, f, d) := x in node_id h p f d.
Definition walk_ids (h : N -> N -> N) (p d : N) (rest : list N) : list N := map (triple_id h) (walk_triples h p d rest).
Definition sample_ids (h : N -> N -> N) (s : sample) : list N := walk_ids h 0 1 (rev (s_stack s)).
Definition cnt (x : N) (l : list N) : Z := sumZ (map (fun y => if N.eqb y x then 1 else 0) l).
Definition leaf_cnt (x : N) (l : list N) : Z :=
  match l with [] => 0 | _ => if N.eqb (last l 0%N) x then 1 else 0 end.

Lemma walk_ids_cons h p d f rest :
  walk_ids h p d (f :: rest) = node_id h p f d :: walk_ids h (node_id h p f d) (d + 1) rest.
Proof. reflexivity. Qed.

Lemma cnt_cons x y l : cnt x (y :: l) = (if N.eqb y x then 1 else 0) + cnt x l.
Proof. reflexivity. Qed.


Lemma walk_meaning h k nt : (k < nt)%nat -> forall rest t p d vs x, WF nt t ->
  let t' := walk h t p d rest vs (zero_vals nt) in
  eqm (tot_at k t' x) (tot_at k t x + nth k vs 0 * cnt x (walk_ids h p d rest)) /\
  eqm (self_at k t' x) (self_at k t x + nth k vs 0 * leaf_cnt x (walk_ids h p d rest)).
Proof.
  intros Hk. induction rest as [|f rest IH]; intros t p d vs x Hwf.
  - cbn [walk]. split; apply eqm_of_eq; unfold cnt, leaf_cnt, walk_ids; cbn; lia.
  - cbn [walk]. rewrite walk_ids_cons. set (i := node_id h p f d).
    set (t1 := bump t p f i (is_nil rest) vs (zero_vals nt)).
    assert (Hwf1 : WF nt t1) by (apply bump_wf; exact Hwf).
    destruct (IH t1 i (d + 1)%N vs x Hwf1) as [H1 H2]. cbn zeta in H1, H2.
    split.
    + rewrite H1. unfold t1. rewrite bump_tot by assumption. rewrite cnt_cons. apply eqm_of_eq.
      destruct (N.eqb i x); lia.
    + rewrite H2. unfold t1. rewrite bump_self by assumption. apply eqm_of_eq.
      destruct rest as [|g rest'].
      * cbn [is_nil walk_ids walk_triples map leaf_cnt last]. destruct (N.eqb i x); lia.
      * cbn [is_nil]. rewrite walk_ids_cons. unfold leaf_cnt.
        change (last (i :: node_id h i g (d + 1) :: walk_ids h (node_id h i g (d + 1)) (d + 1 + 1) rest') 0%N)
          with (last (node_id h i g (d + 1) :: walk_ids h (node_id h i g (d + 1)) (d + 1 + 1) rest') 0%N).
        destruct (N.eqb i x); lia.
Qed.

Theorem stored_values_meaning h nt ss k x : (k < nt)%nat ->
  let t := post_process h nt ss in
  eqm (tot_at k t x) (sumZ (map (fun s => nth k (s_values s) 0 * cnt x (sample_ids h s)) ss)) /\
  eqm (self_at k t x) (sumZ (map (fun s => nth k (s_values s) 0 * leaf_cnt x (sample_ids h s)) ss)).
Proof.
  intros Hk. unfold post_process.
  assert (G : forall ss t, WF nt t ->
    let t' := fold_left (add_sample h (zero_vals nt)) ss t in
    WF nt t' /\
    eqm (tot_at k t' x) (tot_at k t x + sumZ (map (fun s => nth k (s_values s) 0 * cnt x (sample_ids h s)) ss)) /\
    eqm (self_at k t' x) (self_at k t x + sumZ (map (fun s => nth k (s_values s) 0 * leaf_cnt x (sample_ids h s)) ss))).
  { clear ss. induction ss as [|s ss IH]; intros t Hwf; cbn [fold_left map sumZ fold_right].
    - split; [exact Hwf|]. split; apply eqm_of_eq; lia.
    - assert (Hwf1 : WF nt (add_sample h (zero_vals nt) t s)) by (apply walk_wf; exact Hwf).
      destruct (IH _ Hwf1) as (H0 & H1 & H2). cbn zeta in H1, H2.
      destruct (walk_meaning h k nt Hk (rev (s_stack s)) t 0%N 1%N (s_values s) x Hwf) as [W1 W2]. cbn zeta in W1, W2.
      split; [exact H0|]. unfold sumZ in *. split.
      + rewrite H1. unfold add_sample at 1. rewrite W1. apply eqm_of_eq. unfold sample_ids. lia.
      + rewrite H2. unfold add_sample at 1. rewrite W2. apply eqm_of_eq. unfold sample_ids. lia. }
  destruct (G ss [] (fun n (H : In n []) => match H with end)) as (_ & H1 & H2). cbn zeta in H1, H2.
  split; [rewrite H1|rewrite H2]; apply eqm_of_eq; unfold tot_at, self_at; cbn; lia.
Qed.

Lemma walk_nodup_range h : forall rest t p d vs zero, NoDup (map n_id t) /\ InRange t ->
  NoDup (map n_id (walk h t p d rest vs zero)) /\ InRange (walk h t p d rest vs zero).
Proof.
  induction rest as [|f rest IH]; intros t p d vs zero [H1 H2]; [split; assumption|]. cbn [walk].
  apply IH. split; [apply bump_nodup; exact H1|apply bump_in_range; exact H2].
Qed.

Lemma post_process_nodup_range h nt ss :
  NoDup (map n_id (post_process h nt ss)) /\ InRange (post_process h nt ss).
Proof.
  unfold post_process.
  assert (G : forall ss t, NoDup (map n_id t) /\ InRange t ->
    NoDup (map n_id (fold_left (add_sample h (zero_vals nt)) ss t)) /\ InRange (fold_left (add_sample h (zero_vals nt)) ss t)).
  { clear ss. induction ss as [|s ss IH]; intros t H; [exact H|]. cbn [fold_left]. apply IH. apply walk_nodup_range. exact H. }
  apply G. split; [constructor|intros n s tt []].
Qed.

(* node by node, for every hash: the stored (self, total) of a row are those sums modulo 2^64 *)
Theorem stored_node_meaning h nt ss k n : (k < nt)%nat -> In n (post_process h nt ss) ->
  snd (val_at k n) = wrap64 (sumZ (map (fun s => nth k (s_values s) 0 * cnt (n_id n) (sample_ids h s)) ss)) /\
  fst (val_at k n) = wrap64 (sumZ (map (fun s => nth k (s_values s) 0 * leaf_cnt (n_id n) (sample_ids h s)) ss)).
Proof.
  intros Hk Hn. destruct (post_process_nodup_range h nt ss) as [Hnd Hr].
  destruct (stored_values_meaning h nt ss k (n_id n) Hk) as [H1 H2]. cbn zeta in H1, H2.
  rewrite tot_at_gsum in H1. rewrite self_at_gsum in H2. rewrite gsum_nodup in H1, H2 by assumption.
  destruct (val_at_in_range k _ n Hr Hn) as [R1 R2].
  split; apply in_range_eqm; assumption.
Qed.

(* every block handed to the client for one request, first attempt or retry, is exactly the request's row *)
Lemma push_with_retry_blocks {A} (fails : nat) (pd : A) :
  length (push_with_retry fails pd) = S fails /\ Forall (eq [pd]) (push_with_retry fails pd).
Proof.
  induction fails as [|f [IH1 IH2]]; cbn; [split; [reflexivity|repeat constructor]|].
  split; [f_equal; exact IH1|constructor; [reflexivity|exact IH2]].
Qed.

(* ------------------------------------------------------------------ non-negative samples give non-negative, exact stored values *)
Lemma cnt_bounds x l : 0 <= cnt x l <= Z.of_nat (length l).
Proof.
  induction l as [|y l IH]; [unfold cnt; cbn; lia|]. rewrite cnt_cons. cbn [length].
  destruct (N.eqb y x); lia.
Qed.

Lemma leaf_cnt_le_cnt x l : 0 <= leaf_cnt x l <= cnt x l.
Proof.
  induction l as [|y l IH]; [unfold leaf_cnt, cnt; cbn; lia|].
  rewrite cnt_cons. destruct l as [|z l'].
  - unfold leaf_cnt, cnt. cbn. destruct (N.eqb y x); lia.
  - assert (E : leaf_cnt x (y :: z :: l') = leaf_cnt x (z :: l')) by reflexivity.
    rewrite E. destruct (N.eqb y x); lia.
Qed.

Lemma sample_ids_length h s : length (sample_ids h s) = length (s_stack s).
Proof.
  unfold sample_ids, walk_ids. rewrite map_length, <- (rev_length (s_stack s)).
  generalize (rev (s_stack s)) 0%N 1%N. induction l as [|f l IH]; intros p d; [reflexivity|].
  cbn [walk_triples length]. rewrite IH. reflexivity.
Qed.

Lemma sum_le_pointwise {A} (f g : A -> Z) l : (forall a, In a l -> 0 <= f a <= g a) ->
  0 <= sumZ (map f l) <= sumZ (map g l).
Proof.
  induction l as [|a l IH]; intros H; [cbn; lia|]. cbn [map sumZ fold_right].
  fold (sumZ (map f l)). fold (sumZ (map g l)).
  specialize (IH (fun x Hx => H x (or_intror Hx))). specialize (H a (or_introl eq_refl)). lia.
Qed.

(* no sample value negative, and the values times the stack depths fit int64: every stored self and total is
   non-negative, self <= total, and both are the exact (unwrapped) sums *)
Theorem stored_values_nonneg h nt ss k n : (k < nt)%nat ->
  (forall s, In s ss -> 0 <= nth k (s_values s) 0) ->
  sumZ (map (fun s => nth k (s_values s) 0 * Z.of_nat (length (s_stack s))) ss) < two63 ->
  In n (post_process h nt ss) ->
  0 <= fst (val_at k n) <= snd (val_at k n) /\
  snd (val_at k n) = sumZ (map (fun s => nth k (s_values s) 0 * cnt (n_id n) (sample_ids h s)) ss) /\
  fst (val_at k n) = sumZ (map (fun s => nth k (s_values s) 0 * leaf_cnt (n_id n) (sample_ids h s)) ss).
Proof.
  intros Hk Hnn Hlt Hn. destruct (stored_node_meaning h nt ss k n Hk Hn) as [Ht Hs].
  set (T := sumZ (map (fun s => nth k (s_values s) 0 * cnt (n_id n) (sample_ids h s)) ss)) in *.
  set (S := sumZ (map (fun s => nth k (s_values s) 0 * leaf_cnt (n_id n) (sample_ids h s)) ss)) in *.
  assert (H1 : 0 <= S <= T).
  { apply sum_le_pointwise. intros s Hs'. specialize (Hnn s Hs').
    pose proof (leaf_cnt_le_cnt (n_id n) (sample_ids h s)). nia. }
  assert (H2 : 0 <= T <= sumZ (map (fun s => nth k (s_values s) 0 * Z.of_nat (length (s_stack s))) ss)).
  { apply sum_le_pointwise. intros s Hs'. specialize (Hnn s Hs').
    pose proof (cnt_bounds (n_id n) (sample_ids h s)) as Hc. rewrite sample_ids_length in Hc. nia. }
  rewrite wrap64_small in Ht by (unfold two63 in *; lia).
  rewrite wrap64_small in Hs by (unfold two63 in *; lia).
  rewrite Ht, Hs. split; [lia|split; reflexivity].
Qed.

(* ------------------------------------------------------------------ the level field of a node id *)
Definition level_of (x : N) : N := N.shiftr x depth_shift.

Lemma m64_shiftr64 x : N.shiftr (m64 x) 64 = 0%N.
Proof.
  rewrite m64_mod. apply N.shiftr_eq_0_iff.
  destruct (N.eq_dec (x mod two64N) 0) as [E|E]; [left; exact E|right].
  assert (Hpos : (0 < x mod two64N)%N) by (apply N.neq_0_lt_0; exact E).
  split; [exact Hpos|]. apply N.log2_lt_pow2; [exact Hpos|]. change (2 ^ 64)%N with two64N. apply N.mod_lt. discriminate.
Qed.

Lemma node_level h p f d : level_of (node_id h p f d) = N.min d depth_clamp.
Proof.
  unfold level_of, node_id. rewrite N.shiftr_lor, N.shiftr_shiftr.
  change (hash_shift + depth_shift)%N with 64%N. rewrite m64_shiftr64, N.lor_0_l.
  rewrite N.shiftr_shiftl_l by reflexivity. rewrite N.sub_diag. apply N.shiftl_0_r.
Qed.

(* ------------------------------------------------------------------ the root sum needs no hypothesis on the hash
   A frame of level 1 has parent 0 and every other frame a non-zero parent; the level is part of the node id, so a
   collision never moves weight between the root's children and the deeper nodes. *)
Definition is_root (n : node) : N := if N.eqb (n_parent n) 0 then 0%N else 1%N.

Lemma child_tot_root k t : child_tot k t 0%N = gsum is_root snd k t 0%N.
Proof.
  unfold child_tot, gsum. f_equal. apply map_ext. intros n. unfold is_root.
  destruct (N.eqb (n_parent n) 0); reflexivity.
Qed.

Definition RootInv (t : tree) : Prop := forall n, In n t -> (n_parent n = 0%N <-> level_of (n_id n) = 1%N).

Lemma bump_in t p f i leaf vs zero m : In m (bump t p f i leaf vs zero) ->
  (exists n, In n t /\ n_parent m = n_parent n /\ n_id m = n_id n) \/ (n_parent m = p /\ n_id m = i).
Proof.
  induction t as [|n r IH]; cbn [bump]; intros Hm.
  - destruct Hm as [<-|[]]. right. split; reflexivity.
  - destruct (N.eqb (n_id n) i).
    + destruct Hm as [Hm|Hm].
      * subst m. left. exists n. split; [left; reflexivity|split; reflexivity].
      * left. exists m. split; [right; exact Hm|split; reflexivity].
    + destruct Hm as [Hm|Hm].
      * subst m. left. exists n. split; [left; reflexivity|split; reflexivity].
      * destruct (IH Hm) as [[n' [Hn' Heq]]|Hnew]; [left; exists n'; split; [right; exact Hn'|exact Heq]|right; exact Hnew].
Qed.

Lemma bump_root k nt t p f i leaf vs : (k < nt)%nat -> WF nt t ->
  (forall n, In n t -> n_id n = i -> (n_parent n = 0%N <-> p = 0%N)) ->
  eqm (child_tot k (bump t p f i leaf vs (zero_vals nt)) 0%N) (child_tot k t 0%N + if N.eqb p 0 then nth k vs 0 else 0).
Proof.
  intros Hk Hwf Hpar. rewrite !child_tot_root.
  rewrite (bump_gsum is_root snd (fun _ _ => eq_refl) comp_snd eq_refl k nt p f i leaf vs
             (if N.eqb p 0 then 0%N else 1%N) 0%N Hk eq_refl t Hwf).
  - destruct (N.eqb p 0); reflexivity.
  - intros n Hn Hid. unfold is_root. pose proof (Hpar n Hn Hid) as [H1 H2].
    destruct (N.eqb (n_parent n) 0) eqn:E1, (N.eqb p 0) eqn:E2; try reflexivity.
    + apply N.eqb_eq in E1. apply N.eqb_neq in E2. tauto.
    + apply N.eqb_neq in E1. apply N.eqb_eq in E2. tauto.
Qed.

Lemma walk_root h k nt : (k < nt)%nat -> forall rest t p d vs,
  WF nt t -> RootInv t -> (1 <= d)%N -> (p = 0%N <-> d = 1%N) ->
  let t' := walk h t p d rest vs (zero_vals nt) in
  WF nt t' /\ RootInv t' /\
  eqm (child_tot k t' 0%N) (child_tot k t 0%N + if is_nil rest then 0 else if N.eqb p 0 then nth k vs 0 else 0).
Proof.
  intros Hk. induction rest as [|f rest IH]; intros t p d vs Hwf Hri Hd Hpd; cbn [walk is_nil].
  - split; [exact Hwf|]. split; [exact Hri|]. apply eqm_of_eq. lia.
  - set (i := node_id h p f d).
    assert (Hlvl : level_of i = 1%N <-> p = 0%N).
    { unfold i. rewrite node_level. unfold depth_clamp. split; intros H; [apply Hpd; lia|apply Hpd in H; lia]. }
    set (t1 := bump t p f i (is_nil rest) vs (zero_vals nt)).
    assert (Hwf1 : WF nt t1) by (apply bump_wf; exact Hwf).
    assert (Hri1 : RootInv t1).
    { intros m Hm. destruct (bump_in _ _ _ _ _ _ _ _ Hm) as [[n [Hn [Hp Hi]]]|[Hp Hi]].
      - rewrite Hp, Hi. apply Hri. exact Hn.
      - rewrite Hp, Hi. split; intros H; apply Hlvl; exact H. }
    assert (Hch : eqm (child_tot k t1 0%N) (child_tot k t 0%N + if N.eqb p 0 then nth k vs 0 else 0)).
    { apply bump_root; [exact Hk|exact Hwf|]. intros n Hn Hid. rewrite (Hri n Hn), Hid. exact Hlvl. }
    assert (Hi : i <> 0%N) by (apply node_id_nonzero; exact Hd).
    destruct (IH t1 i (d + 1)%N vs Hwf1 Hri1 ltac:(lia) ltac:(split; intros H; [contradiction|lia])) as (H1 & H2 & H3).
    split; [exact H1|]. split; [exact H2|]. rewrite H3, Hch.
    apply N.eqb_neq in Hi. rewrite Hi. apply eqm_of_eq. destruct (is_nil rest); lia.
Qed.

Lemma fold_root h k nt : (k < nt)%nat -> forall ss t, WF nt t -> RootInv t ->
  let t' := fold_left (add_sample h (zero_vals nt)) ss t in
  WF nt t' /\ RootInv t' /\ eqm (child_tot k t' 0%N) (child_tot k t 0%N + weight k ss).
Proof.
  intros Hk. induction ss as [|s ss IH]; intros t Hwf Hri; cbn [fold_left].
  - split; [exact Hwf|]. split; [exact Hri|]. apply eqm_of_eq. unfold weight. cbn. lia.
  - destruct (walk_root h k nt Hk (rev (s_stack s)) t 0%N 1%N (s_values s) Hwf Hri ltac:(lia) ltac:(tauto)) as (H1 & H2 & H3).
    fold (add_sample h (zero_vals nt) t s) in H1, H2, H3.
    destruct (IH _ H1 H2) as (G1 & G2 & G3).
    split; [exact G1|]. split; [exact G2|]. rewrite G3, H3, weight_cons, is_nil_rev. cbn [N.eqb].
    apply eqm_of_eq. lia.
Qed.

(* for EVERY hash: the rows under the root add up to the sum of all sample values of the profile *)
Theorem root_sum_any_hash h na nt ss k : (k < nt)%nat ->
  wrap64 (child_tot k (stored_tree h na nt ss) 0%N) = wrap64 (full_weight k ss).
Proof.
  intros Hk. apply eqm_wrap64. unfold stored_tree, post_process.
  destruct (fold_root h k nt Hk (normalize na ss) [] ltac:(intros n []) ltac:(intros n [])) as (_ & _ & H).
  rewrite H, weight_normalize. apply eqm_of_eq. reflexivity.
Qed.

(* ------------------------------------------------------------------ no truncation: every frame of every stack is stored
   (any depth, in particular beyond the 511 levels the id can carry: the level field stops counting, the walk does not) *)
Lemma deep_levels_clamped h p f d : (depth_clamp <= d)%N -> node_id h p f d = node_id h p f depth_clamp.
Proof. intros H. unfold node_id. rewrite N.min_r by exact H. rewrite N.min_id. reflexivity. Qed.

Lemma bump_keeps t p f i leaf vs zero y : In y (map n_id t) \/ y = i -> In y (map n_id (bump t p f i leaf vs zero)).
Proof.
  induction t as [|n r IH]; cbn [bump map]; intros H.
  - destruct H as [H|H]; [destruct H|]. subst y. left. reflexivity.
  - destruct (N.eqb (n_id n) i) eqn:E; cbn [map n_id In].
    + destruct H as [H|H]; [exact H|]. subst y. left. apply N.eqb_eq. exact E.
    + destruct H as [[H|H]|H]; [left; exact H|right; apply IH; left; exact H|right; apply IH; right; exact H].
Qed.

Lemma walk_keeps h : forall rest t p d vs zero y,
  In y (map n_id t) \/ In y (walk_ids h p d rest) -> In y (map n_id (walk h t p d rest vs zero)).
Proof.
  induction rest as [|f rest IH]; intros t p d vs zero y H; cbn [walk].
  - destruct H as [H|[]]. exact H.
  - rewrite walk_ids_cons in H. apply IH. destruct H as [H|[H|H]].
    + left. apply bump_keeps. left. exact H.
    + left. apply bump_keeps. right. symmetry. exact H.
    + right. exact H.
Qed.

Theorem every_frame_stored h nt ss s y : In s ss -> In y (sample_ids h s) -> In y (map n_id (post_process h nt ss)).
Proof.
  unfold post_process.
  assert (G : forall ss t, In y (map n_id t) \/ (exists s, In s ss /\ In y (sample_ids h s)) ->
              In y (map n_id (fold_left (add_sample h (zero_vals nt)) ss t))).
  { clear ss s. induction ss as [|s ss IH]; intros t H; cbn [fold_left].
    - destruct H as [H|[s [Hs _]]]; [exact H|destruct Hs].
    - apply IH. destruct H as [H|[s' [[Hs|Hs] Hy]]]; [| subst s' |].
      + left. apply walk_keeps. left. exact H.
      + left. apply walk_keeps. right. exact Hy.
      + right. exists s'. split; assumption. }
  intros Hs Hy. apply G. right. exists s. split; assumption.
Qed.

Lemma node_level_and_clamp h p f d :
  level_of (node_id h p f d) = N.min d depth_clamp /\
  ((depth_clamp <= d)%N -> node_id h p f d = node_id h p f depth_clamp).
Proof. split; [apply node_level|apply deep_levels_clamped]. Qed.

(* ------------------------------------------------------------------ a collision under the REAL hash
   Found by harness/cmd/profcollide (birthday search over the 55 hash bits of a node id, 2 s):
     getNodeId(id of root frame main.p71,  CH64("main.f42920d41cc6b47"), 2)
   = getNodeId(id of root frame main.p247, CH64("main.f56bc77c3d4dbf7"), 2) = 81366766593810709.
   The function ids below are city.CH64 of the names (computed by the harness with the library; the corpus case
   node-id-collision-in-profile replays the same profile on the real code every run). *)
Definition coll_p71 : N := 8243112280997805828%N.
Definition coll_f1 : N := 12902996278266635461%N.
Definition coll_p247 : N := 5810773922514262291%N.
Definition coll_f2 : N := 10126166849050088630%N.
Definition collision_profile : list sample :=
  [ {| s_stack := [coll_f1; coll_p71]; s_values := [3] |};
    {| s_stack := [coll_f2; coll_p247]; s_values := [5] |} ].

Lemma collision_profile_breaks :
  ~ parent_determined city16 (triples city16 collision_profile) /\
  let t := post_process city16 1 collision_profile in
  length t = 3%nat /\
  exists n, In n t /\ snd (val_at 0 n) <> wrap64 (fst (val_at 0 n) + child_tot 0 t (n_id n)).
Proof.
  split.
  - intros H.
    assert (E : node_id city16 0 coll_p71 1 = node_id city16 0 coll_p247 1).
    { apply (H _ coll_f1 2%N _ coll_f2 2%N).
      - vm_compute. right. left. reflexivity.
      - vm_compute. right. right. right. left. reflexivity.
      - vm_compute. reflexivity. }
    vm_compute in E. discriminate E.
  - split; [vm_compute; reflexivity|].
    exists {| n_parent := 0; n_fn := coll_p247; n_id := node_id city16 0 coll_p247 1; n_vals := [(0, 5)] |}.
    split; [vm_compute; tauto|]. vm_compute. discriminate.
Qed.

(* two different functions under the same parent with one node id (second witness of profcollide): the stored tree
   conserves, but both frames are one row, labelled with the function met first *)
Definition coll_p0 : N := 9382333564074302159%N.
Definition coll_g1 : N := 15941560428817510104%N.
Definition coll_g2 : N := 7720991600543203911%N.
Definition same_parent_collision_profile : list sample :=
  [ {| s_stack := [coll_g1; coll_p0]; s_values := [3] |};
    {| s_stack := [coll_g2; coll_p0]; s_values := [5] |} ].
Lemma same_parent_collision_merges :
  parent_determined city16 (triples city16 same_parent_collision_profile) /\
  map (fun n => (n_fn n, n_vals n)) (post_process city16 1 same_parent_collision_profile) =
  [ (coll_p0, [(0, 8)]); (coll_g1, [(8, 8)]) ].
Proof.
  split; [apply parent_determined_b_sound; vm_compute; reflexivity|vm_compute; reflexivity].
Qed.
