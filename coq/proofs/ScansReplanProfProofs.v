(* C13 for the Pyroscope planners (model/ReplanProf.v, C14's transcription of every planner of reader/prof/transpiler):
   for EVERY planner object (any nesting the constructors allow, not only the seven plans transpiler.go builds), every
   selector list, type id, group-by / label list, step and context, every base-table read of the result of
   pprocess - the select, the other members of a UNION ALL, the members kept under a WITH alias - is bounded by the
   window of the context: reads of profiles carry timestamp_ns >= From and < To or <= To, reads of profiles_series /
   profiles_series_gin carry date >= FormatFromDate(From) and date <= day(To).
   Technique: "everything except the own scan is fine" (pre_good) is preserved by every builder method; the own scan of
   a base-table select is computed once, when its window conjuncts are added (base_good); conjuncts added later are
   neutral (the matcher clauses) and keep the verdict (own_and_where_neutral). *)
From Coq Require Import List ZArith NArith String Ascii Bool Lia.
From Qryn Require Import lib.Strs lib.CivilDate model.Sql model.SqlRender model.Logql model.LogqlPlan model.PromSel model.ProfSel
  model.ReplanProf model.Scans model.ScansProf proofs.ScansProofs proofs.ScansPlanProofs proofs.ScansTqProofs proofs.ScansPromProofs proofs.ScansProfProofs.
Import ListNotations.
Open Scope list_scope.

Ltac flds := cbn [s_distinct s_cols s_from s_where s_prewhere s_having s_groupby s_orderby s_limit s_offset s_withs
                  s_joins s_settings s_unions set_distinct set_cols set_from set_where set_prewhere set_having
                  set_groupby set_orderby set_limit set_offset set_withs set_joins set_unions empty_select].

Lemma classify_same sc sc' e :
  sc_table sc' = sc_table sc -> sc_alias sc' = sc_alias sc -> sc_tsn sc' = sc_tsn sc -> classify sc' e = classify sc e.
Proof. intros Ht Ha Hn. unfold classify, col_is, qualifier_ok. rewrite Ht, Ha, Hn. reflexivity. Qed.

Section PLAIN.
  Variable info : string -> tinfo.
  Variable W : window.
  Notation B := (scan_bounded info W).
  Notation good := (good B).
  Notation egood := (egood B).
  Notation ogood := (ogood B).

  (* everything of a select except its own scan *)
  Record pre_good (s : select) : Prop := {
    pg_withs : Forall (goodw B) (s_withs s);
    pg_joins : Forall (fun j => Forall B (join_scan j)) (s_joins s);
    pg_exprs : eparts B s;
    pg_unions : Forall good (s_unions s)
  }.
  Lemma good_split s : good s <-> pre_good s /\ Forall B (own_scan s).
  Proof.
    rewrite good_parts. split.
    - intros [A B0 C D E]. split; [constructor; try assumption; apply exprs_parts; assumption | assumption].
    - intros [[A C D E] B0]. constructor; try assumption. apply exprs_parts; assumption.
  Qed.

  Lemma pre_empty : pre_good empty_select.
  Proof. constructor; flds; try constructor; flds; cbn [ScansPlanProofs.ogood]; try constructor. Qed.
  Lemma pre_set_cols cols s : pre_good s -> Forall egood cols -> pre_good (set_cols cols s).
  Proof. intros [A C [e1 e2 e3 e4 e5 e6 e7 e8 e9 e10] E] H. constructor; flds; try assumption. constructor; flds; assumption. Qed.
  Lemma pre_set_distinct b s : pre_good s -> pre_good (set_distinct b s).
  Proof. intros [A C [e1 e2 e3 e4 e5 e6 e7 e8 e9 e10] E]. constructor; flds; try assumption. constructor; flds; assumption. Qed.
  Lemma pre_set_from f s : pre_good s -> egood f -> pre_good (set_from f s).
  Proof. intros [A C [e1 e2 e3 e4 e5 e6 e7 e8 e9 e10] E] H. constructor; flds; try assumption. constructor; flds; assumption. Qed.
  Lemma pre_set_groupby l s : pre_good s -> Forall egood l -> pre_good (set_groupby l s).
  Proof. intros [A C [e1 e2 e3 e4 e5 e6 e7 e8 e9 e10] E] H. constructor; flds; try assumption. constructor; flds; assumption. Qed.
  Lemma pre_set_orderby l s : pre_good s -> Forall egood l -> pre_good (set_orderby l s).
  Proof. intros [A C [e1 e2 e3 e4 e5 e6 e7 e8 e9 e10] E] H. constructor; flds; try assumption. constructor; flds; assumption. Qed.
  Lemma pre_set_limit l s : pre_good s -> ogood l -> pre_good (set_limit l s).
  Proof. intros [A C [e1 e2 e3 e4 e5 e6 e7 e8 e9 e10] E] H. constructor; flds; try assumption. constructor; flds; assumption. Qed.
  Lemma pre_set_withs ws s : pre_good s -> Forall (goodw B) ws -> pre_good (set_withs ws s).
  Proof. intros [A C [e1 e2 e3 e4 e5 e6 e7 e8 e9 e10] E] H. constructor; flds; try assumption. constructor; flds; assumption. Qed.
  Lemma pre_set_joins js s :
    pre_good s -> Forall (fun j => Forall B (join_scan j)) js -> Forall (fun j => egood (snd (fst j)) /\ ogood (snd j)) js ->
    pre_good (set_joins js s).
  Proof. intros [A C [e1 e2 e3 e4 e5 e6 e7 e8 e9 e10] E] H1 H2. constructor; flds; try assumption. constructor; flds; assumption. Qed.
  Lemma pre_with ws s : pre_good s -> Forall (goodw B) ws -> pre_good (with_ ws s).
  Proof.
    intros H Hws. unfold with_, add_withs. apply pre_set_withs; [apply pre_set_withs; [exact H | constructor]|].
    flds. apply hoist_good; [exact Hws | constructor].
  Qed.
  Lemma ogood_and_into' o cl : ogood o -> Forall egood cl -> ogood (and_into o cl).
  Proof.
    intros Ho Hcl. destruct o as [x|]; cbn [and_into ScansPlanProofs.ogood] in *.
    - assert (Hgen : egood (And (x :: cl))).
      { unfold ScansPlanProofs.egood, And. cbn [escans flat_map]. apply Forall_app. split; [exact Ho|]. apply Forall_flat_map. exact Hcl. }
      destruct x; try exact Hgen. destruct fn; try exact Hgen.
      change (Forall B (flat_map escans (cl0 ++ cl))). change (Forall B (flat_map escans cl0)) in Ho.
      rewrite flat_map_app. apply Forall_app. split; [exact Ho|]. apply Forall_flat_map. exact Hcl.
    - unfold ScansPlanProofs.egood, And. cbn [escans]. apply Forall_flat_map. exact Hcl.
  Qed.
  Lemma pre_and_where cl s : pre_good s -> Forall egood cl -> pre_good (and_where cl s).
  Proof.
    intros [A C [e1 e2 e3 e4 e5 e6 e7 e8 e9 e10] E] H. unfold and_where. constructor; flds; try assumption.
    constructor; flds; try assumption. apply ogood_and_into'; assumption.
  Qed.

  (* the own scan of a select whose window conjuncts are added to a bare FROM <base table> *)
  Lemma base_good cl s1 f t a :
    s_from s1 = Some f -> base_table f = Some (t, a) -> s_where s1 = None -> s_prewhere s1 = None ->
    pre_good s1 -> Forall egood cl ->
    B {| sc_table := t; sc_alias := a; sc_tsn := ts_names (s_cols s1); sc_conj := flat_map conjs cl |} ->
    good (and_where cl s1).
  Proof.
    intros Hf Hb Hw Hp Hpre Hcl Hsc. apply good_split. split; [apply pre_and_where; assumption|].
    unfold own_scan, and_where. flds. rewrite Hf, Hb, Hw, Hp. cbn [and_into oconjs app]. unfold And. rewrite conjs_and.
    constructor; [exact Hsc | constructor].
  Qed.

  Lemma base_good' cl L s1 f t a :
    s_from s1 = Some f -> base_table f = Some (t, a) -> s_where s1 = None -> s_prewhere s1 = None ->
    pre_good s1 -> Forall egood cl -> flat_map conjs cl = L ->
    B {| sc_table := t; sc_alias := a; sc_tsn := ts_names (s_cols s1); sc_conj := L |} ->
    good (and_where cl s1).
  Proof. intros Hf Hb Hw Hp Hpre Hcl <- Hsc. eapply base_good; eassumption. Qed.

  (* conjuncts that say nothing about the window, added later, keep the verdict *)
  Lemma own_and_where_neutral cl s : Forall neutral (flat_map conjs cl) -> Forall B (own_scan s) -> Forall B (own_scan (and_where cl s)).
  Proof.
    intros Hn H. unfold own_scan in *. unfold and_where. flds.
    destruct (s_from s) as [f|]; [|constructor]. destruct (base_table f) as [[t a]|]; [|constructor].
    inversion H as [|sc l HB _]; subst. constructor; [|constructor].
    match goal with |- scan_bounded _ _ ?X => set (sc' := X) end.
    match type of HB with scan_bounded _ _ ?X => set (sc0 := X) in * end.
    assert (Hc : forall e, classify sc' e = classify sc0 e) by (intros e; apply classify_same; reflexivity).
    apply (scan_bounded_ext info W sc0 sc'); [reflexivity | | exact HB].
    intros b. unfold has_bnd. rewrite Forall_forall in Hn. split.
    - intros [e [He Hb]]. rewrite Hc in Hb. unfold sc' in He. cbn [sc_conj] in He. rewrite in_app_iff, oconjs_and_into_in in He.
      destruct He as [He|[He|He]].
      + exists e. split; [unfold sc0; cbn [sc_conj]; apply in_app_iff; left; exact He | exact Hb].
      + exists e. split; [unfold sc0; cbn [sc_conj]; apply in_app_iff; right; exact He | exact Hb].
      + rewrite (Hn e He) in Hb. destruct Hb.
    - intros [e [He Hb]]. exists e. split.
      + unfold sc'. cbn [sc_conj]. rewrite in_app_iff, oconjs_and_into_in. unfold sc0 in He. cbn [sc_conj] in He. apply in_app_iff in He. tauto.
      + rewrite Hc. exact Hb.
  Qed.
  Lemma good_and_where_neutral cl s : good s -> Forall neutral (flat_map conjs cl) -> Forall egood cl -> good (and_where cl s).
  Proof.
    intros H Hn Hcl. apply good_split in H. destruct H as [Hp Ho]. apply good_split. split;
      [apply pre_and_where; assumption | apply own_and_where_neutral; assumption].
  Qed.
  Lemma good_set_groupby' l s : good s -> Forall egood l -> good (set_groupby l s).
  Proof. intros H Hl. apply good_split in H. destruct H as [Hp Ho]. apply good_split. split; [apply pre_set_groupby; assumption | exact Ho]. Qed.
  Lemma good_set_orderby' l s : good s -> Forall egood l -> good (set_orderby l s).
  Proof. intros H Hl. apply good_split in H. destruct H as [Hp Ho]. apply good_split. split; [apply pre_set_orderby; assumption | exact Ho]. Qed.
  Lemma good_set_limit' l s : good s -> ogood l -> good (set_limit l s).
  Proof. intros H Hl. apply good_split in H. destruct H as [Hp Ho]. apply good_split. split; [apply pre_set_limit; assumption | exact Ho]. Qed.
  Lemma good_set_withs' ws s : good s -> Forall (goodw B) ws -> good (set_withs ws s).
  Proof. intros H Hl. apply good_split in H. destruct H as [Hp Ho]. apply good_split. split; [apply pre_set_withs; assumption | exact Ho]. Qed.
  Lemma good_with' ws s : good s -> Forall (goodw B) ws -> good (with_ ws s).
  Proof. intros H Hl. apply good_split in H. destruct H as [Hp Ho]. apply good_split. split; [apply pre_with; assumption | exact Ho]. Qed.
  (* a select that reads another select has no scan of its own *)
  Lemma good_noown s : pre_good s -> own_scan s = [] -> good s.
  Proof. intros Hp Ho. apply good_split. split; [exact Hp | rewrite Ho; constructor]. Qed.

  Lemma enil e : escans e = [] -> egood e.
  Proof. intros H. unfold ScansPlanProofs.egood. rewrite H. constructor. Qed.
  Lemma enils l : flat_map escans l = [] -> Forall egood l.
  Proof.
    induction l as [|x r IH]; intros H; [constructor|]. cbn [flat_map] in H. apply app_eq_nil in H. destruct H as [H1 H2].
    constructor; [apply enil, H1 | apply IH, H2].
  Qed.
  Lemma ewref a q : good q -> egood (WRef a q).
  Proof. intros H. exact H. Qed.
  Lemma ein_wref x a q : good q -> egood (In (Id x) [WRef a q]).
  Proof. intros H. unfold ScansPlanProofs.egood. cbn [escans flat_map app]. rewrite app_nil_r. exact H. Qed.
End PLAIN.

(* ------------------------------------------------------------------ the matcher clauses of a selector list *)
Lemma plain_conjs g : Forall plain g -> flat_map conjs g = g.
Proof. induction 1 as [|e r [_ [_ Hc]] _ IH]; cbn [flat_map]; [reflexivity | rewrite Hc, IH; reflexivity]. Qed.
Lemma plain_neutral g : Forall plain g -> Forall neutral g.
Proof. intros H. eapply Forall_impl; [|exact H]. intros e [He _]. exact He. Qed.
Lemma plain_escans g : Forall plain g -> flat_map escans g = [].
Proof. induction 1 as [|e r [_ [He _]] _ IH]; cbn [flat_map]; [reflexivity | rewrite He, IH; reflexivity]. Qed.
Lemma plain_classify sc g : Forall plain g -> flat_map (classify sc) g = [].
Proof. induction 1 as [|e r [He _] _ IH]; cbn [flat_map]; [reflexivity | rewrite (He sc), IH; reflexivity]. Qed.
Lemma sel_globals_plain sels : Forall plain (fst (get_matchers sels)).
Proof. destruct (get_matchers sels) as [g kv] eqn:E. exact (proj1 (get_matchers_facts _ _ _ E)). Qed.

Lemma neutral_in_pfp r : neutral (In (Id "p.fingerprint") r).
Proof. intros sc. unfold classify, col_is. cbn. reflexivity. Qed.

(* ------------------------------------------------------------------ an induction principle for the planner objects *)
Section PIND.
  Variable P : pplanner -> Prop.
  Hypothesis Hsel : forall sels, P (PPSelector sels).
  Hypothesis Hunion : forall mains, Forall P mains -> P (PPUnionAll mains).
  Hypothesis Hnames : forall fp, match fp with Some f => P f | None => True end -> P (PPLabelNames fp).
  Hypothesis Hvalues : forall fp l, match fp with Some f => P f | None => True end -> P (PPLabelValues fp l).
  Hypothesis Hraw : forall fp sels a b, P fp -> P (PPMergeRaw fp sels a b).
  Hypothesis Hjoined : forall m, P m -> P (PPMergeJoined m).
  Hypothesis Hagg : forall m, P m -> P (PPMergeAggregated m).
  Hypothesis Hlabels : forall fp gb sels, P fp -> P (PPGetLabels fp gb sels).
  Hypothesis Hseries : forall l sels a b avg step, P l -> P (PPSelectSeries l sels a b avg step).
  Hypothesis Hprofiles : forall fp sels, P fp -> P (PPMergeProfiles fp sels).
  Hypothesis Hall : P PPAllTimeSeries.
  Hypothesis Hts : forall fp sels a, P fp -> P (PPTimeSeries fp sels a).
  Hypothesis Hdistinct : forall m, P m -> P (PPDistinct m).
  Hypothesis Hfilter : forall m l, P m -> P (PPFilterLabels m l).
  Hypothesis Hsize : forall m, P m -> P (PPProfileSize m).
  Fixpoint pplanner_ind2 (p : pplanner) : P p :=
    match p with
    | PPSelector sels => Hsel sels
    | PPUnionAll mains =>
      Hunion mains ((fix go (l : list pplanner) : Forall P l :=
                       match l with [] => Forall_nil P | x :: r => Forall_cons x (pplanner_ind2 x) (go r) end) mains)
    | PPLabelNames fp => Hnames fp (match fp with Some f => pplanner_ind2 f | None => I end)
    | PPLabelValues fp l => Hvalues fp l (match fp with Some f => pplanner_ind2 f | None => I end)
    | PPMergeRaw fp sels a b => Hraw fp sels a b (pplanner_ind2 fp)
    | PPMergeJoined m => Hjoined m (pplanner_ind2 m)
    | PPMergeAggregated m => Hagg m (pplanner_ind2 m)
    | PPGetLabels fp gb sels => Hlabels fp gb sels (pplanner_ind2 fp)
    | PPSelectSeries l sels a b avg step => Hseries l sels a b avg step (pplanner_ind2 l)
    | PPMergeProfiles fp sels => Hprofiles fp sels (pplanner_ind2 fp)
    | PPAllTimeSeries => Hall
    | PPTimeSeries fp sels a => Hts fp sels a (pplanner_ind2 fp)
    | PPDistinct m => Hdistinct m (pplanner_ind2 m)
    | PPFilterLabels m l => Hfilter m l (pplanner_ind2 m)
    | PPProfileSize m => Hsize m (pplanner_ind2 m)
    end.
End PIND.

(* ------------------------------------------------------------------ the context *)
Record prof_tables (info : string -> tinfo) (c : prctx) : Prop := {
  prt_gin : info (pt_series_gin c) = idx_untyped;
  prt_gin_dist : info (pt_series_gin_dist c) = idx_untyped;
  prt_series : info (pt_series c) = idx_untyped;
  prt_series_dist : info (pt_series_dist c) = idx_untyped;
  prt_profiles : info (pt_profiles_dist c) = data_untyped
}.

Section PROF.
  Variable info : string -> tinfo.
  Variable c : prctx.
  Hypothesis Htab : prof_tables info c.
  Let W := prctx_win c.
  Notation B := (scan_bounded info W).
  Notation good := (good B).
  Notation egood := (egood B).
  Notation pre_good := (pre_good info W).

  Definition rgood (r : presult) : Prop := good (ps_sel r) /\ Forall good (rest_selects r).

  Lemma rest_mk_under q a f : rest_selects (mk q (under a f)) = rest_selects f.
  Proof.
    unfold rest_selects, mk, under. cbn [ps_rest ps_unions app]. rewrite flat_map_app.
    destruct (ps_rest f); cbn [flat_map fst snd app]; [rewrite app_nil_r|]; reflexivity.
  Qed.
  Lemma rest_mk_nil q : rest_selects (mk q []) = [].
  Proof. reflexivity. Qed.
  Lemma rest_mk q u : rest_selects (mk q u) = flat_map (fun x => snd x) u.
  Proof. reflexivity. Qed.

  Lemma rgood_mk q a f : good q -> rgood f -> rgood (mk q (under a f)).
  Proof. intros Hq [_ Hr]. split; [exact Hq | rewrite rest_mk_under; exact Hr]. Qed.

  (* the date range of an index read *)
  Lemma dates_ok sc pre post :
    info (sc_table sc) = idx_untyped ->
    flat_map (classify sc) pre = [] -> flat_map (classify sc) post = [] ->
    sc_conj sc = pre ++ date_window c ++ post -> B sc.
  Proof.
    intros Hi Hpre Hpost Hc. eapply idx_bounded_dates; [exact Hi | | |].
    - unfold bounds. rewrite Hc, !flat_map_app, Hpre, Hpost, app_nil_r. cbn [app]. unfold date_window, Ge, Le. cbn [flat_map].
      unfold classify, col_is. cbn [split_path after_last_dot String.eqb Ascii.eqb Bool.eqb existsb orb andb]. reflexivity.
    - unfold W, prctx_win. cbn [w_from]. apply from_day_close.
    - unfold W, prctx_win. cbn [w_to]. unfold day_of_ns, ns_per_day. apply Z.div_le_mono; lia.
  Qed.
  Lemma date_window_conjs : flat_map conjs (date_window c) = date_window c.
  Proof. reflexivity. Qed.
  Lemma date_window_egood : Forall egood (date_window c).
  Proof. unfold date_window. repeat constructor. Qed.

  (* timestamp conjuncts on profiles *)
  Lemma ts_ok sc lo hi post :
    info (sc_table sc) = data_untyped -> bounds sc = [TsLo lo; TsHi hi] ++ post -> post = [] ->
    (lo = pr_from_ns c)%Z -> (hi = pr_to_ns c \/ hi = pr_to_ns c + 1)%Z -> B sc.
  Proof.
    intros Hi Hb -> -> Hhi. rewrite app_nil_r in Hb. eapply data_bounded; [exact Hi | exact Hb | |]; unfold W, prctx_win; cbn [w_from w_to w_lo_min w_hi_max]; lia.
  Qed.

  Lemma selector_indexed_good sels : good (prof_selector (pt_series_gin c) (pr_from_ns c) (pr_to_ns c) sels).
  Proof.
    pose proof (prof_selector_scans_bounded info (pt_series_gin c) (pr_from_ns c) (pr_to_ns c) sels (prt_gin _ _ Htab)) as H. exact H.
  Qed.
  (* StreamSelectorPlanner.Process since the absent-label fix: the indexed selectors as before, plus one exclusion
     `fingerprint IN (<selector of the inverse matcher>) == 0` per selector that accepts a missing label: every sub-select is
     the same bounded read of profiles_series_gin, for every oracle of the regular expressions *)
  Lemma selector_good re_full sels : good (prof_selector_abs re_full (pt_series_gin c) (pr_from_ns c) (pr_to_ns c) sels).
  Proof.
    unfold prof_selector_abs. generalize (prof_absent_sels re_full sels). intros abs.
    generalize (selector_indexed_good (prof_indexed_sels re_full sels)). generalize (prof_selector (pt_series_gin c) (pr_from_ns c) (pr_to_ns c) (prof_indexed_sels re_full sels)).
    induction abs as [|x r IH]; intros q Hq; [exact Hq|]. cbn [fold_left]. apply IH.
    apply good_and_where_neutral; [exact Hq | |].
    - cbn [flat_map]. unfold prof_not_rejected, Eq. rewrite conjs_other by (intros l H; discriminate). cbn [app].
      constructor; [|constructor]. apply neutral_b_sound. reflexivity.
    - constructor; [|constructor]. unfold prof_not_rejected, Eq, ScansPlanProofs.egood. cbn [escans flat_map app]. rewrite !app_nil_r.
      apply selector_indexed_good.
  Qed.

  (* GenericLabelsPlanner *)
  Lemma generic_labels_good col fp : match fp with Some f => rgood f | None => True end -> rgood (generic_labels c col fp).
  Proof.
    intros Hfp. unfold generic_labels.
    assert (Hbase : good (set_limit (Some (IntV 10000))
                     (and_where (date_window c) (set_from (Id (pt_series_gin_dist c)) (set_cols [Id col] (set_distinct true empty_select)))))).
    { apply good_set_limit'; [|apply enil; reflexivity].
      eapply base_good; try reflexivity.
      - apply pre_set_from; [|apply enil; reflexivity]. apply pre_set_cols; [|repeat constructor].
        apply pre_set_distinct, pre_empty.
      - apply date_window_egood.
      - apply (dates_ok _ [] []); [apply Htab | reflexivity | reflexivity | rewrite app_nil_r; reflexivity]. }
    destruct fp as [f|].
    - destruct Hfp as [Hf Hr]. apply rgood_mk; [|split; assumption].
      apply good_and_where_neutral; [| cbn [flat_map conjs app]; constructor; [apply neutral_in_fp3 | constructor]
                                    | constructor; [apply ein_wref, Hf | constructor]].
      apply good_with'; [exact Hbase | constructor; [exact Hf | constructor]].
    - split; [|constructor]. cbn [mk ps_sel]. exact Hbase.
  Qed.

  Lemma rgood_same_unions q r : ps_rest r = None -> good q -> rgood r -> rgood (mk q (ps_unions r)).
  Proof. intros Hn Hq [_ Hr]. split; [exact Hq|]. unfold rest_selects in *. rewrite Hn in Hr. exact Hr. Qed.

  Lemma limit_desc_good q : good q -> good (limit_desc c q).
  Proof.
    intros H. unfold limit_desc. destruct (Z.eqb (pr_limit c) 0); [exact H|].
    apply good_set_limit'; [|apply enil; reflexivity]. apply good_set_orderby'; [exact H | repeat constructor].
  Qed.
  Lemma and_where_if_good g q : Forall plain g -> good q -> good (and_where_if g q).
  Proof.
    intros Hg H. unfold and_where_if. destruct g as [|x r]; [exact H|].
    apply good_and_where_neutral; [exact H | rewrite (plain_conjs _ Hg); apply plain_neutral, Hg | apply enils, plain_escans, Hg].
  Qed.
  Lemma withs_of_good q : good q -> Forall (goodw B) (s_withs q).
  Proof. intros H. apply good_split in H. destruct H as [[A _ _ _] _]. exact A. Qed.
  Lemma find_with_good a q w : good q -> find_with a q = Some w -> good (snd w).
  Proof.
    intros H E. unfold find_with in E. apply find_some in E. destruct E as [E _].
    pose proof (withs_of_good q H) as Hw. rewrite Forall_forall in Hw. exact (Hw w E).
  Qed.

  (* a select over another select (FROM a WithRef): nothing of its own *)
  Lemma ref_good f s0 : base_table f = None -> egood f -> pre_good s0 -> good (set_from f s0).
  Proof.
    intros Hb Hf Hp. apply good_noown; [apply pre_set_from; assumption|]. unfold own_scan. flds. rewrite Hb. reflexivity.
  Qed.
  Lemma nofrom_good s0 : s_from s0 = None -> pre_good s0 -> good s0.
  Proof. intros Hf Hp. apply good_noown; [exact Hp|]. unfold own_scan. rewrite Hf. reflexivity. Qed.
  Lemma pre_with1 a q : good q -> pre_good (with_ [(a, q)] empty_select).
  Proof. intros H. apply pre_with; [apply pre_empty | constructor; [exact H | constructor]]. Qed.
  Lemma brackets_egood q : good q -> egood (brackets q).
  Proof. intros H. unfold brackets, ScansPlanProofs.egood. cbn [escans flat_map app]. rewrite app_nil_r. exact H. Qed.

  Lemma tags_filter_nil gb src : escans (tags_filter gb src) = [].
  Proof. unfold tags_filter, in_strs. cbn [escans flat_map app]. rewrite strvs_noselect. reflexivity. Qed.
  Lemma value_col_nil a b avg : escans (value_col a b avg) = [].
  Proof. unfold value_col. destruct avg; reflexivity. Qed.

  Theorem pprocess_good : forall p r, pprocess p c = Some r -> rgood r.
  Proof.
    induction p using pplanner_ind2; intros r.
    - (* PPSelector *) intros [= <-]. split; [apply selector_good | constructor].
    - (* PPUnionAll *)
      cbn [pprocess].
      match goal with |- match ?X with _ => _ end = _ -> _ => destruct X as [l|] eqn:E end; [|discriminate].
      assert (Hl : Forall good l).
      { revert l E. induction H as [|x rest Hx Hrest IH]; intros l E; [injection E as <-; constructor|].
        destruct (pprocess x c) as [rx|] eqn:Ex; [|discriminate].
        match type of E with match ?Y with _ => _ end = _ => destruct Y as [qs|] eqn:Eq end; [|discriminate].
        destruct (ps_rest rx); [discriminate|]. injection E as <-.
        constructor; [apply (proj1 (Hx rx eq_refl)) | apply (IH qs eq_refl)]. }
      destruct l as [|q qs]; [discriminate|]. intros [= <-]. inversion Hl as [|? ? Hq Hqs]; subst.
      split; [|unfold rest_selects; cbn [ps_rest ps_unions flat_map]; rewrite app_nil_r; exact Hqs].
      cbn [ps_sel]. apply good_set_withs'; [exact Hq|]. apply Forall_app. split; [apply withs_of_good, Hq|].
      apply Forall_flat_map. eapply Forall_impl; [|exact Hqs]. intros m Hm. apply withs_of_good, Hm.
    - (* PPLabelNames *)
      cbn [pprocess]. destruct fp as [f|].
      + destruct (pprocess f c) as [rf|] eqn:Ef; cbn [bindr]; [|discriminate]. intros [= <-].
        exact (generic_labels_good "key"%string (Some rf) (H rf eq_refl)).
      + intros [= <-]. exact (generic_labels_good "key"%string None I).
    - (* PPLabelValues *)
      cbn [pprocess].
      assert (Hfin : forall fp', match fp' with Some f => rgood f | None => True end ->
                rgood (mk (and_where [Eq (Id "key") (StrV l)] (ps_sel (generic_labels c "val" fp'))) (ps_unions (generic_labels c "val" fp')))).
      { intros fp' Hfp. pose proof (generic_labels_good "val"%string fp' Hfp) as Hg.
        apply rgood_same_unions; [destruct fp'; reflexivity | | exact Hg].
        apply good_and_where_neutral; [apply Hg | cbn [flat_map conjs app]; constructor; [apply neutral_key_eq | constructor]
                                      | constructor; [apply enil; reflexivity | constructor]]. }
      destruct fp as [f|].
      + destruct (pprocess f c) as [rf|] eqn:Ef; cbn [bindr]; [|discriminate]. intros [= <-]. apply (Hfin (Some rf)). exact (H rf eq_refl).
      + intros [= <-]. apply (Hfin None). exact I.
    - (* PPMergeRaw *)
      cbn [pprocess]. destruct (pprocess p c) as [f|] eqn:Ef; cbn [bindr]; [|discriminate]. intros [= <-].
      destruct (IHp f eq_refl) as [Hf Hr]. apply rgood_mk; [|split; assumption].
      pose proof (sel_globals_plain sels) as Hg.
      apply limit_desc_good.
      eapply (base_good' _ _ _ (Ge (Id "timestamp_ns") (IntV (pr_from_ns c)) :: Lt (Id "timestamp_ns") (IntV (pr_to_ns c))
                               :: In (Id "fingerprint") [WRef "fp" (ps_sel f)] :: fst (get_matchers sels))); try reflexivity.
      + apply pre_set_from; [|apply enil; reflexivity]. apply pre_set_cols; [|repeat constructor; apply enil; reflexivity].
        apply pre_with; [apply pre_empty | constructor; [exact Hf | constructor]].
      + constructor; [apply enil; reflexivity|]. constructor; [apply enil; reflexivity|]. constructor; [apply ein_wref, Hf|].
        constructor; [|constructor]. apply enil. unfold And. cbn [escans]. apply plain_escans, Hg.
      + cbn [flat_map]. change (conjs (And (fst (get_matchers sels)))) with (flat_map conjs (fst (get_matchers sels))).
        rewrite (plain_conjs _ Hg), app_nil_r. reflexivity.
      + eapply (ts_ok _ (pr_from_ns c) (pr_to_ns c)); [apply Htab | | | reflexivity | left; reflexivity].
        * unfold bounds. cbn [sc_conj flat_map]. rewrite (plain_classify _ _ Hg). reflexivity.
        * reflexivity.
    - (* PPMergeJoined *)
      cbn [pprocess]. destruct (pprocess p c) as [m|] eqn:Em; cbn [bindr]; [|discriminate]. intros [= <-].
      destruct (IHp m eq_refl) as [Hm Hr]. apply rgood_mk; [|split; assumption].
      set (pre := set_joins _ _).
      assert (Hpre : good pre).
      { unfold pre. apply good_noown.
        - apply pre_set_joins; [| repeat constructor | repeat constructor; apply enil; reflexivity].
          apply pre_set_from; [|apply ewref, Hm]. apply pre_set_cols; [|repeat constructor]. apply pre_with1, Hm.
        - reflexivity. }
      apply good_set_limit'; [|apply enil; reflexivity]. apply good_set_orderby'; [|repeat constructor].
      apply good_set_groupby'; [|repeat constructor].
      apply ref_good; [reflexivity | apply ewref, Hpre|]. apply pre_set_cols; [|repeat constructor]. apply pre_with1, Hpre.
    - (* PPMergeAggregated *)
      cbn [pprocess]. destruct (pprocess p c) as [m|] eqn:Em; cbn [bindr]; [|discriminate]. intros [= <-].
      destruct (IHp m eq_refl) as [Hm Hr]. apply rgood_mk; [|split; assumption].
      apply nofrom_good; [reflexivity|]. apply pre_set_cols; [|repeat constructor]. apply pre_with1, Hm.
    - (* PPGetLabels *)
      cbn [pprocess]. destruct (pprocess p c) as [f|] eqn:Ef; cbn [bindr]; [|discriminate]. intros [= <-].
      destruct (IHp f eq_refl) as [Hf Hr]. apply rgood_mk; [|split; assumption].
      pose proof (sel_globals_plain sels) as Hg.
      apply and_where_if_good; [exact Hg|].
      eapply (base_good' _ _ _ (In (Id "fingerprint") [WRef "fp" (ps_sel f)] :: date_window c)); try reflexivity.
      + apply pre_set_from; [|apply enil; reflexivity]. apply pre_set_cols.
        * apply pre_set_distinct, pre_with1, Hf.
        * constructor; [apply enil; reflexivity|]. constructor; [|constructor; [|constructor]].
          -- destruct gb; apply enil; [reflexivity | cbn [escans]; apply tags_filter_nil].
          -- destruct gb; apply enil; reflexivity.
      + constructor; [apply ein_wref, Hf | apply date_window_egood].
      + apply (dates_ok _ [In (Id "fingerprint") [WRef "fp" (ps_sel f)]] []); [apply Htab | reflexivity | reflexivity | rewrite app_nil_r; reflexivity].
    - (* PPSelectSeries *)
      cbn [pprocess]. destruct (pprocess p c) as [l|] eqn:El; cbn [bindr]; [|discriminate].
      destruct (find_with "fp" (ps_sel l)) as [fpw|] eqn:Efp; cbn [bindr]; [|discriminate]. intros [= <-].
      destruct (IHp l eq_refl) as [Hl Hr]. apply rgood_mk; [|split; assumption].
      pose proof (find_with_good _ _ _ Hl Efp) as Hfp. pose proof (sel_globals_plain sels) as Hg.
      apply and_where_if_good; [exact Hg|].
      apply good_set_orderby'; [|repeat constructor]. apply good_set_groupby'; [|repeat constructor].
      eapply (base_good' _ _ _ [In (Id "p.fingerprint") [WRef (fst fpw) (snd fpw)]; Ge (Id "p.timestamp_ns") (IntV (pr_from_ns c));
                                Le (Id "p.timestamp_ns") (IntV (pr_to_ns c))]); try reflexivity.
      + apply pre_set_joins; [| repeat constructor | constructor; [|constructor]; split; [apply ewref, Hl | apply enil; reflexivity]].
        apply pre_set_from; [|apply enil; reflexivity]. apply pre_set_cols; [apply pre_with1, Hl|].
        constructor; [apply enil; reflexivity|]. constructor; [apply enil; reflexivity|]. constructor; [apply enil; reflexivity|].
        constructor; [|constructor]. apply enil. cbn [escans]. apply value_col_nil.
      + constructor; [apply ein_wref, Hfp|]. constructor; [apply enil; reflexivity|]. constructor; [apply enil; reflexivity | constructor].
      + eapply data_bounded; [apply Htab | reflexivity | |]; unfold W, prctx_win; cbn [w_from w_to w_lo_min w_hi_max]; lia.
    - (* PPMergeProfiles *)
      cbn [pprocess]. destruct (pprocess p c) as [f|] eqn:Ef; cbn [bindr]; [|discriminate]. intros [= <-].
      destruct (IHp f eq_refl) as [Hf Hr]. apply rgood_mk; [|split; assumption].
      pose proof (sel_globals_plain sels) as Hg.
      apply limit_desc_good. apply and_where_if_good; [exact Hg|].
      eapply (base_good' _ _ _ [Ge (Id "timestamp_ns") (IntV (pr_from_ns c)); Le (Id "timestamp_ns") (IntV (pr_to_ns c));
                                In (Id "fingerprint") [WRef "fp" (ps_sel f)]]); try reflexivity.
      + apply pre_set_from; [|apply enil; reflexivity]. apply pre_set_cols; [apply pre_with1, Hf | repeat constructor].
      + constructor; [apply enil; reflexivity|]. constructor; [apply enil; reflexivity|]. constructor; [apply ein_wref, Hf | constructor].
      + eapply data_bounded; [apply Htab | reflexivity | |]; unfold W, prctx_win; cbn [w_from w_to w_lo_min w_hi_max]; lia.
    - (* PPAllTimeSeries *)
      intros [= <-]. split; [|constructor]. cbn [mk ps_sel].
      eapply (base_good' _ _ _ (date_window c)); try reflexivity.
      + apply pre_set_joins; [| repeat constructor | repeat constructor; apply enil; reflexivity].
        apply pre_set_from; [|apply enil; reflexivity]. apply pre_set_cols; [apply pre_set_distinct, pre_empty | repeat constructor].
      + apply date_window_egood.
      + apply (dates_ok _ [] []); [apply Htab | reflexivity | reflexivity | rewrite app_nil_r; reflexivity].
    - (* PPTimeSeries *)
      cbn [pprocess]. destruct (pprocess p c) as [f|] eqn:Ef; cbn [bindr]; [|discriminate]. intros [= <-].
      destruct (IHp f eq_refl) as [Hf Hr]. apply rgood_mk; [|split; assumption].
      pose proof (sel_globals_plain sels) as Hg. set (al := if String.eqb a "" then "fp"%string else a).
      apply and_where_if_good; [exact Hg|].
      eapply (base_good' _ _ _ (In (Id "p.fingerprint") [WRef al (ps_sel f)] :: date_window c)); try reflexivity.
      + apply pre_set_joins; [| repeat constructor | repeat constructor; apply enil; reflexivity].
        apply pre_set_from; [|apply enil; reflexivity]. apply pre_set_cols; [apply pre_set_distinct, pre_with1, Hf | repeat constructor].
      + constructor; [apply ein_wref, Hf | apply date_window_egood].
      + apply (dates_ok _ [In (Id "p.fingerprint") [WRef al (ps_sel f)]] []); [apply Htab | reflexivity | reflexivity | rewrite app_nil_r; reflexivity].
    - (* PPDistinct *)
      cbn [pprocess]. destruct (pprocess p c) as [m|] eqn:Em; cbn [bindr]; [|discriminate]. intros [= <-].
      destruct (IHp m eq_refl) as [Hm Hr]. apply rgood_mk; [|split; assumption].
      apply ref_good; [reflexivity | apply ewref, Hm|]. apply pre_set_cols; [apply pre_set_distinct, pre_with1, Hm | repeat constructor].
    - (* PPFilterLabels *)
      cbn [pprocess]. destruct (pprocess p c) as [m|] eqn:Em; cbn [bindr]; [|discriminate].
      pose proof (IHp m eq_refl) as Hrm. destruct l as [|x l']; [intros [= <-]; exact Hrm|]. intros [= <-].
      destruct Hrm as [Hm Hr]. apply rgood_mk; [|split; assumption].
      apply ref_good; [reflexivity | apply ewref, Hm|]. apply pre_set_cols; [apply pre_with1, Hm|].
      constructor; [apply enil; cbn [escans]; apply tags_filter_nil | repeat constructor].
    - (* PPProfileSize *)
      cbn [pprocess]. destruct (pprocess p c) as [m|] eqn:Em; cbn [bindr]; [|discriminate].
      destruct (find_with "fp" (ps_sel m)) as [fpw|] eqn:Efp; cbn [bindr]; [|discriminate]. intros [= <-].
      destruct (IHp m eq_refl) as [Hm Hr]. apply rgood_mk; [|split; assumption].
      pose proof (find_with_good _ _ _ Hm Efp) as Hfp.
      apply nofrom_good; [reflexivity|]. apply pre_set_cols; [apply pre_with1, Hm|].
      constructor; [|constructor; [|constructor]]; apply brackets_egood.
      + apply ref_good; [reflexivity | apply ewref, Hm|]. apply pre_set_cols; [apply pre_empty | repeat constructor].
      + apply ref_good; [reflexivity | apply ewref, Hfp|]. apply pre_set_cols; [apply pre_empty | repeat constructor].
  Qed.
End PROF.

(* ------------------------------------------------------------------ the theorems, closed *)
Theorem prof_planners_scans_bounded info c p r :
  prof_tables info c -> pprocess p c = Some r -> Forall (scan_bounded info (prctx_win c)) (presult_scans r).
Proof.
  intros Ht Hp. destruct (pprocess_good info c Ht p r Hp) as [H1 H2]. unfold presult_scans. apply Forall_app. split; [exact H1|].
  apply Forall_flat_map. exact H2.
Qed.

Open Scope string_scope.
Lemma prof_ctx_e_tables cluster db from_ns to_ns e : prof_tables table_info (prof_ctx_e cluster db from_ns to_ns e).
Proof.
  constructor; unfold prof_ctx_e; cbn [pt_series_gin pt_series_gin_dist pt_series pt_series_dist pt_profiles_dist]; destruct cluster;
    try reflexivity;
    match goal with |- table_info (_ ++ db ++ _ ++ ?n) = _ =>
      (etransitivity; [exact (table_info_db db n eq_refl) | reflexivity]) end.
Qed.

Lemma prof_ctx_tables cluster db from_ns to_ns : prof_tables table_info (prof_ctx cluster db from_ns to_ns).
Proof. apply prof_ctx_e_tables. Qed.

(* every request kind of the profile API (transpiler.go entry points), both table layouts, any database name, any answers of
   the regular-expression oracle *)
Theorem prof_requests_scans_bounded cluster db from_ns to_ns e req r :
  pprocess (preq_plan req) (prof_ctx_e cluster db from_ns to_ns e) = Some r ->
  Forall (scan_bounded table_info (prctx_win (prof_ctx_e cluster db from_ns to_ns e))) (presult_scans r).
Proof. apply prof_planners_scans_bounded, prof_ctx_e_tables. Qed.

(* ProfService.ProfileTypes *)
Theorem profile_types_scans_bounded info table start_ms end_ms :
  info table = idx_untyped ->
  Forall (scan_bounded info (ms_win start_ms end_ms)) (scans (profile_types_query table start_ms end_ms)).
Proof.
  intros Hi. unfold profile_types_query.
  assert (G : good (scan_bounded info (ms_win start_ms end_ms))
                (and_where [Ge (Id "date") (DateV (start_ms / 86400000)); Le (Id "date") (DateV (end_ms / 86400000))]
                  (set_joins [("array", SimpleCol "sample_types_units" "sample_type_unit", None)]
                    (set_from (Id table) (set_cols [Id "type_id"; Id "sample_type_unit"] (set_distinct true empty_select)))))).
  { eapply base_good; try reflexivity.
    - apply pre_set_joins; [| repeat constructor | repeat constructor; apply enil; reflexivity].
      apply pre_set_from; [|apply enil; reflexivity]. apply pre_set_cols; [apply pre_set_distinct, pre_empty | repeat constructor].
    - repeat constructor.
    - eapply idx_bounded_dates; [exact Hi | reflexivity | |]; unfold ms_win; cbn [w_from w_to]; unfold day_of_ns, ns_per_day.
      + replace (86400 * 1000000000)%Z with (86400000 * 1000000)%Z by reflexivity. rewrite Z.div_mul_cancel_r by lia. lia.
      + transitivity ((end_ms * 1000000) / (86400000 * 1000000))%Z; [apply Z.div_le_mono; lia|].
        rewrite Z.div_mul_cancel_r by lia. lia. }
  exact G.
Qed.

(* witnesses: merge (three nested planners), series with two matchers (UNION ALL under a WITH alias), label names over a union *)
Definition sel_ab : selector := {| sl_name := "a"; sl_op := MEq; sl_val := "b" |}.
Definition sel_job : selector := {| sl_name := "job"; sl_op := MRe; sl_val := "x.*" |}.
Definition sel_absent : selector := {| sl_name := "pod"; sl_op := MNeq; sl_val := "p1" |}.   (* accepts a series without pod *)
Definition prof_ctx0 : prctx := prof_ctx true "qryn" 1704888000000000000 1704891600000000000.
Definition nscans_of (req : preq) : Z :=
  match pprocess (preq_plan req) prof_ctx0 with Some r => Z.of_nat (List.length (presult_scans r)) | None => (-1)%Z end.
(* reads counted with multiplicity: a WITH entry hoisted to the top is still enumerated inside the selects that carry it *)
Lemma prof_examples :
  [nscans_of (RMergeTraces [sel_ab] tid0); nscans_of (RSelectSeries [sel_ab; sel_job] tid0 ["a"] false 15);
   nscans_of (RSeries [[sel_ab]; [sel_job]] ["a"]); nscans_of (RLabelNames [[sel_ab]; [sel_job]]); nscans_of (RAnalyze [sel_ab]);
   nscans_of (RLabelValues [] "job"); nscans_of (RMergeProfiles [sel_ab] tid0); nscans_of (RMergeProfiles [sel_ab; sel_absent] tid0)]
   = [29; 9; 29; 4; 8; 1; 3; 5]%Z /\
  List.length (scans (profile_types_query "profiles_series_dist" 1704888000000 1704891600000)) = 1%nat.
Proof. split; vm_compute; reflexivity. Qed.
