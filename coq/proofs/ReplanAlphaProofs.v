(* C14: same erasure => same meaning (C07's SqlEval), and one-context re-execution yields statements with the
   same erasure as never executed plans.
   Part A  eval_erase: eval (erase_sel q) = eval q for every tree, database and oracle (structural induction over
           expr / select_ expr; SqlEval.v is not edited: its one-step unfoldings are lemmas here).
   Part B  process_sim: for a plan without ByWithoutPlanner, two Process calls from states whose caches have the same
           erasure (any two values of the id counter) return selects with the same erasure and leave such states.
   Part C  the theorems about run_plan. *)
From Coq Require Import List ZArith NArith QArith String Ascii Bool Lia.
From Qryn Require Import lib.Strs model.Sql model.SqlRender model.SqlEval model.Logql model.LogqlPlan model.LogqlCases
  model.Replan model.ReplanAlpha proofs.ReplanProofs.
Import ListNotations.
Open Scope string_scope.

(* ---------- structural induction over expr / select_ expr (nested through lists, options, pairs) ---------- *)
Section SelInd.
  Context {E : Type} (PE : E -> Prop) (Q : select_ E -> Prop) (fE : forall e, PE e).
  Definition Popt (x : option E) : Prop := match x with None => True | Some e => PE e end.
  Definition Pjoin (j : string * E * option E) : Prop := PE (snd (fst j)) /\ Popt (snd j).
  Hypothesis HSel : forall d cols from wh pw hv gb ob lm off withs joins sett unions,
    Forall PE cols -> Popt from -> Popt wh -> Popt pw -> Popt hv -> Forall PE gb -> Forall PE ob -> Popt lm -> Popt off ->
    Forall (fun w => Q (snd w)) withs -> Forall Pjoin joins -> Forall Q unions ->
    Q (mkSel d cols from wh pw hv gb ob lm off withs joins sett unions).
  Definition all_E (l : list E) : Forall PE l :=
    (fix go (l : list E) : Forall PE l := match l with [] => Forall_nil _ | x :: r => Forall_cons x (fE x) (go r) end) l.
  Definition opt_E (x : option E) : Popt x := match x with None => I | Some e => fE e end.
  Definition all_J (l : list (string * E * option E)) : Forall Pjoin l :=
    (fix go (l : list (string * E * option E)) : Forall Pjoin l :=
       match l with [] => Forall_nil _ | x :: r => Forall_cons x (conj (fE (snd (fst x))) (opt_E (snd x))) (go r) end) l.
  Fixpoint sel_ind_gen (s : select_ E) : Q s :=
    match s with
    | mkSel d cols from wh pw hv gb ob lm off withs joins sett unions =>
      HSel d cols from wh pw hv gb ob lm off withs joins sett unions
        (all_E cols) (opt_E from) (opt_E wh) (opt_E pw) (opt_E hv) (all_E gb) (all_E ob) (opt_E lm) (opt_E off)
        ((fix go (ws : list (string * select_ E)) : Forall (fun w => Q (snd w)) ws :=
            match ws with [] => Forall_nil _ | w :: r => Forall_cons w (sel_ind_gen (snd w)) (go r) end) withs)
        (all_J joins)
        ((fix go (us : list (select_ E)) : Forall Q us :=
            match us with [] => Forall_nil _ | u :: r => Forall_cons u (sel_ind_gen u) (go r) end) unions)
    end.
End SelInd.

Section ExprInd.
  Variable P : expr -> Prop.
  Variable Q : select_ expr -> Prop.
  Hypothesis H_Raw : forall s, P (Raw s).
  Hypothesis H_Id : forall s, P (Id s).
  Hypothesis H_QRaw : forall s, P (QRaw s).
  Hypothesis H_Idx : forall x k, P x -> P k -> P (Idx x k).
  Hypothesis H_StrV : forall s, P (StrV s).
  Hypothesis H_IntV : forall z, P (IntV z).
  Hypothesis H_FloatV : forall t, P (FloatV t).
  Hypothesis H_BoolV : forall b, P (BoolV b).
  Hypothesis H_DateV : forall d, P (DateV d).
  Hypothesis H_LOp : forall fn cl, Forall P cl -> P (LOp fn cl).
  Hypothesis H_Not : forall x, P x -> P (Not x).
  Hypothesis H_NotNull : forall x, P x -> P (NotNull x).
  Hypothesis H_In : forall l r, P l -> Forall P r -> P (In l r).
  Hypothesis H_WRef : forall a q, Q q -> P (WRef a q).
  Hypothesis H_Col : forall x a, P x -> P (Col x a).
  Hypothesis H_Ord : forall x asc, P x -> P (Ord x asc).
  Hypothesis H_CtxParam : forall n d, P (CtxParam n d).
  Hypothesis H_Fn : forall name args, Forall P args -> P (Fn name args).
  Hypothesis H_Sep : forall sep parts, Forall P parts -> P (Sep sep parts).
  Hypothesis H_BitSetAnd : forall cl, Forall P cl -> P (BitSetAnd cl).
  Hypothesis H_WithId : forall f, (forall n, P (f n)) -> P (WithId f).
  Hypothesis H_SubQ : forall q, Q q -> P (SubQ q).
  Hypothesis H_Sel : forall d cols from wh pw hv gb ob lm off withs joins sett unions,
    Forall P cols -> Popt P from -> Popt P wh -> Popt P pw -> Popt P hv -> Forall P gb -> Forall P ob -> Popt P lm -> Popt P off ->
    Forall (fun w => Q (snd w)) withs -> Forall (Pjoin P) joins -> Forall Q unions ->
    Q (mkSel d cols from wh pw hv gb ob lm off withs joins sett unions).

  Fixpoint expr_sel_ind (e : expr) : P e :=
    match e with
    | Raw s => H_Raw s
    | Id s => H_Id s
    | QRaw s => H_QRaw s
    | Idx x k => H_Idx x k (expr_sel_ind x) (expr_sel_ind k)
    | StrV s => H_StrV s
    | IntV z => H_IntV z
    | FloatV t => H_FloatV t
    | BoolV b => H_BoolV b
    | DateV d => H_DateV d
    | LOp fn cl => H_LOp fn cl (all_E P expr_sel_ind cl)
    | Not x => H_Not x (expr_sel_ind x)
    | NotNull x => H_NotNull x (expr_sel_ind x)
    | In l r => H_In l r (expr_sel_ind l) (all_E P expr_sel_ind r)
    | WRef a q => H_WRef a q (sel_ind_gen P Q expr_sel_ind H_Sel q)
    | Col x a => H_Col x a (expr_sel_ind x)
    | Ord x asc => H_Ord x asc (expr_sel_ind x)
    | CtxParam n d => H_CtxParam n d
    | Fn name args => H_Fn name args (all_E P expr_sel_ind args)
    | Sep sep parts => H_Sep sep parts (all_E P expr_sel_ind parts)
    | BitSetAnd cl => H_BitSetAnd cl (all_E P expr_sel_ind cl)
    | WithId f => H_WithId f (fun n => expr_sel_ind (f n))
    | SubQ q => H_SubQ q (sel_ind_gen P Q expr_sel_ind H_Sel q)
    end.
  Definition sel_expr_ind (q : select_ expr) : Q q := sel_ind_gen P Q expr_sel_ind H_Sel q.
End ExprInd.

(* ---------- the equations of erase ---------- *)
Lemma erase_LOp op cl : erase (LOp op cl) = LOp op (map erase cl). Proof. reflexivity. Qed.
Lemma erase_In l rs : erase (In l rs) = In l (map erase_in rs). Proof. reflexivity. Qed.
Lemma erase_WRef a q : erase (WRef a q) = WRef a (erase_sel q). Proof. reflexivity. Qed.
Lemma erase_SubQ q : erase (SubQ q) = SubQ (erase_sel q). Proof. reflexivity. Qed.
Lemma erase_Col x a : erase (Col x a) = Col x a. Proof. reflexivity. Qed.
Lemma erase_tab_WRef a q : erase_tab (WRef a q) = WRef a (erase_sel q). Proof. reflexivity. Qed.
Lemma erase_tab_Col_WRef a0 q a : erase_tab (Col (WRef a0 q) a) = Col (WRef "" (erase_sel q)) a. Proof. reflexivity. Qed.
Lemma erase_tab_Id s : erase_tab (Id s) = Id s. Proof. reflexivity. Qed.
Lemma erase_tab_SimpleCol n a : erase_tab (SimpleCol n a) = SimpleCol n a. Proof. reflexivity. Qed.
Lemma erase_in_WRef a q : erase_in (WRef a q) = WRef "" (erase_sel q). Proof. reflexivity. Qed.
Lemma erase_sel_mk d cols from wh pw hv gb ob lm off withs joins sett unions :
  erase_sel (mkSel d cols from wh pw hv gb ob lm off withs joins sett unions) =
  mkSel d cols (option_map erase_tab from) (option_map erase wh) (option_map erase pw) hv gb ob lm off []
        (map (erase_join erase_tab) joins) sett unions.
Proof. reflexivity. Qed.

(* ================================================================ Part A *)
Lemma map_opt_ext {A B} (f f' : A -> option B) l : (forall a, f a = f' a) -> map_opt f l = map_opt f' l.
Proof. intro H. induction l as [|a l IH]; cbn [map_opt]; [reflexivity|]. rewrite H, IH. reflexivity. Qed.
Lemma filter_opt_ext {A} (p p' : A -> option bool) l : (forall a, p a = p' a) -> filter_opt p l = filter_opt p' l.
Proof. intro H. induction l as [|a l IH]; cbn [filter_opt]; [reflexivity|]. rewrite H, IH. reflexivity. Qed.

Section EV.
  Variable re_match : string -> string -> bool.
  Variable parse_float : string -> option Q.
  Variable json_get : string -> list string -> string.
  Variable hash_labels : list (string * string) -> Z.
  Variable tie : forall A : Type, list A -> list A.
  Variable db : database.
  Notation EV := (ev re_match parse_float json_get hash_labels tie db).
  Notation ET := (etab re_match parse_float json_get hash_labels tie db).
  Notation ES := (esel_gen tie ET EV).

  (* one-step unfoldings of the evaluator *)
  Lemma ev_LOp op cl g :
    EV (LOp op cl) g =
    match op with
    | OAnd => match map_opt (fun c => EV c g) cl with Some vs => vlogic true vs | None => None end
    | OOr => match map_opt (fun c => EV c g) cl with Some vs => vlogic false vs | None => None end
    | OOther _ => None
    | _ => match cl with
           | [a; b] => match EV a g, EV b g with Some x, Some y => vcmp op x y | _, _ => None end
           | _ => None end
    end.
  Proof. reflexivity. Qed.
  Definition in_vals (g : list row) (rs : list expr) : option (list value) :=
    match rs with
    | [WRef _ q] | [SubQ q] => match ES q with Some t => first_col t | None => None end
    | _ => map_opt (fun r => EV r g) rs
    end.
  Lemma ev_In l rs g :
    EV (In l rs) g =
    match EV l g with
    | None => None
    | Some lv => match lv, in_vals g rs with
                 | VNull, Some _ => Some VNull
                 | _, Some vs => Some (vbool (existsb (value_eqb lv) vs))
                 | _, None => None
                 end
    end.
  Proof. reflexivity. Qed.
  Lemma ev_WRef a q g : EV (WRef a q) g = None. Proof. reflexivity. Qed.
  Lemma ev_SubQ q g : EV (SubQ q) g = None. Proof. reflexivity. Qed.
  Lemma et_WRef a q : ET (WRef a q) = option_map (qualify a) (ES q). Proof. reflexivity. Qed.
  Lemma et_Col_WRef a0 q a : ET (Col (WRef a0 q) a) = option_map (qualify a) (ES q). Proof. reflexivity. Qed.

  (* what the induction carries for an object *)
  Definition sel_view (e : expr) : Prop :=
    match e with WRef _ q | SubQ q => ES (erase_sel q) = ES q | _ => True end.
  Definition PA (e : expr) : Prop :=
    (forall g, EV (erase e) g = EV e g) /\ (forall g, EV (erase_in e) g = EV e g) /\
    ET (erase_tab e) = ET e /\ join_names (erase_tab e) = join_names e /\ sel_view e.
  Definition QA (q : select) : Prop := ES (erase_sel q) = ES q.

  Lemma PA_same e : erase e = e -> erase_in e = e -> erase_tab e = e -> sel_view e -> PA e.
  Proof. intros H1 H2 H3 H4. unfold PA. rewrite H1, H2, H3. repeat split; try reflexivity. exact H4. Qed.

  Lemma map_opt_erase g cl :
    Forall PA cl -> map_opt (fun c => EV c g) (map erase cl) = map_opt (fun c => EV c g) cl.
  Proof.
    induction 1 as [|c cl Hc _ IH]; cbn [map map_opt]; [reflexivity|].
    destruct Hc as [Hc _]. rewrite Hc, IH. reflexivity.
  Qed.
  Lemma map_opt_erase_in g rs :
    Forall PA rs -> map_opt (fun r => EV r g) (map erase_in rs) = map_opt (fun r => EV r g) rs.
  Proof.
    induction 1 as [|c cl Hc _ IH]; cbn [map map_opt]; [reflexivity|].
    destruct Hc as [_ [Hc _]]. rewrite Hc, IH. reflexivity.
  Qed.

  Lemma PA_LOp op cl : Forall PA cl -> PA (LOp op cl).
  Proof.
    intro H.
    assert (E1 : forall g, EV (erase (LOp op cl)) g = EV (LOp op cl) g).
    { intro g. rewrite erase_LOp, !ev_LOp, (map_opt_erase g cl H).
      destruct op; try reflexivity.
      all: destruct cl as [|a [|b [|c r]]]; cbn [map]; try reflexivity.
      all: inversion H as [|? ? Ha H']; subst; inversion H' as [|? ? Hb _]; subst.
      all: destruct Ha as [Ha _], Hb as [Hb _]; rewrite Ha, Hb; reflexivity. }
    unfold PA. split; [exact E1|]. split; [exact E1|]. repeat split.
  Qed.

  Lemma in_vals_erase g rs : Forall PA rs -> in_vals g (map erase_in rs) = in_vals g rs.
  Proof.
    intro H. destruct rs as [|r [|r2 rest]].
    - reflexivity.
    - inversion H as [|? ? Hr _]; subst. destruct Hr as [_ [Hin [_ [_ Hv]]]].
      destruct r; cbn [map]; try reflexivity;
      match goal with
           | |- in_vals g [erase_in (WRef ?a ?q)] = _ => rewrite erase_in_WRef; cbn [in_vals sel_view] in *; rewrite Hv; reflexivity
           | |- in_vals g [erase_in (SubQ ?q)] = _ =>
               change (erase_in (SubQ q)) with (SubQ (erase_sel q)); cbn [in_vals sel_view] in *; rewrite Hv; reflexivity
           | |- in_vals g [erase_in ?e] = in_vals g [?e] =>
               change (in_vals g [erase_in e]) with (map_opt (fun r => EV r g) [erase_in e]);
               change (in_vals g [e]) with (map_opt (fun r => EV r g) [e]);
               cbn [map_opt]; rewrite Hin; reflexivity
           end.
    - replace (in_vals g (r :: r2 :: rest)) with (map_opt (fun r => EV r g) (r :: r2 :: rest)) by (destruct r; reflexivity).
      rewrite <- (map_opt_erase_in g _ H).
      cbn [map]. destruct r; reflexivity.
  Qed.

  Lemma PA_In l rs : Forall PA rs -> PA (In l rs).
  Proof.
    intro H.
    assert (E1 : forall g, EV (erase (In l rs)) g = EV (In l rs) g).
    { intro g. rewrite erase_In, !ev_In, (in_vals_erase g rs H). reflexivity. }
    unfold PA. split; [exact E1|]. split; [exact E1|]. repeat split.
  Qed.

  Lemma PA_WRef a q : QA q -> PA (WRef a q).
  Proof.
    intro H. unfold PA. split; [intro g; reflexivity|]. split; [intro g; reflexivity|].
    split; [rewrite erase_tab_WRef, !et_WRef; unfold QA in H; rewrite H; reflexivity|].
    split; [reflexivity|exact H].
  Qed.
  Lemma PA_SubQ q : QA q -> PA (SubQ q).
  Proof.
    intro H. unfold PA. split; [intro g; reflexivity|]. split; [intro g; reflexivity|].
    split; [reflexivity|]. split; [reflexivity|exact H].
  Qed.
  Lemma PA_Col x a : PA x -> PA (Col x a).
  Proof.
    intros [_ [_ [_ [_ Hv]]]]. unfold PA. split; [intro g; reflexivity|]. split; [intro g; reflexivity|].
    destruct x; try (repeat split; reflexivity).
    (* Col (WRef a0 q) a *)
    cbn [sel_view] in Hv. rewrite erase_tab_Col_WRef, !et_Col_WRef, Hv. repeat split; reflexivity.
  Qed.

  Lemma join1_erase s j : Pjoin PA j -> join1 tie ET EV s (erase_join erase_tab j) = join1 tie ET EV s j.
  Proof.
    destruct j as [[tp tbl] on]. intros [[_ [_ [Ht [Hn _]]]] _]. cbn [fst snd] in *.
    unfold erase_join, join1. cbn [fst snd]. rewrite Ht, Hn. reflexivity.
  Qed.
  Lemma joins_erase js : Forall (Pjoin PA) js ->
    forall s, fold_left (join1 tie ET EV) (map (erase_join erase_tab) js) s = fold_left (join1 tie ET EV) js s.
  Proof.
    induction 1 as [|j js Hj _ IH]; intro s; cbn [map fold_left]; [reflexivity|].
    rewrite (join1_erase s j Hj). apply IH.
  Qed.
  Lemma cond_ok_erase w r : Popt PA w -> cond_ok EV (option_map erase w) r = cond_ok EV w r.
  Proof. destruct w as [e|]; cbn [Popt option_map cond_ok]; [|reflexivity]. intros [H _]. rewrite H. reflexivity. Qed.

  Lemma QA_sel d cols from wh pw hv gb ob lm off withs joins sett unions :
    Popt PA from -> Popt PA wh -> Popt PA pw -> Forall (Pjoin PA) joins ->
    QA (mkSel d cols from wh pw hv gb ob lm off withs joins sett unions).
  Proof.
    intros Hf Hw Hp Hj. unfold QA. rewrite erase_sel_mk. unfold esel_gen.
    cbn [s_distinct s_cols s_from s_where s_prewhere s_having s_groupby s_orderby s_limit s_offset s_withs s_joins s_settings s_unions].
    destruct d; [reflexivity|]. destruct off; [reflexivity|]. destruct unions; [|reflexivity].
    rewrite (joins_erase joins Hj).
    replace (match option_map erase_tab from with Some f => ET f | None => Some [[]] end)
       with (match from with Some f => ET f | None => Some [[]] end)
       by (destruct from as [f|]; cbn [option_map Popt] in *; [destruct Hf as [_ [_ [Ht _]]]; rewrite Ht|]; reflexivity).
    destruct (fold_left (join1 tie ET EV) joins match from with Some f => ET f | None => Some [[]] end) as [rows00|]; [|reflexivity].
    match goal with
    | |- match filter_opt ?p1 ?l with _ => _ end = match filter_opt ?p2 _ with _ => _ end =>
        rewrite (filter_opt_ext p1 p2 l) by (intro r; rewrite (cond_ok_erase pw r Hp), (cond_ok_erase wh r Hw); reflexivity)
    end.
    reflexivity.
  Qed.

  Lemma PA_all : forall e, PA e.
  Proof.
    apply (expr_sel_ind PA QA); intros;
      try (apply PA_same; reflexivity).
    - apply PA_LOp; assumption.
    - apply PA_In; assumption.
    - apply PA_WRef; assumption.
    - apply PA_Col; assumption.
    - apply PA_SubQ; assumption.
    - apply QA_sel; assumption.
  Qed.
  Lemma QA_all : forall q, QA q.
  Proof.
    apply (sel_expr_ind PA QA); intros;
      try (apply PA_same; reflexivity).
    - apply PA_LOp; assumption.
    - apply PA_In; assumption.
    - apply PA_WRef; assumption.
    - apply PA_Col; assumption.
    - apply PA_SubQ; assumption.
    - apply QA_sel; assumption.
  Qed.

  Lemma eval_erase q :
    eval re_match parse_float json_get hash_labels tie db (erase_sel q) = eval re_match parse_float json_get hash_labels tie db q.
  Proof. exact (QA_all q). Qed.
  Lemma same_erasure_same_eval q1 q2 :
    erase_sel q1 = erase_sel q2 ->
    eval re_match parse_float json_get hash_labels tie db q1 = eval re_match parse_float json_get hash_labels tie db q2.
  Proof. intro H. rewrite <- (eval_erase q1), <- (eval_erase q2), H. reflexivity. Qed.
End EV.

(* ================================================================ Part B *)
Notation E := erase_sel.
Lemma E_cols q1 q2 : E q1 = E q2 -> s_cols q1 = s_cols q2. Proof. intro H. exact (f_equal s_cols H). Qed.
Lemma E_groupby q1 q2 : E q1 = E q2 -> s_groupby q1 = s_groupby q2. Proof. intro H. exact (f_equal s_groupby H). Qed.

(* erase commutes with the builder methods of Select *)
Lemma E_set_cols c s : E (set_cols c s) = set_cols c (E s). Proof. reflexivity. Qed.
Lemma E_set_from f s : E (set_from f s) = set_from (erase_tab f) (E s). Proof. reflexivity. Qed.
Lemma E_set_joins js s : E (set_joins js s) = set_joins (map (erase_join erase_tab) js) (E s). Proof. reflexivity. Qed.
Lemma E_set_groupby g s : E (set_groupby g s) = set_groupby g (E s). Proof. reflexivity. Qed.
Lemma E_set_orderby o s : E (set_orderby o s) = set_orderby o (E s). Proof. reflexivity. Qed.
Lemma E_set_limit l s : E (set_limit l s) = set_limit l (E s). Proof. reflexivity. Qed.
Lemma E_with_ ws s : E (with_ ws s) = E s. Proof. reflexivity. Qed.
Lemma E_and_having cl s : E (and_having cl s) = and_having cl (E s). Proof. reflexivity. Qed.
Lemma erase_and_into o cl : option_map erase (and_into o cl) = and_into (option_map erase o) (map erase cl).
Proof.
  destruct o as [e|]; [|reflexivity].
  destruct e; try reflexivity.
  destruct fn; cbn [and_into option_map]; try reflexivity.
  unfold And. rewrite !erase_LOp, map_app. reflexivity.
Qed.
Lemma E_and_where cl s : E (and_where cl s) = and_where (map erase cl) (E s).
Proof.
  unfold and_where. change (E (set_where (and_into (s_where s) cl) s)) with (set_where (option_map erase (and_into (s_where s) cl)) (E s)).
  rewrite erase_and_into. reflexivity.
Qed.
Lemma E_and_prewhere cl s : E (and_prewhere cl s) = and_prewhere (map erase cl) (E s).
Proof.
  unfold and_prewhere. change (s_prewhere (E s)) with (option_map erase (s_prewhere s)).
  destruct (s_prewhere s) as [e|]; [|reflexivity].
  destruct e; try reflexivity.
  destruct fn; try reflexivity.
  cbn [option_map]. rewrite erase_LOp.
  change (E (set_prewhere (Some (And (cl0 ++ cl))) s)) with (set_prewhere (Some (erase (And (cl0 ++ cl)))) (E s)).
  unfold And. rewrite erase_LOp, map_app. reflexivity.
Qed.

(* states of two executions that differ in generated alias numbers only: the caches have the same alias and the same erasure;
   the id counters are unrelated *)
Definition cache_sim (a b : option (string * select)) : Prop :=
  match a, b with
  | None, None => True
  | Some x, Some y => fst x = fst y /\ E (snd x) = E (snd y)
  | _, _ => False
  end.
Definition state_sim (s1 s2 : pst) : Prop :=
  cache_sim (fp_cache s1) (fp_cache s2) /\ cache_sim (labels_cache s1) (labels_cache s2).
Definition sim_res (r1 r2 : res (select * pst * planner)) : Prop :=
  match r1, r2 with
  | Some (q1, s1, _), Some (q2, s2, _) => E q1 = E q2 /\ state_sim s1 s2
  | None, None => True
  | _, _ => False
  end.
Definition psim (p : planner) : Prop := forall c st1 st2, state_sim st1 st2 -> sim_res (process p c st1) (process p c st2).

Lemma sim_bind main c st1 st2 (K1 K2 : select * pst * planner -> res (select * pst * planner)) :
  psim main -> state_sim st1 st2 ->
  (forall q1 s1 m1 q2 s2 m2, E q1 = E q2 -> state_sim s1 s2 -> sim_res (K1 (q1, s1, m1)) (K2 (q2, s2, m2))) ->
  sim_res (bind (process main c st1) K1) (bind (process main c st2) K2).
Proof.
  intros IH HS HK. specialize (IH c st1 st2 HS).
  destruct (process main c st1) as [[[q1 s1] m1]|], (process main c st2) as [[[q2 s2] m2]|]; cbn [sim_res bind] in *;
    try contradiction; try exact I.
  destruct IH as [HE HS']. apply HK; assumption.
Qed.

Definition sim_res4 (r1 r2 : res (select * pst * planner * planner)) : Prop :=
  match r1, r2 with
  | Some (q1, s1, _, _), Some (q2, s2, _, _) => E q1 = E q2 /\ state_sim s1 s2
  | None, None => True
  | _, _ => False
  end.
Lemma with_connector_sim mainp withp c fn st1 st2 :
  psim mainp -> psim withp ->
  (forall m1 m2 w1 w2, E m1 = E m2 -> fst w1 = fst w2 -> E (snd w1) = E (snd w2) -> E (fn m1 w1) = E (fn m2 w2)) ->
  state_sim st1 st2 ->
  sim_res4 (with_connector process mainp withp c st1 fn) (with_connector process mainp withp c st2 fn).
Proof.
  intros IHm IHw Hfn HS. unfold with_connector. specialize (IHm c st1 st2 HS).
  destruct (process mainp c st1) as [[[q1 s1] m1]|], (process mainp c st2) as [[[q2 s2] m2]|]; cbn [sim_res sim_res4 bind] in *;
    try contradiction; try exact I.
  destruct IHm as [HE [HF HL]].
  destruct (fp_cache s1) as [w1|] eqn:F1, (fp_cache s2) as [w2|] eqn:F2; cbn [cache_sim] in HF; try contradiction.
  - destruct HF as [Ha Hq]. cbn [sim_res4]. split; [|split; [rewrite F1, F2; cbn [cache_sim]; split; assumption|assumption]].
    apply Hfn; [rewrite !E_with_; assumption|assumption|assumption].
  - assert (HS' : state_sim s1 s2) by (split; [rewrite F1, F2; exact I|assumption]).
    specialize (IHw c s1 s2 HS').
    destruct (process withp c s1) as [[[u1 t1] x1]|], (process withp c s2) as [[[u2 t2] x2]|]; cbn [sim_res sim_res4 bind] in *;
      try contradiction; try exact I.
    destruct IHw as [HEw [_ HLw]]. split.
    + apply Hfn; [rewrite !E_with_; assumption|reflexivity|assumption].
    + split; [cbn [set_fp_cache fp_cache cache_sim fst snd]; split; [reflexivity|assumption]|exact HLw].
Qed.

Lemma erase_join_eq tp tbl (on : option expr) : erase_join erase_tab (tp, tbl, on) = (tp, erase_tab tbl, on).
Proof. reflexivity. Qed.
Ltac push :=
  repeat first
  [ rewrite E_and_where | rewrite E_and_prewhere | rewrite E_and_having | rewrite E_set_cols | rewrite E_set_from | rewrite E_set_joins
  | rewrite E_set_groupby | rewrite E_set_orderby | rewrite E_set_limit | rewrite E_with_ | rewrite erase_tab_Col_WRef
  | rewrite erase_tab_WRef | rewrite erase_join_eq | rewrite erase_In | rewrite erase_in_WRef | progress cbn [map erase_join fst snd] ].

Lemma state_sim_next s1 s2 : state_sim s1 s2 -> state_sim (snd (next_id s1)) (snd (next_id s2)).
Proof. intro H. exact H. Qed.
Lemma state_sim_clear s1 s2 : state_sim (clear_caches s1) (clear_caches s2).
Proof. split; exact I. Qed.

(* one planner whose Process works on the select of its Main *)
Ltac unary :=
  match goal with
  | IH : psim ?m |- sim_res (bind (process ?m ?c ?s1) _) (bind (process ?m ?c ?s2) _) =>
      apply sim_bind; [exact IH | assumption |];
      let q1 := fresh "q1" in let q2 := fresh "q2" in let HE := fresh "HE" in let HS := fresh "HS" in
      let HC := fresh "HC" in let HG := fresh "HG" in
      intros q1 ? ? q2 ? ? HE HS;
      pose proof (E_cols _ _ HE) as HC; pose proof (E_groupby _ _ HE) as HG; rewrite ?HC, ?HG
  end.
Ltac split_cases :=
  repeat match goal with
  | |- sim_res (bind ?x _) (bind ?x _) => destruct x; cbn [bind]
  | |- sim_res (if ?b then _ else _) (if ?b then _ else _) => destruct b
  | |- sim_res (match ?x with _ => _ end) (match ?x with _ => _ end) => destruct x
  | |- sim_res None None => exact I
  end.
Ltac fin :=
  cbn [sim_res]; split;
  [ push; repeat match goal with HE : E _ = E _ |- _ => rewrite HE; clear HE end; reflexivity
  | first [assumption | apply state_sim_next; assumption | idtac] ].

Lemma process_sim : forall p, no_by_without p = true -> psim p.
Proof.
  induction p; cbn [no_by_without]; intro Hn;
    repeat match goal with
    | H : (_ && _)%bool = true |- _ => apply andb_prop in H; destruct H
    end;
    repeat match goal with
    | IH : no_by_without ?m = true -> psim ?m, H : no_by_without ?m = true |- _ => specialize (IH H)
    end;
    try discriminate Hn;
    intros c st1 st2 HS; cbn [process].
  - (* PStreamSelect *) cbn [sim_res]. split; [reflexivity|assumption].
  - (* PSimpleLabelFilter *) unary. unfold next_id. cbn [fst snd]. split_cases. fin.
  - (* PFingerprintFilter *)
    pose proof (with_connector_sim p2 p1 c
                  (fun q w => and_where [In (Id "samples.fingerprint") [WRef (fst w) (snd w)]] q) st1 st2 IHp2 IHp1) as W.
    match type of W with ?A -> _ => assert (Hfn : A) end.
    { intros xm1 xm2 xw1 xw2 Hx1 Hx2 Hx3. push. rewrite Hx1, Hx3. reflexivity. }
    specialize (W Hfn HS).
    match goal with |- sim_res (bind ?a _) (bind ?b _) => destruct a as [[[[? ?] ?] ?]|], b as [[[[? ?] ?] ?]|] end;
      cbn [sim_res4 sim_res bind] in *; try contradiction; try exact I. exact W.
  - (* PMainInit *) cbn [sim_res]. split; [reflexivity|assumption].
  - (* PTimeSeriesInit *) cbn [sim_res]. split; [reflexivity|assumption].
  - (* PLineFilterP *) unary. fin.
  - (* PLabelFilterP *) unary. split_cases. fin.
  - (* PParserP *) destruct fn; try exact I; unary; split_cases; fin.
  - (* PDropP *) unary. fin.
  - (* PLabelsJoin *)
    pose proof (with_connector_sim p3 p2 c
                  (fun q w => and_prewhere [In (Id "time_series.fingerprint") [WRef (fst w) (snd w)]] q) st1 st2 IHp3 IHp2) as W.
    match type of W with ?A -> _ => assert (Hfn : A) end.
    { intros xm1 xm2 xw1 xw2 Hx1 Hx2 Hx3. push. rewrite Hx1, Hx3. reflexivity. }
    specialize (W Hfn HS).
    match goal with |- sim_res (bind ?a _) (bind ?b _) => destruct a as [[[[tq1 ts1] ?] ?]|], b as [[[[tq2 ts2] ?] ?]|] end;
      cbn [sim_res4 sim_res bind] in *; try contradiction; try exact I.
    destruct W as [HEt HSt].
    apply sim_bind; [exact IHp1|exact HSt|]. intros q1 s1 m1 q2 s2 m2 HE HS'.
    cbn [sim_res]. split.
    + push. rewrite HE, HEt. reflexivity.
    + destruct with_labels_cache; [|assumption].
      destruct HS' as [HF HL]. split; [exact HF|]. cbn [set_labels_cache labels_cache cache_sim fst snd]. split; [reflexivity|assumption].
  - (* PMainRenew *) unary. unfold next_id. cbn [fst snd]. fin.
  - (* PMainOrderBy *) unary. fin.
  - (* PMainLimit *) unary. destruct (Z.eqb (c_limit c) 0); fin.
  - (* PMainFinalizer *)
    apply sim_bind; [exact IHp|apply state_sim_clear|]. intros q1 s1 m1 q2 s2 m2 HE HS'.
    destruct (negb (c_finalize c)); [fin|]. destruct is_matrix; [fin|]. fin.
  - (* PLraP *) unary. split_cases. fin.
  - (* PUnwrapP *) unary. split_cases. fin.
  - (* PUnwrapFnP *) unary. split_cases. fin.
  - (* PAggOpP *) unary. fin.
  - (* PComparisonP *) unary. destruct (s_groupby q2); fin.
  - (* PTopKP *) unary. fin.
  - (* PQuantileP *) unary. fin.
  - (* PStepFixP *) unary. destruct (Z.leb (c_step_ns c) dur_ns); fin.
  - (* PMetrics15 *) split_cases. cbn [sim_res]. split; [reflexivity|assumption].
  - (* PLineFormatP: the drawn id names the Go template object only, the statement does not carry it *)
    unary. unfold next_id. cbn [fst snd]. split_cases. fin.
Qed.

(* ================================================================ Part C *)
(* a root resets the caches: any two states are as good as similar ones *)
Lemma root_sim p : is_root p = true -> no_by_without p = true ->
  forall c st1 st2, sim_res (process p c st1) (process p c st2).
Proof.
  intros R N c st1 st2.
  rewrite (root_ignores_caches p c st1 R), (root_ignores_caches p c st2 R).
  apply (process_sim p N). apply state_sim_clear.
Qed.

Lemma one_context_same_erasure p :
  is_root p = true -> no_by_without p = true ->
  forall k c st, erase_all (run_plan_sel k p c st) = erase_all (fresh_seq_sel k p c).
Proof.
  intros R N k. induction k as [|k IH]; intros c st; cbn [run_plan_sel fresh_seq_sel]; [reflexivity|].
  pose proof (root_sim p R N c st pst0) as H.
  destruct (process p c st) as [[[q1 s1] p1]|] eqn:E1, (process p c pst0) as [[[q2 s2] p2]|] eqn:E2; cbn [sim_res] in H;
    try contradiction; [|reflexivity].
  destruct H as [HE _]. apply process_preserves_plan in E1. subst p1.
  unfold erase_all in *. cbn [map option_map]. rewrite HE, IH. reflexivity.
Qed.

(* the object-tree runs are what LogqlCases.run_plan / Replan.fresh_seq print *)
Lemma cluster_advance c : c_cluster (advance c) = c_cluster c. Proof. reflexivity. Qed.
Lemma run_plan_renders k : forall p c st, run_plan k p c st = map (render_at (c_cluster c)) (run_plan_sel k p c st).
Proof.
  induction k as [|k IH]; intros p c st; cbn [run_plan run_plan_sel]; [reflexivity|].
  destruct (process p c st) as [[[q s] p']|]; [|reflexivity].
  cbn [map render_at]. rewrite IH, cluster_advance. reflexivity.
Qed.
Lemma fresh_seq_renders k : forall p c, fresh_seq k p c = map (render_at (c_cluster c)) (fresh_seq_sel k p c).
Proof.
  induction k as [|k IH]; intros p c; cbn [fresh_seq fresh_seq_sel]; [reflexivity|].
  destruct (process p c pst0) as [[[q s] p']|]; [|reflexivity].
  cbn [map render_at]. rewrite IH, cluster_advance. reflexivity.
Qed.

Section MEANING.
  Variable re_match : string -> string -> bool.
  Variable parse_float : string -> option Q.
  Variable json_get : string -> list string -> string.
  Variable hash_labels : list (string * string) -> Z.
  Variable tie : forall A : Type, list A -> list A.
  Variable db : database.
  Definition meaning (o : option select) : option (option table) :=
    option_map (eval re_match parse_float json_get hash_labels tie db) o.
  Lemma meaning_erase l : map meaning (erase_all l) = map meaning l.
  Proof.
    unfold erase_all. rewrite map_map. apply map_ext. intros [q|]; [|reflexivity].
    cbn [option_map meaning]. rewrite eval_erase. reflexivity.
  Qed.
  Lemma one_context_same_meaning p :
    is_root p = true -> no_by_without p = true ->
    forall k c st, map meaning (run_plan_sel k p c st) = map meaning (fresh_seq_sel k p c).
  Proof.
    intros R N k c st. rewrite <- (meaning_erase (run_plan_sel k p c st)), <- (meaning_erase (fresh_seq_sel k p c)).
    rewrite (one_context_same_erasure p R N k c st). reflexivity.
  Qed.
End MEANING.

(* the hypotheses are met by a plan that draws ids (and whose second statement under one context is not, as text, the
   fresh one: Replan reuse_exact_needs_guard) *)
Lemma witness_meets_alpha_guard :
  match witness_plan with
  | Some p => is_root p = true /\ no_by_without p = true /\ draws_ids p = true /\
              List.length (run_plan_sel 2 p witness_ctx pst0) = 2%nat /\
              olist_eqb (run_plan 2 p witness_ctx pst0) (fresh_seq 2 p witness_ctx) = false
  | None => False
  end.
Proof. vm_compute. repeat split; reflexivity. Qed.

(* erase is not the identity on what it compares: the two selects below differ in a generated alias only *)
Lemma erase_forgets_generated_alias :
  let q a := and_where [In (Id "fingerprint") [WRef a empty_select]] (with_ [(a, empty_select)] empty_select) in
  erase_sel (q "subsel_1") = erase_sel (q "subsel_3").
Proof. reflexivity. Qed.
(* and it keeps the alias of a table reference: FROM prefinal *)
Lemma erase_keeps_table_alias :
  erase_sel (set_from (WRef "a" empty_select) empty_select) <> erase_sel (set_from (WRef "b" empty_select) empty_select).
Proof. vm_compute. discriminate. Qed.

(* ---------- every plan of a LOG query is free of ByWithoutPlanner ---------- *)
Lemma fold_ts_nbw l : forall acc, no_by_without acc = true ->
  no_by_without (fold_left (fun fp (sb : stage * bool) => match fst sb, snd sb with
                                                          | PLabelFilter f, true => PSimpleLabelFilter f fp
                                                          | _, _ => fp end) l acc) = true.
Proof.
  induction l as [|[s b] l IH]; intros acc Ha; cbn [fold_left]; [exact Ha|]. apply IH.
  cbn [fst snd]. destruct s; try exact Ha. destruct b; exact Ha.
Qed.
Lemma plan_ts_nbw ms ppl simple : no_by_without (plan_ts ms ppl simple) = true.
Proof. unfold plan_ts. apply fold_ts_nbw. reflexivity. Qed.
Lemma plan_stage_nbw s b cur p : no_by_without cur = true -> plan_stage s b cur = Some p -> no_by_without p = true.
Proof.
  intros Hc H. destruct s; cbn [plan_stage] in H; try discriminate H; inversion H; subst; try exact Hc;
    destruct b; exact Hc.
Qed.
Lemma plan_spl_nbw fp lji : no_by_without fp = true ->
  forall ppl simple renew i cur p, no_by_without cur = true ->
    plan_spl ppl simple renew i lji fp cur = Some p -> no_by_without p = true.
Proof.
  intros Hfp. induction ppl as [|s ppl IH]; intros simple renew i cur p Hc H.
  - cbn [plan_spl] in H. inversion H; subst. exact Hc.
  - cbn [plan_spl] in H. destruct simple as [|b bs]; [inversion H; subst; exact Hc|].
    destruct renew as [|rn rns]; [inversion H; subst; exact Hc|].
    match type of H with match plan_stage s b ?c1 with _ => _ end = _ =>
      assert (H1 : no_by_without c1 = true) by
        (destruct (match lji with Some j => Nat.eqb i j | None => false end); [cbn [no_by_without]; rewrite Hc, Hfp; reflexivity|exact Hc]);
      destruct (plan_stage s b c1) as [cur2|] eqn:E2; [|discriminate H]
    end.
    apply (plan_stage_nbw _ _ _ _ H1) in E2.
    apply IH in H; [exact H|]. destruct rn; [cbn [no_by_without]|]; exact E2.
Qed.
Lemma plan_log_nbw sel fin p : plan_log sel fin = Some p -> no_by_without p = true.
Proof.
  unfold plan_log. intro H.
  match type of H with match plan_spl ?a ?b ?c ?d ?e ?fp ?cur with _ => _ end = _ =>
    destruct (plan_spl a b c d e fp cur) as [spl|] eqn:E1; [|discriminate H];
    apply (plan_spl_nbw fp e (plan_ts_nbw _ _ _)) in E1; [|cbn [no_by_without]; rewrite plan_ts_nbw; reflexivity]
  end.
  inversion H; subst. cbn [no_by_without].
  destruct (labels_join_idx _ _ _); destruct fin; cbn [no_by_without]; rewrite ?E1, ?plan_ts_nbw; reflexivity.
Qed.

(* for EVERY log query: the statements of one plan object under one context mean what those of never executed plans mean *)
Lemma log_query_one_context_same_meaning re_match parse_float json_get hash_labels tie db sel fin p :
  plan_log sel fin = Some p ->
  forall k c st, map (meaning re_match parse_float json_get hash_labels tie db) (run_plan_sel k p c st) =
                 map (meaning re_match parse_float json_get hash_labels tie db) (fresh_seq_sel k p c).
Proof.
  intro H. apply one_context_same_meaning; [exact (plan_log_is_root _ _ _ H)|exact (plan_log_nbw _ _ _ H)].
Qed.

(* ---------- metric queries without by / without ---------- *)
Definition bw_free (a b : option by_without) : bool := match a, b with None, None => true | _, _ => false end.
Definition lra_bf (l : lra) : bool := bw_free (lra_prefix l) (lra_suffix l).
Definition agg_bf (a : aggop) : bool := bw_free (agg_prefix a) (agg_suffix a) && lra_bf (agg_lra a).
Definition q_bf (q : quantile) : bool := bw_free (q_prefix q) (q_suffix q).
Definition script_by_free (s : script) : bool :=
  match s with
  | SLra l => lra_bf l
  | SAgg a => agg_bf a
  | STopK t => match tk_arg t with TKLra l => lra_bf l | TKAgg a => agg_bf a | TKQuantile q => q_bf q end
  | SQuantile q => q_bf q
  | SLog _ | SMacros => true
  end.
Definition mfn_bf (f : mfn) : bool :=
  match f with
  | MUnwrapFn l => lra_bf l
  | MAgg a => bw_free (agg_prefix a) (agg_suffix a)
  | MQuantile q => q_bf q
  | MLra _ | MTopK _ | MCmp _ => true
  end.
Lemma plan_bw_free a b u cur : bw_free a b = true -> plan_bw a b u cur = cur.
Proof. destruct a, b; cbn; intro H; try discriminate H; reflexivity. Qed.
Lemma plan_cmp_nbw c cur : no_by_without cur = true -> no_by_without (plan_cmp c cur) = true.
Proof. destruct c; exact (fun H => H). Qed.
Lemma apply_mfn_nbw lj li f cur p :
  mfn_bf f = true -> no_by_without cur = true -> apply_mfn lj li f cur = Some p -> no_by_without p = true.
Proof.
  intros Hf Hc H. destruct f; cbn [apply_mfn mfn_bf] in *.
  - inversion H; subst. exact Hc.
  - rewrite (plan_bw_free _ _ _ _ Hf) in H. inversion H; subst. exact Hc.
  - rewrite (plan_bw_free _ _ _ _ Hf) in H. inversion H; subst. exact Hc.
  - unfold plan_topk in H. destruct (Z.ltb (tk_len t) 0); [discriminate H|]. inversion H; subst. exact Hc.
  - unfold q_bf in Hf. rewrite (plan_bw_free _ _ _ _ Hf) in H. inversion H; subst. exact Hc.
  - inversion H; subst. exact Hc.
Qed.
Lemma apply_mfns_nbw lj li fs : forall cur p,
  forallb mfn_bf fs = true -> no_by_without cur = true -> apply_mfns lj li fs cur = Some p -> no_by_without p = true.
Proof.
  induction fs as [|f fs IH]; intros cur p Hf Hc H; cbn [apply_mfns forallb] in *.
  - inversion H; subst. exact Hc.
  - apply andb_prop in Hf. destruct Hf as [Hf1 Hf2].
    destruct (apply_mfn lj li f cur) as [c1|] eqn:E1; [|discriminate H].
    apply (IH c1 p Hf2 (apply_mfn_nbw _ _ _ _ _ Hf1 Hc E1) H).
Qed.
Lemma fo_cmp_bf c : forallb mfn_bf (fo_cmp c) = true. Proof. destruct c; reflexivity. Qed.
Lemma fo_lra_bf l acc lidx : lra_bf l = true -> forallb mfn_bf acc = true -> forallb mfn_bf (fst (fo_lra l acc lidx)) = true.
Proof.
  intros Hl Ha. unfold fo_lra. destruct (last_is_unwrap _); cbn [fst]; rewrite !forallb_app, Ha, fo_cmp_bf; cbn [forallb mfn_bf]; rewrite ?Hl; reflexivity.
Qed.
Lemma fo_agg_bf a acc lidx : agg_bf a = true -> forallb mfn_bf acc = true -> forallb mfn_bf (fst (fo_agg a acc lidx)) = true.
Proof.
  intros Ha Hacc. apply andb_prop in Ha. destruct Ha as [Ha1 Ha2]. unfold fo_agg.
  pose proof (fo_lra_bf (agg_lra a) acc lidx Ha2 Hacc) as H1.
  destruct (fo_lra (agg_lra a) acc lidx) as [acc1 l1]. cbn [fst] in *.
  rewrite !forallb_app, H1, fo_cmp_bf. cbn [forallb mfn_bf]. rewrite Ha1. reflexivity.
Qed.
Lemma fo_quantile_bf q acc lidx : q_bf q = true -> forallb mfn_bf acc = true -> forallb mfn_bf (fst (fo_quantile q acc lidx)) = true.
Proof. intros Hq Ha. unfold fo_quantile. cbn [fst]. rewrite !forallb_app, Ha, fo_cmp_bf. cbn [forallb mfn_bf]. rewrite Hq. reflexivity. Qed.
Lemma function_order_bf s : script_by_free s = true -> forallb mfn_bf (fst (function_order s)) = true.
Proof.
  destruct s; cbn [script_by_free function_order]; intro H; try reflexivity.
  - apply fo_lra_bf; [exact H|reflexivity].
  - apply fo_agg_bf; [exact H|reflexivity].
  - destruct (tk_arg t) as [l|a|q].
    + pose proof (fo_lra_bf l [] None H eq_refl) as H1. destruct (fo_lra l [] None) as [acc l1]. cbn [fst] in *.
      rewrite !forallb_app, H1, fo_cmp_bf. reflexivity.
    + pose proof (fo_agg_bf a [] None H eq_refl) as H1. destruct (fo_agg a [] None) as [acc l1]. cbn [fst] in *.
      rewrite !forallb_app, H1, fo_cmp_bf. reflexivity.
    + pose proof (fo_quantile_bf q [] None H eq_refl) as H1. destruct (fo_quantile q [] None) as [acc l1]. cbn [fst] in *.
      rewrite !forallb_app, H1, fo_cmp_bf. reflexivity.
  - apply fo_quantile_bf; [exact H|reflexivity].
Qed.
Lemma m15_lra_nbw fp l : no_by_without fp = true -> no_by_without (m15_lra fp l) = true.
Proof. intro H. unfold m15_lra. apply plan_cmp_nbw. cbn [no_by_without]. rewrite H. reflexivity. Qed.
Lemma m15_agg_nbw fp a : agg_bf a = true -> no_by_without fp = true -> no_by_without (fst (m15_agg fp a)) = true.
Proof.
  intros Ha H. apply andb_prop in Ha. destruct Ha as [Ha1 _]. unfold m15_agg. cbn [fst]. apply plan_cmp_nbw. cbn [no_by_without].
  rewrite (plan_bw_free _ _ _ _ Ha1). apply m15_lra_nbw. exact H.
Qed.
Lemma plan_m15_nbw fp s p wl : script_by_free s = true -> no_by_without fp = true -> plan_m15 fp s = Some (p, wl) -> no_by_without p = true.
Proof.
  intros Hs Hfp H. destruct s; cbn [plan_m15 script_by_free] in *; try discriminate H.
  - inversion H; subst. apply m15_lra_nbw. exact Hfp.
  - pose proof (m15_agg_nbw fp a Hs Hfp) as H1. destruct (m15_agg fp a) as [p1 w1]. inversion H; subst. exact H1.
  - destruct (tk_arg t) as [l|a|q]; [| |discriminate H].
    + cbn in H. unfold plan_topk in H. destruct (Z.ltb (tk_len t) 0); [discriminate H|]. inversion H; subst.
      apply plan_cmp_nbw. cbn [no_by_without]. apply m15_lra_nbw. exact Hfp.
    + pose proof (m15_agg_nbw fp a Hs Hfp) as H1. destruct (m15_agg fp a) as [p1 w1]. cbn [fst] in H1.
      unfold plan_topk in H. destruct (Z.ltb (tk_len t) 0); [discriminate H|]. inversion H; subst.
      apply plan_cmp_nbw. cbn [no_by_without]. exact H1.
Qed.
Lemma plan_metric_nbw s fin p : script_by_free s = true -> plan_metric s fin = Some p -> no_by_without p = true.
Proof.
  intros Hs H. unfold plan_metric in H.
  destruct (analyze_m15 s).
  - cbn [bind] in H.
    destruct (plan_m15 _ s) as [[p0 wl]|] eqn:E0; cbn [bind] in H; [|discriminate H].
    apply (plan_m15_nbw _ _ _ _ Hs (plan_ts_nbw _ _ _)) in E0.
    inversion H; subst. cbn [negb andb no_by_without]. destruct wl; cbn [negb andb no_by_without]; rewrite ?E0, ?plan_ts_nbw; reflexivity.
  - cbn [bind] in H.
    match type of H with context [plan_spl ?a ?b ?c ?d ?e ?fp ?cur] =>
      destruct (plan_spl a b c d e fp cur) as [spl|] eqn:E1; cbn [bind] in H; [|discriminate H];
      apply (plan_spl_nbw fp e (plan_ts_nbw _ _ _)) in E1; [|cbn [no_by_without]; rewrite plan_ts_nbw; reflexivity]
    end.
    pose proof (function_order_bf s Hs) as Hfo.
    destruct (function_order s) as [order lidx]. cbn [fst] in Hfo.
    match type of H with context [apply_mfns ?a ?b order spl] =>
      destruct (apply_mfns a b order spl) as [p0|] eqn:E2; cbn [bind] in H; [|discriminate H];
      apply (apply_mfns_nbw _ _ _ _ _ Hfo E1) in E2
    end.
    inversion H; subst. cbn [no_by_without].
    match goal with |- context [if ?b then _ else _] => destruct b end; cbn [no_by_without]; rewrite ?E2, ?plan_ts_nbw; reflexivity.
Qed.
Lemma plan_script_nbw s fin p : script_by_free s = true -> plan_script s fin = Some p -> no_by_without p = true.
Proof.
  intros Hs H. destruct s; cbn [plan_script] in H; try discriminate H;
    first [exact (plan_log_nbw _ _ _ H) | exact (plan_metric_nbw _ _ _ Hs H)].
Qed.
(* every log query and every metric query without by / without *)
Lemma script_one_context_same_meaning re_match parse_float json_get hash_labels tie db s fin p :
  script_by_free s = true -> plan_script s fin = Some p ->
  forall k c st, map (meaning re_match parse_float json_get hash_labels tie db) (run_plan_sel k p c st) =
                 map (meaning re_match parse_float json_get hash_labels tie db) (fresh_seq_sel k p c).
Proof.
  intros Hs H. apply one_context_same_meaning; [exact (plan_script_is_root _ _ _ H)|exact (plan_script_nbw _ _ _ Hs H)].
Qed.
Lemma script_one_context_same_erasure s fin p :
  script_by_free s = true -> plan_script s fin = Some p ->
  forall k c st, erase_all (run_plan_sel k p c st) = erase_all (fresh_seq_sel k p c).
Proof.
  intros Hs H. apply one_context_same_erasure; [exact (plan_script_is_root _ _ _ H)|exact (plan_script_nbw _ _ _ Hs H)].
Qed.

(* a metric plan without by/without is covered too; one with it is not (its aliases name tables and qualify columns) *)
Definition metric_by_free_example : script :=
  SLra {| lra_f := FRate; lra_sel := witness_sel; lra_dur_ns := 60000000000; lra_prefix := None; lra_suffix := None; lra_cmp := None |}.
Lemma metric_by_free_meets_guard :
  match plan_script metric_by_free_example true with
  | Some p => is_root p = true /\ no_by_without p = true /\ draws_ids p = true
  | None => False
  end.
Proof. vm_compute. repeat split; reflexivity. Qed.
Definition metric_by_example : script :=
  SAgg {| agg_f := ASum; agg_prefix := None;
          agg_lra := {| lra_f := FRate; lra_sel := witness_sel; lra_dur_ns := 60000000000; lra_prefix := None; lra_suffix := None; lra_cmp := None |};
          agg_suffix := Some {| bw_labels := ["x"]; bw_by := true |}; agg_cmp := None |}.
Lemma metric_by_outside_guard :
  match plan_script metric_by_example true with
  | Some p => no_by_without p = false
  | None => False
  end.
Proof. vm_compute. reflexivity. Qed.
Lemma metric_by_free_is_by_free : script_by_free metric_by_free_example = true /\ script_by_free metric_by_example = false.
Proof. split; reflexivity. Qed.
