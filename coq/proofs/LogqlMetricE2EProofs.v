(* Proofs for C08 end to end: the lines of C07's reference log_rows2 satisfy the hypotheses of metric_correct
   (a fingerprint stands for one label set, timestamps are not negative) for every pipeline of line filters, label
   filters, json stages and drops, so the planned metric SQL (LogqlMetricSem.sem) computes the reference stated over
   the stored data (a drop stage re-fingerprints the line since the repair of drop-keeps-fingerprint in /repo). *)
From Coq Require Import List ZArith NArith QArith Qcanon String Bool Lia Permutation.
From Qryn Require Import lib.Strs model.Sql model.Logql model.LogqlPlan model.SqlEval model.LogqlSem model.LogqlMetricSem
  model.LogqlMetricE2E proofs.LogqlMetricProofs.
Import ListNotations.
Open Scope Z_scope.
Local Notation In := List.In (only parsing).

Section E2E_PROOFS.
  Variable re_match : string -> string -> bool.
  Variable parse_float : string -> option Q.
  Variable json_get : string -> list string -> string.
  Variable hash_labels : LogqlSem.labels -> Z.
  Hypothesis hash_inj : forall a b, hash_labels a = hash_labels b -> a = b.
  Hypothesis hash_nonneg : forall a, 0 <= hash_labels a.

  Notation run := (run_stages re_match parse_float json_get hash_labels).
  Definition hashed (st : pstate) : Prop := p_fp st = hash_labels (p_labels st).

  (* every relabelling stage (json parameters, drop) re-fingerprints the line with the hash of its new label map *)
  Lemma run_hashed : forall ppl line st st', hashed st -> run ppl line st = Some st' -> hashed st'.
  Proof.
    induction ppl as [|s r IH]; intros line st st' Hh Hr; cbn [run_stages] in Hr.
    - now inversion Hr; subst.
    - destruct s as [op v rl|f|fn ps|t| |l|ps]; try discriminate.
      + destruct (line_ok _ _ _ _); [|discriminate]. eapply IH; eassumption.
      + destruct (lf_ok _ _ _ _); [|discriminate]. eapply IH; eassumption.
      + destruct fn; try discriminate. destruct (json_stage _ _ _ _ _) as [st1|] eqn:Ej; [|discriminate].
        eapply IH; [|exact Hr]. unfold json_stage in Ej. destruct (all_paths ps); [|discriminate].
        inversion Ej; subst. reflexivity.
      + eapply IH; [|exact Hr]. reflexivity.
  Qed.
  Lemma run_relabel_hashed : forall ppl line st st', has_relabel ppl = true ->
    run ppl line st = Some st' -> hashed st'.
  Proof.
    induction ppl as [|s r IH]; intros line st st' Hj Hr; [discriminate|]. cbn [run_stages] in Hr.
    unfold has_relabel in Hj. cbn [existsb] in Hj.
    destruct s as [op v rl|f|fn ps|t| |l|ps]; try discriminate.
    - destruct (line_ok _ _ _ _); [|discriminate]. eapply IH; eassumption.
    - destruct (lf_ok _ _ _ _); [|discriminate]. eapply IH; eassumption.
    - destruct fn; try discriminate. destruct (json_stage _ _ _ _ _) as [st1|] eqn:Ej; [|discriminate].
      eapply run_hashed; [|exact Hr]. unfold json_stage in Ej. destruct (all_paths ps); [|discriminate].
      inversion Ej; subst. reflexivity.
    - eapply run_hashed; [|exact Hr]. reflexivity.
  Qed.
  Lemma run_plain : forall ppl line st st', has_relabel ppl = false ->
    run ppl line st = Some st' -> st' = st.
  Proof.
    induction ppl as [|s r IH]; intros line st st' Hj Hr; cbn [run_stages] in Hr; [now inversion Hr|].
    unfold has_relabel in Hj. cbn [existsb] in Hj. apply orb_false_iff in Hj. destruct Hj as [Hj1 Hj].
    destruct s as [op v rl|f|fn ps|t| |l|ps]; try discriminate.
    - destruct (line_ok _ _ _ _); [|discriminate]. eapply IH; eassumption.
    - destruct (lf_ok _ _ _ _); [|discriminate]. eapply IH; eassumption.
    - destruct fn; discriminate.
  Qed.

  (* a line of log_rows2 comes from a stored sample through run_stages *)
  Lemma log_rows2_in q c d o : In o (log_rows2 re_match parse_float json_get hash_labels q c d) ->
    exists x st, In x (d_samples d) /\ in_window c x = true /\
      run (sel_pipeline q) (x_line x) {| p_labels := series_labels d (x_fp x); p_fp := x_fp x |} = Some st /\
      o = {| o_fp := p_fp st; o_labels := p_labels st; o_line := x_line x; o_ts := x_ts x |}.
  Proof.
    unfold log_rows2. intros H. apply in_flat_map in H. destruct H as [x [Hx Ho]].
    unfold sample_out in Ho.
    destruct (in_window c x) eqn:Ew; cbn [andb] in Ho; [|contradiction].
    destruct (type_in c (x_type x) && forallb _ _); [|contradiction].
    destruct (run_stages _ _ _ _ _ _ _) as [st|] eqn:Er; [|contradiction].
    destruct Ho as [<-|[]]. exists x, st. auto.
  Qed.

  Lemma series_labels_of c d x : db_ok c d -> In x (d_samples d) ->
    exists s, In s (d_series d) /\ ts_fp s = x_fp x /\ series_labels d (x_fp x) = ts_labels s.
  Proof.
    intros [_ [Huniq [_ Hs]]] Hx. destruct (Hs x Hx) as [s [Hin [Hfp _]]].
    unfold series_labels. destruct (find _ (d_series d)) as [s'|] eqn:Ef.
    - apply find_some in Ef. destruct Ef as [Hin' Hfp']. apply Z.eqb_eq in Hfp'.
      exists s. split; [exact Hin|]. split; [exact Hfp|]. apply Huniq; [exact Hin'|exact Hin|congruence].
    - exfalso. apply (find_none _ _ Ef s) in Hin. apply Z.eqb_neq in Hin. congruence.
  Qed.

  (* the hypotheses of metric_correct hold of the lines of log_rows2 *)
  Theorem base_consistent q c d : db_ok c d -> fp_of_labels_ok d ->
    consistent (map mrow_of (log_rows2 re_match parse_float json_get hash_labels q c d)).
  Proof.
    intros Hdb [Hfl Hnn] a b Ha Hb.
    apply in_map_iff in Ha. destruct Ha as [oa [<- Ha]]. apply in_map_iff in Hb. destruct Hb as [ob [<- Hb]].
    destruct (log_rows2_in _ _ _ _ Ha) as [x [sx [Hx [_ [Hrx ->]]]]].
    destruct (log_rows2_in _ _ _ _ Hb) as [y [sy [Hy [_ [Hry ->]]]]].
    cbn [mrow_of r_fp r_labels o_fp o_labels].
    destruct (has_relabel (sel_pipeline q)) eqn:Ej.
    - pose proof (run_relabel_hashed _ _ _ _ Ej Hrx) as Hhx. pose proof (run_relabel_hashed _ _ _ _ Ej Hry) as Hhy.
      unfold hashed in *. rewrite Hhx, Hhy. split.
      + intros E. apply hash_inj. apply Z2N.inj in E; [exact E|apply hash_nonneg|apply hash_nonneg].
      + now intros ->.
    - apply (run_plain _ _ _ _ Ej) in Hrx. apply (run_plain _ _ _ _ Ej) in Hry. subst sx sy. cbn [p_fp p_labels].
      destruct (series_labels_of c d x Hdb Hx) as [s1 [Hs1 [Hf1 ->]]].
      destruct (series_labels_of c d y Hdb Hy) as [s2 [Hs2 [Hf2 ->]]].
      destruct Hdb as [_ [Huniq _]]. split.
      + intros E. apply Z2N.inj in E; [|rewrite <- Hf1; now apply Hnn|rewrite <- Hf2; now apply Hnn].
        apply Huniq; [exact Hs1|exact Hs2|congruence].
      + intros E. rewrite <- Hf1, <- Hf2. f_equal. now apply Hfl.
  Qed.
  Theorem base_nonneg q c d : 0 <= c_from_ns c ->
    nonneg (map mrow_of (log_rows2 re_match parse_float json_get hash_labels q c d)).
  Proof.
    intros Hc a Ha. apply in_map_iff in Ha. destruct Ha as [o [<- Ho]].
    destruct (log_rows2_in _ _ _ _ Ho) as [x [st [_ [Hw [_ ->]]]]]. cbn.
    unfold in_window in Hw. apply andb_true_iff in Hw. destruct Hw as [Hw _]. apply Z.leb_le in Hw. lia.
  Qed.

  Lemma consistent_perm rows rows' : Permutation rows' rows -> consistent rows -> consistent rows'.
  Proof. intros Hp Hc a b Ha Hb. apply Hc; eapply Permutation_in; eassumption. Qed.
  Lemma nonneg_perm rows rows' : Permutation rows' rows -> nonneg rows -> nonneg rows'.
  Proof. intros Hp Hn a Ha. apply Hn. eapply Permutation_in; eassumption. Qed.

  Variable fp : lmap -> N.
  Variable to_float : string -> Qc.
  Variable quantile_o : string -> list Qc -> Qc.
  Variable varpop stddevpop : list Qc -> Qc.
  Hypothesis fp_inj : forall a b, fp a = fp b -> a = b.

  Lemma entries_of_base s c d :
    map entry_of (base_of re_match parse_float json_get hash_labels s c d)
    = map entry_of_out (log_lines re_match parse_float json_get hash_labels s c d).
  Proof. unfold base_of. rewrite map_map. reflexivity. Qed.

  (* END TO END. Whatever order the log part of the statement delivers the matching lines in (base is any permutation
     of the lines log_rows2 defines - C07's theorem about the log selects), the planned metric selects compute the
     reference over exactly those lines. *)
  Theorem metric_correct_db c d s fin p base :
    analyze_m15 s = false -> plan_metric s fin = Some p -> script_ok s -> 0 < c_step_ns c ->
    db_ok c d -> fp_of_labels_ok d -> 0 <= c_from_ns c ->
    Permutation base (base_of re_match parse_float json_get hash_labels s c d) ->
    option_map (map strip) (sem fp to_float quantile_o varpop stddevpop p c base)
      = metric_ref to_float quantile_o varpop stddevpop s c (map entry_of base)
    /\ Permutation (map entry_of base) (map entry_of_out (log_lines re_match parse_float json_get hash_labels s c d)).
  Proof.
    intros Ha Hp Hok Hs Hdb Hfl Hc Hperm. split.
    - apply (metric_correct fp to_float quantile_o varpop stddevpop fp_inj c base s fin p Ha Hp Hok Hs).
      + eapply consistent_perm; [exact Hperm|]. now apply (base_consistent _ c d).
      + eapply nonneg_perm; [exact Hperm|]. now apply base_nonneg.
    - rewrite <- entries_of_base. now apply Permutation_map.
  Qed.
  (* in table order the two sides are the same function of the stored data *)
  Corollary metric_correct_db_eq c d s fin p :
    analyze_m15 s = false -> plan_metric s fin = Some p -> script_ok s -> 0 < c_step_ns c ->
    db_ok c d -> fp_of_labels_ok d -> 0 <= c_from_ns c ->
    option_map (map strip) (sem fp to_float quantile_o varpop stddevpop p c (base_of re_match parse_float json_get hash_labels s c d))
      = metric_ref_db re_match parse_float json_get hash_labels to_float quantile_o varpop stddevpop s c d.
  Proof.
    intros Ha Hp Hok Hs Hdb Hfl Hc.
    destruct (metric_correct_db c d s fin p _ Ha Hp Hok Hs Hdb Hfl Hc (Permutation_refl _)) as [-> _].
    unfold metric_ref_db. now rewrite entries_of_base.
  Qed.
End E2E_PROOFS.


(* rate({a="b"} | drop c [5s]) over the streams {a="b",c="1"} and {a="b",c="2"}, one line each in one window *)
Definition dk_sel : strsel :=
  {| sel_matchers := [{| m_name := "a"; m_op := MEq; m_val := "b" |}]%string; sel_pipeline := [PDrop [("c", None)]]%string |}.
Definition dk_script : script :=
  SLra {| lra_f := FRate; lra_prefix := None; lra_sel := dk_sel; lra_dur_ns := 5000000000; lra_suffix := None; lra_cmp := None |}.
Definition dk_ctx : pctx :=
  {| c_from_ns := 1700000000000000000; c_to_ns := 1700000010000000000; c_limit := 0; c_asc := true; c_cluster := false;
     c_type := 0; c_finalize := true; c_step_ns := 5000000000; t_gin := "time_series_gin"; t_samples := "samples_v3";
     t_ts := "time_series"; t_ts_dist := "time_series"; t_m15 := "metrics_15s" |}%string.
Definition dk_s1 : series_row := {| ts_day := 19675; ts_fp := 1; ts_labels := [("a", "b"); ("c", "1")]%string; ts_type := 1 |}.
Definition dk_s2 : series_row := {| ts_day := 19675; ts_fp := 2; ts_labels := [("a", "b"); ("c", "2")]%string; ts_type := 1 |}.
Definition dk_db : LogqlSem.database :=
  {| d_gin := [gin_of dk_s1 ("a", "b"); gin_of dk_s1 ("c", "1"); gin_of dk_s2 ("a", "b"); gin_of dk_s2 ("c", "2")]%string;
     d_series := [dk_s1; dk_s2];
     d_samples := [{| x_fp := 1; x_ts := 1700000001000000000; x_line := "x"; x_type := 1 |};
                   {| x_fp := 2; x_ts := 1700000002000000000; x_line := "y"; x_type := 1 |}]%string |}.

Lemma dk_db_ok : db_ok dk_ctx dk_db /\ fp_of_labels_ok dk_db.
Proof.
  split.
  - unfold db_ok, dk_db. cbn [d_gin d_series d_samples]. split; [|split; [|split]].
    + intros g. split.
      * intros [<-|[<-|[<-|[<-|[]]]]]; [exists dk_s1, ("a","b")%string|exists dk_s1, ("c","1")%string|exists dk_s2, ("a","b")%string|exists dk_s2, ("c","2")%string]; cbn; tauto.
      * intros [s [kv [[<-|[<-|[]]] [[<-|[<-|[]]] ->]]]]; cbn; tauto.
    + intros s1 s2 [<-|[<-|[]]] [<-|[<-|[]]] E; try reflexivity; discriminate.
    + intros s [<-|[<-|[]]]; cbn; (constructor; [intros [E|[]]; discriminate|constructor; [intros []|constructor]]).
    + intros x [<-|[<-|[]]]; [exists dk_s1|exists dk_s2]; cbn; (split; [tauto|]); (split; [reflexivity|]); (split; [reflexivity|]);
        vm_compute; discriminate.
  - split.
    + intros s1 s2 [<-|[<-|[]]] [<-|[<-|[]]] E; try reflexivity; discriminate.
    + intros s [<-|[<-|[]]]; cbn; lia.
Qed.

(* the witness of the repaired finding drop-keeps-fingerprint (PlannerDrop kept the fingerprint of the stream: the SQL side
   reported TWO series with the one label set {a="b"}): since the repair the drop re-fingerprints the line, and both sides
   report ONE series counting both lines - for every oracle *)
Theorem metric_drop_witness :
  forall re_match parse_float json_get (hash_labels : LogqlSem.labels -> Z),
  (forall a b, hash_labels a = hash_labels b -> a = b) -> (forall a, 0 <= hash_labels a) ->
  forall (fp : lmap -> N) to_float quantile_o varpop stddevpop, (forall a b, fp a = fp b -> a = b) ->
  exists p, plan_metric dk_script true = Some p /\ analyze_m15 dk_script = false /\ script_ok dk_script /\
    db_ok dk_ctx dk_db /\ fp_of_labels_ok dk_db /\
    no_drop (sel_pipeline (log_part dk_script)) = false /\
    option_map (map (fun r => (v_labels r, v_ts r, this (v_val r))))
      (option_map (map strip) (sem fp to_float quantile_o varpop stddevpop p dk_ctx (base_of re_match parse_float json_get hash_labels dk_script dk_ctx dk_db)))
      = Some [([("a", "b")]%string, 1700000000000000000, (2 # 5)%Q)] /\
    option_map (map (fun r => (v_labels r, v_ts r, this (v_val r))))
      (metric_ref_db re_match parse_float json_get hash_labels to_float quantile_o varpop stddevpop dk_script dk_ctx dk_db)
      = Some [([("a", "b")]%string, 1700000000000000000, (2 # 5)%Q)].
Proof.
  intros re_match parse_float json_get hash_labels Hinj Hnn fp to_float quantile_o varpop stddevpop Hfp.
  assert (Hp : exists p, plan_metric dk_script true = Some p) by (eexists; reflexivity). destruct Hp as [p Hp].
  assert (Href : option_map (map (fun r => (v_labels r, v_ts r, this (v_val r))))
      (metric_ref_db re_match parse_float json_get hash_labels to_float quantile_o varpop stddevpop dk_script dk_ctx dk_db)
      = Some [([("a", "b")]%string, 1700000000000000000, (2 # 5)%Q)]) by (vm_compute; reflexivity).
  exists p. split; [exact Hp|]. split; [reflexivity|]. split; [cbv; reflexivity|].
  split; [apply dk_db_ok|]. split; [apply dk_db_ok|]. split; [reflexivity|]. split; [|exact Href].
  rewrite (metric_correct_db_eq re_match parse_float json_get hash_labels Hinj Hnn fp to_float quantile_o varpop stddevpop Hfp
             dk_ctx dk_db dk_script true p); [exact Href|reflexivity|exact Hp|cbv; reflexivity|reflexivity|apply dk_db_ok|apply dk_db_ok|cbn; lia].
Qed.

(* the hypotheses of metric_correct_db are met by sum by (a) (rate({a="b"} | json x="x" [5s]) > 1) over the two streams
   above: both lines leave the log pipeline (re-labelled, x = what the json oracle extracts) *)
Example metric_correct_db_hyp :
  analyze_m15 ex_script = false /\ (exists p, plan_metric ex_script true = Some p) /\ script_ok ex_script /\
  0 < c_step_ns dk_ctx /\ db_ok dk_ctx dk_db /\ fp_of_labels_ok dk_db /\ 0 <= c_from_ns dk_ctx /\
  forall re_match parse_float json_get hash_labels,
    List.length (base_of re_match parse_float json_get hash_labels ex_script dk_ctx dk_db) = 2%nat.
Proof.
  split; [reflexivity|]. split; [eexists; reflexivity|]. split; [cbv; reflexivity|]. split; [reflexivity|].
  split; [apply dk_db_ok|]. split; [apply dk_db_ok|]. split; [cbn; lia|].
  intros. vm_compute. reflexivity.
Qed.


(* topk / bottomk end to end: the same composition for topk_correct *)
Section E2E_TOPK.
  Variable re_match : string -> string -> bool.
  Variable parse_float : string -> option Q.
  Variable json_get : string -> list string -> string.
  Variable hash_labels : LogqlSem.labels -> Z.
  Hypothesis hash_inj : forall a b, hash_labels a = hash_labels b -> a = b.
  Hypothesis hash_nonneg : forall a, 0 <= hash_labels a.
  Variable fp : lmap -> N.
  Variable to_float : string -> Qc.
  Variable quantile_o : string -> list Qc -> Qc.
  Variable varpop stddevpop : list Qc -> Qc.
  Hypothesis fp_inj : forall a b, fp a = fp b -> a = b.

  Theorem topk_correct_db c d t fin p base :
    analyze_m15 (STopK t) = false -> plan_metric (STopK t) fin = Some p -> script_ok (tk_inner t) -> 0 < c_step_ns c ->
    db_ok c d -> fp_of_labels_ok d -> 0 <= c_from_ns c ->
    Permutation base (base_of re_match parse_float json_get hash_labels (STopK t) c d) ->
    match sem fp to_float quantile_o varpop stddevpop p c base with
    | Some out =>
      exists inner kept, inner_ref to_float quantile_o varpop stddevpop (tk_inner t) (map entry_of base) = Some (map strip inner) /\
                         topk_spec (tk_len t) (tk_top t) inner kept /\
                         map strip out = ref_step (c_step_ns c) (get_duration (STopK t)) (ref_cmp (tk_cmp t) (map strip kept))
    | None => inner_ref to_float quantile_o varpop stddevpop (tk_inner t) (map entry_of base) = None
    end.
  Proof.
    intros Ha Hp Hok Hs Hdb Hfl Hc Hperm.
    apply (topk_correct fp to_float quantile_o varpop stddevpop fp_inj c base t fin p Ha Hp Hok Hs).
    - eapply consistent_perm; [exact Hperm|]. now apply (base_consistent re_match parse_float json_get hash_labels hash_inj hash_nonneg _ c d).
    - eapply nonneg_perm; [exact Hperm|]. now apply base_nonneg.
  Qed.
End E2E_TOPK.


(* ---------- a vector aggregation without grouping clause ---------- *)
Lemma metric_ref_def_grouped_proof to_float quantile_o varpop stddevpop s c es :
  agg_grouped s = true ->
  metric_ref_def to_float quantile_o varpop stddevpop s c es = metric_ref to_float quantile_o varpop stddevpop s c es.
Proof.
  destruct s as [q|l|a|t|q|]; try reflexivity. unfold agg_grouped. intros H.
  unfold metric_ref_def, metric_ref, ref_aggop_def, ref_aggop, ref_agg_def, ref_agg, grouping.
  destruct (agg_suffix a) as [b|]; [reflexivity|]. destruct (agg_prefix a) as [b|]; [reflexivity|discriminate].
Qed.

(* sum(rate({a="b"}[5s])) over the streams {a="b",c="1"} and {a="b",c="2"}, one line each in one window: the ClickHouse planners
   GIVEN THE SCRIPT AS WRITTEN (and metric_ref, which follows them) report the two streams with 0.2 each; the definition one
   series {} with 0.4. Since the repair of agg-without-grouping-keeps-streams the reader's entry point hands them norm_script of
   the script (below: ungrouped_sum_is_one_series); this lemma records what clickhouse_planner.Plan does on its own. *)
Definition ng_sel : strsel := {| sel_matchers := [{| m_name := "a"; m_op := MEq; m_val := "b" |}]%string; sel_pipeline := [] |}.
Definition ng_script : script :=
  SAgg {| agg_f := ASum; agg_prefix := None;
          agg_lra := {| lra_f := FRate; lra_prefix := None; lra_sel := ng_sel; lra_dur_ns := 5000000000; lra_suffix := None; lra_cmp := None |};
          agg_suffix := None; agg_cmp := None |}.
Theorem agg_without_grouping_refuted_proof :
  forall re_match parse_float json_get hash_labels fp to_float quantile_o varpop stddevpop,
  exists p, plan_metric ng_script true = Some p /\ analyze_m15 ng_script = false /\ script_ok ng_script /\
    db_ok dk_ctx dk_db /\ fp_of_labels_ok dk_db /\ agg_grouped ng_script = false /\
    option_map (map (fun r => (v_labels r, v_ts r, this (v_val r))))
      (option_map (map strip) (sem fp to_float quantile_o varpop stddevpop p dk_ctx (base_of re_match parse_float json_get hash_labels ng_script dk_ctx dk_db)))
      = Some [([("a", "b"); ("c", "1")]%string, 1700000000000000000, (1 # 5)%Q); ([("a", "b"); ("c", "2")]%string, 1700000000000000000, (1 # 5)%Q)] /\
    option_map (map (fun r => (v_labels r, v_ts r, this (v_val r))))
      (metric_ref_def to_float quantile_o varpop stddevpop ng_script dk_ctx
         (map entry_of_out (log_lines re_match parse_float json_get hash_labels ng_script dk_ctx dk_db)))
      = Some [([], 1700000000000000000, (2 # 5)%Q)].
Proof.
  intros. eexists. split; [reflexivity|]. split; [reflexivity|]. split; [cbv; reflexivity|].
  split; [apply dk_db_ok|]. split; [apply dk_db_ok|]. split; [reflexivity|]. split; vm_compute; reflexivity.
Qed.
Example vector_aggregation_partial_hyp : agg_grouped ex_script = true /\ agg_grouped dk_script = true.
Proof. split; reflexivity. Qed.

(* ---------- repair of agg-without-grouping-keeps-streams: the reader's entry point gives a vector aggregation written
   without clause the grouping `by ()` (groupByNothing in /repo = norm_script); the plan of the normalised script computes
   the DEFINITION of the script as written ---------- *)
Lemma norm_script_selector s : stream_selector (norm_script s) = stream_selector s.
Proof.
  destruct s as [q|l|a|t|q|]; try reflexivity.
  - unfold norm_script, norm_agg. destruct (agg_prefix a), (agg_suffix a); reflexivity.
  - unfold norm_script. destruct t as [tp ln arg cm]. cbn [tk_arg]. destruct arg as [l|a|q]; try reflexivity.
    unfold norm_agg. destruct (agg_prefix a), (agg_suffix a); reflexivity.
Qed.
Lemma norm_script_first_lra s : first_lra (norm_script s) = first_lra s.
Proof.
  destruct s as [q|l|a|t|q|]; try reflexivity.
  - unfold norm_script, norm_agg. destruct (agg_prefix a), (agg_suffix a); reflexivity.
  - unfold norm_script. destruct t as [tp ln arg cm]. cbn [tk_arg]. destruct arg as [l|a|q]; try reflexivity.
    unfold norm_agg. destruct (agg_prefix a), (agg_suffix a); reflexivity.
Qed.
Lemma norm_script_analyze s : analyze_m15 (norm_script s) = analyze_m15 s.
Proof. unfold analyze_m15. now rewrite norm_script_first_lra. Qed.
Lemma norm_script_duration s : get_duration (norm_script s) = get_duration s.
Proof.
  destruct s as [q|l|a|t|q|]; try reflexivity.
  - unfold norm_script, norm_agg. destruct (agg_prefix a), (agg_suffix a); reflexivity.
  - unfold norm_script. destruct t as [tp ln arg cm]. cbn [tk_arg]. destruct arg as [l|a|q]; try reflexivity.
    unfold norm_agg. destruct (agg_prefix a), (agg_suffix a); reflexivity.
Qed.
Lemma norm_script_ok s : script_ok (norm_script s) <-> script_ok s.
Proof.
  destruct s as [q|l|a|t|q|]; try tauto.
  - unfold norm_script, norm_agg. destruct (agg_prefix a), (agg_suffix a); cbn; tauto.
  - unfold norm_script. destruct t as [tp ln arg cm]. cbn [tk_arg]. destruct arg as [l|a|q]; cbn; tauto.
Qed.
Lemma norm_script_grouped s : agg_grouped (norm_script s) = true.
Proof.
  destruct s as [q|l|a|t|q|]; try reflexivity.
  - unfold norm_script, norm_agg, agg_grouped. destruct (agg_prefix a) eqn:E1, (agg_suffix a) eqn:E2; cbn; rewrite ?E1, ?E2; reflexivity.
  - unfold norm_script. destruct (tk_arg t); reflexivity.
Qed.
Lemma norm_script_idem s : norm_script (norm_script s) = norm_script s.
Proof.
  destruct s as [q|l|a|t|q|]; try reflexivity.
  - unfold norm_script, norm_agg. destruct (agg_prefix a) eqn:E1, (agg_suffix a) eqn:E2; cbn; rewrite ?E1, ?E2; reflexivity.
  - unfold norm_script. destruct t as [tp ln arg cm]. cbn [tk_arg]. destruct arg as [l|a|q]; try reflexivity. cbn [tk_arg].
    unfold norm_agg. destruct (agg_prefix a) eqn:E1, (agg_suffix a) eqn:E2; cbn; rewrite ?E1, ?E2; reflexivity.
Qed.

(* the definition (a vector aggregation without clause yields ONE series {}) of the script as written is the reference of
   the script the planners get *)
Lemma metric_ref_def_norm to_float quantile_o varpop stddevpop s c es :
  metric_ref_def to_float quantile_o varpop stddevpop s c es = metric_ref to_float quantile_o varpop stddevpop (norm_script s) c es.
Proof.
  destruct s as [q|l|a|t|q|]; try reflexivity.
  - unfold norm_script, norm_agg.
    destruct (agg_prefix a) as [b1|] eqn:E1; [apply metric_ref_def_grouped_proof; unfold agg_grouped; rewrite E1; now destruct (agg_suffix a)|].
    destruct (agg_suffix a) as [b2|] eqn:E2; [apply metric_ref_def_grouped_proof; unfold agg_grouped; now rewrite E2|].
    unfold metric_ref_def, metric_ref, ref_aggop_def, ref_aggop, ref_agg_def, ref_agg, grouping. cbn [agg_lra agg_cmp agg_f agg_prefix agg_suffix].
    rewrite E1, E2. cbn [get_duration agg_lra].
    assert (H : forall m, regroup (Some by_nothing) m = regroup_def None m).
    { intros m. unfold regroup, regroup_def, by_nothing, bw_map. cbn [bw_labels bw_by]. induction m as [|kv m IH]; [reflexivity|exact IH]. }
    destruct (ref_lra to_float varpop stddevpop (agg_lra a) es) as [v|]; [|reflexivity].
    rewrite (map_ext (fun r : vrow => {| v_labels := regroup (Some by_nothing) (v_labels r); v_ts := v_ts r; v_val := v_val r |})
                     (fun r : vrow => {| v_labels := regroup_def None (v_labels r); v_ts := v_ts r; v_val := v_val r |}));
      [reflexivity | intros r; now rewrite H].
  - unfold norm_script. destruct (tk_arg t); reflexivity.
Qed.

(* THE DEFINITION, for every script written with or without a grouping clause: the statement planned for the script the reader's
   entry point hands over (norm_script s) computes metric_ref_def of the script AS WRITTEN - a vector aggregation without clause
   yields one series with the empty label set. (Before the repair: vector_aggregation_without_grouping_refuted.) *)
Theorem metric_correct_definition :
  forall (fp : lmap -> N) (to_float : string -> Qc) (quantile_o : string -> list Qc -> Qc) (varpop stddevpop : list Qc -> Qc),
  (forall a b, fp a = fp b -> a = b) ->
  forall c base s fin p,
  analyze_m15 s = false -> plan_metric (norm_script s) fin = Some p -> script_ok s ->
  0 < c_step_ns c -> consistent base -> nonneg base ->
  option_map (map strip) (sem fp to_float quantile_o varpop stddevpop p c base) =
  metric_ref_def to_float quantile_o varpop stddevpop s c (map entry_of base).
Proof.
  intros fp to_float quantile_o varpop stddevpop Hfp c base s fin p Ha Hp Hok Hs Hc Hn.
  rewrite metric_ref_def_norm.
  apply (metric_correct fp to_float quantile_o varpop stddevpop Hfp c base (norm_script s) fin p); try assumption.
  - now rewrite norm_script_analyze.
  - now apply norm_script_ok.
Qed.
(* the same for the scripts answered from the roll-up table *)
Theorem shortcut_metric_correct_definition :
  forall (fp : lmap -> N) (to_float : string -> Qc) (quantile_o : string -> list Qc -> Qc) (varpop stddevpop : list Qc -> Qc),
  (forall a b, fp a = fp b -> a = b) ->
  forall c base s fin p,
  analyze_m15 s = true -> plan_metric (norm_script s) fin = Some p ->
  (match s with SLra _ | SAgg _ => True | _ => False end) ->
  0 < c_step_ns c -> consistent base -> nonneg base ->
  option_map (map strip) (sem fp to_float quantile_o varpop stddevpop p c base) =
  metric_ref_def to_float quantile_o varpop stddevpop s c (map entry_of base).
Proof.
  intros fp to_float quantile_o varpop stddevpop Hfp c base s fin p Ha Hp Hk Hs Hc Hn.
  rewrite metric_ref_def_norm.
  apply (shortcut_metric_correct fp to_float quantile_o varpop stddevpop Hfp c base (norm_script s) fin p); try assumption.
  - now rewrite norm_script_analyze.
  - destruct s; try contradiction; exact I.
Qed.
(* ... and over stored data *)
Theorem metric_correct_db_definition :
  forall re_match parse_float json_get (hash_labels : LogqlSem.labels -> Z),
  (forall a b, hash_labels a = hash_labels b -> a = b) -> (forall a, 0 <= hash_labels a) ->
  forall (fp : lmap -> N) (to_float : string -> Qc) (quantile_o : string -> list Qc -> Qc) (varpop stddevpop : list Qc -> Qc),
  (forall a b, fp a = fp b -> a = b) ->
  forall c d s fin p base,
  analyze_m15 s = false -> plan_metric (norm_script s) fin = Some p -> script_ok s -> 0 < c_step_ns c ->
  db_ok c d -> fp_of_labels_ok d -> 0 <= c_from_ns c ->
  Permutation base (base_of re_match parse_float json_get hash_labels s c d) ->
  option_map (map strip) (sem fp to_float quantile_o varpop stddevpop p c base)
    = metric_ref_def to_float quantile_o varpop stddevpop s c (map entry_of base)
  /\ Permutation (map entry_of base) (map entry_of_out (log_lines re_match parse_float json_get hash_labels s c d)).
Proof.
  intros re_match parse_float json_get hash_labels Hinj Hnn fp to_float quantile_o varpop stddevpop Hfp c d s fin p base
    Ha Hp Hok Hs Hdb Hfl Hc Hperm.
  rewrite metric_ref_def_norm.
  assert (Eb : base_of re_match parse_float json_get hash_labels (norm_script s) c d = base_of re_match parse_float json_get hash_labels s c d).
  { unfold base_of, log_lines, log_part. now rewrite norm_script_selector. }
  assert (El : log_lines re_match parse_float json_get hash_labels (norm_script s) c d = log_lines re_match parse_float json_get hash_labels s c d).
  { unfold log_lines, log_part. now rewrite norm_script_selector. }
  rewrite <- El.
  apply (metric_correct_db re_match parse_float json_get hash_labels Hinj Hnn fp to_float quantile_o varpop stddevpop Hfp c d (norm_script s) fin p base);
    try assumption.
  - now rewrite norm_script_analyze.
  - now apply norm_script_ok.
  - now rewrite Eb.
Qed.

(* the former witness of the finding: sum(rate({a="b"}[5s])) over the streams {a="b",c="1"} and {a="b",c="2"}, one line each in
   one window. The planners, given the script as written, still keep the two streams (plan_metric ng_script: what
   clickhouse_planner.Plan does without the entry point); the reader hands over norm_script ng_script = sum(...) by (), whose
   statement yields the definition's ONE series {} with 0.4 - for every oracle. *)
Theorem ungrouped_sum_is_one_series :
  forall re_match parse_float json_get (hash_labels : LogqlSem.labels -> Z),
  (forall a b, hash_labels a = hash_labels b -> a = b) -> (forall a, 0 <= hash_labels a) ->
  forall (fp : lmap -> N) to_float quantile_o varpop stddevpop, (forall a b, fp a = fp b -> a = b) ->
  exists p, plan_metric (norm_script ng_script) true = Some p /\ analyze_m15 ng_script = false /\ script_ok ng_script /\
    db_ok dk_ctx dk_db /\ fp_of_labels_ok dk_db /\ agg_grouped ng_script = false /\
    option_map (map (fun r => (v_labels r, v_ts r, this (v_val r))))
      (option_map (map strip) (sem fp to_float quantile_o varpop stddevpop p dk_ctx (base_of re_match parse_float json_get hash_labels ng_script dk_ctx dk_db)))
      = Some [([], 1700000000000000000, (2 # 5)%Q)] /\
    option_map (map (fun r => (v_labels r, v_ts r, this (v_val r))))
      (metric_ref_def to_float quantile_o varpop stddevpop ng_script dk_ctx
         (map entry_of_out (log_lines re_match parse_float json_get hash_labels ng_script dk_ctx dk_db)))
      = Some [([], 1700000000000000000, (2 # 5)%Q)].
Proof.
  intros re_match parse_float json_get hash_labels Hinj Hnn fp to_float quantile_o varpop stddevpop Hfp.
  assert (Hp : exists p, plan_metric (norm_script ng_script) true = Some p) by (eexists; reflexivity). destruct Hp as [p Hp].
  assert (Href : option_map (map (fun r => (v_labels r, v_ts r, this (v_val r))))
      (metric_ref_def to_float quantile_o varpop stddevpop ng_script dk_ctx
         (map entry_of_out (log_lines re_match parse_float json_get hash_labels ng_script dk_ctx dk_db)))
      = Some [([], 1700000000000000000, (2 # 5)%Q)]) by (vm_compute; reflexivity).
  exists p. split; [exact Hp|]. split; [reflexivity|]. split; [cbv; reflexivity|].
  split; [apply dk_db_ok|]. split; [apply dk_db_ok|]. split; [reflexivity|]. split; [|exact Href].
  assert (Hok : script_ok ng_script) by (cbv; reflexivity).
  assert (Hs : 0 < c_step_ns dk_ctx) by reflexivity.
  assert (Hc : 0 <= c_from_ns dk_ctx) by (cbn; lia).
  destruct (metric_correct_db_definition re_match parse_float json_get hash_labels Hinj Hnn fp to_float quantile_o varpop stddevpop Hfp
              dk_ctx dk_db ng_script true p (base_of re_match parse_float json_get hash_labels ng_script dk_ctx dk_db) (eq_refl _) Hp
              Hok Hs (proj1 dk_db_ok) (proj2 dk_db_ok) Hc (Permutation_refl _)) as [E _].
  rewrite E. rewrite <- Href. f_equal.
Qed.
Example metric_correct_definition_hyp :
  analyze_m15 ng_script = false /\ (exists p, plan_metric (norm_script ng_script) true = Some p) /\ script_ok ng_script /\
  agg_grouped ng_script = false /\ norm_script ng_script <> ng_script.
Proof. split; [reflexivity|]. split; [eexists; reflexivity|]. split; [cbv; reflexivity|]. split; [reflexivity|]. discriminate. Qed.
Lemma norm_script_facts to_float quantile_o varpop stddevpop s c es :
  metric_ref_def to_float quantile_o varpop stddevpop s c es = metric_ref to_float quantile_o varpop stddevpop (norm_script s) c es
  /\ agg_grouped (norm_script s) = true /\ norm_script (norm_script s) = norm_script s.
Proof. split; [apply metric_ref_def_norm|split; [apply norm_script_grouped|apply norm_script_idem]]. Qed.
