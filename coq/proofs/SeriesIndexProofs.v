(* Proofs about model/SeriesIndex.v (property C04, histories). *)
From Coq Require Import List ZArith Lia Bool.
From Qryn Require Import model.SeriesIndex.
Import ListNotations.
Open Scope Z_scope.

(* ------------------------------------------------------------------ small facts *)
Lemma row_eqb_eq a b : row_eqb a b = true <-> a = b.
Proof.
  destruct a as [[a1 a2] a3], b as [[b1 b2] b3]. unfold row_eqb.
  rewrite !andb_true_iff, !Z.eqb_eq. split; [intros [[-> ->] ->]; reflexivity|intros H; inversion H; auto].
Qed.

Lemma mem_row_In x l : mem_row x l = true <-> In x l.
Proof.
  unfold mem_row. rewrite existsb_exists. split.
  - intros [y [Hy He]]. apply row_eqb_eq in He. now subst.
  - intros H. exists x. split; [assumption|now apply row_eqb_eq].
Qed.

Lemma nodup_z_In x l : In x (nodup_z l) <-> In x l.
Proof.
  induction l as [|y l IH]; cbn [nodup_z]; [tauto|].
  destruct (existsb (Z.eqb y) l) eqn:E.
  - rewrite IH. split; [auto with datatypes|]. intros [<-|H]; [|assumption].
    apply existsb_exists in E. destruct E as [z [Hz Hyz]]. apply Z.eqb_eq in Hyz. now subst.
  - cbn [In]. now rewrite IH.
Qed.

Lemma days_of_In d es : In d (days_of es) <-> exists e, In e es /\ day_of (e_ts e) = d.
Proof.
  unfold days_of. rewrite nodup_z_In, in_map_iff. split; intros [e [H1 H2]]; exists e; tauto.
Qed.

Lemma stype_eqb_eq a b : stype_eqb a b = true <-> a = b.
Proof. destruct a, b; cbn; split; intros H; try reflexivity; discriminate H. Qed.

Lemma types_of_complete e es : In e es -> In (e_type e) (types_of es).
Proof.
  intros H. unfold types_of. apply filter_In. split.
  - destruct (e_type e); cbn; auto.
  - apply existsb_exists. exists e. split; [assumption|now apply stype_eqb_eq].
Qed.

Lemma types_eqb_eq a b : types_eqb a b = true -> a = b.
Proof.
  revert b. induction a as [|x a IH]; intros [|y b] H; cbn [types_eqb] in H; try discriminate H; [reflexivity|].
  apply andb_true_iff in H. destruct H as [H1 H2]. apply stype_eqb_eq in H1. apply IH in H2. now subst.
Qed.

(* ------------------------------------------------------------------ the parser: one fact for all three folds
   an accumulator step is "good" when the cache and the rows only grow and every new cache entry is a new row *)
Definition grows (a b : list row * list row) : Prop :=
  incl (fst a) (fst b) /\ incl (snd a) (snd b) /\
  (forall x, In x (fst b) -> In x (fst a) \/ In x (snd b)).

Lemma grows_refl a : grows a a.
Proof. split; [apply incl_refl|]. split; [apply incl_refl|auto]. Qed.

Lemma grows_trans a b c : grows a b -> grows b c -> grows a c.
Proof.
  intros [A1 [A2 A3]] [B1 [B2 B3]]. split; [eapply incl_tran; eassumption|]. split; [eapply incl_tran; eassumption|].
  intros x Hx. destruct (B3 x Hx) as [H|H]; [|now right]. destruct (A3 x H) as [H'|H']; [now left|right; now apply B2].
Qed.

Lemma announce_type_spec d fp acc t :
  grows acc (announce_type d fp acc t) /\ In (d, fp, tcode t) (fst (announce_type d fp acc t)).
Proof.
  destruct acc as [c r]. unfold announce_type. destruct (mem_row (d, fp, tcode t) c) eqn:E.
  - split; [apply grows_refl|]. now apply mem_row_In.
  - cbn [fst snd]. split; [|now left]. split; [intros x Hx; now right|]. split; [intros x Hx; apply in_or_app; now left|].
    intros x [<-|Hx]; [right; apply in_or_app; right; now left|now left].
Qed.

Lemma announce_spec d fp : forall tps acc,
  grows acc (announce fp tps acc d) /\ forall t, In t tps -> In (d, fp, tcode t) (fst (announce fp tps acc d)).
Proof.
  unfold announce. induction tps as [|t tps IH]; intros acc; cbn [fold_left].
  - split; [apply grows_refl|intros ? []].
  - destruct (announce_type_spec d fp acc t) as [G1 M1]. destruct (IH (announce_type d fp acc t)) as [G2 M2].
    split; [eapply grows_trans; eassumption|]. intros t' [<-|Ht']; [|now apply M2].
    destruct G2 as [G2 _]. now apply G2.
Qed.

Lemma on_entries_spec s : forall acc,
  grows acc (on_entries acc s) /\
  forall e t, In e (s_entries s) -> In t (types_of (s_entries s)) ->
              In (day_of (e_ts e), s_fp s, tcode t) (fst (on_entries acc s)).
Proof.
  unfold on_entries.
  assert (G : forall days acc,
            grows acc (fold_left (announce (s_fp s) (types_of (s_entries s))) days acc) /\
            forall d t, In d days -> In t (types_of (s_entries s)) ->
                        In (d, s_fp s, tcode t) (fst (fold_left (announce (s_fp s) (types_of (s_entries s))) days acc))).
  { induction days as [|d days IH]; intros acc; cbn [fold_left].
    - split; [apply grows_refl|intros ? ? []].
    - destruct (announce_spec d (s_fp s) (types_of (s_entries s)) acc) as [G1 M1].
      destruct (IH (announce (s_fp s) (types_of (s_entries s)) acc d)) as [G2 M2].
      split; [eapply grows_trans; eassumption|]. intros d' t [<-|Hd] Ht; [|now apply M2].
      destruct G2 as [G2 _]. apply G2. now apply M1. }
  intros acc. destruct (G (days_of (s_entries s)) acc) as [G1 M1]. split; [assumption|].
  intros e t He Ht. apply M1; [|assumption]. apply days_of_In. exists e. auto.
Qed.

Lemma parse_fold : forall ss acc,
  grows acc (fold_left on_entries ss acc) /\
  forall s e t, In s ss -> In e (s_entries s) -> In t (types_of (s_entries s)) ->
                In (day_of (e_ts e), s_fp s, tcode t) (fst (fold_left on_entries ss acc)).
Proof.
  induction ss as [|s ss IH]; intros acc; cbn [fold_left].
  - split; [apply grows_refl|intros ? ? ? []].
  - destruct (on_entries_spec s acc) as [G1 M1]. destruct (IH (on_entries acc s)) as [G2 M2].
    split; [eapply grows_trans; eassumption|]. intros s' e t [<-|Hs] He Ht; [|now apply (M2 s' e t)].
    destruct G2 as [G2 _]. apply G2. now apply M1.
Qed.

Lemma parse_spec c0 ss c' rows :
  parse c0 ss = (c', rows) ->
  incl c0 c' /\
  (forall s e, In s ss -> In e (s_entries s) -> In (day_of (e_ts e), s_fp s, tcode (e_type e)) c') /\
  (forall x, In x c' -> In x c0 \/ In x rows).
Proof.
  unfold parse. intros H. destruct (parse_fold ss (c0, [])) as [[G1 [G2 G3]] M]. rewrite H in *. cbn [fst snd] in *.
  split; [assumption|]. split; [|assumption].
  intros s e Hs He. apply (M s e (e_type e) Hs He). now apply types_of_complete.
Qed.

Lemma samples_of_In fp d t ss :
  In (fp, d, t) (samples_of ss) ->
  exists s e, In s ss /\ In e (s_entries s) /\ fp = s_fp s /\ d = day_of (e_ts e) /\ t = tcode (e_type e).
Proof.
  unfold samples_of. rewrite in_flat_map. intros [s [Hs H]]. apply in_map_iff in H.
  destruct H as [e [He1 He2]]. inversion He1; subst. exists s, e. auto.
Qed.

(* ------------------------------------------------------------------ the invariant
   I: every announced triple has its row inserted (required only while no series insert has failed
      since the last reset);  J: every acknowledged sample has the row of its day and type. *)
Definition I (st : state) : Prop := incl (cache st) (ts_rows st).
Definition J (st : state) : Prop := forall fp d t, In (fp, d, t) (acked st) -> In (d, fp, t) (ts_rows st).

Definition next_dirty (a : action) : bool :=
  match a with CacheReset => false | Push _ ts_ok _ => negb ts_ok end.
Definition allowed (dirty : bool) (a : action) : Prop :=
  match a with CacheReset => True | Push _ _ _ => dirty = false end.

Lemma step_inv st a dirty :
  allowed dirty a -> J st -> (dirty = false -> I st) ->
  J (fst (step st a)) /\ (next_dirty a = false -> I (fst (step st a))).
Proof.
  intros Ha HJ HI. destruct a as [ss ts_ok spl_ok|]; cbn [step].
  - cbn [allowed] in Ha. specialize (HI Ha).
    destruct (parse (cache st) ss) as [c' rows] eqn:Ep. cbn [fst].
    apply parse_spec in Ep. destruct Ep as [P1 [P2 P3]].
    (* after the parse the cache is covered by the rows present, if the series insert took place or was not needed *)
    assert (Hcov : is_nil rows || ts_ok = true ->
                   incl c' (if ts_ok then rows ++ ts_rows st else ts_rows st)).
    { intros Hd x Hin. destruct (P3 x Hin) as [H0|Hr].
      - apply HI in H0. destruct ts_ok; [apply in_or_app; now right|assumption].
      - destruct ts_ok; [apply in_or_app; now left|].
        rewrite orb_false_r in Hd. destruct rows; [destruct Hr|discriminate Hd]. }
    split.
    + intros fp d t Hin. cbn [acked ts_rows] in *.
      destruct (is_nil rows || ts_ok) eqn:Ed; cbn [andb] in Hin.
      * destruct spl_ok; cbn in Hin.
        -- apply in_app_or in Hin. destruct Hin as [Hin|Hin].
           ++ apply samples_of_In in Hin. destruct Hin as [s [e [Hs [He [-> [-> ->]]]]]].
              apply (Hcov eq_refl). now apply (P2 s e).
           ++ pose proof (HJ _ _ _ Hin) as Ht'. destruct ts_ok; [apply in_or_app; now right|assumption].
        -- pose proof (HJ _ _ _ Hin) as Ht'. destruct ts_ok; [apply in_or_app; now right|assumption].
      * pose proof (HJ _ _ _ Hin) as Ht'. destruct ts_ok; [apply in_or_app; now right|assumption].
    + cbn [next_dirty]. intros Hn. apply negb_false_iff in Hn. subst ts_ok.
      unfold I. cbn [cache ts_rows]. apply (Hcov (orb_true_r _)).
  - cbn [fst next_dirty]. split; [exact HJ|]. intros _ x [].
Qed.

Lemma clean_step dirty a h :
  clean_hist dirty (a :: h) = true -> allowed dirty a /\ clean_hist (next_dirty a) h = true.
Proof.
  destruct a as [ss ts_ok spl_ok|]; cbn [clean_hist allowed next_dirty].
  - intros H. apply andb_true_iff in H. destruct H as [H1 H2]. apply negb_true_iff in H1. auto.
  - auto.
Qed.

Lemma run_inv : forall h st dirty,
  clean_hist dirty h = true -> J st -> (dirty = false -> I st) -> J (run st h).
Proof.
  induction h as [|a h IH]; intros st dirty Hc HJ HI; cbn [run]; [assumption|].
  apply clean_step in Hc. destruct Hc as [Ha Hc].
  destruct (step_inv st a dirty Ha HJ HI) as [HJ' HI'].
  exact (IH _ _ Hc HJ' HI').
Qed.

(* ------------------------------------------------------------------ boolean forms *)
Lemma indexed_typed_of_row rows fp d t : In (d, fp, t) rows -> indexed_typed rows (fp, d, t) = true.
Proof.
  intros H. cbn [indexed_typed]. apply existsb_exists. exists (d, fp, t). split; [assumption|].
  now rewrite !Z.eqb_refl.
Qed.

Lemma indexed_typed_indexed rows s : indexed_typed rows s = true -> indexed rows s = true.
Proof.
  destruct s as [[fp d] t]. cbn [indexed_typed indexed]. rewrite !existsb_exists.
  intros [[[rd rfp] rt] [Hin H]]. exists (rd, rfp, rt). split; [assumption|].
  apply andb_true_iff in H. tauto.
Qed.

Lemma all_typed_all st : all_indexed_typed st = true -> all_indexed st = true.
Proof.
  unfold all_indexed_typed, all_indexed. rewrite !forallb_forall. intros H s Hs. apply indexed_typed_indexed. now apply H.
Qed.

Lemma acked_indexed_typed_clean h : clean_hist false h = true -> all_indexed_typed (run init h) = true.
Proof.
  intros Hc. unfold all_indexed_typed. apply forallb_forall. intros [[fp d] t] Hin.
  assert (HJ : J (run init h)).
  { apply (run_inv h init false Hc); [intros ? ? ? []|intros _ ? []]. }
  apply indexed_typed_of_row. now apply HJ.
Qed.

Lemma acked_indexed_clean h : clean_hist false h = true -> all_indexed (run init h) = true.
Proof. intros Hc. apply all_typed_all. now apply acked_indexed_typed_clean. Qed.

(* ------------------------------------------------------------------ witnesses *)
(* one series, one log line on 2024-01-10 *)
Definition w_stream : stream := {| s_fp := 7; s_entries := [{| e_ts := 1704888000000000000; e_type := TLog |}] |}.
(* #13: the series insert of the first push fails (client sees 5xx, samples are stored); the client
   retries the identical push, which is acknowledged although no series row was ever inserted *)
Definition w_retry : list action := [Push [w_stream] false true; Push [w_stream] true true].
Lemma w_retry_not_indexed : all_indexed (run init w_retry) = false.
Proof. vm_compute. reflexivity. Qed.

(* the witness of the fixed type defect: the same labels first with a log line, then with a metric
   value on the same day. The second push now announces (day, fp, 2) and inserts the type-2 row. *)
Definition w_stream_metric : stream := {| s_fp := 7; s_entries := [{| e_ts := 1704888060000000000; e_type := TMetric |}] |}.
Definition w_types : list action := [Push [w_stream] true true; Push [w_stream_metric] true true].
Example w_types_indexed :
  all_indexed_typed (run init w_types) = true /\ ts_rows (run init w_types) = [(19732, 7, 2); (19732, 7, 1)].
Proof. vm_compute. split; reflexivity. Qed.

(* the guard is satisfiable by histories with faults, resets, several pushes of a series and varying types *)
Definition w_clean : list action :=
  [Push [w_stream] true true; Push [w_stream; w_stream_metric] false true; CacheReset;
   Push [w_stream_metric] true false; Push [w_stream] true true].
Example w_clean_ok : clean_hist false w_clean = true /\ types_stable w_clean = false /\ acked (run init w_clean) <> [].
Proof. vm_compute. split; [reflexivity|]. split; [reflexivity|discriminate]. Qed.
